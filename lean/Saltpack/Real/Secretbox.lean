/-
Salsa20 / HSalsa20 / XSalsa20, Poly1305 and NaCl `secretbox`, byte-exact with
`golang.org/x/crypto/nacl/secretbox`. Executable code only, no proofs.
-/
import Saltpack.Real.Bytes

namespace Saltpack.Real
namespace Salsa

/-- The 4×4 Salsa20 state (row-major words `x0 … x15`). -/
structure State where
  (x0 x1 x2 x3 x4 x5 x6 x7 x8 x9 x10 x11 x12 x13 x14 x15 : UInt32)

@[inline] def rotl (x n : UInt32) : UInt32 := (x <<< n) ||| (x >>> (32 - n))

/-- One double round (column round then row round). -/
def dround : State → State
  | ⟨x0, x1, x2, x3, x4, x5, x6, x7, x8, x9, x10, x11, x12, x13, x14, x15⟩ =>
    let x4 := x4 ^^^ rotl (x0 + x12) 7
    let x8 := x8 ^^^ rotl (x4 + x0) 9
    let x12 := x12 ^^^ rotl (x8 + x4) 13
    let x0 := x0 ^^^ rotl (x12 + x8) 18
    let x9 := x9 ^^^ rotl (x5 + x1) 7
    let x13 := x13 ^^^ rotl (x9 + x5) 9
    let x1 := x1 ^^^ rotl (x13 + x9) 13
    let x5 := x5 ^^^ rotl (x1 + x13) 18
    let x14 := x14 ^^^ rotl (x10 + x6) 7
    let x2 := x2 ^^^ rotl (x14 + x10) 9
    let x6 := x6 ^^^ rotl (x2 + x14) 13
    let x10 := x10 ^^^ rotl (x6 + x2) 18
    let x3 := x3 ^^^ rotl (x15 + x11) 7
    let x7 := x7 ^^^ rotl (x3 + x15) 9
    let x11 := x11 ^^^ rotl (x7 + x3) 13
    let x15 := x15 ^^^ rotl (x11 + x7) 18
    let x1 := x1 ^^^ rotl (x0 + x3) 7
    let x2 := x2 ^^^ rotl (x1 + x0) 9
    let x3 := x3 ^^^ rotl (x2 + x1) 13
    let x0 := x0 ^^^ rotl (x3 + x2) 18
    let x6 := x6 ^^^ rotl (x5 + x4) 7
    let x7 := x7 ^^^ rotl (x6 + x5) 9
    let x4 := x4 ^^^ rotl (x7 + x6) 13
    let x5 := x5 ^^^ rotl (x4 + x7) 18
    let x11 := x11 ^^^ rotl (x10 + x9) 7
    let x8 := x8 ^^^ rotl (x11 + x10) 9
    let x9 := x9 ^^^ rotl (x8 + x11) 13
    let x10 := x10 ^^^ rotl (x9 + x8) 18
    let x12 := x12 ^^^ rotl (x15 + x14) 7
    let x13 := x13 ^^^ rotl (x12 + x15) 9
    let x14 := x14 ^^^ rotl (x13 + x12) 13
    let x15 := x15 ^^^ rotl (x14 + x13) 18
    ⟨x0, x1, x2, x3, x4, x5, x6, x7, x8, x9, x10, x11, x12, x13, x14, x15⟩

/-- 20 rounds. -/
def rounds (s : State) : State :=
  dround (dround (dround (dround (dround (dround (dround (dround (dround (dround s)))))))))

/-- Initial state: sigma = "expand 32-byte k", 32-byte key, and the four words `n0 … n3`
    (nonce ‖ block counter for Salsa20, the 16-byte input for HSalsa20). -/
@[inline] def init (key : ByteArray) (n0 n1 n2 n3 : UInt32) : State :=
  ⟨0x61707865, le32 key 0, le32 key 4, le32 key 8, le32 key 12,
   0x3320646e, n0, n1, n2, n3,
   0x79622d32, le32 key 16, le32 key 20, le32 key 24, le32 key 28, 0x6b206574⟩

/-- HSalsa20: 32-byte subkey from a 32-byte key and a 16-byte input (offset `off` in `inp`). -/
def hsalsa20 (key inp : ByteArray) (off : Nat := 0) : ByteArray :=
  let s := rounds (init key (le32 inp off) (le32 inp (off+4)) (le32 inp (off+8)) (le32 inp (off+12)))
  [s.x0, s.x5, s.x10, s.x15, s.x6, s.x7, s.x8, s.x9].foldl pushLe32 (ByteArray.emptyWithCapacity 32)

/-- Salsa20 keystream block number `ctr` (64 bytes) for `key` and nonce words `n0 n1`,
    appended to `out`. -/
def block (key : ByteArray) (n0 n1 : UInt32) (ctr : UInt64) (out : ByteArray) : ByteArray :=
  let i := init key n0 n1 ctr.toUInt32 (ctr >>> 32).toUInt32
  let s := rounds i
  [s.x0 + i.x0, s.x1 + i.x1, s.x2 + i.x2, s.x3 + i.x3, s.x4 + i.x4, s.x5 + i.x5,
   s.x6 + i.x6, s.x7 + i.x7, s.x8 + i.x8, s.x9 + i.x9, s.x10 + i.x10, s.x11 + i.x11,
   s.x12 + i.x12, s.x13 + i.x13, s.x14 + i.x14, s.x15 + i.x15].foldl pushLe32 out

/-- XSalsa20: `data` XOR keystream (32-byte key, 24-byte nonce, counter from 0). -/
def xsalsa20Xor (key nonce data : ByteArray) : ByteArray := Id.run do
  let sub := hsalsa20 key nonce
  let n0 := le32 nonce 16
  let n1 := le32 nonce 20
  let mut out := ByteArray.emptyWithCapacity data.size
  for b in [0:(data.size + 63) / 64] do
    let ks := block sub n0 n1 b.toUInt64 (ByteArray.emptyWithCapacity 64)
    for j in [0:min 64 (data.size - 64*b)] do
      out := out.push (byteAt data (64*b + j) ^^^ byteAt ks j)
  return out

end Salsa

/-- Poly1305 one-time authenticator of `m[off:]` under the 32-byte key `key` (16-byte tag). -/
def poly1305 (key m : ByteArray) (off : Nat := 0) : ByteArray := Id.run do
  let p : Nat := 2^130 - 5
  let r := natOfLE key 0 16 &&& 0x0ffffffc0ffffffc0ffffffc0fffffff
  let s := natOfLE key 16 32
  let len := m.size - off
  let mut acc : Nat := 0
  for i in [0:len / 16] do
    let o := off + 16*i
    let blk := (le64 m o).toNat ||| ((le64 m (o + 8)).toNat <<< 64) ||| (1 <<< 128)
    acc := (acc + blk) * r % p
  let rem := len % 16
  if rem != 0 then
    let blk := natOfLE m (m.size - rem) m.size ||| (1 <<< (8 * rem))
    acc := (acc + blk) * r % p
  return natToLE (acc + s) 16

/-- NaCl `secretbox.Seal`: 16-byte Poly1305 tag ‖ XSalsa20 ciphertext. Key 32, nonce 24 bytes. -/
def secretboxSeal (key nonce msg : ByteArray) : ByteArray :=
  -- keystream bytes 0..31 are the Poly1305 key, the message starts at keystream byte 32
  let c := Salsa.xsalsa20Xor key nonce (zeros 32 ++ msg)
  poly1305 (c.extract 0 32) c 32 ++ c.extract 32 c.size

/-- NaCl `secretbox.Open`: `none` if `box.size < 16` or the tag does not match. -/
def secretboxOpen (key nonce box : ByteArray) : Option ByteArray :=
  if box.size < 16 then none else
  let polyKey := Salsa.xsalsa20Xor key nonce (zeros 32)
  if !bytesEq (poly1305 polyKey box 16) (box.extract 0 16) then none else
  let m := Salsa.xsalsa20Xor key nonce (zeros 32 ++ box.extract 16 box.size)
  some (m.extract 32 m.size)

end Saltpack.Real
