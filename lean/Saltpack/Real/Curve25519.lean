/-
GF(2^255 − 19) on `Nat`, X25519 (RFC 7748) and NaCl `box.Precompute`, byte-exact with
`golang.org/x/crypto/curve25519` (`ScalarMult` / `ScalarBaseMult`) and
`golang.org/x/crypto/nacl/box`. Executable code only, no proofs.
-/
import Saltpack.Real.Secretbox

namespace Saltpack.Real
namespace Fe

/-- The field prime `2^255 − 19`. -/
def p : Nat := 2^255 - 19

@[inline] def add (a b : Nat) : Nat := (a + b) % p
@[inline] def sub (a b : Nat) : Nat := (a + p - b) % p     -- requires `b ≤ p`
@[inline] def mul (a b : Nat) : Nat := a * b % p
@[inline] def sq (a : Nat) : Nat := a * a % p
@[inline] def neg (a : Nat) : Nat := (p - a) % p           -- requires `a ≤ p`
/-- Inverse by Fermat (`inv 0 = 0`). -/
def inv (a : Nat) : Nat := powMod a (p - 2) p

end Fe

open Fe in
/-- X25519 (RFC 7748 §5): the scalar is clamped, the top bit of the point is ignored and
    non-canonical `u ≥ p` are reduced. Low-order inputs give the all-zero output (like Go's
    `curve25519.ScalarMult`; the newer `curve25519.X25519` turns that case into an error). -/
def x25519 (scalar point : ByteArray) : ByteArray := Id.run do
  let k := (natOfLE scalar 0 32 &&& (2^255 - 8)) ||| 2^254
  let x1 := (natOfLE point 0 32 &&& (2^255 - 1)) % p
  let mut x2 := 1
  let mut z2 := 0
  let mut x3 := x1
  let mut z3 := 1
  let mut swap := false
  for i in [0:255] do
    let bit := k.testBit (254 - i)
    if swap != bit then
      (x2, x3) := (x3, x2)
      (z2, z3) := (z3, z2)
    swap := bit
    let a := add x2 z2
    let aa := sq a
    let b := sub x2 z2
    let bb := sq b
    let e := sub aa bb
    let da := mul (sub x3 z3) a
    let cb := mul (add x3 z3) b
    x3 := sq (add da cb)
    z3 := mul x1 (sq (sub da cb))
    x2 := mul aa bb
    z2 := mul e (add aa (mul 121665 e))
  if swap then
    (x2, x3) := (x3, x2)
    (z2, z3) := (z3, z2)
  return natToLE (mul x2 (inv z2)) 32

/-- The X25519 base point `u = 9`. -/
def x25519BasePoint : ByteArray := (ByteArray.empty.push 9) ++ zeros 31

/-- Curve25519 public key of a 32-byte secret key. -/
def x25519Base (scalar : ByteArray) : ByteArray := x25519 scalar x25519BasePoint

/-- NaCl `box.Precompute`: HSalsa20 (zero input) of the X25519 shared secret. -/
def boxPrecompute (sk peerPk : ByteArray) : ByteArray :=
  Salsa.hsalsa20 (x25519 sk peerPk) (zeros 16)

end Saltpack.Real
