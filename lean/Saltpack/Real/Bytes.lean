/-
Byte-level helpers shared by the executable ("Real") crypto primitives:
hex, fixed-width loads/stores, little-endian `Nat` conversion.
Core Lean only (this is linked into a compiled `lean_exe`).
-/
namespace Saltpack.Real

/-- `n` zero bytes. -/
def zeros (n : Nat) : ByteArray := ByteArray.mk (Array.replicate n 0)

/-- Byte `i`, or `0` when out of range (total, no panic). -/
@[inline] def byteAt (b : ByteArray) (i : Nat) : UInt8 := if h : i < b.size then b[i] else 0

/-- Equality of byte strings. -/
def bytesEq (a b : ByteArray) : Bool := a.data == b.data

/-! ### Hex -/

private def hexDigit (n : UInt8) : Char :=
  if n < 10 then Char.ofNat (48 + n.toNat) else Char.ofNat (87 + n.toNat)

def toHex (b : ByteArray) : String := Id.run do
  let mut s := ""
  for x in b do
    s := (s.push (hexDigit (x >>> 4))).push (hexDigit (x &&& 15))
  return s

private def hexVal (c : UInt8) : Option UInt8 :=
  if 48 ≤ c && c ≤ 57 then some (c - 48)
  else if 97 ≤ c && c ≤ 102 then some (c - 87)
  else if 65 ≤ c && c ≤ 70 then some (c - 55)
  else none

/-- Decode the hex digits `s[lo:hi]` (ASCII bytes); `none` on odd length / bad digit. -/
def ofHexBytes (s : ByteArray) (lo hi : Nat) : Option ByteArray := Id.run do
  if (hi - lo) % 2 != 0 then return none
  let mut out := ByteArray.emptyWithCapacity ((hi - lo) / 2)
  for k in [0:(hi - lo) / 2] do
    match hexVal (byteAt s (lo + 2*k)), hexVal (byteAt s (lo + 2*k + 1)) with
    | some a, some b => out := out.push ((a <<< 4) ||| b)
    | _, _ => return none
  return some out

def ofHex (s : String) : Option ByteArray :=
  let u := s.toUTF8; ofHexBytes u 0 u.size

/-! ### Fixed-width loads / stores -/

@[inline] def le32 (b : ByteArray) (i : Nat) : UInt32 :=
  (byteAt b i).toUInt32 ||| ((byteAt b (i+1)).toUInt32 <<< 8) |||
  ((byteAt b (i+2)).toUInt32 <<< 16) ||| ((byteAt b (i+3)).toUInt32 <<< 24)

@[inline] def le64 (b : ByteArray) (i : Nat) : UInt64 :=
  (le32 b i).toUInt64 ||| ((le32 b (i+4)).toUInt64 <<< 32)

@[inline] def be64 (b : ByteArray) (i : Nat) : UInt64 :=
  ((byteAt b i).toUInt64 <<< 56) ||| ((byteAt b (i+1)).toUInt64 <<< 48) |||
  ((byteAt b (i+2)).toUInt64 <<< 40) ||| ((byteAt b (i+3)).toUInt64 <<< 32) |||
  ((byteAt b (i+4)).toUInt64 <<< 24) ||| ((byteAt b (i+5)).toUInt64 <<< 16) |||
  ((byteAt b (i+6)).toUInt64 <<< 8) ||| (byteAt b (i+7)).toUInt64

@[inline] def pushLe32 (b : ByteArray) (w : UInt32) : ByteArray :=
  (((b.push w.toUInt8).push (w >>> 8).toUInt8).push (w >>> 16).toUInt8).push (w >>> 24).toUInt8

@[inline] def pushBe64 (b : ByteArray) (w : UInt64) : ByteArray :=
  ((((((((b.push (w >>> 56).toUInt8).push (w >>> 48).toUInt8).push (w >>> 40).toUInt8).push
    (w >>> 32).toUInt8).push (w >>> 24).toUInt8).push (w >>> 16).toUInt8).push
    (w >>> 8).toUInt8).push w.toUInt8)

/-! ### Little-endian `Nat` -/

/-- Little-endian value of `b[lo:hi]`. -/
def natOfLE (b : ByteArray) (lo hi : Nat) : Nat := Id.run do
  let mut n := 0
  for k in [0:hi - lo] do
    n := (n <<< 8) ||| (byteAt b (hi - 1 - k)).toNat
  return n

/-- The low `len` bytes of `n`, little-endian. -/
def natToLE (n len : Nat) : ByteArray := Id.run do
  let mut out := ByteArray.emptyWithCapacity len
  let mut n := n
  for _ in [0:len] do
    out := out.push n.toUInt8
    n := n >>> 8
  return out

/-- `b ^ e mod m` by square-and-multiply (LSB first). -/
def powMod (b e m : Nat) : Nat := Id.run do
  let mut r := 1 % m
  let mut b := b % m
  for i in [0:e.log2 + 1] do
    if e.testBit i then r := r * b % m
    b := b * b % m
  return r

end Saltpack.Real
