/-
Ed25519 (RFC 8032, pure), byte-exact with Go's `crypto/ed25519` (= `x/crypto/ed25519`),
including its accept/reject behaviour in `Verify`. Executable code only, no proofs.
-/
import Saltpack.Real.Sha512
import Saltpack.Real.Curve25519

namespace Saltpack.Real
namespace Ed

open Fe

/-- Group order of the base point. -/
def L : Nat := 2^252 + 27742317777372353535851937790883648493
/-- Curve constant `d = −121665/121666`. -/
def d : Nat := mul (neg 121665) (inv 121666)
def d2 : Nat := add d d
/-- `√−1 = 2^((p−1)/4)`. -/
def sqrtM1 : Nat := powMod 2 ((p - 1) / 4) p

/-- Extended twisted-Edwards coordinates: `x = X/Z`, `y = Y/Z`, `T = XY/Z`. -/
structure Point where
  (X Y Z T : Nat)

def Point.zero : Point := ⟨0, 1, 1, 0⟩
def Point.neg (q : Point) : Point := ⟨Fe.neg q.X, q.Y, q.Z, Fe.neg q.T⟩

/-- Unified (complete) addition, "add-2008-hwcd-3" for `a = −1`; also used for doubling. -/
def Point.add (q r : Point) : Point :=
  let a := mul (sub q.Y q.X) (sub r.Y r.X)
  let b := mul (Fe.add q.Y q.X) (Fe.add r.Y r.X)
  let c := mul (mul q.T d2) r.T
  let dd := mul (Fe.add q.Z q.Z) r.Z
  let e := sub b a
  let f := sub dd c
  let g := Fe.add dd c
  let h := Fe.add b a
  ⟨mul e f, mul g h, mul f g, mul e h⟩

/-- `[k]q` by left-to-right double-and-add. -/
def Point.smul (k : Nat) (q : Point) : Point := Id.run do
  let mut acc := Point.zero
  let n := k.log2 + 1
  for i in [0:n] do
    acc := acc.add acc
    if k.testBit (n - 1 - i) then acc := acc.add q
  return acc

/-- RFC 8032 §5.1.2 encoding: `y` little-endian with the parity of `x` in the top bit. -/
def Point.encode (q : Point) : ByteArray :=
  let zi := inv q.Z
  let x := mul q.X zi
  let y := mul q.Y zi
  natToLE (y ||| ((x % 2) <<< 255)) 32

/-- Decoding as Go's `edwards25519.Point.SetBytes`: `y` is taken mod `p` (non-canonical `y`
    accepted), fails iff `(y²−1)/(dy²+1)` is not a square; the sign bit selects `−x` even
    when `x = 0`. Expects 32 bytes. -/
def decode (b : ByteArray) : Option Point :=
  let n := natOfLE b 0 32
  let y := (n &&& (2^255 - 1)) % p
  let yy := sq y
  let w := mul (sub yy 1) (inv (Fe.add (mul d yy) 1))      -- x² (dy²+1 ≠ 0 always)
  let r := powMod w ((p + 3) / 8) p
  let x? := if sq r == w then some r
            else if sq r == Fe.neg w then some (mul r sqrtM1) else none
  x?.map fun x =>
    let x := if x % 2 == 1 then Fe.neg x else x            -- the non-negative root
    let x := if n.testBit 255 then Fe.neg x else x
    ⟨x, y, 1, mul x y⟩

/-- The base point: `y = 4/5`, `x` even. -/
def B : Point := (decode (natToLE (mul 4 (inv 5)) 32)).getD Point.zero

/-- Secret scalar (clamped) and nonce prefix derived from a 32-byte seed. -/
def expand (seed : ByteArray) : Nat × ByteArray :=
  let h := sha512 seed
  ((natOfLE h 0 32 &&& (2^255 - 8)) ||| 2^254, h.extract 32 64)

end Ed

open Ed in
/-- Ed25519 public key (32 bytes) of a 32-byte seed. -/
def ed25519Pub (seed : ByteArray) : ByteArray := (B.smul (expand seed).1).encode

open Ed in
/-- Deterministic Ed25519 signature `R ‖ S` (64 bytes); equals Go's
    `ed25519.Sign(ed25519.NewKeyFromSeed(seed), msg)`. -/
def ed25519Sign (seed msg : ByteArray) : ByteArray :=
  let (a, pre) := expand seed
  let pk := (B.smul a).encode
  let r := natOfLE (sha512 (pre ++ msg)) 0 64 % L
  let R := (B.smul r).encode
  let k := natOfLE (sha512 (R ++ pk ++ msg)) 0 64 % L
  R ++ natToLE ((r + k * a) % L) 32

open Ed in
/-- Go's `ed25519.Verify`, totalised: `false` on a wrong-size key (Go panics there) or
    signature, undecodable key, or `S ≥ L`; otherwise the cofactorless check
    `encode([S]B − [k]A) = sig[0:32]` on bytes (so a non-canonical `R` never verifies). -/
def ed25519Verify (pk msg sig : ByteArray) : Bool :=
  if pk.size != 32 || sig.size != 64 then false else
  match decode pk with
  | none => false
  | some A =>
    let s := natOfLE sig 32 64
    if s ≥ L then false else
    let k := natOfLE (sha512 (sig.extract 0 32 ++ pk ++ msg)) 0 64 % L
    bytesEq ((B.smul s).add (A.neg.smul k)).encode (sig.extract 0 32)

end Saltpack.Real
