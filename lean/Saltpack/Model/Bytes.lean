/-
  Saltpack.Model.Bytes — byte strings and the few generic list helpers the
  whole model shares.  Core Lean only (this file is linked into `spmodel`).
-/
deriving instance DecidableEq for Except

namespace Saltpack

abbrev Bytes := List UInt8

/-- `chunks n l`: consecutive pieces of length `n` (the last one may be shorter,
    never empty).  `chunks n [] = []`.  For `n = 0` the whole list is one piece
    (the code never uses a zero block size).  Structural (fuel = length) so that
    the kernel can evaluate it. -/
def chunksAux {α : Type} (n : Nat) : (fuel : Nat) → List α → List (List α)
  | 0, _ => []
  | fuel + 1, l =>
    if l.isEmpty then []
    else if n = 0 ∨ l.length ≤ n then [l]
    else l.take n :: chunksAux n fuel (l.drop n)

def chunks {α : Type} (n : Nat) (l : List α) : List (List α) := chunksAux n l.length l

/-- big-endian value of a byte string -/
def natOfBytes (bs : Bytes) : Nat := bs.foldl (fun a b => a * 256 + b.toNat) 0

/-- big-endian value of a digit string in base `base` -/
def natOfDigits (base : Nat) (ds : List Nat) : Nat := ds.foldl (fun a d => a * base + d) 0

/-- exactly `len` big-endian digits of `n` (i.e. of `n mod base^len`) -/
def digitsOfNat (base : Nat) : (len : Nat) → Nat → List Nat
  | 0, _ => []
  | len + 1, n => digitsOfNat base len (n / base) ++ [n % base]

/-- exactly `len` big-endian bytes of `n` -/
def bytesOfNat (len n : Nat) : Bytes := (digitsOfNat 256 len n).map UInt8.ofNat

/-- 8-byte big-endian encoding of `n mod 2^64` (binary.BigEndian.PutUint64) -/
def be64 (n : Nat) : Bytes := bytesOfNat 8 (n % 2 ^ 64)

/-- 4-byte big-endian decode (binary.BigEndian.Uint32) -/
def be32Val (b : Bytes) : Nat := natOfBytes (b.take 4)

def zeros (n : Nat) : Bytes := List.replicate n 0

def strBytes (s : String) : Bytes := s.toUTF8.toList

end Saltpack
