/-
  Saltpack.Model.Encrypt — encrypt.go (sender side of encryption V1/V2).

  `seal` is the whole of `Seal`/`NewEncryptStream`+`Write`*+`Close` as a pure
  function of the inputs *after* randomness has been resolved (receiver order,
  ephemeral secret, payload key); `sealRand` adds the consumption of the
  randomness source in the order the code performs it.  The streaming writer's
  buffering is in Stream/Chunker.lean (any split of the plaintext over `Write`
  calls yields these same packets).

  Core Lean only.
-/
import Saltpack.Model.Packets
import Saltpack.Model.Rand

namespace Saltpack.Encrypt
open Saltpack Msgpack

/-- a recipient as the caller supplies it: public key and `HideIdentity()` -/
structure Recipient where
  pub : Bytes
  hidden : Bool
  deriving Repr, DecidableEq, Inhabited

/-- `checkEncryptReceivers` (count bounds; pairwise distinct key ids) -/
def checkReceivers (rs : List Recipient) : Except Err Unit :=
  if rs.isEmpty then .error .badReceivers
  else if rs.length > Gen.c_sp_maxReceiverCount.toNat then .error .badReceivers
  else if (rs.map (·.pub)).Nodup then .ok () else .error .repeatedKey

section
variable (P : Prims)

/-- the plaintext split into the chunks the stream emits, with their final
    flags: V2 — chunks of `blockSize`, the last one final (an empty message is
    one empty final chunk); V1 — the chunks, then an empty final chunk. -/
def chunkPlan (v : Version) (bs : Nat) (pt : Bytes) : List (Bytes × Bool) :=
  let cs := chunks bs pt
  if v = v1 then cs.map (·, false) ++ [([], true)]
  else if cs.isEmpty then [([], true)]
  else (cs.dropLast.map (·, false)) ++ [(cs.getLast!, true)]

/-- `computeMACKeySender` -/
def macKeySender (v : Version) (index : Nat) (secret eSecret pub headerHash : Bytes) : Except Err Bytes :=
  if v = v1 then .ok (macKeySingle P secret pub (Nonce.macKeyBoxV1 headerHash))
  else if v = v2 then
    let mac := macKeySingle P secret pub (Nonce.macKeyBoxV2 headerHash false index)
    let eMac := macKeySingle P eSecret pub (Nonce.macKeyBoxV2 headerHash true index)
    .ok (sum512Truncate256 P (mac ++ eMac))
  else .error (.panic "computeMACKeySender")

def macKeysSender (v : Version) (secret eSecret headerHash : Bytes) :
    List Recipient → Nat → Except Err (List Bytes)
  | [], _ => .ok []
  | r :: rs, i =>
    match macKeySender P v i secret eSecret r.pub headerHash, macKeysSender v secret eSecret headerHash rs (i + 1) with
    | .ok k, .ok ks => .ok (k :: ks)
    | .error e, _ => .error e
    | _, .error e => .error e

/-- the calls `computeMACKeysSender` makes on the *long-term* sender key object
    (C12): one `Box` of 32 zero bytes per receiver (the second V2 box is made by
    the ephemeral key).  An anonymous sender has no long-term key. -/
def senderCalls (v : Version) (sender : Option Bytes) (headerHash : Bytes) : List Recipient → Nat → List KeyCall
  | [], _ => []
  | r :: rs, i =>
    (match sender with
     | none => []
     | some s =>
       if v = v1 then [KeyCall.box s r.pub (Nonce.macKeyBoxV1 headerHash) (zeros 32)]
       else [KeyCall.box s r.pub (Nonce.macKeyBoxV2 headerHash false i) (zeros 32)])
    ++ senderCalls v sender headerHash rs (i + 1)

/-- receiver entries of the header, in (already shuffled) order -/
def receiverEntries (v : Version) (eph payloadKey : Bytes) : List Recipient → Nat → Except Err (List RecvKeys)
  | [], _ => .ok []
  | r :: rs, i =>
    match Nonce.payloadKeyBox v i, receiverEntries v eph payloadKey rs (i + 1) with
    | .ok n, .ok es =>
      .ok (⟨if r.hidden then none else some r.pub, P.box eph r.pub n payloadKey⟩ :: es)
    | .error e, _ => .error e
    | _, .error e => .error e

/-- `encryptStream.init`: header, header hash, MAC keys.  `sender = none` is the
    anonymous sender (the ephemeral key is used in its place). -/
def header (v : Version) (sender : Option Bytes) (eph payloadKey : Bytes) (rs : List Recipient) :
    Except Err EncHeader :=
  let senderSec := sender.getD eph
  match receiverEntries P v eph payloadKey rs 0 with
  | .error e => .error e
  | .ok es =>
    .ok { formatName := Gen.c_sp_FormatName, version := v, typ := mtEncryption,
          ephemeral := P.boxPub eph,
          senderSecretbox := P.sbSeal payloadKey Nonce.senderKeySecretBox (P.boxPub senderSec),
          receivers := es }

/-- `encryptBlock` for chunk number `i`, as the packet structure -/
def blockStruct (v : Version) (payloadKey headerHash : Bytes) (macKeys : List Bytes)
    (i : Nat) (chunk : Bytes) (isFinal : Bool) : Except Err EncBlock :=
  if !blockNumberOK i then .error .packetOverflow
  else
    let nonce := Nonce.chunkSecretBox i
    let ct := P.sbSeal payloadKey nonce chunk
    match payloadHash P v headerHash nonce ct isFinal with
    | .error e => .error e
    | .ok h => .ok ⟨macKeys.map (fun k => payloadAuthenticator P k h), ct, isFinal⟩

def blockStructs (v : Version) (payloadKey headerHash : Bytes) (macKeys : List Bytes) :
    List (Bytes × Bool) → Nat → Except Err (List EncBlock)
  | [], _ => .ok []
  | (c, f) :: rest, i =>
    match blockStruct P v payloadKey headerHash macKeys i c f, blockStructs v payloadKey headerHash macKeys rest (i + 1) with
    | .ok b, .ok bs => .ok (b :: bs)
    | .error e, _ => .error e
    | _, .error e => .error e

/-- bytes of the payload packets -/
def encodeBlocks (v : Version) : List EncBlock → Except Err Bytes
  | [] => .ok []
  | b :: bs =>
    match encBlockVal v b.auths b.ct b.final, encodeBlocks v bs with
    | .ok val, .ok rest => .ok (encode val ++ rest)
    | .error e, _ => .error e
    | _, .error e => .error e

/-- what `Seal` produces, as structures: header, header bytes, payload packets;
    `rs` is the receiver list *in header order* -/
def sealPackets (bs : Nat) (v : Version) (sender : Option Bytes) (rs : List Recipient)
    (eph payloadKey : Bytes) (pt : Bytes) : Except Err (EncHeader × Bytes × List EncBlock) :=
  if !knownVersion v then .error .badVersion
  else match checkReceivers rs with
  | .error e => .error e
  | .ok () =>
    match header P v sender eph payloadKey rs with
    | .error e => .error e
    | .ok h =>
      let headerBytes := encode h.toVal
      let hh := P.hash headerBytes
      match macKeysSender P v (sender.getD eph) eph hh rs 0 with
      | .error e => .error e
      | .ok mks =>
        match blockStructs P v payloadKey hh mks (chunkPlan v bs pt) 0 with
        | .error e => .error e
        | .ok blks => .ok (h, headerBytes, blks)

/-- like `sealPackets`, for an arbitrary chunk plan instead of the one the Go
    sender chooses (`sealPackets = sealPacketsPlan (chunkPlan …)`): what *any*
    spec-following sender may emit (C09) -/
def sealPacketsPlan (v : Version) (sender : Option Bytes) (rs : List Recipient)
    (eph payloadKey : Bytes) (plan : List (Bytes × Bool)) : Except Err (EncHeader × Bytes × List EncBlock) :=
  if !knownVersion v then .error .badVersion
  else match checkReceivers rs with
  | .error e => .error e
  | .ok () =>
    match header P v sender eph payloadKey rs with
    | .error e => .error e
    | .ok h =>
      let headerBytes := encode h.toVal
      let hh := P.hash headerBytes
      match macKeysSender P v (sender.getD eph) eph hh rs 0 with
      | .error e => .error e
      | .ok mks =>
        match blockStructs P v payloadKey hh mks plan 0 with
        | .error e => .error e
        | .ok blks => .ok (h, headerBytes, blks)

/-- the complete binary message, given resolved randomness -/
def sealWith (bs : Nat) (v : Version) (sender : Option Bytes) (rs : List Recipient)
    (eph payloadKey : Bytes) (pt : Bytes) : Except Err Bytes :=
  match sealPackets P bs v sender rs eph payloadKey pt with
  | .error e => .error e
  | .ok (_, headerBytes, blks) =>
    match encodeBlocks v blks with
    | .error e => .error e
    | .ok body => .ok (headerPacket headerBytes ++ body)

def sealMsg := sealWith P blockSize

/-! ### consumption of the randomness source -/

/-- `csprngShuffle(cryptorand.Reader, n, …)`: each draw reads 4 bytes
    (`csprngUint32`), rejected values draw again.  Returns the draws. -/
def shuffleDraws : (k : Nat) → Rand.Source → (fuel : Nat) → Except Err (List Nat × Rand.Source)
  | 0, src, _ => .ok ([], src)
  | k + 1, src, fuel =>
    match draw (k + 2) src fuel with
    | .error e => .error e
    | .ok (j, src') =>
      match shuffleDraws k src' fuel with
      | .error e => .error e
      | .ok (js, rest) => .ok (j :: js, rest)
where
  /-- one `csprngUint32n` -/
  draw (n : Nat) : Rand.Source → Nat → Except Err (Nat × Rand.Source)
    | _, 0 => .error .ioError
    | src, fuel + 1 =>
      match Rand.readFull 4 src with
      | none => .error .ioError
      | some (b, src') =>
        match Rand.u32nStep n (natOfBytes b) with
        | some r => .ok (r, src')
        | none => draw n src' fuel

/-- how the ephemeral key pair is obtained: from the caller's creator (the
    harness supplies the secret), or — `basic.EphemeralKeyCreator` — by reading
    32 bytes of the randomness source -/
inductive EphSource where
  | given (secret : Bytes)
  | fromRand
  | fails
  deriving Repr

/-- `Seal` with its randomness: shuffle draws, then the ephemeral key, then the
    payload key — in that order.  Returns the message and the unread source. -/
def sealRand (bs : Nat) (v : Version) (sender : Option Bytes) (rs : List Recipient)
    (eph : EphSource) (src : Rand.Source) (pt : Bytes) : Except Err (Bytes × Rand.Source) :=
  if !knownVersion v then .error .badVersion
  else match checkReceivers rs with
  | .error e => .error e
  | .ok () =>
    match shuffleDraws (rs.length - 1) src (src.length + 1) with
    | .error e => .error e
    | .ok (js, src1) =>
      let rs' := Rand.shuffle js rs
      let ephR : Except Err (Bytes × Rand.Source) :=
        match eph with
        | .given s => .ok (s, src1)
        | .fails => .error .ioError
        | .fromRand => match Rand.readFull 32 src1 with
          | none => .error .ioError
          | some (s, src2) => .ok (s, src2)
      match ephR with
      | .error e => .error e
      | .ok (ephSec, src2) =>
        match Rand.readFull 32 src2 with
        | none => .error .ioError
        | some (pk, src3) =>
          match sealWith P bs v sender rs' ephSec pk pt with
          | .error e => .error e
          | .ok m => .ok (m, src3)

/-- the calls `Seal` makes on the sender's long-term key object (C12), with the
    randomness resolved as in `sealRand` -/
def sealRandCalls (v : Version) (sender : Option Bytes) (rs : List Recipient)
    (eph : EphSource) (src : Rand.Source) : Except Err (List KeyCall) :=
  if !knownVersion v then .error .badVersion
  else match checkReceivers rs with
  | .error e => .error e
  | .ok () =>
    match shuffleDraws (rs.length - 1) src (src.length + 1) with
    | .error e => .error e
    | .ok (js, src1) =>
      let rs' := Rand.shuffle js rs
      let ephR : Except Err (Bytes × Rand.Source) :=
        match eph with
        | .given s => .ok (s, src1)
        | .fails => .error .ioError
        | .fromRand => match Rand.readFull 32 src1 with
          | none => .error .ioError
          | some (s, src2) => .ok (s, src2)
      match ephR with
      | .error e => .error e
      | .ok (ephSec, src2) =>
        match Rand.readFull 32 src2 with
        | none => .error .ioError
        | some (pk, _) =>
          match header P v sender ephSec pk rs' with
          | .error e => .error e
          | .ok h => .ok (senderCalls v sender (P.hash (encode h.toVal)) rs' 0)

end
end Saltpack.Encrypt
