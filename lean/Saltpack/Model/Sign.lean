/-
  Saltpack.Model.Sign — sign_stream.go, sign.go (senders) and verify_stream.go,
  verify.go (receivers) for attached and detached signatures, V1 and V2.
  Core Lean only.
-/
import Saltpack.Model.Decrypt
import Saltpack.Model.Encrypt

namespace Saltpack.Sign
open Saltpack Msgpack

section
variable (P : Prims)

/-- `newSignatureHeader`: the 16-byte nonce is whatever the randomness source
    delivered -/
def header (v : Version) (signerPub : Bytes) (typ : Int) (nonce : Bytes) : SigHeader :=
  { formatName := Gen.c_sp_FormatName, version := v, typ := typ, senderPublic := signerPub, nonce := nonce }

/-- the length of the random header nonce (`type sigNonce [16]byte`) -/
def sigNonceLen : Nat := 16

/-- `signBlock`, as the packet structure -/
def blockStruct (v : Version) (signer headerHash : Bytes) (seqno : Nat) (chunk : Bytes) (isFinal : Bool) :
    Except Err SigBlock :=
  match attachedSignatureInput P v headerHash chunk seqno isFinal with
  | .error e => .error e
  | .ok inp => .ok ⟨P.sign signer inp, chunk, isFinal⟩

def blockStructs (v : Version) (signer headerHash : Bytes) : List (Bytes × Bool) → Nat → Except Err (List SigBlock)
  | [], _ => .ok []
  | (c, f) :: rest, i =>
    match blockStruct P v signer headerHash i c f, blockStructs v signer headerHash rest (i + 1) with
    | .ok b, .ok bs => .ok (b :: bs)
    | .error e, _ => .error e
    | _, .error e => .error e

def encodeBlocks (v : Version) : List SigBlock → Except Err Bytes
  | [] => .ok []
  | b :: bs =>
    match sigBlockVal v b.sig b.chunk b.final, encodeBlocks v bs with
    | .ok val, .ok rest => .ok (encode val ++ rest)
    | .error e, _ => .error e
    | _, .error e => .error e

/-- what `Sign` produces, as structures (after the D4 fix: unknown versions are
    refused up front) -/
def attachedPackets (bs : Nat) (v : Version) (signer nonce msg : Bytes) :
    Except Err (SigHeader × Bytes × List SigBlock) :=
  if !knownVersion v then .error .badVersion
  else
    let h := header v (P.sigPub signer) mtAttached nonce
    let headerBytes := encode h.toVal
    let hh := P.hash headerBytes
    match blockStructs P v signer hh (Encrypt.chunkPlan v bs msg) 0 with
    | .error e => .error e
    | .ok blks => .ok (h, headerBytes, blks)

/-- like `attachedPackets`, for an arbitrary chunk plan and minor version (C09) -/
def attachedPacketsPlan (v : Version) (minor : Int) (signer nonce : Bytes) (plan : List (Bytes × Bool)) :
    Except Err (SigHeader × Bytes × List SigBlock) :=
  if !knownVersion v then .error .badVersion
  else
    let h := header ⟨v.major, minor⟩ (P.sigPub signer) mtAttached nonce
    let headerBytes := encode h.toVal
    let hh := P.hash headerBytes
    match blockStructs P v signer hh plan 0 with
    | .error e => .error e
    | .ok blks => .ok (h, headerBytes, blks)

/-- `Sign` / `NewSignStream`+writes+`Close` given the header nonce -/
def attachedWith (bs : Nat) (v : Version) (signer nonce msg : Bytes) : Except Err Bytes :=
  match attachedPackets P bs v signer nonce msg with
  | .error e => .error e
  | .ok (_, headerBytes, blks) =>
    match encodeBlocks v blks with
    | .error e => .error e
    | .ok body => .ok (headerPacket headerBytes ++ body)

/-- `SignDetached` given the header nonce -/
def detachedWith (v : Version) (signer nonce msg : Bytes) : Except Err Bytes :=
  if !knownVersion v then .error .badVersion
  else
    let headerBytes := encode (header v (P.sigPub signer) mtDetached nonce).toVal
    let hh := P.hash headerBytes
    .ok (headerPacket headerBytes ++ encBin (P.sign signer (detachedSignatureInput P hh msg)))

/-- with the randomness source: one full read of 16 bytes -/
def attachedRand (bs : Nat) (v : Version) (signer : Bytes) (src : Rand.Source) (msg : Bytes) :
    Except Err (Bytes × Rand.Source) :=
  if !knownVersion v then .error .badVersion
  else match Rand.readFull sigNonceLen src with
  | none => .error .ioError
  | some (n, src') =>
    match attachedWith P bs v signer n msg with
    | .error e => .error e
    | .ok m => .ok (m, src')

def detachedRand (v : Version) (signer : Bytes) (src : Rand.Source) (msg : Bytes) :
    Except Err (Bytes × Rand.Source) :=
  if !knownVersion v then .error .badVersion
  else match Rand.readFull sigNonceLen src with
  | none => .error .ioError
  | some (n, src') =>
    match detachedWith P v signer n msg with
    | .error e => .error e
    | .ok m => .ok (m, src')

/-- the signing calls (C12) of an attached signature -/
def signCalls (v : Version) (signer headerHash : Bytes) : List (Bytes × Bool) → Nat → List KeyCall
  | [], _ => []
  | (c, f) :: rest, i =>
    (match attachedSignatureInput P v headerHash c i f with
     | .ok inp => [KeyCall.sign signer inp]
     | .error _ => []) ++ signCalls v signer headerHash rest (i + 1)

/-! ### verification -/

/-- `SignatureHeader.validate` (after the D5 fix) -/
def validate (valid : Validator) (h : SigHeader) (typ : Int) : Except Err Unit :=
  if h.formatName != Gen.c_sp_FormatName then .error .notASaltpackMessage
  else if !valid h.version then .error .badVersion
  else if h.typ != typ then .error .wrongMessageType
  else if typ != mtAttached && typ != mtDetached then .error .invalidParameter
  else .ok ()

structure State where
  version : Version
  headerHash : Bytes
  publicKey : Bytes
  deriving Repr

def blockFinal (v : Version) (b : SigBlock) : Bool :=
  if v.major = 1 then b.chunk.isEmpty else b.final

/-- `verifyStream.processBlock` -/
def processBlock (s : State) (b : SigBlock) (isFinal : Bool) (seqno : Nat) : Except Err Unit :=
  match attachedSignatureInput P s.version s.headerHash b.chunk (seqno - 1) isFinal with
  | .error e => .error e
  | .ok inp => if P.verify s.publicKey inp b.sig then .ok () else .error .badSignature

/-- `getNextChunk` + chunk reader + read-to-end; majors other than 1, 2 panic in
    `readSignatureBlock` -/
def run (s : State) : List (Option SigBlock) → Tail → (seqno : Nat) → Released
  | [], tail, _ =>
    match tail with
    | .eof => ⟨[], some .unexpectedEOF⟩
    | .err e => ⟨[], some e⟩
  | none :: _, _, _ => ⟨[], some .decodeError⟩
  | some b :: rest, tail, seqno =>
    let isFinal := blockFinal s.version b
    match processBlock P s b isFinal seqno with
    | .error e => ⟨[], some e⟩
    | .ok () =>
      match checkChunkState s.version b.chunk.length (seqno - 1) isFinal with
      | .error e => ⟨[], some e⟩
      | .ok () =>
        if isFinal then ⟨b.chunk, Decrypt.endOfStream rest tail⟩
        else
          let r := run s rest tail (seqno + 1)
          ⟨b.chunk ++ r.bytes, r.err⟩

structure Result where
  signer : Option Bytes
  released : Bytes
  err : Option Err
  deriving Repr

/-- `NewVerifyStream` + read to the end -/
def verifyStream (valid : Validator) (kr : Keyring) (hr : HeaderRead SigHeader)
    (ps : PStream SigBlock) : Result :=
  match hr with
  | .unreadable => ⟨none, [], some .failedToReadHeaderBytes⟩
  | .undecodable _ => ⟨none, [], some .decodeError⟩
  | .ok hb h =>
    match validate valid h mtAttached with
    | .error e => ⟨none, [], some e⟩
    | .ok () =>
      match kr.lookupSigningPublicKey h.senderPublic with
      | none => ⟨none, [], some .noSenderKey⟩
      | some pk =>
        if h.version.major != 1 && h.version.major != 2 then
          ⟨some pk, [], some (.panic "readSignatureBlock")⟩
        else
          let r := run P ⟨h.version, P.hash hb, pk⟩ ps.items ps.tail 1
          ⟨some pk, r.bytes, r.err⟩

/-- `Verify` -/
def verifyAll (valid : Validator) (kr : Keyring) (hr : HeaderRead SigHeader)
    (ps : PStream SigBlock) : Except Err (Bytes × Bytes) :=
  let r := verifyStream P valid kr hr ps
  match r.err, r.signer with
  | none, some k => .ok (k, r.released)
  | some e, _ => .error e
  | none, none => .error .decodeError

/-- what follows the header packet in a detached signature: the first object
    read as `[]byte` -/
inductive SigRead where
  | none (e : Err)          -- nothing / not a byte string / reader error
  | sig (s : Bytes)
  deriving Repr

/-- `VerifyDetachedReader` / `VerifyDetached` (trailing objects after the
    signature are not looked at) -/
def verifyDetached (valid : Validator) (kr : Keyring) (hr : HeaderRead SigHeader) (sr : SigRead)
    (msg : Bytes) : Except Err Bytes :=
  match hr with
  | .unreadable => .error .failedToReadHeaderBytes
  | .undecodable _ => .error .decodeError
  | .ok hb h =>
    match validate valid h mtDetached with
    | .error e => .error e
    | .ok () =>
      match sr with
      | .none e => .error e
      | .sig sg =>
        match kr.lookupSigningPublicKey h.senderPublic with
        | none => .error .noSenderKey
        | some pk =>
          if P.verify pk (detachedSignatureInput P (P.hash hb) msg) sg then .ok pk
          else .error .badSignature

end
end Saltpack.Sign
