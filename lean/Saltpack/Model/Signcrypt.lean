/-
  Saltpack.Model.Signcrypt — signcrypt_seal.go and signcrypt_open.go.
  Core Lean only.
-/
import Saltpack.Model.Decrypt
import Saltpack.Model.Encrypt

namespace Saltpack.Signcrypt
open Saltpack Msgpack

/-- a signcryption recipient: a Curve25519 box key, or an application-identified
    symmetric key -/
inductive Recipient where
  | box (pub : Bytes)
  | sym (key identifier : Bytes)
  deriving Repr, DecidableEq, Inhabited

def Recipient.ident : Recipient → Bytes
  | .box p => p
  | .sym _ i => i

/-- `checkSigncryptReceivers` -/
def checkReceivers (boxes syms : List Recipient) : Except Err Unit :=
  let all := boxes ++ syms
  if all.isEmpty then .error .badReceivers
  else if all.length > Gen.c_sp_maxReceiverCount.toNat then .error .badReceivers
  else if (all.map Recipient.ident).Nodup then .ok () else .error .repeatedKey

section
variable (P : Prims)

/-- `derivedEphemeralKeyFromBoxKeys`: last 32 bytes of boxing 32 zero bytes -/
def derivedKeyFromBoxKeys (pub priv : Bytes) : Bytes :=
  let bx := P.box priv pub Nonce.derivedSharedKey (zeros 32)
  bx.drop (bx.length - 32)

/-- `keyIdentifierFromDerivedKey` -/
def keyIdentifier (derivedKey : Bytes) (index : Nat) : Bytes :=
  (P.hmac Gen.c_sp_signcryptionBoxKeyIdentifierContext (derivedKey ++ Nonce.payloadKeyBoxV2 index)).take 32

/-- derived key of a symmetric recipient -/
def symDerivedKey (ephPub key : Bytes) : Bytes :=
  (P.hmac Gen.c_sp_signcryptionSymmetricKeyContext (ephPub ++ key)).take 32

/-- `makeReceiverKeys` for both kinds -/
def receiverEntry (eph payloadKey : Bytes) (index : Nat) : Recipient → RecvKeys
  | .box pub =>
    let dk := derivedKeyFromBoxKeys P pub eph
    ⟨some (keyIdentifier P dk index), P.sbSeal dk (Nonce.payloadKeyBoxV2 index) payloadKey⟩
  | .sym key ident =>
    let dk := symDerivedKey P (P.boxPub eph) key
    ⟨some ident, P.sbSeal dk (Nonce.payloadKeyBoxV2 index) payloadKey⟩

def receiverEntries (eph payloadKey : Bytes) : List Recipient → Nat → List RecvKeys
  | [], _ => []
  | r :: rs, i => receiverEntry P eph payloadKey i r :: receiverEntries eph payloadKey rs (i + 1)

/-- header; `sender = none` is the anonymous sender (32 zero bytes in the
    sender secretbox) -/
def header (sender : Option Bytes) (eph payloadKey : Bytes) (rs : List Recipient) : EncHeader :=
  { formatName := Gen.c_sp_FormatName, version := v2, typ := mtSigncryption,
    ephemeral := P.boxPub eph,
    senderSecretbox := P.sbSeal payloadKey Nonce.senderKeySecretBox
      (match sender with | none => zeros 32 | some s => P.sigPub s),
    receivers := receiverEntries P eph payloadKey rs 0 }

/-- `signcryptBlock`, as the packet structure -/
def blockStruct (sender : Option Bytes) (payloadKey headerHash : Bytes) (i : Nat) (chunk : Bytes)
    (isFinal : Bool) : Except Err SigncryptBlock :=
  if !blockNumberOK i then .error .packetOverflow
  else
    let nonce := Nonce.chunkSigncryption headerHash isFinal i
    let sig := match sender with
      | none => zeros 64
      | some s => P.sign s (signcryptionSignatureInput P headerHash nonce isFinal chunk)
    .ok ⟨P.sbSeal payloadKey nonce (sig ++ chunk), isFinal⟩

def blockStructs (sender : Option Bytes) (payloadKey headerHash : Bytes) :
    List (Bytes × Bool) → Nat → Except Err (List SigncryptBlock)
  | [], _ => .ok []
  | (c, f) :: rest, i =>
    match blockStruct P sender payloadKey headerHash i c f, blockStructs sender payloadKey headerHash rest (i + 1) with
    | .ok b, .ok bs => .ok (b :: bs)
    | .error e, _ => .error e
    | _, .error e => .error e

def encodeBlocks (bs : List SigncryptBlock) : Bytes :=
  bs.flatMap (fun b => encode (signcryptBlockVal b.ct b.final))

/-- the signing calls a seal makes (C12) -/
def signCalls (sender : Option Bytes) (headerHash : Bytes) : List (Bytes × Bool) → Nat → List KeyCall
  | [], _ => []
  | (c, f) :: rest, i =>
    (match sender with
     | none => []
     | some s => [KeyCall.sign s (signcryptionSignatureInput P headerHash (Nonce.chunkSigncryption headerHash f i) f c)])
    ++ signCalls sender headerHash rest (i + 1)

/-- what `SigncryptSeal` produces, as structures; `rs` in header order -/
def sealPackets (bs : Nat) (sender : Option Bytes) (rs : List Recipient) (eph payloadKey pt : Bytes) :
    Except Err (EncHeader × Bytes × List SigncryptBlock) :=
  match checkReceivers rs [] with
  | .error e => .error e
  | .ok () =>
    let h := header P sender eph payloadKey rs
    let headerBytes := encode h.toVal
    let hh := P.hash headerBytes
    match blockStructs P sender payloadKey hh (Encrypt.chunkPlan v2 bs pt) 0 with
    | .error e => .error e
    | .ok blks => .ok (h, headerBytes, blks)

/-- like `sealPackets`, for an arbitrary chunk plan (C09) -/
def sealPacketsPlan (sender : Option Bytes) (rs : List Recipient) (eph payloadKey : Bytes)
    (plan : List (Bytes × Bool)) : Except Err (EncHeader × Bytes × List SigncryptBlock) :=
  match checkReceivers rs [] with
  | .error e => .error e
  | .ok () =>
    let h := header P sender eph payloadKey rs
    let headerBytes := encode h.toVal
    let hh := P.hash headerBytes
    match blockStructs P sender payloadKey hh plan 0 with
    | .error e => .error e
    | .ok blks => .ok (h, headerBytes, blks)

/-- complete message given resolved randomness -/
def sealWith (bs : Nat) (sender : Option Bytes) (rs : List Recipient) (eph payloadKey pt : Bytes) :
    Except Err Bytes :=
  match sealPackets P bs sender rs eph payloadKey pt with
  | .error e => .error e
  | .ok (_, headerBytes, blks) => .ok (headerPacket headerBytes ++ encodeBlocks blks)

/-- `SigncryptSeal` with its randomness: shuffle (box keys first, then symmetric
    keys, as `shuffleSigncryptReceivers` lays them out), ephemeral key, payload key -/
def sealRand (bs : Nat) (sender : Option Bytes) (boxes syms : List Recipient)
    (eph : Encrypt.EphSource) (src : Rand.Source) (pt : Bytes) : Except Err (Bytes × Rand.Source) :=
  match checkReceivers boxes syms with
  | .error e => .error e
  | .ok () =>
    let rs := boxes ++ syms
    match Encrypt.shuffleDraws (rs.length - 1) src (src.length + 1) with
    | .error e => .error e
    | .ok (js, src1) =>
      let rs' := Rand.shuffle js rs
      let ephR : Except Err (Bytes × Rand.Source) :=
        match eph with
        | .given s => .ok (s, src1)
        | .fails => .error .ioError
        | .fromRand => match Rand.readFull 32 src1 with
          | none => .error .ioError
          | some (s, src2) => .ok (s, src2)
      match ephR with
      | .error e => .error e
      | .ok (ephSec, src2) =>
        match Rand.readFull 32 src2 with
        | none => .error .ioError
        | some (pk, src3) =>
          match sealWith P bs sender rs' ephSec pk pt with
          | .error e => .error e
          | .ok m => .ok (m, src3)

/-! ### open -/

/-- `SymmetricKeyResolver.ResolveKeys`: `none` = no resolver supplied -/
abbrev Resolver := Option (List Bytes → Except Err (List (Option Bytes)))

structure State where
  payloadKey : Bytes
  headerHash : Bytes
  sender : Option Bytes        -- signing public key; none = anonymous
  deriving Repr

/-- `SigncryptionHeader.validate` (after the D5 fix) -/
def validate (h : EncHeader) : Except Err Unit :=
  if h.formatName != Gen.c_sp_FormatName then .error .notASaltpackMessage
  else if h.typ != mtSigncryption then .error .wrongMessageType
  else if h.version.major != 2 then .error .badVersion
  else .ok ()

/-- inner loops of `tryBoxSecretKeys`: receivers outermost, derived keys inside -/
def tryBoxOne (dks : List Bytes) (r : RecvKeys) (index : Nat) : Option (Except Err Bytes) :=
  match dks with
  | [] => none
  | dk :: rest =>
    if keyIdentifier P dk index == Decrypt.kidOf r then
      match P.sbOpen dk (Nonce.payloadKeyBoxV2 index) r.box with
      | none => some (.error .decryptionFailed)
      | some pk => if pk.length != 32 then some (.error .badSymmetricKey) else some (.ok pk)
    else tryBoxOne rest r index

def tryBox (dks : List Bytes) : List (RecvKeys × Nat) → Except Err (Option Bytes)
  | [] => .ok none
  | (r, i) :: rest =>
    match tryBoxOne P dks r i with
    | some (.ok pk) => .ok (some pk)
    | some (.error e) => .error e
    | none => tryBox dks rest

/-- `trySharedSymmetricKeys` -/
def trySym (res : Resolver) (h : EncHeader) (ephPub : Bytes) : Except Err (Option Bytes) :=
  match res with
  | none => .ok none
  | some f =>
    let ids := h.receivers.map Decrypt.kidOf
    match f ids with
    | .error _ => .error .resolverError
    | .ok keys =>
      if keys.length != ids.length then .error .wrongNumberOfKeys
      else
        let rec go : List (Option Bytes × RecvKeys × Nat) → Except Err (Option Bytes)
          | [] => .ok none
          | (none, _, _) :: rest => go rest
          | (some k, r, i) :: _ =>
            let dk := symDerivedKey P ephPub k
            match P.sbOpen dk (Nonce.payloadKeyBoxV2 i) r.box with
            | none => .error .decryptionFailed
            | some pk => if pk.length != 32 then .error .badSymmetricKey else .ok (some pk)
        go (keys.zip h.receivers.zipIdx)

/-- `signcryptOpenStream.processHeader` (after the D3 fix) -/
def processHeader (kr : Keyring) (res : Resolver) (headerHash : Bytes) (h : EncHeader) :
    Decrypt.Logged State :=
  match validate h with
  | .error e => ([], .error e)
  | .ok () =>
  match kr.importBoxEphemeralKey h.ephemeral with
  | none => ([], .error .badEphemeralKey)
  | some eph =>
  let sks := kr.getAllBoxSecretKeys
  let log := sks.map (fun sk => KeyCall.box sk eph Nonce.derivedSharedKey (zeros 32))
  let dks := sks.map (fun sk => derivedKeyFromBoxKeys P eph sk)
  let pk? : Except Err (Option Bytes) :=
    match tryBox P dks h.receivers.zipIdx with
    | .error e => .error e
    | .ok (some pk) => .ok (some pk)
    | .ok none => trySym P res h eph
  match pk? with
  | .error e => (log, .error e)
  | .ok none => (log, .error .noDecryptionKey)
  | .ok (some pk) =>
    match P.sbOpen pk Nonce.senderKeySecretBox h.senderSecretbox with
    | none => (log, .error .badSenderKeySecretbox)
    | some senderKey =>
      if senderKey.all (· == 0) then (log, .ok ⟨pk, headerHash, none⟩)
      else match kr.lookupSigningPublicKey senderKey with
        | none => (log, .error .noSenderKey)
        | some spk => (log, .ok ⟨pk, headerHash, some spk⟩)

/-- `signcryptOpenStream.processBlock` -/
def processBlock (s : State) (b : SigncryptBlock) (seqno : Nat) : Except Err Bytes :=
  let blockNum := seqno - 1
  if !blockNumberOK blockNum then .error .packetOverflow
  else
    let nonce := Nonce.chunkSigncryption s.headerHash b.final blockNum
    match P.sbOpen s.payloadKey nonce b.ct with
    | none => .error .badCiphertext
    | some att =>
      if att.length < 64 then .error .badCiphertext
      else
        let sig := att.take 64
        let chunk := att.drop 64
        match s.sender with
        | none => .ok chunk
        | some spk =>
          if P.verify spk (signcryptionSignatureInput P s.headerHash nonce b.final chunk) sig
          then .ok chunk else .error .badSignature

/-- `getNextChunk` + chunk reader + read-to-end -/
def run (s : State) : List (Option SigncryptBlock) → Tail → (seqno : Nat) → Released
  | [], tail, _ =>
    match tail with
    | .eof => ⟨[], some .unexpectedEOF⟩
    | .err e => ⟨[], some e⟩
  | none :: _, _, _ => ⟨[], some .decodeError⟩
  | some b :: rest, tail, seqno =>
    match processBlock P s b seqno with
    | .error e => ⟨[], some e⟩
    | .ok chunk =>
      match checkChunkState v2 chunk.length (seqno - 1) b.final with
      | .error e => ⟨[], some e⟩
      | .ok () =>
        if b.final then ⟨chunk, Decrypt.endOfStream rest tail⟩
        else
          let r := run s rest tail (seqno + 1)
          ⟨chunk ++ r.bytes, r.err⟩

structure Result where
  sender : Option Bytes
  released : Bytes
  err : Option Err
  calls : List KeyCall
  deriving Repr

def openStream (kr : Keyring) (res : Resolver) (hr : HeaderRead EncHeader)
    (ps : PStream SigncryptBlock) : Result :=
  match hr with
  | .unreadable => ⟨none, [], some .failedToReadHeaderBytes, []⟩
  | .undecodable _ => ⟨none, [], some .decodeError, []⟩
  | .ok hb h =>
    match processHeader P kr res (P.hash hb) h with
    | (log, .error e) => ⟨none, [], some e, log⟩
    | (log, .ok st) =>
      let r := run P st ps.items ps.tail 1
      ⟨st.sender, r.bytes, r.err, log⟩

def openAll (kr : Keyring) (res : Resolver) (hr : HeaderRead EncHeader)
    (ps : PStream SigncryptBlock) : Except Err (Option Bytes × Bytes) :=
  let r := openStream P kr res hr ps
  match r.err with
  | none => .ok (r.sender, r.released)
  | some e => .error e

end
end Saltpack.Signcrypt
