/-
  Saltpack.Model.SenderStream — the SENDER streams as per-call state machines
  over a faulting underlying writer:

    encryptStream        (encrypt.go:        Write / encryptBlock / Close, init)
    signcryptSealStream  (signcrypt_seal.go: Write / signcryptBlock / Close, init)
    signAttachedStream   (sign_stream.go:    Write / signBlock / Close, newSignAttachedStream)
    signDetachedStream   (sign_stream.go:    Write / Close, newSignDetachedStream)

  One machine (`PSt`, `Cfg`) serves the three packet-per-block streams; it is
  parametrised by
    * the underlying writer `wr : ω → Bytes → Bool × ω` (one `Write` call of the
      `io.Writer` the stream was constructed over: success or failure, new state;
      a failing write may have accepted a part of the slice; a short write
      WITHOUT error — a violation of io.Writer's contract — is excluded, see `Wr`)
      — instantiated with the scripted writer `Wr` (binary streams) and with the
      armor encoder stream over a scripted writer (`FArm`, armored streams);
    * the packet function `pkt : index → chunk → final → Except Err Bytes` (what
      `encryptBlock` / `signBlock` / `signcryptBlock` hand to `Encode`, or the
      error they return before encoding anything: `ErrPacketOverflow`);
    * the segmentation `pieces : Bytes → List Bytes` of one `Encode` into the
      underlying `Write` calls go-codec issues (several per packet; the theorems
      hold for every segmentation, the driver uses `codecPieces`, go-codec's
      actual write pattern, which the correspondence checks write by write);
    * the shape of `Close` (`v1shape`: flush, then an empty final block) and
      whether the stream has the sticky `err` field that `Write` checks
      (`hasErr`: encryptStream, signcryptSealStream — signAttachedStream has none).

  go-codec's `Encoder` keeps the first error (`Encoder.err`, set by `deferred`,
  re-raised by `MustEncode`): once an `Encode` failed every later `Encode` fails
  without writing (`Codec.failed`).

  Core Lean only.
-/
import Saltpack.Model.Stream
import Saltpack.Model.ArmorWriter
import Saltpack.Model.Sign
import Saltpack.Model.Signcrypt

namespace Saltpack.Sender
open Saltpack Msgpack

/-! ### the scripted underlying writer -/

/-- an `io.Writer` whose k-th `Write` fails or not (`sink`, `true` = fails; an
    exhausted script never fails).  A FAILING write may have accepted a PART of
    the slice before failing — `(n, err)` with `0 ≤ n ≤ len(p)`, legal for an
    `io.Writer` and what files and sockets do: `part` lists, for the successive
    failing writes, how many bytes each takes (`min k len(p)`; an exhausted list
    = 0, the classic `(0, err)`).  `out` = what reached the writer, write by
    write (the whole slice of a successful write, the accepted part of a
    failing one), `tried` = the sizes of ALL attempted writes, `faults` = how
    many writes failed so far.

    EXCLUDED, not modelled: a SHORT WRITE WITHOUT ERROR `(n < len(p), nil)`.
    It violates io.Writer's contract ("Write must return a non-nil error if it
    returns n < len(p)"); go-codec (`ioEncWriter`: `_, err := w.Write`) and
    armor.go (`spaceAndOutputBuffer`, `Close`) discard `n`, so over such a writer
    the real streams report success for an incompletely written message — every
    "success means written" theorem assumes the contract. -/
structure Wr where
  sink : Stream.Sink := []
  part : List Nat := []
  out : List Bytes := []
  tried : List Nat := []
  faults : Nat := 0
  deriving Repr

def Wr.write (w : Wr) (p : Bytes) : Bool × Wr :=
  match w.sink with
  | [] => (true, { w with out := w.out ++ [p], tried := w.tried ++ [p.length] })
  | f :: rest =>
    if f then (false, { w with sink := rest, part := w.part.tail, out := w.out ++ [p.take (w.part.headD 0)],
                               tried := w.tried ++ [p.length], faults := w.faults + 1 })
    else (true, { w with sink := rest, out := w.out ++ [p], tried := w.tried ++ [p.length] })

/-- everything that reached the writer -/
def Wr.bytes (w : Wr) : Bytes := w.out.flatten

/-! ### go-codec's `Encoder` over a writer -/

structure Codec (ω : Type) where
  w : ω
  failed : Bool := false       -- `Encoder.err != nil`

section generic
variable {ω : Type} (wr : ω → Bytes → Bool × ω)

/-- the underlying writes of one `Encode`, in order; the first failing one
    makes go-codec panic internally (recovered into `Encode`'s error) -/
def writePieces : List Bytes → ω → Bool × ω
  | [], w => (true, w)
  | p :: ps, w =>
    match wr w p with
    | (true, w') => writePieces ps w'
    | (false, w') => (false, w')

/-- `Encoder.Encode(v)` where `b` is the encoding of `v` -/
def Codec.encode (pieces : Bytes → List Bytes) (c : Codec ω) (b : Bytes) : Bool × Codec ω :=
  if c.failed then (false, c)
  else
    match writePieces wr (pieces b) c.w with
    | (ok, w') => (ok, { w := w', failed := !ok })

/-! ### the packet-per-block streams -/

structure Cfg where
  bs : Nat                                        -- encryptionBlockSize / signatureBlockSize
  v1shape : Bool                                  -- `Close` of Version1 (encrypt, sign)
  hasErr : Bool                                   -- the stream has `err` and `Write` checks it
  pkt : Nat → Bytes → Bool → Except Err Bytes     -- numBlocks/seqno, chunk, isFinal
  pieces : Bytes → List Bytes
  assertExtra : Nat := 0                          -- see `assertPanics` (64 for signcryption)

structure PSt (ω : Type) where
  codec : Codec ω
  buf : Bytes := []           -- `buffer` (the unread part)
  n : Nat := 0                -- `numBlocks` / `seqno`
  err : Option Err := none    -- `es.err` / `sss.err`

/-- `checkEncryptBlockRead` / `checkSignBlockRead` / the `isFinal && buffer.Len() != 0`
    check of `signcryptBlock`: does it panic?  (`chunkLen > blockSize` and
    `chunkLen < blockSize && bufLen > 0` can never hold after `buffer.Next`.) -/
def readPanics (v1shape isFinal : Bool) (bs chunkLen bufLen : Nat) : Bool :=
  decide (chunkLen > bs) || (decide (chunkLen < bs) && decide (bufLen > 0)) ||
  (if v1shape then isFinal != (chunkLen == 0) else isFinal && bufLen != 0)

/-- `assertEncodedChunkState` (after the packet was computed, before `Encode`):
    for major version 2 an empty chunk is allowed only as the final block number
    0 — otherwise `checkChunkState` returns `ErrUnexpectedEmptyBlock` and the
    assertion panics (a second `Close` does this).  For major version 1 the
    condition `(chunkLen == 0) != isFinal` is the one `readPanics` already checked.
    `extra`: what the asserted length counts beyond the chunk — signcryption
    asserts on `len(ciphertext) - Overhead` = 64 signature bytes + chunk, so its
    assertion never fires (a second `Close` of a signcryption stream emits another
    empty final packet). -/
def assertPanics (v1shape : Bool) (extra : Nat) (isFinal : Bool) (chunkLen n : Nat) : Bool :=
  if v1shape then isFinal != (chunkLen == 0) else chunkLen + extra == 0 && (n != 0 || !isFinal)

/-- `encryptBlock(isFinal)` / `signBlock(isFinal)` / `signcryptBlock(isFinal)`:
    take up to a block out of the buffer (it is gone whatever happens next),
    the read-state check (panic), the packet (`numBlocks.check()` may refuse),
    `assertEncodedChunkState` (panic), `Encode`; the counter advances only on
    success -/
def emitBlock (cfg : Cfg) (isFinal : Bool) (st : PSt ω) : Option Err × PSt ω :=
  let chunk := st.buf.take cfg.bs
  let st1 := { st with buf := st.buf.drop cfg.bs }
  if readPanics cfg.v1shape isFinal cfg.bs chunk.length st1.buf.length then (some (.panic "blockRead"), st1)
  else
    match cfg.pkt st.n chunk isFinal with
    | .error e => (some e, st1)
    | .ok b =>
      if assertPanics cfg.v1shape cfg.assertExtra isFinal chunk.length st.n then (some (.panic "assertEncodedChunkState"), st1)
      else
        match Codec.encode wr cfg.pieces st.codec b with
        | (true, c') => (none, { st1 with codec := c', n := st.n + 1 })
        | (false, c') => (some .ioError, { st1 with codec := c' })

/-- the loop `for buffer.Len() > blockSize { err = block(false); if err != nil { return 0, err } }`
    of `Write`; `len` is what `Write` returns on success -/
def writeLoop (cfg : Cfg) (len : Nat) : (fuel : Nat) → PSt ω → Nat × Option Err × PSt ω
  | 0, st => (len, none, st)
  | fuel + 1, st =>
    if st.buf.length > cfg.bs then
      match emitBlock wr cfg false st with
      | (some e, st') => (0, some e, if cfg.hasErr then { st' with err := some e } else st')
      | (none, st') => writeLoop cfg len fuel st'
    else (len, none, st)

/-- `Write(p)`: `(n, err)` and the new state -/
def PSt.write (cfg : Cfg) (st : PSt ω) (p : Bytes) : Nat × Option Err × PSt ω :=
  match (if cfg.hasErr then st.err else none) with
  | some e => (0, some e, st)
  | none =>
    let st1 := { st with buf := st.buf ++ p }
    writeLoop wr cfg p.length (st1.buf.length + 1) st1

/-- `Close()`: neither looks at nor sets `err`.  (The `buffer.Len() > 0` panic
    after the final block of the Version2 shape is unreachable: a final block
    that did not panic has emptied the buffer.) -/
def PSt.close (cfg : Cfg) (st : PSt ω) : Option Err × PSt ω :=
  if cfg.v1shape then
    match (if st.buf.length > 0 then emitBlock wr cfg false st else (none, st)) with
    | (some e, st1) => (some e, st1)
    | (none, st1) =>
      if st1.buf.length > 0 then (some (.panic "Close"), st1)
      else emitBlock wr cfg true st1
  else emitBlock wr cfg true st

/-- the constructor's last step: `Encode(headerBytes)`; a failure means no
    stream is returned (what reached the writer is still in the state) -/
def PSt.init (pieces : Bytes → List Bytes) (w : ω) (headerBytes : Bytes) : Bool × PSt ω :=
  match Codec.encode wr pieces { w := w } (headerPacket headerBytes) with
  | (ok, c) => (ok, { codec := c })

/-- a sequence of `Write` calls: the `(n, err)` each returned, and the final state -/
def PSt.writes (cfg : Cfg) : PSt ω → List Bytes → List (Nat × Option Err) × PSt ω
  | st, [] => ([], st)
  | st, p :: ps =>
    let r := st.write wr cfg p
    let rs := PSt.writes cfg r.2.2 ps
    ((r.1, r.2.1) :: rs.1, rs.2)

/-! ### the detached-signature stream -/

/-- `signDetachedStream`: `msg` stands for the state of the SHA-512 hasher (what
    was written into it after the header hash) -/
structure DSt (ω : Type) where
  codec : Codec ω
  msg : Bytes := []

/-- `Write(p)` = `hasher.Write(p)`: never fails, never writes -/
def DSt.write (st : DSt ω) (p : Bytes) : Nat × Option Err × DSt ω :=
  (p.length, none, { st with msg := st.msg ++ p })

/-- `Close()`: sign the digest, `Encode(signature)`; `sigPkt msg` is the encoded
    signature packet for the message hashed so far -/
def DSt.close (pieces : Bytes → List Bytes) (sigPkt : Bytes → Bytes) (st : DSt ω) : Option Err × DSt ω :=
  match Codec.encode wr pieces st.codec (sigPkt st.msg) with
  | (true, c) => (none, { st with codec := c })
  | (false, c) => (some .ioError, { st with codec := c })

def DSt.writes : DSt ω → List Bytes → List (Nat × Option Err) × DSt ω
  | st, [] => ([], st)
  | st, p :: ps =>
    let r := st.write p
    let rs := DSt.writes r.2.2 ps
    ((r.1, r.2.1) :: rs.1, rs.2)

def DSt.init (pieces : Bytes → List Bytes) (w : ω) (headerBytes : Bytes) : Bool × DSt ω :=
  match Codec.encode wr pieces { w := w } (headerPacket headerBytes) with
  | (ok, c) => (ok, { codec := c })

end generic

/-! ### the one-shot side: bytes of a chunk plan -/

/-- the packets of a chunk plan, numbered from `i`, concatenated -/
def planBytes (pkt : Nat → Bytes → Bool → Except Err Bytes) : List (Bytes × Bool) → Nat → Except Err Bytes
  | [], _ => .ok []
  | (c, f) :: rest, i =>
    match pkt i c f, planBytes pkt rest (i + 1) with
    | .ok b, .ok r => .ok (b ++ r)
    | .error e, _ => .error e
    | _, .error e => .error e

/-- the whole message a stream with this configuration and header produces for
    the plaintext `pt` all at once -/
def oneShot (cfg : Cfg) (v : Version) (headerBytes pt : Bytes) : Except Err Bytes :=
  match planBytes cfg.pkt (Encrypt.chunkPlan v cfg.bs pt) 0 with
  | .ok body => .ok (headerPacket headerBytes ++ body)
  | .error e => .error e

/-! ### the packet functions of the three modes -/

section
variable (P : Prims)

/-- `encryptBlock`: what is handed to `Encode` -/
def encPkt (v : Version) (payloadKey headerHash : Bytes) (macKeys : List Bytes)
    (i : Nat) (chunk : Bytes) (isFinal : Bool) : Except Err Bytes :=
  match Encrypt.blockStruct P v payloadKey headerHash macKeys i chunk isFinal with
  | .error e => .error e
  | .ok b =>
    match encBlockVal v b.auths b.ct b.final with
    | .error e => .error e
    | .ok val => .ok (encode val)

/-- `signBlock` -/
def sigPkt (v : Version) (signer headerHash : Bytes) (i : Nat) (chunk : Bytes) (isFinal : Bool) : Except Err Bytes :=
  match Sign.blockStruct P v signer headerHash i chunk isFinal with
  | .error e => .error e
  | .ok b =>
    match sigBlockVal v b.sig b.chunk b.final with
    | .error e => .error e
    | .ok val => .ok (encode val)

/-- `signcryptBlock` -/
def scPkt (sender : Option Bytes) (payloadKey headerHash : Bytes) (i : Nat) (chunk : Bytes) (isFinal : Bool) :
    Except Err Bytes :=
  match Signcrypt.blockStruct P sender payloadKey headerHash i chunk isFinal with
  | .error e => .error e
  | .ok b => .ok (encode (signcryptBlockVal b.ct b.final))

/-- `encryptStream.init` after the randomness has been resolved (`rs` in header
    order): the header bytes and the stream configuration -/
def encryptSetup (bs : Nat) (pieces : Bytes → List Bytes) (v : Version) (sender : Option Bytes)
    (rs : List Encrypt.Recipient) (eph payloadKey : Bytes) : Except Err (Bytes × Cfg) :=
  if !knownVersion v then .error .badVersion
  else match Encrypt.checkReceivers rs with
  | .error e => .error e
  | .ok () =>
    match Encrypt.header P v sender eph payloadKey rs with
    | .error e => .error e
    | .ok h =>
      let headerBytes := encode h.toVal
      let hh := P.hash headerBytes
      match Encrypt.macKeysSender P v (sender.getD eph) eph hh rs 0 with
      | .error e => .error e
      | .ok mks =>
        .ok (headerBytes, { bs := bs, v1shape := v == v1, hasErr := true,
                            pkt := encPkt P v payloadKey hh mks, pieces := pieces })

/-- `newSignAttachedStream` given the header nonce -/
def signSetup (bs : Nat) (pieces : Bytes → List Bytes) (v : Version) (signer nonce : Bytes) :
    Except Err (Bytes × Cfg) :=
  if !knownVersion v then .error .badVersion
  else
    let headerBytes := encode (Sign.header v (P.sigPub signer) mtAttached nonce).toVal
    let hh := P.hash headerBytes
    .ok (headerBytes, { bs := bs, v1shape := v == v1, hasErr := false,
                        pkt := sigPkt P v signer hh, pieces := pieces })

/-- `signcryptSealStream.init` after the randomness has been resolved -/
def signcryptSetup (bs : Nat) (pieces : Bytes → List Bytes) (sender : Option Bytes)
    (rs : List Signcrypt.Recipient) (eph payloadKey : Bytes) : Except Err (Bytes × Cfg) :=
  match Signcrypt.checkReceivers rs [] with
  | .error e => .error e
  | .ok () =>
    let headerBytes := encode (Signcrypt.header P sender eph payloadKey rs).toVal
    let hh := P.hash headerBytes
    .ok (headerBytes, { bs := bs, v1shape := false, hasErr := true,
                        pkt := scPkt P sender payloadKey hh, pieces := pieces, assertExtra := 64 })

/-- `newSignDetachedStream` given the header nonce: header bytes and the
    signature-packet function -/
def detachedSetup (v : Version) (signer nonce : Bytes) : Except Err (Bytes × (Bytes → Bytes)) :=
  if !knownVersion v then .error .badVersion
  else
    let headerBytes := encode (Sign.header v (P.sigPub signer) mtDetached nonce).toVal
    let hh := P.hash headerBytes
    .ok (headerBytes, fun msg => encBin (P.sign signer (detachedSignatureInput P hh msg)))

/-! #### …with the randomness source (the order of `Seal` / `SigncryptSeal` / `Sign`:
     shuffle draws, ephemeral key, payload key; one 16-byte read for a signature header) -/

def ephResolve (eph : Encrypt.EphSource) (src : Rand.Source) : Except Err (Bytes × Rand.Source) :=
  match eph with
  | .given s => .ok (s, src)
  | .fails => .error .ioError
  | .fromRand => match Rand.readFull 32 src with
    | none => .error .ioError
    | some (s, src2) => .ok (s, src2)

def encryptSetupRand (bs : Nat) (pieces : Bytes → List Bytes) (v : Version) (sender : Option Bytes)
    (rs : List Encrypt.Recipient) (eph : Encrypt.EphSource) (src : Rand.Source) : Except Err (Bytes × Cfg) :=
  if !knownVersion v then .error .badVersion
  else match Encrypt.checkReceivers rs with
  | .error e => .error e
  | .ok () =>
    match Encrypt.shuffleDraws (rs.length - 1) src (src.length + 1) with
    | .error e => .error e
    | .ok (js, src1) =>
      match ephResolve eph src1 with
      | .error e => .error e
      | .ok (ephSec, src2) =>
        match Rand.readFull 32 src2 with
        | none => .error .ioError
        | some (pk, _) => encryptSetup P bs pieces v sender (Rand.shuffle js rs) ephSec pk

def signcryptSetupRand (bs : Nat) (pieces : Bytes → List Bytes) (sender : Option Bytes)
    (boxes syms : List Signcrypt.Recipient) (eph : Encrypt.EphSource) (src : Rand.Source) : Except Err (Bytes × Cfg) :=
  match Signcrypt.checkReceivers boxes syms with
  | .error e => .error e
  | .ok () =>
    let rs := boxes ++ syms
    match Encrypt.shuffleDraws (rs.length - 1) src (src.length + 1) with
    | .error e => .error e
    | .ok (js, src1) =>
      match ephResolve eph src1 with
      | .error e => .error e
      | .ok (ephSec, src2) =>
        match Rand.readFull 32 src2 with
        | none => .error .ioError
        | some (pk, _) => signcryptSetup P bs pieces sender (Rand.shuffle js rs) ephSec pk

def signSetupRand (bs : Nat) (pieces : Bytes → List Bytes) (v : Version) (signer : Bytes) (src : Rand.Source) :
    Except Err (Bytes × Cfg) :=
  if !knownVersion v then .error .badVersion
  else match Rand.readFull Sign.sigNonceLen src with
  | none => .error .ioError
  | some (n, _) => signSetup P bs pieces v signer n

def detachedSetupRand (v : Version) (signer : Bytes) (src : Rand.Source) : Except Err (Bytes × (Bytes → Bytes)) :=
  if !knownVersion v then .error .badVersion
  else match Rand.readFull Sign.sigNonceLen src with
  | none => .error .ioError
  | some (n, _) => detachedSetup P v signer n

end

/-! ### go-codec's write pattern (`ioEncWriter` over a plain `io.Writer`)

  `writen1` = one 1-byte write; `writen2` = two 1-byte writes; a 2/4/8-byte
  big-endian length or integer = one write (`bigenHelper`); the content of a
  non-empty bin/str = one write.  Walking the ENCODED bytes token by token gives
  the sizes of the underlying writes; anything saltpack never emits (floats,
  ext) is left as one piece. -/

/-- sizes of the writes for the first token of `b`, and how many bytes it covers -/
def tokenLens (b : Bytes) : Option (List Nat × Nat) :=
  match b with
  | [] => none
  | t0 :: rest =>
    let t := t0.toNat
    if t ≤ 0x7f ∨ t ≥ 0xe0 ∨ t = 0xc0 ∨ t = 0xc2 ∨ t = 0xc3 ∨ (0x80 ≤ t ∧ t ≤ 0x9f) then some ([1], 1)
    else if 0xa0 ≤ t ∧ t ≤ 0xbf then some ([1, t - 0xa0], 1 + (t - 0xa0))
    else if t = 0xc4 ∨ t = 0xd9 then let l := natOfBytes (rest.take 1); some ([1, 1, l], 2 + l)
    else if t = 0xc5 ∨ t = 0xda then let l := natOfBytes (rest.take 2); some ([1, 2, l], 3 + l)
    else if t = 0xc6 ∨ t = 0xdb then let l := natOfBytes (rest.take 4); some ([1, 4, l], 5 + l)
    else if t = 0xcc ∨ t = 0xd0 then some ([1, 1], 2)
    else if t = 0xcd ∨ t = 0xd1 ∨ t = 0xdc ∨ t = 0xde then some ([1, 2], 3)
    else if t = 0xce ∨ t = 0xd2 ∨ t = 0xdd ∨ t = 0xdf then some ([1, 4], 5)
    else if t = 0xcf ∨ t = 0xd3 then some ([1, 8], 9)
    else none

def codecLens : (fuel : Nat) → Bytes → List Nat
  | 0, b => [b.length]
  | fuel + 1, b =>
    if b.isEmpty then []
    else match tokenLens b with
      | none => [b.length]
      | some (ls, k) => ls ++ codecLens fuel (b.drop k)

/-- cut `b` into pieces of the given sizes (zero sizes are skipped: go-codec
    does not write empty contents); what the sizes do not cover is one last piece -/
def cutBy : List Nat → Bytes → List Bytes
  | [], b => if b.isEmpty then [] else [b]
  | n :: ns, b =>
    if b.isEmpty then []
    else if n = 0 then cutBy ns b
    else b.take n :: cutBy ns (b.drop n)

/-- the underlying writes of `Encode` of the value whose encoding is `b` -/
def codecPieces (b : Bytes) : List Bytes := cutBy (codecLens b.length b) b

/-! ### the armored composition: `armorEncoderStream` over a faulting writer

  `armor.go`: `Write` = BaseX `encoder.Write` into a `bytes.Buffer` (never
  fails), then `spaceAndOutputBuffer`; every `s.encoded.Write` may fail and its
  error is returned at once — the word already taken out of the buffer is lost,
  `nWords` stays incremented — and REMEMBERED (`s.err`, since fix 5ad1caa, defect
  D13: before it nothing was remembered and a later `Close` reported success for
  a text with a word or separator missing): every later `Write` and `Close`
  returns it without touching the writer.  (In the compositions of armor62_*.go
  the packet stream above it dies with go-codec's encoder as well, and
  `closeForwarder.Close` does not close the armor stream when the packet
  stream's `Close` failed.) -/

structure FArm where
  par : Armor.Params
  enc : Stream.EncState        -- the BaseX encoder; `written` holds only what the current call produced
  buf : Bytes                  -- unread part of the `bytes.Buffer`
  nWords : Nat
  ftr : Bytes
  w : Wr
  failed : Bool := false       -- `s.err != nil`

/-- `spaceAndOutputBuffer` over the faulting writer -/
def FArm.spaceOut : (fuel : Nat) → FArm → Bool × FArm
  | 0, s => (true, s)
  | fuel + 1, s =>
    if s.buf.length > s.par.bytesPerWord then
      let word := s.buf.take s.par.bytesPerWord
      let n := s.nWords + 1
      let sep := if n % s.par.wordsPerLine = 0 then Armor.newline else Armor.space
      let s1 := { s with buf := s.buf.drop s.par.bytesPerWord, nWords := n }
      match s1.w.write word with
      | (false, w') => (false, { s1 with w := w' })
      | (true, w') =>
        match w'.write [sep] with
        | (false, w'') => (false, { s1 with w := w'' })
        | (true, w'') => FArm.spaceOut fuel { s1 with w := w'' }
    else (true, s)

/-- what an encoder call produced is appended to the `bytes.Buffer` -/
def FArm.feed (s : FArm) (e' : Stream.EncState) : FArm :=
  { s with enc := { e' with written := [] }, buf := s.buf ++ e'.written.flatten }

/-- `armorEncoderStream.Write(b)`: `(n, ok)` and the new state.
    `if s.err != nil { return 0, s.err }`: a refused call touches neither the
    encoder nor the buffer nor the writer.  Otherwise `n` is what the BaseX
    encoder's `Write` returned (`len(b)`: it writes into a `bytes.Buffer`, which
    never fails — `enc.sink = []`, `enc.failed = false` in every state reachable
    from `FArm.init`, see `farm_encOk_*` in Proofs/SenderStreamArmor.lean; the
    branch is mirrored all the same), also when `spaceAndOutputBuffer` fails. -/
def FArm.writeN (s : FArm) (b : Bytes) : Nat × Bool × FArm :=
  if s.failed then (0, false, s) else
  match s.enc.write b with
  | (n, false, e') => (n, false, { s.feed e' with failed := true })
  | (n, true, e') =>
    let s1 := s.feed e'
    match FArm.spaceOut (s1.buf.length + 1) s1 with
    | (true, s2) => (n, true, s2)
    | (false, s2) => (n, false, { s2 with failed := true })

/-- `armorEncoderStream.Write(b)` as an underlying writer of the packet streams:
    success or the error -/
def FArm.write (s : FArm) (b : Bytes) : Bool × FArm := (s.writeN b).2

/-- `armorEncoderStream.Close()`: every error return sets `s.err` (the deferred
    function) -/
def FArm.close (s : FArm) : Bool × FArm :=
  if s.failed then (false, s) else
  match s.enc.close with
  | (false, e') => (false, { s.feed e' with failed := true })
  | (true, e') =>
  let s1 := s.feed e'
  match FArm.spaceOut (s1.buf.length + 1) s1 with
  | (false, s2) => (false, { s2 with failed := true })
  | (true, s2) =>
    match s2.w.write s2.buf with                 -- `lst` (possibly an empty write)
    | (false, w') => (false, { s2 with w := w', failed := true })
    | (true, w') =>
      let n := s2.nWords + 1
      let pad : Bytes :=
        if s2.buf.length = s2.par.bytesPerWord then
          (if n % s2.par.wordsPerLine = 0 then [Armor.newline] else [Armor.space])
        else []
      match w'.write (pad ++ [Armor.period, Armor.space] ++ s2.ftr ++ [Armor.period, Armor.newline]) with
      | (ok, w'') => (ok, { s2 with nWords := n, w := w'', failed := !ok })

/-- a sequence of calls on the bare armor stream (`some b` = `Write(b)`, `none` =
    `Close()`), the caller carrying on whatever a call returned: the `(n, ok)` of
    every call (`n = 0` for `Close`) and the final state -/
def FArm.calls : FArm → List (Option Bytes) → List (Nat × Bool) × FArm
  | s, [] => ([], s)
  | s, some b :: ops =>
    let r := s.writeN b
    let rs := FArm.calls r.2.2 ops
    ((r.1, r.2.1) :: rs.1, rs.2)
  | s, none :: ops =>
    let r := s.close
    let rs := FArm.calls r.2 ops
    ((0, r.1) :: rs.1, rs.2)

/-- `newArmorEncoderStream`: `header + ". "` in one write -/
def FArm.init (par : Armor.Params) (hdr ftr : Bytes) (w : Wr) : Bool × FArm :=
  match w.write (hdr ++ [Armor.period, Armor.space]) with
  | (ok, w') => (ok, { par := par, enc := { enc := par.enc }, buf := [], nWords := 0, ftr := ftr, w := w' })

def FArm.init62 (typ : Int) (brand : Bytes) (w : Wr) : Bool × FArm :=
  FArm.init Armor.params62 (Armor.header typ brand) (Armor.footer typ brand) w

/-- `closeForwarder.Close` of a packet stream over the armor stream: the
    packet stream's `Close`; only if that succeeds, the armor stream's -/
def armoredClose (cfg : Cfg) (st : PSt FArm) : Option Err × PSt FArm :=
  match st.close FArm.write cfg with
  | (some e, st') => (some e, st')
  | (none, st') =>
    match st'.codec.w.close with
    | (true, a) => (none, { st' with codec := { st'.codec with w := a } })
    | (false, a) => (some .ioError, { st' with codec := { st'.codec with w := a } })

def armoredCloseD (pieces : Bytes → List Bytes) (sigPkt : Bytes → Bytes) (st : DSt FArm) : Option Err × DSt FArm :=
  match st.close FArm.write pieces sigPkt with
  | (some e, st') => (some e, st')
  | (none, st') =>
    match st'.codec.w.close with
    | (true, a) => (none, { st' with codec := { st'.codec with w := a } })
    | (false, a) => (some .ioError, { st' with codec := { st'.codec with w := a } })

end Saltpack.Sender
