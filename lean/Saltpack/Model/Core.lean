/-
  Saltpack.Model.Core — cryptographic primitives as a parameter, error classes,
  versions, nonce constructors (nonce.go), MAC / signature input constructors
  and chunk-state checks (common.go).

  All protocol constants come from Saltpack/Gen/Consts.lean, i.e. from /repo's
  current source.  Core Lean only.
-/
import Saltpack.Model.Bytes
import Saltpack.Gen.Consts

namespace Saltpack

/-- The cryptographic primitives saltpack is built on.  Secrets and publics are
    byte strings; a NaCl `box` is `sbSeal (precompute sk pk)`, as NaCl defines
    it and as `basic/key.go` implements it. -/
structure Prims where
  hash : Bytes → Bytes                          -- SHA-512
  hmac : Bytes → Bytes → Bytes                  -- HMAC-SHA-512 key msg (64 bytes)
  sbSeal : Bytes → Bytes → Bytes → Bytes        -- secretbox.Seal key nonce msg
  sbOpen : Bytes → Bytes → Bytes → Option Bytes -- secretbox.Open key nonce box
  boxPub : Bytes → Bytes                        -- Curve25519 public key of a secret
  precompute : Bytes → Bytes → Bytes            -- box.Precompute secret peerPublic
  sigPub : Bytes → Bytes                        -- Ed25519 public key of a seed
  sign : Bytes → Bytes → Bytes                  -- Ed25519 sign seed msg
  verify : Bytes → Bytes → Bytes → Bool         -- Ed25519 verify public msg sig

/-- functional correctness of the primitives (never any security assumption) -/
structure Prims.Lawful (P : Prims) : Prop where
  sb_open_seal : ∀ k n m, P.sbOpen k n (P.sbSeal k n m) = some m
  sb_len : ∀ k n m, (P.sbSeal k n m).length = m.length + 16
  sb_open_len : ∀ k n c m, P.sbOpen k n c = some m → c.length = m.length + 16
  dh_comm : ∀ a b, P.precompute a (P.boxPub b) = P.precompute b (P.boxPub a)
  verify_sign : ∀ s m, P.verify (P.sigPub s) m (P.sign s m) = true
  hash_len : ∀ m, (P.hash m).length = 64
  hmac_len : ∀ k m, (P.hmac k m).length = 64
  pub_len : ∀ s, (P.boxPub s).length = 32
  sigPub_len : ∀ s, (P.sigPub s).length = 32
  sig_len : ∀ s m, (P.sign s m).length = 64
  shared_len : ∀ s p, (P.precompute s p).length = 32

namespace Prims
variable (P : Prims)
/-- `BoxSecretKey.Box(receiver, nonce, msg)` -/
def box (sk pk nonce msg : Bytes) : Bytes := P.sbSeal (P.precompute sk pk) nonce msg
/-- `BoxSecretKey.Unbox(sender, nonce, msg)` -/
def unbox (sk pk nonce c : Bytes) : Option Bytes := P.sbOpen (P.precompute sk pk) nonce c
end Prims

/-- error classes (the canonicalisation the correspondence uses, too) -/
inductive Err where
  | noDecryptionKey | trailingGarbage | failedToReadHeaderBytes | packetOverflow
  | insufficientRandomness | badEphemeralKey | badReceivers | badSenderKeySecretbox
  | badSymmetricKey | badBoxKey | badLookup | badSignature | decryptionFailed
  | wrongNumberOfKeys | unexpectedEmptyBlock | shortSliceOrBuffer | notASaltpackMessage
  | noSenderKey | badTag | badCiphertext | repeatedKey | wrongMessageType | badVersion
  | badFrame | invalidParameter
  | unexpectedEOF          -- io.ErrUnexpectedEOF
  | decodeError            -- an error from the MessagePack decoder
  | ioError                -- an error from the underlying reader / writer / source
  | overflow | punctuated | basexCorrupt | basexBadLen
  | resolverError
  | panic (site : String)
  deriving DecidableEq, Repr, Inhabited

structure Version where
  major : Int
  minor : Int
  deriving DecidableEq, Repr, Inhabited

def v1 : Version := ⟨1, 0⟩
def v2 : Version := ⟨2, 0⟩

/-- `checkKnownVersion`: exact membership in `KnownVersions()` -/
def knownVersion (v : Version) : Bool := v == v1 || v == v2

/-- `CheckKnownMajorVersion` -/
def knownMajor (v : Version) : Bool := v.major == 1 || v.major == 2

abbrev Validator := Version → Bool

open Gen in
/-- message types (const.go) -/
def mtEncryption : Int := c_sp_MessageTypeEncryption
open Gen in
def mtAttached : Int := c_sp_MessageTypeAttachedSignature
open Gen in
def mtDetached : Int := c_sp_MessageTypeDetachedSignature
open Gen in
def mtSigncryption : Int := c_sp_MessageTypeSigncryption

def blockSize : Nat := Gen.c_sp_encryptionBlockSize.toNat
def sigBlockSize : Nat := Gen.c_sp_signatureBlockSize.toNat

/-! ### nonce.go -/
namespace Nonce
open Gen

def senderKeySecretBox : Bytes := lit_sp_nonceForSenderKeySecretBox_0
def payloadKeyBoxV1 : Bytes := lit_sp_nonceForPayloadKeyBox_0
def payloadKeyBoxV2 (recip : Nat) : Bytes := lit_sp_nonceForPayloadKeyBoxV2_0 ++ be64 recip
def derivedSharedKey : Bytes := lit_sp_nonceForDerivedSharedKey_0

/-- `nonceForPayloadKeyBox`; other majors panic in the code -/
def payloadKeyBox (v : Version) (recip : Nat) : Except Err Bytes :=
  if v.major = 1 then .ok payloadKeyBoxV1
  else if v.major = 2 then .ok (payloadKeyBoxV2 recip)
  else .error (.panic "nonceForPayloadKeyBox")

def macKeyBoxV1 (headerHash : Bytes) : Bytes := headerHash.take 24

/-- clear / set the low bit of a byte (`n[off-1] &^= 1; if flag { n[off-1] |= 1 }`) -/
def setLowBit (b : UInt8) (flag : Bool) : UInt8 := (b &&& 0xfe) ||| (if flag then 1 else 0)

/-- first 16 bytes of the header hash with the low bit of byte 15 replaced by
    `flag`, then the 64-bit big-endian counter -/
def hashFlagCounter (headerHash : Bytes) (flag : Bool) (i : Nat) : Bytes :=
  headerHash.take 15 ++ [setLowBit (headerHash.getD 15 0) flag] ++ be64 i

def macKeyBoxV2 (headerHash : Bytes) (ephemeral : Bool) (recip : Nat) : Bytes :=
  hashFlagCounter headerHash ephemeral recip

def chunkSecretBox (i : Nat) : Bytes := lit_sp_nonceForChunkSecretBox_0 ++ be64 i

def chunkSigncryption (headerHash : Bytes) (isFinal : Bool) (i : Nat) : Bytes :=
  hashFlagCounter headerHash isFinal i

end Nonce

/-- `encryptionBlockNumber.check` -/
def blockNumberOK (i : Nat) : Bool := i < 2 ^ 64 - 1

/-! ### common.go -/
section
variable (P : Prims)

def finalByte (isFinal : Bool) : Bytes := [if isFinal then 1 else 0]

/-- `computePayloadHash`; majors other than 1, 2 panic -/
def payloadHash (v : Version) (headerHash nonce ct : Bytes) (isFinal : Bool) : Except Err Bytes :=
  if v.major = 1 then .ok (P.hash (headerHash ++ nonce ++ ct))
  else if v.major = 2 then .ok (P.hash (headerHash ++ nonce ++ finalByte isFinal ++ ct))
  else .error (.panic "computePayloadHash")

/-- `computePayloadAuthenticator` -/
def payloadAuthenticator (macKey payloadHash : Bytes) : Bytes := (P.hmac macKey payloadHash).take 32

/-- `computeMACKeySingle`: box 32 zero bytes, take bytes 16..48 of the box -/
def macKeySingle (secret pub nonce : Bytes) : Bytes :=
  ((P.box secret pub nonce (zeros 32)).drop 16).take 32

def sum512Truncate256 (b : Bytes) : Bytes := (P.hash b).take 32

/-- `attachedSignatureInput`; `seqno` is written as 8 big-endian bytes -/
def attachedSignatureInput (v : Version) (headerHash chunk : Bytes) (seqno : Nat) (isFinal : Bool) :
    Except Err Bytes :=
  if v.major = 1 then
    .ok (Gen.c_sp_signatureAttachedString ++ P.hash (headerHash ++ be64 seqno ++ chunk))
  else if v.major = 2 then
    .ok (Gen.c_sp_signatureAttachedString ++ P.hash (headerHash ++ be64 seqno ++ finalByte isFinal ++ chunk))
  else .error (.panic "attachedSignatureInput")

def detachedSignatureInputFromHash (h : Bytes) : Bytes := Gen.c_sp_signatureDetachedString ++ h

def detachedSignatureInput (headerHash plaintext : Bytes) : Bytes :=
  detachedSignatureInputFromHash (P.hash (headerHash ++ plaintext))

/-- `computeSigncryptionSignatureInput` -/
def signcryptionSignatureInput (headerHash nonce : Bytes) (isFinal : Bool) (chunk : Bytes) : Bytes :=
  Gen.c_sp_signatureEncryptedString ++ headerHash ++ nonce ++ finalByte isFinal ++ P.hash chunk

end

/-- `checkChunkState` (non-panicking uses: the V1 panic needs
    `(chunkLen = 0) ≠ isFinal`, which no caller can produce — see Decrypt/Verify) -/
def checkChunkState (v : Version) (chunkLen blockIndex : Nat) (isFinal : Bool) : Except Err Unit :=
  if v.major = 1 then
    if (chunkLen == 0) != isFinal then .error (.panic "checkChunkState") else .ok ()
  else if v.major = 2 then
    if chunkLen == 0 && (blockIndex != 0 || !isFinal) then .error .unexpectedEmptyBlock else .ok ()
  else .error (.panic "checkChunkState")

end Saltpack
