/-
  Saltpack.Model.Basex — model of /repo/encoding/basex/{encoding,stream}.go.

  An `Enc` carries what `NewEncoding` computes: alphabet, skip set, block sizes
  and — because the Go length helpers use float64 `math.Log2/Ceil/Floor` —
  the *tables* of the helpers' answers on one block (`encLenTab[r] =
  EncodedLen(r)` for `r ≤ blockLen`, `decLenTab[c] = DecodedLen(c)`,
  `validTab[c] = IsValidEncodingLength(c)` for `c ≤ charBlockLen`).  The
  tables of the four shipped encodings are *generated from the running code*
  (Saltpack/Gen/BasexTables.lean) and checked against exact integer arithmetic
  by the kernel (`Enc.WF`, Props/C10).

  Core Lean only.
-/
import Saltpack.Model.Bytes

namespace Saltpack.Basex

inductive Err where
  | corrupt (pos : Nat)      -- CorruptInputError(pos)
  | badLen                   -- ErrInvalidEncodingLength
  deriving DecidableEq, Repr

structure Enc where
  base : Nat
  blockLen : Nat            -- base256BlockLen
  charBlockLen : Nat        -- baseXBlockLen
  alphabet : List UInt8
  skip : List UInt8
  encLenTab : List Nat      -- EncodedLen(r), r = 0..blockLen
  decLenTab : List Nat      -- DecodedLen(c), c = 0..charBlockLen
  validTab : List Bool      -- IsValidEncodingLength(c), c = 0..charBlockLen
  deriving Repr, DecidableEq

namespace Enc

/-- `EncodedLen`: `nblocks*baseXBlockLen + ceil(8*rem/log2 base)` -/
def encLen (e : Enc) (n : Nat) : Nat :=
  (n / e.blockLen) * e.charBlockLen + e.encLenTab.getD (n % e.blockLen) 0

/-- `DecodedLen`: `nblocks*base256BlockLen + floor(rem*log2 base/8)` -/
def decLen (e : Enc) (n : Nat) : Nat :=
  (n / e.charBlockLen) * e.blockLen + e.decLenTab.getD (n % e.charBlockLen) 0

/-- `IsValidEncodingLength` (used for `n ≤ charBlockLen` only) -/
def validLen (e : Enc) (n : Nat) : Bool :=
  n == e.charBlockLen || e.validTab.getD n false

/-- `decodeMap[b]` -/
def digit? (e : Enc) (c : UInt8) : Option Nat :=
  let i := e.alphabet.idxOf c
  if i < e.alphabet.length then some i else none

def isSkip (e : Enc) (c : UInt8) : Bool := e.skip.contains c

/-- `encode[d]` -/
def char (e : Enc) (d : Nat) : UInt8 := e.alphabet.getD d 0

/-- the strict twin of an encoding (same alphabet, no skip characters) -/
def strict (e : Enc) : Enc := { e with skip := [] }

end Enc

/-- `encodeBlock`: the `EncodedLen(len src)` big-endian base-`base` digits of the
    big-endian value of `src`, leading zero digits kept.  (Called with
    `src.length ≤ blockLen`.) -/
def encodeBlockDigits (e : Enc) (src : Bytes) : List Nat :=
  digitsOfNat e.base (e.encLen src.length) (natOfBytes src)

def encodeBlock (e : Enc) (src : Bytes) : List UInt8 :=
  (encodeBlockDigits e src).map e.char

/-- `Encode` / `EncodeToString` -/
def encode (e : Enc) (src : Bytes) : List UInt8 :=
  (chunks e.blockLen src).flatMap (encodeBlock e)

/-- the scanning loop of `decodeBlock`: collect up to `need` alphabet
    characters (as digits), stepping over skip characters, stopping right after
    the `need`-th good character.  Returns digits and unconsumed input. -/
def scanBlock (e : Enc) : (need : Nat) → List UInt8 → (pos : Nat) →
    Except Err (List Nat × List UInt8)
  | _, [], _ => .ok ([], [])
  | 0, s, _ => .ok ([], s)
  | need + 1, c :: cs, pos =>
    match e.digit? c with
    | some d =>
      if need = 0 then .ok ([d], cs)
      else match scanBlock e need cs (pos + 1) with
        | .ok (ds, rest) => .ok (d :: ds, rest)
        | .error x => .error x
    | none =>
      if e.isSkip c then scanBlock e (need + 1) cs (pos + 1)
      else .error (.corrupt pos)

/-- the arithmetic half of `decodeBlock` (after the defect-D1 fix): length must
    be minimal for its byte length, and the value must fit. -/
def decodeBlockDigits (e : Enc) (ds : List Nat) : Except Err Bytes :=
  if !e.validLen ds.length then .error .badLen
  else
    let b := e.decLen ds.length
    let v := natOfDigits e.base ds
    if 256 ^ b ≤ v then .error .badLen       -- len(raw) > paddedLen
    else .ok (bytesOfNat b v)

/-- `decode`: block after block until the input is used up. `fuel` bounds the
    number of blocks (every block consumes at least one input byte). -/
def decodeAux (e : Enc) : (fuel : Nat) → List UInt8 → (pos : Nat) → Except Err Bytes
  | 0, _, _ => .ok []
  | fuel + 1, s, pos =>
    if s.isEmpty then .ok []
    else match scanBlock e e.charBlockLen s pos with
      | .error x => .error x
      | .ok (ds, rest) =>
        match decodeBlockDigits e ds with
        | .error x => .error x
        | .ok bs =>
          match decodeAux e fuel rest (pos + (s.length - rest.length)) with
          | .error x => .error x
          | .ok more => .ok (bs ++ more)

/-- `Decode` / `DecodeString` -/
def decode (e : Enc) (s : List UInt8) : Except Err Bytes := decodeAux e (s.length + 1) s 0

/-- `decode` on a string of alphabet characters, as `Decode`/`DecodeString`
    report it: the bytes of the blocks decoded before the first bad block, and the
    error of that block (if any) -/
def decodePrefix (enc : Enc) : (fuel : Nat) → List UInt8 → Bytes × Option Err
  | 0, _ => ([], none)
  | fuel + 1, s =>
    if s.isEmpty then ([], none)
    else
      let blk := s.take enc.charBlockLen
      match decode enc.strict blk with
      | .error e => ([], some e)
      | .ok b =>
        let (more, e) := decodePrefix enc fuel (s.drop enc.charBlockLen)
        (b ++ more, e)

/-- what `filteringReader` + strict decoding mean on a whole string: every byte
    must be alphabet or skip; skip bytes are dropped. -/
def filterSkip (e : Enc) (s : List UInt8) : List UInt8 := s.filter (fun c => !(e.isSkip c && (e.digit? c).isNone))

/-! ### exact-arithmetic reference for the length helpers -/

/-- `WF e`: the tables are what exact integer arithmetic says, the alphabet is
    a set of `base` distinct characters, and no skip character is needed as a
    digit.  Decidable for a concrete `e`; checked by `decide` on the generated
    encodings. -/
structure Enc.WF (e : Enc) : Prop where
  base_gt : 1 < e.base
  block_pos : 0 < e.blockLen
  cblock_pos : 0 < e.charBlockLen
  alpha_len : e.alphabet.length = e.base
  alpha_nodup : e.alphabet.Nodup
  encTab_len : e.encLenTab.length = e.blockLen + 1
  decTab_len : e.decLenTab.length = e.charBlockLen + 1
  validTab_len : e.validTab.length = e.charBlockLen + 1
  /-- `EncodedLen(r)` is the least `c` with `256^r ≤ base^c` -/
  enc_least : ∀ r, r ≤ e.blockLen →
      256 ^ r ≤ e.base ^ (e.encLenTab.getD r 0) ∧
      (e.encLenTab.getD r 0 = 0 ∨ e.base ^ (e.encLenTab.getD r 0 - 1) < 256 ^ r)
  /-- `DecodedLen(c)` is the greatest `b` with `256^b ≤ base^c` -/
  dec_greatest : ∀ c, c ≤ e.charBlockLen →
      256 ^ (e.decLenTab.getD c 0) ≤ e.base ^ c ∧ e.base ^ c < 256 ^ (e.decLenTab.getD c 0 + 1)
  /-- a full byte block encodes to a full character block, and back -/
  enc_full : e.encLenTab.getD e.blockLen 0 = e.charBlockLen
  dec_full : e.decLenTab.getD e.charBlockLen 0 = e.blockLen
  /-- `IsValidEncodingLength(c)` ⇔ `c` is `0`, the full block, or a length at
      which the decoded length grows -/
  valid_spec : ∀ c, c ≤ e.charBlockLen →
      e.validTab.getD c false = (c == 0 || c == e.charBlockLen ||
        (e.decLenTab.getD c 0 != e.decLenTab.getD (c - 1) 0))

end Saltpack.Basex
