/-
  Saltpack.Model.SignReader — `VerifyDetachedReader` with the message supplied
  by an arbitrary `io.Reader` (verify.go).

  The reader is a script of deliveries (Model/Stream.lean: `Source`); the code
  hashes it with `io.Copy(hasher, message)`, whose contract is modelled by
  `copyAll`: every delivery's data is written — including data delivered in the
  same call as the terminating condition —, `io.EOF` ends the copy without an
  error, any other error is returned.

  Core Lean only.
-/
import Saltpack.Model.Sign
import Saltpack.Model.Stream

namespace Saltpack.Sign
open Saltpack Saltpack.Stream

/-- `io.Copy(dst, src)`: what reaches `dst`, and the error it returns -/
def copyAll : Source → Bytes × Option Err
  | [] => ([], none)
  | (d, none) :: rest => (d ++ (copyAll rest).1, (copyAll rest).2)
  | (d, some .eof) :: _ => (d, none)
  | (d, some (.err z)) :: _ => (d, some z)

section
variable (P : Prims)

/-- `VerifyDetachedReader`: header, signature packet and key lookup first (their
    errors win), then the copy (its error is returned), then the verification. -/
def verifyDetachedReader (valid : Validator) (kr : Keyring) (hr : HeaderRead SigHeader) (sr : SigRead)
    (src : Source) : Except Err Bytes :=
  match hr with
  | .unreadable => .error .failedToReadHeaderBytes
  | .undecodable _ => .error .decodeError
  | .ok hb h =>
    match validate valid h mtDetached with
    | .error e => .error e
    | .ok () =>
      match sr with
      | .none e => .error e
      | .sig sg =>
        match kr.lookupSigningPublicKey h.senderPublic with
        | none => .error .noSenderKey
        | some pk =>
          match copyAll src with
          | (_, some z) => .error z
          | (msg, none) =>
            if P.verify pk (detachedSignatureInput P (P.hash hb) msg) sg then .ok pk
            else .error .badSignature

end
end Saltpack.Sign
