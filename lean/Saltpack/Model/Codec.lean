/-
  Saltpack.Model.Codec — go-codec's TYPED decoding of the saltpack packets
  (keybase/go-codec 164397562123: decode.go `kStruct`, `kSlice`, `kInterface`,
  `swallow`, `decode`, fast-path `DecSliceIntfV` / `DecSliceUint8V` /
  `DecMapIntfIntfV`; msgpack.go `DecodeBytes`, `DecodeInt64`, `DecodeUint64`,
  `DecodeBool`, `DecodeNaked`, `ContainerType`, `readContainerLen`), for exactly
  the Go types the receivers of saltpack decode into (msgpack.go, packets.go,
  decrypt.go `readEncryptionBlock`, verify_stream.go `readSignatureBlock`,
  signcrypt_open.go, verify.go, common.go `assertEndOfStream`).

  The decoders work on the BYTES, left to right, exactly in the order go-codec
  reads them (a typed decoder notices a wrong type before it reaches a
  truncation further right, the generic parser of Msgpack.lean does not), so a
  decoder is a state function over the remaining input (`Dec`).  Errors:
    `eof`         the input ended inside (or before) the object — what the stream
                  reader reports as `io.EOF` (decReadFull keeps `io.EOF`);
    `err`         any other decode error (wrong type, overflow, `0xc1`, depth > 100,
                  unhashable map key, …; go-codec recovers its panics into errors);
    `unmodelled`  behaviour the model does not claim to know (see the end of the
                  file header) — measured by the correspondence.

  go-codec facts mirrored (each validated by the stream `codec.list.*`):
  * nil (`c0`) is accepted for every value and leaves the zero value;
  * `[]byte` field: bin, str, array OR MAP (2n elements) of unsigned ints ≤ 255 (nil = 0);
    the top-level `*[]byte` (header packet, detached signature): bin, str, array — a map
    is an error (`DecodeBytes`, not `kSlice`);
  * `string`: `DecodeBytes` too;  `int`: any integer family, `uint64 → int64` wraps;
    `bool`: `c2`/`c3` and the fixints 0/1;
  * `[32]byte`: bin/str of ANY length (truncated / zero padded), array or map of
    unsigned ints (surplus swallowed);
  * `toarray` struct: array (missing fields stay zero, surplus swallowed) or
    map keyed by the codec names (unknown keys swallowed);
  * slices: array, or a map read as 2n flat elements;
  * the V2 blocks decode into `[]interface{}{&final, &x, &y}`: array or map (2n
    flat), at most 3 elements used, the rest swallowed;
  * `interface{}` (generic): str → []byte; a map needs hashable keys
    ([]byte keys become strings; arrays, maps and raw extensions are not hashable);
    an extension with zero data bytes makes go-codec decode a FURTHER value;
  * depth: `decode`/`swallow` may nest 100 deep (`remainingDepth`), then error.

  Unmodelled (explicit): a container-typed struct field (`vers`, `rcvrs`,
  `authenticators`) given twice in map form (go-codec merges into the old value);
  a generic map with a repeated key whose stored value is not a scalar (go-codec
  decodes the second value INTO the first one's dynamic type; followed for nil, ints,
  bools and floats), or with two timestamp keys.

  Core Lean only.
-/
import Saltpack.Model.Packets

namespace Saltpack.Codec
open Saltpack Msgpack

inductive DErr where
  | eof
  | err (why : String)
  | unmodelled (why : String)
  deriving Repr, DecidableEq

/-- a decoder: remaining input → value and rest, or error -/
abbrev Dec := StateT Bytes (Except DErr)

def fail {α : Type} (e : DErr) : Dec α := fun _ => .error e

def bad {α : Type} (why : String) : Dec α := fail (.err why)

def liftP {α : Type} : PRes α → Except DErr (α × Bytes)
  | .ok x => .ok x
  | .error _ => .error .eof

/-- `readn1` -/
def readn1 : Dec UInt8 := fun b =>
  match b with
  | [] => .error .eof
  | x :: r => .ok (x, r)

/-- look at the descriptor byte (`readNextBd` with `bdRead` kept) -/
def peek1 : Dec UInt8 := fun b =>
  match b with
  | [] => .error .eof
  | x :: _ => .ok (x, b)

/-- `readx n` / `readb` -/
def readx (n : Nat) : Dec Bytes := fun b => liftP (takeN n b)

/-- big-endian length / integer of `w` bytes -/
def readBE (w : Nat) : Dec Nat := fun b => liftP (readLen w b)

/-- msgpackDecDriver.ContainerType -/
inductive CT where
  | nil | bytes | array | map | unset
  deriving Repr, DecidableEq

def ctype (c : Nat) : CT :=
  if c = 0xc0 then .nil
  else if c = 0xc4 ∨ c = 0xc5 ∨ c = 0xc6 ∨ c = 0xd9 ∨ c = 0xda ∨ c = 0xdb ∨ (0xa0 ≤ c ∧ c ≤ 0xbf) then .bytes
  else if c = 0xdc ∨ c = 0xdd ∨ (0x90 ≤ c ∧ c ≤ 0x9f) then .array
  else if c = 0xde ∨ c = 0xdf ∨ (0x80 ≤ c ∧ c ≤ 0x8f) then .map
  else .unset

/-- TryDecodeAsNil -/
def tryNil : Dec Bool := fun b =>
  match b with
  | [] => .error .eof
  | x :: r => if x = 0xc0 then .ok (true, r) else .ok (false, b)

/-- length of a bin/str whose descriptor `c` was read -/
def lenBytes (c : Nat) : Dec Nat :=
  if c = 0xc4 ∨ c = 0xd9 then readBE 1
  else if c = 0xc5 ∨ c = 0xda then readBE 2
  else if c = 0xc6 ∨ c = 0xdb then readBE 4
  else pure (c - 0xa0)

def lenArr (c : Nat) : Dec Nat :=
  if c = 0xdc then readBE 2 else if c = 0xdd then readBE 4 else pure (c - 0x90)

def lenMap (c : Nat) : Dec Nat :=
  if c = 0xde then readBE 2 else if c = 0xdf then readBE 4 else pure (c - 0x80)

/-- ReadArrayStart on an array descriptor -/
def readArrayStart : Dec Nat := do
  let bd ← readn1
  lenArr bd.toNat

def readMapStart : Dec Nat := do
  let bd ← readn1
  lenMap bd.toNat

/-- a signed integer family that must not be negative (DecodeUint64) -/
def nonNeg (bits w : Nat) : Dec Nat := do
  let n ← readBE w
  if n < 2 ^ (bits - 1) then pure n else bad "assigning negative signed value to unsigned type"

/-- msgpackDecDriver.DecodeUint64 -/
def decodeUint64 : Dec Nat := do
  let bd ← readn1
  let c := bd.toNat
  if c = 0xcc then readBE 1
  else if c = 0xcd then readBE 2
  else if c = 0xce then readBE 4
  else if c = 0xcf then readBE 8
  else if c = 0xd0 then nonNeg 8 1
  else if c = 0xd1 then nonNeg 16 2
  else if c = 0xd2 then nonNeg 32 4
  else if c = 0xd3 then nonNeg 64 8
  else if c < 0x80 then pure c
  else if 0xe0 ≤ c then bad "assigning negative signed value to unsigned type"
  else bad "cannot decode unsigned integer"

/-- an integer of `w` bytes read through `f` -/
def readInt (f : Nat → Int) (w : Nat) : Dec Int := do
  let n ← readBE w
  pure (f n)

/-- msgpackDecDriver.DecodeInt64 (`uint64 → int64` wraps; `int` is 64 bits wide,
    so `chkOvf.IntV(_, 64)` never fires) -/
def decodeInt64 : Dec Int := do
  let bd ← readn1
  let c := bd.toNat
  if c = 0xcc then readInt Int.ofNat 1
  else if c = 0xcd then readInt Int.ofNat 2
  else if c = 0xce then readInt Int.ofNat 4
  else if c = 0xcf then readInt (signedOf 64) 8
  else if c = 0xd0 then readInt (signedOf 8) 1
  else if c = 0xd1 then readInt (signedOf 16) 2
  else if c = 0xd2 then readInt (signedOf 32) 4
  else if c = 0xd3 then readInt (signedOf 64) 8
  else if c < 0x80 then pure (Int.ofNat c)
  else if 0xe0 ≤ c then pure (Int.ofNat c - 256)
  else bad "cannot decode signed integer"

/-- msgpackDecDriver.DecodeBool -/
def decodeBool : Dec Bool := do
  let bd ← readn1
  let c := bd.toNat
  if c = 0xc2 ∨ c = 0 then pure false
  else if c = 0xc3 ∨ c = 1 then pure true
  else bad "cannot decode bool"

/-- one element of a byte slice given as a container of integers: nil = 0,
    else `uint8(chkOvf.UintV(DecodeUint64(), 8))` (fast-path DecSliceUint8V, kUint8) -/
def u8elem : Dec UInt8 := do
  if (← tryNil) then pure 0
  else
    let v ← decodeUint64
    if v < 256 then pure (UInt8.ofNat v) else bad "uint64 overflow"

/-- `n` such elements (`acc` reversed) -/
def u8loop : Nat → Bytes → Dec Bytes
  | 0, acc => pure acc.reverse
  | n + 1, acc => do
    let x ← u8elem
    u8loop n (x :: acc)

/-- msgpackDecDriver.DecodeBytes on a non-nil descriptor: bin/str, or an array
    of unsigned ints; everything else "invalid container type".  Also
    DecodeString / DecodeStringAsBytes (struct keys). -/
def decodeBytes : Dec Bytes := do
  let bd ← peek1
  match ctype bd.toNat with
  | .bytes => do
    let _ ← readn1
    let n ← lenBytes bd.toNat
    readx n
  | .array => do
    let n ← readArrayStart
    u8loop n []
  | _ => bad "invalid container type: expecting bin|str|array"

/-- decSliceHelperStart: array length, or twice the map length -/
def sliceLen : Dec Nat := do
  let bd ← peek1
  match ctype bd.toNat with
  | .array => readArrayStart
  | .map => do
    let n ← readMapStart
    pure (2 * n)
  | _ => bad "only encoded map or array can be decoded into a slice"

/-- kSlice for a `[]byte` struct field / block element -/
def decBytesField : Dec Bytes := do
  let bd ← peek1
  match ctype bd.toNat with
  | .bytes => decodeBytes
  | _ => do
    let n ← sliceLen
    u8loop n []

/-! ### generic decoding (`interface{}`) and `swallow`, with go-codec's depth limit -/

/-- what a generically decoded value is worth as a Go map key.  A float key is
    kept as its `float64` value in canonical form (sign, exponent, mantissa;
    `none` = NaN, which never equals anything; ±0 identified) -/
inductive GKey where
  | nil | bool (b : Bool) | int (i : Int) | uint (n : Nat) | bytes (b : Bytes)
  | float (c : Option (Bool × Nat × Nat)) | time | unhashable
  deriving Repr, DecidableEq

def f64canon (n : Nat) : Option (Bool × Nat × Nat) :=
  let s := n / 2 ^ 63
  let e := (n / 2 ^ 52) % 2048
  let m := n % 2 ^ 52
  if e = 2047 ∧ m ≠ 0 then none
  else if e = 0 ∧ m = 0 then some (false, 0, 0)
  else some (s == 1, e, m)

/-- a `float32` converted to `float64` (exact) -/
def f32canon (n : Nat) : Option (Bool × Nat × Nat) :=
  let s := n / 2 ^ 31
  let e := (n / 2 ^ 23) % 256
  let m := n % 2 ^ 23
  if e = 255 then (if m ≠ 0 then none else some (s == 1, 2047, 0))
  else if e = 0 then
    if m = 0 then some (false, 0, 0)
    else
      let p := Nat.log2 m
      some (s == 1, p + 874, (m - 2 ^ p) * 2 ^ (52 - p))
  else some (s == 1, e + 896, m * 2 ^ 29)

/-- are two decoded keys the same Go map key? -/
def GKey.same : GKey → GKey → Bool
  | .float none, _ => false
  | a, b => a == b

/-- equality the model does not decide (two timestamps) -/
def GKey.unsure : GKey → GKey → Bool
  | .time, .time => true
  | _, _ => false

/-- the dynamic type of a value stored in a generic map, as far as a later
    value for the same key is decoded INTO it (`mv = v[mk]; d.decode(&mv)`) -/
inductive GVal where
  | nil | int | uint | bool | float | other
  deriving Repr, DecidableEq

def GVal.ofKey : GKey → GVal
  | .nil => .nil
  | .int _ => .int
  | .uint _ => .uint
  | .bool _ => .bool
  | .float _ => .float
  | _ => .other

/-- msgpackDecDriver.DecodeFloat64 (only what is consumed / whether it fails) -/
def decodeFloat64 : Dec Unit := do
  let bd ← peek1
  if bd = 0xca then do let _ ← readn1; let _ ← readx 4; pure ()
  else if bd = 0xcb then do let _ ← readn1; let _ ← readx 8; pure ()
  else do let _ ← decodeInt64; pure ()

def extLen (c : Nat) : Dec Nat :=
  if c = 0xd4 then pure 1 else if c = 0xd5 then pure 2 else if c = 0xd6 then pure 4
  else if c = 0xd7 then pure 8 else if c = 0xd8 then pure 16
  else if c = 0xc7 then readBE 1 else if c = 0xc8 then readBE 2 else readBE 4

def isExt (c : Nat) : Bool := (0xd4 ≤ c ∧ c ≤ 0xd8) ∨ (0xc7 ≤ c ∧ c ≤ 0xc9)

/-- a number of `w` bytes read as a map key -/
def readKey (f : Nat → GKey) (w : Nat) : Dec (Option GKey) := do
  let n ← readBE w
  pure (some (f n))

/-- DecodeNaked on a scalar descriptor `c` (already read): `some key` or
    `none` = not a scalar (container, bytes, ext, 0xc1) -/
def nakedScalar (c : Nat) : Dec (Option GKey) :=
  if c = 0xc0 then pure (some .nil)
  else if c = 0xc2 then pure (some (.bool false))
  else if c = 0xc3 then pure (some (.bool true))
  else if c = 0xca then readKey (fun n => .float (f32canon n)) 4
  else if c = 0xcb then readKey (fun n => .float (f64canon n)) 8
  else if c = 0xcc then readKey .uint 1
  else if c = 0xcd then readKey .uint 2
  else if c = 0xce then readKey .uint 4
  else if c = 0xcf then readKey .uint 8
  else if c = 0xd0 then readKey (fun n => .int (signedOf 8 n)) 1
  else if c = 0xd1 then readKey (fun n => .int (signedOf 16 n)) 2
  else if c = 0xd2 then readKey (fun n => .int (signedOf 32 n)) 4
  else if c = 0xd3 then readKey (fun n => .int (signedOf 64 n)) 8
  else if c < 0x80 then pure (some (.int (Int.ofNat c)))
  else if 0xe0 ≤ c then pure (some (.int (Int.ofNat c - 256)))
  else pure none

/-- the extension families in DecodeNaked: `true` = go-codec decodes a further
    value (zero data bytes, not a timestamp) -/
def nakedExt (c : Nat) : Dec (Bool × GKey) := do
  let clen ← extLen c
  let tag ← readn1
  if tag = 0xff then
    if clen = 4 ∨ clen = 8 ∨ clen = 12 then do
      let _ ← readx clen
      pure (false, .time)
    else bad "invalid length of bytes for decoding time"
  else do
    let _ ← readx clen
    pure (clen = 0, .unhashable)

mutual
/-- `d.decode(&x)` for a nil `x interface{}` with `rem = d.remainingDepth` -/
def gen : (fuel rem : Nat) → Dec GKey
  | 0, _ => fail (.unmodelled "fuel")
  | fuel + 1, rem =>
    if rem = 0 then bad "max depth exceeded" else do
    let rem := rem - 1
    let bd ← readn1
    let c := bd.toNat
    match ← nakedScalar c with
    | some k => pure k
    | none =>
      match ctype c with
      | .bytes => do
        let n ← lenBytes c
        let s ← readx n
        pure (.bytes s)
      | .array =>
        if rem = 0 then bad "max depth exceeded" else do
        let n ← lenArr c
        genArr fuel (rem - 1) n
        pure .unhashable
      | .map =>
        if rem = 0 then bad "max depth exceeded" else do
        let n ← lenMap c
        genMap fuel (rem - 1) n []
        pure .unhashable
      | _ =>
        if isExt c then do
          let (further, k) ← nakedExt c
          if further then
            discard (gen fuel rem)
          pure k
        else bad "cannot infer value"

/-- the elements of a generic array (fast-path DecSliceIntfV into a nil slice) -/
def genArr : (fuel rem n : Nat) → Dec Unit
  | 0, _, _ => fail (.unmodelled "fuel")
  | _ + 1, _, 0 => pure ()
  | fuel + 1, rem, n + 1 => do
    if (← tryNil) then genArr fuel rem n
    else
      let _ ← gen fuel rem
      genArr fuel rem n

/-- the pairs of a generic map (fast-path DecMapIntfIntfV); `keys`: what is
    stored so far, newest first.  A value for a key that is already there is
    decoded into the stored value's dynamic type (kInterface on a non-nil
    interface), which the model follows for the scalar types. -/
def genMap : (fuel rem n : Nat) → List (GKey × GVal) → Dec Unit
  | 0, _, _, _ => fail (.unmodelled "fuel")
  | _ + 1, _, 0, _ => pure ()
  | fuel + 1, rem, n + 1, keys => do
    let k ← gen fuel rem
    let isNil ← tryNil
    if k = .unhashable then bad "hash of unhashable type"
    else if keys.any (fun kv => GKey.unsure kv.1 k) then fail (.unmodelled "generic map with two timestamp keys")
    else if isNil then genMap fuel rem n ((k, .nil) :: keys)
    else
      let prev := match keys.find? (fun kv => GKey.same kv.1 k) with
        | some (_, t) => t
        | none => .nil
      match prev with
      | .nil => do
        let v ← gen fuel rem
        genMap fuel rem n ((k, GVal.ofKey v) :: keys)
      | .other => fail (.unmodelled "generic map: a repeated key whose first value is not a scalar")
      | t =>
        if rem = 0 then bad "max depth exceeded" else do
        match t with
        | .int => do let _ ← decodeInt64; pure ()
        | .uint => do let _ ← decodeUint64; pure ()
        | .bool => do let _ ← decodeBool; pure ()
        | _ => decodeFloat64
        genMap fuel rem n ((k, t) :: keys)
end

mutual
/-- `d.swallow()` with `rem = d.remainingDepth` -/
def swallow : (fuel rem : Nat) → Dec Unit
  | 0, _ => fail (.unmodelled "fuel")
  | fuel + 1, rem =>
    if rem = 0 then bad "max depth exceeded" else do
    let rem := rem - 1
    if (← tryNil) then pure ()
    else
      let bd ← peek1
      let c := bd.toNat
      match ctype c with
      | .map => do
        let n ← readMapStart
        swallowN fuel rem (2 * n)
      | .array => do
        let n ← readArrayStart
        swallowN fuel rem n
      | .bytes => do
        let _ ← decodeBytes
        pure ()
      | _ => do
        let _ ← readn1
        match ← nakedScalar c with
        | some _ => pure ()
        | none =>
          if isExt c then do
            let (further, _) ← nakedExt c
            if further then
              discard (gen fuel rem)
            pure ()
          else bad "cannot infer value"

def swallowN : (fuel rem n : Nat) → Dec Unit
  | 0, _, _ => fail (.unmodelled "fuel")
  | _ + 1, _, 0 => pure ()
  | fuel + 1, rem, n + 1 => do
    swallow fuel rem
    swallowN fuel rem n
end

/-- fuel that is never exhausted on input `b` (every step of a loop reads a byte,
    the nesting is bounded by the depth limit) -/
def fuelFor (b : Bytes) : Nat := 2 * b.length + 256

/-! ### structs (`kStruct`) -/

/-- one field of a `toarray` struct: codec name, whether it is container-typed,
    its zero, its decoder (given the struct decoded so far) -/
structure Field (σ : Type) where
  name : Bytes
  container : Bool
  zero : σ → σ
  dec : σ → Dec σ

def fieldVal {σ : Type} (f : Field σ) (st : σ) : Dec σ := do
  if (← tryNil) then pure (f.zero st) else f.dec st

/-- array form: fields in source order while the stream array lasts, the
    surplus swallowed -/
def structArr {σ : Type} (fuel rem : Nat) : List (Field σ) → Nat → σ → Dec σ
  | _, 0, st => pure st
  | [], n + 1, st => do
    swallowN fuel rem (n + 1)
    pure st
  | f :: fs, n + 1, st => do
    let st ← fieldVal f st
    structArr fuel rem fs n st

/-- `tiSep2`: the separator byte go-codec puts before a name in its name table -/
def tiSep (name : Bytes) : UInt8 := 0xfe - (name.headD 0 &&& 63) - UInt8.ofNat (name.length % 64)

def insertByName {σ : Type} (f : Field σ) : List (Field σ) → List (Field σ)
  | [] => [f]
  | g :: gs => if f.name < g.name then f :: g :: gs else g :: insertByName f gs

/-- `sfiSort`: the fields sorted by codec name -/
def sortFields {σ : Type} (fields : List (Field σ)) : List (Field σ) := fields.foldr insertByName []

/-- `sfiNamesSort`: sep, name, 0xff, index (2 bytes) for every sorted field -/
def nameTable {σ : Type} : List (Field σ) → Nat → Bytes
  | [], _ => []
  | f :: fs, i => tiSep f.name :: f.name ++ [0xff, UInt8.ofNat (i / 256), UInt8.ofNat (i % 256)] ++ nameTable fs (i + 1)

/-- `bytes.Index` -/
def indexOf (needle : Bytes) : Bytes → Nat → Option Nat
  | [], j => if needle.isEmpty then some j else none
  | x :: t, j => if needle.isPrefixOf (x :: t) then some j else indexOf needle t (j + 1)

inductive Lookup (σ : Type) where
  | panic
  | notFound
  | found (f : Field σ)

/-- `indexForEncName` + `tisfi[k]`: a substring search in the name table (an
    empty key makes go-codec index out of range: an error) -/
def lookupField {σ : Type} (fields : List (Field σ)) (key : Bytes) : Lookup σ :=
  if key.isEmpty then .panic else
  let sorted := sortFields fields
  let table := nameTable sorted 0
  let sn := tiSep key :: key ++ [0xff]
  match indexOf sn table 0 with
  | none => .notFound
  | some j =>
    match table[j + sn.length]?, table[j + sn.length + 1]? with
    | some hi, some lo =>
      let k := hi.toNat * 256 + lo.toNat
      if 32768 ≤ k then .notFound
      else match sorted[k]? with
        | some f => .found f
        | none => .panic
    | _, _ => .panic

/-- map form: `n` pairs, keys are the codec names (`DecodeStringAsBytes`),
    unknown keys swallowed -/
def structMap {σ : Type} (fuel rem : Nat) (fields : List (Field σ)) : Nat → List Bytes → σ → Dec σ
  | 0, _, st => pure st
  | n + 1, seen, st => do
    let k ← decodeBytes
    match lookupField fields k with
    | .panic => bad "index out of range in indexForEncName"
    | .found f =>
      if f.container && seen.contains f.name then fail (.unmodelled "container field repeated in map form")
      else do
        let st ← fieldVal f st
        structMap fuel rem fields n (f.name :: seen) st
    | .notFound => do
      swallow fuel rem
      structMap fuel rem fields n seen st

/-- Decoder.kStruct on a non-nil descriptor -/
def kStruct {σ : Type} (fuel rem : Nat) (fields : List (Field σ)) (st : σ) : Dec σ := do
  let bd ← peek1
  match ctype bd.toNat with
  | .map => do
    let n ← readMapStart
    structMap fuel rem fields n [] st
  | .array => do
    let n ← readArrayStart
    structArr fuel rem fields n st
  | _ => bad "only encoded map or array can be decoded into a struct"

/-- the elements of a slice of `α` (nil element = zero value); `acc` reversed -/
def sliceElems {α : Type} (elem : Dec α) (zero : α) : Nat → List α → Dec (List α)
  | 0, acc => pure acc.reverse
  | n + 1, acc => do
    if (← tryNil) then sliceElems elem zero n (zero :: acc)
    else
      let x ← elem
      sliceElems elem zero n (x :: acc)

/-- kSlice for a slice whose elements are not bytes -/
def kSliceOf {α : Type} (elem : Dec α) (zero : α) : Dec (List α) := do
  let bd ← peek1
  match ctype bd.toNat with
  | .bytes => bad "bytes/string in stream must decode into slice/array of bytes"
  | _ => do
    let n ← sliceLen
    sliceElems elem zero n []

/-- elements `j ≥ 0` of a `[32]byte` given as a container: the first 32 are
    stored, the others swallowed (`decodeIntoBlank`) -/
def arr32loop (fuel rem : Nat) : (n j : Nat) → Bytes → Dec Bytes
  | 0, _, acc => pure acc.reverse
  | n + 1, j, acc =>
    if j < 32 then do
      let x ← u8elem
      arr32loop fuel rem n (j + 1) (x :: acc)
    else do
      if (← tryNil) then arr32loop fuel rem n (j + 1) acc
      else
        swallow fuel rem
        arr32loop fuel rem n (j + 1) acc

def pad32 (b : Bytes) : Bytes := (b ++ zeros 32).take 32

/-- kSlice (seqTypeArray) for `payloadAuthenticator = [32]byte` -/
def decByteArray32 (fuel rem : Nat) : Dec Bytes := do
  let bd ← peek1
  match ctype bd.toNat with
  | .bytes => pad32 <$> decodeBytes
  | _ => do
    let n ← sliceLen
    pad32 <$> arr32loop fuel rem n 0 []

/-! ### the saltpack types -/

def versionFields : List (Field Version) :=
  [ ⟨strBytes "major", false, fun v => { v with major := 0 },
      fun v => do let i ← decodeInt64; pure { v with major := i }⟩,
    ⟨strBytes "minor", false, fun v => { v with minor := 0 },
      fun v => do let i ← decodeInt64; pure { v with minor := i }⟩ ]

def decVersion (fuel rem : Nat) (v : Version) : Dec Version := kStruct fuel rem versionFields v

def recvFields : List (Field RecvKeys) :=
  [ ⟨strBytes "receiver_key_id", false, fun r => { r with kid := none },
      fun r => do let b ← decBytesField; pure { r with kid := some b }⟩,
    ⟨strBytes "payloadkey", false, fun r => { r with box := [] },
      fun r => do let b ← decBytesField; pure { r with box := b }⟩ ]

def zeroRecv : RecvKeys := ⟨none, []⟩

def decReceiver (fuel rem : Nat) : Dec RecvKeys := kStruct fuel rem recvFields zeroRecv

def zeroEncHeader : EncHeader := ⟨[], ⟨0, 0⟩, 0, [], [], []⟩

def encHeaderFields (fuel rem : Nat) : List (Field EncHeader) :=
  [ ⟨strBytes "format_name", false, fun h => { h with formatName := [] },
      fun h => do let s ← decodeBytes; pure { h with formatName := s }⟩,
    ⟨strBytes "vers", true, fun h => { h with version := ⟨0, 0⟩ },
      fun h => do let v ← decVersion fuel rem h.version; pure { h with version := v }⟩,
    ⟨strBytes "type", false, fun h => { h with typ := 0 },
      fun h => do let i ← decodeInt64; pure { h with typ := i }⟩,
    ⟨strBytes "ephemeral", false, fun h => { h with ephemeral := [] },
      fun h => do let b ← decBytesField; pure { h with ephemeral := b }⟩,
    ⟨strBytes "sendersecretbox", false, fun h => { h with senderSecretbox := [] },
      fun h => do let b ← decBytesField; pure { h with senderSecretbox := b }⟩,
    ⟨strBytes "rcvrs", true, fun h => { h with receivers := [] },
      fun h => do let l ← kSliceOf (decReceiver fuel rem) zeroRecv; pure { h with receivers := l }⟩ ]

def zeroSigHeader : SigHeader := ⟨[], ⟨0, 0⟩, 0, [], []⟩

def sigHeaderFields (fuel rem : Nat) : List (Field SigHeader) :=
  [ ⟨strBytes "format_name", false, fun h => { h with formatName := [] },
      fun h => do let s ← decodeBytes; pure { h with formatName := s }⟩,
    ⟨strBytes "vers", true, fun h => { h with version := ⟨0, 0⟩ },
      fun h => do let v ← decVersion fuel rem h.version; pure { h with version := v }⟩,
    ⟨strBytes "type", false, fun h => { h with typ := 0 },
      fun h => do let i ← decodeInt64; pure { h with typ := i }⟩,
    ⟨strBytes "sender_public", false, fun h => { h with senderPublic := [] },
      fun h => do let b ← decBytesField; pure { h with senderPublic := b }⟩,
    ⟨strBytes "nonce", false, fun h => { h with nonce := [] },
      fun h => do let b ← decBytesField; pure { h with nonce := b }⟩ ]

/-- `Decode(&x)` of a struct at top level (MustDecode: nil = zero value;
    `decode` takes one level of depth) -/
def topStruct {σ : Type} (fields : Nat → Nat → List (Field σ)) (zero : σ) : Dec σ := fun b =>
  (do if (← tryNil) then pure zero else kStruct (fuelFor b) 99 (fields (fuelFor b) 99) zero : Dec σ) b

def decEncHeader : Dec EncHeader := topStruct encHeaderFields zeroEncHeader

def decSigHeader : Dec SigHeader := topStruct sigHeaderFields zeroSigHeader

/-- `[]payloadAuthenticator` -/
def decAuthenticators (fuel rem : Nat) : Dec (List Bytes) :=
  kSliceOf (decByteArray32 fuel rem) (zeros 32)

def zeroEncBlock : EncBlock := ⟨[], [], false⟩

def encBlockV1Fields (fuel rem : Nat) : List (Field EncBlock) :=
  [ ⟨strBytes "authenticators", true, fun b => { b with auths := [] },
      fun b => do let a ← decAuthenticators fuel rem; pure { b with auths := a }⟩,
    ⟨strBytes "ctext", false, fun b => { b with ct := [] },
      fun b => do let c ← decBytesField; pure { b with ct := c }⟩ ]

/-- `mps.Read(&ebV1)` -/
def decEncBlockV1 : Dec EncBlock := topStruct encBlockV1Fields zeroEncBlock

def zeroSigncryptBlock : SigncryptBlock := ⟨[], false⟩

def signcryptBlockFields (_fuel _rem : Nat) : List (Field SigncryptBlock) :=
  [ ⟨strBytes "ctext", false, fun b => { b with ct := [] },
      fun b => do let c ← decBytesField; pure { b with ct := c }⟩,
    ⟨strBytes "final", false, fun b => { b with final := false },
      fun b => do let f ← decodeBool; pure { b with final := f }⟩ ]

/-- `mps.Read(&signcryptionBlock)` -/
def decSigncryptBlock : Dec SigncryptBlock := topStruct signcryptBlockFields zeroSigncryptBlock

def zeroSigBlock : SigBlock := ⟨[], [], false⟩

def sigBlockV1Fields (_fuel _rem : Nat) : List (Field SigBlock) :=
  [ ⟨strBytes "signature", false, fun b => { b with sig := [] },
      fun b => do let s ← decBytesField; pure { b with sig := s }⟩,
    ⟨strBytes "payload_chunk", false, fun b => { b with chunk := [] },
      fun b => do let c ← decBytesField; pure { b with chunk := c }⟩ ]

/-- `mps.Read(&sbV1)` -/
def decSigBlockV1 : Dec SigBlock := topStruct sigBlockV1Fields zeroSigBlock

/-- the V2 blocks: `CodecDecodeSelf` decodes into `[]interface{}{&a, &b, &c}`
    (fast-path DecSliceIntfV, canChange = false): element j < 3 nil = untouched,
    else decoded into the pointee; elements ≥ 3 swallowed.  `decs` are the three
    element decoders (depth 97 inside), applied to the block so far. -/
def selfLoop {σ : Type} (fuel : Nat) : List (σ → Dec σ) → Nat → σ → Dec σ
  | _, 0, st => pure st
  | [], n + 1, st => do
    swallowN fuel 98 (n + 1)
    pure st
  | d :: ds, n + 1, st => do
    if (← tryNil) then selfLoop fuel ds n st
    else
      let st ← d st
      selfLoop fuel ds n st

def topSelfer {σ : Type} (decs : Nat → List (σ → Dec σ)) (zero : σ) : Dec σ := fun b =>
  (do if (← tryNil) then pure zero
      else
        let n ← sliceLen
        selfLoop (fuelFor b) (decs (fuelFor b)) n zero : Dec σ) b

/-- `mps.Read(&ebV2)` -/
def decEncBlockV2 : Dec EncBlock :=
  topSelfer (fun fuel =>
    [ fun b => do let f ← decodeBool; pure { b with final := f },
      fun b => do let a ← decAuthenticators fuel 97; pure { b with auths := a },
      fun b => do let c ← decBytesField; pure { b with ct := c } ]) zeroEncBlock

/-- `mps.Read(&sbV2)` -/
def decSigBlockV2 : Dec SigBlock :=
  topSelfer (fun _ =>
    [ fun b => do let f ← decodeBool; pure { b with final := f },
      fun b => do let s ← decBytesField; pure { b with sig := s },
      fun b => do let c ← decBytesField; pure { b with chunk := c } ]) zeroSigBlock

/-- `mps.Read(&bytes)` for a `*[]byte` (header packet, detached signature):
    nil = empty, else DecodeBytes -/
def decBytesTop : Dec Bytes := do
  if (← tryNil) then pure [] else decodeBytes

/-- `mps.Read(&x)` for `x interface{}` (assertEndOfStream, and the lister's
    "does anything decode here") -/
def generic : Dec Unit := fun b =>
  (do if (← tryNil) then pure ()
      else
        let _ ← gen (fuelFor b) 100
        pure () : Dec Unit) b

/-! ### the stream level: what a receiver's typed reads make of a message -/

/-- `readEncryptionBlock` (the version was checked to be 1 or 2 before) -/
def decEncBlock (major : Int) : Dec EncBlock := if major = 1 then decEncBlockV1 else decEncBlockV2

def decSigBlock (major : Int) : Dec SigBlock := if major = 1 then decSigBlockV1 else decSigBlockV2

/-- typed reads until the first failure.  `eof` ends the stream cleanly; on
    another error the position is tried generically: something decodes = an
    item that is not a block (and the lister stops), nothing decodes = the
    tail error. -/
def blocks {β : Type} (dec : Dec β) : (fuel : Nat) → Bytes → Except String (PStream β)
  | 0, _ => .error "fuel"
  | fuel + 1, b =>
    match dec b with
    | .ok (x, rest) =>
      match blocks dec fuel rest with
      | .ok ps => .ok ⟨some x :: ps.items, ps.tail⟩
      | .error w => .error w
    | .error .eof => .ok ⟨[], .eof⟩
    | .error (.unmodelled w) => .error w
    | .error (.err _) =>
      match generic b with
      | .ok _ => .ok ⟨[none], .eof⟩
      | .error (.unmodelled w) => .error w
      | .error _ => .ok ⟨[], .err .decodeError⟩

/-- the header packet read as `[]byte` and decoded again -/
def readHeader {η : Type} (dec : Dec η) (msg : Bytes) : Except String (HeaderRead η × Bytes) :=
  match decBytesTop msg with
  | .error (.unmodelled w) => .error w
  | .error _ => .ok (.unreadable, [])
  | .ok (hb, rest) =>
    match dec hb with
    | .error (.unmodelled w) => .error w
    | .error _ => .ok (.undecodable hb, rest)
    | .ok (h, _) => .ok (.ok hb h, rest)

/-- message bytes → header read and packet stream (`Except String`: the reason
    the model does not claim to know) -/
def split {η β : Type} (decH : Dec η) (decB : η → Option (Dec β)) (msg : Bytes) :
    Except String (HeaderRead η × PStream β) :=
  match readHeader decH msg with
  | .error w => .error w
  | .ok (.ok hb h, rest) =>
    match decB h with
    | none => .ok (.ok hb h, ⟨[], .eof⟩)
    | some d =>
      match blocks d (rest.length + 1) rest with
      | .error w => .error w
      | .ok ps => .ok (.ok hb h, ps)
  | .ok (hr, _) => .ok (hr, ⟨[], .eof⟩)

def majorOK (m : Int) : Bool := m = 1 ∨ m = 2

def splitEnc (msg : Bytes) : Except String (HeaderRead EncHeader × PStream EncBlock) :=
  split decEncHeader (fun h => if majorOK h.version.major then some (decEncBlock h.version.major) else none) msg

def splitSigncrypt (msg : Bytes) : Except String (HeaderRead EncHeader × PStream SigncryptBlock) :=
  split decEncHeader (fun _ => some decSigncryptBlock) msg

def splitSig (msg : Bytes) : Except String (HeaderRead SigHeader × PStream SigBlock) :=
  split decSigHeader (fun h => if majorOK h.version.major then some (decSigBlock h.version.major) else none) msg

/-- detached signature: header, then one `[]byte`: `none` = clean end (eof),
    `some (error ())` = decode error -/
inductive DetSig where
  | sig (s : Bytes)
  | eof
  | err
  deriving Repr, DecidableEq

def splitDetached (msg : Bytes) : Except String (HeaderRead SigHeader × DetSig) :=
  match readHeader decSigHeader msg with
  | .error w => .error w
  | .ok (.ok hb h, rest) =>
    match decBytesTop rest with
    | .ok (s, _) => .ok (.ok hb h, .sig s)
    | .error .eof => .ok (.ok hb h, .eof)
    | .error (.unmodelled w) => .error w
    | .error (.err _) => .ok (.ok hb h, .err)
  | .ok (hr, _) => .ok (hr, .eof)

end Saltpack.Codec
