/-
  Saltpack.Model.SpecDecodeAll — the strict reference decoder for
  SIGNCRYPTION handed the keys of ALL recipients (extension of
  Model/SpecDecode.lean, whose `ScMsg.check` gets one recipient's key and
  therefore ties only that recipient's header entry to the specification).

  `ScMsg.checkAll m keys`: one key (box secret or symmetric key) per recipient
  entry, in header order; EVERY entry is checked — the identifier of a box
  recipient is the specified HMAC, every payload key box opens under the
  specified derived key and nonce —, all boxes must hold the SAME payload key;
  then the sender secretbox and the packets exactly as `ScMsg.check`.

  Core Lean only.
-/
import Saltpack.Model.SpecDecode

namespace Saltpack.SpecDecode
open Saltpack Msgpack Spec

section
variable (P : Prims)

/-- every recipient entry with its key, numbered from `i`: the payload keys -/
def scRecvKeysAll (eph : Bytes) : Nat → List ScRecv → List ScKey → R (List Bytes)
  | _, [], [] => .ok []
  | i, r :: rs, k :: ks =>
    match scRecvKey P eph i r k with
    | .error e => .error s!"recipient {i}: {e}"
    | .ok pk =>
      match scRecvKeysAll eph (i + 1) rs ks with
      | .error e => .error e
      | .ok pks => .ok (pk :: pks)
  | _, _, _ => .error "one key per recipient entry is needed"

/-- sender secretbox and packets under the payload key (the tail of `ScMsg.check`) -/
def ScMsg.checkBody (m : ScMsg) (pk : Bytes) : R ScOpened :=
  match P.sbOpen pk sNonceSenderKey m.ssb with
  | none => .error "sender secretbox does not open"
  | some senderPub =>
    if senderPub.length ≠ 32 then .error "sender key length"
    else if m.pkts = [] then .error "no payload packet"
    else
      match scPkts P pk (P.hash m.headerBytes) senderPub (isAnon senderPub) 0 m.pkts with
      | .error e => .error e
      | .ok chunks => .ok ⟨pk, senderPub, chunks⟩

/-- signcryption, checked with the keys of all recipients -/
def ScMsg.checkAll (m : ScMsg) (keys : List ScKey) : R ScOpened :=
  match scRecvKeysAll P m.eph 0 m.recvs keys with
  | .error e => .error e
  | .ok [] => .error "no recipient"
  | .ok (pk :: pks) =>
    if pks.all (· == pk) then m.checkBody P pk
    else .error "the payload key boxes hold different payload keys"

/-- signcryption with all recipients' keys; the verdict names the decoded
    plaintext, sender and the recipient identifiers in header order -/
def signcryptionAll (msg : Bytes) (keys : List ScKey) : R String :=
  match ScMsg.parse msg with
  | .error e => .error e
  | .ok m =>
    match m.checkAll P keys with
    | .error e => .error e
    | .ok o =>
      .ok s!"plaintext={showB o.chunks.flatten} sender={if isAnon o.senderPub then "anon" else showB o.senderPub} recipients={",".intercalate (m.recvs.map (fun r => showB r.ident))}"

end
end Saltpack.SpecDecode
