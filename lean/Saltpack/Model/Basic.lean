/-
  Saltpack.Model.Basic — the library's OWN keyring, package `basic`
  (/repo/basic/key.go), as a concrete executable value.

  Go ↔ Lean

    kidToPublicKey / kidToSigningPublicKey      Basic.kidToPublicKey
    PublicKey (ToKID, ToRawBoxKeyPointer,       a public key IS its 32 raw bytes (`PublicKey.toKID`,
      HideIdentity)                               `PublicKey.hideIdentity`)
    SecretKey{sec, pub} (Box, Unbox,            Basic.SecretKey (+ `.box`, `.unbox`, `.precompute`,
      Precompute, GetPublicKey, NewSecretKey)     `.getPublicKey`, `newSecretKey`)
    PrecomputedSharedKey (Box, Unbox)           `PrecomputedSharedKey.box / .unbox`
    SigningSecretKey{pub, sec} (Sign,           Basic.SigningSecretKey (+ `.sign`, `.getPublicKey`)
      GetPublicKey, NewSigningSecretKey)
    SigningPublicKey (ToKID, Verify)            `SigningPublicKey.verify`
    Keyring{encKeys, sigKeys}, NewKeyring       Basic.Keyring, Basic.Keyring.empty
    ImportBoxKey / ImportSigningKey             Keyring.importBoxKey / importSigningKey (map assignment = `mapInsert`)
    LookupBoxSecretKey                          Keyring.lookupBoxSecretKey (the `for i, kid := range kids` loop)
    LookupBoxPublicKey / ImportBoxEphemeralKey  Keyring.lookupBoxPublicKey / importBoxEphemeralKey (never nil)
    LookupSigningPublicKey                      Keyring.lookupSigningPublicKey (never nil; `sigKeys` is NOT consulted)
    GetAllBoxSecretKeys                         Keyring.getAllBoxSecretKeys (a Go map is iterated: see below)
    generateBoxKey / EphemeralKeyCreator /      Basic.generateBoxKey / createEphemeralKey /
      Keyring.GenerateBoxKey                      Keyring.generateBoxKey (consumers of the randomness script)
    Keyring.GenerateSigningKey                  Keyring.generateSigningKey (does NOT touch the keyring — as the code)

  Go arrays.  Raw keys are `[32]byte` / `[64]byte` arrays in Go; here they are
  byte strings.  Everything that is *said about the Go code* concerns arguments
  of the right length (the driver refuses others); the functions are total on
  all byte strings, and `kidToPublicKey` is where a slice of ANY length is
  turned into an array (`copy` into a zeroed array: zero padding / truncation).

  Go maps.  `encKeys map[PublicKey]SecretKey` is an association list with
  pairwise distinct keys (`mapInsert` overwrites, `mapGet` finds the unique
  entry).  The order of the list is the order of FIRST import; it has no
  meaning for the Go map.  The one place where the code iterates the map,
  `GetAllBoxSecretKeys`, returns the values in an order the Go runtime chooses
  afresh for every call: `Keyring.toRing` therefore takes that order as an
  argument (`order`, any permutation of the values), and every theorem about it
  quantifies over all permutations.  The driver uses import order
  (`Keyring.ring`); the harness compares order-insensitively.

  Core Lean only.
-/
import Saltpack.Model.Decrypt
import Saltpack.Model.Rand

namespace Saltpack.Basic
open Saltpack

/-- `kidToPublicKey` (and `kidToSigningPublicKey`, the same code on another
    array type): `var tmp [32]byte; copy(tmp[:], kid)` — the first 32 bytes of
    `kid`, zero padded -/
def kidToPublicKey (kid : Bytes) : Bytes := (kid ++ zeros 32).take 32

/-! ### key objects -/

/-- `basic.SecretKey`: the raw secret and the public key it was created with
    (`NewSecretKey(pub, sec)` stores both; nothing checks that they match) -/
structure SecretKey where
  pub : Bytes
  sec : Bytes
  deriving Repr, DecidableEq, Inhabited

/-- `NewSecretKey(pub, sec)` -/
def newSecretKey (pub sec : Bytes) : SecretKey := ⟨pub, sec⟩

namespace PublicKey
/-- `PublicKey.ToKID` = `ToRawBoxKeyPointer`: the key itself -/
def toKID (k : Bytes) : Bytes := k
/-- `PublicKey.HideIdentity` -/
def hideIdentity (_ : Bytes) : Bool := false
end PublicKey

namespace SecretKey
variable (P : Prims)
/-- `SecretKey.Box(receiver, nonce, msg)` = `box.Seal` with `k.sec` -/
def box (k : SecretKey) (receiver nonce msg : Bytes) : Bytes := P.box k.sec receiver nonce msg
/-- `SecretKey.Unbox(sender, nonce, msg)`: `ErrDecryptionFailed` if `box.Open` fails -/
def unbox (k : SecretKey) (sender nonce c : Bytes) : Except Err Bytes :=
  match P.unbox k.sec sender nonce c with
  | none => .error .decryptionFailed
  | some m => .ok m
/-- `SecretKey.Precompute(peer)` -/
def precompute (k : SecretKey) (peer : Bytes) : Bytes := P.precompute k.sec peer
/-- `SecretKey.GetPublicKey`: the STORED public key -/
def getPublicKey (k : SecretKey) : Bytes := k.pub
end SecretKey

namespace PrecomputedSharedKey
variable (P : Prims)
/-- `PrecomputedSharedKey.Box` = `box.SealAfterPrecomputation` -/
def box (k nonce msg : Bytes) : Bytes := P.sbSeal k nonce msg
/-- `PrecomputedSharedKey.Unbox` -/
def unbox (k nonce c : Bytes) : Except Err Bytes :=
  match P.sbOpen k nonce c with
  | none => .error .decryptionFailed
  | some m => .ok m
end PrecomputedSharedKey

/-- `basic.SigningSecretKey`: the stored public key and the raw 64-byte Ed25519
    private key (seed ‖ public key) -/
structure SigningSecretKey where
  pub : Bytes
  sec : Bytes
  deriving Repr, DecidableEq, Inhabited

/-- `NewSigningSecretKey(pub, sec)` -/
def newSigningSecretKey (pub sec : Bytes) : SigningSecretKey := ⟨pub, sec⟩

namespace SigningSecretKey
variable (P : Prims)
/-- `SigningSecretKey.Sign`: `ed25519.Sign(k.sec, msg)`, never an error.  The
    primitive `P.sign` takes the 32-byte seed, i.e. the first half of the raw
    private key.  (Faithful for well-formed private keys — second half = public
    key of the first; `ed25519.Sign` mixes the second half into the hash.) -/
def sign (k : SigningSecretKey) (msg : Bytes) : Except Err Bytes := .ok (P.sign (k.sec.take 32) msg)
def getPublicKey (k : SigningSecretKey) : Bytes := k.pub
/-- a raw private key as `ed25519.GenerateKey` makes it -/
def WellFormed (k : SigningSecretKey) : Prop :=
  k.sec = k.sec.take 32 ++ P.sigPub (k.sec.take 32) ∧ k.pub = P.sigPub (k.sec.take 32)
end SigningSecretKey

namespace SigningPublicKey
/-- `SigningPublicKey.Verify`: `ErrBadSignature` unless `ed25519.Verify` -/
def verify (P : Prims) (k msg sig : Bytes) : Except Err Unit :=
  if P.verify k msg sig then .ok () else .error .badSignature
def toKID (k : Bytes) : Bytes := k
end SigningPublicKey

/-! ### Go maps as association lists -/

/-- `m[k]` (comma-ok form) -/
def mapGet (m : List SecretKey) (pub : Bytes) : Option SecretKey := m.find? (fun e => e.pub == pub)

/-- `m[nk.pub] = nk` -/
def mapInsert : List SecretKey → SecretKey → List SecretKey
  | [], nk => [nk]
  | e :: rest, nk => if e.pub == nk.pub then nk :: rest else e :: mapInsert rest nk

def sigMapInsert : List SigningSecretKey → SigningSecretKey → List SigningSecretKey
  | [], nk => [nk]
  | e :: rest, nk => if e.pub == nk.pub then nk :: rest else e :: sigMapInsert rest nk

/-! ### the keyring -/

/-- `basic.Keyring` -/
structure Keyring where
  encKeys : List SecretKey
  sigKeys : List SigningSecretKey
  deriving Repr, DecidableEq, Inhabited

namespace Keyring

/-- `NewKeyring()` -/
def empty : Keyring := ⟨[], []⟩

/-- `ImportBoxKey(pub, sec)` -/
def importBoxKey (k : Keyring) (pub sec : Bytes) : Keyring :=
  { k with encKeys := mapInsert k.encKeys (newSecretKey pub sec) }

/-- `ImportSigningKey(pub, sec)` -/
def importSigningKey (k : Keyring) (pub sec : Bytes) : Keyring :=
  { k with sigKeys := sigMapInsert k.sigKeys (newSigningSecretKey pub sec) }

/-- a sequence of `ImportBoxKey` calls, in order -/
def importAll (k : Keyring) : List SecretKey → Keyring
  | [] => k
  | e :: rest => importAll (k.importBoxKey e.pub e.sec) rest

/-- the loop of `LookupBoxSecretKey`, `i` = index of the head of the list -/
def lookupFrom (k : Keyring) : List Bytes → Nat → Int × Option SecretKey
  | [], _ => (-1, none)
  | kid :: rest, i =>
    match mapGet k.encKeys (kidToPublicKey kid) with
    | some sk => ((i : Int), some sk)
    | none => lookupFrom k rest (i + 1)

/-- `LookupBoxSecretKey(kids)`: index of the first kid whose 32-byte copy is a
    key of the map, and that entry; `(-1, nil)` if there is none -/
def lookupBoxSecretKey (k : Keyring) (kids : List Bytes) : Int × Option SecretKey := lookupFrom k kids 0

/-- `LookupBoxPublicKey(kid)`: never nil, never consults the keyring -/
def lookupBoxPublicKey (_ : Keyring) (kid : Bytes) : Bytes := kidToPublicKey kid

/-- `ImportBoxEphemeralKey(kid)`: never nil -/
def importBoxEphemeralKey (_ : Keyring) (kid : Bytes) : Bytes := kidToPublicKey kid

/-- `LookupSigningPublicKey(kid)`: never nil; `sigKeys` is not consulted — a
    basic keyring "knows" every signer -/
def lookupSigningPublicKey (_ : Keyring) (kid : Bytes) : Bytes := kidToPublicKey kid

/-- `GetAllBoxSecretKeys()`: the values of the map.  Go iterates the map in an
    unspecified order; this is the list in order of first import, and only its
    content up to permutation is meaningful (`nil` for the empty map). -/
def getAllBoxSecretKeys (k : Keyring) : List SecretKey := k.encKeys

end Keyring

/-! ### key generation: consumers of the randomness script -/

/-- `generateBoxKey()` = `EphemeralKeyCreator.CreateEphemeralKey()`:
    `box.GenerateKey(rand.Reader)` is one `io.ReadFull` of 32 bytes — the secret —
    and the public key is computed from it; any error (also a short read) is
    returned and no key is made -/
def generateBoxKey (P : Prims) (src : Rand.Source) : Except Err (SecretKey × Rand.Source) :=
  match Rand.readFull 32 src with
  | none => .error .ioError
  | some (s, rest) => .ok (newSecretKey (P.boxPub s) s, rest)

/-- `EphemeralKeyCreator{}.CreateEphemeralKey()` -/
def createEphemeralKey (P : Prims) (src : Rand.Source) : Except Err (SecretKey × Rand.Source) :=
  generateBoxKey P src

namespace Keyring

/-- `Keyring.GenerateBoxKey()`: generate, then `k.encKeys[ret.pub] = *ret` -/
def generateBoxKey (P : Prims) (k : Keyring) (src : Rand.Source) : Except Err (SecretKey × Keyring × Rand.Source) :=
  match Basic.generateBoxKey P src with
  | .error e => .error e
  | .ok (sk, rest) => .ok (sk, { k with encKeys := mapInsert k.encKeys sk }, rest)

/-- `Keyring.GenerateSigningKey()`: `ed25519.GenerateKey(rand.Reader)` is one
    `io.ReadFull` of the 32-byte seed; the raw private key is seed ‖ public.
    The key is returned and — despite the doc comment — NOT stored. -/
def generateSigningKey (P : Prims) (k : Keyring) (src : Rand.Source) :
    Except Err (SigningSecretKey × Keyring × Rand.Source) :=
  match Rand.readFull 32 src with
  | none => .error .ioError
  | some (seed, rest) => .ok (newSigningSecretKey (P.sigPub seed) (seed ++ P.sigPub seed), k, rest)

/-! ### the abstract keyring the receivers take -/

/-- The `Saltpack.Keyring` record (Model/Decrypt.lean) of a basic keyring.  A box
    secret key object is represented by its secret bytes there (every method the
    receivers call on it — `Unbox`, `Precompute`, `Box` — uses `k.sec` only).
    `order`: the order in which `GetAllBoxSecretKeys` happens to iterate the map
    in this run — any permutation of `k.encKeys`. -/
def toRing (k : Keyring) (order : List SecretKey) : Saltpack.Keyring where
  lookupBoxSecretKey kids :=
    let r := k.lookupBoxSecretKey kids
    (r.1, r.2.map (·.sec))
  lookupBoxPublicKey kid := some (k.lookupBoxPublicKey kid)
  getAllBoxSecretKeys := order.map (·.sec)
  importBoxEphemeralKey kid := some (k.importBoxEphemeralKey kid)
  lookupSigningPublicKey kid := some (k.lookupSigningPublicKey kid)

/-- the instance the driver runs: iteration in import order -/
def ring (k : Keyring) : Saltpack.Keyring := k.toRing k.getAllBoxSecretKeys

end Keyring

end Saltpack.Basic
