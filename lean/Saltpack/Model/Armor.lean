/-
  Saltpack.Model.Armor — armor.go, armor62.go, frame.go as pure functions over
  whole strings: what the armor encoder stream emits for a payload, the frame
  grammar (`makeFrame`, `parseFrame`, `CheckArmor62`), and the *meaning* of the
  three-sentence framed decoder (`Armor62Open…`): split at the first three
  periods, check the frames, strip `[>\n\r\t ]`, decode 43-character blocks.
  The per-call state machines are in Model/Stream.lean.

  Text is a byte string.  Core Lean only.
-/
import Saltpack.Model.Basex
import Saltpack.Model.Core
import Saltpack.Gen.BasexTables

namespace Saltpack.Armor
open Saltpack

def period : UInt8 := 46   -- Armor62Params.Punctuation
def space : UInt8 := 32
def newline : UInt8 := 10

structure Params where
  bytesPerWord : Nat
  wordsPerLine : Nat
  enc : Basex.Enc

/-- `Armor62Params` -/
def params62 : Params := ⟨15, 200, Gen.base62Std⟩

/-- `getStringForType` -/
def typeString (typ : Int) : Option Bytes :=
  if typ = mtEncryption then some Gen.c_sp_EncryptionArmorString
  else if typ = mtAttached then some Gen.c_sp_SignedArmorString
  else if typ = mtDetached then some Gen.c_sp_DetachedSignatureArmorString
  else none

def intercalateSp : List Bytes → Bytes
  | [] => []
  | [w] => w
  | w :: ws => w ++ [space] ++ intercalateSp ws

/-- `strings.ToUpper(FormatName)` for the ASCII format name -/
def upper (b : Bytes) : Bytes := b.map (fun c => if 97 ≤ c ∧ c ≤ 122 then c - 32 else c)

/-- `makeFrame`: `BEGIN|END [brand] SALTPACK <type>`; empty for a type that
    cannot be armored -/
def makeFrame (marker : Bytes) (typ : Int) (brand : Bytes) : Bytes :=
  match typeString typ with
  | none => []
  | some sffx =>
    intercalateSp ([marker] ++ (if brand.isEmpty then [] else [brand]) ++ [upper Gen.c_sp_FormatName, sffx])

def header (typ : Int) (brand : Bytes) : Bytes := makeFrame Gen.c_sp_headerMarker typ brand
def footer (typ : Int) (brand : Bytes) : Bytes := makeFrame Gen.c_sp_footerMarker typ brand

/-- the words the encoder emits for the encoded characters: pieces of
    `bytesPerWord`; the last one (1…`bytesPerWord` characters, or empty when there
    are no characters at all) is written by `Close` -/
def spaceWords (p : Params) : (k : Nat) → List Bytes → Bytes
  | _, [] => []
  | _, [w] => w
  | k, w :: ws => w ++ [if (k + 1) % p.wordsPerLine = 0 then newline else space] ++ spaceWords p (k + 1) ws

/-- `armorSeal` / `armorEncoderStream`: everything written to the output -/
def sealText (p : Params) (hdr ftr : Bytes) (payload : Bytes) : Bytes :=
  let chars := Basex.encode p.enc payload
  let words := chunks p.bytesPerWord chars
  let lastLen := (words.getLast?.getD []).length
  let nWords := if words.isEmpty then 1 else words.length
  let pad : Bytes := if lastLen = p.bytesPerWord then
      (if nWords % p.wordsPerLine = 0 then [newline] else [space]) else []
  hdr ++ [period, space] ++ spaceWords p 0 words ++ pad ++ [period, space] ++ ftr ++ [period, newline]

def seal62 (typ : Int) (brand payload : Bytes) : Bytes :=
  sealText params62 (header typ brand) (footer typ brand) payload

/-! ### frame parsing -/

/-- the characters `[>\n\r\t ]` of the frame regular expression -/
def isFrameSpace (c : UInt8) : Bool := c == 62 || c == 10 || c == 13 || c == 9 || c == 32

/-- ASCII white space as `strings.TrimSpace` sees it (bytes ≥ 0x80 never reach
    the frame parser through the framed decoder: `toASCII` rejects them) -/
def isTrimSpace (c : UInt8) : Bool := c == 9 || c == 10 || c == 11 || c == 12 || c == 13 || c == 32

def trimSpace (b : Bytes) : Bytes := ((b.dropWhile isTrimSpace).reverse.dropWhile isTrimSpace).reverse

/-- `re.ReplaceAllString(m, " ")` for `[>\n\r\t ]+`: every maximal run becomes one space -/
def collapseAux : (inRun : Bool) → Bytes → Bytes
  | _, [] => []
  | inRun, c :: cs =>
    if isFrameSpace c then (if inRun then collapseAux true cs else space :: collapseAux true cs)
    else c :: collapseAux false cs

def collapse (b : Bytes) : Bytes := collapseAux false b

/-- `strings.Split(s, " ")` -/
def splitSp (b : Bytes) : List Bytes :=
  let rec go : Bytes → Bytes → List Bytes
    | [], cur => [cur.reverse]
    | c :: cs, cur => if c == space then cur.reverse :: go cs [] else go cs (c :: cur)
  go b []

/-- `parseFrame`: the brand, or an error -/
def parseFrame (m : Bytes) (typ : Int) (marker : Bytes) : Except Err Bytes :=
  if m.length > Gen.c_sp_maxFrameLength.toNat then .error .badFrame
  else
    let s := trimSpace (collapse m)
    match typeString typ with
    | none => .error .badFrame
    | some sffx =>
      let v := splitSp s
      if v.length != 4 && v.length != 5 then .error .badFrame
      else if v.headD [] != marker then .error .badFrame
      else
        let n := v.length
        let received := v.getD (n - 2) [] ++ [space] ++ v.getD (n - 1) []
        if received != sffx then .error .badFrame
        else if v.getD (n - 3) [] != upper Gen.c_sp_FormatName then .error .badFrame
        else if n = 5 then
          let brand := v.getD 1 []
          if brand.length > Gen.c_sp_maxBrandLength.toNat then .error .badFrame else .ok brand
        else .ok []

/-- `CheckArmor62` -/
def checkArmor62 (hdr ftr : Bytes) (typ : Int) : Except Err Bytes :=
  match parseFrame hdr typ Gen.c_sp_headerMarker with
  | .error e => .error e
  | .ok brand =>
    match parseFrame ftr typ Gen.c_sp_footerMarker with
    | .error e => .error e
    | .ok b2 => if b2 != brand then .error .badFrame else .ok brand

/-! ### the framed decoder, as a function of the whole text -/

/-- split at the first occurrence of `c`: (before, after) or none -/
def splitAt1 (c : UInt8) : Bytes → Option (Bytes × Bytes)
  | [] => none
  | x :: xs =>
    if x == c then some ([], xs)
    else match splitAt1 c xs with
      | none => none
      | some (a, b) => some (x :: a, b)

def frameLim : Nat := 8192

/-- `IsValidByte` of the armor encoding: alphabet or skip character -/
def validByte (p : Params) (c : UInt8) : Bool := (p.enc.digit? c).isSome || p.enc.isSkip c

/-- `toASCII` -/
def toASCII (p : Params) (b : Bytes) : Except Err Bytes :=
  if b.all (validByte p) then .ok (trimSpace b) else .error .badFrame

/-- which frame checks an entry point applies: none (`Armor62Open`), or the
    header/frame checkers of a message type -/
abbrev Expect := Option Int

structure Opened where
  payload : Bytes
  brand : Bytes
  header : Bytes
  footer : Bytes
  deriving Repr, DecidableEq

/-- `Armor62OpenWithValidation` / the dearmoring front of every `Dearmor62…`
    entry point, for a source that delivers `text` and then a clean EOF. -/
def openPure (p : Params) (expect : Expect) (text : Bytes) : Except Err Opened :=
  match splitAt1 period text with
  | none => .error (if text.length ≥ frameLim then .overflow else .unexpectedEOF)
  | some (hdrRaw, r1) =>
    if hdrRaw.length ≥ frameLim then .error .overflow
    else match toASCII p hdrRaw with
    | .error e => .error e
    | .ok hdr =>
      let brandR : Except Err Bytes := match expect with
        | none => .ok []
        | some typ => parseFrame hdr typ Gen.c_sp_headerMarker
      match brandR with
      | .error e => .error e
      | .ok brand =>
        match splitAt1 period r1 with
        | none => .error .unexpectedEOF
        | some (body, r2) =>
          if !(body.all (validByte p)) then .error .basexCorrupt
          else match Basex.decode p.enc.strict (Basex.filterSkip p.enc body) with
          | .error _ => .error .basexBadLen
          | .ok payload =>
            match splitAt1 period r2 with
            | none => .error (if r2.length ≥ frameLim then .overflow else .unexpectedEOF)
            | some (ftrRaw, r3) =>
              if ftrRaw.length ≥ frameLim then .error .overflow
              else match toASCII p ftrRaw with
              | .error e => .error e
              | .ok ftr =>
                let chk : Except Err Unit := match expect with
                  | none => .ok ()
                  | some typ => match checkArmor62 hdr ftr typ with
                    | .ok _ => .ok ()
                    | .error e => .error e
                match chk with
                | .error e => .error e
                | .ok () =>
                  if r3.any (· == period) then .error .punctuated
                  else if !(r3.all (validByte p)) then .error .trailingGarbage
                  else .ok ⟨payload, brand, hdr, ftr⟩

def open62 (expect : Expect) (text : Bytes) : Except Err Opened := openPure params62 expect text

end Saltpack.Armor
