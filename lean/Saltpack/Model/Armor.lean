/-
  Saltpack.Model.Armor — armor.go, armor62.go, frame.go as pure functions over
  whole strings: what the armor encoder stream emits for a payload, the frame
  grammar (`makeFrame`, `parseFrame`, `CheckArmor62`), and the *meaning* of the
  three-sentence framed decoder (`Armor62Open…`): split at the first three
  periods, check the frames, strip `[>\n\r\t ]`, decode 43-character blocks.
  The per-call state machines are in Model/Stream.lean.

  Text is a byte string.  Core Lean only.
-/
import Saltpack.Model.Basex
import Saltpack.Model.Core
import Saltpack.Gen.BasexTables

namespace Saltpack.Armor
open Saltpack

def period : UInt8 := 46   -- Armor62Params.Punctuation
def space : UInt8 := 32
def newline : UInt8 := 10

structure Params where
  bytesPerWord : Nat
  wordsPerLine : Nat
  enc : Basex.Enc

/-- `Armor62Params` -/
def params62 : Params := ⟨15, 200, Gen.base62Std⟩

/-- `getStringForType` -/
def typeString (typ : Int) : Option Bytes :=
  if typ = mtEncryption then some Gen.c_sp_EncryptionArmorString
  else if typ = mtAttached then some Gen.c_sp_SignedArmorString
  else if typ = mtDetached then some Gen.c_sp_DetachedSignatureArmorString
  else none

def intercalateSp : List Bytes → Bytes
  | [] => []
  | [w] => w
  | w :: ws => w ++ [space] ++ intercalateSp ws

/-- `strings.ToUpper(FormatName)` for the ASCII format name -/
def upper (b : Bytes) : Bytes := b.map (fun c => if 97 ≤ c ∧ c ≤ 122 then c - 32 else c)

/-- `makeFrame`: `BEGIN|END [brand] SALTPACK <type>`; empty for a type that
    cannot be armored -/
def makeFrame (marker : Bytes) (typ : Int) (brand : Bytes) : Bytes :=
  match typeString typ with
  | none => []
  | some sffx =>
    intercalateSp ([marker] ++ (if brand.isEmpty then [] else [brand]) ++ [upper Gen.c_sp_FormatName, sffx])

def header (typ : Int) (brand : Bytes) : Bytes := makeFrame Gen.c_sp_headerMarker typ brand
def footer (typ : Int) (brand : Bytes) : Bytes := makeFrame Gen.c_sp_footerMarker typ brand

/-- the words the encoder emits for the encoded characters: pieces of
    `bytesPerWord`; the last one (1…`bytesPerWord` characters, or empty when there
    are no characters at all) is written by `Close` -/
def spaceWords (p : Params) : (k : Nat) → List Bytes → Bytes
  | _, [] => []
  | _, [w] => w
  | k, w :: ws => w ++ [if (k + 1) % p.wordsPerLine = 0 then newline else space] ++ spaceWords p (k + 1) ws

/-- `armorSeal` / `armorEncoderStream`: everything written to the output -/
def sealText (p : Params) (hdr ftr : Bytes) (payload : Bytes) : Bytes :=
  let chars := Basex.encode p.enc payload
  let words := chunks p.bytesPerWord chars
  let lastLen := (words.getLast?.getD []).length
  let nWords := if words.isEmpty then 1 else words.length
  let pad : Bytes := if lastLen = p.bytesPerWord then
      (if nWords % p.wordsPerLine = 0 then [newline] else [space]) else []
  hdr ++ [period, space] ++ spaceWords p 0 words ++ pad ++ [period, space] ++ ftr ++ [period, newline]

def seal62 (typ : Int) (brand payload : Bytes) : Bytes :=
  sealText params62 (header typ brand) (footer typ brand) payload

/-! ### frame parsing -/

/-- the characters `[>\n\r\t ]` of the frame regular expression -/
def isFrameSpace (c : UInt8) : Bool := c == 62 || c == 10 || c == 13 || c == 9 || c == 32

/-- the ASCII white space of `strings.TrimSpace` (`asciiSpace`): `\t \n \v \f \r` and space -/
def isTrimSpace (c : UInt8) : Bool := c == 9 || c == 10 || c == 11 || c == 12 || c == 13 || c == 32

/-- ASCII-only trimming: what `strings.TrimSpace` does on a string all of whose
    bytes are below 0x80 (`trimSpace_eq_ascii` in Proofs/ArmorLemmas) — the
    situation behind `toASCII`, which lets valid armor bytes through only -/
def trimSpaceAscii (b : Bytes) : Bytes := ((b.dropWhile isTrimSpace).reverse.dropWhile isTrimSpace).reverse

/-- the two-byte UTF-8 encodings of white space: U+0085 (`C2 85`), U+00A0 (`C2 A0`) -/
def isSp2 (c d : UInt8) : Bool := c == 0xC2 && (d == 0x85 || d == 0xA0)

/-- the three-byte UTF-8 encodings of `unicode.White_Space`: U+1680 (`E1 9A 80`),
    U+2000…U+200A (`E2 80 80…8A`), U+2028/9 (`E2 80 A8/A9`), U+202F (`E2 80 AF`),
    U+205F (`E2 81 9F`), U+3000 (`E3 80 80`) -/
def isSp3 (c d e : UInt8) : Bool :=
  (c == 0xE1 && d == 0x9A && e == 0x80) ||
  (c == 0xE2 && d == 0x80 && ((0x80 ≤ e && e ≤ 0x8A) || e == 0xA8 || e == 0xA9 || e == 0xAF)) ||
  (c == 0xE2 && d == 0x81 && e == 0x9F) ||
  (c == 0xE3 && d == 0x80 && e == 0x80)

/-- strip white-space runes from the front: an ASCII space byte, or a two- or three-byte
    sequence recognised by `s2` / `s3`; stop at the first byte that starts neither
    (in particular at any invalid UTF-8: `RuneError` is not a space) -/
def trimRunes (s2 : UInt8 → UInt8 → Bool) (s3 : UInt8 → UInt8 → UInt8 → Bool) : Bytes → Bytes
  | [] => []
  | c :: r =>
    if isTrimSpace c then trimRunes s2 s3 r
    else match r with
      | [] => [c]
      | d :: r' =>
        if s2 c d then trimRunes s2 s3 r'
        else match r' with
          | [] => [c, d]
          | e :: r'' => if s3 c d e then trimRunes s2 s3 r'' else c :: d :: e :: r''

/-- `strings.TrimLeftFunc(s, unicode.IsSpace)`: runes decoded from the left -/
def trimLeft (b : Bytes) : Bytes := trimRunes isSp2 isSp3 b

/-- `strings.TrimRightFunc(s, unicode.IsSpace)` on the *reversed* string: runes
    decoded from the right (`utf8.DecodeLastRune`); the encodings above are
    read backwards.  (Interior bytes of an encoding are continuation bytes and
    its first byte is not, so `DecodeLastRune` finds exactly these sequences.) -/
def trimRightRev (r : Bytes) : Bytes := trimRunes (fun c d => isSp2 d c) (fun c d e => isSp3 e d c) r

/-- `strings.TrimSpace`: strips Unicode `White_Space` runes (UTF-8 decoded, from
    the left at the front and from the right at the back) — the ASCII ones
    (bytes 9–13, 32) and U+0085, U+00A0, U+1680, U+2000–U+200A, U+2028, U+2029,
    U+202F, U+205F, U+3000.  Invalid UTF-8 is not white space. -/
def trimSpace (b : Bytes) : Bytes := (trimRightRev (trimLeft b).reverse).reverse

/-- `re.ReplaceAllString(m, " ")` for `[>\n\r\t ]+`: every maximal run becomes one space -/
def collapseAux : (inRun : Bool) → Bytes → Bytes
  | _, [] => []
  | inRun, c :: cs =>
    if isFrameSpace c then (if inRun then collapseAux true cs else space :: collapseAux true cs)
    else c :: collapseAux false cs

def collapse (b : Bytes) : Bytes := collapseAux false b

/-- `strings.Split(s, " ")` -/
def splitSp (b : Bytes) : List Bytes :=
  let rec go : Bytes → Bytes → List Bytes
    | [], cur => [cur.reverse]
    | c :: cs, cur => if c == space then cur.reverse :: go cs [] else go cs (c :: cur)
  go b []

/-- `parseFrame`: the brand, or an error -/
def parseFrame (m : Bytes) (typ : Int) (marker : Bytes) : Except Err Bytes :=
  if m.length > Gen.c_sp_maxFrameLength.toNat then .error .badFrame
  else
    let s := trimSpace (collapse m)
    match typeString typ with
    | none => .error .badFrame
    | some sffx =>
      let v := splitSp s
      if v.length != 4 && v.length != 5 then .error .badFrame
      else if v.headD [] != marker then .error .badFrame
      else
        let n := v.length
        let received := v.getD (n - 2) [] ++ [space] ++ v.getD (n - 1) []
        if received != sffx then .error .badFrame
        else if v.getD (n - 3) [] != upper Gen.c_sp_FormatName then .error .badFrame
        else if n = 5 then
          let brand := v.getD 1 []
          if brand.length > Gen.c_sp_maxBrandLength.toNat then .error .badFrame else .ok brand
        else .ok []

/-- `CheckArmor62` -/
def checkArmor62 (hdr ftr : Bytes) (typ : Int) : Except Err Bytes :=
  match parseFrame hdr typ Gen.c_sp_headerMarker with
  | .error e => .error e
  | .ok brand =>
    match parseFrame ftr typ Gen.c_sp_footerMarker with
    | .error e => .error e
    | .ok b2 => if b2 != brand then .error .badFrame else .ok brand

/-! ### the framed decoder, as a function of the whole text -/

/-- split at the first occurrence of `c`: (before, after) or none -/
def splitAt1 (c : UInt8) : Bytes → Option (Bytes × Bytes)
  | [] => none
  | x :: xs =>
    if x == c then some ([], xs)
    else match splitAt1 c xs with
      | none => none
      | some (a, b) => some (x :: a, b)

def frameLim : Nat := 8192

/-- `IsValidByte` of the armor encoding: alphabet or skip character -/
def validByte (p : Params) (c : UInt8) : Bool := (p.enc.digit? c).isSome || p.enc.isSkip c

/-- `toASCII` -/
def toASCII (p : Params) (b : Bytes) : Except Err Bytes :=
  if b.all (validByte p) then .ok (trimSpace b) else .error .badFrame

/-- which frame checks an entry point applies: none (`Armor62Open`), or the
    header/frame checkers of a message type -/
abbrev Expect := Option Int

structure Opened where
  payload : Bytes
  brand : Bytes
  header : Bytes
  footer : Bytes
  deriving Repr, DecidableEq

/-- `Armor62OpenWithValidation` / the dearmoring front of every `Dearmor62…`
    entry point, for a source that delivers `text` and then a clean EOF.
    Only the distinction ok / error (and, on success, the result) is meant to
    agree with the implementation: the error KIND reported here is not in every
    case the one Go returns (the streaming decoder interleaves the frame, body
    and trailer checks differently, so a text with several defects may be
    rejected for another one first); C11 and C13 use ok-versus-error only. -/
def openPure (p : Params) (expect : Expect) (text : Bytes) : Except Err Opened :=
  match splitAt1 period text with
  | none => .error (if text.length ≥ frameLim then .overflow else .unexpectedEOF)
  | some (hdrRaw, r1) =>
    if hdrRaw.length ≥ frameLim then .error .overflow
    else match toASCII p hdrRaw with
    | .error e => .error e
    | .ok hdr =>
      let brandR : Except Err Bytes := match expect with
        | none => .ok []
        | some typ => parseFrame hdr typ Gen.c_sp_headerMarker
      match brandR with
      | .error e => .error e
      | .ok brand =>
        match splitAt1 period r1 with
        | none => .error .unexpectedEOF
        | some (body, r2) =>
          if !(body.all (validByte p)) then .error .basexCorrupt
          else match Basex.decode p.enc.strict (Basex.filterSkip p.enc body) with
          | .error _ => .error .basexBadLen
          | .ok payload =>
            match splitAt1 period r2 with
            | none => .error (if r2.length ≥ frameLim then .overflow else .unexpectedEOF)
            | some (ftrRaw, r3) =>
              if ftrRaw.length ≥ frameLim then .error .overflow
              else match toASCII p ftrRaw with
              | .error e => .error e
              | .ok ftr =>
                let chk : Except Err Unit := match expect with
                  | none => .ok ()
                  | some typ => match checkArmor62 hdr ftr typ with
                    | .ok _ => .ok ()
                    | .error e => .error e
                match chk with
                | .error e => .error e
                | .ok () =>
                  if r3.any (· == period) then .error .punctuated
                  else if !(r3.all (validByte p)) then .error .trailingGarbage
                  else .ok ⟨payload, brand, hdr, ftr⟩

def open62 (expect : Expect) (text : Bytes) : Except Err Opened := openPure params62 expect text

end Saltpack.Armor
