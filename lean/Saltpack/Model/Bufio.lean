/-
  Saltpack.Model.Bufio — what classify_and_decrypt.go uses of `bufio.Reader`
  (Go 1.2x `bufio/bufio.go`: `NewReaderSize`, `Size`, `fill`, `readErr`, `Peek`,
  `Read`) as a state machine over a scripted source (`Stream.Source`), and
  `IsSaltpackArmored` / `IsSaltpackBinary` / `ClassifyStream` composed on it the
  way the Go code composes them (after fix 565786f).

  The buffer is modelled by the list of its unread bytes `buf = b.buf[b.r:b.w]`
  (what `fill` slides to the front); `err` is `b.err`, the remembered condition
  of the last underlying read, forgotten by `readErr` when it is reported.

  Core Lean only.
-/
import Saltpack.Model.Stream
import Saltpack.Model.Classify

namespace Saltpack.Bufio
open Saltpack Saltpack.Stream

/-- what a `bufio.Reader` call reports besides data -/
inductive BErr where
  | src (e : RErr)       -- the condition of an underlying read (io.EOF or an error)
  | bufferFull           -- bufio.ErrBufferFull
  | noProgress           -- io.ErrNoProgress (100 consecutive empty reads)
  deriving Repr, DecidableEq

structure BState where
  size : Nat                       -- len(b.buf)
  src : Source
  buf : Bytes := []                -- b.buf[b.r:b.w]
  err : Option BErr := none        -- b.err
  deriving Repr

def minReadBufferSize : Nat := 16
def defaultBufSize : Nat := 4096
def maxConsecutiveEmptyReads : Nat := 100

/-- `bufio.NewReaderSize(rd, size)` -/
def newReaderSize (src : Source) (size : Nat) : BState :=
  { size := max size minReadBufferSize, src := src }

/-- `bufio.NewReader(rd)` -/
def newReader (src : Source) : BState := newReaderSize src defaultBufSize

/-- the read loop of `fill` (called with a buffer that is not full): up to `i`
    underlying reads into the free space; stops at the first read that brings
    data or a condition; `ErrNoProgress` when all were empty -/
def fillLoop : (i : Nat) → BState → BState
  | 0, s => { s with err := some .noProgress }
  | i + 1, s =>
    let (d, e, src') := srcRead (s.size - s.buf.length) s.src
    let s1 := { s with src := src', buf := s.buf ++ d }
    match e with
    | some e => { s1 with err := some (.src e) }
    | none => if d.length > 0 then s1 else fillLoop i s1

/-- `b.fill()` -/
def fill (s : BState) : BState := fillLoop maxConsecutiveEmptyReads s

/-- the loop of `Peek`: `for b.w-b.r < n && b.w-b.r < len(b.buf) && b.err == nil { b.fill() }`
    (every round adds a byte or sets `err`: `size + 1` rounds suffice) -/
def peekLoop (n : Nat) : (fuel : Nat) → BState → BState
  | 0, s => s
  | fuel + 1, s =>
    if s.buf.length < n ∧ s.buf.length < s.size ∧ s.err = none then peekLoop n fuel (fill s) else s

/-- `b.Peek(n)`: the available prefix, the condition, the new state — `buf` only grows -/
def peek (n : Nat) (s : BState) : Bytes × Option BErr × BState :=
  let s1 := peekLoop n (s.size + 1) s
  if n > s1.size then (s1.buf, some .bufferFull, s1)
  else if s1.buf.length < n then
    -- `err = b.readErr(); if err == nil { err = ErrBufferFull }`
    (s1.buf, some (s1.err.getD .bufferFull), { s1 with err := none })
  else (s1.buf.take n, none, s1)

/-- `b.Read(p)` with `len(p) = cap` -/
def read (cap : Nat) (s : BState) : Bytes × Option BErr × BState :=
  if cap = 0 then
    if s.buf.length > 0 then ([], none, s) else ([], s.err, { s with err := none })
  else if s.buf.isEmpty then
    match s.err with
    | some e => ([], some e, { s with err := none })
    | none =>
      if cap ≥ s.size then
        -- large read, empty buffer: directly into p; `return n, b.readErr()`
        let (d, e, src') := srcRead cap s.src
        (d, e.map .src, { s with src := src' })
      else
        -- one read into the buffer
        let (d, e, src') := srcRead s.size s.src
        let s1 := { s with src := src' }
        if d.isEmpty then ([], e.map .src, s1)
        else (d.take cap, none, { s1 with buf := d.drop cap, err := e.map .src })
  else (s.buf.take cap, none, { s with buf := s.buf.drop cap })

/-- read until a condition is reported: all bytes and that condition
    (`io.ReadAll`-like, with reads of `cap > 0` bytes) -/
def drain (cap : Nat) : (fuel : Nat) → BState → Bytes → Bytes × Option BErr × BState
  | 0, s, acc => (acc, none, s)
  | fuel + 1, s, acc =>
    let (d, e, s1) := read cap s
    match e with
    | some e => (acc ++ d, some e, s1)
    | none => drain cap fuel s1 (acc ++ d)

/-! ### the classifiers on the machine -/

open Classify

/-- outcome of a stream classifier: a verdict of the pure classifiers (`.eof`
    = io.EOF returned), or the error of the underlying reader / of bufio -/
inductive MVerdict (α : Type) where
  | v (x : Verdict α)
  | fail (e : BErr)
  deriving Repr, DecidableEq

def ofCond {α : Type} : BErr → MVerdict α
  | .src .eof => .v .eof
  | e => .fail e

/-- `IsSaltpackArmored(stream)` -/
def isSaltpackArmored (s : BState) : MVerdict (Bytes × Int × Version) × BState :=
  let (buf, err, s1) := peek s.size s
  match err with
  | some (.src .eof) =>
    if buf.isEmpty then (.v .eof, s1) else (.v (armoredPrefix buf), s1)
  | some e => (.fail e, s1)
  | none =>
    -- `len(buf) == 0` with a nil error: returns `err` = nil with the zero values;
    -- cannot happen (size ≥ 16 bytes were peeked), kept for faithfulness
    if buf.isEmpty then (.v (.unmodelled "armored: empty peek without error"), s1)
    else (.v (armoredPrefix buf), s1)

/-- `IsSaltpackBinary(stream)` -/
def isSaltpackBinary (s : BState) : MVerdict (Int × Version) × BState :=
  let (b, err, s1) := peek minLen s
  match err with
  | some .bufferFull => (.v .short, s1)
  | some e => (ofCond e, s1)
  | none => (.v (binarySlice b), s1)

/-- `ClassifyStream(stream)` (after fix 565786f) -/
def classifyStreamM (s : BState) : MVerdict (Bool × Bytes × Int × Version) × BState :=
  let (a, s1) := isSaltpackArmored s
  let bin (s1 : BState) : MVerdict (Bool × Bytes × Int × Version) × BState :=
    let (b, s2) := isSaltpackBinary s1
    match b with
    | .v (.ok (t, v)) => (.v (.ok (false, [], t, v)), s2)
    | .v .short => (.v .short, s2)
    | .v .eof => (.v .eof, s2)
    | .v .notSaltpack => (.v .notSaltpack, s2)
    | .v (.unmodelled w) => (.v (.unmodelled w), s2)
    | .fail e => (.fail e, s2)
  match a with
  | .v (.ok (b, t, v)) => (.v (.ok (true, b, t, v)), s1)
  | .v .short => (.v .short, s1)
  | .v (.unmodelled w) => (.v (.unmodelled w), s1)
  | .fail e => (.fail e, s1)         -- an error of the underlying reader: reported
  | .v .notSaltpack => bin s1
  | .v .eof => bin s1

end Saltpack.Bufio
