/-
  Saltpack.Model.SpecDecode — an independent *strict* reference decoder written
  from specs/*.md only (constants from Spec.lean, not from the code):

    * strict MessagePack: the bytes must be exactly the minimal encoding of what
      they parse to (checked by re-encoding), with exactly the specified types —
      byte strings are `bin`, never nil or `str` (except the nil key id of a
      hidden recipient), lists have exactly the specified arity;
    * a twice-encoded header followed by payload packets;
    * the specified nonces, key boxes, recipient identifiers, MAC and signature
      inputs; EVERY recipient's authenticator is verified on every packet;
    * chunks of at most 1 MiB, the final marker on the last packet only.

  It is an executable oracle for property C08 (run on the bytes the
  implementation emits); it is not used by the code model.  Core Lean only.
-/
import Saltpack.Model.Spec

namespace Saltpack.SpecDecode
open Saltpack Msgpack Spec

abbrev R := Except String

def need (c : Bool) (msg : String) : R Unit := if c then .ok () else .error msg

/-- parse a whole byte string into objects, demanding minimal encodings -/
def strictObjects (b : Bytes) : R (List Val) :=
  let (vs, stop) := parseAll (b.length + 1) b
  match stop with
  | some _ => .error "trailing bytes that are not MessagePack"
  | none => if (vs.flatMap encode) == b then .ok vs else .error "non-minimal MessagePack encoding"

def strictOne (b : Bytes) : R Val := do
  match ← strictObjects b with
  | [v] => .ok v
  | _ => .error "header bytes are not exactly one object"

def asBin (what : String) : Val → R Bytes
  | .bin b => .ok b
  | .nil => .error (what ++ " is nil (byte strings are never nil)")
  | .str _ => .error (what ++ " is a str, not a bin")
  | _ => .error (what ++ " is not a bin")

def asBinLen (what : String) (n : Nat) (v : Val) : R Bytes := do
  let b ← asBin what v
  need (b.length = n) s!"{what} has length {b.length}, expected {n}"
  .ok b

def asBool (what : String) : Val → R Bool
  | .bool b => .ok b
  | _ => .error (what ++ " is not a boolean")

structure Common where
  major : Int
  headerBytes : Bytes
  fields : List Val
  packets : List Val

/-- header packet + common header fields `[format name, [major, minor], mode]` -/
def common (msg : Bytes) (mode : Int) (nfields : Nat) : R Common := do
  match ← strictObjects msg with
  | [] => .error "empty message"
  | h :: packets =>
    let hb ← asBin "header packet" h
    match ← strictOne hb with
    | .arr fields =>
      need (fields.length = nfields) s!"header has {fields.length} fields, expected {nfields}"
      match fields with
      | .str fn :: .arr [.int ma, .int mi] :: .int ty :: _ =>
        need (fn == sFormatName) "format name is not \"saltpack\""
        need (ma == 1 || ma == 2) s!"major version {ma}"
        need (mi == 0) s!"minor version {mi}"
        need (ty == mode) s!"mode {ty}, expected {mode}"
        .ok ⟨ma, hb, fields, packets⟩
      | _ => .error "header does not start with [str, [int, int], int]"
    | _ => .error "header is not a list"

section
variable (P : Prims)

def macKeyRecipient (major : Int) (recipSec senderPub ephPub headerHash : Bytes) (i : Nat) : Bytes :=
  if major = 1 then ((P.box recipSec senderPub (headerHash.take 24) (zeros 32)).drop 16).take 32
  else
    (P.hash (((P.box recipSec senderPub (sHashNonce headerHash false i) (zeros 32)).drop 16).take 32 ++
             ((P.box recipSec ephPub (sHashNonce headerHash true i) (zeros 32)).drop 16).take 32)).take 32

def showB (b : Bytes) : String :=
  String.ofList (b.flatMap (fun x =>
    let h (n : Nat) : Char := if n < 10 then Char.ofNat (48 + n) else Char.ofNat (87 + n)
    [h (x.toNat / 16), h (x.toNat % 16)]))

/-- encryption V1/V2: `secrets` are the recipients' secret keys in header order -/
def encryption (msg : Bytes) (secrets : List Bytes) : R String := do
  let c ← common msg sModeEncryption 6
  match c.fields with
  | [_, _, _, ephV, ssbV, .arr rcv] =>
    let eph ← asBinLen "ephemeral key" 32 ephV
    let ssb ← asBinLen "sender secretbox" 48 ssbV
    need (rcv.length = secrets.length ∧ 0 < rcv.length) "recipient count"
    let hh := P.hash c.headerBytes
    -- recipients
    let mut pk? : Option Bytes := none
    let mut kids : List String := []
    for (r, i) in rcv.zipIdx do
      match r with
      | .arr [kidV, boxV] =>
        let bx ← asBinLen "payload key box" 48 boxV
        let kid ← match kidV with
          | .nil => pure "hidden"
          | v => showB <$> asBinLen "recipient key id" 32 v
        let sk := secrets.getD i []
        if kid != "hidden" then need (kid == showB (P.boxPub sk)) "recipient key id is not the recipient's public key"
        kids := kids ++ [kid]
        let nonce := if c.major = 1 then sNoncePayloadKeyV1 else sNonceRecip i
        match P.unbox sk eph nonce bx with
        | none => throw s!"payload key box {i} does not open"
        | some k =>
          need (k.length = 32) "payload key length"
          match pk? with
          | none => pk? := some k
          | some k0 => need (k0 == k) "recipients disagree on the payload key"
      | _ => throw "recipient entry is not a pair"
    let pk := pk?.getD []
    let senderPub ← match P.sbOpen pk sNonceSenderKey ssb with
      | some s => pure s
      | none => throw "sender secretbox does not open"
    let mks := secrets.zipIdx.map (fun (sk, i) => macKeyRecipient P c.major sk senderPub eph hh i)
    -- packets
    need (0 < c.packets.length) "no payload packet"
    let mut out : Bytes := []
    for (p, i) in c.packets.zipIdx do
      let last := i + 1 == c.packets.length
      let (final, authsV, ctV) ← match c.major, p with
        | 1, .arr [a, ct] => pure (last, a, ct)
        | 2, .arr [f, a, ct] => do
          let fl ← asBool "final flag" f
          pure (fl, a, ct)
        | _, _ => throw s!"packet {i} has the wrong shape"
      let ct ← asBin "ciphertext" ctV
      let nonce := sNonceChunk i
      let h := if c.major = 1 then P.hash (hh ++ nonce ++ ct) else P.hash (hh ++ nonce ++ sFinal final ++ ct)
      match authsV with
      | .arr auths =>
        need (auths.length = mks.length) s!"packet {i}: {auths.length} authenticators for {mks.length} recipients"
        for (a, j) in auths.zipIdx do
          let ab ← asBinLen "authenticator" 32 a
          need (ab == (P.hmac (mks.getD j []) h).take 32) s!"packet {i}: authenticator {j} does not verify"
      | _ => throw "authenticators are not a list"
      match P.sbOpen pk nonce ct with
      | none => throw s!"packet {i} does not decrypt"
      | some chunk =>
        need (chunk.length ≤ 1048576) "chunk longer than 1 MiB"
        if c.major = 1 then need (chunk.isEmpty == last) s!"V1: empty chunk / last packet mismatch at {i}"
        else
          need (final == last) s!"V2: final flag on packet {i}, last={last}"
          need (!chunk.isEmpty || (i == 0 && last)) "V2: empty chunk that is not the sole chunk"
        out := out ++ chunk
    .ok s!"plaintext={showB out} sender={showB senderPub} anon={senderPub == eph} recipients={",".intercalate kids}"
  | _ => .error "header shape"

/-- attached signature; `nonceLen` is the length the specification demands for
    the random header nonce -/
def attached (nonceLen : Nat) (msg : Bytes) : R String := do
  let c ← common msg sModeAttached 5
  match c.fields with
  | [_, _, _, pkV, nV] =>
    let pk ← asBinLen "signer public key" 32 pkV
    let n ← asBin "header nonce" nV
    need (n.length = nonceLen) s!"sign-header-nonce-len-{n.length} (the specification says {nonceLen})"
    let hh := P.hash c.headerBytes
    need (0 < c.packets.length) "no payload packet"
    let mut out : Bytes := []
    for (p, i) in c.packets.zipIdx do
      let last := i + 1 == c.packets.length
      let (final, sigV, chV) ← match c.major, p with
        | 1, .arr [s, ch] => pure (last, s, ch)
        | 2, .arr [f, s, ch] => do
          let fl ← asBool "final flag" f
          pure (fl, s, ch)
        | _, _ => throw s!"packet {i} has the wrong shape"
      let sg ← asBinLen "signature" 64 sigV
      let chunk ← asBin s!"payload chunk of packet {i}" chV
      let hashed := if c.major = 1 then P.hash (hh ++ be64 i ++ chunk) else P.hash (hh ++ be64 i ++ sFinal final ++ chunk)
      need (P.verify pk (sSigAttached ++ hashed) sg) s!"packet {i}: signature does not verify"
      need (chunk.length ≤ 1048576) "chunk longer than 1 MiB"
      if c.major = 1 then need (chunk.isEmpty == last) s!"V1: empty chunk / last packet mismatch at {i}"
      else
        need (final == last) s!"V2: final flag on packet {i}, last={last}"
        need (!chunk.isEmpty || (i == 0 && last)) "V2: empty chunk that is not the sole chunk"
      out := out ++ chunk
    .ok s!"plaintext={showB out} signer={showB pk}"
  | _ => .error "header shape"

def detached (nonceLen : Nat) (sigMsg msg : Bytes) : R String := do
  let c ← common sigMsg sModeDetached 5
  match c.fields, c.packets with
  | [_, _, _, pkV, nV], [sigV] =>
    let pk ← asBinLen "signer public key" 32 pkV
    let n ← asBin "header nonce" nV
    need (n.length = nonceLen) s!"sign-header-nonce-len-{n.length} (the specification says {nonceLen})"
    let sg ← asBinLen "signature" 64 sigV
    need (P.verify pk (sSigDetached ++ P.hash (P.hash c.headerBytes ++ msg)) sg) "signature does not verify"
    .ok s!"signer={showB pk}"
  | _, _ => .error "a detached signature is a header packet and one signature"

/-- signcryption; `opener`: `(index, box secret)` or `(index, symmetric key)` -/
def signcryption (msg : Bytes) (idx : Nat) (boxSecret : Option Bytes) (symKey : Option Bytes) : R String := do
  let c ← common msg sModeSigncryption 6
  need (c.major = 2) "signcryption is version 2"
  match c.fields with
  | [_, _, _, ephV, ssbV, .arr rcv] =>
    let eph ← asBinLen "ephemeral key" 32 ephV
    let ssb ← asBinLen "sender secretbox" 48 ssbV
    need (0 < rcv.length) "recipient count"
    for r in rcv do
      match r with
      | .arr [idV, boxV] =>
        let _ ← asBin "recipient identifier" idV
        let _ ← asBinLen "payload key box" 48 boxV
      | _ => throw "recipient entry is not a pair"
    let (idB, bx) ← match rcv.getD idx .nil with
      | .arr [.bin i, .bin b] => pure (i, b)
      | _ => throw "opener index"
    let nonce := sNonceRecip idx
    let dk ← match boxSecret, symKey with
      | some sk, _ =>
        let b := P.box sk eph sNonceDerived (zeros 32)
        let dk := b.drop (b.length - 32)
        need (idB == (P.hmac sCtxBoxKeyIdentifier (dk ++ nonce)).take 32) "box recipient identifier is not the specified HMAC"
        pure dk
      | none, some k => pure ((P.hmac sCtxSymmetricKey (eph ++ k)).take 32)
      | none, none => throw "no key"
    let pk ← match P.sbOpen dk nonce bx with
      | some k => pure k
      | none => throw "payload key box does not open"
    let senderPub ← match P.sbOpen pk sNonceSenderKey ssb with
      | some s => pure s
      | none => throw "sender secretbox does not open"
    need (senderPub.length = 32) "sender key length"
    let anon := senderPub.all (· == 0)
    let hh := P.hash c.headerBytes
    need (0 < c.packets.length) "no payload packet"
    let mut out : Bytes := []
    for (p, i) in c.packets.zipIdx do
      let last := i + 1 == c.packets.length
      match p with
      | .arr [ctV, fV] =>
        let ct ← asBin "ciphertext" ctV
        let final ← asBool "final flag" fV
        need (final == last) s!"final flag on packet {i}, last={last}"
        let n := sHashNonce hh final i
        match P.sbOpen pk n ct with
        | none => throw s!"packet {i} does not decrypt"
        | some att =>
          need (64 ≤ att.length) "no room for the signature"
          let sg := att.take 64
          let chunk := att.drop 64
          if anon then need (sg.all (· == 0)) "anonymous sender with a non-zero signature"
          else need (P.verify senderPub (sSigEncrypted ++ hh ++ n ++ sFinal final ++ P.hash chunk) sg) s!"packet {i}: signature does not verify"
          need (chunk.length ≤ 1048576) "chunk longer than 1 MiB"
          need (!chunk.isEmpty || (i == 0 && last)) "empty chunk that is not the sole chunk"
          out := out ++ chunk
      | _ => throw s!"packet {i} has the wrong shape"
    .ok s!"plaintext={showB out} sender={if anon then "anon" else showB senderPub}"
  | _ => .error "header shape"

end
end Saltpack.SpecDecode
