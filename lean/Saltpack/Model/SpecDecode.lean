/-
  Saltpack.Model.SpecDecode — a *strict* reference decoder written from
  specs/*.md (constants from Spec.lean, not from the code; the MessagePack
  encoder/parser, `be64`, `Prims` and the recipient types are SHARED with the
  code model; the empty-chunk rule is the receivers', see below):

    * strict MessagePack: the bytes must be exactly the minimal encoding of what
      they parse to (checked by re-encoding), with exactly the specified types —
      byte strings are `bin`, never nil or `str` (except the nil key id of a
      hidden recipient), lists have exactly the specified arity;
    * a twice-encoded header followed by payload packets;
    * the specified nonces, key boxes, recipient identifiers, MAC and signature
      inputs; EVERY recipient's authenticator is verified on every packet;
    * chunks of at most 1 MiB, the final marker on the last packet only, and the
      RECEIVERS' empty-chunk convention (`chunkRule`) — see below.

  `chunkRule` is NOT a transcription of the specification text alone: it is the
  rule the implementation's receivers enforce (Go `checkChunkState`, and
  property C09's quantifier "chunks of 1 byte to 1 MiB"): V1 — exactly the last
  chunk is empty; V2 — an empty chunk only as the sole chunk of the message.
  Two divergences from specs/*.md (audit finding 6): (a) stricter than
  saltpack_encryption_v2.md / saltpack_signcryption_v2.md, which never forbid an
  empty non-sole chunk (`[([9],false),([],true)]` is refused); (b) laxer than
  saltpack_signing_v2.md ("non-empty payload packets"): the V2 attached plan
  `[([],true)]` (the empty message) is accepted.  "Accepts every message the
  reference sender can emit" therefore means: for `Opts = {}` and plans obeying
  `PlanOK` (which the Go sender's plans do, `C08_go_plan_obeys_chunk_rules`).

  It is an executable oracle for property C08 (run on the bytes the
  implementation emits); it is not used by the code model.  Core Lean only.

  Structure (so that the oracle itself can be verified — Proofs/SpecDecode*.lean,
  Props/C08Decode.lean):

    bytes --strictObjects--> objects --splitMsg--> (header fields, packets)
          --XMsg.ofVals--> typed wire fields `XMsg`           (layer W, syntax)
          --XMsg.check P--> opened content                    (layer S, cryptography)

  Layer W has an inverse `XMsg.render` (the reference ENCODING of the fields);
  `XMsg.parse b = ok m → m.render = b` and `m.WF → parse m.render = ok m`.
  Layer S recomputes every nonce, key box, MAC and signature input.
-/
import Saltpack.Model.Spec

namespace Saltpack.SpecDecode
open Saltpack Msgpack Spec

abbrev R := Except String

def need (c : Bool) (msg : String) : R Unit := if c then .ok () else .error msg

/-- `mapM` in `R`, structurally (so that proofs are by induction on the list) -/
def mapR {α β : Type} (f : α → R β) : List α → R (List β)
  | [] => .ok []
  | a :: as =>
    match f a with
    | .error e => .error e
    | .ok b =>
      match mapR f as with
      | .error e => .error e
      | .ok bs => .ok (b :: bs)

/-! ### layer W — strict MessagePack, typed wire fields -/

/-- parse a whole byte string into objects, demanding minimal encodings -/
def strictObjects (b : Bytes) : R (List Val) :=
  let (vs, stop) := parseAll (b.length + 1) b
  match stop with
  | some _ => .error "trailing bytes that are not MessagePack"
  | none => if (vs.flatMap encode) == b then .ok vs else .error "non-minimal MessagePack encoding"

def strictOne (b : Bytes) : R Val :=
  match strictObjects b with
  | .error e => .error e
  | .ok [v] => .ok v
  | .ok _ => .error "header bytes are not exactly one object"

def asBin (what : String) : Val → R Bytes
  | .bin b => .ok b
  | .nil => .error (what ++ " is nil (byte strings are never nil)")
  | .str _ => .error (what ++ " is a str, not a bin")
  | _ => .error (what ++ " is not a bin")

def asBinLen (what : String) (n : Nat) (v : Val) : R Bytes :=
  match asBin what v with
  | .error e => .error e
  | .ok b => if b.length = n then .ok b else .error s!"{what} has length {b.length}, expected {n}"

def asBool (what : String) : Val → R Bool
  | .bool b => .ok b
  | _ => .error (what ++ " is not a boolean")

/-- a message is a header packet — a `bin` holding the encoding of ONE list —
    followed by the payload packets -/
def splitMsg (msg : Bytes) : R (List Val × List Val) :=
  match strictObjects msg with
  | .error e => .error e
  | .ok [] => .error "empty message"
  | .ok (h :: packets) =>
    match asBin "header packet" h with
    | .error e => .error e
    | .ok hb =>
      match strictOne hb with
      | .error e => .error e
      | .ok (.arr fields) => .ok (fields, packets)
      | .ok _ => .error "header is not a list"

/-- the inverse: header fields and packets to bytes -/
def joinMsg (fields packets : List Val) : Bytes :=
  encBin (encode (.arr fields)) ++ packets.flatMap encode

/-- the common header fields `[format name, [major, minor], mode]` -/
def commonVals (major mode : Int) : List Val :=
  [.str sFormatName, .arr [.int major, .int 0], .int mode]

def ofCommon (mode : Int) : List Val → R (Int × List Val)
  | .str fn :: .arr [.int ma, .int mi] :: .int ty :: rest =>
    if fn ≠ sFormatName then .error "format name is not \"saltpack\""
    else if ¬ (ma = 1 ∨ ma = 2) then .error s!"major version {ma}"
    else if mi ≠ 0 then .error s!"minor version {mi}"
    else if ty ≠ mode then .error s!"mode {ty}, expected {mode}"
    else .ok (ma, rest)
  | _ => .error "header does not start with [str, [int, int], int]"

/-! #### encryption -/

structure EncRecv where
  kid : Option Bytes        -- `none`: nil on the wire (hidden recipient)
  box : Bytes
  deriving DecidableEq, Repr

structure EncPkt where
  final : Bool              -- V1: not on the wire (`false`)
  auths : List Bytes
  ct : Bytes
  deriving DecidableEq, Repr

structure EncMsg where
  major : Int
  eph : Bytes
  ssb : Bytes
  recvs : List EncRecv
  pkts : List EncPkt
  deriving DecidableEq, Repr

def EncRecv.toVal (r : EncRecv) : Val :=
  .arr [match r.kid with | none => .nil | some k => .bin k, .bin r.box]

def EncRecv.ofVal : Val → R EncRecv
  | .arr [kidV, boxV] =>
    match asBinLen "payload key box" 48 boxV with
    | .error e => .error e
    | .ok bx =>
      match kidV with
      | .nil => .ok ⟨none, bx⟩
      | v =>
        match asBinLen "recipient key id" 32 v with
        | .error e => .error e
        | .ok k => .ok ⟨some k, bx⟩
  | _ => .error "recipient entry is not a pair"

def EncPkt.toVal (major : Int) (p : EncPkt) : Val :=
  if major = 1 then .arr [.arr (p.auths.map .bin), .bin p.ct]
  else .arr [.bool p.final, .arr (p.auths.map .bin), .bin p.ct]

def EncPkt.mk' (fl : Bool) (authsV ctV : Val) : R EncPkt :=
  match authsV with
  | .arr auths =>
    match mapR (asBinLen "authenticator" 32) auths with
    | .error e => .error e
    | .ok as =>
      match asBin "ciphertext" ctV with
      | .error e => .error e
      | .ok ct => .ok ⟨fl, as, ct⟩
  | _ => .error "authenticators are not a list"

def EncPkt.ofVal (major : Int) : Val → R EncPkt
  | .arr [a, ct] => if major = 1 then EncPkt.mk' false a ct else .error "payload packet has the wrong shape"
  | .arr [f, a, ct] =>
    if major = 1 then .error "payload packet has the wrong shape"
    else match asBool "final flag" f with
      | .error e => .error e
      | .ok fl => EncPkt.mk' fl a ct
  | _ => .error "payload packet has the wrong shape"

def EncMsg.fields (m : EncMsg) : List Val :=
  commonVals m.major sModeEncryption ++ [.bin m.eph, .bin m.ssb, .arr (m.recvs.map EncRecv.toVal)]

def EncMsg.packets (m : EncMsg) : List Val := m.pkts.map (EncPkt.toVal m.major)

/-- the bytes of the header packet's content (what is hashed) -/
def EncMsg.headerBytes (m : EncMsg) : Bytes := encode (.arr m.fields)

/-- the reference ENCODING of the wire fields -/
def EncMsg.render (m : EncMsg) : Bytes := joinMsg m.fields m.packets

def EncMsg.ofVals (fields packets : List Val) : R EncMsg :=
  match ofCommon sModeEncryption fields with
  | .error e => .error e
  | .ok (major, [ephV, ssbV, .arr rcv]) =>
    match asBinLen "ephemeral key" 32 ephV with
    | .error e => .error e
    | .ok eph =>
      match asBinLen "sender secretbox" 48 ssbV with
      | .error e => .error e
      | .ok ssb =>
        match mapR EncRecv.ofVal rcv with
        | .error e => .error e
        | .ok recvs =>
          match mapR (EncPkt.ofVal major) packets with
          | .error e => .error e
          | .ok pkts => .ok ⟨major, eph, ssb, recvs, pkts⟩
  | .ok _ => .error s!"header has {fields.length} fields, expected 6 (the last one a list)"

def EncMsg.parse (msg : Bytes) : R EncMsg :=
  match splitMsg msg with
  | .error e => .error e
  | .ok (f, p) => EncMsg.ofVals f p

/-! #### attached and detached signatures -/

structure AttPkt where
  final : Bool              -- V1: not on the wire (`false`)
  sig : Bytes
  chunk : Bytes
  deriving DecidableEq, Repr

structure AttMsg where
  major : Int
  signer : Bytes
  nonce : Bytes
  pkts : List AttPkt
  deriving DecidableEq, Repr

def AttPkt.toVal (major : Int) (p : AttPkt) : Val :=
  if major = 1 then .arr [.bin p.sig, .bin p.chunk] else .arr [.bool p.final, .bin p.sig, .bin p.chunk]

def AttPkt.mk' (fl : Bool) (sigV chV : Val) : R AttPkt :=
  match asBinLen "signature" 64 sigV with
  | .error e => .error e
  | .ok sg =>
    match asBin "payload chunk" chV with
    | .error e => .error e
    | .ok ch => .ok ⟨fl, sg, ch⟩

def AttPkt.ofVal (major : Int) : Val → R AttPkt
  | .arr [s, ch] => if major = 1 then AttPkt.mk' false s ch else .error "payload packet has the wrong shape"
  | .arr [f, s, ch] =>
    if major = 1 then .error "payload packet has the wrong shape"
    else match asBool "final flag" f with
      | .error e => .error e
      | .ok fl => AttPkt.mk' fl s ch
  | _ => .error "payload packet has the wrong shape"

def sigFields (major mode : Int) (signer nonce : Bytes) : List Val :=
  commonVals major mode ++ [.bin signer, .bin nonce]

def AttMsg.fields (m : AttMsg) : List Val := sigFields m.major sModeAttached m.signer m.nonce
def AttMsg.packets (m : AttMsg) : List Val := m.pkts.map (AttPkt.toVal m.major)
def AttMsg.headerBytes (m : AttMsg) : Bytes := encode (.arr m.fields)
def AttMsg.render (m : AttMsg) : Bytes := joinMsg m.fields m.packets

/-- signature header: `(major, signer public key, nonce)` -/
def ofSigFields (mode : Int) (fields : List Val) : R (Int × Bytes × Bytes) :=
  match ofCommon mode fields with
  | .error e => .error e
  | .ok (major, [pkV, nV]) =>
    match asBinLen "signer public key" 32 pkV with
    | .error e => .error e
    | .ok pk =>
      match asBin "header nonce" nV with
      | .error e => .error e
      | .ok n => .ok (major, pk, n)
  | .ok _ => .error s!"header has {fields.length} fields, expected 5"

def AttMsg.ofVals (fields packets : List Val) : R AttMsg :=
  match ofSigFields sModeAttached fields with
  | .error e => .error e
  | .ok (major, pk, n) =>
    match mapR (AttPkt.ofVal major) packets with
    | .error e => .error e
    | .ok pkts => .ok ⟨major, pk, n, pkts⟩

def AttMsg.parse (msg : Bytes) : R AttMsg :=
  match splitMsg msg with
  | .error e => .error e
  | .ok (f, p) => AttMsg.ofVals f p

structure DetMsg where
  major : Int
  signer : Bytes
  nonce : Bytes
  sig : Bytes
  deriving DecidableEq, Repr

def DetMsg.fields (m : DetMsg) : List Val := sigFields m.major sModeDetached m.signer m.nonce
def DetMsg.headerBytes (m : DetMsg) : Bytes := encode (.arr m.fields)
def DetMsg.render (m : DetMsg) : Bytes := joinMsg m.fields [.bin m.sig]

def DetMsg.ofVals (fields packets : List Val) : R DetMsg :=
  match ofSigFields sModeDetached fields with
  | .error e => .error e
  | .ok (major, pk, n) =>
    match packets with
    | [sigV] =>
      match asBinLen "signature" 64 sigV with
      | .error e => .error e
      | .ok sg => .ok ⟨major, pk, n, sg⟩
    | _ => .error "a detached signature is a header packet and one signature"

def DetMsg.parse (msg : Bytes) : R DetMsg :=
  match splitMsg msg with
  | .error e => .error e
  | .ok (f, p) => DetMsg.ofVals f p

/-! #### signcryption -/

structure ScRecv where
  ident : Bytes
  box : Bytes
  deriving DecidableEq, Repr

structure ScPkt where
  ct : Bytes
  final : Bool
  deriving DecidableEq, Repr

structure ScMsg where
  eph : Bytes
  ssb : Bytes
  recvs : List ScRecv
  pkts : List ScPkt
  deriving DecidableEq, Repr

def ScRecv.toVal (r : ScRecv) : Val := .arr [.bin r.ident, .bin r.box]

def ScRecv.ofVal : Val → R ScRecv
  | .arr [idV, boxV] =>
    match asBin "recipient identifier" idV with
    | .error e => .error e
    | .ok i =>
      match asBinLen "payload key box" 48 boxV with
      | .error e => .error e
      | .ok bx => .ok ⟨i, bx⟩
  | _ => .error "recipient entry is not a pair"

def ScPkt.toVal (p : ScPkt) : Val := .arr [.bin p.ct, .bool p.final]

def ScPkt.ofVal : Val → R ScPkt
  | .arr [ctV, fV] =>
    match asBin "ciphertext" ctV with
    | .error e => .error e
    | .ok ct =>
      match asBool "final flag" fV with
      | .error e => .error e
      | .ok f => .ok ⟨ct, f⟩
  | _ => .error "payload packet has the wrong shape"

def ScMsg.fields (m : ScMsg) : List Val :=
  commonVals 2 sModeSigncryption ++ [.bin m.eph, .bin m.ssb, .arr (m.recvs.map ScRecv.toVal)]
def ScMsg.packets (m : ScMsg) : List Val := m.pkts.map ScPkt.toVal
def ScMsg.headerBytes (m : ScMsg) : Bytes := encode (.arr m.fields)
def ScMsg.render (m : ScMsg) : Bytes := joinMsg m.fields m.packets

def ScMsg.ofVals (fields packets : List Val) : R ScMsg :=
  match ofCommon sModeSigncryption fields with
  | .error e => .error e
  | .ok (major, [ephV, ssbV, .arr rcv]) =>
    if major ≠ 2 then .error "signcryption is version 2"
    else
    match asBinLen "ephemeral key" 32 ephV with
    | .error e => .error e
    | .ok eph =>
      match asBinLen "sender secretbox" 48 ssbV with
      | .error e => .error e
      | .ok ssb =>
        match mapR ScRecv.ofVal rcv with
        | .error e => .error e
        | .ok recvs =>
          match mapR ScPkt.ofVal packets with
          | .error e => .error e
          | .ok pkts => .ok ⟨eph, ssb, recvs, pkts⟩
  | .ok _ => .error s!"header has {fields.length} fields, expected 6 (the last one a list)"

def ScMsg.parse (msg : Bytes) : R ScMsg :=
  match splitMsg msg with
  | .error e => .error e
  | .ok (f, p) => ScMsg.ofVals f p

/-! ### layer S — nonces, key boxes, MACs, signatures, chunk rules -/

section
variable (P : Prims)

def macKeyRecipient (major : Int) (recipSec senderPub ephPub headerHash : Bytes) (i : Nat) : Bytes :=
  if major = 1 then ((P.box recipSec senderPub (headerHash.take 24) (zeros 32)).drop 16).take 32
  else
    (P.hash (((P.box recipSec senderPub (sHashNonce headerHash false i) (zeros 32)).drop 16).take 32 ++
             ((P.box recipSec ephPub (sHashNonce headerHash true i) (zeros 32)).drop 16).take 32)).take 32

def showB (b : Bytes) : String :=
  String.ofList (b.flatMap (fun x =>
    let h (n : Nat) : Char := if n < 10 then Char.ofNat (48 + n) else Char.ofNat (87 + n)
    [h (x.toNat / 16), h (x.toNat % 16)]))

/-- the chunk rules for the packet at index `i` (`last`: it is the last packet
    of the message): the 1 MiB limit and final-flag placement of the
    specifications PLUS the receivers' empty-chunk convention (Go
    `checkChunkState`; = C09's "chunks of 1 byte to 1 MiB") — see the file
    header for the two divergences from the specification text -/
def chunkRule (major : Int) (i : Nat) (last final : Bool) (chunk : Bytes) : R Unit :=
  if 1048576 < chunk.length then .error "chunk longer than 1 MiB"
  else if major = 1 then
    need (chunk.isEmpty == last) s!"V1: empty chunk / last packet mismatch at {i}"
  else if final ≠ last then .error s!"V2: final flag on packet {i}, last={last}"
  else need (!chunk.isEmpty || (i == 0 && last)) "V2: empty chunk that is not the sole chunk"

/-! #### encryption -/

/-- recipient `i` (secret key `sk`): the key id, if shown, is the public key;
    the payload key box opens under the specified nonce; returns the payload key -/
def encRecvKey (major : Int) (eph : Bytes) (i : Nat) (r : EncRecv) (sk : Bytes) : R Bytes :=
  if r.kid.isSome ∧ r.kid ≠ some (P.boxPub sk) then .error "recipient key id is not the recipient's public key"
  else
    match P.unbox sk eph (if major = 1 then sNoncePayloadKeyV1 else sNonceRecip i) r.box with
    | none => .error s!"payload key box {i} does not open"
    | some k => if k.length = 32 then .ok k else .error "payload key length"

def encRecvKeys (major : Int) (eph : Bytes) : Nat → List EncRecv → List Bytes → R (List Bytes)
  | _, [], [] => .ok []
  | i, r :: rs, sk :: sks =>
    match encRecvKey P major eph i r sk with
    | .error e => .error e
    | .ok k =>
      match encRecvKeys major eph (i + 1) rs sks with
      | .error e => .error e
      | .ok ks => .ok (k :: ks)
  | _, _, _ => .error "recipient count"

/-- the hash every authenticator is computed over -/
def encMacInput (major : Int) (hh : Bytes) (i : Nat) (p : EncPkt) : Bytes :=
  if major = 1 then P.hash (hh ++ sNonceChunk i ++ p.ct)
  else P.hash (hh ++ sNonceChunk i ++ sFinal p.final ++ p.ct)

/-- packet `i`: EVERY recipient's authenticator, decryption, chunk rules; returns the chunk -/
def encPkt (major : Int) (pk hh : Bytes) (mks : List Bytes) (i : Nat) (last : Bool) (p : EncPkt) : R Bytes :=
  if p.auths ≠ mks.map (fun k => (P.hmac k (encMacInput P major hh i p)).take 32) then
    .error s!"packet {i}: the authenticators are not the specified MACs, one per recipient"
  else
    match P.sbOpen pk (sNonceChunk i) p.ct with
    | none => .error s!"packet {i} does not decrypt"
    | some chunk =>
      match chunkRule major i last p.final chunk with
      | .error e => .error e
      | .ok _ => .ok chunk

def encPkts (major : Int) (pk hh : Bytes) (mks : List Bytes) : Nat → List EncPkt → R (List Bytes)
  | _, [] => .ok []
  | i, p :: ps =>
    match encPkt P major pk hh mks i ps.isEmpty p with
    | .error e => .error e
    | .ok c =>
      match encPkts major pk hh mks (i + 1) ps with
      | .error e => .error e
      | .ok cs => .ok (c :: cs)

structure EncOpened where
  payloadKey : Bytes
  senderPub : Bytes
  chunks : List Bytes
  deriving DecidableEq, Repr

def macKeys (major : Int) (secrets : List Bytes) (senderPub eph hh : Bytes) : List Bytes :=
  secrets.zipIdx.map (fun (sk, i) => macKeyRecipient P major sk senderPub eph hh i)

/-- encryption V1/V2: `secrets` are the recipients' secret keys in header order -/
def EncMsg.check (m : EncMsg) (secrets : List Bytes) : R EncOpened :=
  match encRecvKeys P m.major m.eph 0 m.recvs secrets with
  | .error e => .error e
  | .ok [] => .error "recipient count"
  | .ok (pk :: rest) =>
    if ¬ (∀ k ∈ rest, k = pk) then .error "recipients disagree on the payload key"
    else
      match P.sbOpen pk sNonceSenderKey m.ssb with
      | none => .error "sender secretbox does not open"
      | some senderPub =>
        if m.pkts = [] then .error "no payload packet"
        else
          let hh := P.hash m.headerBytes
          match encPkts P m.major pk hh (macKeys P m.major secrets senderPub m.eph hh) 0 m.pkts with
          | .error e => .error e
          | .ok chunks => .ok ⟨pk, senderPub, chunks⟩

def showKid : Option Bytes → String
  | none => "hidden"
  | some k => showB k

def encryption (msg : Bytes) (secrets : List Bytes) : R String :=
  match EncMsg.parse msg with
  | .error e => .error e
  | .ok m =>
    match m.check P secrets with
    | .error e => .error e
    | .ok o =>
      .ok s!"plaintext={showB o.chunks.flatten} sender={showB o.senderPub} anon={o.senderPub == m.eph} recipients={",".intercalate (m.recvs.map (fun r => showKid r.kid))}"

/-! #### attached / detached signatures -/

def attSigInput (major : Int) (hh : Bytes) (i : Nat) (p : AttPkt) : Bytes :=
  sSigAttached ++ (if major = 1 then P.hash (hh ++ be64 i ++ p.chunk)
                   else P.hash (hh ++ be64 i ++ sFinal p.final ++ p.chunk))

def attPkt (major : Int) (pk hh : Bytes) (i : Nat) (last : Bool) (p : AttPkt) : R Unit :=
  if ¬ P.verify pk (attSigInput P major hh i p) p.sig then .error s!"packet {i}: signature does not verify"
  else chunkRule major i last p.final p.chunk

def attPkts (major : Int) (pk hh : Bytes) : Nat → List AttPkt → R Unit
  | _, [] => .ok ()
  | i, p :: ps =>
    match attPkt P major pk hh i ps.isEmpty p with
    | .error e => .error e
    | .ok _ => attPkts major pk hh (i + 1) ps

/-- attached signature; `nonceLen` is the length the specification demands for
    the random header nonce -/
def AttMsg.check (nonceLen : Nat) (m : AttMsg) : R Unit :=
  if m.nonce.length ≠ nonceLen then
    .error s!"sign-header-nonce-len-{m.nonce.length} (the specification says {nonceLen})"
  else if m.pkts = [] then .error "no payload packet"
  else attPkts P m.major m.signer (P.hash m.headerBytes) 0 m.pkts

def AttMsg.plaintext (m : AttMsg) : Bytes := (m.pkts.map (·.chunk)).flatten

def attached (nonceLen : Nat) (msg : Bytes) : R String :=
  match AttMsg.parse msg with
  | .error e => .error e
  | .ok m =>
    match m.check P nonceLen with
    | .error e => .error e
    | .ok _ => .ok s!"plaintext={showB m.plaintext} signer={showB m.signer}"

def DetMsg.check (nonceLen : Nat) (m : DetMsg) (msg : Bytes) : R Unit :=
  if m.nonce.length ≠ nonceLen then
    .error s!"sign-header-nonce-len-{m.nonce.length} (the specification says {nonceLen})"
  else if ¬ P.verify m.signer (sSigDetached ++ P.hash (P.hash m.headerBytes ++ msg)) m.sig then
    .error "signature does not verify"
  else .ok ()

def detached (nonceLen : Nat) (sigMsg msg : Bytes) : R String :=
  match DetMsg.parse sigMsg with
  | .error e => .error e
  | .ok m =>
    match m.check P nonceLen msg with
    | .error e => .error e
    | .ok _ => .ok s!"signer={showB m.signer}"

/-! #### signcryption -/

/-- what opens the message: the box secret key or the symmetric key of one recipient -/
inductive ScKey where
  | box (secret : Bytes)
  | sym (key : Bytes)
  deriving DecidableEq, Repr

/-- recipient `i` with its key: the identifier (for box recipients) is the
    specified HMAC, the payload key box opens under the derived key; returns the
    payload key -/
def scRecvKey (eph : Bytes) (i : Nat) (r : ScRecv) : ScKey → R Bytes
  | .box sk =>
    let b := P.box sk eph sNonceDerived (zeros 32)
    let dk := b.drop (b.length - 32)
    if r.ident ≠ (P.hmac sCtxBoxKeyIdentifier (dk ++ sNonceRecip i)).take 32 then
      .error "box recipient identifier is not the specified HMAC"
    else match P.sbOpen dk (sNonceRecip i) r.box with
      | some k => .ok k
      | none => .error "payload key box does not open"
  | .sym k =>
    match P.sbOpen ((P.hmac sCtxSymmetricKey (eph ++ k)).take 32) (sNonceRecip i) r.box with
    | some k => .ok k
    | none => .error "payload key box does not open"

def scSigInput (hh : Bytes) (i : Nat) (final : Bool) (chunk : Bytes) : Bytes :=
  sSigEncrypted ++ hh ++ sHashNonce hh final i ++ sFinal final ++ P.hash chunk

/-- packet `i`: decryption under the specified nonce, the signature (all zero
    for an anonymous sender), chunk rules; returns the chunk -/
def scPkt (pk hh senderPub : Bytes) (anon : Bool) (i : Nat) (last : Bool) (p : ScPkt) : R Bytes :=
  if p.final ≠ last then .error s!"final flag on packet {i}, last={last}"
  else
    match P.sbOpen pk (sHashNonce hh p.final i) p.ct with
    | none => .error s!"packet {i} does not decrypt"
    | some att =>
      if att.length < 64 then .error "no room for the signature"
      else
        let sg := att.take 64
        let chunk := att.drop 64
        if anon ∧ sg ≠ zeros 64 then .error "anonymous sender with a non-zero signature"
        else if ¬ anon ∧ ¬ P.verify senderPub (scSigInput P hh i p.final chunk) sg then
          .error s!"packet {i}: signature does not verify"
        else
          match chunkRule 2 i last p.final chunk with
          | .error e => .error e
          | .ok _ => .ok chunk

def scPkts (pk hh senderPub : Bytes) (anon : Bool) : Nat → List ScPkt → R (List Bytes)
  | _, [] => .ok []
  | i, p :: ps =>
    match scPkt P pk hh senderPub anon i ps.isEmpty p with
    | .error e => .error e
    | .ok c =>
      match scPkts pk hh senderPub anon (i + 1) ps with
      | .error e => .error e
      | .ok cs => .ok (c :: cs)

structure ScOpened where
  payloadKey : Bytes
  senderPub : Bytes
  chunks : List Bytes
  deriving DecidableEq, Repr

def isAnon (senderPub : Bytes) : Bool := senderPub == zeros 32

/-- signcryption, opened by recipient `idx` with `key` -/
def ScMsg.check (m : ScMsg) (idx : Nat) (key : ScKey) : R ScOpened :=
  match m.recvs[idx]? with
  | none => .error "opener index"
  | some r =>
    match scRecvKey P m.eph idx r key with
    | .error e => .error e
    | .ok pk =>
      match P.sbOpen pk sNonceSenderKey m.ssb with
      | none => .error "sender secretbox does not open"
      | some senderPub =>
        if senderPub.length ≠ 32 then .error "sender key length"
        else if m.pkts = [] then .error "no payload packet"
        else
          match scPkts P pk (P.hash m.headerBytes) senderPub (isAnon senderPub) 0 m.pkts with
          | .error e => .error e
          | .ok chunks => .ok ⟨pk, senderPub, chunks⟩

def scKeyOf : Option Bytes → Option Bytes → Option ScKey
  | some sk, _ => some (.box sk)
  | none, some k => some (.sym k)
  | none, none => none

/-- signcryption; `opener`: `(index, box secret)` or `(index, symmetric key)` -/
def signcryption (msg : Bytes) (idx : Nat) (boxSecret : Option Bytes) (symKey : Option Bytes) : R String :=
  match ScMsg.parse msg with
  | .error e => .error e
  | .ok m =>
    match scKeyOf boxSecret symKey with
    | none => .error "no key"
    | some key =>
      match m.check P idx key with
      | .error e => .error e
      | .ok o =>
        .ok s!"plaintext={showB o.chunks.flatten} sender={if isAnon o.senderPub then "anon" else showB o.senderPub}"

end
end Saltpack.SpecDecode
