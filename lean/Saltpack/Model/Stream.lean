/-
  Saltpack.Model.Stream — the per-call state machines of the streaming API:

    readers:  scripted source → punctuatedReader (punctuated_reader.go)
              → framedDecoderStream (armor.go) → filteringReader → BaseX decoder
              (encoding/basex/stream.go);  chunkReader (chunk_reader.go)
    writers:  plaintext bufferer of encrypt.go / sign_stream.go /
              signcrypt_seal.go;  BaseX encoder stream;  armorEncoderStream

  Each `Read`/`Write` call is one transition; the correspondence drives the real
  objects (hooks under the `verif` tag) and these machines with the same
  schedule of calls and compares every `(n, err)`.

  Core Lean only.
-/
import Saltpack.Model.Armor

namespace Saltpack.Stream
open Saltpack

/-- what an `io.Reader` reports besides data -/
inductive RErr where
  | eof
  | err (e : Err)
  deriving Repr, DecidableEq, Inhabited

/-! ### the underlying source: a script of reads -/

/-- one scripted delivery: some bytes and/or an error.  A delivery longer than
    the caller's buffer is handed out over several calls (its error with the
    last part). -/
abbrev Source := List (Bytes × Option RErr)

/-- one `Read(p)` with `len(p) = cap` on the scripted source; an exhausted
    script reports EOF forever -/
def srcRead (cap : Nat) : Source → Bytes × Option RErr × Source
  | [] => ([], some .eof, [])
  | (d, e) :: rest =>
    if d.length ≤ cap then (d, e, rest)
    else (d.take cap, none, (d.drop cap, e) :: rest)

/-! ### punctuatedReader -/

structure PState where
  src : Source
  nextSegment : Bytes := []
  thisSegment : Bytes := []
  errThisSegment : Option RErr := none
  errNextRead : Option RErr := none
  deriving Repr

def punctErr : RErr := .err .punctuated

def findIdx (c : UInt8) : Bytes → Option Nat
  | [] => none
  | x :: xs => if x == c then some 0 else (findIdx c xs).map (· + 1)

/-- `punctuatedReader.Read(out)` with `len(out) = cap` (after the D6 fix) -/
def pRead (cap : Nat) (s : PState) : Bytes × Option RErr × PState :=
  if !s.thisSegment.isEmpty then
    let d := s.thisSegment.take cap
    let rest := s.thisSegment.drop cap
    if rest.isEmpty then (d, s.errThisSegment, { s with thisSegment := [], errThisSegment := none })
    else (d, none, { s with thisSegment := rest })
  else
    -- obtain `src`
    let got : Option (Bytes × Bool × PState) ⊕ (Bytes × Option RErr × PState) :=
      if !s.nextSegment.isEmpty then .inl (some (s.nextSegment, true, { s with nextSegment := [] }))
      else match s.errNextRead with
        | some e => .inr ([], some e, s)
        | none =>
          let (d, e, src') := srcRead cap s.src
          let s1 := { s with src := src' }
          match e with
          | some e' => if d.isEmpty then .inr ([], some e', s1) else .inl (some (d, false, { s1 with errNextRead := some e' }))
          | none => .inl (some (d, false, s1))
    match got with
    | .inr r => r
    | .inl none => ([], none, s)
    | .inl (some (src, used, s1)) =>
      let (seg, found, s2) : Bytes × Bool × PState :=
        match findIdx Armor.period src with
        | some i => (src.take i, true, { s1 with nextSegment := src.drop (i + 1) })
        | none => (src, false, s1)
      let (out, s3) : Bytes × PState :=
        if used then (seg.take cap, { s2 with thisSegment := seg.drop cap }) else (seg, s2)
      if found then
        if !s3.thisSegment.isEmpty then (out, none, { s3 with errThisSegment := some punctErr })
        else (out, some punctErr, s3)
      else (out, none, s3)

/-- `ReadUntilPunctuation(lim)` (after the D8 fix); reads with the reader's own
    4096-byte buffer.  Fuel bounds the number of reads (`lim + 2` suffices: every
    successful read adds at least one byte or ends the loop). -/
def pReadUntil (lim : Nat) : (fuel : Nat) → PState → Bytes → Except RErr Bytes × PState
  | 0, s, _ => (.error (.err .overflow), s)
  | fuel + 1, s, acc =>
    let (d, e, s1) := pRead 4096 s
    match e with
    | none =>
      let acc' := acc ++ d
      if acc'.length ≥ lim then (.error (.err .overflow), s1)
      else if d.isEmpty then (.error (.err .unexpectedEOF), s1)
      else pReadUntil lim fuel s1 acc'
    | some (.err .punctuated) =>
      let acc' := acc ++ d
      if acc'.length ≥ lim then (.error (.err .overflow), s1) else (.ok acc', s1)
    | some .eof => (.error (.err .unexpectedEOF), s1)
    | some (.err x) => (.error (.err x), s1)

/-! ### framedDecoderStream -/

inductive FdsPhase where
  | header | body | footer | endOfStream
  deriving Repr, DecidableEq

structure FState where
  p : PState
  phase : FdsPhase := .header
  hdr : Bytes := []
  ftr : Bytes := []
  brand : Bytes := []
  deriving Repr

/-- `consumeUntilEOF`: fuel = number of reads -/
def consumeUntilEOF (par : Armor.Params) : (fuel : Nat) → PState → RErr × PState
  | 0, s => (.eof, s)
  | fuel + 1, s =>
    let (d, e, s1) := pRead 4096 s
    match e with
    | some x => (x, s1)
    | none =>
      if d.isEmpty then (.eof, s1)
      else if !(d.all (Armor.validByte par)) then (.err .trailingGarbage, s1)
      else consumeUntilEOF par fuel s1

def fuelOf (s : PState) : Nat :=
  (s.src.map (fun p => p.1.length + 2)).sum + s.nextSegment.length + s.thisSegment.length + 8

/-- `loadHeader` -/
def fLoadHeader (par : Armor.Params) (expect : Armor.Expect) (f : FState) : Option RErr × FState :=
  if f.phase != .header then (none, f)
  else
    let (r, p1) := pReadUntil Armor.frameLim (Armor.frameLim + 2) f.p []
    match r with
    | .error e => (some e, { f with p := p1 })
    | .ok h =>
      let f1 := { f with p := p1, hdr := h }
      match expect with
      | none => (none, { f1 with phase := .body })
      | some typ =>
        match Armor.toASCII par h with
        | .error e => (some (.err e), f1)
        | .ok hs =>
          match Armor.parseFrame hs typ Gen.c_sp_headerMarker with
          | .error e => (some (.err e), f1)
          | .ok b => (none, { f1 with phase := .body, brand := b })

/-- `framedDecoderStream.Read(p)` with `len(p) = cap` -/
def fRead (par : Armor.Params) (expect : Armor.Expect) (cap : Nat) (f : FState) : Bytes × Option RErr × FState :=
  -- header
  let (e0, f0) := fLoadHeader par expect f
  match e0 with
  | some e => ([], some e, f0)
  | none =>
  -- body
  let bodyR : (Bytes × FState) ⊕ (Option RErr × FState) :=
    if f0.phase == .body then
      let (d, e, p1) := pRead cap f0.p
      let f1 := { f0 with p := p1 }
      match e with
      | some (.err .punctuated) => .inl (d, { f1 with phase := .footer })
      | some .eof => .inr (some (.err .unexpectedEOF), f1)
      | some x => .inr (some x, f1)
      | none => .inl (d, f1)
    else .inl ([], f0)
  match bodyR with
  | .inr (e, f1) => ([], e, f1)
  | .inl (d, f1) =>
  -- footer
  let ftrR : Option RErr × FState :=
    if f1.phase == .footer then
      let (r, p2) := pReadUntil Armor.frameLim (Armor.frameLim + 2) f1.p []
      match r with
      | .error e => (some e, { f1 with p := p2 })
      | .ok ft =>
        let f2 := { f1 with p := p2, ftr := ft }
        match expect with
        | none => (none, { f2 with phase := .endOfStream })
        | some typ =>
          match Armor.toASCII par f2.hdr, Armor.toASCII par ft with
          | .ok hs, .ok fs =>
            match Armor.checkArmor62 hs fs typ with
            | .ok _ => (none, { f2 with phase := .endOfStream })
            | .error e => (some (.err e), f2)
          | .error e, _ => (some (.err e), f2)
          | _, .error e => (some (.err e), f2)
    else (none, f1)
  match ftrR with
  | (some e, f2) => ([], some e, f2)
  | (none, f2) =>
    if f2.phase == .endOfStream then
      let (e, p3) := consumeUntilEOF par (fuelOf f2.p) f2.p
      let f3 := { f2 with p := p3 }
      if e == .eof && !d.isEmpty then (d, none, f3) else (d, some e, f3)
    else (d, none, f2)

/-! ### the `Frame` interface of `framedDecoderStream` (GetHeader / GetBrand / GetFooter), usable at any time -/

/-- `GetHeader()`: loads the header first if that has not happened yet -/
def fGetHeader (par : Armor.Params) (expect : Armor.Expect) (f : FState) : Except RErr Bytes × FState :=
  let (e, f1) := fLoadHeader par expect f
  match e with
  | some x => (.error x, f1)
  | none =>
    match Armor.toASCII par f1.hdr with
    | .ok h => (.ok h, f1)
    | .error x => (.error (.err x), f1)

/-- `GetBrand()`: likewise; the brand the header checker extracted (empty without a checker) -/
def fGetBrand (par : Armor.Params) (expect : Armor.Expect) (f : FState) : Except RErr Bytes × FState :=
  let (e, f1) := fLoadHeader par expect f
  match e with
  | some x => (.error x, f1)
  | none => (.ok f1.brand, f1)

/-- `GetFooter()`: `none` = "the footer can be retrieved only after the stream has been exhausted"
    (`s.state < fdsFooter`); otherwise the trimmed footer read so far -/
def fGetFooter (par : Armor.Params) (f : FState) : Option (Except Err Bytes) :=
  match f.phase with
  | .header | .body => none
  | _ => some (Armor.toASCII par f.ftr)

/-- `CheckArmor62Frame(frame, typ)`: GetHeader (its error), GetFooter (`none` = not ready yet), then `CheckArmor62` -/
def fCheckFrame (par : Armor.Params) (expect : Armor.Expect) (typ : Int) (f : FState) :
    Except RErr (Option (Except Err Bytes)) × FState :=
  match fGetHeader par expect f with
  | (.error x, f1) => (.error x, f1)
  | (.ok h, f1) =>
    match fGetFooter par f1 with
    | none => (.ok none, f1)
    | some (.error x) => (.ok (some (.error x)), f1)
    | some (.ok ft) => (.ok (some (Armor.checkArmor62 h ft typ)), f1)

/-! ### filteringReader (after the D11 fix) -/

structure FilState where
  f : FState
  nRead : Nat := 0
  deriving Repr

/-- scan a buffer: keep alphabet bytes, drop skip bytes, stop at an invalid one -/
def filterScan (enc : Basex.Enc) : Bytes → Nat → Except Nat (Bytes × Nat)
  | [], n => .ok ([], n)
  | c :: cs, n =>
    if (enc.digit? c).isSome then
      match filterScan enc cs (n + 1) with
      | .ok (r, n') => .ok (c :: r, n')
      | .error k => .error k
    else if enc.isSkip c then filterScan enc cs (n + 1)
    else .error n

def filRead (par : Armor.Params) (expect : Armor.Expect) (cap : Nat) : (fuel : Nat) → FilState → Bytes × Option RErr × FilState
  | 0, s => ([], none, s)
  | fuel + 1, s =>
    let (d, e, f1) := fRead par expect cap s.f
    let s1 := { s with f := f1 }
    if d.isEmpty then ([], e, s1)
    else match filterScan par.enc d s.nRead with
      | .error k => ([], some (.err .basexCorrupt), { s1 with nRead := k })
      | .ok (kept, n') =>
        let s2 := { s1 with nRead := n' }
        if !kept.isEmpty then (kept, e, s2)
        else match e with
          | some x => ([], some x, s2)
          | none => filRead par expect cap fuel s2

/-! ### BaseX decoder stream -/

structure DState where
  fil : FilState
  err : Option RErr := none
  out : Bytes := []        -- leftover decoded output
  buf : Bytes := []        -- leftover input (length = nbuf)
  deriving Repr

def dBufSize (enc : Basex.Enc) : Nat := 8192 * enc.blockLen

/-- fill the input buffer up to one block (the `for d.nbuf < obl && d.err == nil` loop) -/
def dFill (par : Armor.Params) (expect : Armor.Expect) (nn : Nat) : (fuel : Nat) → DState → DState
  | 0, d => d
  | fuel + 1, d =>
    if d.buf.length < par.enc.charBlockLen ∧ d.err.isNone then
      let (x, e, fil1) := filRead par expect (nn - d.buf.length) (fuelOf d.fil.f.p + 4) d.fil
      dFill par expect nn fuel { d with fil := fil1, buf := d.buf ++ x, err := e }
    else d

def basexErr : Basex.Err → RErr
  | .corrupt _ => .err .basexCorrupt
  | .badLen => .err .basexBadLen

/-- `decoder.Read(p)` with `len(p) = cap` -/
def dRead (par : Armor.Params) (expect : Armor.Expect) (cap : Nat) (d : DState) : Bytes × Option RErr × DState :=
  match d.err with
  | some e => ([], some e, d)
  | none =>
  if !d.out.isEmpty then (d.out.take cap, none, { d with out := d.out.drop cap })
  else
    let ibl := par.enc.blockLen
    let obl := par.enc.charBlockLen
    let nn0 := cap / ibl * obl
    let nn1 := if nn0 < obl then obl else nn0
    let nn := if nn1 > dBufSize par.enc then dBufSize par.enc else nn1
    let d1 := dFill par expect nn (nn + 2) d
    let (eof, d2) : Bool × DState := match d1.err with
      | some .eof => (true, { d1 with err := none })
      | _ => (false, d1)
    if eof && d2.buf.isEmpty then ([], some .eof, { d2 with err := some .eof })
    else match d2.err with
    | some e => ([], some e, d2)
    | none =>
      let nDec := if eof then d2.buf.length else d2.buf.length / obl * obl
      let nOut := par.enc.decLen nDec
      let (dec, de) := Basex.decodePrefix par.enc (nDec + 1) (d2.buf.take nDec)
      let err' : Option RErr := de.map basexErr
      let rest := d2.buf.drop nDec
      if nOut > cap then
        let ret := dec.take cap
        let d3 := { d2 with err := err', out := dec.drop cap, buf := rest }
        if ret.isEmpty && err'.isNone && cap != 0 then ([], some .eof, d3) else (ret, err', d3)
      else
        let d3 := { d2 with err := err', buf := rest }
        if dec.isEmpty && err'.isNone && cap != 0 then ([], some .eof, d3) else (dec, err', d3)

/-- the whole armor decoder stack over a scripted source -/
def newDecoder (src : Source) : DState := { fil := { f := { p := { src := src } } } }

/-- read the stack to the end with the given sequence of buffer sizes (cycled);
    returns what was released and the terminal condition (`none` = clean EOF) -/
def readAll (par : Armor.Params) (expect : Armor.Expect) (caps : List Nat) :
    (fuel : Nat) → Nat → DState → Bytes → Bytes × Option Err × DState
  | 0, _, d, acc => (acc, some .overflow, d)
  | fuel + 1, k, d, acc =>
    let cap := caps.getD (k % caps.length) 1
    let (x, e, d1) := dRead par expect cap d
    match e with
    | none => readAll par expect caps fuel (k + 1) d1 (acc ++ x)
    | some .eof => (acc ++ x, none, d1)
    | some (.err z) => (acc ++ x, some z, d1)

/-! ### chunkReader -/

structure CRState (σ : Type) where
  chunker : σ
  prevChunk : Bytes := []
  prevErr : Option RErr := none

/-- `chunkReader.Read(p)`; `next` is `getNextChunk` (chunk, error); a chunker
    that returns an empty chunk and no error makes the Go code panic -/
def crRead {σ : Type} (next : σ → Bytes × Option RErr × σ) (cap : Nat) :
    (fuel : Nat) → CRState σ → Bytes → Bytes × Option RErr × CRState σ
  | 0, s, acc => (acc, none, s)
  | fuel + 1, s, acc =>
    let room := cap - acc.length
    let copied := s.prevChunk.take room
    let acc' := acc ++ copied
    let left := s.prevChunk.drop room
    if !left.isEmpty then (acc', none, { s with prevChunk := left })
    else
      let s1 := { s with prevChunk := [] }
      match s1.prevErr with
      | some e => (acc', some e, s1)
      | none =>
        let (c, e, σ') := next s1.chunker
        if c.isEmpty && e.isNone then (acc', some (.err (.panic "chunkReader")), { s1 with chunker := σ' })
        else crRead next cap fuel { s1 with chunker := σ', prevChunk := c, prevErr := e } acc'

/-! ### writers -/

/-- the underlying writer: the k-th `Write` fails or not -/
abbrev Sink := List Bool     -- true = this write fails

/-- plaintext bufferer of `encryptStream` / `signAttachedStream` /
    `signcryptSealStream`: `Write` appends and emits a block while MORE than
    one block is buffered -/
structure Chunker where
  bs : Nat
  buf : Bytes := []
  emitted : List Bytes := []
  deriving Repr

def Chunker.drain : (fuel : Nat) → Chunker → Chunker
  | 0, c => c
  | fuel + 1, c =>
    if c.buf.length > c.bs then Chunker.drain fuel { c with buf := c.buf.drop c.bs, emitted := c.emitted ++ [c.buf.take c.bs] }
    else c

def Chunker.write (c : Chunker) (p : Bytes) : Chunker :=
  Chunker.drain (c.buf.length + p.length + 1) { c with buf := c.buf ++ p }

/-- `Close`: V2 emits what is left as the final block; V1 emits it (if
    non-empty) and then the empty final block.  Returns the plan. -/
def Chunker.close (c : Chunker) (v : Version) : List (Bytes × Bool) :=
  let pre := c.emitted.map (·, false)
  if v = v1 then pre ++ (if c.buf.isEmpty then [] else [(c.buf, false)]) ++ [([], true)]
  else pre ++ [(c.buf, true)]

/-- BaseX encoder stream (`encoder.Write/Close`): state = sticky error flag and
    the leftover input (`nbuf < blockLen` bytes); output = what was handed to the
    underlying writer, call by call -/
structure EncState where
  enc : Basex.Enc
  failed : Bool := false
  buf : Bytes := []
  sink : Sink := []
  written : List Bytes := []      -- successful underlying writes, in order
  deriving Repr

def EncState.under (s : EncState) (data : Bytes) : Bool × EncState :=
  match s.sink with
  | [] => (true, { s with written := s.written ++ [data] })
  | fails :: rest =>
    if fails then (false, { s with sink := rest, failed := true })
    else (true, { s with sink := rest, written := s.written ++ [data] })

/-- interior chunks: batches of at most 128 blocks -/
def EncState.interior : (fuel : Nat) → EncState → Bytes → Nat → Bool × EncState × Bytes × Nat
  | 0, s, p, n => (true, s, p, n)
  | fuel + 1, s, p, n =>
    let ibl := s.enc.blockLen
    if p.length ≥ ibl then
      let nn0 := 128 * ibl
      let nn := if nn0 > p.length then p.length - p.length % ibl else nn0
      let (ok, s1) := s.under (Basex.encode s.enc (p.take nn))
      if !ok then (false, s1, p, n) else EncState.interior fuel s1 (p.drop nn) (n + nn)
    else (true, s, p, n)

/-- `encoder.Write(p)`: returns (n, ok) -/
def EncState.write (s : EncState) (p : Bytes) : Nat × Bool × EncState :=
  if s.failed then (0, false, s)
  else
    let ibl := s.enc.blockLen
    let rest (s1 : EncState) (p1 : Bytes) (n0 : Nat) : Nat × Bool × EncState :=
      let (ok1, s2, p2, n1) := EncState.interior (p1.length + 1) s1 p1 n0
      if !ok1 then (n1, false, s2) else (n1 + p2.length, true, { s2 with buf := p2 })
    if !s.buf.isEmpty then
      -- leading fringe
      let take := p.take (ibl - s.buf.length)
      let b := s.buf ++ take
      if b.length < ibl then (take.length, true, { s with buf := b })
      else
        let (ok, s1) := ({ s with buf := [] }).under (Basex.encode s.enc b)
        if !ok then (take.length, false, s1) else rest s1 (p.drop take.length) take.length
    else rest s p 0

/-- `encoder.Close()` -/
def EncState.close (s : EncState) : Bool × EncState :=
  if !s.failed ∧ !s.buf.isEmpty then
    let (ok, s1) := s.under (Basex.encode s.enc s.buf)
    (ok, { s1 with buf := [] })
  else (!s.failed, s)

end Saltpack.Stream
