/-
  Saltpack.Model.Packets — packets.go: headers and payload packets, their
  MessagePack encodings (field order as go-codec writes the `toarray` structs
  and the two `CodecEncodeSelf` blocks), and the typed views go-codec applies
  when *reading* them (lenient: surplus array elements are ignored).

  Core Lean only.
-/
import Saltpack.Model.Core
import Saltpack.Model.Msgpack

namespace Saltpack
open Msgpack

/-- `receiverKeys`; `kid = none` is the nil `[]byte` of a hidden recipient -/
structure RecvKeys where
  kid : Option Bytes
  box : Bytes
  deriving Repr, DecidableEq, Inhabited

/-- `EncryptionHeader` / `SigncryptionHeader` -/
structure EncHeader where
  formatName : Bytes
  version : Version
  typ : Int
  ephemeral : Bytes
  senderSecretbox : Bytes
  receivers : List RecvKeys
  deriving Repr, DecidableEq, Inhabited

/-- `SignatureHeader` -/
structure SigHeader where
  formatName : Bytes
  version : Version
  typ : Int
  senderPublic : Bytes
  nonce : Bytes
  deriving Repr, DecidableEq, Inhabited

/-- an encryption payload packet as the receiver sees it after decoding
    (`final` is meaningful for V2 only; V1 derives it from the ciphertext length) -/
structure EncBlock where
  auths : List Bytes
  ct : Bytes
  final : Bool
  deriving Repr, DecidableEq, Inhabited

structure SigncryptBlock where
  ct : Bytes
  final : Bool
  deriving Repr, DecidableEq, Inhabited

structure SigBlock where
  sig : Bytes
  chunk : Bytes
  final : Bool
  deriving Repr, DecidableEq, Inhabited

/-! ### encoding -/

def optBin : Option Bytes → Val
  | none => .nil
  | some b => .bin b

def RecvKeys.toVal (r : RecvKeys) : Val := .arr [optBin r.kid, .bin r.box]

def Version.toVal (v : Version) : Val := .arr [.int v.major, .int v.minor]

def EncHeader.toVal (h : EncHeader) : Val :=
  .arr [.str h.formatName, h.version.toVal, .int h.typ, .bin h.ephemeral, .bin h.senderSecretbox,
        .arr (h.receivers.map RecvKeys.toVal)]

def SigHeader.toVal (h : SigHeader) : Val :=
  .arr [.str h.formatName, h.version.toVal, .int h.typ, .bin h.senderPublic, .bin h.nonce]

/-- the header packet: the header is encoded, and that byte string is encoded
    again as a `bin` -/
def headerPacket (headerBytes : Bytes) : Bytes := encBin headerBytes

/-- `makeEncryptionBlock` + encoding: V1 `[authenticators, ctext]`,
    V2 `[final, authenticators, ctext]`; other versions panic.
    A nil authenticator slice (no recipients — impossible after
    `checkEncryptReceivers`) would be written as nil. -/
def encBlockVal (v : Version) (auths : List Bytes) (ct : Bytes) (isFinal : Bool) : Except Err Val :=
  let a : Val := if auths.isEmpty then .nil else .arr (auths.map .bin)
  if v = v1 then .ok (.arr [a, .bin ct])
  else if v = v2 then .ok (.arr [.bool isFinal, a, .bin ct])
  else .error (.panic "makeEncryptionBlock")

def signcryptBlockVal (ct : Bytes) (isFinal : Bool) : Val := .arr [.bin ct, .bool isFinal]

/-- `makeSignatureBlock`: V1 `[signature, chunk]`, V2 `[final, signature, chunk]` -/
def sigBlockVal (v : Version) (sig chunk : Bytes) (isFinal : Bool) : Except Err Val :=
  if v = v1 then .ok (.arr [.bin sig, .bin chunk])
  else if v = v2 then .ok (.arr [.bool isFinal, .bin sig, .bin chunk])
  else .error (.panic "makeSignatureBlock")

/-! ### typed views (what go-codec makes of a decoded object for each Go type)

  Only the shapes a spec-following sender produces, plus the forward-compat
  leniency the specification reserves (surplus trailing array elements), plus
  `str` where `bin` is expected and vice versa (go-codec accepts both).  For
  anything else the view answers `none` = "the model does not claim to know
  what go-codec does here"; the correspondence then routes the case through the
  package's own decoder (hook `VerifListPackets`). -/

def viewBytes : Val → Option Bytes
  | .bin b => some b
  | .str b => some b
  | .nil => some []
  | _ => none

/-- `[]byte` that may be nil (receiver key id): nil and empty both mean "hidden" -/
def viewOptBytes : Val → Option (Option Bytes)
  | .bin b => some (some b)
  | .str b => some (some b)
  | .nil => some none
  | _ => none

def viewInt : Val → Option Int
  | .int i => some i
  | _ => none

def viewBool : Val → Option Bool
  | .bool b => some b
  | _ => none

def viewVersion : Val → Option Version
  | .arr (a :: b :: _) =>
    match viewInt a, viewInt b with
    | some ma, some mi => some ⟨ma, mi⟩
    | _, _ => none
  | _ => none

def viewRecvKeys : Val → Option RecvKeys
  | .arr (k :: b :: _) =>
    match viewOptBytes k, viewBytes b with
    | some kid, some bx => some ⟨kid, bx⟩
    | _, _ => none
  | _ => none

def viewList {α : Type} (f : Val → Option α) : List Val → Option (List α)
  | [] => some []
  | v :: vs =>
    match f v, viewList f vs with
    | some a, some as => some (a :: as)
    | _, _ => none

def viewEncHeader : Val → Option EncHeader
  | .arr (fn :: ver :: ty :: eph :: ssb :: rc :: _) =>
    match viewBytes fn, viewVersion ver, viewInt ty, viewBytes eph, viewBytes ssb, rc with
    | some fn, some ver, some ty, some eph, some ssb, .arr rl =>
      match viewList viewRecvKeys rl with
      | some rs => some ⟨fn, ver, ty, eph, ssb, rs⟩
      | none => none
    | _, _, _, _, _, _ => none
  | _ => none

def viewSigHeader : Val → Option SigHeader
  | .arr (fn :: ver :: ty :: pk :: n :: _) =>
    match viewBytes fn, viewVersion ver, viewInt ty, viewBytes pk, viewBytes n with
    | some fn, some ver, some ty, some pk, some n => some ⟨fn, ver, ty, pk, n⟩
    | _, _, _, _, _ => none
  | _ => none

/-- an authenticator is decoded into a `[32]byte`: only exactly 32 bytes are
    modelled (go-codec coerces other lengths) -/
def viewAuth (v : Val) : Option Bytes :=
  match viewBytes v with
  | some b => if b.length = 32 then some b else none
  | none => none

def viewEncBlock (major : Int) : Val → Option EncBlock
  | .arr l =>
    if major = 1 then
      match l with
      | .arr al :: c :: _ =>
        match viewList viewAuth al, viewBytes c with
        | some a, some ct => some ⟨a, ct, false⟩
        | _, _ => none
      | _ => none
    else if major = 2 then
      match l with
      | f :: .arr al :: c :: _ =>
        match viewBool f, viewList viewAuth al, viewBytes c with
        | some fl, some a, some ct => some ⟨a, ct, fl⟩
        | _, _, _ => none
      | _ => none
    else none
  | _ => none

def viewSigncryptBlock : Val → Option SigncryptBlock
  | .arr (c :: f :: _) =>
    match viewBytes c, viewBool f with
    | some ct, some fl => some ⟨ct, fl⟩
    | _, _ => none
  | _ => none

def viewSigBlock (major : Int) : Val → Option SigBlock
  | .arr l =>
    if major = 1 then
      match l with
      | s :: c :: _ =>
        match viewBytes s, viewBytes c with
        | some sg, some ch => some ⟨sg, ch, false⟩
        | _, _ => none
      | _ => none
    else if major = 2 then
      match l with
      | f :: s :: c :: _ =>
        match viewBool f, viewBytes s, viewBytes c with
        | some fl, some sg, some ch => some ⟨sg, ch, fl⟩
        | _, _, _ => none
      | _ => none
    else none
  | _ => none

/-! ### the abstract packet stream a receiver reads

  After the header packet, a receiver reads MessagePack objects one by one.
  `items` are the objects that decode (as `interface{}`); each carries its view
  as the block type the mode expects (`none` = go-codec reports an error when
  decoding it into that type).  `tail` says what the decoder reports once the
  items are used up: a clean end of input, or an error (malformed or truncated
  object, or an error of the underlying reader). -/

inductive Tail where
  | eof
  | err (e : Err)
  deriving Repr, DecidableEq, Inhabited

structure PStream (β : Type) where
  items : List (Option β)
  tail : Tail
  deriving Repr

/-- what the first read (`[]byte` header packet) and `decodeFromBytes` yield -/
inductive HeaderRead (η : Type) where
  | unreadable                           -- first object is not a byte string / input ends: ErrFailedToReadHeaderBytes
  | undecodable (headerBytes : Bytes)    -- inner bytes do not decode into the header struct
  | ok (headerBytes : Bytes) (h : η)
  deriving Repr

/-- one call on a long-term key object, as the application's key interfaces
    see it (property C12) -/
inductive KeyCall where
  | unbox (secret peer nonce msg : Bytes)
  | box (secret peer nonce msg : Bytes)
  | precompute (secret peer : Bytes)
  | sharedUnbox (secret peer nonce msg : Bytes)
  | sharedBox (secret peer nonce msg : Bytes)
  | sign (secret msg : Bytes)
  deriving Repr, DecidableEq

end Saltpack
