/-
  Saltpack.Model.Decrypt — decrypt.go (receiver side of encryption V1/V2) as a
  packet-level machine over an arbitrary keyring, plus the generic chunk-reader
  run that all three receivers share (chunk_reader.go + io.ReadAll).

  Core Lean only.
-/
import Saltpack.Model.Packets

namespace Saltpack
open Msgpack

/-! ### running a chunker to the end (chunk_reader.go)

  `getNextChunk` either yields a chunk and no error (more to come), or a
  (possibly empty) chunk together with a terminal condition.  `chunkReader.Read`
  hands every chunk to the caller before it reports the condition, and keeps
  reporting it (sticky).  Reading the stream to the end therefore releases the
  concatenation of the chunks and ends with the terminal condition. -/

/-- outcome of one `getNextChunk` -/
inductive ChunkStep where
  | more (chunk : Bytes)                      -- (chunk, nil)
  | last (chunk : Bytes)                      -- (chunk, io.EOF): clean end
  | fail (e : Err)                            -- (nil, err)
  | lastErr (chunk : Bytes) (e : Err)         -- (chunk, err) from assertEndOfStream
  deriving Repr, DecidableEq, Inhabited

/-- what a caller that reads the stream to the end observes -/
structure Released where
  bytes : Bytes
  err : Option Err       -- none = clean end of message (io.EOF)
  deriving Repr, DecidableEq, Inhabited

/-! ### keyrings -/

/-- a `Keyring` as a record of arbitrary functions.  Box secret keys are
    represented by their secret bytes, public keys by their raw bytes
    (`ToKID` = `ToRawBoxKeyPointer` as in `basic/key.go`). `none` = nil. -/
structure Keyring where
  lookupBoxSecretKey : List Bytes → Int × Option Bytes
  lookupBoxPublicKey : Bytes → Option Bytes
  getAllBoxSecretKeys : List Bytes
  importBoxEphemeralKey : Bytes → Option Bytes
  lookupSigningPublicKey : Bytes → Option Bytes

/-- `MessageKeyInfo` -/
structure MKI where
  senderKey : Bytes
  senderIsAnon : Bool
  receiverKey : Bytes          -- the *secret* key that opened the message
  receiverIsAnon : Bool
  namedReceivers : List Bytes
  numAnonReceivers : Nat
  deriving Repr, DecidableEq, Inhabited

namespace Decrypt
section
variable (P : Prims)

/-- state after a successfully processed header -/
structure State where
  version : Version
  payloadKey : Bytes
  headerHash : Bytes
  macKey : Bytes
  position : Nat
  mki : MKI
  deriving Repr

/-- `EncryptionHeader.validate` (after the D5 fix: format name first) -/
def validate (valid : Validator) (h : EncHeader) : Except Err Unit :=
  if h.formatName != Gen.c_sp_FormatName then .error .notASaltpackMessage
  else if h.typ != mtEncryption then .error .wrongMessageType
  else if valid h.version then .ok () else .error .badVersion

/-- indices (in the header) of the receivers that carry a key id -/
def visibleIndices (rs : List RecvKeys) : List Nat :=
  (rs.zipIdx.filter (fun p => match p.1.kid with | some k => !k.isEmpty | none => false)).map (·.2)

def kidOf (r : RecvKeys) : Bytes := r.kid.getD []

def isHidden (r : RecvKeys) : Bool := (kidOf r).isEmpty

/-- Functions that use long-term key objects return the log of the calls they
    made (in program order) *next to* their result, so that the log also covers
    runs that end in an error. -/
abbrev Logged (α : Type) := List KeyCall × Except Err α

/-- `tryVisibleReceivers`: `some (secret, payloadKey, position)` on success,
    `none` when the keyring has none of the named keys -/
def tryVisible (kr : Keyring) (h : EncHeader) (eph : Bytes) : Logged (Option (Bytes × Bytes × Nat)) :=
  let vis := visibleIndices h.receivers
  let kids := vis.map (fun i => kidOf (h.receivers.getD i default))
  let (i, sk?) := kr.lookupBoxSecretKey kids
  match sk? with
  | none => ([], .ok none)
  | some sk =>
    if i < 0 then ([], .ok none)
    else match vis[i.toNat]? with
    | none => ([], .error .badLookup)
    | some orig =>
      match Nonce.payloadKeyBox h.version orig with
      | .error e => ([], .error e)
      | .ok nonce =>
        let bx := (h.receivers.getD orig default).box
        let log := [KeyCall.unbox sk eph nonce bx]
        match P.unbox sk eph nonce bx with
        | none => (log, .error .decryptionFailed)          -- the key object's own error
        | some pk =>
          if pk.length != 32 then (log, .error .badSymmetricKey)
          else (log, .ok (some (sk, pk, orig)))

/-- inner loop of `tryHiddenReceivers` for one secret key -/
def tryHiddenOne (v : Version) (sk eph : Bytes) : List (RecvKeys × Nat) → Logged (Option (Bytes × Nat))
  | [] => ([], .ok none)
  | (r, i) :: rest =>
    if isHidden r then
      match Nonce.payloadKeyBox v i with
      | .error e => ([], .error e)
      | .ok nonce =>
        let c := KeyCall.sharedUnbox sk eph nonce r.box
        match P.unbox sk eph nonce r.box with
        | none =>
          let (log, res) := tryHiddenOne v sk eph rest
          (c :: log, res)
        | some pk =>
          if pk.length != 32 then ([c], .error .badSymmetricKey)
          else ([c], .ok (some (pk, i)))
    else tryHiddenOne v sk eph rest

/-- `tryHiddenReceivers`: every secret key of the keyring against every hidden
    entry, first success wins -/
def tryHidden (h : EncHeader) (eph : Bytes) : List Bytes → Logged (Option (Bytes × Bytes × Nat))
  | [] => ([], .ok none)
  | sk :: sks =>
    let (log, res) := tryHiddenOne P h.version sk eph h.receivers.zipIdx
    let log := KeyCall.precompute sk eph :: log
    match res with
    | .error e => (log, .error e)
    | .ok (some (pk, i)) => (log, .ok (some (sk, pk, i)))
    | .ok none =>
      let (log', res') := tryHidden h eph sks
      (log ++ log', res')

/-- `computeMACKeyReceiver` -/
def macKeyReceiver (v : Version) (index : Nat) (secret pub ePub headerHash : Bytes) : Logged Bytes :=
  if v.major = 1 then
    let n := Nonce.macKeyBoxV1 headerHash
    ([.box secret pub n (zeros 32)], .ok (macKeySingle P secret pub n))
  else if v.major = 2 then
    let n := Nonce.macKeyBoxV2 headerHash false index
    let en := Nonce.macKeyBoxV2 headerHash true index
    ([.box secret pub n (zeros 32), .box secret ePub en (zeros 32)],
     .ok (sum512Truncate256 P (macKeySingle P secret pub n ++ macKeySingle P secret ePub en)))
  else ([], .error (.panic "computeMACKeyReceiver"))

/-- `decryptStream.processHeader` -/
def processHeader (valid : Validator) (kr : Keyring) (headerHash : Bytes) (h : EncHeader) : Logged State :=
  match validate valid h with
  | .error e => ([], .error e)
  | .ok () =>
  match kr.importBoxEphemeralKey h.ephemeral with
  | none => ([], .error .badEphemeralKey)
  | some eph =>
  let named := (visibleIndices h.receivers).map (fun i => kidOf (h.receivers.getD i default))
  let (log1, vis) := tryVisible P kr h eph
  match vis with
  | .error e => (log1, .error e)
  | .ok vis =>
  let (log2, hid, recvAnon) : List KeyCall × Except Err (Option (Bytes × Bytes × Nat)) × Bool :=
    match vis with
    | some r => ([], .ok (some r), false)
    | none =>
      let (log, r) := tryHidden P h eph kr.getAllBoxSecretKeys
      (log, r, true)
  match hid with
  | .error e => (log1 ++ log2, .error e)
  | .ok none => (log1 ++ log2, .error .noDecryptionKey)
  | .ok (some (sk, pk, pos)) =>
  match P.sbOpen pk Nonce.senderKeySecretBox h.senderSecretbox with
  | none => (log1 ++ log2, .error .badSenderKeySecretbox)
  | some senderKey =>
  if senderKey.length != 32 then (log1 ++ log2, .error .badBoxKey)
  else
    let anon := h.ephemeral == senderKey
    let sender? : Option Bytes := if anon then some eph else kr.lookupBoxPublicKey senderKey
    match sender? with
    | none => (log1 ++ log2, .error .noSenderKey)
    | some senderPub =>
      let (log3, mk) := macKeyReceiver P h.version pos sk senderPub eph headerHash
      match mk with
      | .error e => (log1 ++ log2 ++ log3, .error e)
      | .ok mk =>
        (log1 ++ log2 ++ log3,
         .ok { version := h.version, payloadKey := pk, headerHash := headerHash, macKey := mk,
               position := pos,
               mki := { senderKey := senderPub, senderIsAnon := anon, receiverKey := sk,
                        receiverIsAnon := recvAnon, namedReceivers := named,
                        numAnonReceivers := if recvAnon then (h.receivers.filter isHidden).length else 0 } })

/-- `decryptStream.processBlock` (after the D2 fix: a missing authenticator is a
    bad tag); `seqno` counts packets from 1 (the header is packet 0) -/
def processBlock (s : State) (b : EncBlock) (isFinal : Bool) (seqno : Nat) : Except Err Bytes :=
  let blockNum := seqno - 1
  if !blockNumberOK blockNum then .error .packetOverflow
  else
    let nonce := Nonce.chunkSecretBox blockNum
    match payloadHash P s.version s.headerHash nonce b.ct isFinal with
    | .error e => .error e
    | .ok h =>
      let ours := payloadAuthenticator P s.macKey h
      match b.auths[s.position]? with
      | none => .error .badTag
      | some a =>
        if a != ours then .error .badTag
        else match P.sbOpen s.payloadKey nonce b.ct with
          | none => .error .badCiphertext
          | some pt => .ok pt

/-- V1 derives the final flag from the ciphertext length -/
def blockFinal (v : Version) (b : EncBlock) : Bool :=
  if v.major = 1 then b.ct.length == 16 else b.final

/-- what the stream reports when asked for one more object at its end
    (`assertEndOfStream`): an item is trailing garbage -/
def endOfStream {β : Type} (rest : List (Option β)) (tail : Tail) : Option Err :=
  match rest with
  | _ :: _ => some .trailingGarbage
  | [] => match tail with
    | .eof => none
    | .err e => some e

/-- `getNextChunk` + `chunkReader` + read-to-end, over the abstract packet
    stream: releases chunk after chunk until a terminal condition. -/
def run (s : State) : List (Option EncBlock) → Tail → (seqno : Nat) → Released
  | [], tail, _ =>
    match tail with
    | .eof => ⟨[], some .unexpectedEOF⟩
    | .err e => ⟨[], some e⟩
  | none :: _, _, _ => ⟨[], some .decodeError⟩
  | some b :: rest, tail, seqno =>
    let isFinal := blockFinal s.version b
    match processBlock P s b isFinal seqno with
    | .error e => ⟨[], some e⟩
    | .ok chunk =>
      match checkChunkState s.version chunk.length (seqno - 1) isFinal with
      | .error e => ⟨[], some e⟩
      | .ok () =>
        if isFinal then ⟨chunk, endOfStream rest tail⟩
        else
          let r := run s rest tail (seqno + 1)
          ⟨chunk ++ r.bytes, r.err⟩

/-- result of `NewDecryptStream` followed by reading to the end -/
structure Result where
  mki : Option MKI
  released : Bytes
  err : Option Err
  calls : List KeyCall
  deriving Repr

/-- `NewDecryptStream` + read to end (streaming form): bytes are released
    chunk by chunk even if an error follows -/
def openStream (valid : Validator) (kr : Keyring) (hr : HeaderRead EncHeader)
    (ps : PStream EncBlock) : Result :=
  match hr with
  | .unreadable => ⟨none, [], some .failedToReadHeaderBytes, []⟩
  | .undecodable _ => ⟨none, [], some .decodeError, []⟩
  | .ok hb h =>
    match processHeader P valid kr (P.hash hb) h with
    | (log, .error e) => ⟨none, [], some e, log⟩
    | (log, .ok st) =>
      let r := run P st ps.items ps.tail 1
      ⟨some st.mki, r.bytes, r.err, log⟩

/-- `Open` (all-at-once form): nothing unless the run ended cleanly -/
def openAll (valid : Validator) (kr : Keyring) (hr : HeaderRead EncHeader)
    (ps : PStream EncBlock) : Except Err (MKI × Bytes) :=
  let r := openStream P valid kr hr ps
  match r.err, r.mki with
  | none, some m => .ok (m, r.released)
  | some e, _ => .error e
  | none, none => .error .decodeError

end
end Decrypt
end Saltpack
