/-
  Saltpack.Model.Msgpack — the MessagePack encodings go-codec produces for the
  Go types saltpack uses (msgpack.go, packets.go), and a generic total parser
  for the MessagePack grammar.

  Encoding side (mirrors go-codec 164397562123 with `WriteExt = true`):
    string  → fixstr / str8 / str16 / str32
    []byte  → bin8 / bin16 / bin32 ;  nil []byte → nil (c0)
    int ≥ 0 → positive fixint / uint8 / uint16 / uint32 / uint64 (shortest)
    int < 0 → negative fixint / int8 / int16 / int32 / int64 (shortest)
    bool    → c2 / c3
    arrays  → fixarray / array16 / array32
  Core Lean only.
-/
import Saltpack.Model.Bytes

namespace Saltpack.Msgpack

/-- a decoded MessagePack object -/
inductive Val where
  | nil
  | bool (b : Bool)
  | int (i : Int)
  | bin (b : Bytes)
  | str (b : Bytes)
  | arr (l : List Val)
  | map (l : List (Val × Val))
  | ext (typ : Int) (b : Bytes)
  | float (raw : Bytes)
  deriving Repr, Inhabited

def beN (len n : Nat) : Bytes := bytesOfNat len n

def encArrayHdr (n : Nat) : Bytes :=
  if n < 16 then [UInt8.ofNat (0x90 + n)]
  else if n < 65536 then 0xdc :: beN 2 n
  else 0xdd :: beN 4 n

def encBinHdr (n : Nat) : Bytes :=
  if n < 256 then [0xc4, UInt8.ofNat n]
  else if n < 65536 then 0xc5 :: beN 2 n
  else 0xc6 :: beN 4 n

def encBin (b : Bytes) : Bytes := encBinHdr b.length ++ b

def encStrHdr (n : Nat) : Bytes :=
  if n < 32 then [UInt8.ofNat (0xa0 + n)]
  else if n < 256 then [0xd9, UInt8.ofNat n]
  else if n < 65536 then 0xda :: beN 2 n
  else 0xdb :: beN 4 n

def encStr (b : Bytes) : Bytes := encStrHdr b.length ++ b

def encUInt (n : Nat) : Bytes :=
  if n < 128 then [UInt8.ofNat n]
  else if n < 256 then [0xcc, UInt8.ofNat n]
  else if n < 65536 then 0xcd :: beN 2 n
  else if n < 4294967296 then 0xce :: beN 4 n
  else 0xcf :: beN 8 n

def encInt (i : Int) : Bytes :=
  if 0 ≤ i then encUInt i.toNat
  else if -32 ≤ i then [UInt8.ofNat (256 - (-i).toNat)]
  else if -128 ≤ i then [0xd0, UInt8.ofNat (256 - (-i).toNat)]
  else if -32768 ≤ i then 0xd1 :: beN 2 (65536 - (-i).toNat)
  else if -2147483648 ≤ i then 0xd2 :: beN 4 (4294967296 - (-i).toNat)
  else 0xd3 :: beN 8 (18446744073709551616 - (-i).toNat)

def encBool (b : Bool) : Bytes := [if b then 0xc3 else 0xc2]

def encNil : Bytes := [0xc0]

/-- canonical (minimal) encoding of a `Val`, the way go-codec writes the
    corresponding Go value.  Maps/ext/float are never written by saltpack; they
    are encoded here only so that `encode` is total. -/
def encode : Val → Bytes
  | .nil => encNil
  | .bool b => encBool b
  | .int i => encInt i
  | .bin b => encBin b
  | .str b => encStr b
  | .arr l => encArrayHdr l.length ++ encodeList l
  | .map _ => [0x80]
  | .ext _ _ => encNil
  | .float raw => 0xcb :: raw
where
  encodeList : List Val → Bytes
    | [] => []
    | v :: vs => encode v ++ encodeList vs

/-! ### generic parser

  The parser distinguishes *why* an object cannot be read, because go-codec's
  stream decoder does: input that ends inside an object is reported as
  `io.EOF`, an impossible descriptor byte (`0xc1`) as a decode error. -/

inductive PErr where
  | trunc       -- input ends inside (or before) the object
  | invalid     -- unrecognised descriptor byte
  deriving Repr, DecidableEq

abbrev PRes (α : Type) := Except PErr (α × Bytes)

def takeN (n : Nat) (b : Bytes) : PRes Bytes :=
  if b.length < n then .error .trunc else .ok (b.take n, b.drop n)

def readLen (n : Nat) (b : Bytes) : PRes Nat :=
  match takeN n b with
  | .error e => .error e
  | .ok (h, t) => .ok (natOfBytes h, t)

def signedOf (bits : Nat) (v : Nat) : Int :=
  if v < 2 ^ (bits - 1) then (v : Int) else (v : Int) - (2 ^ bits : Nat)

def lenBin (w : Nat) (mk : Bytes → Val) (rest : Bytes) : PRes Val :=
  match readLen w rest with
  | .error e => .error e
  | .ok (n, r) => match takeN n r with
    | .ok (s, r') => .ok (mk s, r') | .error e => .error e

def lenExt (w : Nat) (rest : Bytes) : PRes Val :=
  match readLen w rest with
  | .error e => .error e
  | .ok (n, r) => match takeN (n + 1) r with
    | .ok (s, r') => .ok (.ext (signedOf 8 (s.headD 0).toNat) s.tail, r') | .error e => .error e

mutual
/-- parse one object; `fuel` bounds nesting+size (`4·length + 8` suffices). -/
def parse : (fuel : Nat) → Bytes → PRes Val
  | 0, _ => .error .trunc
  | _, [] => .error .trunc
  | fuel + 1, t :: rest =>
    let c := t.toNat
    if c < 0x80 then .ok (.int c, rest)
    else if c < 0x90 then
      match parseMap fuel (c - 0x80) rest with
      | .ok (l, r) => .ok (.map l, r) | .error e => .error e
    else if c < 0xa0 then
      match parseArr fuel (c - 0x90) rest with
      | .ok (l, r) => .ok (.arr l, r) | .error e => .error e
    else if c < 0xc0 then
      match takeN (c - 0xa0) rest with
      | .ok (s, r) => .ok (.str s, r) | .error e => .error e
    else if c = 0xc0 then .ok (.nil, rest)
    else if c = 0xc1 then .error .invalid
    else if c = 0xc2 then .ok (.bool false, rest)
    else if c = 0xc3 then .ok (.bool true, rest)
    else if c = 0xc4 then lenBin 1 .bin rest
    else if c = 0xc5 then lenBin 2 .bin rest
    else if c = 0xc6 then lenBin 4 .bin rest
    else if c = 0xc7 then lenExt 1 rest
    else if c = 0xc8 then lenExt 2 rest
    else if c = 0xc9 then lenExt 4 rest
    else if c = 0xca then
      match takeN 4 rest with | .ok (s, r) => .ok (.float s, r) | .error e => .error e
    else if c = 0xcb then
      match takeN 8 rest with | .ok (s, r) => .ok (.float s, r) | .error e => .error e
    else if c = 0xcc ∨ c = 0xcd ∨ c = 0xce ∨ c = 0xcf then
      let w := if c = 0xcc then 1 else if c = 0xcd then 2 else if c = 0xce then 4 else 8
      match readLen w rest with
      | .ok (n, r) => .ok (.int n, r) | .error e => .error e
    else if c = 0xd0 ∨ c = 0xd1 ∨ c = 0xd2 ∨ c = 0xd3 then
      let w := if c = 0xd0 then 1 else if c = 0xd1 then 2 else if c = 0xd2 then 4 else 8
      match readLen w rest with
      | .ok (n, r) => .ok (.int (signedOf (8 * w) n), r) | .error e => .error e
    else if c = 0xd4 ∨ c = 0xd5 ∨ c = 0xd6 ∨ c = 0xd7 ∨ c = 0xd8 then
      let n := if c = 0xd4 then 1 else if c = 0xd5 then 2 else if c = 0xd6 then 4 else if c = 0xd7 then 8 else 16
      match takeN (n + 1) rest with
      | .ok (s, r') => .ok (.ext (signedOf 8 (s.headD 0).toNat) s.tail, r') | .error e => .error e
    else if c = 0xd9 then lenBin 1 .str rest
    else if c = 0xda then lenBin 2 .str rest
    else if c = 0xdb then lenBin 4 .str rest
    else if c = 0xdc ∨ c = 0xdd then
      let w := if c = 0xdc then 2 else 4
      match readLen w rest with
      | .error e => .error e
      | .ok (n, r) => match parseArr fuel n r with
        | .ok (l, r') => .ok (.arr l, r') | .error e => .error e
    else if c = 0xde ∨ c = 0xdf then
      let w := if c = 0xde then 2 else 4
      match readLen w rest with
      | .error e => .error e
      | .ok (n, r) => match parseMap fuel n r with
        | .ok (l, r') => .ok (.map l, r') | .error e => .error e
    else .ok (.int ((c : Int) - 256), rest)      -- negative fixint e0..ff

def parseArr : (fuel : Nat) → (n : Nat) → Bytes → PRes (List Val)
  | 0, _, _ => .error .trunc
  | _ + 1, 0, b => .ok ([], b)
  | fuel + 1, n + 1, b =>
    match parse fuel b with
    | .error e => .error e
    | .ok (v, r) => match parseArr fuel n r with
      | .error e => .error e
      | .ok (vs, r') => .ok (v :: vs, r')

def parseMap : (fuel : Nat) → (n : Nat) → Bytes → PRes (List (Val × Val))
  | 0, _, _ => .error .trunc
  | _ + 1, 0, b => .ok ([], b)
  | fuel + 1, n + 1, b =>
    match parse fuel b with
    | .error e => .error e
    | .ok (k, r) => match parse fuel r with
      | .error e => .error e
      | .ok (v, r') => match parseMap fuel n r' with
        | .error e => .error e
        | .ok (kvs, r'') => .ok ((k, v) :: kvs, r'')
end

/-- parse one object from the front of `b` -/
def parse1 (b : Bytes) : PRes Val := parse (4 * b.length + 8) b

/-- split a byte stream into its top-level objects, and say why it stops:
    `none` = clean end of input, `some e` = the next object cannot be read. -/
def parseAll : (fuel : Nat) → Bytes → List Val × Option PErr
  | 0, _ => ([], some .trunc)
  | fuel + 1, b =>
    if b.isEmpty then ([], none)
    else match parse1 b with
      | .error e => ([], some e)
      | .ok (v, r) =>
        let (vs, stop) := parseAll fuel r
        (v :: vs, stop)

end Saltpack.Msgpack
