/-
  Saltpack.Model.Msgpack — the MessagePack encodings go-codec produces for the
  Go types saltpack uses (msgpack.go, packets.go), and a generic total parser
  for the MessagePack grammar.

  Encoding side (mirrors go-codec 164397562123 with `WriteExt = true`):
    string  → fixstr / str8 / str16 / str32
    []byte  → bin8 / bin16 / bin32 ;  nil []byte → nil (c0)
    int ≥ 0 → positive fixint / uint8 / uint16 / uint32 / uint64 (shortest)
    int < 0 → negative fixint / int8 / int16 / int32 / int64 (shortest)
    bool    → c2 / c3
    arrays  → fixarray / array16 / array32
  Core Lean only.
-/
import Saltpack.Model.Bytes

namespace Saltpack.Msgpack

/-- a decoded MessagePack object -/
inductive Val where
  | nil
  | bool (b : Bool)
  | int (i : Int)
  | bin (b : Bytes)
  | str (b : Bytes)
  | arr (l : List Val)
  | map (l : List (Val × Val))
  | ext (typ : Int) (b : Bytes)
  | float (raw : Bytes)
  deriving Repr, Inhabited

def beN (len n : Nat) : Bytes := bytesOfNat len n

def encArrayHdr (n : Nat) : Bytes :=
  if n < 16 then [UInt8.ofNat (0x90 + n)]
  else if n < 65536 then 0xdc :: beN 2 n
  else 0xdd :: beN 4 n

def encBinHdr (n : Nat) : Bytes :=
  if n < 256 then [0xc4, UInt8.ofNat n]
  else if n < 65536 then 0xc5 :: beN 2 n
  else 0xc6 :: beN 4 n

def encBin (b : Bytes) : Bytes := encBinHdr b.length ++ b

def encStrHdr (n : Nat) : Bytes :=
  if n < 32 then [UInt8.ofNat (0xa0 + n)]
  else if n < 256 then [0xd9, UInt8.ofNat n]
  else if n < 65536 then 0xda :: beN 2 n
  else 0xdb :: beN 4 n

def encStr (b : Bytes) : Bytes := encStrHdr b.length ++ b

def encUInt (n : Nat) : Bytes :=
  if n < 128 then [UInt8.ofNat n]
  else if n < 256 then [0xcc, UInt8.ofNat n]
  else if n < 65536 then 0xcd :: beN 2 n
  else if n < 4294967296 then 0xce :: beN 4 n
  else 0xcf :: beN 8 n

def encInt (i : Int) : Bytes :=
  if 0 ≤ i then encUInt i.toNat
  else if -32 ≤ i then [UInt8.ofNat (256 - (-i).toNat)]
  else if -128 ≤ i then [0xd0, UInt8.ofNat (256 - (-i).toNat)]
  else if -32768 ≤ i then 0xd1 :: beN 2 (65536 - (-i).toNat)
  else if -2147483648 ≤ i then 0xd2 :: beN 4 (4294967296 - (-i).toNat)
  else 0xd3 :: beN 8 (18446744073709551616 - (-i).toNat)

def encBool (b : Bool) : Bytes := [if b then 0xc3 else 0xc2]

def encNil : Bytes := [0xc0]

/-- canonical (minimal) encoding of a `Val`, the way go-codec writes the
    corresponding Go value.  Maps/ext/float are never written by saltpack; they
    are encoded here only so that `encode` is total. -/
def encode : Val → Bytes
  | .nil => encNil
  | .bool b => encBool b
  | .int i => encInt i
  | .bin b => encBin b
  | .str b => encStr b
  | .arr l => encArrayHdr l.length ++ encodeList l
  | .map _ => [0x80]
  | .ext _ _ => encNil
  | .float raw => 0xcb :: raw
where
  encodeList : List Val → Bytes
    | [] => []
    | v :: vs => encode v ++ encodeList vs

/-! ### generic parser -/

def takeN (n : Nat) (b : Bytes) : Option (Bytes × Bytes) :=
  if b.length < n then none else some (b.take n, b.drop n)

def readLen (n : Nat) (b : Bytes) : Option (Nat × Bytes) :=
  match takeN n b with
  | none => none
  | some (h, t) => some (natOfBytes h, t)

def signedOf (bits : Nat) (v : Nat) : Int :=
  if v < 2 ^ (bits - 1) then (v : Int) else (v : Int) - (2 ^ bits : Nat)

mutual
/-- parse one object; `fuel` bounds nesting+size (input length + 1 suffices). -/
def parse : (fuel : Nat) → Bytes → Option (Val × Bytes)
  | 0, _ => none
  | _, [] => none
  | fuel + 1, t :: rest =>
    let c := t.toNat
    if c < 0x80 then some (.int c, rest)
    else if c < 0x90 then
      match parseMap fuel (c - 0x80) rest with
      | some (l, r) => some (.map l, r) | none => none
    else if c < 0xa0 then
      match parseArr fuel (c - 0x90) rest with
      | some (l, r) => some (.arr l, r) | none => none
    else if c < 0xc0 then
      match takeN (c - 0xa0) rest with
      | some (s, r) => some (.str s, r) | none => none
    else if c = 0xc0 then some (.nil, rest)
    else if c = 0xc1 then none
    else if c = 0xc2 then some (.bool false, rest)
    else if c = 0xc3 then some (.bool true, rest)
    else if c = 0xc4 ∨ c = 0xc5 ∨ c = 0xc6 then
      let w := if c = 0xc4 then 1 else if c = 0xc5 then 2 else 4
      match readLen w rest with
      | none => none
      | some (n, r) => match takeN n r with
        | some (s, r') => some (.bin s, r') | none => none
    else if c = 0xc7 ∨ c = 0xc8 ∨ c = 0xc9 then
      let w := if c = 0xc7 then 1 else if c = 0xc8 then 2 else 4
      match readLen w rest with
      | none => none
      | some (n, r) => match takeN (n + 1) r with
        | some (s, r') => some (.ext (signedOf 8 (s.headD 0).toNat) s.tail, r') | none => none
    else if c = 0xca then
      match takeN 4 rest with | some (s, r) => some (.float s, r) | none => none
    else if c = 0xcb then
      match takeN 8 rest with | some (s, r) => some (.float s, r) | none => none
    else if c = 0xcc ∨ c = 0xcd ∨ c = 0xce ∨ c = 0xcf then
      let w := if c = 0xcc then 1 else if c = 0xcd then 2 else if c = 0xce then 4 else 8
      match readLen w rest with
      | some (n, r) => some (.int n, r) | none => none
    else if c = 0xd0 ∨ c = 0xd1 ∨ c = 0xd2 ∨ c = 0xd3 then
      let w := if c = 0xd0 then 1 else if c = 0xd1 then 2 else if c = 0xd2 then 4 else 8
      match readLen w rest with
      | some (n, r) => some (.int (signedOf (8 * w) n), r) | none => none
    else if c = 0xd4 ∨ c = 0xd5 ∨ c = 0xd6 ∨ c = 0xd7 ∨ c = 0xd8 then
      let n := if c = 0xd4 then 1 else if c = 0xd5 then 2 else if c = 0xd6 then 4 else if c = 0xd7 then 8 else 16
      match takeN (n + 1) rest with
      | some (s, r') => some (.ext (signedOf 8 (s.headD 0).toNat) s.tail, r') | none => none
    else if c = 0xd9 ∨ c = 0xda ∨ c = 0xdb then
      let w := if c = 0xd9 then 1 else if c = 0xda then 2 else 4
      match readLen w rest with
      | none => none
      | some (n, r) => match takeN n r with
        | some (s, r') => some (.str s, r') | none => none
    else if c = 0xdc ∨ c = 0xdd then
      let w := if c = 0xdc then 2 else 4
      match readLen w rest with
      | none => none
      | some (n, r) => match parseArr fuel n r with
        | some (l, r') => some (.arr l, r') | none => none
    else if c = 0xde ∨ c = 0xdf then
      let w := if c = 0xde then 2 else 4
      match readLen w rest with
      | none => none
      | some (n, r) => match parseMap fuel n r with
        | some (l, r') => some (.map l, r') | none => none
    else some (.int ((c : Int) - 256), rest)      -- negative fixint e0..ff

def parseArr : (fuel : Nat) → (n : Nat) → Bytes → Option (List Val × Bytes)
  | 0, _, _ => none
  | _ + 1, 0, b => some ([], b)
  | fuel + 1, n + 1, b =>
    if b.length < n + 1 then none        -- each element needs at least one byte
    else match parse fuel b with
    | none => none
    | some (v, r) => match parseArr fuel n r with
      | none => none
      | some (vs, r') => some (v :: vs, r')

def parseMap : (fuel : Nat) → (n : Nat) → Bytes → Option (List (Val × Val) × Bytes)
  | 0, _, _ => none
  | _ + 1, 0, b => some ([], b)
  | fuel + 1, n + 1, b =>
    if b.length < 2 * (n + 1) then none
    else match parse fuel b with
    | none => none
    | some (k, r) => match parse fuel r with
      | none => none
      | some (v, r') => match parseMap fuel n r' with
        | none => none
        | some (kvs, r'') => some ((k, v) :: kvs, r'')
end

/-- parse one object from the front of `b` -/
def parse1 (b : Bytes) : Option (Val × Bytes) := parse (2 * b.length + 2) b

/-- split a byte stream into its top-level objects; `rest` is what could not be
    parsed (empty = clean end). Fuel: every object consumes at least one byte. -/
def parseAll : (fuel : Nat) → Bytes → List Val × Bytes
  | 0, b => ([], b)
  | fuel + 1, b =>
    if b.isEmpty then ([], [])
    else match parse1 b with
      | none => ([], b)
      | some (v, r) =>
        let (vs, rest) := parseAll fuel r
        (v :: vs, rest)

end Saltpack.Msgpack
