/-
  Saltpack.Model.Front — from message BYTES to the receivers' results: the
  composition the line-protocol driver used to make on its own
  (`enc.open`, `sc.open`, `sig.verify`, `sig.verifydetached`), now a Model
  definition so that theorems can be stated about it.

    bytes ──Wire.split*──▶ ok (header read, packet stream)            (spec-shaped reader)
          └─unmodelled──▶ Codec.split* ──▶ ok (header read, packet stream)   (go-codec's typed decoding)
                                         └─▶ error: the model does not claim to know (reason: Wire's)
    (header read, packet stream) ──Decrypt.openStream / Signcrypt.openStream / Sign.verifyStream / Sign.verifyDetached──▶ result

  `Front.read*` are total functions `Bytes → Except String …`; `.error w` is the
  driver's `unmodelled w` answer (the correspondence then takes the
  decoded-packets route).  `Decrypt.openBytes`, `Signcrypt.openBytes`,
  `Sign.verifyBytes`, `Sign.verifyDetachedBytes` run the receiver on what was read.

  Core Lean only.
-/
import Saltpack.Model.Wire
import Saltpack.Model.Codec
import Saltpack.Model.Decrypt
import Saltpack.Model.Signcrypt
import Saltpack.Model.Sign

namespace Saltpack.Front
open Saltpack

/-- `Wire` first; `Codec` (evaluated only then) for what `Wire` calls unmodelled;
    when neither knows, the reason `Wire` gave -/
@[inline] def orCodec {α : Type} (w : Wire.Front α) (c : Unit → Except String α) : Except String α :=
  match w with
  | .ok x => .ok x
  | .unmodelled why =>
    match c () with
    | .ok x => .ok x
    | .error _ => .error why

/-- what `NewDecryptStream`'s reads make of `msg` -/
def readEnc (msg : Bytes) : Except String (HeaderRead EncHeader × PStream EncBlock) :=
  orCodec (Wire.splitEnc msg) (fun _ => Codec.splitEnc msg)

/-- what `NewSigncryptOpenStream`'s reads make of `msg` -/
def readSigncrypt (msg : Bytes) : Except String (HeaderRead EncHeader × PStream SigncryptBlock) :=
  orCodec (Wire.splitSigncrypt msg) (fun _ => Codec.splitSigncrypt msg)

/-- what `NewVerifyStream`'s reads make of `msg` -/
def readSig (msg : Bytes) : Except String (HeaderRead SigHeader × PStream SigBlock) :=
  orCodec (Wire.splitSig msg) (fun _ => Codec.splitSig msg)

/-- the detached signature object as `VerifyDetachedReader` sees it: a clean end
    of input is `io.EOF` turned into `ErrUnexpectedEOF`-class, anything else a
    decode error -/
def detSig : Codec.DetSig → Sign.SigRead
  | .sig s => .sig s
  | .eof => .none .unexpectedEOF
  | .err => .none .decodeError

/-- what `VerifyDetachedReader`'s reads make of the signature message -/
def readDetached (sigMsg : Bytes) : Except String (HeaderRead SigHeader × Sign.SigRead) :=
  orCodec (Wire.splitDetached sigMsg)
    (fun _ => match Codec.splitDetached sigMsg with
      | .ok (hr, d) => .ok (hr, detSig d)
      | .error w => .error w)

end Saltpack.Front

namespace Saltpack

/-- `NewDecryptStream(versionValidator, bytes.NewReader(msg), keyring)` read to the end -/
def Decrypt.openBytes (P : Prims) (valid : Validator) (kr : Keyring) (msg : Bytes) : Except String Decrypt.Result :=
  match Front.readEnc msg with
  | .error w => .error w
  | .ok (hr, ps) => .ok (Decrypt.openStream P valid kr hr ps)

/-- `NewSigncryptOpenStream(bytes.NewReader(msg), keyring, resolver)` read to the end -/
def Signcrypt.openBytes (P : Prims) (kr : Keyring) (res : Signcrypt.Resolver) (msg : Bytes) :
    Except String Signcrypt.Result :=
  match Front.readSigncrypt msg with
  | .error w => .error w
  | .ok (hr, ps) => .ok (Signcrypt.openStream P kr res hr ps)

/-- `NewVerifyStream(versionValidator, bytes.NewReader(msg), keyring)` read to the end -/
def Sign.verifyBytes (P : Prims) (valid : Validator) (kr : Keyring) (msg : Bytes) : Except String Sign.Result :=
  match Front.readSig msg with
  | .error w => .error w
  | .ok (hr, ps) => .ok (Sign.verifyStream P valid kr hr ps)

/-- `VerifyDetached(versionValidator, msg, sigMsg, keyring)` -/
def Sign.verifyDetachedBytes (P : Prims) (valid : Validator) (kr : Keyring) (sigMsg msg : Bytes) :
    Except String (Except Err Bytes) :=
  match Front.readDetached sigMsg with
  | .error w => .error w
  | .ok (hr, sr) => .ok (Sign.verifyDetached P valid kr hr sr msg)

end Saltpack
