/-
  Saltpack.Model.Front — from message BYTES to the receivers' results: the
  composition the line-protocol driver used to make on its own
  (`enc.open`, `sc.open`, `sig.verify`, `sig.verifydetached`), now a Model
  definition so that theorems can be stated about it.

    bytes ──Codec.split*──▶ ok (header read, packet stream)            (go-codec's TYPED decoding, in go-codec's order)
          └─unmodelled──▶ Wire.split* ──▶ ok (header read, packet stream)   (spec-shaped reader: generic parse + typed views)
                                        └─▶ error: the model does not claim to know (reason: Codec's)
    (header read, packet stream) ──Decrypt.openStream / Signcrypt.openStream / Sign.verifyStream / Sign.verifyDetached──▶ result

  `Codec` is the PRIMARY reader (repair R1).  Up to ext-h the order was the other
  way round, and `Wire` — a generic MessagePack parse followed by typed views that
  drop surplus elements — answered `.ok` on inputs go-codec refuses (a reserved
  extra element nested beyond the decoder's depth budget: Go `max depth exceeded`)
  and, parsing generically, let a truncation further right hide a type error
  further left (Go: decode error; `Wire`: clean end).  `Codec` reads the bytes
  left to right the way go-codec's typed decoder does and gets both right; `Wire`
  is now consulted only for the two documented shapes (and fuel) `Codec` calls
  unmodelled.  On canonical messages — all genuine sender output included — the two
  agree (`C09_bridge_*`), so the older `Wire`-based round-trip theorems transfer.

  `Front.read*` are total functions `Bytes → Except String …`; `.error w` is the
  driver's `unmodelled w` answer (the correspondence then takes the
  decoded-packets route).  `Decrypt.openBytes`, `Signcrypt.openBytes`,
  `Sign.verifyBytes`, `Sign.verifyDetachedBytes` run the receiver on what was read.

  Core Lean only.
-/
import Saltpack.Model.Wire
import Saltpack.Model.Codec
import Saltpack.Model.Decrypt
import Saltpack.Model.Signcrypt
import Saltpack.Model.Sign

namespace Saltpack.Front
open Saltpack

/-- `Codec` first; `Wire` (evaluated only then) for what `Codec` calls unmodelled;
    when neither knows, the reason `Codec` gave -/
@[inline] def orWire {α : Type} (c : Except String α) (w : Unit → Wire.Front α) : Except String α :=
  match c with
  | .ok x => .ok x
  | .error why =>
    match w () with
    | .ok x => .ok x
    | .unmodelled _ => .error why

/-! ### which read consults the end of the stream

  `Codec.blocks` (the mirror of the lister hook) stops at the first position where
  a TYPED packet read fails.  A receiver consults that position in one of two ways:
  it expects a further packet — a typed read, whose error `Codec.blocks` reports as
  the tail — or, after a packet that is final, `assertEndOfStream` makes a GENERIC
  read (`Read(&x)`, `x interface{}`): `io.EOF` = clean end, an object = trailing
  garbage, anything else that error.  The two differ in exactly one case: an object
  the typed decoder refuses (wrong type seen first) that is ALSO truncated — typed
  read: decode error; generic read: `io.EOF`, a clean end (e.g. `c4 05 01` behind a
  complete message: Go accepts the message).  Which of the two reads happens is
  decided by the last packet decoded before the stop (`blockFinal`, the receivers'
  own test), so the front end can hand over the right tail: -/

/-- the typed reads stop at an object the typed decoder refuses whose generic read
    runs into the end of the input (same walk as `Codec.blocks`) -/
def truncatedStop {β : Type} (dec : Codec.Dec β) : Nat → Bytes → Bool
  | 0, _ => false
  | fuel + 1, b =>
    match dec b with
    | .ok (_, rest) => truncatedStop dec fuel rest
    | .error (.err _) =>
      (match Codec.generic b with
       | .error .eof => true
       | _ => false)
    | .error _ => false

/-- the last packet decoded is a final one: a receiver that gets this far reads the
    end of the stream through `assertEndOfStream` -/
def lastFinal {β : Type} (fin : β → Bool) (items : List (Option β)) : Bool :=
  match items.getLast? with
  | some (some b) => fin b
  | _ => false

/-- `Codec.split*`'s answer with the tail a receiver will see: behind a final packet
    a truncated object the typed decoder refuses is a clean end (`assertEndOfStream`
    reads generically) -/
def settle {η β : Type} (decH : Codec.Dec η) (decB : η → Option (Codec.Dec β)) (fin : η → β → Bool) (msg : Bytes)
    (c : Except String (HeaderRead η × PStream β)) : Except String (HeaderRead η × PStream β) :=
  match c with
  | .ok (.ok hb h, ps) =>
    if ps.tail = .err .decodeError ∧ lastFinal (fin h) ps.items = true then
      match Codec.readHeader decH msg, decB h with
      | .ok (_, rest), some d =>
        if truncatedStop d (rest.length + 1) rest then .ok (.ok hb h, ⟨ps.items, .eof⟩) else c
      | _, _ => c
    else c
  | _ => c

/-- what `NewDecryptStream`'s reads make of `msg` -/
def readEnc (msg : Bytes) : Except String (HeaderRead EncHeader × PStream EncBlock) :=
  orWire
    (settle Codec.decEncHeader
      (fun h => if Codec.majorOK h.version.major then some (Codec.decEncBlock h.version.major) else none)
      (fun h b => Decrypt.blockFinal h.version b) msg (Codec.splitEnc msg))
    (fun _ => Wire.splitEnc msg)

/-- what `NewSigncryptOpenStream`'s reads make of `msg` -/
def readSigncrypt (msg : Bytes) : Except String (HeaderRead EncHeader × PStream SigncryptBlock) :=
  orWire
    (settle Codec.decEncHeader (fun _ => some Codec.decSigncryptBlock) (fun _ b => b.final) msg (Codec.splitSigncrypt msg))
    (fun _ => Wire.splitSigncrypt msg)

/-- what `NewVerifyStream`'s reads make of `msg` -/
def readSig (msg : Bytes) : Except String (HeaderRead SigHeader × PStream SigBlock) :=
  orWire
    (settle Codec.decSigHeader
      (fun h => if Codec.majorOK h.version.major then some (Codec.decSigBlock h.version.major) else none)
      (fun h b => Sign.blockFinal h.version b) msg (Codec.splitSig msg))
    (fun _ => Wire.splitSig msg)

/-- the detached signature object as `VerifyDetachedReader` sees it.  A clean end
    of input: the code returns the decoder's RAW `io.EOF` here (`return nil, err` —
    no conversion to `io.ErrUnexpectedEOF`, unlike `getNextChunk` of the streaming
    receivers).  `Err` has one constructor for "the input ended" (`unexpectedEOF`),
    which stands for both; the harness's classes `eof` / `unexpected-eof` are not
    among the classes the correspondence compares by name.  Anything else: a
    decode error. -/
def detSig : Codec.DetSig → Sign.SigRead
  | .sig s => .sig s
  | .eof => .none .unexpectedEOF
  | .err => .none .decodeError

/-- `Codec.splitDetached` with the signature object in the receiver's type -/
def codecDetached (sigMsg : Bytes) : Except String (HeaderRead SigHeader × Sign.SigRead) :=
  match Codec.splitDetached sigMsg with
  | .ok (hr, d) => .ok (hr, detSig d)
  | .error w => .error w

/-- what `VerifyDetachedReader`'s reads make of the signature message -/
def readDetached (sigMsg : Bytes) : Except String (HeaderRead SigHeader × Sign.SigRead) :=
  orWire (codecDetached sigMsg) (fun _ => Wire.splitDetached sigMsg)

end Saltpack.Front

namespace Saltpack

/-- `NewDecryptStream(versionValidator, bytes.NewReader(msg), keyring)` read to the end -/
def Decrypt.openBytes (P : Prims) (valid : Validator) (kr : Keyring) (msg : Bytes) : Except String Decrypt.Result :=
  match Front.readEnc msg with
  | .error w => .error w
  | .ok (hr, ps) => .ok (Decrypt.openStream P valid kr hr ps)

/-- `NewSigncryptOpenStream(bytes.NewReader(msg), keyring, resolver)` read to the end -/
def Signcrypt.openBytes (P : Prims) (kr : Keyring) (res : Signcrypt.Resolver) (msg : Bytes) :
    Except String Signcrypt.Result :=
  match Front.readSigncrypt msg with
  | .error w => .error w
  | .ok (hr, ps) => .ok (Signcrypt.openStream P kr res hr ps)

/-- `NewVerifyStream(versionValidator, bytes.NewReader(msg), keyring)` read to the end -/
def Sign.verifyBytes (P : Prims) (valid : Validator) (kr : Keyring) (msg : Bytes) : Except String Sign.Result :=
  match Front.readSig msg with
  | .error w => .error w
  | .ok (hr, ps) => .ok (Sign.verifyStream P valid kr hr ps)

/-- `VerifyDetached(versionValidator, msg, sigMsg, keyring)` -/
def Sign.verifyDetachedBytes (P : Prims) (valid : Validator) (kr : Keyring) (sigMsg msg : Bytes) :
    Except String (Except Err Bytes) :=
  match Front.readDetached sigMsg with
  | .error w => .error w
  | .ok (hr, sr) => .ok (Sign.verifyDetached P valid kr hr sr msg)

end Saltpack
