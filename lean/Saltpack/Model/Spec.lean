/-
  Saltpack.Model.Spec — an independent reference sender written from
  specs/saltpack_{encryption_v1,encryption_v2,signcryption_v2,signing_v1,signing_v2}.md
  only (not from the Go code), generalised over everything the specifications
  leave to the sender or reserve for the future:

    * chunk sizes: any cut of the plaintext into chunks (1 byte … 1 MiB),
    * minor version: any integer,
    * extra trailing list elements in the header, in every recipient pair and
      in every payload packet,
    * (for negative tests) the format name, the mode number and the major
      version *label* can be overridden while everything else stays consistent
      (all MACs / signatures are computed over the header actually sent).

  Used by C09 (every spec-valid message is accepted), C17 (gating: a fully
  consistent message that names another format / version / mode must still be
  refused) and as the input source of the mutation streams.

  Core Lean only.
-/
import Saltpack.Model.Packets
import Saltpack.Model.Encrypt
import Saltpack.Model.Signcrypt

namespace Saltpack.Spec
open Saltpack Msgpack

/-! ### constants, as the specification texts give them (NOT taken from the code) -/
def sFormatName : Bytes := strBytes "saltpack"
def sModeEncryption : Int := 0
def sModeAttached : Int := 1
def sModeDetached : Int := 2
def sModeSigncryption : Int := 3
def sNonceSenderKey : Bytes := strBytes "saltpack_sender_key_sbox"
def sNoncePayloadKeyV1 : Bytes := strBytes "saltpack_payload_key_box"
def sNonceRecip (i : Nat) : Bytes := strBytes "saltpack_recipsb" ++ be64 i
def sNonceChunk (i : Nat) : Bytes := strBytes "saltpack_ploadsb" ++ be64 i
def sNonceDerived : Bytes := strBytes "saltpack_derived_sboxkey"
def sSigAttached : Bytes := strBytes "saltpack attached signature" ++ [0]
def sSigDetached : Bytes := strBytes "saltpack detached signature" ++ [0]
def sSigEncrypted : Bytes := strBytes "saltpack encrypted signature" ++ [0]
def sCtxBoxKeyIdentifier : Bytes := strBytes "saltpack signcryption box key identifier"
def sCtxSymmetricKey : Bytes := strBytes "saltpack signcryption derived symmetric key"
/-- first 16 bytes of the header hash with the lowest bit of the last one set
    to `flag`, then the 64-bit big-endian counter -/
def sHashNonce (headerHash : Bytes) (flag : Bool) (i : Nat) : Bytes :=
  headerHash.take 15 ++ [((headerHash.getD 15 0) &&& 0xfe) ||| (if flag then 1 else 0)] ++ be64 i
def sFinal (f : Bool) : Bytes := [if f then 1 else 0]

structure Opts where
  formatName : Bytes := sFormatName
  majorLabel : Option Int := none       -- default: the layout's major
  minor : Int := 0
  typ : Option Int := none              -- default: the mode's number
  headerExtras : List Val := []
  recvExtras : List Val := []
  packetExtras : List Val := []
  chunkSizes : List Nat := []           -- lengths of the leading chunks; the rest is the last chunk
  /-- for negative tests: an explicit chunk plan (chunks with their final flags),
      overriding the cut of the plaintext — lets a key-holding hostile sender emit
      packets that are cryptographically consistent but violate the chunk rules -/
  explicitPlan : Option (List (Bytes × Bool)) := none
  deriving Inhabited

/-- cut `pt` at the given sizes; what remains is the last chunk (possibly empty
    only if `pt` is empty and no sizes are given) -/
def cut : List Nat → Bytes → List Bytes
  | [], pt => [pt]
  | n :: ns, pt => if pt.length ≤ n ∨ n = 0 then [pt] else pt.take n :: cut ns (pt.drop n)

/-- V2 plan: the chunks, last one final.  V1 plan: the (non-empty) chunks, then
    the empty final chunk. -/
def plan (layout : Nat) (o : Opts) (pt : Bytes) : List (Bytes × Bool) :=
  match o.explicitPlan with
  | some pl => pl
  | none =>
  let cs := cut o.chunkSizes pt
  if layout = 1 then (cs.filter (fun c => !c.isEmpty)).map (·, false) ++ [([], true)]
  else cs.dropLast.map (·, false) ++ [(cs.getLast?.getD [], true)]

def extraVals (k : Nat) : List Val := (List.range k).map (fun i => if i % 2 = 0 then .int 7 else .str [120])

section
variable (P : Prims)

def versionVal (layout : Nat) (o : Opts) : Val := .arr [.int (o.majorLabel.getD layout), .int o.minor]

/-! ### encryption (specs/saltpack_encryption_v{1,2}.md) -/

def encRecipientVal (layout : Nat) (o : Opts) (eph payloadKey : Bytes) (i : Nat) (r : Encrypt.Recipient) : Val :=
  let nonce := if layout = 1 then sNoncePayloadKeyV1 else sNonceRecip i
  .arr ([(if r.hidden then Val.nil else .bin r.pub), .bin (P.box eph r.pub nonce payloadKey)] ++ o.recvExtras)

def encMacKey (layout : Nat) (senderSec eph pub headerHash : Bytes) (i : Nat) : Bytes :=
  if layout = 1 then ((P.box senderSec pub (headerHash.take 24) (zeros 32)).drop 16).take 32
  else
    let n0 := sHashNonce headerHash false i
    let n1 := sHashNonce headerHash true i
    (P.hash (((P.box senderSec pub n0 (zeros 32)).drop 16).take 32 ++ ((P.box eph pub n1 (zeros 32)).drop 16).take 32)).take 32

def encPacket (layout : Nat) (o : Opts) (payloadKey headerHash : Bytes) (macKeys : List Bytes)
    (i : Nat) (chunk : Bytes) (final : Bool) : Bytes :=
  let nonce := sNonceChunk i
  let ct := P.sbSeal payloadKey nonce chunk
  let h := if layout = 1 then P.hash (headerHash ++ nonce ++ ct)
           else P.hash (headerHash ++ nonce ++ sFinal final ++ ct)
  let auths : Val := .arr (macKeys.map (fun k => .bin ((P.hmac k h).take 32)))
  encode (.arr ((if layout = 1 then [auths, .bin ct] else [.bool final, auths, .bin ct]) ++ o.packetExtras))

def encodePlan (layout : Nat) (o : Opts) (sender : Option Bytes) (rs : List Encrypt.Recipient)
    (eph payloadKey : Bytes) (pl : List (Bytes × Bool)) : Bytes :=
  let senderSec := sender.getD eph
  let hdr : Val := .arr ([.str o.formatName, versionVal layout o, .int (o.typ.getD sModeEncryption),
      .bin (P.boxPub eph), .bin (P.sbSeal payloadKey sNonceSenderKey (P.boxPub senderSec)),
      .arr (rs.zipIdx.map (fun (r, i) => encRecipientVal P layout o eph payloadKey i r))] ++ o.headerExtras)
  let hb := Msgpack.encode hdr
  let hh := P.hash hb
  let mks := rs.zipIdx.map (fun (r, i) => encMacKey P layout senderSec eph r.pub hh i)
  encBin hb ++ (pl.zipIdx.flatMap (fun ((c, f), i) => encPacket P layout o payloadKey hh mks i c f))

def encode (layout : Nat) (o : Opts) (sender : Option Bytes) (rs : List Encrypt.Recipient)
    (eph payloadKey pt : Bytes) : Bytes :=
  encodePlan P layout o sender rs eph payloadKey (plan layout o pt)

/-! ### attached / detached signatures (specs/saltpack_signing_v{1,2}.md) -/

def sigHeaderBytes (layout : Nat) (o : Opts) (typ : Int) (signerPub nonce : Bytes) : Bytes :=
  Msgpack.encode (.arr ([.str o.formatName, versionVal layout o, .int (o.typ.getD typ), .bin signerPub, .bin nonce] ++ o.headerExtras))

def attPacket (layout : Nat) (o : Opts) (signer headerHash : Bytes) (i : Nat) (chunk : Bytes) (final : Bool) : Bytes :=
  let hashed := if layout = 1 then P.hash (headerHash ++ be64 i ++ chunk)
                else P.hash (headerHash ++ be64 i ++ sFinal final ++ chunk)
  let sig := P.sign signer (sSigAttached ++ hashed)
  Msgpack.encode (.arr ((if layout = 1 then [.bin sig, .bin chunk] else [.bool final, .bin sig, .bin chunk]) ++ o.packetExtras))

def attachedPlan (layout : Nat) (o : Opts) (signer nonce : Bytes) (pl : List (Bytes × Bool)) : Bytes :=
  let hb := sigHeaderBytes layout o sModeAttached (P.sigPub signer) nonce
  let hh := P.hash hb
  encBin hb ++ (pl.zipIdx.flatMap (fun ((c, f), i) => attPacket P layout o signer hh i c f))

def attached (layout : Nat) (o : Opts) (signer nonce msg : Bytes) : Bytes :=
  attachedPlan P layout o signer nonce (plan layout o msg)

def detached (layout : Nat) (o : Opts) (signer nonce msg : Bytes) : Bytes :=
  let hb := sigHeaderBytes layout o sModeDetached (P.sigPub signer) nonce
  encBin hb ++ encBin (P.sign signer (sSigDetached ++ P.hash (P.hash hb ++ msg)))

/-! ### signcryption (specs/saltpack_signcryption_v2.md) -/

def scRecipientVal (o : Opts) (eph payloadKey : Bytes) (i : Nat) (r : Signcrypt.Recipient) : Val :=
  let nonce := sNonceRecip i
  match r with
  | .box pub =>
    let bx := P.box eph pub sNonceDerived (zeros 32)
    let dk := bx.drop (bx.length - 32)
    .arr ([.bin ((P.hmac sCtxBoxKeyIdentifier (dk ++ nonce)).take 32),
           .bin (P.sbSeal dk nonce payloadKey)] ++ o.recvExtras)
  | .sym key ident =>
    let dk := (P.hmac sCtxSymmetricKey (P.boxPub eph ++ key)).take 32
    .arr ([.bin ident, .bin (P.sbSeal dk nonce payloadKey)] ++ o.recvExtras)

def scPacket (o : Opts) (sender : Option Bytes) (payloadKey headerHash : Bytes) (i : Nat) (chunk : Bytes) (final : Bool) : Bytes :=
  let nonce := sHashNonce headerHash final i
  let sig := match sender with
    | none => zeros 64
    | some s => P.sign s (sSigEncrypted ++ headerHash ++ nonce ++ sFinal final ++ P.hash chunk)
  Msgpack.encode (.arr ([.bin (P.sbSeal payloadKey nonce (sig ++ chunk)), .bool final] ++ o.packetExtras))

def signcryptPlan (o : Opts) (sender : Option Bytes) (rs : List Signcrypt.Recipient) (eph payloadKey : Bytes)
    (pl : List (Bytes × Bool)) : Bytes :=
  let hdr : Val := .arr ([.str o.formatName, versionVal 2 o, .int (o.typ.getD sModeSigncryption), .bin (P.boxPub eph),
      .bin (P.sbSeal payloadKey sNonceSenderKey (match sender with | none => zeros 32 | some s => P.sigPub s)),
      .arr (rs.zipIdx.map (fun (r, i) => scRecipientVal P o eph payloadKey i r))] ++ o.headerExtras)
  let hb := Msgpack.encode hdr
  let hh := P.hash hb
  encBin hb ++ (pl.zipIdx.flatMap (fun ((c, f), i) => scPacket P o sender payloadKey hh i c f))

def signcrypt (o : Opts) (sender : Option Bytes) (rs : List Signcrypt.Recipient) (eph payloadKey pt : Bytes) : Bytes :=
  signcryptPlan P o sender rs eph payloadKey (plan 2 o pt)

/-- the nonce length the signing specifications prescribe for the header -/
def sSigNonceLen : Nat := 32

end
end Saltpack.Spec
