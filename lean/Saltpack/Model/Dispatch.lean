/-
  Saltpack.Model.Dispatch — `ClassifyEncryptedStreamAndMakeDecoder`
  (classify_and_decrypt.go): `bufio.NewReader(source)`, `ClassifyStream`, then the
  decoder of the detected mode over THE SAME bufio reader (so from byte 0 — the
  classification only peeked), and reading that decoder to its end.

  The four direct entry points are given as functions of the bytes the reader
  delivers: the binary ones (`NewDecryptStream`, `NewSigncryptOpenStream`) are the
  packet-level receivers behind `Wire.split…`; the armored ones
  (`NewDearmor62DecryptStream`, `NewDearmor62SigncryptOpenStream`) dearmor with the
  frame checks of an ENCRYPTED MESSAGE (`Armor.open62 (some mtEncryption)`) and
  feed the payload to the same receivers.  For armored input only the
  distinction ok / error and, on success, the result are meant to agree with the
  implementation (see `Armor.openPure`): a streamed armored message that fails
  late may already have released plaintext.

  Core Lean only.
-/
import Saltpack.Model.Bufio
import Saltpack.Model.Wire
import Saltpack.Model.Decrypt
import Saltpack.Model.Signcrypt

namespace Saltpack.Dispatch
open Saltpack Saltpack.Classify

section
variable (P : Prims)

/-- outcome of an entry point read to its end -/
inductive Out where
  | enc (r : Decrypt.Result)                 -- encryption receiver ran (mki only on success)
  | sc (r : Signcrypt.Result)                -- signcryption receiver ran
  | armorFail (e : Err)                      -- the armor layer rejects the text
  | fail (e : Err)                           -- the entry point itself refuses
  | unmodelled (why : String)
  deriving Repr

/-- `NewDecryptStream(CheckKnownMajorVersion, r, keyring)` read to its end, `r` delivering `msg` -/
def decryptStream (kr : Keyring) (msg : Bytes) : Out :=
  match Wire.splitEnc msg with
  | .unmodelled w => .unmodelled w
  | .ok (hr, ps) => .enc (Decrypt.openStream P knownMajor kr hr ps)

/-- `NewSigncryptOpenStream(r, keyring, resolver)` read to its end -/
def signcryptOpenStream (kr : Keyring) (res : Signcrypt.Resolver) (msg : Bytes) : Out :=
  match Wire.splitSigncrypt msg with
  | .unmodelled w => .unmodelled w
  | .ok (hr, ps) => .sc (Signcrypt.openStream P kr res hr ps)

/-- `NewDearmor62DecryptStream(CheckKnownMajorVersion, r, keyring)` read to its end -/
def dearmor62DecryptStream (kr : Keyring) (text : Bytes) : Out :=
  match Armor.open62 (some mtEncryption) text with
  | .error e => .armorFail e
  | .ok o => decryptStream P kr o.payload

/-- `NewDearmor62SigncryptOpenStream(r, keyring, resolver)` read to its end -/
def dearmor62SigncryptOpenStream (kr : Keyring) (res : Signcrypt.Resolver) (text : Bytes) : Out :=
  match Armor.open62 (some mtEncryption) text with
  | .error e => .armorFail e
  | .ok o => signcryptOpenStream P kr res o.payload

/-- what the dispatcher reports: the classification it returns next to the
    decoder (`isArmored`, `msgType`, version) and the decoder's outcome -/
structure Result where
  armored : Bool
  msgType : Int
  version : Version
  out : Out
  deriving Repr

def refuse (e : Err) : Result := ⟨false, Gen.c_sp_MessageTypeUnknown, ⟨0, 0⟩, .fail e⟩

/-- the `switch msgType` of `ClassifyEncryptedStreamAndMakeDecoder`, given the
    verdict of `ClassifyStream` and the bytes `all` the reader delivers from
    byte 0 -/
def build (kr : Keyring) (res : Signcrypt.Resolver) (v : Verdict (Bool × Bytes × Int × Version)) (all : Bytes) : Result :=
  match v with
  | .short => refuse .shortSliceOrBuffer
  | .eof => refuse .notASaltpackMessage
  | .notSaltpack => refuse .notASaltpackMessage
  | .unmodelled w => ⟨false, Gen.c_sp_MessageTypeUnknown, ⟨0, 0⟩, .unmodelled w⟩
  | .ok (arm, _brand, t, ver) =>
    if t = mtEncryption then
      ⟨arm, t, ver, if arm then dearmor62DecryptStream P kr all else decryptStream P kr all⟩
    else if t = mtSigncryption then
      ⟨arm, t, ver, if arm then dearmor62SigncryptOpenStream P kr res all else signcryptOpenStream P kr res all⟩
    else refuse .wrongMessageType

/-- `ClassifyEncryptedStreamAndMakeDecoder` on a source that delivers `all` and
    then a clean EOF (in any fragmentation): `bufio.NewReader` has 4096 bytes -/
def dispatch (kr : Keyring) (res : Signcrypt.Resolver) (all : Bytes) : Result :=
  build P kr res (classifyStream Bufio.defaultBufSize all) all

/-- the same on the bufio machine over a scripted source: classify on
    `bufio.NewReader(source)`, then hand THAT reader to the decoder, which reads
    it to its end (here: drained with reads of `cap` bytes; what the decoder sees
    is what the drain delivers).  A reader error during classification makes the
    dispatcher answer "not a saltpack message". -/
def dispatchM (kr : Keyring) (res : Signcrypt.Resolver) (cap fuel : Nat) (src : Stream.Source) : Result :=
  let (v, s1) := Bufio.classifyStreamM (Bufio.newReader src)
  match v with
  | .fail _ => refuse .notASaltpackMessage
  | .v verdict =>
    let (all, _, _) := Bufio.drain cap fuel s1 []
    build P kr res verdict all

end
end Saltpack.Dispatch
