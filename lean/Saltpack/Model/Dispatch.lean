/-
  Saltpack.Model.Dispatch — `ClassifyEncryptedStreamAndMakeDecoder`
  (classify_and_decrypt.go): `bufio.NewReader(source)`, `ClassifyStream`, then the
  decoder of the detected mode over THE SAME bufio reader (so from byte 0 — the
  classification only peeked), and reading that decoder to its end.

  The decoder reads the reader to its END: it meets every byte the reader still
  delivers and then the reader's FINAL CONDITION (`End`): a clean `io.EOF`, or an
  error of the underlying source.  go-codec's stream reader does not swallow a
  read error (`decReadFull` defers only `io.EOF`), so where the bytes end the
  typed read that would have met `io.EOF` fails with a decode error carrying the
  reader's error (`withEnd`: a clean tail becomes `Tail.err .decodeError`; a tail
  that already is an error — malformed input before the end — stays).  The audit's
  run: a complete 6242-byte message followed by a read error: 6000 bytes
  released, then `msgpack decode error [pos 6242]: boom`.

  The binary decoders (`NewDecryptStream`, `NewSigncryptOpenStream`) are the
  byte-level receivers of `Model/Front.lean`: `Front.readEnc` / `readSigncrypt`
  (what the typed reads make of the bytes) followed by `Decrypt.openStream` /
  `Signcrypt.openStream`; with a clean end they ARE `Decrypt.openBytes` /
  `Signcrypt.openBytes` (`Proofs/Dispatch.lean`).  The armored ones
  (`NewDearmor62DecryptStream`, `NewDearmor62SigncryptOpenStream`) dearmor with
  the frame checks of an ENCRYPTED MESSAGE (`Armor.open62 (some mtEncryption)`)
  and feed the payload to the same receivers.  For armored input only the
  distinction ok / error and, on success, the result are meant to agree with the
  implementation (see `Armor.openPure`): a streamed armored message that fails
  late may already have released plaintext; an armored stream whose source ends
  in an error is an armor-layer failure (the armor decoder reads to the end of
  its source looking for trailing garbage).

  `dispatchM` runs on an arbitrary initial state of the bufio machine:
  `bufio.NewReader(source)` is a fresh 4096-byte reader over `source`
  (`dispatchSrc`) — EXCEPT when `source` already is a `*bufio.Reader` whose
  buffer is at least 4096 bytes: then `NewReader` returns `source` itself, with
  its size (so `Peek(stream.Size())` peeks more), its buffered bytes and its
  stored condition; that case is `dispatchM` on that reader's state.
  (A `*bufio.Reader` with a smaller buffer is wrapped like any `io.Reader`.)

  Core Lean only.
-/
import Saltpack.Model.Bufio
import Saltpack.Model.Front

namespace Saltpack.Dispatch
open Saltpack Saltpack.Classify

section
variable (P : Prims)

/-- outcome of an entry point read to its end -/
inductive Out where
  | enc (r : Decrypt.Result)                 -- encryption receiver ran (mki only on success)
  | sc (r : Signcrypt.Result)                -- signcryption receiver ran
  | armorFail (e : Err)                      -- the armor layer rejects the text
  | fail (e : Err)                           -- the entry point itself refuses
  | unmodelled (why : String)
  deriving Repr

/-- the condition the reader ends with, as a decoder meets it -/
inductive End where
  | eof                                      -- io.EOF
  | err                                      -- an error of the underlying source (or of bufio: ErrNoProgress)
  deriving Repr, DecidableEq

def End.of : Bufio.BErr → End
  | .src .eof => .eof
  | _ => .err

/-- the packet stream the typed reads yield when the bytes are followed by `e`:
    the read that would have met `io.EOF` meets the reader's error instead -/
def withEnd {β : Type} (e : End) (ps : PStream β) : PStream β :=
  match e, ps.tail with
  | .err, .eof => { ps with tail := .err .decodeError }
  | _, _ => ps

/-- a byte-level receiver's answer as an outcome -/
def outEnc : Except String Decrypt.Result → Out
  | .ok r => .enc r
  | .error w => .unmodelled w

def outSc : Except String Signcrypt.Result → Out
  | .ok r => .sc r
  | .error w => .unmodelled w

/-- `NewDecryptStream(CheckKnownMajorVersion, r, keyring)` read to its end, `r`
    delivering `msg` and then `e` -/
def decryptStream (kr : Keyring) (msg : Bytes) (e : End) : Out :=
  match Front.readEnc msg with
  | .error w => .unmodelled w
  | .ok (hr, ps) => .enc (Decrypt.openStream P knownMajor kr hr (withEnd e ps))

/-- `NewSigncryptOpenStream(r, keyring, resolver)` read to its end -/
def signcryptOpenStream (kr : Keyring) (res : Signcrypt.Resolver) (msg : Bytes) (e : End) : Out :=
  match Front.readSigncrypt msg with
  | .error w => .unmodelled w
  | .ok (hr, ps) => .sc (Signcrypt.openStream P kr res hr (withEnd e ps))

/-- `NewDearmor62DecryptStream(CheckKnownMajorVersion, r, keyring)` read to its end -/
def dearmor62DecryptStream (kr : Keyring) (text : Bytes) (e : End) : Out :=
  match e with
  | .err => .armorFail .ioError
  | .eof =>
    match Armor.open62 (some mtEncryption) text with
    | .error er => .armorFail er
    | .ok o => decryptStream P kr o.payload .eof

/-- `NewDearmor62SigncryptOpenStream(r, keyring, resolver)` read to its end -/
def dearmor62SigncryptOpenStream (kr : Keyring) (res : Signcrypt.Resolver) (text : Bytes) (e : End) : Out :=
  match e with
  | .err => .armorFail .ioError
  | .eof =>
    match Armor.open62 (some mtEncryption) text with
    | .error er => .armorFail er
    | .ok o => signcryptOpenStream P kr res o.payload .eof

/-- what the dispatcher reports: the classification it returns next to the
    decoder (`isArmored`, `msgType`, version) and the decoder's outcome -/
structure Result where
  armored : Bool
  msgType : Int
  version : Version
  out : Out
  deriving Repr

def refuse (e : Err) : Result := ⟨false, Gen.c_sp_MessageTypeUnknown, ⟨0, 0⟩, .fail e⟩

/-- the `switch msgType` of `ClassifyEncryptedStreamAndMakeDecoder`, given the
    verdict of `ClassifyStream`, the bytes `all` the reader delivers from byte 0
    and the condition `e` it ends with -/
def build (kr : Keyring) (res : Signcrypt.Resolver) (v : Verdict (Bool × Bytes × Int × Version)) (all : Bytes)
    (e : End) : Result :=
  match v with
  | .short => refuse .shortSliceOrBuffer
  | .eof => refuse .notASaltpackMessage
  | .notSaltpack => refuse .notASaltpackMessage
  | .unmodelled w => ⟨false, Gen.c_sp_MessageTypeUnknown, ⟨0, 0⟩, .unmodelled w⟩
  | .ok (arm, _brand, t, ver) =>
    if t = mtEncryption then
      ⟨arm, t, ver, if arm then dearmor62DecryptStream P kr all e else decryptStream P kr all e⟩
    else if t = mtSigncryption then
      ⟨arm, t, ver, if arm then dearmor62SigncryptOpenStream P kr res all e else signcryptOpenStream P kr res all e⟩
    else refuse .wrongMessageType

/-- the dispatcher as a function of what the reader delivers: the bytes `all`
    and the final condition `e`, classified through a buffer of `size` bytes -/
def dispatchEnd (kr : Keyring) (res : Signcrypt.Resolver) (size : Nat) (all : Bytes) (e : End) : Result :=
  build P kr res (classifyStream size all) all e

/-- `ClassifyEncryptedStreamAndMakeDecoder` on a source that delivers `all` and
    then a clean EOF (in any fragmentation): `bufio.NewReader` has 4096 bytes -/
def dispatch (kr : Keyring) (res : Signcrypt.Resolver) (all : Bytes) : Result :=
  dispatchEnd P kr res Bufio.defaultBufSize all .eof

/-- the dispatcher on the bufio machine in state `s0` (= the `stream` of the Go
    code): classify, then hand THAT reader to the decoder, which reads it to its
    end — every byte the drain delivers (reads of `cap` bytes) and the condition
    it ends with.  A reader error during classification makes the dispatcher
    answer "not a saltpack message". -/
def dispatchM (kr : Keyring) (res : Signcrypt.Resolver) (cap fuel : Nat) (s0 : Bufio.BState) : Result :=
  let (v, s1) := Bufio.classifyStreamM s0
  match v with
  | .fail _ => refuse .notASaltpackMessage
  | .v verdict =>
    let (all, fin, _) := Bufio.drain cap fuel s1 []
    match fin with
    | none => ⟨false, Gen.c_sp_MessageTypeUnknown, ⟨0, 0⟩, .unmodelled "drain: out of fuel"⟩
    | some c => build P kr res verdict all (End.of c)

/-- `ClassifyEncryptedStreamAndMakeDecoder(source, …)` for a `source` that is not
    itself a large-enough `*bufio.Reader`: `bufio.NewReader(source)` -/
def dispatchSrc (kr : Keyring) (res : Signcrypt.Resolver) (cap fuel : Nat) (src : Stream.Source) : Result :=
  dispatchM P kr res cap fuel (Bufio.newReader src)

end
end Saltpack.Dispatch
