/-
  Saltpack.Model.Armored — the ARMORED one-shot entry points as compositions,
  with the choice of the frame type INSIDE the model (audit finding 8: it used to
  sit in the driver and the theorem statements only):

    armor62_encrypt.go    EncryptArmor62Seal     NewArmor62EncoderStream(…, MessageTypeEncryption, brand)
    armor62_signcrypt.go  SigncryptArmor62Seal   NewArmor62EncoderStream(…, MessageTypeEncryption, brand)
                          ("Note: same BEGIN SALTPACK ENCRYPTED visible message type";
                           armor62SigncryptionHeaderChecker = armor62EncryptionHeaderChecker)
    armor62_sign.go       SignArmor62            MessageTypeAttachedSignature
                          SignDetachedArmor62    MessageTypeDetachedSignature
    armor62_signcrypt.go  Dearmor62SigncryptOpen   frames of an ENCRYPTED MESSAGE, then SigncryptOpen
    armor62_verify.go     Dearmor62VerifyDetached  frames of a DETACHED SIGNATURE, then VerifyDetached

  The senders never validate the brand (a brand that is not `[0-9A-Za-z]*` of at
  most 128 bytes gives a text no `Dearmor62…` accepts; the round-trip theorems
  assume `BrandOK`).  The openers are whole-text functions (`Armor.open62`): only
  ok-versus-error and the successful result are meant to agree with the
  streaming implementation, as for `Dispatch.dearmor62…Stream` (which make the
  same frame choice for the streaming composites).

  Core Lean only.
-/
import Saltpack.Model.Armor
import Saltpack.Model.Wire
import Saltpack.Model.Decrypt
import Saltpack.Model.Signcrypt

namespace Saltpack

/-- `NewArmor62EncoderStream(…, MessageTypeEncryption, …)` in armor62_encrypt.go -/
def Encrypt.armorType : Int := mtEncryption
/-- …and in armor62_signcrypt.go: signcryption has no frame type of its own -/
def Signcrypt.armorType : Int := mtEncryption
def Sign.attachedArmorType : Int := mtAttached
def Sign.detachedArmorType : Int := mtDetached

def armorResult (typ : Int) (brand : Bytes) : Except Err Bytes → Except Err Bytes
  | .ok m => .ok (Armor.seal62 typ brand m)
  | .error e => .error e

section
variable (P : Prims)

/-- `EncryptArmor62Seal` with the randomness resolved -/
def Encrypt.sealArmor62 (bs : Nat) (v : Version) (sender : Option Bytes) (rs : List Encrypt.Recipient)
    (eph payloadKey pt brand : Bytes) : Except Err Bytes :=
  armorResult Encrypt.armorType brand (Encrypt.sealWith P bs v sender rs eph payloadKey pt)

/-- `SigncryptArmor62Seal` with the randomness resolved -/
def Signcrypt.sealArmor62 (bs : Nat) (sender : Option Bytes) (rs : List Signcrypt.Recipient)
    (eph payloadKey pt brand : Bytes) : Except Err Bytes :=
  armorResult Signcrypt.armorType brand (Signcrypt.sealWith P bs sender rs eph payloadKey pt)

/-- `SigncryptArmor62Seal` over the randomness source (order of reads as `SigncryptSeal`) -/
def Signcrypt.sealArmor62Rand (bs : Nat) (sender : Option Bytes) (boxes syms : List Signcrypt.Recipient)
    (eph : Encrypt.EphSource) (src : Rand.Source) (pt brand : Bytes) : Except Err (Bytes × Rand.Source) :=
  match Signcrypt.sealRand P bs sender boxes syms eph src pt with
  | .error e => .error e
  | .ok (m, rest) => .ok (Armor.seal62 Signcrypt.armorType brand m, rest)

/-- `SignArmor62` given the header nonce -/
def Sign.attachedArmor62 (bs : Nat) (v : Version) (signer nonce msg brand : Bytes) : Except Err Bytes :=
  armorResult Sign.attachedArmorType brand (Sign.attachedWith P bs v signer nonce msg)

/-- `SignDetachedArmor62` given the header nonce -/
def Sign.detachedArmor62 (v : Version) (signer nonce msg brand : Bytes) : Except Err Bytes :=
  armorResult Sign.detachedArmorType brand (Sign.detachedWith P v signer nonce msg)

/-- `Dearmor62SigncryptOpen`: sender key, plaintext, brand -/
def Signcrypt.dearmor62Open (kr : Keyring) (res : Signcrypt.Resolver) (text : Bytes) :
    Wire.Front (Except Err (Option Bytes × Bytes × Bytes)) :=
  match Armor.open62 (some Signcrypt.armorType) text with
  | .error e => .ok (.error e)
  | .ok o =>
    match Wire.splitSigncrypt o.payload with
    | .unmodelled w => .unmodelled w
    | .ok (hr, ps) =>
      match Signcrypt.openAll P kr res hr ps with
      | .error e => .ok (.error e)
      | .ok (s, pt) => .ok (.ok (s, pt, o.brand))

/-- `Dearmor62VerifyDetached`: signer key, brand -/
def Sign.dearmor62VerifyDetached (valid : Validator) (kr : Keyring) (text msg : Bytes) :
    Wire.Front (Except Err (Bytes × Bytes)) :=
  match Armor.open62 (some Sign.detachedArmorType) text with
  | .error e => .ok (.error e)
  | .ok o =>
    match Wire.splitDetached o.payload with
    | .unmodelled w => .unmodelled w
    | .ok (hr, sr) =>
      match Sign.verifyDetached P valid kr hr sr msg with
      | .error e => .ok (.error e)
      | .ok k => .ok (.ok (k, o.brand))

end
end Saltpack
