/-
  `armorEncoderStream` (armor.go: `Write`, `spaceAndOutputBuffer`, `Close`,
  `newArmorEncoderStream`) as a per-call state machine over an underlying writer
  that never fails.  Executable: the driver op `st.aw` runs it call by call and
  the correspondence compares what has reached the underlying writer after
  EVERY call with `NewArmor62EncoderStream` (stream `frag.armorwriter`).
  Theorems: Proofs/ArmorWriter.lean.
-/
import Saltpack.Model.Stream
import Saltpack.Model.Armor

namespace Saltpack.Stream
open Saltpack

/-- `armorEncoderStream`.

    `enc` is the BaseX encoder (`s.encoder`); its underlying writer is the
    `bytes.Buffer` `s.buf`, which never fails: `enc.sink = []`.  The model of the
    encoder records everything it has ever handed to its underlying writer in
    `enc.written` (never reset), so `enc.written.flatten` is everything that was
    ever appended to the `bytes.Buffer`; `buf` is the unread part of that
    buffer (what `spaceAndOutputBuffer` has not yet taken with `Next`).  An
    encoder call therefore appends to `buf` exactly the characters by which
    `enc.written.flatten` has grown (`ArmState.feed`). -/
structure ArmState where
  par : Armor.Params
  enc : EncState
  buf : Bytes
  nWords : Nat
  ftr : Bytes
  out : Bytes

/-- `newArmorEncoderStream`: a fresh encoder over an empty buffer; `header + ". "`
    is written to `encoded` -/
def ArmState.init (par : Armor.Params) (hdr ftr : Bytes) : ArmState :=
  { par := par, enc := { enc := par.enc }, buf := [], nWords := 0, ftr := ftr,
    out := hdr ++ [Armor.period, Armor.space] }

/-- `spaceAndOutputBuffer`: `for s.buf.Len() > BytesPerWord { buf := s.buf.Next(BytesPerWord);
    s.nWords++; sep := ' ' or '\n' if s.nWords % WordsPerLine == 0; write buf; write sep }`.
    Fuel = number of iterations allowed (`buf.length + 1` always suffices when
    `0 < bytesPerWord`). -/
def ArmState.spaceOut : (fuel : Nat) → ArmState → ArmState
  | 0, s => s
  | fuel + 1, s =>
    if s.buf.length > s.par.bytesPerWord then
      let word := s.buf.take s.par.bytesPerWord
      let n := s.nWords + 1
      let sep := if n % s.par.wordsPerLine = 0 then Armor.newline else Armor.space
      ArmState.spaceOut fuel
        { s with buf := s.buf.drop s.par.bytesPerWord, nWords := n, out := s.out ++ word ++ [sep] }
    else s

/-- the effect of an encoder call that leaves the encoder in state `e'`: what
    the encoder has handed to its underlying writer during the call (the growth
    of `written.flatten`) is appended to the `bytes.Buffer` -/
def ArmState.feed (s : ArmState) (e' : EncState) : ArmState :=
  { s with enc := e', buf := s.buf ++ e'.written.flatten.drop s.enc.written.flatten.length }

/-- `Write(b)`: `s.encoder.Write(b)`, then `s.spaceAndOutputBuffer()` -/
def ArmState.write (s : ArmState) (b : Bytes) : ArmState :=
  let s1 := s.feed (s.enc.write b).2.2
  ArmState.spaceOut (s1.buf.length + 1) s1

/-- `Close()`: `s.encoder.Close()`, `s.spaceAndOutputBuffer()`, `lst := s.buf.Bytes()`
    is written, `s.nWords++`, `pad` is `" "`/`"\n"` exactly when `len(lst) == BytesPerWord`,
    then `pad + ". " + footer + ".\n"` -/
def ArmState.close (s : ArmState) : ArmState :=
  let s1 := s.feed s.enc.close.2
  let s2 := ArmState.spaceOut (s1.buf.length + 1) s1
  let lst := s2.buf
  let n := s2.nWords + 1
  let pad : Bytes :=
    if lst.length = s2.par.bytesPerWord then
      (if n % s2.par.wordsPerLine = 0 then [Armor.newline] else [Armor.space])
    else []
  { s2 with nWords := n,
            out := s2.out ++ lst ++ pad ++ [Armor.period, Armor.space] ++ s2.ftr ++ [Armor.period, Armor.newline] }


/-- `NewArmor62EncoderStream(w, typ, brand)` -/
def ArmState.init62 (typ : Int) (brand : Bytes) : ArmState :=
  ArmState.init Armor.params62 (Armor.header typ brand) (Armor.footer typ brand)

end Saltpack.Stream
