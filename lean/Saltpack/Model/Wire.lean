/-
  Saltpack.Model.Wire — from message *bytes* to what a receiver's MessagePack
  stream yields (msgpack.go: `newMsgpackStream`, `Read`, `decodeFromBytes`),
  for the shapes the model claims to know (Packets.lean typed views).  Anything
  else is answered `unmodelled`; the correspondence then obtains the decoded
  packets from the package's own decoder instead.

  go-codec facts mirrored here (validated by the correspondence):
  * a stream that ends inside an object yields `io.EOF` (not unexpected-EOF);
  * `0xc1` yields a decode error;
  * `[]byte` accepts bin, str, nil; other scalars are a decode error;
  * a struct / block accepts only containers (array modelled; map/nil unmodelled).

  Core Lean only.
-/
import Saltpack.Model.Packets
import Saltpack.Model.Sign

namespace Saltpack.Wire
open Saltpack Msgpack

inductive Front (α : Type) where
  | ok (a : α)
  | unmodelled (why : String)
  deriving Repr

/-- first object read into a `[]byte`: `some bytes`, or `none` = any error
    (`ErrFailedToReadHeaderBytes`) -/
def readBytesObj (b : Bytes) : Front (Except Err Bytes × Bytes) :=
  match parse1 b with
  | .error .trunc => .ok (.error .unexpectedEOF, [])      -- io.EOF from the decoder
  | .error .invalid => .ok (.error .decodeError, [])
  | .ok (v, rest) =>
    match v with
    | .bin x => .ok (.ok x, rest)
    | .str x => .ok (.ok x, rest)
    | .nil => .ok (.ok [], rest)
    | .arr _ => .unmodelled "array decoded into []byte"
    | _ => .ok (.error .decodeError, rest)

def isContainer : Val → Bool
  | .arr _ => true
  | .map _ => true
  | .nil => true
  | _ => false

/-- `decodeFromBytes(&header, headerBytes)` through a typed view -/
def decodeHeader {η : Type} (view : Val → Option η) (hb : Bytes) : Front (HeaderRead η) :=
  match parse1 hb with
  | .error _ => .ok (.undecodable hb)
  | .ok (v, _) =>
    match view v with
    | some h => .ok (.ok hb h)
    | none => if isContainer v then .unmodelled "header shape" else .ok (.undecodable hb)

def items {β : Type} (view : Val → Option β) : List Val → Front (List (Option β))
  | [] => .ok []
  | v :: vs =>
    match items view vs with
    | .unmodelled w => .unmodelled w
    | .ok rest =>
      match view v with
      | some b => .ok (some b :: rest)
      | none => if isContainer v then .unmodelled "block shape" else .ok (none :: rest)

def tailOf : Option PErr → Tail
  | none => .eof
  | some .trunc => .eof                 -- go-codec: io.EOF
  | some .invalid => .err .decodeError

/-- an encryption / signcryption / attached-signature message split into header
    read and packet stream. `viewB` gets the header (to know the version). -/
def split {η β : Type} (viewH : Val → Option η) (viewB : η → Val → Option β) (msg : Bytes) :
    Front (HeaderRead η × PStream β) :=
  match readBytesObj msg with
  | .unmodelled w => .unmodelled w
  | .ok (.error _, _) => .ok (.unreadable, ⟨[], .eof⟩)
  | .ok (.ok hb, rest) =>
    match decodeHeader viewH hb with
    | .unmodelled w => .unmodelled w
    | .ok (.ok hb h) =>
      let (vals, stop) := parseAll (rest.length + 1) rest
      match items (viewB h) vals with
      | .unmodelled w => .unmodelled w
      | .ok its => .ok (.ok hb h, ⟨its, tailOf stop⟩)
    | .ok hr => .ok (hr, ⟨[], .eof⟩)

def splitEnc (msg : Bytes) : Front (HeaderRead EncHeader × PStream EncBlock) :=
  split viewEncHeader (fun h => viewEncBlock h.version.major) msg

def splitSigncrypt (msg : Bytes) : Front (HeaderRead EncHeader × PStream SigncryptBlock) :=
  split viewEncHeader (fun _ => viewSigncryptBlock) msg

def splitSig (msg : Bytes) : Front (HeaderRead SigHeader × PStream SigBlock) :=
  split viewSigHeader (fun h => viewSigBlock h.version.major) msg

/-- a detached signature: header read and the signature object -/
def splitDetached (sigMsg : Bytes) : Front (HeaderRead SigHeader × Sign.SigRead) :=
  match readBytesObj sigMsg with
  | .unmodelled w => .unmodelled w
  | .ok (.error _, _) => .ok (.unreadable, .none .unexpectedEOF)
  | .ok (.ok hb, rest) =>
    match decodeHeader viewSigHeader hb with
    | .unmodelled w => .unmodelled w
    | .ok hr =>
      match readBytesObj rest with
      | .unmodelled w => .unmodelled w
      | .ok (.error e, _) => .ok (hr, .none e)
      | .ok (.ok s, _) => .ok (hr, .sig s)

end Saltpack.Wire
