/-
  Saltpack.Model.Rand — model of /repo/rand.go: `csprngReadFull`, `csprngUint32`,
  `csprngUint32n` (Lemire multiply-shift with rejection) and `csprngShuffle`
  (Fisher–Yates), plus the process randomness source as a script of reads.

  Core Lean only.
-/
import Saltpack.Model.Bytes

namespace Saltpack.Rand

/-- One step of `csprngUint32n` on a source value `v < 2^32`: `some r` if the
    value is accepted (result `r`), `none` if it is rejected and the loop draws
    again.  Mirrors the Go code literally:
    `prod := uint64(v)*uint64(n); low := uint32(prod);
     if low < n { thresh := -n % n; for low < thresh { redraw } }; return prod>>32`. -/
def u32nStep (n v : Nat) : Option Nat :=
  let prod := v * n
  let low := prod % 2 ^ 32
  if low < n then
    let thresh := (2 ^ 32 - n) % n          -- uint32(-n) % n
    if low < thresh then none else some (prod / 2 ^ 32)
  else some (prod / 2 ^ 32)

/-- `csprngUint32n` over a list of successive source values; `none` when the
    source runs dry (the Go code returns the source's error). Also returns the
    unread rest. -/
def u32n (n : Nat) : List Nat → Option (Nat × List Nat)
  | [] => none
  | v :: vs =>
    match u32nStep n v with
    | some r => some (r, vs)
    | none => u32n n vs

/-- `swap(i, j)` on a list (the closure passed by `shuffleEncryptReceivers`) -/
def swap {α : Type} (l : List α) (i j : Nat) : List α :=
  match l[i]?, l[j]? with
  | some a, some b => (l.set i b).set j a
  | _, _ => l

/-- the loop of `csprngShuffle` given the draws: `i` runs `k, k-1, …, 1`;
    `js` holds the draw for each `i` in that order (`j ≤ i`). -/
def shuffleLoop {α : Type} : (k : Nat) → List Nat → List α → List α
  | 0, _, l => l
  | _ + 1, [], l => l
  | k + 1, j :: js, l => shuffleLoop k js (swap l (k + 1) j)

/-- Fisher–Yates on `l` with draw vector `js` (length `l.length - 1`) -/
def shuffle {α : Type} (js : List Nat) (l : List α) : List α :=
  shuffleLoop (l.length - 1) js l

/-- a legal draw vector for `k+1` items: `k` draws, the first `≤ k`, the next
    `≤ k-1`, … the last `≤ 1`. -/
def ValidDraws : (k : Nat) → List Nat → Prop
  | 0, js => js = []
  | k + 1, [] => False
  | k + 1, j :: js => j ≤ k + 1 ∧ ValidDraws k js

/-- `csprngShuffle` driven by source values: returns the draw vector it used and
    the rest of the source; `none` if the source runs dry. -/
def drawsFrom : (k : Nat) → List Nat → Option (List Nat × List Nat)
  | 0, vs => some ([], vs)
  | k + 1, vs =>
    match u32n (k + 2) vs with
    | none => none
    | some (j, vs') =>
      match drawsFrom k vs' with
      | none => none
      | some (js, rest) => some (j :: js, rest)

/-! ### the process randomness source -/

/-- result of one `Read` on `crypto/rand.Reader`: bytes delivered and an
    optional error (`true` = error). -/
structure RRead where
  data : Bytes
  err : Bool
  deriving Repr, DecidableEq

abbrev Source := List RRead

/-- `io.ReadFull(src, buf[0:n])` + the length check of `csprngReadFull`:
    keep reading until `n` bytes or an error; a short read is an error.
    (`io.ReadFull` asks for the *remaining* count each time, so a read never
    delivers more than asked; the script's reads are truncated accordingly —
    the harness source never over-delivers.)  Fuel: list length. -/
def readFull : (n : Nat) → Source → Option (Bytes × Source)
  | 0, src => some ([], src)
  | _ + 1, [] => none
  | n + 1, r :: src =>
    let got := r.data.take (n + 1)
    if got.length = n + 1 then some (got, src)
    else if r.err then none
    else if got.isEmpty then none        -- (0, nil) reads: the harness never scripts them
    else match readFull (n + 1 - got.length) src with
      | none => none
      | some (more, rest) => some (got ++ more, rest)

end Saltpack.Rand
