/-
  Saltpack.Model.Classify — classify_and_decrypt.go: `IsSaltpackBinarySlice`,
  `IsSaltpackArmoredPrefix` (its three regular expressions re-implemented as
  recognisers), and `ClassifyStream` as a function of what `bufio.Peek` shows.
  The three fields the binary classifier decodes through go-codec are read with
  the typed decoders of `Model/Codec.lean` (not with the generic parser of
  `Msgpack.lean`, which rejected what go-codec accepts: a format name written as
  an array of small ints, a version in map form, a nil mode …).
  Core Lean only.
-/
import Saltpack.Model.Armor
import Saltpack.Model.Msgpack
import Saltpack.Model.Packets
import Saltpack.Model.Codec

namespace Saltpack.Classify
open Saltpack Msgpack

inductive Verdict (α : Type) where
  | ok (a : α)
  | short                -- ErrShortSliceOrBuffer
  | eof                  -- the stream ended before the classifier had its bytes (io.EOF)
  | notSaltpack          -- ErrNotASaltpackMessage
  | unmodelled (why : String)
  deriving Repr, DecidableEq

def minLen : Nat := Gen.c_sp_minLengthToIdentifyBinarySaltpack.toNat

def isMode (t : Int) : Bool := t == mtEncryption || t == mtSigncryption || t == mtAttached || t == mtDetached

/-! ### the binary classifier

`IsSaltpackBinarySlice` skips the bin tag and the array tag by hand and then makes
three go-codec calls on the rest, `Decode(&formatName)` (a `string`),
`Decode(&version)` (the `toarray` struct `Version`), `Decode(&msgType)`
(`MessageType`, an `int`).  They are go-codec's TYPED decoders, mirrored in
`Model/Codec.lean` (`MustDecode`: nil leaves the zero value; `DecodeString` =
`DecodeBytes`: bin, str, or an ARRAY of unsigned ints ≤ 255; `kStruct`: array with
missing fields zero and surplus elements swallowed, or a map keyed by the codec
names; `DecodeInt64`: every integer family, `uint64 → int64` wraps).  Any decode
error is "not a saltpack message". -/

/-- `decoder.Decode(&formatName)` -/
def decName : Codec.Dec Bytes := Codec.decBytesTop

/-- `decoder.Decode(&version)` (`version` is the zero `Version` before) -/
def decVersionTop : Codec.Dec Version := Codec.topStruct (fun _ _ => Codec.versionFields) ⟨0, 0⟩

/-- `decoder.Decode(&msgType)` (reflection `kInt`: `DecodeInt64`, 64 bits) -/
def decMode : Codec.Dec Int := do
  if (← Codec.tryNil) then pure 0 else Codec.decodeInt64

/-- a decode step of the classifier: any go-codec error is "not saltpack" -/
def step {α : Type} (why : String) (r : Except Codec.DErr (α × Bytes)) (k : α → Bytes → Verdict (Int × Version)) :
    Verdict (Int × Version) :=
  match r with
  | .ok (a, rest) => k a rest
  | .error (.unmodelled _) => .unmodelled why      -- `Codec` does not claim to know (reason: see `Codec`)
  | .error _ => .notSaltpack

/-- what `IsSaltpackBinarySlice` makes of the bytes after the two tags -/
def binBody (rest : Bytes) : Verdict (Int × Version) :=
  step "format name shape" (decName rest) fun fn r1 =>
    if fn != Gen.c_sp_FormatName then .notSaltpack
    else step "version shape" (decVersionTop r1) fun ver r2 =>
      step "message type shape" (decMode r2) fun t _ =>
        if isMode t then .ok (t, ver) else .notSaltpack

/-- `IsSaltpackBinarySlice` -/
def binarySlice (b : Bytes) : Verdict (Int × Version) :=
  if b.length < minLen then .short
  else
    let t0 := (b.getD 0 0).toNat
    let skip? : Option Nat := if t0 = 0xc4 then some 2 else if t0 = 0xc5 then some 3 else if t0 = 0xc6 then some 5 else none
    match skip? with
    | none => .notSaltpack
    | some skip =>
      let a := (b.getD skip 0).toNat
      let askip? : Option Nat := if 0x93 ≤ a ∧ a ≤ 0x9f then some 1 else if a = 0xdc then some 3 else if a = 0xdd then some 5 else none
      match askip? with
      | none => .notSaltpack
      | some askip => binBody (b.drop (skip + askip))

/-! ### the armored prefix classifier -/

def isAlnum (c : UInt8) : Bool := (48 ≤ c && c ≤ 57) || (65 ≤ c && c ≤ 90) || (97 ≤ c && c ≤ 122)

def stripPrefix? (p b : Bytes) : Option Bytes := if p.isPrefixOf b then some (b.drop p.length) else none

/-- `SALTPACK (ENCRYPTED MESSAGE|SIGNED MESSAGE|DETACHED SIGNATURE) ?\.([a-zA-Z0-9 ]*)`
    at the front of `b`: (armor type string, captured payload prefix) -/
def matchTail (b : Bytes) : Option (Bytes × Bytes) :=
  match stripPrefix? (Armor.upper Gen.c_sp_FormatName ++ [Armor.space]) b with
  | none => none
  | some r =>
    let tryType (t : Bytes) : Option (Bytes × Bytes) :=
      match stripPrefix? t r with
      | none => none
      | some r1 =>
        let r2 := match r1 with | c :: cs => if c == Armor.space then cs else r1 | [] => r1
        -- ` ?\.`: with the optional space, or without it
        let afterDot : Option Bytes :=
          match r2 with
          | c :: cs => if c == Armor.period then some cs else
              (match r1 with | c1 :: cs1 => if c1 == Armor.period then some cs1 else none | [] => none)
          | [] => none
        afterDot.map (fun x => (t, x.takeWhile (fun c => isAlnum c || c == Armor.space)))
    match tryType Gen.c_sp_EncryptionArmorString with
    | some x => some x
    | none => match tryType Gen.c_sp_SignedArmorString with
      | some x => some x
      | none => tryType Gen.c_sp_DetachedSignatureArmorString

/-- the header regular expression: (brand, type string, payload prefix) -/
def matchHeader (s : Bytes) : Option (Bytes × Bytes × Bytes) :=
  match stripPrefix? (Gen.c_sp_headerMarker ++ [Armor.space]) s with
  | none => none
  | some r =>
    let brand := r.takeWhile isAlnum
    let afterBrand := r.drop brand.length
    let withBrand : Option (Bytes × Bytes × Bytes) :=
      if brand.isEmpty then none
      else match afterBrand with
        | c :: cs => if c == Armor.space then (matchTail cs).map (fun (t, p) => (brand, t, p)) else none
        | [] => none
    match withBrand with
    | some x => some x
    | none => (matchTail r).map (fun (t, p) => ([], t, p))

/-- `^([a-zA-Z0-9]+ ?){0,5}$` -/
def fewWords (s : Bytes) : Bool :=
  let ws := Armor.splitSp s
  s.isEmpty ||
    (s.all (fun c => isAlnum c || c == Armor.space) &&
     -- single spaces only, no leading space; one trailing space allowed
     (ws.dropLast.all (fun w => !w.isEmpty)) &&
     ((if (ws.getLast?.getD []).isEmpty then ws.length - 1 else ws.length) ≤ 5))

def isPrefixB (a b : Bytes) : Bool := a.isPrefixOf b     -- strings.HasPrefix(b, a)

def typeOfArmorString (t : Bytes) : Int :=
  if t == Gen.c_sp_EncryptionArmorString then mtEncryption
  else if t == Gen.c_sp_SignedArmorString then mtAttached
  else mtDetached

/-- `IsSaltpackArmoredPrefix` -/
def armoredPrefix (pref : Bytes) : Verdict (Bytes × Int × Version) :=
  let s := Armor.trimSpace (Armor.collapse pref)
  match matchHeader s with
  | none =>
    if !fewWords s then .notSaltpack
    else
      let strs := Armor.splitSp s
      let begin_ := Gen.c_sp_headerMarker
      if strs.length = 1 then (if isPrefixB (strs.headD []) begin_ then .short else .notSaltpack)
      else if strs.length = 2 then (if strs.headD [] == begin_ then .short else .notSaltpack)
      else if strs.length ≤ 5 then
        let hwb := Armor.intercalateSp (strs.headD [] :: strs.drop 2)
        let hp := begin_ ++ [Armor.space] ++ Armor.upper Gen.c_sp_FormatName
        let e := hp ++ [Armor.space] ++ Gen.c_sp_EncryptionArmorString
        let g := hp ++ [Armor.space] ++ Gen.c_sp_SignedArmorString
        let d := hp ++ [Armor.space] ++ Gen.c_sp_DetachedSignatureArmorString
        if isPrefixB hwb e || isPrefixB hwb g || isPrefixB hwb d || isPrefixB s e || isPrefixB s g || isPrefixB s d
        then .short else .notSaltpack
      else .unmodelled "logic error in ClassifyStream"
  | some (brand, typStr, payload) =>
    -- DecodeString with the skipping base62 encoding: decoded bytes before the first bad block
    let chars := payload.filter (· != Armor.space)
    let (dec, _derr) := Basex.decodePrefix Gen.base62Std (chars.length + 1) chars
    if dec.length < 32 then
      -- `err == ErrInvalidEncodingLength || err == nil`: the payload characters are
      -- all in the alphabet, so the only possible error is the length error
      .short
    else
      match binarySlice dec with
      | .short => .short
      | .eof => .eof
      | .notSaltpack => .notSaltpack
      | .unmodelled w => .unmodelled w
      | .ok (t, ver) =>
        let aty := typeOfArmorString typStr
        if ((t == mtSigncryption || t == mtEncryption) && aty != mtEncryption) ||
           (t == mtAttached && aty != mtAttached) || (t == mtDetached && aty != mtDetached)
        then .notSaltpack else .ok (brand, t, ver)

/-- `ClassifyStream` as a function of the bytes `Peek(size)` shows (`peeked`,
    all of the stream if it is shorter than the buffer) -/
def classifyStream (size : Nat) (all : Bytes) : Verdict (Bool × Bytes × Int × Version) :=
  let peeked := all.take size
  let arm : Verdict (Bytes × Int × Version) := if peeked.isEmpty then .notSaltpack else armoredPrefix peeked
  match arm with
  | .ok (b, t, v) => .ok (true, b, t, v)
  | .short => .short
  | .eof => .eof
  | .unmodelled w => .unmodelled w
  | .notSaltpack =>
    if size < minLen then .short                     -- Peek(23): bufio.ErrBufferFull
    else if all.length < minLen then .eof            -- Peek(23) fails with EOF: that error is returned
    else match binarySlice (all.take minLen) with
      | .ok (t, v) => .ok (false, [], t, v)
      | .short => .short
      | .eof => .eof
      | .notSaltpack => .notSaltpack
      | .unmodelled w => .unmodelled w

end Saltpack.Classify
