/-
  Saltpack.Toy — a tiny *lawful* instance of `Prims` ("encryption" = a tag
  derived from key and nonce followed by the plaintext, "DH" = xor of public
  keys, …).  It has no security whatsoever; it exists so that every theorem with
  a `Prims.Lawful` hypothesis is demonstrably non-vacuous and so that the
  kernel can evaluate small end-to-end examples.
-/
import Saltpack.Model.Core

namespace Saltpack.Toy

def pad (n : Nat) (b : Bytes) : Bytes := (b ++ zeros n).take n

def tag (k n : Bytes) : Bytes := pad 16 (k.zipWith (· + ·) (pad k.length n))

def prims : Prims where
  hash m := pad 64 m
  hmac k m := pad 64 (k ++ m)
  sbSeal k n m := tag k n ++ m
  sbOpen k n c := if c.length ≥ 16 ∧ c.take 16 = tag k n then some (c.drop 16) else none
  boxPub s := pad 32 s
  precompute s p := (pad 32 s).zipWith (· ^^^ ·) (pad 32 p)
  sigPub s := pad 32 s
  sign s m := pad 64 (pad 32 s ++ m)
  verify p m sg := sg == pad 64 (p ++ m)

theorem pad_length (n : Nat) (b : Bytes) : (pad n b).length = n := by
  simp [pad, zeros]

theorem pad_pad (n : Nat) (b : Bytes) : pad n (pad n b) = pad n b := by
  have h := pad_length n b
  unfold pad at *
  rw [List.take_append_of_le_length (by omega)]
  rw [List.take_of_length_le (by omega)]

theorem tag_length (k n : Bytes) : (tag k n).length = 16 := pad_length _ _

theorem lawful : prims.Lawful where
  sb_open_seal k n m := by
    simp only [prims]
    have h := tag_length k n
    rw [if_pos]
    · simp [List.drop_append_of_le_length, h]
    · constructor
      · simp; omega
      · rw [List.take_append_of_le_length (by omega), List.take_of_length_le (by omega)]
  sb_len k n m := by simp [prims, tag_length]; omega
  sb_open_len k n c m h := by
    simp only [prims] at h
    split at h
    · rename_i hc
      injection h with h
      subst h
      simp; omega
    · cases h
  dh_comm a b := by
    simp only [prims, pad_pad]
    apply List.ext_getElem
    · simp [pad_length]
    · intro i h1 h2
      simp [UInt8.xor_comm]
  verify_sign s m := by simp [prims, pad_pad]
  hash_len m := pad_length _ _
  hmac_len k m := pad_length _ _
  pub_len s := pad_length _ _
  sigPub_len s := pad_length _ _
  sig_len s m := pad_length _ _
  shared_len s p := by simp [prims, pad_length]

end Saltpack.Toy
