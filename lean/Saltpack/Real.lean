import Saltpack.Real.Bytes
import Saltpack.Real.Sha512
import Saltpack.Real.Secretbox
import Saltpack.Real.Curve25519
import Saltpack.Real.Ed25519
