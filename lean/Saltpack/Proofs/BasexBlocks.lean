/-
  BaseX, block structure (behind Props/C10 §6–§7): strict decoding of a string
  of alphabet characters is compositional at every multiple of the character
  block length — stated for the MODEL function `Basex.decode` (the helper
  `decS` of Proofs/StackBasex.lean is only used inside the proofs);
  `Basex.decodePrefix` (workhorse of the decoder stream and of the classifier)
  is `decode` on success and reports the first failing block otherwise; the
  length helpers are additive over whole blocks.

  Core Lean only.
-/
import Saltpack.Proofs.StackBasex
import Saltpack.Proofs.BasexLen

namespace Saltpack.Proofs
open Saltpack Saltpack.Basex

/-! ## small facts -/

theorem toOption_eq_some {ε α : Type} (x : Except ε α) (y : α) : x.toOption = some y ↔ x = .ok y := by
  cases x <;> simp [Except.toOption]

theorem toOption_eq_none {ε α : Type} (x : Except ε α) : x.toOption = none ↔ ∃ err, x = .error err := by
  cases x <;> simp [Except.toOption]

/-- an encoding without skip characters is its own strict twin -/
theorem strict_eq_self (e : Enc) (hs : e.skip = []) : e.strict = e := by
  cases e
  simp only at hs
  simp only [Enc.strict, hs]

theorem decode_strict_nil (e : Enc) : decode e.strict [] = .ok [] := by
  unfold decode
  exact decodeAux_nil _ _ _

/-- `mapM` in `Option` fails exactly when some element fails -/
theorem mapM_option_eq_none {α β : Type} (f : α → Option β) : ∀ (l : List α),
    l.mapM f = none ↔ ∃ a ∈ l, f a = none := by
  intro l
  induction l with
  | nil => simp
  | cons a as ih =>
    rw [List.mapM_cons]
    cases ha : f a with
    | none => simp [ha]
    | some b =>
      cases hr : as.mapM f with
      | none =>
        obtain ⟨c, hc, hfc⟩ := ih.mp hr
        simp only [Option.bind_eq_bind, Option.bind_some, Option.bind_none, true_iff]
        exact ⟨c, List.mem_cons_of_mem _ hc, hfc⟩
      | some bs =>
        simp only [Option.bind_eq_bind, Option.bind_some, Option.pure_def]
        constructor
        · intro h; cases h
        · rintro ⟨c, hc, hfc⟩
          rcases List.mem_cons.mp hc with rfl | hc'
          · rw [ha] at hfc; cases hfc
          · have := ih.mpr ⟨c, hc', hfc⟩
            rw [hr] at this; cases this

/-! ## compositionality at block boundaries, for `decode` -/

/-- two pieces: the first a whole number of character blocks -/
theorem decode_strict_append (e : Enc) (hN : 0 < e.charBlockLen) (k : Nat) (a b : List UInt8)
    (h : AllDig e (a ++ b)) (hl : a.length = k * e.charBlockLen) :
    (decode e.strict (a ++ b)).toOption =
      (decode e.strict a).toOption.bind (fun x => (decode e.strict b).toOption.map (fun m => x ++ m)) := by
  rw [decode_strict_digits e _ h, decode_strict_digits e _ (allDig_left h),
    decode_strict_digits e _ (allDig_right h)]
  exact decS_append e hN k a b hl

theorem decode_strict_append_dvd (e : Enc) (hN : 0 < e.charBlockLen) (a b : List UInt8)
    (h : AllDig e (a ++ b)) (hl : e.charBlockLen ∣ a.length) :
    (decode e.strict (a ++ b)).toOption =
      (decode e.strict a).toOption.bind (fun x => (decode e.strict b).toOption.map (fun m => x ++ m)) := by
  obtain ⟨k, hk⟩ := hl
  exact decode_strict_append e hN k a b h (by rw [hk, Nat.mul_comm])

/-- any number of pieces: every piece but the last a whole number of blocks -/
theorem decode_strict_blocks (e : Enc) (hN : 0 < e.charBlockLen) : ∀ (blocks : List (List UInt8)),
    AllDig e blocks.flatten →
    (∀ b ∈ blocks.dropLast, e.charBlockLen ∣ b.length) →
    (decode e.strict blocks.flatten).toOption =
      (blocks.mapM (fun b => (decode e.strict b).toOption)).map List.flatten := by
  intro blocks
  induction blocks with
  | nil =>
    intro _ _
    rw [List.flatten_nil, decode_strict_nil]
    rfl
  | cons b rest ih =>
    intro hd hb
    rw [List.mapM_cons]
    cases rest with
    | nil =>
      rw [List.flatten_cons, List.flatten_nil, List.append_nil, List.mapM_nil]
      cases (decode e.strict b).toOption with
      | none => rfl
      | some x => simp
    | cons c rest' =>
      rw [List.flatten_cons] at hd ⊢
      obtain ⟨k, hk⟩ := hb b (by simp [List.dropLast])
      have hrest := ih (allDig_right hd) (fun b' hb' => hb b' (by
        rw [List.dropLast_cons_cons]; exact List.mem_cons_of_mem _ hb'))
      rw [decode_strict_append e hN k b _ hd (by rw [hk, Nat.mul_comm]), hrest]
      cases (decode e.strict b).toOption with
      | none => rfl
      | some x =>
        cases List.mapM (fun b => (decode e.strict b).toOption) (c :: rest') with
        | none => rfl
        | some ys => simp

/-- the failure case on its own: the one-shot decoder fails iff some piece does -/
theorem decode_strict_blocks_error (e : Enc) (hN : 0 < e.charBlockLen) (blocks : List (List UInt8))
    (hd : AllDig e blocks.flatten)
    (hb : ∀ b ∈ blocks.dropLast, e.charBlockLen ∣ b.length) :
    (∃ x, decode e.strict blocks.flatten = .error x) ↔ ∃ b ∈ blocks, ∃ x, decode e.strict b = .error x := by
  rw [← toOption_eq_none, decode_strict_blocks e hN blocks hd hb, Option.map_eq_none_iff,
    mapM_option_eq_none]
  constructor
  · rintro ⟨b, hb, h⟩; exact ⟨b, hb, (toOption_eq_none _).mp h⟩
  · rintro ⟨b, hb, h⟩; exact ⟨b, hb, (toOption_eq_none _).mpr h⟩

/-! ## `decodePrefix` -/

/-- on success `decodePrefix` is `decode`; on failure it reports an error -/
theorem decodePrefix_is_decode (e : Enc) (hN : 0 < e.charBlockLen) (s : List UInt8) (hd : AllDig e s)
    (fuel : Nat) (hf : s.length < fuel) :
    (∀ y, decode e.strict s = .ok y → decodePrefix e fuel s = (y, none)) ∧
    ((∃ x, decode e.strict s = .error x) → ∃ pre x, decodePrefix e fuel s = (pre, some x)) := by
  obtain ⟨h1, h2⟩ := decodePrefix_spec e hN fuel s hd hf
  refine ⟨fun y hy => h1 y ?_, fun hx => h2 ?_⟩
  · rw [← decode_strict_digits e s hd]; exact (toOption_eq_some _ _).mpr hy
  · rw [← decode_strict_digits e s hd]; exact (toOption_eq_none _).mpr hx

/-- conversely: what `decodePrefix` returns without an error is the decoding -/
theorem decodePrefix_ok_iff (e : Enc) (hN : 0 < e.charBlockLen) (s : List UInt8) (hd : AllDig e s)
    (fuel : Nat) (hf : s.length < fuel) (y : Bytes) :
    decodePrefix e fuel s = (y, none) ↔ decode e.strict s = .ok y := by
  obtain ⟨h1, h2⟩ := decodePrefix_is_decode e hN s hd fuel hf
  constructor
  · intro h
    cases hdec : decode e.strict s with
    | ok z =>
      have := h1 z hdec
      rw [h] at this
      cases this; rfl
    | error x =>
      obtain ⟨p, x', hp⟩ := h2 ⟨x, hdec⟩
      rw [h] at hp
      cases hp
  · exact h1 y

/-- which error, and what comes with it: the decoding of the blocks before the
    first failing block, and that block's error -/
theorem decodePrefix_error (e : Enc) (hN : 0 < e.charBlockLen) : ∀ (fuel : Nat) (s : List UInt8), AllDig e s →
    s.length < fuel → ∀ (pre : Bytes) (x : Err), decodePrefix e fuel s = (pre, some x) →
    ∃ k, k * e.charBlockLen < s.length ∧
      decode e.strict (s.take (k * e.charBlockLen)) = .ok pre ∧
      decode e.strict ((s.drop (k * e.charBlockLen)).take e.charBlockLen) = .error x := by
  intro fuel
  induction fuel with
  | zero => intro s _ h; omega
  | succ f ih =>
    intro s hd hf pre x h
    by_cases h0 : s = []
    · subst h0
      rw [decodePrefix] at h
      simp at h
    · have hse : s.isEmpty = false := by cases s with
        | nil => exact absurd rfl h0
        | cons _ _ => rfl
      have hpos : 0 < s.length := List.length_pos_iff.mpr h0
      rw [decodePrefix] at h
      simp only [hse, Bool.false_eq_true, if_false] at h
      cases hblk : decode e.strict (s.take e.charBlockLen) with
      | error x' =>
        rw [hblk] at h
        simp only [Prod.mk.injEq, Option.some.injEq] at h
        obtain ⟨rfl, rfl⟩ := h
        refine ⟨0, by omega, ?_, ?_⟩
        · rw [Nat.zero_mul, List.take_zero]; exact decode_strict_nil e
        · rw [Nat.zero_mul, List.drop_zero]; exact hblk
      | ok b =>
        rw [hblk] at h
        simp only at h
        obtain ⟨more, err, hrec⟩ : ∃ more err, decodePrefix e f (s.drop e.charBlockLen) = (more, err) :=
          ⟨_, _, rfl⟩
        rw [hrec] at h
        simp only [Prod.mk.injEq] at h
        obtain ⟨rfl, rfl⟩ := h
        have hl : (s.drop e.charBlockLen).length < s.length := by rw [List.length_drop]; omega
        obtain ⟨k, hk1, hk2, hk3⟩ := ih (s.drop e.charBlockLen) (allDig_drop _ hd) (by omega) more x hrec
        rw [List.length_drop] at hk1
        have hge : e.charBlockLen ≤ s.length := by omega
        have htl : (s.take e.charBlockLen).length = 1 * e.charBlockLen := by
          rw [List.length_take]; omega
        have hsplit : s.take ((k + 1) * e.charBlockLen) =
            s.take e.charBlockLen ++ (s.drop e.charBlockLen).take (k * e.charBlockLen) := by
          rw [Nat.succ_mul, Nat.add_comm, List.take_add]
        refine ⟨k + 1, by rw [Nat.succ_mul]; omega, ?_, ?_⟩
        · rw [hsplit, ← toOption_eq_some,
            decode_strict_append e hN 1 _ _ (by rw [← hsplit]; exact allDig_take _ hd) htl, hblk, hk2]
          rfl
        · rw [Nat.succ_mul, Nat.add_comm, ← List.drop_drop]
          exact hk3

/-! ## the length helpers over several blocks -/

theorem encLen_add_blocks (e : Enc) (hB : 0 < e.blockLen) (q r : Nat) :
    e.encLen (q * e.blockLen + r) = q * e.charBlockLen + e.encLen r := by
  unfold Enc.encLen
  rw [Nat.add_comm (q * e.blockLen) r, Nat.add_mul_div_right _ _ hB, Nat.add_mul_mod_self_right,
    Nat.add_mul]
  omega

theorem decLen_add_blocks (e : Enc) (hC : 0 < e.charBlockLen) (q r : Nat) :
    e.decLen (q * e.charBlockLen + r) = q * e.blockLen + e.decLen r := by
  unfold Enc.decLen
  rw [Nat.add_comm (q * e.charBlockLen) r, Nat.add_mul_div_right _ _ hC, Nat.add_mul_mod_self_right,
    Nat.add_mul]
  omega

/-- whole blocks go to whole blocks -/
theorem encLen_blocks {e : Enc} (he : e.WF) (q : Nat) : e.encLen (q * e.blockLen) = q * e.charBlockLen := by
  have := encLen_add_blocks e he.block_pos q 0
  rw [encLen_zero he] at this
  simpa using this

theorem decLen_blocks {e : Enc} (he : e.WF) (q : Nat) : e.decLen (q * e.charBlockLen) = q * e.blockLen := by
  have := decLen_add_blocks e he.cblock_pos q 0
  rw [decLen_zero he] at this
  simpa using this

/-- `DecodedLen (EncodedLen n) = n` for every `n` (any number of blocks) -/
theorem decLen_encLen_all {e : Enc} (he : e.WF) (n : Nat) : e.decLen (e.encLen n) = n := by
  have hB := he.block_pos
  have hn : n = (n / e.blockLen) * e.blockLen + n % e.blockLen := by
    rw [Nat.mul_comm]; exact (Nat.div_add_mod n e.blockLen).symm
  have hr : n % e.blockLen < e.blockLen := Nat.mod_lt _ hB
  generalize n / e.blockLen = q at hn
  generalize n % e.blockLen = r at hn hr
  subst hn
  rw [encLen_add_blocks e hB, decLen_add_blocks e he.cblock_pos]
  by_cases h0 : r = 0
  · subst h0; rw [encLen_zero he, decLen_zero he]
  · rw [decLen_encLen he r (by omega) (by omega)]

/-- the length of a strictly decoded string is `DecodedLen` of the input length -/
theorem decode_length (e : Enc) (he : e.WF) (hs : e.skip = []) (s : List UInt8) (bs : Bytes)
    (h : decode e s = .ok bs) : bs.length = e.decLen s.length := by
  have hc := decode_canonical e he hs s bs h
  rw [← hc, encode_length e he, decLen_encLen_all he]

end Saltpack.Proofs
