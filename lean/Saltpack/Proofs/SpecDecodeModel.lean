/-
  The oracle and the CODE MODEL: the Go sender's chunk plan obeys the chunk
  rules the oracle enforces; an acceptance whose decoded values are the
  sender model's inputs pins the bytes to the model's output.
-/
import Saltpack.Proofs.SpecDecodeSc
import Saltpack.Proofs.SpecEq

namespace Saltpack.Proofs.SDW
open Saltpack Saltpack.Msgpack Saltpack.SpecDecode Saltpack.Proofs
open Saltpack.Spec hiding encode

theorem planOK_of_final (layout : Nat) :
    ∀ (pre : List (Bytes × Bool)) (c : Bytes) (k : Nat),
    (∀ p ∈ pre ++ [(c, true)], p.1.length ≤ 1048576) → (∀ p ∈ pre, p.2 = false) →
    (layout = 1 → ∀ p ∈ pre ++ [(c, true)], (p.1 = [] ↔ p.2 = true)) →
    (layout ≠ 1 → ∀ p ∈ pre ++ [(c, true)], p.1 = [] → k = 0 ∧ pre = []) →
    PlanOK layout k (pre ++ [(c, true)]) := by
  intro pre
  induction pre with
  | nil =>
    intro c k hs _ h1 h2
    simp only [List.nil_append, PlanOK]
    refine ⟨hs (c, true) (by simp), ?_, trivial⟩
    by_cases hl : layout = 1
    · simp only [hl, if_true]
      have := h1 hl (c, true) (by simp)
      simpa using this
    · simp only [hl, if_false]
      refine ⟨by simp, ?_⟩
      intro hc
      exact ⟨(h2 hl (c, true) (by simp) hc).1, trivial⟩
  | cons x pre ih =>
    intro c k hs hf h1 h2
    obtain ⟨c0, f0⟩ := x
    have hf0 : f0 = false := hf (c0, f0) (by simp)
    subst hf0
    simp only [List.cons_append, PlanOK]
    refine ⟨hs (c0, false) (by simp), ?_, ?_⟩
    · by_cases hl : layout = 1
      · simp only [hl, if_true]
        have := h1 hl (c0, false) (by simp)
        simp only [Bool.false_eq_true, iff_false] at this
        simp [this]
      · simp only [hl, if_false]
        refine ⟨by simp, ?_⟩
        intro hc
        have := (h2 hl (c0, false) (by simp) hc).2
        simp at this
    · apply ih c (k + 1)
      · intro p hp; exact hs p (List.mem_cons_of_mem _ hp)
      · intro p hp; exact hf p (List.mem_cons_of_mem _ hp)
      · intro hl p hp; exact h1 hl p (List.mem_cons_of_mem _ hp)
      · intro hl p hp hc
        have := (h2 hl p (List.mem_cons_of_mem _ hp) hc).2
        simp at this

/-- the chunk plan of the Go sender (1 MiB blocks) obeys the oracle's chunk rules -/
theorem go_plan_ok (v : Version) (hv : v = v1 ∨ v = v2) (pt : Bytes) :
    PlanOK (layoutOf v) 0 (Encrypt.chunkPlan v blockSize pt) ∧ Encrypt.chunkPlan v blockSize pt ≠ [] := by
  obtain ⟨hs, ⟨pre, c, hpc, hpre⟩, _⟩ := go_plan_legal v pt
  have hb : 0 < blockSize := by decide
  constructor
  · rw [hpc]
    apply planOK_of_final
    · rw [← hpc]; exact hs
    · exact hpre
    · intro hl
      have : v = v1 := by
        rcases hv with rfl | rfl
        · rfl
        · simp [layoutOf, msgpack_v2_ne_v1] at hl
      subst this
      rw [← hpc]
      exact chunkPlan_empty_v1 blockSize hb pt
    · intro hl
      have : v = v2 := by
        rcases hv with rfl | rfl
        · simp [layoutOf] at hl
        · rfl
      subst this
      intro p hp hc
      rw [← hpc] at hp
      obtain ⟨e1, e2⟩ := chunkPlan_empty_v2 blockSize hb pt
      have := e2 (e1 p hp hc)
      rw [hpc] at this
      refine ⟨rfl, ?_⟩
      cases pre with
      | nil => rfl
      | cons _ _ =>
        have hl := congrArg List.length this
        simp at hl
  · rw [hpc]; simp

theorem encPacket_layout1_flag (P : Prims) (o : Spec.Opts) (pk hh : Bytes) (mks : List Bytes) (i : Nat) (c : Bytes)
    (f f' : Bool) : Spec.encPacket P 1 o pk hh mks i c f = Spec.encPacket P 1 o pk hh mks i c f' := by
  simp [Spec.encPacket]

theorem flatMap_layout1_flags (g : Nat → Bytes → Bool → Bytes) (hg : ∀ i c f f', g i c f = g i c f') :
    ∀ (pl pl' : List (Bytes × Bool)) (k : Nat), pl.map (·.1) = pl'.map (·.1) →
    (pl.zipIdx k).flatMap (fun ((c, f), i) => g i c f) = (pl'.zipIdx k).flatMap (fun ((c, f), i) => g i c f) := by
  intro pl
  induction pl with
  | nil =>
    intro pl' k h
    cases pl' with
    | nil => rfl
    | cons _ _ => simp at h
  | cons x pl ih =>
    intro pl' k h
    cases pl' with
    | nil => simp at h
    | cons y pl' =>
      simp only [List.map_cons, List.cons.injEq] at h
      obtain ⟨c, f⟩ := x
      obtain ⟨c', f'⟩ := y
      simp only at h
      obtain ⟨rfl, h2⟩ := h
      simp only [List.zipIdx_cons, List.flatMap_cons]
      rw [ih pl' (k + 1) h2, hg k c f f']

/-- layout 1 carries no final flag: the reference encoding depends on the chunks only -/
theorem encodePlan_layout1_flags (P : Prims) (o : Spec.Opts) (sender : Option Bytes) (rs : List Encrypt.Recipient)
    (eph pk : Bytes) (pl pl' : List (Bytes × Bool)) (h : pl.map (·.1) = pl'.map (·.1)) :
    Spec.encodePlan P 1 o sender rs eph pk pl = Spec.encodePlan P 1 o sender rs eph pk pl' := by
  unfold Spec.encodePlan
  simp only
  congr 1
  exact flatMap_layout1_flags (fun i c f => Spec.encPacket P 1 o pk _ _ i c f)
    (fun i c f f' => encPacket_layout1_flag P o pk _ _ i c f f') pl pl' 0 h

/-- under the V2 chunk rules the flags are determined by the chunks: the last
    packet, and only it, is final -/
theorem planOK2_flags : ∀ (pl : List (Bytes × Bool)) (k : Nat), PlanOK 2 k pl →
    ∀ (pre : List Bytes) (c : Bytes), pl.map (·.1) = pre ++ [c] → pl = pre.map (·, false) ++ [(c, true)] := by
  intro pl
  induction pl with
  | nil => intro k _ pre c h; simp at h
  | cons x rest ih =>
    intro k hp pre c h
    obtain ⟨c0, f0⟩ := x
    simp only [PlanOK, show (2 : Nat) ≠ 1 by decide, if_false] at hp
    obtain ⟨_, ⟨hf, _⟩, hrest⟩ := hp
    cases pre with
    | nil =>
      simp only [List.map_cons, List.nil_append, List.cons.injEq, List.map_eq_nil_iff] at h
      obtain ⟨rfl, hr⟩ := h
      subst hr
      simp [hf.2 rfl]
    | cons p pre' =>
      simp only [List.map_cons, List.cons_append, List.cons.injEq] at h
      obtain ⟨rfl, hr⟩ := h
      have hne : rest ≠ [] := by
        intro e; subst e; simp at hr
      have hf0 : f0 = false := by
        cases f0 with
        | false => rfl
        | true => exact absurd (hf.1 rfl) hne
      subst hf0
      rw [ih (k + 1) hrest pre' c hr]
      rfl

/-- the V2 chunk plan of the Go sender: all packets but the last are not final -/
theorem chunkPlan_v2_shape (bs : Nat) (pt : Bytes) :
    ∃ (pre : List Bytes) (c : Bytes), Encrypt.chunkPlan v2 bs pt = pre.map (·, false) ++ [(c, true)] := by
  unfold Encrypt.chunkPlan
  simp only [msgpack_v2_ne_v1, if_false]
  split
  · exact ⟨[], [], rfl⟩
  · exact ⟨_, _, rfl⟩

/-- the run-time check against the code model: the decoded CHUNKS are compared
    (layout 1 has no final flag on the wire — the decoded V1 packets carry
    `final := false` —, under layout 2 the chunk rules determine the flags) -/
theorem oracle_sound_model (P : Prims) (hL : P.Lawful) (hC : OpenCanonical P) (b : Bytes) (secrets : List Bytes)
    (s : String) (h : encryption P b secrets = .ok s)
    (bs : Nat) (v : Version) (hv : v = v1 ∨ v = v2) (sender : Option Bytes) (ephSec pk pt out : Bytes)
    (rs : List Encrypt.Recipient)
    (hseal : Encrypt.sealWith P bs v sender rs ephSec pk pt = .ok out) :
    ∃ (m : EncMsg) (o : EncOpened), EncMsg.parse b = .ok m ∧ m.check P secrets = .ok o ∧
      (m.major = layoutOf v → m.eph = P.boxPub ephSec → o.senderPub = P.boxPub (sender.getD ephSec) →
        o.payloadKey = pk → rsOf P (recipsOf secrets m.recvs) = rs →
        o.chunks = (Encrypt.chunkPlan v bs pt).map (·.1) → b = out) := by
  obtain ⟨m, o, layout, _, hm, hp, hc, _, _, hok, hch, _, hspec⟩ := oracle_sound_encryption P hL hC b secrets s h
  refine ⟨m, o, hp, hc, ?_⟩
  intro h1 h2 h3 h4 h5 h6
  have hlay : layout = layoutOf v := by
    rw [hm] at h1
    exact Int.ofNat.inj h1
  have := hspec ephSec (sender.getD ephSec) h2 h3
  rw [h4, h5, hlay] at this
  rw [this, spec_eq_encryption P bs v hv sender rs ephSec pk pt out hseal]
  have hsnd : ∀ pl, Spec.encodePlan P (layoutOf v) {} (some (sender.getD ephSec)) rs ephSec pk pl =
      Spec.encodePlan P (layoutOf v) {} sender rs ephSec pk pl := by
    intro pl; cases sender <;> rfl
  rw [hsnd]
  rcases hv with rfl | rfl
  · exact encodePlan_layout1_flags P {} sender rs ephSec pk _ _ (by rw [hch, h6])
  · obtain ⟨pre, c, hshape⟩ := chunkPlan_v2_shape bs pt
    have hl2 : layout = 2 := by rw [hlay]; simp [layoutOf, msgpack_v2_ne_v1]
    rw [hl2] at hok
    have : planOf o.chunks m.pkts = pre.map (·, false) ++ [(c, true)] := by
      apply planOK2_flags _ 0 hok
      rw [hch, h6, hshape]
      simp [Function.comp_def]
    rw [this, hshape]

/-- decision procedure for "ALL the antecedents of `oracle_sound_model` hold of
    the model's own output" (used by the kernel-evaluated non-vacuity examples) -/
def modelHyps (P : Prims) (bs : Nat) (v : Version) (sender : Option Bytes) (rs : List Encrypt.Recipient)
    (ephSec pk pt : Bytes) (secrets : List Bytes) : Bool :=
  match Encrypt.sealWith P bs v sender rs ephSec pk pt with
  | .error _ => false
  | .ok out =>
    match EncMsg.parse out with
    | .error _ => false
    | .ok m =>
      match m.check P secrets with
      | .error _ => false
      | .ok o =>
        decide (m.major = layoutOf v) && decide (m.eph = P.boxPub ephSec) &&
        decide (o.senderPub = P.boxPub (sender.getD ephSec)) && decide (o.payloadKey = pk) &&
        decide (rsOf P (recipsOf secrets m.recvs) = rs) &&
        decide (o.chunks = (Encrypt.chunkPlan v bs pt).map (·.1))

theorem modelHyps_spec (P : Prims) (bs : Nat) (v : Version) (sender : Option Bytes) (rs : List Encrypt.Recipient)
    (ephSec pk pt : Bytes) (secrets : List Bytes) (h : modelHyps P bs v sender rs ephSec pk pt secrets = true) :
    ∃ (out : Bytes) (s : String) (m : EncMsg) (o : EncOpened),
      Encrypt.sealWith P bs v sender rs ephSec pk pt = .ok out ∧ encryption P out secrets = .ok s ∧
      EncMsg.parse out = .ok m ∧ m.check P secrets = .ok o ∧
      m.major = layoutOf v ∧ m.eph = P.boxPub ephSec ∧ o.senderPub = P.boxPub (sender.getD ephSec) ∧
      o.payloadKey = pk ∧ rsOf P (recipsOf secrets m.recvs) = rs ∧
      o.chunks = (Encrypt.chunkPlan v bs pt).map (·.1) := by
  unfold modelHyps at h
  split at h
  · cases h
  · rename_i out hs
    split at h
    · cases h
    · rename_i m hm
      split at h
      · cases h
      · rename_i o ho
        simp only [Bool.and_eq_true, decide_eq_true_eq] at h
        obtain ⟨⟨⟨⟨⟨a1, a2⟩, a3⟩, a4⟩, a5⟩, a6⟩ := h
        exact ⟨out, encSummary m o, m, o, hs, (encryption_ok_iff P out secrets _).2 ⟨m, o, hm, ho, rfl⟩,
          hm, ho, a1, a2, a3, a4, a5, a6⟩

end Saltpack.Proofs.SDW
