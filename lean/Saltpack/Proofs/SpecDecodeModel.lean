/-
  The oracle and the CODE MODEL: the Go sender's chunk plan obeys the chunk
  rules the oracle enforces; an acceptance whose decoded values are the
  sender model's inputs pins the bytes to the model's output.
-/
import Saltpack.Proofs.SpecDecodeSc
import Saltpack.Proofs.SpecEq

namespace Saltpack.Proofs.SDW
open Saltpack Saltpack.Msgpack Saltpack.SpecDecode Saltpack.Proofs
open Saltpack.Spec hiding encode

theorem planOK_of_final (layout : Nat) :
    ∀ (pre : List (Bytes × Bool)) (c : Bytes) (k : Nat),
    (∀ p ∈ pre ++ [(c, true)], p.1.length ≤ 1048576) → (∀ p ∈ pre, p.2 = false) →
    (layout = 1 → ∀ p ∈ pre ++ [(c, true)], (p.1 = [] ↔ p.2 = true)) →
    (layout ≠ 1 → ∀ p ∈ pre ++ [(c, true)], p.1 = [] → k = 0 ∧ pre = []) →
    PlanOK layout k (pre ++ [(c, true)]) := by
  intro pre
  induction pre with
  | nil =>
    intro c k hs _ h1 h2
    simp only [List.nil_append, PlanOK]
    refine ⟨hs (c, true) (by simp), ?_, trivial⟩
    by_cases hl : layout = 1
    · simp only [hl, if_true]
      have := h1 hl (c, true) (by simp)
      simpa using this
    · simp only [hl, if_false]
      refine ⟨by simp, ?_⟩
      intro hc
      exact ⟨(h2 hl (c, true) (by simp) hc).1, trivial⟩
  | cons x pre ih =>
    intro c k hs hf h1 h2
    obtain ⟨c0, f0⟩ := x
    have hf0 : f0 = false := hf (c0, f0) (by simp)
    subst hf0
    simp only [List.cons_append, PlanOK]
    refine ⟨hs (c0, false) (by simp), ?_, ?_⟩
    · by_cases hl : layout = 1
      · simp only [hl, if_true]
        have := h1 hl (c0, false) (by simp)
        simp only [Bool.false_eq_true, iff_false] at this
        simp [this]
      · simp only [hl, if_false]
        refine ⟨by simp, ?_⟩
        intro hc
        have := (h2 hl (c0, false) (by simp) hc).2
        simp at this
    · apply ih c (k + 1)
      · intro p hp; exact hs p (List.mem_cons_of_mem _ hp)
      · intro p hp; exact hf p (List.mem_cons_of_mem _ hp)
      · intro hl p hp; exact h1 hl p (List.mem_cons_of_mem _ hp)
      · intro hl p hp hc
        have := (h2 hl p (List.mem_cons_of_mem _ hp) hc).2
        simp at this

/-- the chunk plan of the Go sender (1 MiB blocks) obeys the oracle's chunk rules -/
theorem go_plan_ok (v : Version) (hv : v = v1 ∨ v = v2) (pt : Bytes) :
    PlanOK (layoutOf v) 0 (Encrypt.chunkPlan v blockSize pt) ∧ Encrypt.chunkPlan v blockSize pt ≠ [] := by
  obtain ⟨hs, ⟨pre, c, hpc, hpre⟩, _⟩ := go_plan_legal v pt
  have hb : 0 < blockSize := by decide
  constructor
  · rw [hpc]
    apply planOK_of_final
    · rw [← hpc]; exact hs
    · exact hpre
    · intro hl
      have : v = v1 := by
        rcases hv with rfl | rfl
        · rfl
        · simp [layoutOf, msgpack_v2_ne_v1] at hl
      subst this
      rw [← hpc]
      exact chunkPlan_empty_v1 blockSize hb pt
    · intro hl
      have : v = v2 := by
        rcases hv with rfl | rfl
        · simp [layoutOf] at hl
        · rfl
      subst this
      intro p hp hc
      rw [← hpc] at hp
      obtain ⟨e1, e2⟩ := chunkPlan_empty_v2 blockSize hb pt
      have := e2 (e1 p hp hc)
      rw [hpc] at this
      refine ⟨rfl, ?_⟩
      cases pre with
      | nil => rfl
      | cons _ _ =>
        have hl := congrArg List.length this
        simp at hl
  · rw [hpc]; simp

/-- the run-time check against the code model -/
theorem oracle_sound_model (P : Prims) (hL : P.Lawful) (hC : OpenCanonical P) (b : Bytes) (secrets : List Bytes)
    (s : String) (h : encryption P b secrets = .ok s)
    (bs : Nat) (v : Version) (hv : v = v1 ∨ v = v2) (senderSec ephSec pk pt out : Bytes) (rs : List Encrypt.Recipient)
    (hseal : Encrypt.sealWith P bs v (some senderSec) rs ephSec pk pt = .ok out) :
    ∃ (m : EncMsg) (o : EncOpened), EncMsg.parse b = .ok m ∧ m.check P secrets = .ok o ∧
      (m.major = layoutOf v → m.eph = P.boxPub ephSec → o.senderPub = P.boxPub senderSec →
        o.payloadKey = pk → rsOf P (recipsOf secrets m.recvs) = rs →
        planOf o.chunks m.pkts = Encrypt.chunkPlan v bs pt → b = out) := by
  obtain ⟨m, o, layout, _, hm, hp, hc, _, _, _, _, _, hspec⟩ := oracle_sound_encryption P hL hC b secrets s h
  refine ⟨m, o, hp, hc, ?_⟩
  intro h1 h2 h3 h4 h5 h6
  have hlay : layout = layoutOf v := by
    rw [hm] at h1
    exact Int.ofNat.inj h1
  have := hspec ephSec senderSec h2 h3
  rw [h4, h5, h6, hlay] at this
  rw [this]
  exact (spec_eq_encryption P bs v hv (some senderSec) rs ephSec pk pt out hseal).symm

end Saltpack.Proofs.SDW
