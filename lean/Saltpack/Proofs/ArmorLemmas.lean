/-
  Helper lemmas for Proofs/ArmorRT: `splitAt1`, `trimSpace`, `collapse`,
  `splitSp`, `spaceWords`.
-/
import Saltpack.Proofs.ArmorBytes

namespace Saltpack.Proofs
open Saltpack Saltpack.Armor

theorem mem_takeWhile_pos {α : Type} (p : α → Bool) : ∀ (l : List α) (c : α), c ∈ l.takeWhile p → p c = true := by
  intro l
  induction l with
  | nil => intro c h; simp at h
  | cons x xs ih =>
    intro c h
    rw [List.takeWhile_cons] at h
    split at h
    · rcases List.mem_cons.mp h with h | h
      · subst h; assumption
      · exact ih c h
    · simp at h

/-! ### splitAt1 -/

theorem splitAt1_append (c : UInt8) (a b : Bytes) (h : ∀ x ∈ a, x ≠ c) :
    splitAt1 c (a ++ c :: b) = some (a, b) := by
  induction a with
  | nil => simp [splitAt1]
  | cons x xs ih =>
    have hx : x ≠ c := h x (by simp)
    have ih' := ih (fun y hy => h y (by simp [hy]))
    simp [splitAt1, hx, ih']

theorem valid_ne_period (a : Bytes) (h : ∀ x ∈ a, validByte params62 x = true) :
    ∀ x ∈ a, x ≠ period := by
  intro x hx he
  have := h x hx
  rw [he, period_invalid] at this
  exact absurd this (by simp)

theorem all_valid (a : Bytes) (h : ∀ x ∈ a, validByte params62 x = true) :
    a.all (validByte params62) = true := by
  simpa [List.all_eq_true] using h

theorem toASCII_valid (a : Bytes) (h : ∀ x ∈ a, validByte params62 x = true) :
    toASCII params62 a = .ok (trimSpace a) := by
  unfold toASCII
  rw [all_valid a h]
  rfl

theorem no_period (a : Bytes) (h : ∀ x ∈ a, validByte params62 x = true) :
    a.any (· == period) = false := by
  rw [Bool.eq_false_iff]
  intro hc
  simp only [List.any_eq_true, beq_iff_eq] at hc
  obtain ⟨x, hx, he⟩ := hc
  exact valid_ne_period a h x hx he

/-! ### trimSpace

`Armor.trimSpace` is `strings.TrimSpace` (Unicode white space, UTF-8 decoded from
both ends).  The generic lemmas are about `trimRunes`, of which the left and
the (reversed) right trimming are instances. -/

theorem u8_beq_false_of_lt (c k : UInt8) (hc : c < 128) (hk : 128 ≤ k) : (c == k) = false := by
  rw [beq_eq_false_iff_ne]
  intro h
  subst h
  rw [UInt8.lt_iff_toNat_lt] at hc
  rw [UInt8.le_iff_toNat_le] at hk
  omega

/-- the rune recognisers fire on bytes ≥ 0x80 only -/
structure HighOnly (s2 : UInt8 → UInt8 → Bool) (s3 : UInt8 → UInt8 → UInt8 → Bool) : Prop where
  h2a : ∀ c d, c < 128 → s2 c d = false
  h2b : ∀ c d, d < 128 → s2 c d = false
  h3a : ∀ c d e, c < 128 → s3 c d e = false
  h3b : ∀ c d e, d < 128 → s3 c d e = false
  h3c : ∀ c d e, e < 128 → s3 c d e = false

theorem isSp2_fst (c d : UInt8) (h : c < 128) : isSp2 c d = false := by
  simp [isSp2, u8_beq_false_of_lt c 0xC2 h (by decide)]

theorem isSp2_snd (c d : UInt8) (h : d < 128) : isSp2 c d = false := by
  simp [isSp2, u8_beq_false_of_lt d 0x85 h (by decide), u8_beq_false_of_lt d 0xA0 h (by decide)]

theorem isSp3_fst (c d e : UInt8) (h : c < 128) : isSp3 c d e = false := by
  simp [isSp3, u8_beq_false_of_lt c 0xE1 h (by decide), u8_beq_false_of_lt c 0xE2 h (by decide),
    u8_beq_false_of_lt c 0xE3 h (by decide)]

theorem isSp3_snd (c d e : UInt8) (h : d < 128) : isSp3 c d e = false := by
  simp [isSp3, u8_beq_false_of_lt d 0x9A h (by decide), u8_beq_false_of_lt d 0x80 h (by decide),
    u8_beq_false_of_lt d 0x81 h (by decide)]

theorem isSp3_trd (c d e : UInt8) (h : e < 128) : isSp3 c d e = false := by
  have hle : (decide (0x80 ≤ e)) = false := by
    rw [decide_eq_false_iff_not, UInt8.le_iff_toNat_le]
    rw [UInt8.lt_iff_toNat_lt] at h
    intro h'
    have : (128 : UInt8).toNat = 128 := rfl
    have : (0x80 : UInt8).toNat = 128 := rfl
    omega
  simp [isSp3, u8_beq_false_of_lt e 0x80 h (by decide), u8_beq_false_of_lt e 0xA8 h (by decide),
    u8_beq_false_of_lt e 0xA9 h (by decide), u8_beq_false_of_lt e 0xAF h (by decide),
    u8_beq_false_of_lt e 0x9F h (by decide), hle]

theorem highOnly_left : HighOnly isSp2 isSp3 :=
  ⟨isSp2_fst, isSp2_snd, isSp3_fst, isSp3_snd, isSp3_trd⟩

theorem highOnly_right : HighOnly (fun c d => isSp2 d c) (fun c d e => isSp3 e d c) :=
  ⟨fun c d h => isSp2_snd d c h, fun c d h => isSp2_fst d c h,
   fun c d e h => isSp3_trd e d c h, fun c d e h => isSp3_snd e d c h, fun c d e h => isSp3_fst e d c h⟩

theorem trimSpace_lt (c : UInt8) (h : isTrimSpace c = true) : c < 128 := by
  revert c
  apply u8_forall
  decide +kernel

section
variable {s2 : UInt8 → UInt8 → Bool} {s3 : UInt8 → UInt8 → UInt8 → Bool}

theorem trimRunes_cons_space (c : UInt8) (r : Bytes) (hc : isTrimSpace c = true) :
    trimRunes s2 s3 (c :: r) = trimRunes s2 s3 r := by
  cases r with
  | nil => simp [trimRunes, hc]
  | cons d r' =>
    cases r' with
    | nil => simp [trimRunes, hc]
    | cons e r'' => simp [trimRunes, hc]

theorem trimRunes_cons2 (c d : UInt8) (r : Bytes) (hc : isTrimSpace c = false) (h2 : s2 c d = true) :
    trimRunes s2 s3 (c :: d :: r) = trimRunes s2 s3 r := by
  cases r with
  | nil => simp [trimRunes, hc, h2]
  | cons e r'' => simp [trimRunes, hc, h2]

theorem trimRunes_cons3 (c d e : UInt8) (r : Bytes) (hc : isTrimSpace c = false) (h2 : s2 c d = false)
    (h3 : s3 c d e = true) : trimRunes s2 s3 (c :: d :: e :: r) = trimRunes s2 s3 r := by
  simp [trimRunes, hc, h2, h3]

theorem trimRunes_pre (p x : Bytes) (hp : ∀ c ∈ p, isTrimSpace c = true) :
    trimRunes s2 s3 (p ++ x) = trimRunes s2 s3 x := by
  induction p with
  | nil => rfl
  | cons c cs ih =>
    have hc : isTrimSpace c = true := hp c (by simp)
    rw [List.cons_append, trimRunes_cons_space _ _ hc]
    exact ih (fun y hy => hp y (by simp [hy]))

theorem trimRunes_all (q : Bytes) (hq : ∀ c ∈ q, isTrimSpace c = true) : trimRunes s2 s3 q = [] := by
  have := trimRunes_pre (s2 := s2) (s3 := s3) q [] hq
  rw [List.append_nil] at this
  rw [this]; rfl

/-- a byte below 0x80 that is not ASCII white space stops the trimming -/
theorem trimRunes_keep (H : HighOnly s2 s3) (a : UInt8) (m : Bytes) (ha : isTrimSpace a = false) (h : a < 128) :
    trimRunes s2 s3 (a :: m) = a :: m := by
  cases m with
  | nil => simp [trimRunes, ha]
  | cons d r' =>
    cases r' with
    | nil => simp [trimRunes, ha, H.h2a a d h]
    | cons e r'' => simp [trimRunes, ha, H.h2a a d h, H.h3a a d e h]

theorem trimRunes_ascii (H : HighOnly s2 s3) (b : Bytes) (hb : ∀ c ∈ b, c < 128) :
    trimRunes s2 s3 b = b.dropWhile isTrimSpace := by
  induction b with
  | nil => rfl
  | cons c cs ih =>
    by_cases hc : isTrimSpace c = true
    · rw [trimRunes_cons_space _ _ hc, List.dropWhile_cons, if_pos hc]
      exact ih (fun y hy => hb y (by simp [hy]))
    · have hc' : isTrimSpace c = false := by simpa using hc
      rw [trimRunes_keep H c cs hc' (hb c (by simp)), List.dropWhile_cons, if_neg hc]

theorem trimRunes_post (H : HighOnly s2 s3) (q : Bytes) (hq : ∀ c ∈ q, isTrimSpace c = true) (x : Bytes) :
    trimRunes s2 s3 (x ++ q) = trimRunes s2 s3 x ++ q ∨
    (trimRunes s2 s3 x = [] ∧ trimRunes s2 s3 (x ++ q) = []) := by
  fun_induction trimRunes s2 s3 x with
  | case1 => right; exact ⟨rfl, by simpa using trimRunes_all q hq⟩
  | case2 c r hc ih =>
    rw [List.cons_append, trimRunes_cons_space _ _ hc]; exact ih
  | case3 c hc =>
    left
    have hc' : isTrimSpace c = false := by simpa using hc
    cases q with
    | nil => simp [trimRunes, hc']
    | cons d q' =>
      have hd := trimSpace_lt d (hq d (by simp))
      cases q' with
      | nil => simp [trimRunes, hc', H.h2b c d hd]
      | cons e q'' => simp [trimRunes, hc', H.h2b c d hd, H.h3b c d e hd]
  | case4 c hc d r' h2 ih =>
    have hc' : isTrimSpace c = false := by simpa using hc
    rw [List.cons_append, List.cons_append, trimRunes_cons2 _ _ _ hc' h2]
    exact ih
  | case5 c hc d h2 =>
    left
    have hc' : isTrimSpace c = false := by simpa using hc
    have h2' : s2 c d = false := by simpa using h2
    cases q with
    | nil => simp [trimRunes, hc', h2']
    | cons e q'' =>
      have he := trimSpace_lt e (hq e (by simp))
      simp [trimRunes, hc', h2', H.h3c c d e he]
  | case6 c hc d h2 e r'' h3 ih =>
    have hc' : isTrimSpace c = false := by simpa using hc
    have h2' : s2 c d = false := by simpa using h2
    rw [List.cons_append, List.cons_append, List.cons_append, trimRunes_cons3 _ _ _ _ hc' h2' h3]
    exact ih
  | case7 c hc d h2 e r'' h3 =>
    left
    have hc' : isTrimSpace c = false := by simpa using hc
    have h2' : s2 c d = false := by simpa using h2
    have h3' : s3 c d e = false := by simpa using h3
    simp [trimRunes, hc', h2', h3']
end


/-! #### ASCII trimming (`trimSpaceAscii`) -/

theorem dropWhile_allT (p x : Bytes) (hp : ∀ c ∈ p, isTrimSpace c = true) :
    (p ++ x).dropWhile isTrimSpace = x.dropWhile isTrimSpace := by
  induction p with
  | nil => rfl
  | cons c cs ih =>
    have hc : isTrimSpace c = true := hp c (by simp)
    simp only [List.cons_append, List.dropWhile_cons, hc, if_true]
    exact ih (fun y hy => hp y (by simp [hy]))

/-- **the model's `strings.TrimSpace` is ASCII trimming on ASCII strings** -/
theorem trimSpace_eq_ascii (b : Bytes) (hb : ∀ c ∈ b, c < 128) : trimSpace b = trimSpaceAscii b := by
  unfold trimSpace trimSpaceAscii trimLeft trimRightRev
  rw [trimRunes_ascii highOnly_left b hb, trimRunes_ascii highOnly_right]
  intro c hc
  rw [List.mem_reverse] at hc
  exact hb c ((List.dropWhile_sublist _).subset hc)

/-- …in particular on everything `toASCII` lets through (the whole armor path) -/
theorem trimSpace_eq_ascii_valid (b : Bytes) (hb : ∀ c ∈ b, validByte params62 c = true) :
    trimSpace b = trimSpaceAscii b :=
  trimSpace_eq_ascii b (fun c hc => valid_lt c (hb c hc))

/-- `b` is its ASCII-trimmed version with ASCII white space around -/
theorem trimSpaceAscii_decomp (b : Bytes) :
    ∃ p q, (∀ c ∈ p, isTrimSpace c = true ∧ c ∈ b) ∧ (∀ c ∈ q, isTrimSpace c = true ∧ c ∈ b) ∧
      b = p ++ trimSpaceAscii b ++ q := by
  refine ⟨b.takeWhile isTrimSpace,
    (((b.dropWhile isTrimSpace).reverse).takeWhile isTrimSpace).reverse, ?_, ?_, ?_⟩
  · intro c hc
    exact ⟨mem_takeWhile_pos _ _ _ hc, (List.takeWhile_sublist _).subset hc⟩
  · intro c hc
    rw [List.mem_reverse] at hc
    refine ⟨mem_takeWhile_pos _ _ _ hc, ?_⟩
    have h1 := (List.takeWhile_sublist _).subset hc
    rw [List.mem_reverse] at h1
    exact (List.dropWhile_sublist _).subset h1
  · unfold trimSpaceAscii
    rw [List.append_assoc, ← List.reverse_append, List.takeWhile_append_dropWhile,
      List.reverse_reverse, List.takeWhile_append_dropWhile]

/-! #### `trimSpace` -/

theorem trimSpace_pre (p x : Bytes) (hp : ∀ c ∈ p, isTrimSpace c = true) :
    trimSpace (p ++ x) = trimSpace x := by
  unfold trimSpace trimLeft
  rw [trimRunes_pre p x hp]

theorem trimSpace_post (x q : Bytes) (hq : ∀ c ∈ q, isTrimSpace c = true) :
    trimSpace (x ++ q) = trimSpace x := by
  unfold trimSpace trimLeft trimRightRev
  rcases trimRunes_post highOnly_left q hq x with h | ⟨h1, h2⟩
  · rw [h, List.reverse_append, trimRunes_pre _ _ (by simpa using hq)]
  · rw [h1, h2]

theorem trimSpace_surround (p x q : Bytes) (hp : ∀ c ∈ p, isTrimSpace c = true)
    (hq : ∀ c ∈ q, isTrimSpace c = true) : trimSpace (p ++ x ++ q) = trimSpace x := by
  rw [trimSpace_post _ _ hq, trimSpace_pre _ _ hp]

/-- an ASCII string is its trimmed version with ASCII white space around -/
theorem trimSpace_decomp (b : Bytes) (hb : ∀ c ∈ b, c < 128) :
    ∃ p q, (∀ c ∈ p, isTrimSpace c = true ∧ c ∈ b) ∧ (∀ c ∈ q, isTrimSpace c = true ∧ c ∈ b) ∧
      b = p ++ trimSpace b ++ q := by
  rw [trimSpace_eq_ascii b hb]
  exact trimSpaceAscii_decomp b

/-- the trimmed string is a contiguous part of the original -/
theorem trimSpace_infix (b : Bytes) : ∃ p q, b = p ++ trimSpace b ++ q := by
  have hsuf : ∀ (s2 : UInt8 → UInt8 → Bool) (s3 : UInt8 → UInt8 → UInt8 → Bool) (x : Bytes),
      ∃ p, x = p ++ trimRunes s2 s3 x := by
    intro s2 s3 x
    fun_induction trimRunes s2 s3 x with
    | case1 => exact ⟨[], rfl⟩
    | case2 c r hc ih => obtain ⟨p, hp⟩ := ih; exact ⟨c :: p, by rw [List.cons_append, ← hp]⟩
    | case3 c hc => exact ⟨[], rfl⟩
    | case4 c hc d r' h2 ih => obtain ⟨p, hp⟩ := ih; exact ⟨c :: d :: p, by simp only [List.cons_append, ← hp]⟩
    | case5 c hc d h2 => exact ⟨[], rfl⟩
    | case6 c hc d h2 e r'' h3 ih =>
      obtain ⟨p, hp⟩ := ih; exact ⟨c :: d :: e :: p, by simp only [List.cons_append, ← hp]⟩
    | case7 c hc d h2 e r'' h3 => exact ⟨[], rfl⟩
  obtain ⟨p, hp⟩ := hsuf isSp2 isSp3 b
  obtain ⟨q, hq⟩ := hsuf (fun c d => isSp2 d c) (fun c d e => isSp3 e d c) (trimLeft b).reverse
  refine ⟨p, q.reverse, ?_⟩
  have h2 : trimLeft b = trimSpace b ++ q.reverse := by
    have := congrArg List.reverse hq
    rw [List.reverse_reverse, List.reverse_append] at this
    exact this
  unfold trimLeft at h2
  rw [List.append_assoc, ← h2, ← hp]

/-- a string whose first and last characters are ASCII and not white space is its own trim -/
theorem trimSpace_tight (a z : UInt8) (m : Bytes) (ha : isTrimSpace a = false) (hz : isTrimSpace z = false)
    (ha' : a < 128) (hz' : z < 128) :
    trimSpace (a :: (m ++ [z])) = a :: (m ++ [z]) := by
  unfold trimSpace trimLeft trimRightRev
  rw [trimRunes_keep highOnly_left a _ ha ha']
  have : (a :: (m ++ [z])).reverse = z :: (m.reverse ++ [a]) := by simp
  rw [this, trimRunes_keep highOnly_right z _ hz hz', ← this, List.reverse_reverse]

theorem trimSpace_single (a : UInt8) (ha : isTrimSpace a = false) (ha' : a < 128) : trimSpace [a] = [a] := by
  unfold trimSpace trimLeft trimRightRev
  rw [trimRunes_keep highOnly_left a _ ha ha']
  simp only [List.reverse_cons, List.reverse_nil, List.nil_append]
  rw [trimRunes_keep highOnly_right a _ ha ha']
  rfl

/-! #### bytes that stop the trimming -/

/-- a byte that is neither white space nor part of any white-space rune -/
structure Inert (s2 : UInt8 → UInt8 → Bool) (s3 : UInt8 → UInt8 → UInt8 → Bool) (k : UInt8) : Prop where
  ns : isTrimSpace k = false
  a2 : ∀ d, s2 k d = false
  b2 : ∀ c, s2 c k = false
  a3 : ∀ d e, s3 k d e = false
  b3 : ∀ c e, s3 c k e = false
  c3 : ∀ c d, s3 c d k = false

section
variable {s2 : UInt8 → UInt8 → Bool} {s3 : UInt8 → UInt8 → UInt8 → Bool}

theorem trimRunes_inert_head {k : UInt8} (H : Inert s2 s3 k) (m : Bytes) :
    trimRunes s2 s3 (k :: m) = k :: m := by
  cases m with
  | nil => simp [trimRunes, H.ns]
  | cons d r' =>
    cases r' with
    | nil => simp [trimRunes, H.ns, H.a2 d]
    | cons e r'' => simp [trimRunes, H.ns, H.a2 d, H.a3 d e]

theorem trimRunes_inert_snoc {k : UInt8} (H : Inert s2 s3 k) (x : Bytes) :
    trimRunes s2 s3 (x ++ [k]) = trimRunes s2 s3 x ++ [k] := by
  fun_induction trimRunes s2 s3 x with
  | case1 => exact trimRunes_inert_head H []
  | case2 c r hc ih => rw [List.cons_append, trimRunes_cons_space _ _ hc]; exact ih
  | case3 c hc =>
    have hc' : isTrimSpace c = false := by simpa using hc
    simp [trimRunes, hc', H.b2 c]
  | case4 c hc d r' h2 ih =>
    have hc' : isTrimSpace c = false := by simpa using hc
    rw [List.cons_append, List.cons_append, trimRunes_cons2 _ _ _ hc' h2]
    exact ih
  | case5 c hc d h2 =>
    have hc' : isTrimSpace c = false := by simpa using hc
    have h2' : s2 c d = false := by simpa using h2
    simp [trimRunes, hc', h2', H.c3 c d]
  | case6 c hc d h2 e r'' h3 ih =>
    have hc' : isTrimSpace c = false := by simpa using hc
    have h2' : s2 c d = false := by simpa using h2
    rw [List.cons_append, List.cons_append, List.cons_append, trimRunes_cons3 _ _ _ _ hc' h2' h3]
    exact ih
  | case7 c hc d h2 e r'' h3 =>
    have hc' : isTrimSpace c = false := by simpa using hc
    have h2' : s2 c d = false := by simpa using h2
    have h3' : s3 c d e = false := by simpa using h3
    simp [trimRunes, hc', h2', h3']

/-- what is left after trimming does not start with ASCII white space -/
theorem trimRunes_head (x : Bytes) : ∀ a ∈ (trimRunes s2 s3 x).head?, isTrimSpace a = false := by
  fun_induction trimRunes s2 s3 x with
  | case1 => intro a h; simp at h
  | case2 c r hc ih => exact ih
  | case3 c hc => intro a h; simp at h; subst h; simpa using hc
  | case4 c hc d r' h2 ih => exact ih
  | case5 c hc d h2 => intro a h; simp at h; subst h; simpa using hc
  | case6 c hc d h2 e r'' h3 ih => exact ih
  | case7 c hc d h2 e r'' h3 => intro a h; simp at h; subst h; simpa using hc
end

/-- the first bytes of a binary saltpack message (bin8/16/32 tags) -/
def BinLead (k : UInt8) : Prop := k = 0xc4 ∨ k = 0xc5 ∨ k = 0xc6

theorem inert_left (k : UInt8) (h : BinLead k) : Inert isSp2 isSp3 k := by
  rcases h with rfl | rfl | rfl <;>
    exact ⟨by decide, by intro d; simp [isSp2], by intro c; simp [isSp2], by intro d e; simp [isSp3],
      by intro c e; simp [isSp3], by intro c d; simp [isSp3]⟩

theorem inert_right (k : UInt8) (h : BinLead k) : Inert (fun c d => isSp2 d c) (fun c d e => isSp3 e d c) k :=
  have H := inert_left k h
  ⟨H.ns, H.b2, H.a2, fun d e => H.c3 e d, fun c e => H.b3 e c, fun c d => H.a3 d c⟩

theorem trimSpace_binlead (k : UInt8) (h : BinLead k) (y : Bytes) : ∃ z, trimSpace (k :: y) = k :: z := by
  unfold trimSpace trimLeft trimRightRev
  rw [trimRunes_inert_head (inert_left k h), List.reverse_cons, trimRunes_inert_snoc (inert_right k h)]
  exact ⟨_, by rw [List.reverse_append]; rfl⟩

/-- the result of `strings.TrimSpace` neither starts nor ends with ASCII white space -/
theorem trimSpace_last (x : Bytes) : ∀ z ∈ (trimSpace x).getLast?, isTrimSpace z = false := by
  unfold trimSpace trimRightRev
  rw [List.getLast?_reverse]
  exact trimRunes_head _

/-! ### collapse -/

/-- the "inside a run" state after reading `a` -/
def endState : Bool → Bytes → Bool
  | r, [] => r
  | _, c :: cs => endState (isFrameSpace c) cs

theorem collapseAux_append (a b : Bytes) : ∀ r : Bool,
    collapseAux r (a ++ b) = collapseAux r a ++ collapseAux (endState r a) b := by
  induction a with
  | nil => intro r; simp [collapseAux, endState]
  | cons c cs ih =>
    intro r
    by_cases hc : isFrameSpace c = true
    · cases r <;> simp [collapseAux, endState, hc, ih]
    · simp [collapseAux, endState, hc, ih]

/-- a non-empty run of frame space collapses to one space (or nothing if already in a run) -/
theorem collapseAux_run (run b : Bytes) (hr : ∀ c ∈ run, isFrameSpace c = true) (hne : run ≠ []) (r : Bool) :
    collapseAux r (run ++ b) = (if r then [] else [space]) ++ collapseAux true b := by
  induction run generalizing r with
  | nil => exact absurd rfl hne
  | cons c cs ih =>
    have hc : isFrameSpace c = true := hr c (by simp)
    by_cases hcs : cs = []
    · subst hcs
      cases r <;> simp [collapseAux, hc]
    · have ih' := ih (fun y hy => hr y (by simp [hy])) hcs true
      cases r <;> simp [collapseAux, hc, ih']

theorem endState_run (run : Bytes) (hr : ∀ c ∈ run, isFrameSpace c = true) (hne : run ≠ []) (r : Bool) :
    endState r run = true := by
  induction run generalizing r with
  | nil => exact absurd rfl hne
  | cons c cs ih =>
    have hc : isFrameSpace c = true := hr c (by simp)
    by_cases hcs : cs = []
    · subst hcs; simp [endState, hc]
    · simp only [endState]
      exact ih (fun y hy => hr y (by simp [hy])) hcs _

/-- a run of frame space collapses to white space only -/
theorem collapseAux_allF (q : Bytes) (hq : ∀ c ∈ q, isFrameSpace c = true) :
    ∀ r : Bool, ∀ c ∈ collapseAux r q, isTrimSpace c = true := by
  induction q with
  | nil => intro r c h; simp [collapseAux] at h
  | cons x xs ih =>
    intro r c h
    have hx : isFrameSpace x = true := hq x (by simp)
    have ih' := ih (fun y hy => hq y (by simp [hy]))
    cases r
    · simp only [collapseAux, hx, if_true, Bool.false_eq_true, if_false, List.mem_cons] at h
      rcases h with h | h
      · subst h; decide
      · exact ih' true c h
    · simp only [collapseAux, hx, if_true] at h
      exact ih' true c h

/-- up to trimming, the initial state does not matter -/
theorem trim_collapseAux_state (x : Bytes) (r r' : Bool) :
    trimSpace (collapseAux r x) = trimSpace (collapseAux r' x) := by
  cases x with
  | nil => simp [collapseAux]
  | cons c cs =>
    have hsp : ∀ y : Bytes, trimSpace (space :: y) = trimSpace y := fun y =>
      trimSpace_pre [space] y (by simp; decide)
    by_cases hc : isFrameSpace c = true
    · cases r <;> cases r' <;> simp [collapseAux, hc, hsp]
    · simp [collapseAux, hc]

theorem trim_collapse_pre (p x : Bytes) (hp : ∀ c ∈ p, isFrameSpace c = true) (r : Bool) :
    trimSpace (collapseAux r (p ++ x)) = trimSpace (collapseAux r x) := by
  by_cases hne : p = []
  · subst hne; rfl
  · rw [collapseAux_run p x hp hne r,
      trimSpace_pre _ _ (by cases r <;> simp; decide)]
    exact trim_collapseAux_state x true r

theorem trim_collapse_post (x q : Bytes) (hq : ∀ c ∈ q, isFrameSpace c = true) (r : Bool) :
    trimSpace (collapseAux r (x ++ q)) = trimSpace (collapseAux r x) := by
  rw [collapseAux_append, trimSpace_post _ _ (collapseAux_allF q hq _)]

theorem trim_collapse_surround (p x q : Bytes) (hp : ∀ c ∈ p, isFrameSpace c = true)
    (hq : ∀ c ∈ q, isFrameSpace c = true) :
    trimSpace (collapse (p ++ x ++ q)) = trimSpace (collapse x) := by
  unfold collapse
  rw [trim_collapse_post _ _ hq, trim_collapse_pre _ _ hp]

/-- trimming white space first does not change the normal form, when the string
    is ASCII and the white space present is frame space -/
theorem trim_collapse_trim (b : Bytes) (hb : ∀ c ∈ b, c < 128)
    (h : ∀ c ∈ b, isTrimSpace c = true → isFrameSpace c = true) :
    trimSpace (collapse (trimSpace b)) = trimSpace (collapse b) := by
  obtain ⟨p, q, hp, hq, hb'⟩ := trimSpace_decomp b hb
  conv => rhs; rw [hb']
  rw [trim_collapse_surround p _ q (fun c hc => h c (hp c hc).2 (hp c hc).1)
    (fun c hc => h c (hq c hc).2 (hq c hc).1)]

/-- a string without frame space is unchanged -/
theorem collapseAux_word (w : Bytes) (hw : ∀ c ∈ w, isFrameSpace c = false) (r : Bool) :
    collapseAux r w = w := by
  induction w generalizing r with
  | nil => simp [collapseAux]
  | cons c cs ih =>
    have hc : isFrameSpace c = false := hw c (by simp)
    simp [collapseAux, hc, ih (fun y hy => hw y (by simp [hy]))]

theorem endState_word (w : Bytes) (hw : ∀ c ∈ w, isFrameSpace c = false) (hne : w ≠ []) (r : Bool) :
    endState r w = false := by
  induction w generalizing r with
  | nil => exact absurd rfl hne
  | cons c cs ih =>
    have hc : isFrameSpace c = false := hw c (by simp)
    by_cases hcs : cs = []
    · subst hcs; simp [endState, hc]
    · simp only [endState]
      exact ih (fun y hy => hw y (by simp [hy])) hcs _

/-- a canonical frame (non-empty words without frame space, single spaces) is
    its own collapse -/
theorem collapseAux_intercalate (ws : List Bytes) (hne : ws ≠ [])
    (hw : ∀ w ∈ ws, w ≠ [] ∧ ∀ c ∈ w, isFrameSpace c = false) (r : Bool) :
    collapseAux r (intercalateSp ws) = intercalateSp ws := by
  induction ws generalizing r with
  | nil => exact absurd rfl hne
  | cons w ws ih =>
    have hw1 := hw w (by simp)
    cases ws with
    | nil => simp [intercalateSp, collapseAux_word w hw1.2]
    | cons w' rest =>
      have ih' := ih (by simp) (fun y hy => hw y (by simp [hy])) true
      have hsp : isFrameSpace space = true := by decide
      simp only [intercalateSp, List.append_assoc, List.singleton_append]
      rw [collapseAux_append, collapseAux_word w hw1.2, endState_word w hw1.2 hw1.1]
      simp [collapseAux, hsp, ih']

/-! ### splitSp -/

theorem splitSp_go_word (w x cur : Bytes) (hw : ∀ c ∈ w, (c == space) = false) :
    splitSp.go (w ++ x) cur = splitSp.go x (w.reverse ++ cur) := by
  induction w generalizing cur with
  | nil => rfl
  | cons c cs ih =>
    have hc : (c == space) = false := hw c (by simp)
    simp only [List.cons_append, splitSp.go, hc, Bool.false_eq_true, if_false]
    rw [ih _ (fun y hy => hw y (by simp [hy]))]
    simp

theorem splitSp_go_intercalate (w : Bytes) (ws : List Bytes) (cur : Bytes)
    (hw : ∀ v ∈ w :: ws, ∀ c ∈ v, (c == space) = false) :
    splitSp.go (intercalateSp (w :: ws)) cur = (cur.reverse ++ w) :: ws := by
  induction ws generalizing w cur with
  | nil =>
    have := splitSp_go_word w [] cur (hw w (by simp))
    simp only [List.append_nil] at this
    simp [intercalateSp, this, splitSp.go]
  | cons w' rest ih =>
    have ih' := ih w' [] (fun v hv => hw v (by simp [List.mem_cons] at hv ⊢; right; exact hv))
    simp only [intercalateSp, List.append_assoc, List.singleton_append]
    rw [splitSp_go_word w _ cur (hw w (by simp))]
    simp only [splitSp.go, beq_self_eq_true, if_true]
    rw [ih']
    simp

theorem splitSp_intercalate (w : Bytes) (ws : List Bytes)
    (hw : ∀ v ∈ w :: ws, ∀ c ∈ v, (c == space) = false) :
    splitSp (intercalateSp (w :: ws)) = w :: ws := by
  unfold splitSp
  rw [splitSp_go_intercalate w ws [] hw]
  simp

/-! ### intercalateSp -/

theorem mem_intercalateSp (ws : List Bytes) : ∀ c ∈ intercalateSp ws, c = space ∨ ∃ w ∈ ws, c ∈ w := by
  induction ws with
  | nil => intro c h; simp [intercalateSp] at h
  | cons w ws ih =>
    intro c h
    cases ws with
    | nil =>
      simp only [intercalateSp] at h
      exact Or.inr ⟨w, by simp, h⟩
    | cons w' rest =>
      simp only [intercalateSp, List.append_assoc, List.singleton_append, List.mem_append,
        List.mem_cons] at h
      rcases h with h | h | h
      · exact Or.inr ⟨w, by simp, h⟩
      · exact Or.inl h
      · rcases ih c h with h' | ⟨v, hv, hc⟩
        · exact Or.inl h'
        · exact Or.inr ⟨v, by simp only [List.mem_cons] at hv ⊢; right; exact hv, hc⟩

theorem intercalateSp_cons_ne_nil (w : Bytes) (ws : List Bytes) (hw : w ≠ []) :
    intercalateSp (w :: ws) ≠ [] := by
  cases ws <;> simp [intercalateSp, hw]

theorem head?_intercalateSp (w : Bytes) (ws : List Bytes) (hw : w ≠ []) :
    (intercalateSp (w :: ws)).head? = w.head? := by
  cases w with
  | nil => exact absurd rfl hw
  | cons a m => cases ws <;> simp [intercalateSp]

theorem getLast?_append_ne (a b : Bytes) (h : b ≠ []) : (a ++ b).getLast? = b.getLast? := by
  cases b with
  | nil => exact absurd rfl h
  | cons x l => simp [List.getLast?_append, List.getLast?_cons]

theorem getLast?_intercalateSp (ws : List Bytes) (hw : ∀ w ∈ ws, w ≠ []) :
    ∀ z ∈ (intercalateSp ws).getLast?, ∃ w ∈ ws, z ∈ w := by
  induction ws with
  | nil => intro z h; simp [intercalateSp] at h
  | cons w ws ih =>
    intro z h
    cases ws with
    | nil =>
      simp only [intercalateSp] at h
      exact ⟨w, by simp, List.mem_of_getLast? h⟩
    | cons w' rest =>
      have hne : intercalateSp (w' :: rest) ≠ [] :=
        intercalateSp_cons_ne_nil w' rest (hw w' (by simp))
      simp only [intercalateSp, List.append_assoc] at h
      rw [getLast?_append_ne _ _ (by simp), getLast?_append_ne _ _ hne] at h
      obtain ⟨v, hv, hz⟩ := ih (fun y hy => hw y (by simp only [List.mem_cons] at hy ⊢; right; exact hy)) z h
      exact ⟨v, by simp only [List.mem_cons] at hv ⊢; right; exact hv, hz⟩

theorem dropWhile_id (y : Bytes) (h : ∀ a ∈ y.head?, isTrimSpace a = false) :
    y.dropWhile isTrimSpace = y := by
  cases y with
  | nil => rfl
  | cons a m =>
    have : isTrimSpace a = false := h a (by simp)
    simp [this]

theorem trimRunes_id {s2 : UInt8 → UInt8 → Bool} {s3 : UInt8 → UInt8 → UInt8 → Bool} (H : HighOnly s2 s3)
    (y : Bytes) (h : ∀ a ∈ y.head?, isTrimSpace a = false ∧ a < 128) : trimRunes s2 s3 y = y := by
  cases y with
  | nil => rfl
  | cons a m => exact trimRunes_keep H a m (h a (by simp)).1 (h a (by simp)).2

theorem trimSpace_id (x : Bytes) (h1 : ∀ a ∈ x.head?, isTrimSpace a = false ∧ a < 128)
    (h2 : ∀ z ∈ x.getLast?, isTrimSpace z = false ∧ z < 128) : trimSpace x = x := by
  unfold trimSpace trimLeft trimRightRev
  rw [trimRunes_id highOnly_left x h1, trimRunes_id highOnly_right x.reverse (by rw [List.head?_reverse]; exact h2),
    List.reverse_reverse]

theorem trimSpace_intercalate (ws : List Bytes)
    (hw : ∀ w ∈ ws, w ≠ [] ∧ ∀ c ∈ w, isTrimSpace c = false ∧ c < 128) :
    trimSpace (intercalateSp ws) = intercalateSp ws := by
  apply trimSpace_id
  · cases ws with
    | nil => intro a h; simp [intercalateSp] at h
    | cons w rest =>
      intro a h
      rw [head?_intercalateSp w rest (hw w (by simp)).1] at h
      exact (hw w (by simp)).2 a (List.mem_of_head? h)
  · intro z h
    obtain ⟨w, hw', hz⟩ := getLast?_intercalateSp ws (fun w h => (hw w h).1) z h
    exact (hw w hw').2 z hz

/-! ### the base62 encoder's output, words, filterSkip -/

theorem wf62 : params62.enc.WF := Basex.Enc.wf_of_check _ (by decide)

theorem encode_strict (e : Basex.Enc) (bs : Bytes) : Basex.encode e.strict bs = Basex.encode e bs := rfl

theorem encode_chars (e : Basex.Enc) (he : e.WF) (bs : Bytes) :
    ∀ c ∈ Basex.encode e bs, (e.digit? c).isSome = true := by
  intro c hc
  unfold Basex.encode at hc
  rw [List.mem_flatMap] at hc
  obtain ⟨blk, hblk, hc⟩ := hc
  unfold Basex.encodeBlock at hc
  rw [List.mem_map] at hc
  obtain ⟨d, hd, rfl⟩ := hc
  have hlen := (chunks_mem_length e.blockLen he.block_pos bs.length bs (Nat.le_refl _) blk hblk).2
  have hlt := (encodeBlock_value e he blk hlen).2 d hd
  rw [digit?_char he d hlt]
  rfl

theorem filterSkip_append (e : Basex.Enc) (a b : Bytes) :
    Basex.filterSkip e (a ++ b) = Basex.filterSkip e a ++ Basex.filterSkip e b := by
  unfold Basex.filterSkip
  exact List.filter_append ..

theorem filterSkip_run (run : Bytes) (hr : ∀ c ∈ run, isFrameSpace c = true) :
    Basex.filterSkip params62.enc run = [] := by
  unfold Basex.filterSkip
  rw [List.filter_eq_nil_iff]
  intro c hc
  have h1 : params62.enc.isSkip c = true := by rw [← frameSpace_iff_skip]; exact hr c hc
  simp [h1, skip_not_digit c h1]

theorem filterSkip_word (w : Bytes) (hw : ∀ c ∈ w, (params62.enc.digit? c).isSome = true) :
    Basex.filterSkip params62.enc w = w := by
  unfold Basex.filterSkip
  rw [List.filter_eq_self]
  intro c hc
  have := hw c hc
  simp [this]

theorem sep_frameSpace (b : Prop) [Decidable b] : isFrameSpace (if b then newline else space) = true := by
  split <;> decide

theorem filterSkip_spaceWords (ws : List Bytes)
    (hw : ∀ w ∈ ws, ∀ c ∈ w, (params62.enc.digit? c).isSome = true) (k : Nat) :
    Basex.filterSkip params62.enc (spaceWords params62 k ws) = ws.flatten := by
  induction ws generalizing k with
  | nil => simp [spaceWords, Basex.filterSkip]
  | cons w ws ih =>
    cases ws with
    | nil => simp [spaceWords, filterSkip_word w (hw w (by simp))]
    | cons w' rest =>
      have ih' := ih (fun y hy => hw y (by simp only [List.mem_cons] at hy ⊢; right; exact hy)) (k + 1)
      simp only [spaceWords, filterSkip_append, ih', filterSkip_word w (hw w (by simp))]
      rw [filterSkip_run [_] (by intro c hc; rw [List.mem_singleton] at hc; subst hc; exact sep_frameSpace _)]
      simp

theorem valid_spaceWords (ws : List Bytes)
    (hw : ∀ w ∈ ws, ∀ c ∈ w, (params62.enc.digit? c).isSome = true) (k : Nat) :
    ∀ c ∈ spaceWords params62 k ws, validByte params62 c = true := by
  induction ws generalizing k with
  | nil => intro c h; simp [spaceWords] at h
  | cons w ws ih =>
    intro c h
    cases ws with
    | nil =>
      simp only [spaceWords] at h
      exact (digit_facts c (hw w (by simp) c h)).1
    | cons w' rest =>
      simp only [spaceWords, List.mem_append, List.mem_singleton] at h
      rcases h with (h | h) | h
      · exact (digit_facts c (hw w (by simp) c h)).1
      · subst h; exact frameSpace_valid _ (sep_frameSpace _)
      · exact ih (fun y hy => hw y (by simp only [List.mem_cons] at hy ⊢; right; exact hy)) (k + 1) c h

end Saltpack.Proofs
