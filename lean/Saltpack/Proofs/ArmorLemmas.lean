/-
  Helper lemmas for Proofs/ArmorRT: `splitAt1`, `trimSpace`, `collapse`,
  `splitSp`, `spaceWords`.
-/
import Saltpack.Proofs.ArmorBytes

namespace Saltpack.Proofs
open Saltpack Saltpack.Armor

theorem mem_takeWhile_pos {α : Type} (p : α → Bool) : ∀ (l : List α) (c : α), c ∈ l.takeWhile p → p c = true := by
  intro l
  induction l with
  | nil => intro c h; simp at h
  | cons x xs ih =>
    intro c h
    rw [List.takeWhile_cons] at h
    split at h
    · rcases List.mem_cons.mp h with h | h
      · subst h; assumption
      · exact ih c h
    · simp at h

/-! ### splitAt1 -/

theorem splitAt1_append (c : UInt8) (a b : Bytes) (h : ∀ x ∈ a, x ≠ c) :
    splitAt1 c (a ++ c :: b) = some (a, b) := by
  induction a with
  | nil => simp [splitAt1]
  | cons x xs ih =>
    have hx : x ≠ c := h x (by simp)
    have ih' := ih (fun y hy => h y (by simp [hy]))
    simp [splitAt1, hx, ih']

theorem valid_ne_period (a : Bytes) (h : ∀ x ∈ a, validByte params62 x = true) :
    ∀ x ∈ a, x ≠ period := by
  intro x hx he
  have := h x hx
  rw [he, period_invalid] at this
  exact absurd this (by simp)

theorem all_valid (a : Bytes) (h : ∀ x ∈ a, validByte params62 x = true) :
    a.all (validByte params62) = true := by
  simpa [List.all_eq_true] using h

theorem toASCII_valid (a : Bytes) (h : ∀ x ∈ a, validByte params62 x = true) :
    toASCII params62 a = .ok (trimSpace a) := by
  unfold toASCII
  rw [all_valid a h]
  rfl

theorem no_period (a : Bytes) (h : ∀ x ∈ a, validByte params62 x = true) :
    a.any (· == period) = false := by
  rw [Bool.eq_false_iff]
  intro hc
  simp only [List.any_eq_true, beq_iff_eq] at hc
  obtain ⟨x, hx, he⟩ := hc
  exact valid_ne_period a h x hx he

/-! ### trimSpace -/

theorem dropWhile_allT (p x : Bytes) (hp : ∀ c ∈ p, isTrimSpace c = true) :
    (p ++ x).dropWhile isTrimSpace = x.dropWhile isTrimSpace := by
  induction p with
  | nil => rfl
  | cons c cs ih =>
    have hc : isTrimSpace c = true := hp c (by simp)
    simp only [List.cons_append, List.dropWhile_cons, hc, if_true]
    exact ih (fun y hy => hp y (by simp [hy]))

theorem trimSpace_pre (p x : Bytes) (hp : ∀ c ∈ p, isTrimSpace c = true) :
    trimSpace (p ++ x) = trimSpace x := by
  unfold trimSpace
  rw [dropWhile_allT p x hp]

theorem dropWhile_post (x q : Bytes) (hq : ∀ c ∈ q, isTrimSpace c = true) :
    (x ++ q).dropWhile isTrimSpace = x.dropWhile isTrimSpace ++ q ∨
    (x.dropWhile isTrimSpace = [] ∧ (x ++ q).dropWhile isTrimSpace = []) := by
  induction x with
  | nil =>
    right
    refine ⟨rfl, ?_⟩
    have := dropWhile_allT q [] hq
    simpa using this
  | cons c cs ih =>
    by_cases hc : isTrimSpace c = true
    · simp only [List.cons_append, List.dropWhile_cons, hc, if_true]
      exact ih
    · left
      simp [hc]

theorem trimSpace_post (x q : Bytes) (hq : ∀ c ∈ q, isTrimSpace c = true) :
    trimSpace (x ++ q) = trimSpace x := by
  unfold trimSpace
  rcases dropWhile_post x q hq with h | ⟨h1, h2⟩
  · rw [h, List.reverse_append, dropWhile_allT _ _ (by simpa using hq)]
  · rw [h1, h2]

theorem trimSpace_surround (p x q : Bytes) (hp : ∀ c ∈ p, isTrimSpace c = true)
    (hq : ∀ c ∈ q, isTrimSpace c = true) : trimSpace (p ++ x ++ q) = trimSpace x := by
  rw [trimSpace_post _ _ hq, trimSpace_pre _ _ hp]

/-- `b` is its trimmed version with white space around -/
theorem trimSpace_decomp (b : Bytes) :
    ∃ p q, (∀ c ∈ p, isTrimSpace c = true ∧ c ∈ b) ∧ (∀ c ∈ q, isTrimSpace c = true ∧ c ∈ b) ∧
      b = p ++ trimSpace b ++ q := by
  refine ⟨b.takeWhile isTrimSpace,
    (((b.dropWhile isTrimSpace).reverse).takeWhile isTrimSpace).reverse, ?_, ?_, ?_⟩
  · intro c hc
    exact ⟨mem_takeWhile_pos _ _ _ hc, (List.takeWhile_sublist _).subset hc⟩
  · intro c hc
    rw [List.mem_reverse] at hc
    refine ⟨mem_takeWhile_pos _ _ _ hc, ?_⟩
    have h1 := (List.takeWhile_sublist _).subset hc
    rw [List.mem_reverse] at h1
    exact (List.dropWhile_sublist _).subset h1
  · unfold trimSpace
    rw [List.append_assoc, ← List.reverse_append, List.takeWhile_append_dropWhile,
      List.reverse_reverse, List.takeWhile_append_dropWhile]

/-- a string whose first and last characters are not white space is its own trim -/
theorem trimSpace_tight (a z : UInt8) (m : Bytes) (ha : isTrimSpace a = false) (hz : isTrimSpace z = false) :
    trimSpace (a :: (m ++ [z])) = a :: (m ++ [z]) := by
  unfold trimSpace
  simp [ha, hz]

theorem trimSpace_single (a : UInt8) (ha : isTrimSpace a = false) : trimSpace [a] = [a] := by
  unfold trimSpace
  simp [ha]

/-! ### collapse -/

/-- the "inside a run" state after reading `a` -/
def endState : Bool → Bytes → Bool
  | r, [] => r
  | _, c :: cs => endState (isFrameSpace c) cs

theorem collapseAux_append (a b : Bytes) : ∀ r : Bool,
    collapseAux r (a ++ b) = collapseAux r a ++ collapseAux (endState r a) b := by
  induction a with
  | nil => intro r; simp [collapseAux, endState]
  | cons c cs ih =>
    intro r
    by_cases hc : isFrameSpace c = true
    · cases r <;> simp [collapseAux, endState, hc, ih]
    · simp [collapseAux, endState, hc, ih]

/-- a non-empty run of frame space collapses to one space (or nothing if already in a run) -/
theorem collapseAux_run (run b : Bytes) (hr : ∀ c ∈ run, isFrameSpace c = true) (hne : run ≠ []) (r : Bool) :
    collapseAux r (run ++ b) = (if r then [] else [space]) ++ collapseAux true b := by
  induction run generalizing r with
  | nil => exact absurd rfl hne
  | cons c cs ih =>
    have hc : isFrameSpace c = true := hr c (by simp)
    by_cases hcs : cs = []
    · subst hcs
      cases r <;> simp [collapseAux, hc]
    · have ih' := ih (fun y hy => hr y (by simp [hy])) hcs true
      cases r <;> simp [collapseAux, hc, ih']

theorem endState_run (run : Bytes) (hr : ∀ c ∈ run, isFrameSpace c = true) (hne : run ≠ []) (r : Bool) :
    endState r run = true := by
  induction run generalizing r with
  | nil => exact absurd rfl hne
  | cons c cs ih =>
    have hc : isFrameSpace c = true := hr c (by simp)
    by_cases hcs : cs = []
    · subst hcs; simp [endState, hc]
    · simp only [endState]
      exact ih (fun y hy => hr y (by simp [hy])) hcs _

/-- a run of frame space collapses to white space only -/
theorem collapseAux_allF (q : Bytes) (hq : ∀ c ∈ q, isFrameSpace c = true) :
    ∀ r : Bool, ∀ c ∈ collapseAux r q, isTrimSpace c = true := by
  induction q with
  | nil => intro r c h; simp [collapseAux] at h
  | cons x xs ih =>
    intro r c h
    have hx : isFrameSpace x = true := hq x (by simp)
    have ih' := ih (fun y hy => hq y (by simp [hy]))
    cases r
    · simp only [collapseAux, hx, if_true, Bool.false_eq_true, if_false, List.mem_cons] at h
      rcases h with h | h
      · subst h; decide
      · exact ih' true c h
    · simp only [collapseAux, hx, if_true] at h
      exact ih' true c h

/-- up to trimming, the initial state does not matter -/
theorem trim_collapseAux_state (x : Bytes) (r r' : Bool) :
    trimSpace (collapseAux r x) = trimSpace (collapseAux r' x) := by
  cases x with
  | nil => simp [collapseAux]
  | cons c cs =>
    have hsp : ∀ y : Bytes, trimSpace (space :: y) = trimSpace y := fun y =>
      trimSpace_pre [space] y (by simp; decide)
    by_cases hc : isFrameSpace c = true
    · cases r <;> cases r' <;> simp [collapseAux, hc, hsp]
    · simp [collapseAux, hc]

theorem trim_collapse_pre (p x : Bytes) (hp : ∀ c ∈ p, isFrameSpace c = true) (r : Bool) :
    trimSpace (collapseAux r (p ++ x)) = trimSpace (collapseAux r x) := by
  by_cases hne : p = []
  · subst hne; rfl
  · rw [collapseAux_run p x hp hne r,
      trimSpace_pre _ _ (by cases r <;> simp; decide)]
    exact trim_collapseAux_state x true r

theorem trim_collapse_post (x q : Bytes) (hq : ∀ c ∈ q, isFrameSpace c = true) (r : Bool) :
    trimSpace (collapseAux r (x ++ q)) = trimSpace (collapseAux r x) := by
  rw [collapseAux_append, trimSpace_post _ _ (collapseAux_allF q hq _)]

theorem trim_collapse_surround (p x q : Bytes) (hp : ∀ c ∈ p, isFrameSpace c = true)
    (hq : ∀ c ∈ q, isFrameSpace c = true) :
    trimSpace (collapse (p ++ x ++ q)) = trimSpace (collapse x) := by
  unfold collapse
  rw [trim_collapse_post _ _ hq, trim_collapse_pre _ _ hp]

/-- trimming ASCII white space first does not change the normal form, when the
    white space present is frame space -/
theorem trim_collapse_trim (b : Bytes) (h : ∀ c ∈ b, isTrimSpace c = true → isFrameSpace c = true) :
    trimSpace (collapse (trimSpace b)) = trimSpace (collapse b) := by
  obtain ⟨p, q, hp, hq, hb⟩ := trimSpace_decomp b
  conv => rhs; rw [hb]
  rw [trim_collapse_surround p _ q (fun c hc => h c (hp c hc).2 (hp c hc).1)
    (fun c hc => h c (hq c hc).2 (hq c hc).1)]

/-- a string without frame space is unchanged -/
theorem collapseAux_word (w : Bytes) (hw : ∀ c ∈ w, isFrameSpace c = false) (r : Bool) :
    collapseAux r w = w := by
  induction w generalizing r with
  | nil => simp [collapseAux]
  | cons c cs ih =>
    have hc : isFrameSpace c = false := hw c (by simp)
    simp [collapseAux, hc, ih (fun y hy => hw y (by simp [hy]))]

theorem endState_word (w : Bytes) (hw : ∀ c ∈ w, isFrameSpace c = false) (hne : w ≠ []) (r : Bool) :
    endState r w = false := by
  induction w generalizing r with
  | nil => exact absurd rfl hne
  | cons c cs ih =>
    have hc : isFrameSpace c = false := hw c (by simp)
    by_cases hcs : cs = []
    · subst hcs; simp [endState, hc]
    · simp only [endState]
      exact ih (fun y hy => hw y (by simp [hy])) hcs _

/-- a canonical frame (non-empty words without frame space, single spaces) is
    its own collapse -/
theorem collapseAux_intercalate (ws : List Bytes) (hne : ws ≠ [])
    (hw : ∀ w ∈ ws, w ≠ [] ∧ ∀ c ∈ w, isFrameSpace c = false) (r : Bool) :
    collapseAux r (intercalateSp ws) = intercalateSp ws := by
  induction ws generalizing r with
  | nil => exact absurd rfl hne
  | cons w ws ih =>
    have hw1 := hw w (by simp)
    cases ws with
    | nil => simp [intercalateSp, collapseAux_word w hw1.2]
    | cons w' rest =>
      have ih' := ih (by simp) (fun y hy => hw y (by simp [hy])) true
      have hsp : isFrameSpace space = true := by decide
      simp only [intercalateSp, List.append_assoc, List.singleton_append]
      rw [collapseAux_append, collapseAux_word w hw1.2, endState_word w hw1.2 hw1.1]
      simp [collapseAux, hsp, ih']

/-! ### splitSp -/

theorem splitSp_go_word (w x cur : Bytes) (hw : ∀ c ∈ w, (c == space) = false) :
    splitSp.go (w ++ x) cur = splitSp.go x (w.reverse ++ cur) := by
  induction w generalizing cur with
  | nil => rfl
  | cons c cs ih =>
    have hc : (c == space) = false := hw c (by simp)
    simp only [List.cons_append, splitSp.go, hc, Bool.false_eq_true, if_false]
    rw [ih _ (fun y hy => hw y (by simp [hy]))]
    simp

theorem splitSp_go_intercalate (w : Bytes) (ws : List Bytes) (cur : Bytes)
    (hw : ∀ v ∈ w :: ws, ∀ c ∈ v, (c == space) = false) :
    splitSp.go (intercalateSp (w :: ws)) cur = (cur.reverse ++ w) :: ws := by
  induction ws generalizing w cur with
  | nil =>
    have := splitSp_go_word w [] cur (hw w (by simp))
    simp only [List.append_nil] at this
    simp [intercalateSp, this, splitSp.go]
  | cons w' rest ih =>
    have ih' := ih w' [] (fun v hv => hw v (by simp [List.mem_cons] at hv ⊢; right; exact hv))
    simp only [intercalateSp, List.append_assoc, List.singleton_append]
    rw [splitSp_go_word w _ cur (hw w (by simp))]
    simp only [splitSp.go, beq_self_eq_true, if_true]
    rw [ih']
    simp

theorem splitSp_intercalate (w : Bytes) (ws : List Bytes)
    (hw : ∀ v ∈ w :: ws, ∀ c ∈ v, (c == space) = false) :
    splitSp (intercalateSp (w :: ws)) = w :: ws := by
  unfold splitSp
  rw [splitSp_go_intercalate w ws [] hw]
  simp

/-! ### intercalateSp -/

theorem mem_intercalateSp (ws : List Bytes) : ∀ c ∈ intercalateSp ws, c = space ∨ ∃ w ∈ ws, c ∈ w := by
  induction ws with
  | nil => intro c h; simp [intercalateSp] at h
  | cons w ws ih =>
    intro c h
    cases ws with
    | nil =>
      simp only [intercalateSp] at h
      exact Or.inr ⟨w, by simp, h⟩
    | cons w' rest =>
      simp only [intercalateSp, List.append_assoc, List.singleton_append, List.mem_append,
        List.mem_cons] at h
      rcases h with h | h | h
      · exact Or.inr ⟨w, by simp, h⟩
      · exact Or.inl h
      · rcases ih c h with h' | ⟨v, hv, hc⟩
        · exact Or.inl h'
        · exact Or.inr ⟨v, by simp only [List.mem_cons] at hv ⊢; right; exact hv, hc⟩

theorem intercalateSp_cons_ne_nil (w : Bytes) (ws : List Bytes) (hw : w ≠ []) :
    intercalateSp (w :: ws) ≠ [] := by
  cases ws <;> simp [intercalateSp, hw]

theorem head?_intercalateSp (w : Bytes) (ws : List Bytes) (hw : w ≠ []) :
    (intercalateSp (w :: ws)).head? = w.head? := by
  cases w with
  | nil => exact absurd rfl hw
  | cons a m => cases ws <;> simp [intercalateSp]

theorem getLast?_append_ne (a b : Bytes) (h : b ≠ []) : (a ++ b).getLast? = b.getLast? := by
  cases b with
  | nil => exact absurd rfl h
  | cons x l => simp [List.getLast?_append, List.getLast?_cons]

theorem getLast?_intercalateSp (ws : List Bytes) (hw : ∀ w ∈ ws, w ≠ []) :
    ∀ z ∈ (intercalateSp ws).getLast?, ∃ w ∈ ws, z ∈ w := by
  induction ws with
  | nil => intro z h; simp [intercalateSp] at h
  | cons w ws ih =>
    intro z h
    cases ws with
    | nil =>
      simp only [intercalateSp] at h
      exact ⟨w, by simp, List.mem_of_getLast? h⟩
    | cons w' rest =>
      have hne : intercalateSp (w' :: rest) ≠ [] :=
        intercalateSp_cons_ne_nil w' rest (hw w' (by simp))
      simp only [intercalateSp, List.append_assoc] at h
      rw [getLast?_append_ne _ _ (by simp), getLast?_append_ne _ _ hne] at h
      obtain ⟨v, hv, hz⟩ := ih (fun y hy => hw y (by simp only [List.mem_cons] at hy ⊢; right; exact hy)) z h
      exact ⟨v, by simp only [List.mem_cons] at hv ⊢; right; exact hv, hz⟩

theorem dropWhile_id (y : Bytes) (h : ∀ a ∈ y.head?, isTrimSpace a = false) :
    y.dropWhile isTrimSpace = y := by
  cases y with
  | nil => rfl
  | cons a m =>
    have : isTrimSpace a = false := h a (by simp)
    simp [this]

theorem trimSpace_id (x : Bytes) (h1 : ∀ a ∈ x.head?, isTrimSpace a = false)
    (h2 : ∀ z ∈ x.getLast?, isTrimSpace z = false) : trimSpace x = x := by
  unfold trimSpace
  rw [dropWhile_id x h1, dropWhile_id x.reverse (by rw [List.head?_reverse]; exact h2),
    List.reverse_reverse]

theorem trimSpace_intercalate (ws : List Bytes)
    (hw : ∀ w ∈ ws, w ≠ [] ∧ ∀ c ∈ w, isTrimSpace c = false) :
    trimSpace (intercalateSp ws) = intercalateSp ws := by
  apply trimSpace_id
  · cases ws with
    | nil => intro a h; simp [intercalateSp] at h
    | cons w rest =>
      intro a h
      rw [head?_intercalateSp w rest (hw w (by simp)).1] at h
      exact (hw w (by simp)).2 a (List.mem_of_head? h)
  · intro z h
    obtain ⟨w, hw', hz⟩ := getLast?_intercalateSp ws (fun w h => (hw w h).1) z h
    exact (hw w hw').2 z hz

/-! ### the base62 encoder's output, words, filterSkip -/

theorem wf62 : params62.enc.WF := Basex.Enc.wf_of_check _ (by decide)

theorem encode_strict (e : Basex.Enc) (bs : Bytes) : Basex.encode e.strict bs = Basex.encode e bs := rfl

theorem encode_chars (e : Basex.Enc) (he : e.WF) (bs : Bytes) :
    ∀ c ∈ Basex.encode e bs, (e.digit? c).isSome = true := by
  intro c hc
  unfold Basex.encode at hc
  rw [List.mem_flatMap] at hc
  obtain ⟨blk, hblk, hc⟩ := hc
  unfold Basex.encodeBlock at hc
  rw [List.mem_map] at hc
  obtain ⟨d, hd, rfl⟩ := hc
  have hlen := (chunks_mem_length e.blockLen he.block_pos bs.length bs (Nat.le_refl _) blk hblk).2
  have hlt := (encodeBlock_value e he blk hlen).2 d hd
  rw [digit?_char he d hlt]
  rfl

theorem filterSkip_append (e : Basex.Enc) (a b : Bytes) :
    Basex.filterSkip e (a ++ b) = Basex.filterSkip e a ++ Basex.filterSkip e b := by
  unfold Basex.filterSkip
  exact List.filter_append ..

theorem filterSkip_run (run : Bytes) (hr : ∀ c ∈ run, isFrameSpace c = true) :
    Basex.filterSkip params62.enc run = [] := by
  unfold Basex.filterSkip
  rw [List.filter_eq_nil_iff]
  intro c hc
  have h1 : params62.enc.isSkip c = true := by rw [← frameSpace_iff_skip]; exact hr c hc
  simp [h1, skip_not_digit c h1]

theorem filterSkip_word (w : Bytes) (hw : ∀ c ∈ w, (params62.enc.digit? c).isSome = true) :
    Basex.filterSkip params62.enc w = w := by
  unfold Basex.filterSkip
  rw [List.filter_eq_self]
  intro c hc
  have := hw c hc
  simp [this]

theorem sep_frameSpace (b : Prop) [Decidable b] : isFrameSpace (if b then newline else space) = true := by
  split <;> decide

theorem filterSkip_spaceWords (ws : List Bytes)
    (hw : ∀ w ∈ ws, ∀ c ∈ w, (params62.enc.digit? c).isSome = true) (k : Nat) :
    Basex.filterSkip params62.enc (spaceWords params62 k ws) = ws.flatten := by
  induction ws generalizing k with
  | nil => simp [spaceWords, Basex.filterSkip]
  | cons w ws ih =>
    cases ws with
    | nil => simp [spaceWords, filterSkip_word w (hw w (by simp))]
    | cons w' rest =>
      have ih' := ih (fun y hy => hw y (by simp only [List.mem_cons] at hy ⊢; right; exact hy)) (k + 1)
      simp only [spaceWords, filterSkip_append, ih', filterSkip_word w (hw w (by simp))]
      rw [filterSkip_run [_] (by intro c hc; rw [List.mem_singleton] at hc; subst hc; exact sep_frameSpace _)]
      simp

theorem valid_spaceWords (ws : List Bytes)
    (hw : ∀ w ∈ ws, ∀ c ∈ w, (params62.enc.digit? c).isSome = true) (k : Nat) :
    ∀ c ∈ spaceWords params62 k ws, validByte params62 c = true := by
  induction ws generalizing k with
  | nil => intro c h; simp [spaceWords] at h
  | cons w ws ih =>
    intro c h
    cases ws with
    | nil =>
      simp only [spaceWords] at h
      exact (digit_facts c (hw w (by simp) c h)).1
    | cons w' rest =>
      simp only [spaceWords, List.mem_append, List.mem_singleton] at h
      rcases h with (h | h) | h
      · exact (digit_facts c (hw w (by simp) c h)).1
      · subst h; exact frameSpace_valid _ (sep_frameSpace _)
      · exact ih (fun y hy => hw y (by simp only [List.mem_cons] at hy ⊢; right; exact hy)) (k + 1) c h

end Saltpack.Proofs
