/-
  The sender streams over a faulting writer, whole runs: the invariant of the
  healthy states (`AliveE`: what has reached the writer is the header packet and
  the non-final packets of the full blocks taken so far, the rest is buffered),
  its preservation by `Write`, what `Close` does from it, and what is left at
  the writer after a fault (`PrefixOK`: a prefix of the all-at-once output of
  every continuation of the plaintext).

  Behind Props/C14Sender.lean and Props/C13Sender.lean.
-/
import Saltpack.Proofs.SenderStream

namespace Saltpack.Proofs.SenderP
open Saltpack Saltpack.Sender

section alive
variable {ω : Type} (wr : ω → Bytes → Bool × ω) (obs : ω → Bytes)

/-- the healthy states: `E` = the full blocks emitted so far (a ghost), `T` = the
    plaintext accepted so far, `hdr` = what the constructor left at the writer -/
structure AliveE (cfg : Cfg) (hdr T : Bytes) (E : List Bytes) (st : PSt ω) : Prop where
  cons : E.flatten ++ st.buf = T
  full : ∀ e ∈ E, e.length = cfg.bs
  n : st.n = E.length
  healthy : st.codec.failed = false
  noerr : st.err = none
  body : ∃ body, planBytes cfg.pkt (E.map (·, false)) 0 = .ok body ∧ obs st.codec.w = hdr ++ body

/-- `W` is a prefix of the all-at-once output for every continuation of `T` -/
def PrefixOK (cfg : Cfg) (v : Version) (hdr W T : Bytes) : Prop :=
  ∀ X B, planBytes cfg.pkt (Encrypt.chunkPlan v cfg.bs (T ++ X)) 0 = .ok B → W <+: hdr ++ B

theorem readPanics_full (v1s : Bool) (x bs k n : Nat) (hb : 0 < bs) :
    readPanics v1s false bs bs k = false ∧ assertPanics v1s x false bs n = false := by
  unfold readPanics assertPanics
  cases v1s <;> simp <;> omega

theorem planBytes_single (pkt : Nat → Bytes → Bool → Except Err Bytes) (i : Nat) (c : Bytes) (f : Bool) (b : Bytes)
    (h : pkt i c f = .ok b) : planBytes pkt [(c, f)] i = .ok b := by
  simp [planBytes, h]

theorem planBytes_snoc (pkt : Nat → Bytes → Bool → Except Err Bytes) (a : List (Bytes × Bool)) (c : Bytes) (f : Bool)
    (A b : Bytes) (h1 : planBytes pkt a 0 = .ok A) (h2 : pkt a.length c f = .ok b) :
    planBytes pkt (a ++ [(c, f)]) 0 = .ok (A ++ b) :=
  (planBytes_append pkt a [(c, f)] 0 (A ++ b)).2 ⟨A, b, h1, by simpa using planBytes_single pkt a.length c f b h2, rfl⟩

/-- the `Write` loop from a healthy state: it ends healthy with at most one
    block buffered, or it fails — then the stream is dead and what reached the
    writer is a prefix of the all-at-once output of every continuation -/
theorem alive_writeLoop (hw : ObsWriter wr obs) (cfg : Cfg) (hp : ∀ b, (cfg.pieces b).flatten = b)
    (hb : 0 < cfg.bs) (hif : IndexFail cfg.pkt) (v : Version) (hdr T : Bytes) (len : Nat) :
    ∀ (fuel : Nat) (E : List Bytes) (st : PSt ω), AliveE obs cfg hdr T E st → st.buf.length < fuel →
      (st.buf = [] → E = []) →
      ((writeLoop wr cfg len fuel st).1 = len ∧ (writeLoop wr cfg len fuel st).2.1 = none ∧
        ∃ E', AliveE obs cfg hdr T E' (writeLoop wr cfg len fuel st).2.2 ∧
          (writeLoop wr cfg len fuel st).2.2.buf.length ≤ cfg.bs ∧
          ((writeLoop wr cfg len fuel st).2.2.buf = [] → E' = [])) ∨
      ((writeLoop wr cfg len fuel st).1 = 0 ∧ ∃ e, (writeLoop wr cfg len fuel st).2.1 = some e ∧
        Dead cfg (writeLoop wr cfg len fuel st).2.2 ∧
        PrefixOK cfg v hdr (obs (writeLoop wr cfg len fuel st).2.2.codec.w) T ∧
        (cfg.hasErr = true → (writeLoop wr cfg len fuel st).2.2.err = some e)) := by
  intro fuel
  induction fuel with
  | zero => intro E st _ hf; omega
  | succ fuel ih =>
    intro E st ha hf hne
    unfold writeLoop
    by_cases hgt : st.buf.length > cfg.bs
    · rw [if_pos hgt]
      have hclen : (st.buf.take cfg.bs).length = cfg.bs := by rw [List.length_take]; omega
      have hdlen : (st.buf.drop cfg.bs).length = st.buf.length - cfg.bs := List.length_drop
      have hdne : st.buf.drop cfg.bs ≠ [] := by
        intro h0; rw [h0] at hdlen; simp at hdlen; omega
      have hT : T = (E ++ [st.buf.take cfg.bs]).flatten ++ st.buf.drop cfg.bs := by
        rw [← ha.cons]; simp
      have hfull' : ∀ e ∈ E ++ [st.buf.take cfg.bs], e.length = cfg.bs := by
        intro e he
        rcases List.mem_append.mp he with he | he
        · exact ha.full e he
        · simp only [List.mem_singleton] at he; rw [he, hclen]
      obtain ⟨body, hbody, hobs⟩ := ha.body
      obtain ⟨hbuf, herr, hc⟩ := emitBlock_cases wr obs hw cfg hp false st
      have hnp := readPanics_full cfg.v1shape cfg.assertExtra cfg.bs (st.buf.drop cfg.bs).length st.n hb
      rcases hc with ⟨s, _, _, _, hpan⟩ | ⟨e, hpk, h1, h2, h3⟩ | ⟨b, hpk, _, _, hc⟩
      · rw [hclen] at hpan
        rcases hpan with h | h
        · rw [hnp.1] at h; cases h
        · rw [hnp.2] at h; cases h
      · -- the packet number is refused: nothing written
        right
        cases he : emitBlock wr cfg false st with
        | mk r st' =>
          rw [he] at h1 h2 h3
          simp only at h1 h2 h3
          subst h1
          simp only
          have hdead : Dead cfg st' := by
            right; intro c f; rw [h3]; exact hif _ _ _ _ hpk c f
          have hpre : PrefixOK cfg v hdr (obs st'.codec.w) T := by
            intro X B hB
            rw [h2, hobs]
            have hpl : E.map (·, false) <+: Encrypt.chunkPlan v cfg.bs (T ++ X) := by
              rw [← ha.cons, List.append_assoc]
              apply nonfinal_prefix v cfg.bs hb E _ ha.full
              intro h0
              have h00 := (List.append_eq_nil_iff.mp h0).1
              rw [h00] at hgt; simp at hgt
            obtain ⟨A, hA, hAB⟩ := planBytes_prefix cfg.pkt _ _ B hpl hB
            rw [hbody] at hA
            injection hA with hA
            rw [← hA] at hAB
            exact (List.prefix_append_right_inj hdr).2 hAB
          refine ⟨by simp, e, by simp, ?_, ?_, ?_⟩
          · by_cases hh : cfg.hasErr = true
            · simp only [hh, if_true]; exact hdead
            · simp only [hh, Bool.false_eq_true, if_false]; exact hdead
          · by_cases hh : cfg.hasErr = true
            · simp only [hh, if_true]; exact hpre
            · simp only [hh, Bool.false_eq_true, if_false]; exact hpre
          · intro hh; simp [hh]
      · rw [ha.n] at hpk
        have hplan' : planBytes cfg.pkt ((E ++ [st.buf.take cfg.bs]).map (·, false)) 0 = .ok (body ++ b) := by
          rw [List.map_append]
          exact planBytes_snoc cfg.pkt _ _ false body b hbody (by simpa using hpk)
        rcases hc with ⟨h1, h2, _, h4, h5⟩ | ⟨h1, _, h3, _, q, hq, h5⟩
        · -- a complete non-final packet
          cases he : emitBlock wr cfg false st with
          | mk r st' =>
            rw [he] at h1 h2 h4 h5 hbuf herr
            simp only at h1 h2 h4 h5 hbuf herr
            subst h1
            simp only
            have ha' : AliveE obs cfg hdr T (E ++ [st.buf.take cfg.bs]) st' :=
              ⟨by rw [hbuf]; exact hT.symm, hfull', by rw [h2, ha.n]; simp, h4, by rw [herr]; exact ha.noerr,
               ⟨body ++ b, hplan', by rw [h5, hobs, List.append_assoc]⟩⟩
            exact ih (E ++ [st.buf.take cfg.bs]) st' ha' (by rw [hbuf, hdlen]; omega)
              (fun h0 => absurd (by rw [← hbuf]; exact h0) hdne)
        · -- `Encode` failed inside the packet
          right
          cases he : emitBlock wr cfg false st with
          | mk r st' =>
            rw [he] at h1 h3 h5
            simp only at h1 h3 h5
            subst h1
            simp only
            have hdead : Dead cfg st' := Or.inl h3
            have hpre : PrefixOK cfg v hdr (obs st'.codec.w) T := by
              intro X B hB
              rw [h5, hobs]
              have hpl : (E ++ [st.buf.take cfg.bs]).map (·, false) <+: Encrypt.chunkPlan v cfg.bs (T ++ X) := by
                rw [hT, List.append_assoc]
                apply nonfinal_prefix v cfg.bs hb _ _ hfull'
                intro h0
                exact hdne (List.append_eq_nil_iff.mp h0).1
              obtain ⟨A, hA, hAB⟩ := planBytes_prefix cfg.pkt _ _ B hpl hB
              rw [hplan'] at hA
              injection hA with hA
              rw [← hA] at hAB
              rw [List.append_assoc]
              apply (List.prefix_append_right_inj hdr).2
              exact List.IsPrefix.trans ((List.prefix_append_right_inj body).2 hq) hAB
            refine ⟨by simp, .ioError, by simp, ?_, ?_, ?_⟩
            · by_cases hh : cfg.hasErr = true
              · simp only [hh, if_true]; exact hdead
              · simp only [hh, Bool.false_eq_true, if_false]; exact hdead
            · by_cases hh : cfg.hasErr = true
              · simp only [hh, if_true]; exact hpre
              · simp only [hh, Bool.false_eq_true, if_false]; exact hpre
            · intro hh; simp [hh]
    · rw [if_neg hgt]
      left
      exact ⟨rfl, rfl, E, ha, Nat.le_of_not_gt hgt, hne⟩

/-- `Write` from a healthy, settled state -/
theorem alive_write (hw : ObsWriter wr obs) (cfg : Cfg) (hp : ∀ b, (cfg.pieces b).flatten = b)
    (hb : 0 < cfg.bs) (hif : IndexFail cfg.pkt) (v : Version) (hdr T : Bytes) (E : List Bytes) (st : PSt ω) (p : Bytes)
    (ha : AliveE obs cfg hdr T E st) (hne : st.buf = [] → E = []) :
    ((st.write wr cfg p).1 = p.length ∧ (st.write wr cfg p).2.1 = none ∧
      ∃ E', AliveE obs cfg hdr (T ++ p) E' (st.write wr cfg p).2.2 ∧
        (st.write wr cfg p).2.2.buf.length ≤ cfg.bs ∧ ((st.write wr cfg p).2.2.buf = [] → E' = [])) ∨
    ((st.write wr cfg p).1 = 0 ∧ ∃ e, (st.write wr cfg p).2.1 = some e ∧ Dead cfg (st.write wr cfg p).2.2 ∧
      PrefixOK cfg v hdr (obs (st.write wr cfg p).2.2.codec.w) (T ++ p) ∧
      (cfg.hasErr = true → (st.write wr cfg p).2.2.err = some e)) := by
  unfold PSt.write
  have h0 : (if cfg.hasErr then st.err else none) = none := by rw [ha.noerr]; simp
  rw [h0]
  simp only
  have ha1 : AliveE obs cfg hdr (T ++ p) E ({ st with buf := st.buf ++ p } : PSt ω) :=
    ⟨by rw [← ha.cons]; simp, ha.full, ha.n, ha.healthy, ha.noerr, ha.body⟩
  exact alive_writeLoop wr obs hw cfg hp hb hif v hdr (T ++ p) p.length _ E _ ha1 (by simp)
    (fun h => hne (List.append_eq_nil_iff.mp h).1)

/-- one block from a healthy state (`pl` = the plan emitted so far) when the
    read-state checks pass: a complete packet — or an error that is the
    writer's or the packet function's, the stream is dead, and what reached the
    writer is a prefix of the bytes of every plan that continues with this block -/
theorem healthy_emit (hw : ObsWriter wr obs) (cfg : Cfg) (hp : ∀ b, (cfg.pieces b).flatten = b)
    (hif : IndexFail cfg.pkt) (hdr : Bytes) (pl : List (Bytes × Bool)) (body : Bytes) (st : PSt ω) (f : Bool)
    (hn : st.n = pl.length) (hbody : planBytes cfg.pkt pl 0 = .ok body) (hobs : obs st.codec.w = hdr ++ body)
    (hnr : readPanics cfg.v1shape f cfg.bs (st.buf.take cfg.bs).length (st.buf.drop cfg.bs).length = false)
    (hna : assertPanics cfg.v1shape cfg.assertExtra f (st.buf.take cfg.bs).length st.n = false) :
    (∃ b, (emitBlock wr cfg f st).1 = none ∧
        planBytes cfg.pkt (pl ++ [(st.buf.take cfg.bs, f)]) 0 = .ok (body ++ b) ∧
        obs (emitBlock wr cfg f st).2.codec.w = hdr ++ (body ++ b) ∧
        (emitBlock wr cfg f st).2.n = pl.length + 1 ∧ (emitBlock wr cfg f st).2.codec.failed = false) ∨
    (∃ e, (emitBlock wr cfg f st).1 = some e ∧
        (e = .ioError ∨ cfg.pkt st.n (st.buf.take cfg.bs) f = .error e) ∧ Dead cfg (emitBlock wr cfg f st).2 ∧
        ∀ plan B, pl ++ [(st.buf.take cfg.bs, f)] <+: plan → planBytes cfg.pkt plan 0 = .ok B →
          obs (emitBlock wr cfg f st).2.codec.w <+: hdr ++ B) := by
  obtain ⟨_, _, hc⟩ := emitBlock_cases wr obs hw cfg hp f st
  rcases hc with ⟨s, _, _, _, hpan⟩ | ⟨e, hpk, h1, h2, h3⟩ | ⟨b, hpk, _, _, hc⟩
  · rcases hpan with h | h
    · rw [hnr] at h; cases h
    · rw [hna] at h; cases h
  · right
    refine ⟨e, h1, Or.inr hpk, ?_, ?_⟩
    · right; intro c f'; rw [h3]; exact hif _ _ _ _ hpk c f'
    · intro plan B hpre hB
      rw [h2, hobs]
      have hpre' : pl <+: plan := List.IsPrefix.trans (List.prefix_append _ _) hpre
      obtain ⟨A, hA, hAB⟩ := planBytes_prefix cfg.pkt _ _ B hpre' hB
      rw [hbody] at hA
      injection hA with hA
      rw [← hA] at hAB
      exact (List.prefix_append_right_inj hdr).2 hAB
  · rw [hn] at hpk
    have hplan' := planBytes_snoc cfg.pkt pl _ f body b hbody hpk
    rcases hc with ⟨h1, h2, _, h4, h5⟩ | ⟨h1, _, h3, _, q, hq, h5⟩
    · left
      exact ⟨b, h1, hplan', by rw [h5, hobs, List.append_assoc], by rw [h2, hn], h4⟩
    · right
      refine ⟨.ioError, h1, Or.inl rfl, Or.inl h3, ?_⟩
      intro plan B hpre hB
      obtain ⟨A, hA, hAB⟩ := planBytes_prefix cfg.pkt _ _ B hpre hB
      rw [hplan'] at hA
      injection hA with hA
      rw [← hA] at hAB
      rw [h5, hobs, List.append_assoc]
      apply (List.prefix_append_right_inj hdr).2
      exact List.IsPrefix.trans ((List.prefix_append_right_inj body).2 hq) hAB

theorem readPanics_last (v1s : Bool) (x bs len n : Nat) (hlen : len ≤ bs) :
    (v1s = true → 0 < len → readPanics v1s false bs len 0 = false ∧ assertPanics v1s x false len n = false) ∧
    (v1s = true → ∀ m, readPanics v1s true bs 0 0 = false ∧ assertPanics v1s x true 0 m = false) ∧
    (v1s = false → (len = 0 → n = 0) → readPanics v1s true bs len 0 = false ∧ assertPanics v1s x true len n = false) := by
  unfold readPanics assertPanics
  refine ⟨?_, ?_, ?_⟩
  · intro h hl; subst h; simp; omega
  · intro h m; subst h; simp
  · intro h hn; subst h; simp
    refine ⟨by omega, ?_⟩
    intro h0 _; exact hn h0

/-- `Close` from a healthy, settled state: success with exactly the all-at-once
    output at the writer — or an error (the writer's, or the packet function's),
    the stream dead and a prefix of the all-at-once output at the writer.  Never
    one of the stream's own panics. -/
theorem alive_close (hw : ObsWriter wr obs) (cfg : Cfg) (hp : ∀ b, (cfg.pieces b).flatten = b)
    (hb : 0 < cfg.bs) (hif : IndexFail cfg.pkt) (v : Version) (hv : cfg.v1shape = (v == v1))
    (hdr T : Bytes) (E : List Bytes) (st : PSt ω)
    (ha : AliveE obs cfg hdr T E st) (hbound : st.buf.length ≤ cfg.bs) (hne : st.buf = [] → E = []) :
    ((st.close wr cfg).1 = none ∧ ∃ B, planBytes cfg.pkt (Encrypt.chunkPlan v cfg.bs T) 0 = .ok B ∧
        obs (st.close wr cfg).2.codec.w = hdr ++ B) ∨
    (∃ e, (st.close wr cfg).1 = some e ∧ (e = .ioError ∨ ∃ i c f, cfg.pkt i c f = .error e) ∧
        Dead cfg (st.close wr cfg).2 ∧
        ∀ B, planBytes cfg.pkt (Encrypt.chunkPlan v cfg.bs T) 0 = .ok B →
          obs (st.close wr cfg).2.codec.w <+: hdr ++ B) := by
  have hplan := settled_plan v cfg.bs hb E st.buf ha.full hbound hne
  rw [ha.cons] at hplan
  have htake : st.buf.take cfg.bs = st.buf := List.take_of_length_le hbound
  have hdrop : st.buf.drop cfg.bs = [] := List.drop_of_length_le hbound
  obtain ⟨body, hbody, hobs⟩ := ha.body
  have hn0 : st.n = (E.map (fun x => (x, false))).length := by rw [ha.n]; simp
  obtain ⟨hp1, hp2, hp3⟩ := readPanics_last cfg.v1shape cfg.assertExtra cfg.bs st.buf.length st.n hbound
  unfold PSt.close
  by_cases hv1 : v = v1
  · have hs : cfg.v1shape = true := by rw [hv]; simp [hv1]
    rw [if_pos hv1] at hplan
    simp only [hs, if_true]
    by_cases hgt : st.buf.length > 0
    · simp only [hgt, if_true]
      have hbne : st.buf ≠ [] := by intro h0; rw [h0] at hgt; simp at hgt
      rw [if_neg hbne] at hplan
      have h1 := healthy_emit wr obs hw cfg hp hif hdr _ body st false hn0 hbody hobs
        (by rw [htake, hdrop]; exact (hp1 hs hgt).1) (by rw [htake]; exact (hp1 hs hgt).2)
      obtain ⟨hbuf1, _, _⟩ := emitBlock_cases wr obs hw cfg hp false st
      rw [htake] at h1
      cases he : emitBlock wr cfg false st with
      | mk r st1 =>
        rw [he] at h1 hbuf1
        simp only at h1 hbuf1
        rcases h1 with ⟨b, hr, hpl, ho, hn1, _⟩ | ⟨e, hr, hwho, hd, hall⟩
        · subst hr
          simp only
          have hb1 : st1.buf = [] := by rw [hbuf1, hdrop]
          have : ¬ st1.buf.length > 0 := by rw [hb1]; simp
          rw [if_neg this]
          have h2 := healthy_emit wr obs hw cfg hp hif hdr _ (body ++ b) st1 true
            (by rw [hn1]; simp) hpl ho
            (by rw [hb1]; simpa using (hp2 hs st1.n).1) (by rw [hb1]; simpa using (hp2 hs st1.n).2)
          rw [hb1] at h2
          simp only [List.take_nil] at h2
          rcases h2 with ⟨b2, hr2, hpl2, ho2, _, _⟩ | ⟨e, hr2, hwho, hd, hall⟩
          · left
            exact ⟨hr2, body ++ b ++ b2, by rw [hplan]; exact hpl2, ho2⟩
          · right
            refine ⟨e, hr2, ?_, hd, fun B hB => hall _ B (by rw [hplan]; exact List.prefix_rfl) hB⟩
            rcases hwho with h | h
            · exact Or.inl h
            · exact Or.inr ⟨_, _, _, h⟩
        · subst hr
          right
          refine ⟨e, rfl, ?_, hd, fun B hB => hall _ B (by rw [hplan]; exact List.prefix_append _ _) hB⟩
          rcases hwho with h | h
          · exact Or.inl h
          · exact Or.inr ⟨_, _, _, h⟩
    · simp only [hgt, if_false]
      have hb0 : st.buf = [] := List.length_eq_zero_iff.mp (by omega)
      rw [if_pos hb0, List.append_nil] at hplan
      have h2 := healthy_emit wr obs hw cfg hp hif hdr _ body st true hn0 hbody hobs
        (by rw [hb0]; simpa using (hp2 hs st.n).1) (by rw [hb0]; simpa using (hp2 hs st.n).2)
      rw [hb0] at h2
      simp only [List.take_nil] at h2
      rcases h2 with ⟨b2, hr2, hpl2, ho2, _, _⟩ | ⟨e, hr2, hwho, hd, hall⟩
      · left
        exact ⟨hr2, body ++ b2, by rw [hplan]; exact hpl2, ho2⟩
      · right
        refine ⟨e, hr2, ?_, hd, fun B hB => hall _ B (by rw [hplan]; exact List.prefix_rfl) hB⟩
        rcases hwho with h | h
        · exact Or.inl h
        · exact Or.inr ⟨_, _, _, h⟩
  · have hs : cfg.v1shape = false := by rw [hv]; simp [hv1]
    rw [if_neg hv1] at hplan
    simp only [hs, Bool.false_eq_true, if_false]
    have hnn : st.buf.length = 0 → st.n = 0 := by
      intro h0
      rw [ha.n, hne (List.length_eq_zero_iff.mp h0)]; rfl
    have h2 := healthy_emit wr obs hw cfg hp hif hdr _ body st true hn0 hbody hobs
      (by rw [htake, hdrop]; exact (hp3 hs hnn).1) (by rw [htake]; exact (hp3 hs hnn).2)
    rw [htake] at h2
    rcases h2 with ⟨b2, hr2, hpl2, ho2, _, _⟩ | ⟨e, hr2, hwho, hd, hall⟩
    · left
      exact ⟨hr2, body ++ b2, by rw [hplan]; exact hpl2, ho2⟩
    · right
      refine ⟨e, hr2, ?_, hd, fun B hB => hall _ B (by rw [hplan]; exact List.prefix_rfl) hB⟩
      rcases hwho with h | h
      · exact Or.inl h
      · exact Or.inr ⟨_, _, _, h⟩

/-! ## whole runs -/

/-- the invariant of a run: healthy and settled, or dead with a prefix of the
    all-at-once output (of every continuation of some prefix `T0` of the
    plaintext written so far) at the writer -/
inductive RunInv (cfg : Cfg) (v : Version) (hdr T : Bytes) (st : PSt ω) : Prop
  | alive (E : List Bytes) (ha : AliveE obs cfg hdr T E st) (hbd : st.buf.length ≤ cfg.bs)
      (hne : st.buf = [] → E = [])
  | dead (hd : Dead cfg st) (T0 : Bytes) (hpre : T0 <+: T) (hok : PrefixOK cfg v hdr (obs st.codec.w) T0)

theorem runInv_write (hw : ObsWriter wr obs) (cfg : Cfg) (hp : ∀ b, (cfg.pieces b).flatten = b)
    (hb : 0 < cfg.bs) (hif : IndexFail cfg.pkt) (v : Version) (hdr T : Bytes) (st : PSt ω) (p : Bytes)
    (h : RunInv obs cfg v hdr T st) : RunInv obs cfg v hdr (T ++ p) (st.write wr cfg p).2.2 := by
  cases h with
  | alive E ha hbd hne =>
    rcases alive_write wr obs hw cfg hp hb hif v hdr T E st p ha hne with ⟨_, _, E', ha', hbd', hne'⟩ | ⟨_, e, _, hd, hok, _⟩
    · exact .alive E' ha' hbd' hne'
    · exact .dead hd (T ++ p) List.prefix_rfl hok
  | dead hd T0 hpre hok =>
    obtain ⟨ho, hd'⟩ := dead_write wr obs hw cfg hp st p hd
    exact .dead hd' T0 (List.IsPrefix.trans hpre (List.prefix_append _ _)) (by rw [ho]; exact hok)

theorem runInv_writes (hw : ObsWriter wr obs) (cfg : Cfg) (hp : ∀ b, (cfg.pieces b).flatten = b)
    (hb : 0 < cfg.bs) (hif : IndexFail cfg.pkt) (v : Version) (hdr : Bytes) (ps : List Bytes) :
    ∀ (T : Bytes) (st : PSt ω), RunInv obs cfg v hdr T st →
      RunInv obs cfg v hdr (T ++ ps.flatten) (PSt.writes wr cfg st ps).2 := by
  induction ps with
  | nil => intro T st h; simpa [PSt.writes] using h
  | cons p ps ih =>
    intro T st h
    have := ih (T ++ p) _ (runInv_write wr obs hw cfg hp hb hif v hdr T st p h)
    simpa [PSt.writes, List.append_assoc] using this

/-- if every `Write` of a run from a healthy state reported success, the state
    is healthy again and each `Write` returned the length of its argument -/
theorem alive_writes_ok (hw : ObsWriter wr obs) (cfg : Cfg) (hp : ∀ b, (cfg.pieces b).flatten = b)
    (hb : 0 < cfg.bs) (hif : IndexFail cfg.pkt) (v : Version) (hdr : Bytes) (ps : List Bytes) :
    ∀ (T : Bytes) (E : List Bytes) (st : PSt ω), AliveE obs cfg hdr T E st → st.buf.length ≤ cfg.bs →
      (st.buf = [] → E = []) → (∀ x ∈ (PSt.writes wr cfg st ps).1, x.2 = none) →
      (∃ E', AliveE obs cfg hdr (T ++ ps.flatten) E' (PSt.writes wr cfg st ps).2 ∧
        (PSt.writes wr cfg st ps).2.buf.length ≤ cfg.bs ∧ ((PSt.writes wr cfg st ps).2.buf = [] → E' = [])) ∧
      (PSt.writes wr cfg st ps).1 = ps.map (fun p => (p.length, none)) := by
  induction ps with
  | nil => intro T E st ha hbd hne _; exact ⟨⟨E, by simpa [PSt.writes] using ha, hbd, hne⟩, rfl⟩
  | cons p ps ih =>
    intro T E st ha hbd hne hall
    rcases alive_write wr obs hw cfg hp hb hif v hdr T E st p ha hne with ⟨h1, h2, E', ha', hbd', hne'⟩ | ⟨_, e, h2, _⟩
    · obtain ⟨hA, hB⟩ := ih (T ++ p) E' _ ha' hbd' hne' (fun x hx => hall x (by simp [PSt.writes, hx]))
      refine ⟨?_, ?_⟩
      · simpa [PSt.writes, List.append_assoc] using hA
      · simp only [PSt.writes, List.map_cons, hB]
        rw [h1, h2]
    · have := hall ((st.write wr cfg p).1, (st.write wr cfg p).2.1) (by simp [PSt.writes])
      simp only at this
      rw [h2] at this; cases this

/-- the constructor: the stream is healthy with the header packet at the
    writer, or `Encode(headerBytes)` failed and a prefix of it is there -/
theorem init_inv (hw : ObsWriter wr obs) (cfg : Cfg) (hp : ∀ b, (cfg.pieces b).flatten = b) (v : Version)
    (w0 : ω) (hbytes : Bytes) :
    ((PSt.init wr cfg.pieces w0 hbytes).1 = true ∧
      AliveE obs cfg (obs w0 ++ headerPacket hbytes) [] [] (PSt.init wr cfg.pieces w0 hbytes).2 ∧
      (PSt.init wr cfg.pieces w0 hbytes).2.buf = []) ∨
    ((PSt.init wr cfg.pieces w0 hbytes).1 = false ∧ Dead cfg (PSt.init wr cfg.pieces w0 hbytes).2 ∧
      PrefixOK cfg v (obs w0 ++ headerPacket hbytes) (obs (PSt.init wr cfg.pieces w0 hbytes).2.codec.w) []) := by
  obtain ⟨q, hq, ho, hall, hf⟩ := encode_obs wr obs hw cfg.pieces hp ({ w := w0 } : Codec ω) (headerPacket hbytes) rfl
  unfold PSt.init
  cases he : Codec.encode wr cfg.pieces ({ w := w0 } : Codec ω) (headerPacket hbytes) with
  | mk ok c =>
    rw [he] at ho hall hf
    simp only at ho hall hf ⊢
    cases ok with
    | true =>
      left
      refine ⟨by simp, ⟨rfl, by simp, rfl, by simpa using hf, rfl, [], rfl, ?_⟩, by simp⟩
      simp only [List.append_nil]
      rw [ho, hall rfl]
    | false =>
      right
      refine ⟨by simp, Or.inl (by simpa using hf), ?_⟩
      intro X B _
      rw [ho, List.append_assoc]
      apply (List.prefix_append_right_inj (obs w0)).2
      exact List.IsPrefix.trans hq (List.prefix_append _ _)

theorem runInv_init (hw : ObsWriter wr obs) (cfg : Cfg) (hp : ∀ b, (cfg.pieces b).flatten = b) (v : Version)
    (w0 : ω) (hbytes : Bytes) :
    RunInv obs cfg v (obs w0 ++ headerPacket hbytes) [] (PSt.init wr cfg.pieces w0 hbytes).2 := by
  rcases init_inv wr obs hw cfg hp v w0 hbytes with ⟨_, ha, hb0⟩ | ⟨_, hd, hok⟩
  · exact .alive [] ha (by rw [hb0]; simp) (fun _ => rfl)
  · exact .dead hd [] List.prefix_rfl hok

/-- **On failure too**: after the constructor, any `Write`s and `Close`,
    whatever failed and whatever the calls returned, what has reached the
    writer is a prefix of the all-at-once output for the concatenation of
    everything passed to `Write` -/
theorem run_prefix (hw : ObsWriter wr obs) (cfg : Cfg) (hp : ∀ b, (cfg.pieces b).flatten = b)
    (hb : 0 < cfg.bs) (hif : IndexFail cfg.pkt) (v : Version) (hv : cfg.v1shape = (v == v1))
    (w0 : ω) (hbytes : Bytes) (ws : List Bytes) (B : Bytes)
    (hB : planBytes cfg.pkt (Encrypt.chunkPlan v cfg.bs ws.flatten) 0 = .ok B) :
    obs ((PSt.writes wr cfg (PSt.init wr cfg.pieces w0 hbytes).2 ws).2.close wr cfg).2.codec.w <+:
      obs w0 ++ headerPacket hbytes ++ B := by
  have h := runInv_writes wr obs hw cfg hp hb hif v _ ws [] _ (runInv_init wr obs hw cfg hp v w0 hbytes)
  rw [List.nil_append] at h
  cases h with
  | alive E ha hbd hne =>
    rcases alive_close wr obs hw cfg hp hb hif v hv _ _ E _ ha hbd hne with ⟨_, B', hB', ho⟩ | ⟨e, _, _, _, hall⟩
    · rw [hB] at hB'
      injection hB' with hB'
      rw [ho, hB']
      exact List.prefix_rfl
    · exact hall B hB
  | dead hd T0 hpre hok =>
    obtain ⟨_, ho, _⟩ := dead_close wr obs hw cfg hp _ hd
    rw [ho]
    obtain ⟨X, hX⟩ := hpre
    exact hok X B (by rw [hX]; exact hB)

/-- **Success means written**: if the constructor, every `Write` and `Close`
    reported success, exactly the all-at-once output has reached the writer -/
theorem run_success (hw : ObsWriter wr obs) (cfg : Cfg) (hp : ∀ b, (cfg.pieces b).flatten = b)
    (hb : 0 < cfg.bs) (hif : IndexFail cfg.pkt) (v : Version) (hv : cfg.v1shape = (v == v1))
    (w0 : ω) (hbytes : Bytes) (ws : List Bytes)
    (hi : (PSt.init wr cfg.pieces w0 hbytes).1 = true)
    (hws : ∀ x ∈ (PSt.writes wr cfg (PSt.init wr cfg.pieces w0 hbytes).2 ws).1, x.2 = none)
    (hc : ((PSt.writes wr cfg (PSt.init wr cfg.pieces w0 hbytes).2 ws).2.close wr cfg).1 = none) :
    ∃ B, planBytes cfg.pkt (Encrypt.chunkPlan v cfg.bs ws.flatten) 0 = .ok B ∧
      obs ((PSt.writes wr cfg (PSt.init wr cfg.pieces w0 hbytes).2 ws).2.close wr cfg).2.codec.w =
        obs w0 ++ headerPacket hbytes ++ B ∧
      (PSt.writes wr cfg (PSt.init wr cfg.pieces w0 hbytes).2 ws).1 = ws.map (fun p => (p.length, none)) := by
  rcases init_inv wr obs hw cfg hp v w0 hbytes with ⟨_, ha, hb0⟩ | ⟨hf, _, _⟩
  · obtain ⟨⟨E', ha', hbd', hne'⟩, hres⟩ := alive_writes_ok wr obs hw cfg hp hb hif v _ ws [] [] _ ha
      (by rw [hb0]; simp) (fun _ => rfl) hws
    rw [List.nil_append] at ha'
    rcases alive_close wr obs hw cfg hp hb hif v hv _ _ E' _ ha' hbd' hne' with ⟨_, B, hB, ho⟩ | ⟨e, he, _⟩
    · exact ⟨B, hB, ho, hres⟩
    · rw [hc] at he; cases he
  · rw [hi] at hf; cases hf

end alive

end Saltpack.Proofs.SenderP
