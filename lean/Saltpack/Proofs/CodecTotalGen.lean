/-
  Saltpack.Proofs.CodecTotalGen — `Sp` (see CodecTotal.lean) for the generic reader and `swallow`:
  the fuel lemmas.  Core Lean only.
-/
import Saltpack.Proofs.CodecTotal

namespace Saltpack.Proofs.CodecP
open Saltpack Saltpack.Msgpack Saltpack.Codec

theorem nakedScalar_sp {N : Nat} (c : Nat) : Sp 0 N (nakedScalar c) := by unfold nakedScalar; sp
macro_rules | `(tactic| sp_leaf) => `(tactic| exact (nakedScalar_sp _).mono (by omega))

theorem nakedExt_sp {N : Nat} (c : Nat) : Sp 0 N (nakedExt c) := by unfold nakedExt; sp
macro_rules | `(tactic| sp_leaf) => `(tactic| exact (nakedExt_sp _).mono (by omega))

/-! ### the generic reader: fuel `2·N + 1` (values) / `2·N + 2` (element loops) is enough -/

theorem gen_all : ∀ fuel : Nat,
    (∀ N rem, 2 * N + 1 ≤ fuel → Sp 1 N (gen fuel rem)) ∧
    (∀ N rem n, 2 * N + 2 ≤ fuel → Sp 0 N (genArr fuel rem n)) ∧
    (∀ N rem n keys, 2 * N + 2 ≤ fuel → Sp 0 N (genMap fuel rem n keys))
  | 0 => ⟨fun _ _ h => by omega, fun _ _ _ h => by omega, fun _ _ _ _ h => by omega⟩
  | fuel + 1 => by
    obtain ⟨ihG, ihA, ihM⟩ := gen_all fuel
    refine ⟨fun N rem h => ?_, fun N rem n h => ?_, fun N rem n keys h => ?_⟩
    · unfold gen; sp
    · cases n with
      | zero => unfold genArr; sp
      | succ n => unfold genArr; sp
    · cases n with
      | zero => unfold genMap; sp
      | succ n => unfold genMap; sp

theorem gen_sp (fuel N rem : Nat) (h : 2 * N + 1 ≤ fuel) : Sp 1 N (gen fuel rem) := (gen_all fuel).1 N rem h
macro_rules | `(tactic| sp_leaf) => `(tactic| exact (gen_sp _ _ _ (by omega)).mono (by omega))
macro_rules | `(tactic| sp_leaf) => `(tactic| exact Sp.discard ((gen_sp _ _ _ (by omega)).mono (by omega)))

theorem swallow_all : ∀ fuel : Nat,
    (∀ N rem, 2 * N + 1 ≤ fuel → Sp 1 N (swallow fuel rem)) ∧
    (∀ N rem n, 2 * N + 2 ≤ fuel → Sp 0 N (swallowN fuel rem n))
  | 0 => ⟨fun _ _ h => by omega, fun _ _ _ h => by omega⟩
  | fuel + 1 => by
    obtain ⟨ihS, ihN⟩ := swallow_all fuel
    refine ⟨fun N rem h => ?_, fun N rem n h => ?_⟩
    · unfold swallow; sp
    · cases n with
      | zero => unfold swallowN; sp
      | succ n => unfold swallowN; sp

theorem swallow_sp (fuel N rem : Nat) (h : 2 * N + 1 ≤ fuel) : Sp 1 N (swallow fuel rem) := (swallow_all fuel).1 N rem h
theorem swallowN_sp (fuel N rem n : Nat) (h : 2 * N + 2 ≤ fuel) : Sp 0 N (swallowN fuel rem n) :=
  (swallow_all fuel).2 N rem n h
macro_rules | `(tactic| sp_leaf) => `(tactic| exact (swallow_sp _ _ _ (by omega)).mono (by omega))
macro_rules | `(tactic| sp_leaf) => `(tactic| exact (swallowN_sp _ _ _ _ (by omega)).mono (by omega))

end Saltpack.Proofs.CodecP
