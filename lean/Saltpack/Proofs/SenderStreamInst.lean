/-
  The sender streams over a faulting writer: the instantiations.  go-codec's
  segmentation `codecPieces` is a segmentation; the packet functions of the three
  modes refuse by packet number only; the all-at-once output `oneShot` of the
  stream configurations is `Encrypt.sealWith` / `Sign.attachedWith` /
  `Signcrypt.sealWith`; the detached-signature stream.

  Behind Props/C14Sender.lean and Props/C13Sender.lean.
-/
import Saltpack.Proofs.SenderStreamFaults

namespace Saltpack.Proofs.SenderP
open Saltpack Saltpack.Sender Msgpack

/-! ## the segmentation -/

theorem cutBy_flatten : ∀ (ns : List Nat) (b : Bytes), (cutBy ns b).flatten = b := by
  intro ns
  induction ns with
  | nil => intro b; unfold cutBy; by_cases h : b.isEmpty = true <;> simp_all
  | cons n ns ih =>
    intro b
    unfold cutBy
    by_cases h : b.isEmpty = true
    · simp_all
    · simp only [h, Bool.false_eq_true, if_false]
      by_cases hn : n = 0
      · simp only [hn, if_true]; exact ih b
      · simp only [hn, if_false, List.flatten_cons, ih, List.take_append_drop]

theorem cutBy_nonempty : ∀ (ns : List Nat) (b : Bytes), ∀ p ∈ cutBy ns b, p ≠ [] := by
  intro ns
  induction ns with
  | nil =>
    intro b p hp
    unfold cutBy at hp
    by_cases h : b.isEmpty = true
    · simp [h] at hp
    · simp only [h, Bool.false_eq_true, if_false, List.mem_singleton] at hp
      subst hp
      intro h0; simp [h0] at h
  | cons n ns ih =>
    intro b p hp
    unfold cutBy at hp
    by_cases h : b.isEmpty = true
    · simp [h] at hp
    · simp only [h, Bool.false_eq_true, if_false] at hp
      by_cases hn : n = 0
      · simp only [hn, if_true] at hp; exact ih b p hp
      · simp only [hn, if_false, List.mem_cons] at hp
        rcases hp with rfl | hp
        · intro h0
          have hb : b ≠ [] := by intro hb; simp [hb] at h
          rcases List.take_eq_nil_iff.mp h0 with h1 | h1
          · exact hn h1
          · exact hb h1
        · exact ih _ p hp

/-- go-codec's write pattern is a segmentation of the encoded value into
    non-empty pieces -/
theorem codecPieces_flatten (b : Bytes) : (codecPieces b).flatten = b := cutBy_flatten _ b

theorem codecPieces_nonempty (b : Bytes) : ∀ p ∈ codecPieces b, p ≠ [] := cutBy_nonempty _ b

/-! ## the packet functions refuse by packet number only -/

section
variable (P : Prims)

theorem encPkt_indexFail (v : Version) (pk hh : Bytes) (mks : List Bytes) : IndexFail (encPkt P v pk hh mks) := by
  intro i c f e h c' f'
  unfold encPkt Encrypt.blockStruct payloadHash encBlockVal at h ⊢
  by_cases hbn : blockNumberOK i = true <;> by_cases h1 : v.major = 1 <;> by_cases h2 : v.major = 2 <;>
    by_cases hv1 : v = v1 <;> by_cases hv2 : v = v2 <;> simp_all

theorem sigPkt_indexFail (v : Version) (signer hh : Bytes) : IndexFail (sigPkt P v signer hh) := by
  intro i c f e h c' f'
  unfold sigPkt Sign.blockStruct attachedSignatureInput sigBlockVal at h ⊢
  by_cases h1 : v.major = 1 <;> by_cases h2 : v.major = 2 <;>
    by_cases hv1 : v = v1 <;> by_cases hv2 : v = v2 <;> simp_all

theorem scPkt_indexFail (sender : Option Bytes) (pk hh : Bytes) : IndexFail (scPkt P sender pk hh) := by
  intro i c f e h c' f'
  unfold scPkt Signcrypt.blockStruct at h ⊢
  by_cases hbn : blockNumberOK i = true <;> simp_all

/-! ## the all-at-once output -/

theorem enc_planBytes_ok (v : Version) (pk hh : Bytes) (mks : List Bytes) :
    ∀ (plan : List (Bytes × Bool)) (i : Nat) (B : Bytes),
      planBytes (encPkt P v pk hh mks) plan i = .ok B ↔
        ∃ blks, Encrypt.blockStructs P v pk hh mks plan i = .ok blks ∧ Encrypt.encodeBlocks v blks = .ok B := by
  intro plan
  induction plan with
  | nil => intro i B; simp [planBytes, Encrypt.blockStructs, Encrypt.encodeBlocks, eq_comm]
  | cons x plan ih =>
    intro i B
    obtain ⟨c, f⟩ := x
    simp only [planBytes, Encrypt.blockStructs, encPkt]
    cases hb : Encrypt.blockStruct P v pk hh mks i c f with
    | error e => simp
    | ok b =>
      simp only
      cases hr : planBytes (encPkt P v pk hh mks) plan (i + 1) with
      | error e =>
        have hno : ∀ blks R, Encrypt.blockStructs P v pk hh mks plan (i + 1) = .ok blks →
            Encrypt.encodeBlocks v blks = .ok R → False := by
          intro blks R h1 h2
          have := (ih (i + 1) R).2 ⟨blks, h1, h2⟩
          rw [hr] at this; cases this
        cases hv : encBlockVal v b.auths b.ct b.final with
        | error e' =>
          simp only
          constructor
          · intro h; cases h
          · rintro ⟨blks, h1, h2⟩
            cases hbs : Encrypt.blockStructs P v pk hh mks plan (i + 1) with
            | error e'' => simp [hbs] at h1
            | ok rest =>
              simp only [hbs] at h1
              injection h1 with h1
              subst h1
              simp [Encrypt.encodeBlocks, hv] at h2
        | ok val =>
          simp only
          constructor
          · intro h; cases h
          · rintro ⟨blks, h1, h2⟩
            cases hbs : Encrypt.blockStructs P v pk hh mks plan (i + 1) with
            | error e'' => simp [hbs] at h1
            | ok rest =>
              simp only [hbs] at h1
              injection h1 with h1
              subst h1
              simp only [Encrypt.encodeBlocks, hv] at h2
              cases her : Encrypt.encodeBlocks v rest with
              | error e3 => simp [her] at h2
              | ok R => exact (hno rest R hbs her).elim
      | ok R =>
        obtain ⟨rest, hrest, henc⟩ := (ih (i + 1) R).1 hr
        simp only [hrest]
        cases hv : encBlockVal v b.auths b.ct b.final with
        | error e' =>
          simp only
          constructor
          · intro h; cases h
          · rintro ⟨blks, h1, h2⟩
            injection h1 with h1
            subst h1
            simp [Encrypt.encodeBlocks, hv] at h2
        | ok val =>
          simp only
          constructor
          · intro h
            injection h with h
            exact ⟨b :: rest, rfl, by simp [Encrypt.encodeBlocks, hv, henc, h]⟩
          · rintro ⟨blks, h1, h2⟩
            injection h1 with h1
            subst h1
            simp only [Encrypt.encodeBlocks, hv, henc] at h2
            injection h2 with h2
            rw [h2]

/-- `Encrypt.sealWith` succeeds with `M` exactly when the stream configuration
    exists and its all-at-once output is `M` -/
theorem sealWith_iff_oneShot (bs : Nat) (pieces : Bytes → List Bytes) (v : Version) (sender : Option Bytes)
    (rs : List Encrypt.Recipient) (eph pk pt M : Bytes) :
    Encrypt.sealWith P bs v sender rs eph pk pt = .ok M ↔
      ∃ hb cfg, encryptSetup P bs pieces v sender rs eph pk = .ok (hb, cfg) ∧ oneShot cfg v hb pt = .ok M := by
  unfold Encrypt.sealWith Encrypt.sealPackets encryptSetup oneShot
  by_cases hk : knownVersion v = true
  · simp only [hk, Bool.not_true, Bool.false_eq_true, if_false]
    cases hc : Encrypt.checkReceivers rs with
    | error e => simp
    | ok u =>
      simp only
      cases hh : Encrypt.header P v sender eph pk rs with
      | error e => simp
      | ok h =>
        simp only
        cases hm : Encrypt.macKeysSender P v (sender.getD eph) eph (P.hash (encode h.toVal)) rs 0 with
        | error e => simp
        | ok mks =>
          simp only
          constructor
          · intro hM
            refine ⟨_, _, rfl, ?_⟩
            simp only
            cases hbs : Encrypt.blockStructs P v pk (P.hash (encode h.toVal)) mks (Encrypt.chunkPlan v bs pt) 0 with
            | error e => simp [hbs] at hM
            | ok blks =>
              simp only [hbs] at hM
              cases henc : Encrypt.encodeBlocks v blks with
              | error e => simp [henc] at hM
              | ok body =>
                simp only [henc] at hM
                rw [(enc_planBytes_ok P v pk _ mks _ 0 body).2 ⟨blks, hbs, henc⟩]
                exact hM
          · rintro ⟨hb, cfg, hcfg, hone⟩
            injection hcfg with hcfg
            obtain ⟨rfl, rfl⟩ := Prod.mk.inj hcfg
            simp only at hone
            cases hpb : planBytes (encPkt P v pk (P.hash (encode h.toVal)) mks) (Encrypt.chunkPlan v bs pt) 0 with
            | error e => simp [hpb] at hone
            | ok body =>
              simp only [hpb] at hone
              obtain ⟨blks, hbs, henc⟩ := (enc_planBytes_ok P v pk _ mks _ 0 body).1 hpb
              simp only [hbs, henc]
              exact hone
  · simp [hk]

theorem sig_planBytes_ok (v : Version) (signer hh : Bytes) :
    ∀ (plan : List (Bytes × Bool)) (i : Nat) (B : Bytes),
      planBytes (sigPkt P v signer hh) plan i = .ok B ↔
        ∃ blks, Sign.blockStructs P v signer hh plan i = .ok blks ∧ Sign.encodeBlocks v blks = .ok B := by
  intro plan
  induction plan with
  | nil => intro i B; simp [planBytes, Sign.blockStructs, Sign.encodeBlocks, eq_comm]
  | cons x plan ih =>
    intro i B
    obtain ⟨c, f⟩ := x
    simp only [planBytes, Sign.blockStructs, sigPkt]
    cases hb : Sign.blockStruct P v signer hh i c f with
    | error e => simp
    | ok b =>
      simp only
      cases hr : planBytes (sigPkt P v signer hh) plan (i + 1) with
      | error e =>
        have hno : ∀ blks R, Sign.blockStructs P v signer hh plan (i + 1) = .ok blks →
            Sign.encodeBlocks v blks = .ok R → False := by
          intro blks R h1 h2
          have := (ih (i + 1) R).2 ⟨blks, h1, h2⟩
          rw [hr] at this; cases this
        cases hv : sigBlockVal v b.sig b.chunk b.final with
        | error e' =>
          simp only
          constructor
          · intro h; cases h
          · rintro ⟨blks, h1, h2⟩
            cases hbs : Sign.blockStructs P v signer hh plan (i + 1) with
            | error e'' => simp [hbs] at h1
            | ok rest =>
              simp only [hbs] at h1
              injection h1 with h1
              subst h1
              simp [Sign.encodeBlocks, hv] at h2
        | ok val =>
          simp only
          constructor
          · intro h; cases h
          · rintro ⟨blks, h1, h2⟩
            cases hbs : Sign.blockStructs P v signer hh plan (i + 1) with
            | error e'' => simp [hbs] at h1
            | ok rest =>
              simp only [hbs] at h1
              injection h1 with h1
              subst h1
              simp only [Sign.encodeBlocks, hv] at h2
              cases her : Sign.encodeBlocks v rest with
              | error e3 => simp [her] at h2
              | ok R => exact (hno rest R hbs her).elim
      | ok R =>
        obtain ⟨rest, hrest, henc⟩ := (ih (i + 1) R).1 hr
        simp only [hrest]
        cases hv : sigBlockVal v b.sig b.chunk b.final with
        | error e' =>
          simp only
          constructor
          · intro h; cases h
          · rintro ⟨blks, h1, h2⟩
            injection h1 with h1
            subst h1
            simp [Sign.encodeBlocks, hv] at h2
        | ok val =>
          simp only
          constructor
          · intro h
            injection h with h
            exact ⟨b :: rest, rfl, by simp [Sign.encodeBlocks, hv, henc, h]⟩
          · rintro ⟨blks, h1, h2⟩
            injection h1 with h1
            subst h1
            simp only [Sign.encodeBlocks, hv, henc] at h2
            injection h2 with h2
            rw [h2]


theorem sc_planBytes_ok (sender : Option Bytes) (pk hh : Bytes) :
    ∀ (plan : List (Bytes × Bool)) (i : Nat) (B : Bytes),
      planBytes (scPkt P sender pk hh) plan i = .ok B ↔
        ∃ blks, Signcrypt.blockStructs P sender pk hh plan i = .ok blks ∧ Signcrypt.encodeBlocks blks = B := by
  intro plan
  induction plan with
  | nil => intro i B; simp [planBytes, Signcrypt.blockStructs, Signcrypt.encodeBlocks, eq_comm]
  | cons x plan ih =>
    intro i B
    obtain ⟨c, f⟩ := x
    simp only [planBytes, Signcrypt.blockStructs, scPkt]
    cases hb : Signcrypt.blockStruct P sender pk hh i c f with
    | error e => simp
    | ok b =>
      simp only
      cases hr : planBytes (scPkt P sender pk hh) plan (i + 1) with
      | error e =>
        simp only
        constructor
        · intro h; cases h
        · rintro ⟨blks, h1, h2⟩
          cases hbs : Signcrypt.blockStructs P sender pk hh plan (i + 1) with
          | error e'' => simp [hbs] at h1
          | ok rest =>
            have := (ih (i + 1) (Signcrypt.encodeBlocks rest)).2 ⟨rest, hbs, rfl⟩
            rw [hr] at this; cases this
      | ok R =>
        obtain ⟨rest, hrest, henc⟩ := (ih (i + 1) R).1 hr
        simp only [hrest]
        constructor
        · intro h
          injection h with h
          refine ⟨b :: rest, rfl, ?_⟩
          rw [← h, ← henc]
          simp [Signcrypt.encodeBlocks]
        · rintro ⟨blks, h1, h2⟩
          injection h1 with h1
          subst h1
          rw [← h2, ← henc]
          simp [Signcrypt.encodeBlocks]

/-- `Sign.attachedWith` succeeds with `M` exactly when the all-at-once output of
    the stream configuration is `M` -/
theorem attachedWith_iff_oneShot (bs : Nat) (pieces : Bytes → List Bytes) (v : Version) (signer nonce msg M : Bytes) :
    Sign.attachedWith P bs v signer nonce msg = .ok M ↔
      ∃ hb cfg, signSetup P bs pieces v signer nonce = .ok (hb, cfg) ∧ oneShot cfg v hb msg = .ok M := by
  unfold Sign.attachedWith Sign.attachedPackets signSetup oneShot
  by_cases hk : knownVersion v = true
  · simp only [hk, Bool.not_true, Bool.false_eq_true, if_false]
    constructor
    · intro hM
      refine ⟨_, _, rfl, ?_⟩
      simp only
      cases hbs : Sign.blockStructs P v signer (P.hash (encode (Sign.header v (P.sigPub signer) mtAttached nonce).toVal))
          (Encrypt.chunkPlan v bs msg) 0 with
      | error e => simp [hbs] at hM
      | ok blks =>
        simp only [hbs] at hM
        cases henc : Sign.encodeBlocks v blks with
        | error e => simp [henc] at hM
        | ok body =>
          simp only [henc] at hM
          rw [(sig_planBytes_ok P v signer _ _ 0 body).2 ⟨blks, hbs, henc⟩]
          exact hM
    · rintro ⟨hb, cfg, hcfg, hone⟩
      injection hcfg with hcfg
      obtain ⟨rfl, rfl⟩ := Prod.mk.inj hcfg
      simp only at hone
      cases hpb : planBytes (sigPkt P v signer (P.hash (encode (Sign.header v (P.sigPub signer) mtAttached nonce).toVal)))
          (Encrypt.chunkPlan v bs msg) 0 with
      | error e => simp [hpb] at hone
      | ok body =>
        simp only [hpb] at hone
        obtain ⟨blks, hbs, henc⟩ := (sig_planBytes_ok P v signer _ _ 0 body).1 hpb
        simp only [hbs, henc]
        exact hone
  · simp [hk]

/-- `Signcrypt.sealWith` likewise -/
theorem scSealWith_iff_oneShot (bs : Nat) (pieces : Bytes → List Bytes) (sender : Option Bytes)
    (rs : List Signcrypt.Recipient) (eph pk pt M : Bytes) :
    Signcrypt.sealWith P bs sender rs eph pk pt = .ok M ↔
      ∃ hb cfg, signcryptSetup P bs pieces sender rs eph pk = .ok (hb, cfg) ∧ oneShot cfg v2 hb pt = .ok M := by
  unfold Signcrypt.sealWith Signcrypt.sealPackets signcryptSetup oneShot
  cases hc : Signcrypt.checkReceivers rs [] with
  | error e => simp
  | ok u =>
    simp only
    constructor
    · intro hM
      refine ⟨_, _, rfl, ?_⟩
      simp only
      cases hbs : Signcrypt.blockStructs P sender pk (P.hash (encode (Signcrypt.header P sender eph pk rs).toVal))
          (Encrypt.chunkPlan v2 bs pt) 0 with
      | error e => simp [hbs] at hM
      | ok blks =>
        simp only [hbs] at hM
        rw [(sc_planBytes_ok P sender pk _ _ 0 _).2 ⟨blks, hbs, rfl⟩]
        exact hM
    · rintro ⟨hb, cfg, hcfg, hone⟩
      injection hcfg with hcfg
      obtain ⟨rfl, rfl⟩ := Prod.mk.inj hcfg
      simp only at hone
      cases hpb : planBytes (scPkt P sender pk (P.hash (encode (Signcrypt.header P sender eph pk rs).toVal)))
          (Encrypt.chunkPlan v2 bs pt) 0 with
      | error e => simp [hpb] at hone
      | ok body =>
        simp only [hpb] at hone
        obtain ⟨blks, hbs, henc⟩ := (sc_planBytes_ok P sender pk _ _ 0 body).1 hpb
        simp only [hbs, henc]
        exact hone

end

/-! ## the detached-signature stream -/

section detached
variable {ω : Type} (wr : ω → Bytes → Bool × ω) (obs : ω → Bytes) (flt : ω → Nat)

theorem det_writes (ps : List Bytes) : ∀ (st : DSt ω),
    (DSt.writes st ps).2 = { st with msg := st.msg ++ ps.flatten } ∧
    (DSt.writes st ps).1 = ps.map (fun p => (p.length, none)) := by
  induction ps with
  | nil => intro st; simp [DSt.writes]
  | cons p ps ih =>
    intro st
    obtain ⟨h1, h2⟩ := ih (st.write p).2.2
    simp only [DSt.writes, h1, h2]
    simp [DSt.write, List.append_assoc]

/-- the whole run of a detached-signature stream: what reaches the writer is a
    prefix of header packet ‖ signature packet of everything written, all of it
    iff the constructor and `Close` report success -/
theorem det_run (hw : ObsWriter wr obs) (pieces : Bytes → List Bytes) (hp : ∀ b, (pieces b).flatten = b)
    (sigPkt : Bytes → Bytes) (w0 : ω) (hbytes : Bytes) (ws : List Bytes) :
    obs (((DSt.writes (DSt.init wr pieces w0 hbytes).2 ws).2).close wr pieces sigPkt).2.codec.w <+:
      obs w0 ++ headerPacket hbytes ++ sigPkt ws.flatten ∧
    ((DSt.init wr pieces w0 hbytes).1 = true →
      (((DSt.writes (DSt.init wr pieces w0 hbytes).2 ws).2).close wr pieces sigPkt).1 = none →
      obs (((DSt.writes (DSt.init wr pieces w0 hbytes).2 ws).2).close wr pieces sigPkt).2.codec.w =
        obs w0 ++ headerPacket hbytes ++ sigPkt ws.flatten) := by
  rw [(det_writes ws _).1]
  obtain ⟨q, hq, ho, hall, hf⟩ := encode_obs wr obs hw pieces hp ({ w := w0 } : Codec ω) (headerPacket hbytes) rfl
  unfold DSt.init
  cases he : Codec.encode wr pieces ({ w := w0 } : Codec ω) (headerPacket hbytes) with
  | mk ok c =>
    rw [he] at ho hall hf
    simp only at ho hall hf ⊢
    unfold DSt.close
    simp only [List.nil_append]
    cases ok with
    | false =>
      have hcf : c.failed = true := by simpa using hf
      rw [encode_failed wr pieces c _ hcf]
      simp only
      refine ⟨?_, fun h => by cases h⟩
      rw [ho, List.append_assoc]
      exact (List.prefix_append_right_inj (obs w0)).2 (List.IsPrefix.trans hq (List.prefix_append _ _))
    | true =>
      have hcf : c.failed = false := by simpa using hf
      obtain ⟨q2, hq2, ho2, hall2, _⟩ := encode_obs wr obs hw pieces hp c (sigPkt ws.flatten) hcf
      cases he2 : Codec.encode wr pieces c (sigPkt ws.flatten) with
      | mk ok2 c2 =>
        rw [he2] at ho2 hall2
        simp only at ho2 hall2
        cases ok2 with
        | true =>
          simp only
          rw [ho2, ho, hall rfl, hall2 rfl]
          exact ⟨List.prefix_rfl, fun _ _ => rfl⟩
        | false =>
          simp only
          refine ⟨?_, fun _ h => by cases h⟩
          rw [ho2, ho, hall rfl]
          exact (List.prefix_append_right_inj _).2 hq2

/-- `Close` of the detached stream reports: success ⇒ no underlying write failed
    during it; on a failed encoder it always reports an error -/
theorem det_close_flt (hw : FltWriter wr flt) (pieces : Bytes → List Bytes) (sigPkt : Bytes → Bytes) (st : DSt ω) :
    ((st.close wr pieces sigPkt).1 = none → flt (st.close wr pieces sigPkt).2.codec.w = flt st.codec.w) ∧
    (st.codec.failed = true → (st.close wr pieces sigPkt).1 = some .ioError ∧ (st.close wr pieces sigPkt).2.codec = st.codec) ∧
    (flt (st.close wr pieces sigPkt).2.codec.w ≠ flt st.codec.w → (st.close wr pieces sigPkt).2.codec.failed = true) := by
  have hfl := encode_flt wr flt hw pieces st.codec (sigPkt st.msg)
  unfold DSt.close
  cases he : Codec.encode wr pieces st.codec (sigPkt st.msg) with
  | mk ok c =>
    rw [he] at hfl
    cases ok with
    | true =>
      have hh := encode_true_healthy wr pieces st.codec (sigPkt st.msg) (by rw [he])
      have hfl := hfl.1 rfl
      simp only
      refine ⟨fun _ => hfl, fun h => ?_, fun h => absurd hfl h⟩
      rw [hh.1] at h; cases h
    | false =>
      have hf := encode_false_failed wr pieces st.codec (sigPkt st.msg) (by rw [he])
      rw [he] at hf
      simp only
      refine ⟨(fun h => by cases h), fun h => ?_, fun _ => hf⟩
      rw [encode_failed wr pieces st.codec _ h] at he
      obtain ⟨_, rfl⟩ := Prod.mk.inj he
      exact ⟨by simp, rfl⟩

end detached

/-- `Sign.detachedWith` is header packet ‖ signature packet of the stream setup -/
theorem detachedWith_iff (P : Prims) (v : Version) (signer nonce msg M : Bytes) :
    Sign.detachedWith P v signer nonce msg = .ok M ↔
      ∃ hb sp, detachedSetup P v signer nonce = .ok (hb, sp) ∧ M = headerPacket hb ++ sp msg := by
  unfold Sign.detachedWith detachedSetup
  by_cases hk : knownVersion v = true
  · simp only [hk, Bool.not_true, Bool.false_eq_true, if_false]
    constructor
    · intro h; injection h with h; exact ⟨_, _, rfl, h.symm⟩
    · rintro ⟨hb, sp, h, rfl⟩
      injection h with h
      obtain ⟨rfl, rfl⟩ := Prod.mk.inj h
      rfl
  · simp [hk]

/-! ## what a successful setup says about the configuration -/

theorem encryptSetup_cfg (P : Prims) (bs : Nat) (pieces : Bytes → List Bytes) (v : Version) (sender : Option Bytes)
    (rs : List Encrypt.Recipient) (eph pk hbytes : Bytes) (cfg : Cfg)
    (hs : encryptSetup P bs pieces v sender rs eph pk = .ok (hbytes, cfg)) :
    cfg.bs = bs ∧ cfg.pieces = pieces ∧ cfg.v1shape = (v == v1) ∧ IndexFail cfg.pkt := by
  unfold encryptSetup at hs
  by_cases hk : knownVersion v = true
  · simp only [hk, Bool.not_true, Bool.false_eq_true, if_false] at hs
    cases hc : Encrypt.checkReceivers rs with
    | error e => simp [hc] at hs
    | ok u =>
      simp only [hc] at hs
      cases hh : Encrypt.header P v sender eph pk rs with
      | error e => simp [hh] at hs
      | ok h =>
        simp only [hh] at hs
        cases hm : Encrypt.macKeysSender P v (sender.getD eph) eph (P.hash (encode h.toVal)) rs 0 with
        | error e => simp [hm] at hs
        | ok mks =>
          simp only [hm] at hs
          injection hs with hs
          obtain ⟨_, rfl⟩ := Prod.mk.inj hs
          exact ⟨rfl, rfl, rfl, encPkt_indexFail P v pk _ mks⟩
  · simp [hk] at hs

theorem signSetup_cfg (P : Prims) (bs : Nat) (pieces : Bytes → List Bytes) (v : Version) (signer nonce hbytes : Bytes)
    (cfg : Cfg) (hs : signSetup P bs pieces v signer nonce = .ok (hbytes, cfg)) :
    cfg.bs = bs ∧ cfg.pieces = pieces ∧ cfg.v1shape = (v == v1) ∧ IndexFail cfg.pkt := by
  unfold signSetup at hs
  by_cases hk : knownVersion v = true
  · simp only [hk, Bool.not_true, Bool.false_eq_true, if_false] at hs
    injection hs with hs
    obtain ⟨_, rfl⟩ := Prod.mk.inj hs
    exact ⟨rfl, rfl, rfl, sigPkt_indexFail P v signer _⟩
  · simp [hk] at hs

theorem signcryptSetup_cfg (P : Prims) (bs : Nat) (pieces : Bytes → List Bytes) (sender : Option Bytes)
    (rs : List Signcrypt.Recipient) (eph pk hbytes : Bytes) (cfg : Cfg)
    (hs : signcryptSetup P bs pieces sender rs eph pk = .ok (hbytes, cfg)) :
    cfg.bs = bs ∧ cfg.pieces = pieces ∧ cfg.v1shape = (v2 == v1) ∧ IndexFail cfg.pkt := by
  unfold signcryptSetup at hs
  cases hc : Signcrypt.checkReceivers rs [] with
  | error e => simp [hc] at hs
  | ok u =>
    simp only [hc] at hs
    injection hs with hs
    obtain ⟨_, rfl⟩ := Prod.mk.inj hs
    exact ⟨rfl, rfl, (by decide : false = (v2 == v1)), scPkt_indexFail P sender pk _⟩

end Saltpack.Proofs.SenderP
