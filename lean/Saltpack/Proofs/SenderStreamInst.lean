/-
  The sender streams over a faulting writer: the instantiations.  go-codec's
  segmentation `codecPieces` is a segmentation; the packet functions of the three
  modes refuse by packet number only; the all-at-once output `oneShot` of the
  stream configurations is `Encrypt.sealWith` / `Sign.attachedWith` /
  `Signcrypt.sealWith`; the detached-signature stream.

  Behind Props/C14Sender.lean and Props/C13Sender.lean.
-/
import Saltpack.Proofs.SenderStreamFaults

namespace Saltpack.Proofs.SenderP
open Saltpack Saltpack.Sender Msgpack

/-! ## the segmentation -/

theorem cutBy_flatten : ∀ (ns : List Nat) (b : Bytes), (cutBy ns b).flatten = b := by
  intro ns
  induction ns with
  | nil => intro b; unfold cutBy; by_cases h : b.isEmpty = true <;> simp_all
  | cons n ns ih =>
    intro b
    unfold cutBy
    by_cases h : b.isEmpty = true
    · simp_all
    · simp only [h, Bool.false_eq_true, if_false]
      by_cases hn : n = 0
      · simp only [hn, if_true]; exact ih b
      · simp only [hn, if_false, List.flatten_cons, ih, List.take_append_drop]

theorem cutBy_nonempty : ∀ (ns : List Nat) (b : Bytes), ∀ p ∈ cutBy ns b, p ≠ [] := by
  intro ns
  induction ns with
  | nil =>
    intro b p hp
    unfold cutBy at hp
    by_cases h : b.isEmpty = true
    · simp [h] at hp
    · simp only [h, Bool.false_eq_true, if_false, List.mem_singleton] at hp
      subst hp
      intro h0; simp [h0] at h
  | cons n ns ih =>
    intro b p hp
    unfold cutBy at hp
    by_cases h : b.isEmpty = true
    · simp [h] at hp
    · simp only [h, Bool.false_eq_true, if_false] at hp
      by_cases hn : n = 0
      · simp only [hn, if_true] at hp; exact ih b p hp
      · simp only [hn, if_false, List.mem_cons] at hp
        rcases hp with rfl | hp
        · intro h0
          have hb : b ≠ [] := by intro hb; simp [hb] at h
          rcases List.take_eq_nil_iff.mp h0 with h1 | h1
          · exact hn h1
          · exact hb h1
        · exact ih _ p hp

/-- go-codec's write pattern is a segmentation of the encoded value into
    non-empty pieces -/
theorem codecPieces_flatten (b : Bytes) : (codecPieces b).flatten = b := cutBy_flatten _ b

theorem codecPieces_nonempty (b : Bytes) : ∀ p ∈ codecPieces b, p ≠ [] := cutBy_nonempty _ b

/-! ## the packet functions refuse by packet number only -/

section
variable (P : Prims)

theorem encPkt_indexFail (v : Version) (pk hh : Bytes) (mks : List Bytes) : IndexFail (encPkt P v pk hh mks) := by
  intro i c f e h c' f'
  unfold encPkt Encrypt.blockStruct payloadHash encBlockVal at h ⊢
  by_cases hbn : blockNumberOK i = true <;> by_cases h1 : v.major = 1 <;> by_cases h2 : v.major = 2 <;>
    by_cases hv1 : v = v1 <;> by_cases hv2 : v = v2 <;> simp_all

theorem sigPkt_indexFail (v : Version) (signer hh : Bytes) : IndexFail (sigPkt P v signer hh) := by
  intro i c f e h c' f'
  unfold sigPkt Sign.blockStruct attachedSignatureInput sigBlockVal at h ⊢
  by_cases h1 : v.major = 1 <;> by_cases h2 : v.major = 2 <;>
    by_cases hv1 : v = v1 <;> by_cases hv2 : v = v2 <;> simp_all

theorem scPkt_indexFail (sender : Option Bytes) (pk hh : Bytes) : IndexFail (scPkt P sender pk hh) := by
  intro i c f e h c' f'
  unfold scPkt Signcrypt.blockStruct at h ⊢
  by_cases hbn : blockNumberOK i = true <;> simp_all

/-! ## the all-at-once output -/

theorem enc_planBytes_ok (v : Version) (pk hh : Bytes) (mks : List Bytes) :
    ∀ (plan : List (Bytes × Bool)) (i : Nat) (B : Bytes),
      planBytes (encPkt P v pk hh mks) plan i = .ok B ↔
        ∃ blks, Encrypt.blockStructs P v pk hh mks plan i = .ok blks ∧ Encrypt.encodeBlocks v blks = .ok B := by
  intro plan
  induction plan with
  | nil => intro i B; simp [planBytes, Encrypt.blockStructs, Encrypt.encodeBlocks, eq_comm]
  | cons x plan ih =>
    intro i B
    obtain ⟨c, f⟩ := x
    simp only [planBytes, Encrypt.blockStructs, encPkt]
    cases hb : Encrypt.blockStruct P v pk hh mks i c f with
    | error e => simp
    | ok b =>
      simp only
      cases hr : planBytes (encPkt P v pk hh mks) plan (i + 1) with
      | error e =>
        have hno : ∀ blks R, Encrypt.blockStructs P v pk hh mks plan (i + 1) = .ok blks →
            Encrypt.encodeBlocks v blks = .ok R → False := by
          intro blks R h1 h2
          have := (ih (i + 1) R).2 ⟨blks, h1, h2⟩
          rw [hr] at this; cases this
        cases hv : encBlockVal v b.auths b.ct b.final with
        | error e' =>
          simp only
          constructor
          · intro h; cases h
          · rintro ⟨blks, h1, h2⟩
            cases hbs : Encrypt.blockStructs P v pk hh mks plan (i + 1) with
            | error e'' => simp [hbs] at h1
            | ok rest =>
              simp only [hbs] at h1
              injection h1 with h1
              subst h1
              simp [Encrypt.encodeBlocks, hv] at h2
        | ok val =>
          simp only
          constructor
          · intro h; cases h
          · rintro ⟨blks, h1, h2⟩
            cases hbs : Encrypt.blockStructs P v pk hh mks plan (i + 1) with
            | error e'' => simp [hbs] at h1
            | ok rest =>
              simp only [hbs] at h1
              injection h1 with h1
              subst h1
              simp only [Encrypt.encodeBlocks, hv] at h2
              cases her : Encrypt.encodeBlocks v rest with
              | error e3 => simp [her] at h2
              | ok R => exact (hno rest R hbs her).elim
      | ok R =>
        obtain ⟨rest, hrest, henc⟩ := (ih (i + 1) R).1 hr
        simp only [hrest]
        cases hv : encBlockVal v b.auths b.ct b.final with
        | error e' =>
          simp only
          constructor
          · intro h; cases h
          · rintro ⟨blks, h1, h2⟩
            injection h1 with h1
            subst h1
            simp [Encrypt.encodeBlocks, hv] at h2
        | ok val =>
          simp only
          constructor
          · intro h
            injection h with h
            exact ⟨b :: rest, rfl, by simp [Encrypt.encodeBlocks, hv, henc, h]⟩
          · rintro ⟨blks, h1, h2⟩
            injection h1 with h1
            subst h1
            simp only [Encrypt.encodeBlocks, hv, henc] at h2
            injection h2 with h2
            rw [h2]

/-- `Encrypt.sealWith` succeeds with `M` exactly when the stream configuration
    exists and its all-at-once output is `M` -/
theorem sealWith_iff_oneShot (bs : Nat) (pieces : Bytes → List Bytes) (v : Version) (sender : Option Bytes)
    (rs : List Encrypt.Recipient) (eph pk pt M : Bytes) :
    Encrypt.sealWith P bs v sender rs eph pk pt = .ok M ↔
      ∃ hb cfg, encryptSetup P bs pieces v sender rs eph pk = .ok (hb, cfg) ∧ oneShot cfg v hb pt = .ok M := by
  unfold Encrypt.sealWith Encrypt.sealPackets encryptSetup oneShot
  by_cases hk : knownVersion v = true
  · simp only [hk, Bool.not_true, Bool.false_eq_true, if_false]
    cases hc : Encrypt.checkReceivers rs with
    | error e => simp
    | ok u =>
      simp only
      cases hh : Encrypt.header P v sender eph pk rs with
      | error e => simp
      | ok h =>
        simp only
        cases hm : Encrypt.macKeysSender P v (sender.getD eph) eph (P.hash (encode h.toVal)) rs 0 with
        | error e => simp
        | ok mks =>
          simp only
          constructor
          · intro hM
            refine ⟨_, _, rfl, ?_⟩
            simp only
            cases hbs : Encrypt.blockStructs P v pk (P.hash (encode h.toVal)) mks (Encrypt.chunkPlan v bs pt) 0 with
            | error e => simp [hbs] at hM
            | ok blks =>
              simp only [hbs] at hM
              cases henc : Encrypt.encodeBlocks v blks with
              | error e => simp [henc] at hM
              | ok body =>
                simp only [henc] at hM
                rw [(enc_planBytes_ok P v pk _ mks _ 0 body).2 ⟨blks, hbs, henc⟩]
                exact hM
          · rintro ⟨hb, cfg, hcfg, hone⟩
            injection hcfg with hcfg
            obtain ⟨rfl, rfl⟩ := Prod.mk.inj hcfg
            simp only at hone
            cases hpb : planBytes (encPkt P v pk (P.hash (encode h.toVal)) mks) (Encrypt.chunkPlan v bs pt) 0 with
            | error e => simp [hpb] at hone
            | ok body =>
              simp only [hpb] at hone
              obtain ⟨blks, hbs, henc⟩ := (enc_planBytes_ok P v pk _ mks _ 0 body).1 hpb
              simp only [hbs, henc]
              exact hone
  · simp [hk]

end

end Saltpack.Proofs.SenderP
