/-
  Hostile input never makes a receiver panic (behind Props/C15), and the gating
  of format name / version / mode on both sides (behind Props/C17).

  In the model every explicit `panic(` of the Go code and every index/nil
  dereference on attacker-controlled data is a branch returning
  `Err.panic site`.  "Never panics" = no run ends in such an error.
-/
import Saltpack.Model.Decrypt
import Saltpack.Model.Signcrypt
import Saltpack.Model.Sign
import Saltpack.Model.Encrypt

namespace Saltpack.Proofs
open Saltpack

def Err.isPanic : Err → Bool
  | .panic _ => true
  | _ => false

/-- validators the library documents as legal: they admit only major versions the
    code implements ("Let caller be responsible for filtering out unknown versions") -/
def ValidatorOK (valid : Validator) : Prop := ∀ v, valid v = true → v.major = 1 ∨ v.major = 2

theorem knownMajor_ok : ValidatorOK knownMajor := by
  intro v h
  simpa [knownMajor] using h

/-- the only versions the senders accept are exactly 1.0 and 2.0 -/
theorem knownVersion_iff (v : Version) : knownVersion v = true ↔ v = v1 ∨ v = v2 := by
  simp [knownVersion]

/-- the four mode numbers are pairwise distinct (generated constants) -/
theorem modes_distinct :
    mtEncryption ≠ mtAttached ∧ mtEncryption ≠ mtDetached ∧ mtEncryption ≠ mtSigncryption ∧
    mtAttached ≠ mtDetached ∧ mtAttached ≠ mtSigncryption ∧ mtDetached ≠ mtSigncryption := by
  simp only [mtEncryption, mtAttached, mtDetached, mtSigncryption,
    Gen.c_sp_MessageTypeEncryption, Gen.c_sp_MessageTypeAttachedSignature,
    Gen.c_sp_MessageTypeDetachedSignature, Gen.c_sp_MessageTypeSigncryption]
  decide

/-! ## C15: no panic, for all decoded headers/packets and all keyring behaviours

  NOTE on `htail` / `hsr`: the packet stream's `Tail.err e` (and `SigRead.none e`
  for detached signatures) carries the error the *underlying reader / decoder*
  reported, as an arbitrary `Err`, and the receivers hand it through unchanged.
  The theorems therefore assume that this input error is not itself `Err.panic _`
  (it is an I/O or decode error, never a panic of this code); without the
  assumption they are false, see `ver_tail_panic_propagates`,
  `det_sigread_panic_propagates`, `dec_run_tail_propagates`. -/

/-- "this result is not a panic" -/
def NP {α : Type} (r : Except Err α) : Prop := ∀ e, r = .error e → Err.isPanic e = false

@[simp] theorem NP_ok {α : Type} (a : α) : NP (Except.ok a : Except Err α) := by
  intro e h; cases h

@[simp] theorem NP_error {α : Type} (e : Err) : NP (Except.error e : Except Err α) ↔ Err.isPanic e = false := by
  constructor
  · intro h; exact h e rfl
  · intro h e' h'; cases h'; exact h

theorem payloadKeyBox_no_panic (v : Version) (hv : v.major = 1 ∨ v.major = 2) (i : Nat) :
    NP (Nonce.payloadKeyBox v i) := by
  unfold Nonce.payloadKeyBox
  rcases hv with hv | hv <;> simp [hv]

theorem tryVisible_no_panic (P : Prims) (kr : Keyring) (h : EncHeader) (eph : Bytes)
    (hv : h.version.major = 1 ∨ h.version.major = 2) : NP (Decrypt.tryVisible P kr h eph).2 := by
  have hk := payloadKeyBox_no_panic h.version hv
  unfold Decrypt.tryVisible
  simp only []
  repeat' split
  all_goals (try simp only [NP_ok, NP_error])
  all_goals first | rfl | (rename_i heq; exact hk _ _ heq)

theorem tryHiddenOne_no_panic (P : Prims) (v : Version) (hv : v.major = 1 ∨ v.major = 2)
    (sk eph : Bytes) (l : List (RecvKeys × Nat)) : NP (Decrypt.tryHiddenOne P v sk eph l).2 := by
  have hk := payloadKeyBox_no_panic v hv
  induction l with
  | nil => simp [Decrypt.tryHiddenOne]
  | cons x rest ih =>
    obtain ⟨r, i⟩ := x
    unfold Decrypt.tryHiddenOne
    repeat' split
    all_goals (try simp only [NP_ok, NP_error])
    all_goals (first | rfl | exact ih | (rename_i heq; exact hk _ _ heq) | (rename_i heq; rw [heq] at ih; exact ih))

theorem tryHidden_no_panic (P : Prims) (h : EncHeader) (hv : h.version.major = 1 ∨ h.version.major = 2)
    (eph : Bytes) (sks : List Bytes) : NP (Decrypt.tryHidden P h eph sks).2 := by
  induction sks with
  | nil => simp [Decrypt.tryHidden]
  | cons sk sks ih =>
    have h1 := tryHiddenOne_no_panic P h.version hv sk eph h.receivers.zipIdx
    unfold Decrypt.tryHidden
    repeat' split
    all_goals (try simp only [NP_ok, NP_error])
    all_goals (first | rfl | exact ih | (rename_i heq; rw [heq] at ih; exact ih) | (rename_i heq; rw [heq] at h1; exact h1 _ rfl))

theorem macKeyReceiver_no_panic (P : Prims) (v : Version) (hv : v.major = 1 ∨ v.major = 2)
    (index : Nat) (secret pub ePub hh : Bytes) :
    NP (Decrypt.macKeyReceiver P v index secret pub ePub hh).2 := by
  unfold Decrypt.macKeyReceiver
  rcases hv with hv | hv <;> simp [hv]


theorem dec_validate_ok (valid : Validator) (h : EncHeader) (hok : Decrypt.validate valid h = .ok ()) :
    h.formatName = Gen.c_sp_FormatName ∧ valid h.version = true ∧ h.typ = mtEncryption := by
  unfold Decrypt.validate at hok
  split at hok
  · cases hok
  · split at hok
    · cases hok
    · split at hok
      · rename_i h1 h2 h3
        simp at h1 h2
        exact ⟨h1, h3, h2⟩
      · cases hok

theorem dec_validate_no_panic (valid : Validator) (h : EncHeader) : NP (Decrypt.validate valid h) := by
  unfold Decrypt.validate
  repeat' split
  all_goals simp [Err.isPanic]


theorem dec_processHeader_validate (P : Prims) (valid : Validator) (kr : Keyring) (hh : Bytes) (h : EncHeader)
    (log : List KeyCall) (st : Decrypt.State)
    (hok : Decrypt.processHeader P valid kr hh h = (log, .ok st)) :
    Decrypt.validate valid h = .ok () := by
  unfold Decrypt.processHeader at hok
  split at hok
  · cases hok
  · assumption

theorem dec_processHeader_version (P : Prims) (valid : Validator) (kr : Keyring) (hh : Bytes) (h : EncHeader)
    (log : List KeyCall) (st : Decrypt.State)
    (hok : Decrypt.processHeader P valid kr hh h = (log, .ok st)) :
    st.version = h.version := by
  unfold Decrypt.processHeader at hok
  simp only [] at hok
  repeat' split at hok
  all_goals (try cases hok)
  all_goals (try rfl)


theorem dec_processHeader_no_panic (P : Prims) (valid : Validator) (hvalid : ValidatorOK valid)
    (kr : Keyring) (hh : Bytes) (h : EncHeader) :
    NP (Decrypt.processHeader P valid kr hh h).2 := by
  cases hval : Decrypt.validate valid h with
  | error e =>
    have := dec_validate_no_panic valid h e hval
    unfold Decrypt.processHeader
    rw [hval]
    simpa using this
  | ok u =>
    have hv := hvalid _ (dec_validate_ok valid h hval).2.1
    have h1 := fun eph => tryVisible_no_panic P kr h eph hv
    have h2 := tryHidden_no_panic P h hv
    have h3 := macKeyReceiver_no_panic P h.version hv
    intro e he
    generalize hres : Decrypt.processHeader P valid kr hh h = r at he
    obtain ⟨log, res⟩ := r
    simp only at he
    subst he
    unfold Decrypt.processHeader at hres
    rw [hval] at hres
    simp only [] at hres
    repeat' split at hres
    all_goals (try cases hres)
    all_goals (try rfl)
    all_goals (first | (rename_i heq; exact h1 _ _ heq) | (rename_i heq; exact h3 _ _ _ _ _ _ heq) | (rename_i heq; exact h2 _ _ _ heq) | (rename_i heq; cases heq))


theorem endOfStream_no_panic {β : Type} (rest : List (Option β)) (tail : Tail)
    (htail : ∀ e, tail = .err e → Err.isPanic e = false) (e : Err)
    (h : Decrypt.endOfStream rest tail = some e) : Err.isPanic e = false := by
  unfold Decrypt.endOfStream at h
  split at h
  · cases h; rfl
  · split at h
    · cases h
    · cases h; exact htail _ rfl

theorem payloadHash_no_panic (P : Prims) (v : Version) (hv : v.major = 1 ∨ v.major = 2)
    (hh nonce ct : Bytes) (f : Bool) : NP (payloadHash P v hh nonce ct f) := by
  unfold payloadHash
  rcases hv with hv | hv <;> simp [hv]

theorem dec_processBlock_no_panic (P : Prims) (s : Decrypt.State)
    (hv : s.version.major = 1 ∨ s.version.major = 2) (b : EncBlock) (f : Bool) (seqno : Nat) :
    NP (Decrypt.processBlock P s b f seqno) := by
  have h1 := payloadHash_no_panic P s.version hv
  unfold Decrypt.processBlock
  simp only []
  repeat' split
  all_goals (try simp only [NP_ok, NP_error])
  all_goals (first | rfl | (rename_i heq; exact h1 _ _ _ _ _ heq))

theorem dec_processBlock_len (P : Prims) (hP : P.Lawful) (s : Decrypt.State) (b : EncBlock) (f : Bool)
    (seqno : Nat) (chunk : Bytes) (h : Decrypt.processBlock P s b f seqno = .ok chunk) :
    b.ct.length = chunk.length + 16 := by
  unfold Decrypt.processBlock at h
  simp only [] at h
  repeat' split at h
  all_goals (try cases h)
  rename_i heq
  exact hP.sb_open_len _ _ _ _ heq

theorem checkChunkState_v1 (v : Version) (hv : v.major = 1) (n i : Nat) (f : Bool)
    (hf : (n == 0) = f) : checkChunkState v n i f = .ok () := by
  unfold checkChunkState
  simp [hv, hf]

theorem checkChunkState_v2_no_panic (v : Version) (hv : v.major = 2) (n i : Nat) (f : Bool) :
    NP (checkChunkState v n i f) := by
  unfold checkChunkState
  have : ¬ v.major = 1 := by omega
  rw [if_neg this, if_pos hv]
  split <;> simp [Err.isPanic]

theorem dec_run_no_panic (P : Prims) (hP : P.Lawful) (s : Decrypt.State)
    (hv : s.version.major = 1 ∨ s.version.major = 2) (tail : Tail)
    (htail : ∀ e, tail = .err e → Err.isPanic e = false) :
    ∀ (items : List (Option EncBlock)) (seqno : Nat) (e : Err),
      (Decrypt.run P s items tail seqno).err = some e → Err.isPanic e = false := by
  intro items
  induction items with
  | nil =>
    intro seqno e h
    unfold Decrypt.run at h
    split at h
    · cases h; rfl
    · cases h; exact htail _ rfl
  | cons x rest ih =>
    intro seqno e h
    cases x with
    | none => unfold Decrypt.run at h; cases h; rfl
    | some b =>
      unfold Decrypt.run at h
      simp only [] at h
      split at h
      · rename_i e' heq
        cases h
        exact dec_processBlock_no_panic P s hv b _ seqno _ heq
      · rename_i chunk heq
        have hlen := dec_processBlock_len P hP s b _ seqno chunk heq
        split at h
        · rename_i e' heq2
          cases h
          rcases hv with hv | hv
          · rw [checkChunkState_v1 s.version hv] at heq2
            · cases heq2
            · simp [Decrypt.blockFinal, hv, hlen]
          · exact checkChunkState_v2_no_panic s.version hv _ _ _ _ heq2
        · split at h
          · exact endOfStream_no_panic rest tail htail e h
          · exact ih _ _ h


theorem dec_no_panic (P : Prims) (hP : P.Lawful) (valid : Validator) (hvalid : ValidatorOK valid)
    (kr : Keyring) (hr : HeaderRead EncHeader) (ps : PStream EncBlock)
    (htail : ∀ e, ps.tail = .err e → Err.isPanic e = false) (e : Err)
    (h : (Decrypt.openStream P valid kr hr ps).err = some e) : Err.isPanic e = false := by
  unfold Decrypt.openStream at h
  cases hr with
  | unreadable => cases h; rfl
  | undecodable hb => cases h; rfl
  | ok hb hd =>
    simp only [] at h
    split at h
    · rename_i log e' heq
      cases h
      have := dec_processHeader_no_panic P valid hvalid kr (P.hash hb) hd e
      rw [heq] at this
      exact this rfl
    · rename_i log st heq
      have hver := dec_processHeader_version P valid kr _ hd log st heq
      have hval := dec_processHeader_validate P valid kr _ hd log st heq
      have hv := hvalid _ (dec_validate_ok valid hd hval).2.1
      rw [← hver] at hv
      exact dec_run_no_panic P hP st hv ps.tail htail ps.items 1 e h

/-- a validator that admits another major does lead to the documented panics —
    the hypothesis `ValidatorOK` is necessary (non-vacuity of the guard) -/
theorem dec_panics_on_major3 (P : Prims) :
    ∃ (kr : Keyring) (h : EncHeader) (hb : Bytes),
      Err.isPanic (match (Decrypt.openStream P (fun _ => true) kr (.ok hb h) ⟨[], .eof⟩).err with
        | some e => e | none => .badVersion) = true := by
  refine ⟨⟨fun _ => (0, some []), fun _ => none, [], fun k => some k, fun _ => none⟩,
    ⟨Gen.c_sp_FormatName, ⟨3, 0⟩, mtEncryption, [], [], [⟨some [1], []⟩]⟩, [], ?_⟩
  simp [Decrypt.openStream, Decrypt.processHeader, Decrypt.validate, Decrypt.tryVisible,
    Decrypt.visibleIndices, Nonce.payloadKeyBox, Err.isPanic, List.zipIdx]

/-! ## C17: gating on the receiving side -/

/-- an encrypted message is processed only if its header says "saltpack", has a
    version the validator admits, and is of encryption type -/
theorem enc_gate (P : Prims) (valid : Validator) (kr : Keyring) (hh : Bytes) (h : EncHeader)
    (log : List KeyCall) (st : Decrypt.State)
    (hok : Decrypt.processHeader P valid kr hh h = (log, .ok st)) :
    h.formatName = Gen.c_sp_FormatName ∧ valid h.version = true ∧ h.typ = mtEncryption :=
  dec_validate_ok valid h (dec_processHeader_validate P valid kr hh h log st hok)

/-- releasing anything at all already requires the gate -/
theorem enc_gate_released (P : Prims) (valid : Validator) (kr : Keyring) (hb : Bytes) (h : EncHeader)
    (ps : PStream EncBlock)
    (hrel : (Decrypt.openStream P valid kr (.ok hb h) ps).released ≠ [] ∨
            (Decrypt.openStream P valid kr (.ok hb h) ps).err = none) :
    h.formatName = Gen.c_sp_FormatName ∧ valid h.version = true ∧ h.typ = mtEncryption := by
  unfold Decrypt.openStream at hrel
  simp only [] at hrel
  split at hrel
  · simp at hrel
  · rename_i log st heq
    exact enc_gate P valid kr _ h log st heq



theorem sc_validate_ok (h : EncHeader) (hok : Signcrypt.validate h = .ok ()) :
    h.formatName = Gen.c_sp_FormatName ∧ h.version.major = 2 ∧ h.typ = mtSigncryption := by
  unfold Signcrypt.validate at hok
  split at hok
  · cases hok
  · split at hok
    · cases hok
    · split at hok
      · cases hok
      · rename_i h1 h2 h3
        simp at h1 h2 h3
        exact ⟨h1, h3, h2⟩

theorem sc_validate_no_panic (h : EncHeader) : NP (Signcrypt.validate h) := by
  unfold Signcrypt.validate
  repeat' split
  all_goals simp [Err.isPanic]

theorem tryBoxOne_no_panic (P : Prims) (dks : List Bytes) (r : RecvKeys) (i : Nat) (e : Err)
    (h : Signcrypt.tryBoxOne P dks r i = some (.error e)) : Err.isPanic e = false := by
  induction dks with
  | nil => simp [Signcrypt.tryBoxOne] at h
  | cons dk rest ih =>
    unfold Signcrypt.tryBoxOne at h
    repeat' split at h
    all_goals (first | exact ih h | (cases h; rfl) | cases h)

theorem tryBox_no_panic (P : Prims) (dks : List Bytes) (l : List (RecvKeys × Nat)) :
    NP (Signcrypt.tryBox P dks l) := by
  induction l with
  | nil => simp [Signcrypt.tryBox]
  | cons x rest ih =>
    obtain ⟨r, i⟩ := x
    unfold Signcrypt.tryBox
    split
    · simp
    · rename_i e heq
      simp only [NP_error]
      exact tryBoxOne_no_panic P dks r i e heq
    · exact ih


theorem trySym_go_no_panic (P : Prims) (ephPub : Bytes) (l : List (Option Bytes × RecvKeys × Nat)) :
    NP (Signcrypt.trySym.go P ephPub l) := by
  induction l with
  | nil => simp [Signcrypt.trySym.go]
  | cons x rest ih =>
    obtain ⟨k, r, i⟩ := x
    cases k with
    | none => unfold Signcrypt.trySym.go; exact ih
    | some k =>
      unfold Signcrypt.trySym.go
      simp only []
      repeat' split
      all_goals simp [Err.isPanic]

theorem trySym_no_panic (P : Prims) (res : Signcrypt.Resolver) (h : EncHeader) (ephPub : Bytes) :
    NP (Signcrypt.trySym P res h ephPub) := by
  unfold Signcrypt.trySym
  simp only []
  repeat' split
  all_goals (first | exact trySym_go_no_panic P ephPub _ | simp [Err.isPanic])

theorem sc_processHeader_validate (P : Prims) (kr : Keyring) (res : Signcrypt.Resolver) (hh : Bytes)
    (h : EncHeader) (log : List KeyCall) (st : Signcrypt.State)
    (hok : Signcrypt.processHeader P kr res hh h = (log, .ok st)) :
    Signcrypt.validate h = .ok () := by
  unfold Signcrypt.processHeader at hok
  split at hok
  · cases hok
  · assumption

theorem sc_processHeader_no_panic (P : Prims) (kr : Keyring) (res : Signcrypt.Resolver) (hh : Bytes)
    (h : EncHeader) : NP (Signcrypt.processHeader P kr res hh h).2 := by
  have h0 := sc_validate_no_panic h
  have h1 := tryBox_no_panic P
  have h2 := trySym_no_panic P res h
  intro e he
  generalize hres : Signcrypt.processHeader P kr res hh h = r at he
  obtain ⟨log, r⟩ := r
  simp only at he
  subst he
  unfold Signcrypt.processHeader at hres
  simp only [] at hres
  repeat' split at hres
  all_goals (try cases hres)
  all_goals (try rfl)
  · rename_i heq
    exact h0 _ heq
  · rename_i heq
    split at heq
    · rename_i heq2
      cases heq
      exact h1 _ _ _ heq2
    · cases heq
    · exact h2 _ _ heq


theorem sc_processBlock_no_panic (P : Prims) (s : Signcrypt.State) (b : SigncryptBlock) (seqno : Nat) :
    NP (Signcrypt.processBlock P s b seqno) := by
  unfold Signcrypt.processBlock
  simp only []
  repeat' split
  all_goals simp [Err.isPanic]

theorem sc_run_no_panic (P : Prims) (s : Signcrypt.State) (tail : Tail)
    (htail : ∀ e, tail = .err e → Err.isPanic e = false) :
    ∀ (items : List (Option SigncryptBlock)) (seqno : Nat) (e : Err),
      (Signcrypt.run P s items tail seqno).err = some e → Err.isPanic e = false := by
  intro items
  induction items with
  | nil =>
    intro seqno e h
    unfold Signcrypt.run at h
    split at h
    · cases h; rfl
    · cases h; exact htail _ rfl
  | cons x rest ih =>
    intro seqno e h
    cases x with
    | none => unfold Signcrypt.run at h; cases h; rfl
    | some b =>
      unfold Signcrypt.run at h
      simp only [] at h
      split at h
      · rename_i e' heq
        cases h
        exact sc_processBlock_no_panic P s b seqno _ heq
      · split at h
        · rename_i e' heq2
          cases h
          exact checkChunkState_v2_no_panic v2 rfl _ _ _ _ heq2
        · split at h
          · exact endOfStream_no_panic rest tail htail e h
          · exact ih _ _ h

theorem sc_no_panic (P : Prims) (kr : Keyring) (res : Signcrypt.Resolver)
    (hr : HeaderRead EncHeader) (ps : PStream SigncryptBlock)
    (htail : ∀ e, ps.tail = .err e → Err.isPanic e = false) (e : Err)
    (h : (Signcrypt.openStream P kr res hr ps).err = some e) : Err.isPanic e = false := by
  unfold Signcrypt.openStream at h
  cases hr with
  | unreadable => cases h; rfl
  | undecodable hb => cases h; rfl
  | ok hb hd =>
    simp only [] at h
    split at h
    · rename_i log e' heq
      cases h
      have := sc_processHeader_no_panic P kr res (P.hash hb) hd e
      rw [heq] at this
      exact this rfl
    · exact sc_run_no_panic P _ ps.tail htail ps.items 1 e h

theorem sc_gate (P : Prims) (kr : Keyring) (res : Signcrypt.Resolver) (hh : Bytes) (h : EncHeader)
    (log : List KeyCall) (st : Signcrypt.State)
    (hok : Signcrypt.processHeader P kr res hh h = (log, .ok st)) :
    h.formatName = Gen.c_sp_FormatName ∧ h.version.major = 2 ∧ h.typ = mtSigncryption :=
  sc_validate_ok h (sc_processHeader_validate P kr res hh h log st hok)

theorem sc_gate_released (P : Prims) (kr : Keyring) (res : Signcrypt.Resolver) (hb : Bytes) (h : EncHeader)
    (ps : PStream SigncryptBlock)
    (hrel : (Signcrypt.openStream P kr res (.ok hb h) ps).released ≠ [] ∨
            (Signcrypt.openStream P kr res (.ok hb h) ps).err = none) :
    h.formatName = Gen.c_sp_FormatName ∧ h.version.major = 2 ∧ h.typ = mtSigncryption := by
  unfold Signcrypt.openStream at hrel
  simp only [] at hrel
  split at hrel
  · simp at hrel
  · rename_i log st heq
    exact sc_gate P kr res _ h log st heq


theorem sig_validate_ok (valid : Validator) (h : SigHeader) (typ : Int)
    (hok : Sign.validate valid h typ = .ok ()) :
    h.formatName = Gen.c_sp_FormatName ∧ valid h.version = true ∧ h.typ = typ := by
  unfold Sign.validate at hok
  repeat' split at hok
  all_goals (try cases hok)
  rename_i h1 h2 h3 h4
  simp at h1 h2 h3
  exact ⟨h1, h2, h3⟩

theorem sig_validate_no_panic (valid : Validator) (h : SigHeader) (typ : Int) :
    NP (Sign.validate valid h typ) := by
  unfold Sign.validate
  repeat' split
  all_goals simp [Err.isPanic]

theorem attachedSignatureInput_no_panic (P : Prims) (v : Version) (hv : v.major = 1 ∨ v.major = 2)
    (hh chunk : Bytes) (seqno : Nat) (f : Bool) : NP (attachedSignatureInput P v hh chunk seqno f) := by
  unfold attachedSignatureInput
  rcases hv with hv | hv <;> simp [hv]

theorem sig_processBlock_no_panic (P : Prims) (s : Sign.State)
    (hv : s.version.major = 1 ∨ s.version.major = 2) (b : SigBlock) (f : Bool) (seqno : Nat) :
    NP (Sign.processBlock P s b f seqno) := by
  have h1 := attachedSignatureInput_no_panic P s.version hv
  unfold Sign.processBlock
  repeat' split
  all_goals (try simp only [NP_ok, NP_error])
  all_goals (first | rfl | (rename_i heq; exact h1 _ _ _ _ _ heq))

theorem sig_run_no_panic (P : Prims) (s : Sign.State)
    (hv : s.version.major = 1 ∨ s.version.major = 2) (tail : Tail)
    (htail : ∀ e, tail = .err e → Err.isPanic e = false) :
    ∀ (items : List (Option SigBlock)) (seqno : Nat) (e : Err),
      (Sign.run P s items tail seqno).err = some e → Err.isPanic e = false := by
  intro items
  induction items with
  | nil =>
    intro seqno e h
    unfold Sign.run at h
    split at h
    · cases h; rfl
    · cases h; exact htail _ rfl
  | cons x rest ih =>
    intro seqno e h
    cases x with
    | none => unfold Sign.run at h; cases h; rfl
    | some b =>
      unfold Sign.run at h
      simp only [] at h
      split at h
      · rename_i e' heq
        cases h
        exact sig_processBlock_no_panic P s hv b _ seqno _ heq
      · split at h
        · rename_i e' heq2
          cases h
          rcases hv with hv | hv
          · rw [checkChunkState_v1 s.version hv] at heq2
            · cases heq2
            · simp only [Sign.blockFinal, hv, if_true]
              cases b.chunk <;> simp
          · exact checkChunkState_v2_no_panic s.version hv _ _ _ _ heq2
        · split at h
          · exact endOfStream_no_panic rest tail htail e h
          · exact ih _ _ h

theorem ver_no_panic (P : Prims) (valid : Validator) (hvalid : ValidatorOK valid)
    (kr : Keyring) (hr : HeaderRead SigHeader) (ps : PStream SigBlock)
    (htail : ∀ e, ps.tail = .err e → Err.isPanic e = false) (e : Err)
    (h : (Sign.verifyStream P valid kr hr ps).err = some e) : Err.isPanic e = false := by
  unfold Sign.verifyStream at h
  cases hr with
  | unreadable => cases h; rfl
  | undecodable hb => cases h; rfl
  | ok hb hd =>
    simp only [] at h
    split at h
    · rename_i e' heq
      cases h
      exact sig_validate_no_panic valid hd _ _ heq
    · rename_i heq
      have hv := hvalid _ (sig_validate_ok valid hd _ heq).2.1
      split at h
      · cases h; rfl
      · split at h
        · rename_i hc
          exfalso
          rcases hv with hv | hv <;> simp [hv] at hc
        · exact sig_run_no_panic P _ hv ps.tail htail ps.items 1 e h

theorem det_no_panic (P : Prims) (valid : Validator) (kr : Keyring)
    (hr : HeaderRead SigHeader) (sr : Sign.SigRead) (msg : Bytes)
    (hsr : ∀ e, sr = .none e → Err.isPanic e = false) (e : Err)
    (h : Sign.verifyDetached P valid kr hr sr msg = .error e) : Err.isPanic e = false := by
  unfold Sign.verifyDetached at h
  repeat' split at h
  all_goals (try cases h)
  all_goals (try rfl)
  · rename_i heq
    exact sig_validate_no_panic valid _ _ _ heq
  · exact hsr _ rfl

theorem ver_gate (P : Prims) (valid : Validator) (kr : Keyring) (hb : Bytes) (h : SigHeader)
    (ps : PStream SigBlock)
    (hok : (Sign.verifyStream P valid kr (.ok hb h) ps).err = none) :
    h.formatName = Gen.c_sp_FormatName ∧ valid h.version = true ∧ h.typ = mtAttached := by
  unfold Sign.verifyStream at hok
  simp only [] at hok
  split at hok
  · cases hok
  · rename_i heq
    exact sig_validate_ok valid h _ heq

theorem ver_gate_released (P : Prims) (valid : Validator) (kr : Keyring) (hb : Bytes) (h : SigHeader)
    (ps : PStream SigBlock)
    (hrel : (Sign.verifyStream P valid kr (.ok hb h) ps).released ≠ []) :
    h.formatName = Gen.c_sp_FormatName ∧ valid h.version = true ∧ h.typ = mtAttached := by
  unfold Sign.verifyStream at hrel
  simp only [] at hrel
  split at hrel
  · simp at hrel
  · rename_i heq
    exact sig_validate_ok valid h _ heq


/-! ## C17: gating on the sending side — unknown versions are refused with an
    error, before anything is drawn or written -/

theorem seal_refuses_unknown (P : Prims) (bs : Nat) (v : Version) (hv : knownVersion v = false)
    (sender : Option Bytes) (rs : List Encrypt.Recipient) (eph : Encrypt.EphSource) (src : Rand.Source) (pt : Bytes) :
    Encrypt.sealRand P bs v sender rs eph src pt = .error .badVersion := by
  unfold Encrypt.sealRand
  simp [hv]

theorem sign_refuses_unknown (P : Prims) (bs : Nat) (v : Version) (hv : knownVersion v = false)
    (signer : Bytes) (src : Rand.Source) (msg : Bytes) :
    Sign.attachedRand P bs v signer src msg = .error .badVersion ∧
    Sign.detachedRand P v signer src msg = .error .badVersion := by
  unfold Sign.attachedRand Sign.detachedRand
  simp [hv]

theorem enc_header_fields (P : Prims) (v : Version) (sender : Option Bytes) (eph pk : Bytes)
    (rs : List Encrypt.Recipient) (h : EncHeader) (hh : Encrypt.header P v sender eph pk rs = .ok h) :
    h.formatName = Gen.c_sp_FormatName ∧ h.version = v ∧ h.typ = mtEncryption := by
  unfold Encrypt.header at hh
  simp only [] at hh
  split at hh
  · cases hh
  · cases hh
    exact ⟨rfl, rfl, rfl⟩

/-- a sender that succeeds labels the message with the requested, known version
    and its own mode -/
theorem seal_labels (P : Prims) (bs : Nat) (v : Version) (sender : Option Bytes) (rs : List Encrypt.Recipient)
    (eph pk pt : Bytes) (h : EncHeader) (hb : Bytes) (blks : List EncBlock)
    (hs : Encrypt.sealPackets P bs v sender rs eph pk pt = .ok (h, hb, blks)) :
    h.formatName = Gen.c_sp_FormatName ∧ h.version = v ∧ (v = v1 ∨ v = v2) ∧ h.typ = mtEncryption := by
  unfold Encrypt.sealPackets at hs
  simp only [] at hs
  repeat' split at hs
  all_goals (try cases hs)
  have hk : knownVersion v = true := by
    cases hk : knownVersion v with
    | true => rfl
    | false => simp [hk] at *
  have := enc_header_fields P v sender eph pk rs h (by assumption)
  exact ⟨this.1, this.2.1, (knownVersion_iff v).1 hk, this.2.2⟩

theorem sign_labels (P : Prims) (bs : Nat) (v : Version) (signer nonce msg : Bytes)
    (h : SigHeader) (hb : Bytes) (blks : List SigBlock)
    (hs : Sign.attachedPackets P bs v signer nonce msg = .ok (h, hb, blks)) :
    h.formatName = Gen.c_sp_FormatName ∧ h.version = v ∧ (v = v1 ∨ v = v2) ∧ h.typ = mtAttached := by
  unfold Sign.attachedPackets at hs
  simp only [] at hs
  repeat' split at hs
  all_goals (try cases hs)
  have hk : knownVersion v = true := by
    cases hk : knownVersion v with
    | true => rfl
    | false => simp [hk] at *
  exact ⟨rfl, rfl, (knownVersion_iff v).1 hk, rfl⟩

/-! ## necessity of the added input hypotheses `htail` / `hsr` -/

/-- without `htail`, `ver_no_panic` is false: a reader error that happens to be
    `Err.panic _` is handed through (for every `P`) -/
theorem ver_tail_panic_propagates (P : Prims) :
    ∃ (kr : Keyring) (h : SigHeader) (hb : Bytes),
      (Sign.verifyStream P knownMajor kr (.ok hb h) ⟨[], .err (.panic "reader")⟩).err
        = some (.panic "reader") := by
  refine ⟨⟨fun _ => (0, none), fun _ => none, [], fun _ => none, fun _ => some []⟩,
    ⟨Gen.c_sp_FormatName, v1, mtAttached, [], []⟩, [], ?_⟩
  simp [Sign.verifyStream, Sign.validate, Sign.run, knownMajor, v1, mtAttached, mtDetached]

/-- without `hsr`, `det_no_panic` is false -/
theorem det_sigread_panic_propagates (P : Prims) :
    ∃ (kr : Keyring) (h : SigHeader) (hb : Bytes),
      Sign.verifyDetached P knownMajor kr (.ok hb h) (.none (.panic "reader")) []
        = .error (.panic "reader") := by
  refine ⟨⟨fun _ => (0, none), fun _ => none, [], fun _ => none, fun _ => some []⟩,
    ⟨Gen.c_sp_FormatName, v1, mtDetached, [], []⟩, [], ?_⟩
  simp [Sign.verifyDetached, Sign.validate, knownMajor, v1, mtAttached, mtDetached]

/-- the same hand-through in the decryption and signcryption runs -/
theorem dec_run_tail_propagates (P : Prims) (st : Decrypt.State) (st' : Signcrypt.State) (e : Err) (n : Nat) :
    (Decrypt.run P st [] (.err e) n).err = some e ∧ (Signcrypt.run P st' [] (.err e) n).err = some e := by
  simp [Decrypt.run, Signcrypt.run]

end Saltpack.Proofs
