/-
  Hostile input never makes a receiver panic (behind Props/C15), and the gating
  of format name / version / mode on both sides (behind Props/C17).

  In the model every explicit `panic(` of the Go code and every index/nil
  dereference on attacker-controlled data is a branch returning
  `Err.panic site`.  "Never panics" = no run ends in such an error.
-/
import Saltpack.Model.Decrypt
import Saltpack.Model.Signcrypt
import Saltpack.Model.Sign
import Saltpack.Model.Encrypt

namespace Saltpack.Proofs
open Saltpack

def Err.isPanic : Err → Bool
  | .panic _ => true
  | _ => false

/-- validators the library documents as legal: they admit only major versions the
    code implements ("Let caller be responsible for filtering out unknown versions") -/
def ValidatorOK (valid : Validator) : Prop := ∀ v, valid v = true → v.major = 1 ∨ v.major = 2

theorem knownMajor_ok : ValidatorOK knownMajor := by
  sorry

/-! ## C15: no panic, for all decoded headers/packets and all keyring behaviours -/

theorem dec_no_panic (P : Prims) (hP : P.Lawful) (valid : Validator) (hvalid : ValidatorOK valid)
    (kr : Keyring) (hr : HeaderRead EncHeader) (ps : PStream EncBlock) (e : Err)
    (h : (Decrypt.openStream P valid kr hr ps).err = some e) : Err.isPanic e = false := by
  sorry

theorem sc_no_panic (P : Prims) (kr : Keyring) (res : Signcrypt.Resolver)
    (hr : HeaderRead EncHeader) (ps : PStream SigncryptBlock) (e : Err)
    (h : (Signcrypt.openStream P kr res hr ps).err = some e) : Err.isPanic e = false := by
  sorry

theorem ver_no_panic (P : Prims) (valid : Validator) (hvalid : ValidatorOK valid)
    (kr : Keyring) (hr : HeaderRead SigHeader) (ps : PStream SigBlock) (e : Err)
    (h : (Sign.verifyStream P valid kr hr ps).err = some e) : Err.isPanic e = false := by
  sorry

theorem det_no_panic (P : Prims) (valid : Validator) (kr : Keyring)
    (hr : HeaderRead SigHeader) (sr : Sign.SigRead) (msg : Bytes) (e : Err)
    (h : Sign.verifyDetached P valid kr hr sr msg = .error e) : Err.isPanic e = false := by
  sorry

/-- a validator that admits another major does lead to the documented panics —
    the hypothesis `ValidatorOK` is necessary (non-vacuity of the guard) -/
theorem dec_panics_on_major3 (P : Prims) :
    ∃ (kr : Keyring) (h : EncHeader) (hb : Bytes),
      Err.isPanic (match (Decrypt.openStream P (fun _ => true) kr (.ok hb h) ⟨[], .eof⟩).err with
        | some e => e | none => .badVersion) = true := by
  sorry

/-! ## C17: gating on the receiving side -/

/-- an encrypted message is processed only if its header says "saltpack", has a
    version the validator admits, and is of encryption type -/
theorem enc_gate (P : Prims) (valid : Validator) (kr : Keyring) (hh : Bytes) (h : EncHeader)
    (log : List KeyCall) (st : Decrypt.State)
    (hok : Decrypt.processHeader P valid kr hh h = (log, .ok st)) :
    h.formatName = Gen.c_sp_FormatName ∧ valid h.version = true ∧ h.typ = mtEncryption := by
  sorry

theorem sc_gate (P : Prims) (kr : Keyring) (res : Signcrypt.Resolver) (hh : Bytes) (h : EncHeader)
    (log : List KeyCall) (st : Signcrypt.State)
    (hok : Signcrypt.processHeader P kr res hh h = (log, .ok st)) :
    h.formatName = Gen.c_sp_FormatName ∧ h.version.major = 2 ∧ h.typ = mtSigncryption := by
  sorry

theorem ver_gate (P : Prims) (valid : Validator) (kr : Keyring) (hb : Bytes) (h : SigHeader)
    (ps : PStream SigBlock)
    (hok : (Sign.verifyStream P valid kr (.ok hb h) ps).err = none) :
    h.formatName = Gen.c_sp_FormatName ∧ valid h.version = true ∧ h.typ = mtAttached := by
  sorry

/-- releasing anything at all already requires the gate -/
theorem enc_gate_released (P : Prims) (valid : Validator) (kr : Keyring) (hb : Bytes) (h : EncHeader)
    (ps : PStream EncBlock)
    (hrel : (Decrypt.openStream P valid kr (.ok hb h) ps).released ≠ [] ∨
            (Decrypt.openStream P valid kr (.ok hb h) ps).err = none) :
    h.formatName = Gen.c_sp_FormatName ∧ valid h.version = true ∧ h.typ = mtEncryption := by
  sorry

theorem sc_gate_released (P : Prims) (kr : Keyring) (res : Signcrypt.Resolver) (hb : Bytes) (h : EncHeader)
    (ps : PStream SigncryptBlock)
    (hrel : (Signcrypt.openStream P kr res (.ok hb h) ps).released ≠ [] ∨
            (Signcrypt.openStream P kr res (.ok hb h) ps).err = none) :
    h.formatName = Gen.c_sp_FormatName ∧ h.version.major = 2 ∧ h.typ = mtSigncryption := by
  sorry

theorem ver_gate_released (P : Prims) (valid : Validator) (kr : Keyring) (hb : Bytes) (h : SigHeader)
    (ps : PStream SigBlock)
    (hrel : (Sign.verifyStream P valid kr (.ok hb h) ps).released ≠ []) :
    h.formatName = Gen.c_sp_FormatName ∧ valid h.version = true ∧ h.typ = mtAttached := by
  sorry

/-- the four mode numbers are pairwise distinct (generated constants) -/
theorem modes_distinct :
    mtEncryption ≠ mtAttached ∧ mtEncryption ≠ mtDetached ∧ mtEncryption ≠ mtSigncryption ∧
    mtAttached ≠ mtDetached ∧ mtAttached ≠ mtSigncryption ∧ mtDetached ≠ mtSigncryption := by
  sorry

/-! ## C17: gating on the sending side — unknown versions are refused with an
    error, before anything is drawn or written -/

theorem seal_refuses_unknown (P : Prims) (bs : Nat) (v : Version) (hv : knownVersion v = false)
    (sender : Option Bytes) (rs : List Encrypt.Recipient) (eph : Encrypt.EphSource) (src : Rand.Source) (pt : Bytes) :
    Encrypt.sealRand P bs v sender rs eph src pt = .error .badVersion := by
  sorry

theorem sign_refuses_unknown (P : Prims) (bs : Nat) (v : Version) (hv : knownVersion v = false)
    (signer : Bytes) (src : Rand.Source) (msg : Bytes) :
    Sign.attachedRand P bs v signer src msg = .error .badVersion ∧
    Sign.detachedRand P v signer src msg = .error .badVersion := by
  sorry

/-- the only versions the senders accept are exactly 1.0 and 2.0 -/
theorem knownVersion_iff (v : Version) : knownVersion v = true ↔ v = v1 ∨ v = v2 := by
  sorry

/-- a sender that succeeds labels the message with the requested, known version
    and its own mode -/
theorem seal_labels (P : Prims) (bs : Nat) (v : Version) (sender : Option Bytes) (rs : List Encrypt.Recipient)
    (eph pk pt : Bytes) (h : EncHeader) (hb : Bytes) (blks : List EncBlock)
    (hs : Encrypt.sealPackets P bs v sender rs eph pk pt = .ok (h, hb, blks)) :
    h.formatName = Gen.c_sp_FormatName ∧ h.version = v ∧ (v = v1 ∨ v = v2) ∧ h.typ = mtEncryption := by
  sorry

theorem sign_labels (P : Prims) (bs : Nat) (v : Version) (signer nonce msg : Bytes)
    (h : SigHeader) (hb : Bytes) (blks : List SigBlock)
    (hs : Sign.attachedPackets P bs v signer nonce msg = .ok (h, hb, blks)) :
    h.formatName = Gen.c_sp_FormatName ∧ h.version = v ∧ (v = v1 ∨ v = v2) ∧ h.typ = mtAttached := by
  sorry

end Saltpack.Proofs
