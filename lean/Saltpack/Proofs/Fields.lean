/-
  Proofs for Props/C19Fields: which packet fields carry which identities.

  * the key-id slots of an encryption header are `nil` / the public key, in
    header order; a visible recipient is named exactly once;
  * the sender's key enters an encryption message only through the sender
    secretbox and the MAC-key boxes; a hidden recipient's key only through boxes;
  * the same for signcryption (derived shared keys; signing key inside
    secretboxes under the payload key).

  Core Lean only.
-/
import Saltpack.Model.Encrypt
import Saltpack.Model.Signcrypt

namespace Saltpack.Proofs
open Saltpack

/-! ## encryption -/

/-- the key id the sender writes for a recipient -/
def fieldsKid (r : Encrypt.Recipient) : Option Bytes := if r.hidden then none else some r.pub

theorem fields_receiverEntries_kids (P : Prims) (v : Version) (eph pk : Bytes) :
    ∀ (rs : List Encrypt.Recipient) (i : Nat) (es : List RecvKeys),
      Encrypt.receiverEntries P v eph pk rs i = .ok es →
      es.map (·.kid) = rs.map (fun r => if r.hidden then none else some r.pub) := by
  intro rs
  induction rs with
  | nil =>
    intro i es h
    simp only [Encrypt.receiverEntries] at h
    cases h
    rfl
  | cons r rs ih =>
    intro i es h
    simp only [Encrypt.receiverEntries] at h
    cases hn : Nonce.payloadKeyBox v i with
    | error e => rw [hn] at h; cases h
    | ok n =>
      cases hr : Encrypt.receiverEntries P v eph pk rs (i + 1) with
      | error e => rw [hn, hr] at h; cases h
      | ok es' =>
        rw [hn, hr] at h
        cases h
        simp only [List.map_cons, ih _ _ hr]

theorem fields_header_receivers (P : Prims) (v : Version) (sender : Option Bytes) (eph pk : Bytes)
    (rs : List Encrypt.Recipient) (h : EncHeader)
    (hh : Encrypt.header P v sender eph pk rs = .ok h) :
    Encrypt.receiverEntries P v eph pk rs 0 = .ok h.receivers ∧
    h.senderSecretbox = P.sbSeal pk Nonce.senderKeySecretBox (P.boxPub (sender.getD eph)) := by
  simp only [Encrypt.header] at hh
  cases hr : Encrypt.receiverEntries P v eph pk rs 0 with
  | error e => rw [hr] at hh; cases hh
  | ok es =>
    rw [hr] at hh
    cases hh
    exact ⟨rfl, rfl⟩

theorem enc_kid_slots (P : Prims) (v : Version) (sender : Option Bytes) (eph pk : Bytes)
    (rs : List Encrypt.Recipient) (h : EncHeader)
    (hh : Encrypt.header P v sender eph pk rs = .ok h) :
    h.receivers.map (·.kid) = rs.map (fun r => if r.hidden then none else some r.pub) :=
  fields_receiverEntries_kids P v eph pk rs 0 h.receivers
    (fields_header_receivers P v sender eph pk rs h hh).1

theorem fields_checkReceivers_nodup (rs : List Encrypt.Recipient)
    (hck : Encrypt.checkReceivers rs = .ok ()) : (rs.map (·.pub)).Nodup := by
  unfold Encrypt.checkReceivers at hck
  split at hck
  · cases hck
  · split at hck
    · cases hck
    · split at hck
      · assumption
      · cases hck

theorem fields_count_absent (p : Bytes) :
    ∀ (rs : List Encrypt.Recipient), p ∉ rs.map (·.pub) →
      rs.countP (fun r' => decide ((if r'.hidden then none else some r'.pub) = some p)) = 0 := by
  intro rs hp
  rw [List.countP_eq_zero]
  intro r' hr'
  simp only [decide_eq_true_eq]
  intro hk
  apply hp
  cases hh : r'.hidden with
  | true => rw [hh] at hk; simp at hk
  | false =>
    rw [hh] at hk
    simp at hk
    exact List.mem_map.mpr ⟨r', hr', hk⟩

theorem fields_count_named (r : Encrypt.Recipient) :
    ∀ (rs : List Encrypt.Recipient), (rs.map (·.pub)).Nodup → r ∈ rs →
      rs.countP (fun r' => decide ((if r'.hidden then none else some r'.pub) = some r.pub))
        = (if r.hidden then 0 else 1) := by
  intro rs
  induction rs with
  | nil => intro _ hr; cases hr
  | cons r0 rs ih =>
    intro hnd hr
    simp only [List.map_cons, List.nodup_cons] at hnd
    obtain ⟨hnot, hnd'⟩ := hnd
    rw [List.countP_cons]
    rcases List.mem_cons.mp hr with rfl | hr'
    · rw [fields_count_absent r.pub rs hnot]
      cases hh : r.hidden <;> simp
    · rw [ih hnd' hr']
      have hne : r0.pub ≠ r.pub := by
        intro he
        apply hnot
        rw [he]
        exact List.mem_map.mpr ⟨r, hr', rfl⟩
      have : decide ((if r0.hidden then none else some r0.pub) = some r.pub) = false := by
        cases hh : r0.hidden <;> simp [hne]
      rw [this]
      simp

theorem enc_named_once (P : Prims) (v : Version) (sender : Option Bytes) (eph pk : Bytes)
    (rs : List Encrypt.Recipient) (h : EncHeader)
    (hh : Encrypt.header P v sender eph pk rs = .ok h)
    (hck : Encrypt.checkReceivers rs = .ok ()) (r : Encrypt.Recipient) (hr : r ∈ rs) :
    (h.receivers.filter (fun e => e.kid = some r.pub)).length = (if r.hidden then 0 else 1) := by
  have hk := enc_kid_slots P v sender eph pk rs h hh
  have hc := fields_count_named r rs (fields_checkReceivers_nodup rs hck) hr
  rw [← List.countP_eq_length_filter]
  have h1 : h.receivers.countP (fun e => decide (e.kid = some r.pub))
      = (h.receivers.map (·.kid)).countP (fun k => decide (k = some r.pub)) := by
    rw [List.countP_map]; rfl
  rw [h1, hk, List.countP_map]
  exact hc

theorem fields_receiverEntries_sender_free (P : Prims) (v : Version) (s s' : Option Bytes) (eph pk : Bytes)
    (rs : List Encrypt.Recipient) :
    (Encrypt.header P v s eph pk rs).map (fun h => { h with senderSecretbox := [] })
      = (Encrypt.header P v s' eph pk rs).map (fun h => { h with senderSecretbox := [] }) := by
  simp only [Encrypt.header]
  cases Encrypt.receiverEntries P v eph pk rs 0 <;> rfl

theorem enc_header_sender_free (P : Prims) (v : Version) (s s' : Option Bytes) (eph pk : Bytes)
    (rs : List Encrypt.Recipient) :
    (Encrypt.header P v s eph pk rs).map (fun h => { h with senderSecretbox := [] })
      = (Encrypt.header P v s' eph pk rs).map (fun h => { h with senderSecretbox := [] }) :=
  fields_receiverEntries_sender_free P v s s' eph pk rs

theorem enc_sender_secretbox (P : Prims) (v : Version) (s : Bytes) (eph pk : Bytes)
    (rs : List Encrypt.Recipient) (h : EncHeader)
    (hh : Encrypt.header P v (some s) eph pk rs = .ok h) :
    h.senderSecretbox = P.sbSeal pk Nonce.senderKeySecretBox (P.boxPub s) :=
  (fields_header_receivers P v (some s) eph pk rs h hh).2

/-- the sender's MAC keys depend on the sender secret only through the
    key-derivation boxes -/
theorem fields_macKeysSender_sender (P : Prims) (v : Version) (s s' eph hh : Bytes) :
    ∀ (rs : List Encrypt.Recipient) (i : Nat),
      (∀ r ∈ rs, ∀ n, P.box s r.pub n (zeros 32) = P.box s' r.pub n (zeros 32)) →
      Encrypt.macKeysSender P v s eph hh rs i = Encrypt.macKeysSender P v s' eph hh rs i := by
  intro rs
  induction rs with
  | nil => intro i _; rfl
  | cons r rs ih =>
    intro i hmac
    have h1 : Encrypt.macKeySender P v i s eph r.pub hh = Encrypt.macKeySender P v i s' eph r.pub hh := by
      simp only [Encrypt.macKeySender, macKeySingle, hmac r (List.mem_cons_self ..)]
    simp only [Encrypt.macKeysSender, h1,
      ih (i + 1) (fun r' hr' => hmac r' (List.mem_cons_of_mem _ hr'))]

theorem enc_sender_noninterference (P : Prims) (bs : Nat) (v : Version) (s s' : Bytes)
    (rs : List Encrypt.Recipient) (eph pk pt : Bytes)
    (hbox : P.sbSeal pk Nonce.senderKeySecretBox (P.boxPub s) = P.sbSeal pk Nonce.senderKeySecretBox (P.boxPub s'))
    (hmac : ∀ r ∈ rs, ∀ n, P.box s r.pub n (zeros 32) = P.box s' r.pub n (zeros 32)) :
    Encrypt.sealWith P bs v (some s) rs eph pk pt = Encrypt.sealWith P bs v (some s') rs eph pk pt := by
  have hh : Encrypt.header P v (some s) eph pk rs = Encrypt.header P v (some s') eph pk rs := by
    simp only [Encrypt.header, Option.getD_some, hbox]
  have hm : ∀ hh, Encrypt.macKeysSender P v s eph hh rs 0 = Encrypt.macKeysSender P v s' eph hh rs 0 :=
    fun hh => fields_macKeysSender_sender P v s s' eph hh rs 0 hmac
  simp only [Encrypt.sealWith, Encrypt.sealPackets, Option.getD_some, hh, hm]

theorem enc_anonymous (P : Prims) (bs : Nat) (v : Version) (rs : List Encrypt.Recipient) (eph pk pt : Bytes) :
    Encrypt.sealWith P bs v none rs eph pk pt = Encrypt.sealWith P bs v (some eph) rs eph pk pt := by
  have hh : Encrypt.header P v none eph pk rs = Encrypt.header P v (some eph) eph pk rs := rfl
  simp only [Encrypt.sealWith, Encrypt.sealPackets, Option.getD_some, Option.getD_none, hh]

/-- pointwise relation between two lists (core Lean has no `List.Forall₂`) -/
inductive FieldsForall₂ {α β : Type} (R : α → β → Prop) : List α → List β → Prop
  | nil : FieldsForall₂ R [] []
  | cons {a b l₁ l₂} : R a b → FieldsForall₂ R l₁ l₂ → FieldsForall₂ R (a :: l₁) (b :: l₂)

theorem fields_forall₂_of_zip {α β : Type} (R : α → β → Prop) :
    ∀ (l₁ : List α) (l₂ : List β), l₁.length = l₂.length →
      (∀ a b, (a, b) ∈ l₁.zip l₂ → R a b) → FieldsForall₂ R l₁ l₂ := by
  intro l₁
  induction l₁ with
  | nil =>
    intro l₂ hl _
    cases l₂ with
    | nil => exact .nil
    | cons b l₂ => simp at hl
  | cons a l₁ ih =>
    intro l₂ hl h
    cases l₂ with
    | nil => simp at hl
    | cons b l₂ =>
      refine .cons (h a b (by simp)) (ih l₂ (by simpa using hl) ?_)
      intro a' b' hm
      exact h a' b' (by simp [hm])

/-- the relation of `enc_hidden_noninterference` between recipient lists -/
def FieldsSameBoxes (P : Prims) (sec eph : Bytes) (r r' : Encrypt.Recipient) : Prop :=
  r.hidden = r'.hidden ∧ (r.hidden = false → r.pub = r'.pub) ∧
    (∀ n m, P.box eph r.pub n m = P.box eph r'.pub n m) ∧
    (∀ n m, P.box sec r.pub n m = P.box sec r'.pub n m)

theorem fields_receiverEntries_congr (P : Prims) (v : Version) (sec eph pk : Bytes)
    {rs rs' : List Encrypt.Recipient} (hsame : FieldsForall₂ (FieldsSameBoxes P sec eph) rs rs') :
    ∀ i, Encrypt.receiverEntries P v eph pk rs i = Encrypt.receiverEntries P v eph pk rs' i := by
  induction hsame with
  | nil => intro i; rfl
  | @cons r r' rs rs' hr _ ih =>
    intro i
    obtain ⟨hhid, hvis, hbe, _⟩ := hr
    have hkid : (if r.hidden then none else some r.pub) = (if r'.hidden then none else some r'.pub) := by
      rw [← hhid]
      cases hh : r.hidden with
      | true => rfl
      | false => simp [hvis hh]
    simp only [Encrypt.receiverEntries, ih (i + 1), hkid, hbe]

theorem fields_macKeysSender_congr (P : Prims) (v : Version) (sec eph hh : Bytes)
    {rs rs' : List Encrypt.Recipient} (hsame : FieldsForall₂ (FieldsSameBoxes P sec eph) rs rs') :
    ∀ i, Encrypt.macKeysSender P v sec eph hh rs i = Encrypt.macKeysSender P v sec eph hh rs' i := by
  induction hsame with
  | nil => intro i; rfl
  | @cons r r' rs rs' hr _ ih =>
    intro i
    obtain ⟨_, _, hbe, hbs⟩ := hr
    have h1 : Encrypt.macKeySender P v i sec eph r.pub hh = Encrypt.macKeySender P v i sec eph r'.pub hh := by
      simp only [Encrypt.macKeySender, macKeySingle, hbe, hbs]
    simp only [Encrypt.macKeysSender, h1, ih (i + 1)]

theorem enc_hidden_noninterference (P : Prims) (bs : Nat) (v : Version) (sender : Option Bytes)
    (rs rs' : List Encrypt.Recipient) (eph pk pt : Bytes)
    (hck : Encrypt.checkReceivers rs = .ok ()) (hck' : Encrypt.checkReceivers rs' = .ok ())
    (hlen : rs.length = rs'.length)
    (hsame : ∀ r r', (r, r') ∈ rs.zip rs' →
        r.hidden = r'.hidden ∧ (r.hidden = false → r.pub = r'.pub) ∧
        (∀ n m, P.box eph r.pub n m = P.box eph r'.pub n m) ∧
        (∀ n m, P.box (sender.getD eph) r.pub n m = P.box (sender.getD eph) r'.pub n m)) :
    Encrypt.sealWith P bs v sender rs eph pk pt = Encrypt.sealWith P bs v sender rs' eph pk pt := by
  have hsame' : FieldsForall₂ (FieldsSameBoxes P (sender.getD eph) eph) rs rs' :=
    fields_forall₂_of_zip _ rs rs' hlen hsame
  have hh : Encrypt.header P v sender eph pk rs = Encrypt.header P v sender eph pk rs' := by
    simp only [Encrypt.header, fields_receiverEntries_congr P v (sender.getD eph) eph pk hsame' 0]
  have hm : ∀ hh, Encrypt.macKeysSender P v (sender.getD eph) eph hh rs 0
      = Encrypt.macKeysSender P v (sender.getD eph) eph hh rs' 0 :=
    fun hh => fields_macKeysSender_congr P v (sender.getD eph) eph hh hsame' 0
  simp only [Encrypt.sealWith, Encrypt.sealPackets, hck, hck', hh, hm]

/-! ## signcryption -/

theorem fields_sc_kids (P : Prims) (eph pk : Bytes) :
    ∀ (rs : List Signcrypt.Recipient) (k : Nat),
      (Signcrypt.receiverEntries P eph pk rs k).map (·.kid)
        = (List.zipIdx rs k).map (fun (r, i) => match r with
            | .box pub => some (Signcrypt.keyIdentifier P (Signcrypt.derivedKeyFromBoxKeys P pub eph) i)
            | .sym _ ident => some ident) := by
  intro rs
  induction rs with
  | nil => intro k; rfl
  | cons r rs ih =>
    intro k
    simp only [Signcrypt.receiverEntries, List.zipIdx_cons, List.map_cons, ih (k + 1)]
    cases r <;> rfl

theorem sc_kid_slots (P : Prims) (sender : Option Bytes) (eph pk : Bytes) (rs : List Signcrypt.Recipient) :
    (Signcrypt.header P sender eph pk rs).receivers.map (·.kid)
      = (List.zipIdx rs).map (fun (r, i) => match r with
          | .box pub => some (Signcrypt.keyIdentifier P (Signcrypt.derivedKeyFromBoxKeys P pub eph) i)
          | .sym _ ident => some ident) :=
  fields_sc_kids P eph pk rs 0

theorem fields_sc_receiverEntries_congr (P : Prims) (eph pk : Bytes)
    {rs rs' : List Signcrypt.Recipient}
    (hsame : FieldsForall₂ (fun r r' => match r, r' with
        | .box p, .box p' => Signcrypt.derivedKeyFromBoxKeys P p eph = Signcrypt.derivedKeyFromBoxKeys P p' eph
        | .sym k i, .sym k' i' => k = k' ∧ i = i'
        | _, _ => False) rs rs') :
    ∀ i, Signcrypt.receiverEntries P eph pk rs i = Signcrypt.receiverEntries P eph pk rs' i := by
  induction hsame with
  | nil => intro i; rfl
  | @cons r r' rs rs' hr _ ih =>
    intro i
    have h1 : Signcrypt.receiverEntry P eph pk i r = Signcrypt.receiverEntry P eph pk i r' := by
      cases r with
      | box p =>
        cases r' with
        | box p' =>
          simp only at hr
          simp only [Signcrypt.receiverEntry, hr]
        | sym k' i' => exact absurd hr (by simp)
      | sym k ident =>
        cases r' with
        | box p' => exact absurd hr (by simp)
        | sym k' i' =>
          simp only at hr
          obtain ⟨rfl, rfl⟩ := hr
          rfl
    simp only [Signcrypt.receiverEntries, h1, ih (i + 1)]

theorem sc_box_noninterference (P : Prims) (bs : Nat) (sender : Option Bytes)
    (rs rs' : List Signcrypt.Recipient) (eph pk pt : Bytes)
    (hck : Signcrypt.checkReceivers rs [] = .ok ()) (hck' : Signcrypt.checkReceivers rs' [] = .ok ())
    (hlen : rs.length = rs'.length)
    (hsame : ∀ r r', (r, r') ∈ rs.zip rs' → match r, r' with
        | .box p, .box p' => Signcrypt.derivedKeyFromBoxKeys P p eph = Signcrypt.derivedKeyFromBoxKeys P p' eph
        | .sym k i, .sym k' i' => k = k' ∧ i = i'
        | _, _ => False) :
    Signcrypt.sealWith P bs sender rs eph pk pt = Signcrypt.sealWith P bs sender rs' eph pk pt := by
  have hh : Signcrypt.header P sender eph pk rs = Signcrypt.header P sender eph pk rs' := by
    simp only [Signcrypt.header,
      fields_sc_receiverEntries_congr P eph pk (fields_forall₂_of_zip _ rs rs' hlen hsame) 0]
  simp only [Signcrypt.sealWith, Signcrypt.sealPackets, hck, hck', hh]

theorem sc_header_sender_free (P : Prims) (s s' : Option Bytes) (eph pk : Bytes) (rs : List Signcrypt.Recipient) :
    { Signcrypt.header P s eph pk rs with senderSecretbox := [] }
      = { Signcrypt.header P s' eph pk rs with senderSecretbox := [] } := rfl

theorem sc_sender_inside_secretboxes (P : Prims) (sender : Option Bytes) (eph pk hh : Bytes)
    (rs : List Signcrypt.Recipient) (i : Nat) (chunk : Bytes) (fin : Bool) (b : SigncryptBlock)
    (hb : Signcrypt.blockStruct P sender pk hh i chunk fin = .ok b) :
    (Signcrypt.header P sender eph pk rs).senderSecretbox
        = P.sbSeal pk Nonce.senderKeySecretBox (match sender with | none => zeros 32 | some s => P.sigPub s)
    ∧ ∃ sg, b.ct = P.sbSeal pk (Nonce.chunkSigncryption hh fin i) (sg ++ chunk) ∧
        (sender = none → sg = zeros 64) := by
  refine ⟨by cases sender <;> rfl, ?_⟩
  unfold Signcrypt.blockStruct at hb
  split at hb
  · cases hb
  · cases hb
    refine ⟨_, rfl, ?_⟩
    intro hs
    subst hs
    rfl

end Saltpack.Proofs
