/-
  The dispatcher `ClassifyEncryptedStreamAndMakeDecoder` (Model/Dispatch.lean):
  its outcome is the outcome of the direct entry point named by the verdict, on
  the same bytes from byte 0; signatures and non-saltpack input are refused
  before any key is touched.  Behind Props/C16Dispatch.
-/
import Saltpack.Model.Dispatch
import Saltpack.Proofs.Bufio
import Saltpack.Proofs.ClassifyLemmas

namespace Saltpack.Proofs.DispatchP
open Saltpack Saltpack.Classify Saltpack.Dispatch Saltpack.Stream Saltpack.Bufio BufioP

variable (P : Prims)

theorem mt_distinct : mtEncryption ≠ mtSigncryption ∧ mtAttached ≠ mtEncryption ∧ mtAttached ≠ mtSigncryption ∧
    mtDetached ≠ mtEncryption ∧ mtDetached ≠ mtSigncryption := by decide

theorem build_enc (kr : Keyring) (res : Signcrypt.Resolver) (arm : Bool) (b : Bytes) (v : Version) (all : Bytes) :
    build P kr res (.ok (arm, b, mtEncryption, v)) all =
      ⟨arm, mtEncryption, v, if arm then dearmor62DecryptStream P kr all else decryptStream P kr all⟩ := by
  simp [build]

theorem build_sc (kr : Keyring) (res : Signcrypt.Resolver) (arm : Bool) (b : Bytes) (v : Version) (all : Bytes) :
    build P kr res (.ok (arm, b, mtSigncryption, v)) all =
      ⟨arm, mtSigncryption, v,
        if arm then dearmor62SigncryptOpenStream P kr res all else signcryptOpenStream P kr res all⟩ := by
  have h : mtSigncryption ≠ mtEncryption := fun h => mt_distinct.1 h.symm
  simp [build, h]

theorem build_other (kr : Keyring) (res : Signcrypt.Resolver) (arm : Bool) (b : Bytes) (t : Int) (v : Version) (all : Bytes)
    (h1 : t ≠ mtEncryption) (h2 : t ≠ mtSigncryption) :
    build P kr res (.ok (arm, b, t, v)) all = refuse .wrongMessageType := by
  simp [build, h1, h2]

/-- **the dispatcher's outcome is that of the direct entry point named by the
    verdict, on the same bytes** — the four decoders -/
theorem dispatch_direct (kr : Keyring) (res : Signcrypt.Resolver) (all : Bytes) (arm : Bool) (b : Bytes) (t : Int) (v : Version)
    (h : classifyStream defaultBufSize all = .ok (arm, b, t, v)) :
    (t = mtEncryption → arm = false → dispatch P kr res all = ⟨false, t, v, decryptStream P kr all⟩) ∧
    (t = mtEncryption → arm = true → dispatch P kr res all = ⟨true, t, v, dearmor62DecryptStream P kr all⟩) ∧
    (t = mtSigncryption → arm = false → dispatch P kr res all = ⟨false, t, v, signcryptOpenStream P kr res all⟩) ∧
    (t = mtSigncryption → arm = true →
      dispatch P kr res all = ⟨true, t, v, dearmor62SigncryptOpenStream P kr res all⟩) ∧
    (t = mtAttached ∨ t = mtDetached → dispatch P kr res all = refuse .wrongMessageType) := by
  unfold dispatch
  rw [h]
  refine ⟨?_, ?_, ?_, ?_, ?_⟩
  · rintro rfl rfl; rw [build_enc]; rfl
  · rintro rfl rfl; rw [build_enc]; rfl
  · rintro rfl rfl; rw [build_sc]; rfl
  · rintro rfl rfl; rw [build_sc]; rfl
  · rintro (rfl | rfl)
    · exact build_other P kr res arm b _ v all mt_distinct.2.1 mt_distinct.2.2.1
    · exact build_other P kr res arm b _ v all mt_distinct.2.2.2.1 mt_distinct.2.2.2.2

/-- a refusal releases nothing, names nobody and calls no key -/
theorem refuse_out (e : Err) : (refuse e).out = .fail e ∧ (refuse e).msgType = Gen.c_sp_MessageTypeUnknown := ⟨rfl, rfl⟩

/-- **non-saltpack input and too-short input are refused** -/
theorem dispatch_refuses (kr : Keyring) (res : Signcrypt.Resolver) (all : Bytes) :
    (classifyStream defaultBufSize all = .notSaltpack → dispatch P kr res all = refuse .notASaltpackMessage) ∧
    (classifyStream defaultBufSize all = .eof → dispatch P kr res all = refuse .notASaltpackMessage) ∧
    (classifyStream defaultBufSize all = .short → dispatch P kr res all = refuse .shortSliceOrBuffer) := by
  unfold dispatch
  refine ⟨?_, ?_, ?_⟩ <;> intro h <;> rw [h] <;> rfl

/-- **a genuine binary encryption / signcryption message** (header start as in
    `C16_binary_correct`; 4096 ≥ 23) is handed to its direct entry point -/
theorem dispatch_genuine_binary (kr : Keyring) (res : Signcrypt.Resolver)
    (btag atag tail : Bytes) (hb : IsBinTag btag) (ha : IsArrTag atag)
    (ma mi t : Nat) (hma : ma < 128) (hmi : mi < 128) (ht : isMode (t : Int) = true)
    (hlen : 23 ≤ (btag ++ atag ++ Msgpack.encode (.str Gen.c_sp_FormatName) ++ Msgpack.encode (.arr [.int ma, .int mi]) ++
      Msgpack.encode (.int t) ++ tail).length) :
    let msg := btag ++ atag ++ Msgpack.encode (.str Gen.c_sp_FormatName) ++ Msgpack.encode (.arr [.int ma, .int mi]) ++
      Msgpack.encode (.int t) ++ tail
    ((t : Int) = mtEncryption → dispatch P kr res msg = ⟨false, mtEncryption, ⟨ma, mi⟩, decryptStream P kr msg⟩) ∧
    ((t : Int) = mtSigncryption → dispatch P kr res msg = ⟨false, mtSigncryption, ⟨ma, mi⟩, signcryptOpenStream P kr res msg⟩) ∧
    ((t : Int) = mtAttached ∨ (t : Int) = mtDetached → dispatch P kr res msg = refuse .wrongMessageType) := by
  intro msg
  have hc := stream_binary_correct btag atag tail hb ha ma mi t hma hmi ht defaultBufSize (by decide) hlen
  obtain ⟨h1, _, h3, _, h5⟩ := dispatch_direct P kr res msg false [] (t : Int) ⟨ma, mi⟩ hc
  refine ⟨?_, ?_, h5⟩
  · intro he; have := h1 he rfl; rw [he] at this; exact this
  · intro he; have := h3 he rfl; rw [he] at this; exact this

/-- **the dispatcher over the bufio machine hands the decoder the whole stream
    from byte 0**: on a scripted source that holds at least one buffer (4096
    bytes) and ends cleanly, in any fragmentation and for every read size of the
    decoder, the machine dispatcher is the pure dispatcher on the source's bytes -/
theorem dispatchM_eq (kr : Keyring) (res : Signcrypt.Resolver) (src : Source) (cap fuel : Nat)
    (hp : Progress src) (hcap : 0 < cap) (hfull : defaultBufSize ≤ (total src).1.length)
    (hfuel : (total src).1.length + 1 ≤ fuel) :
    dispatchM P kr res cap fuel src = dispatch P kr res (total src).1 := by
  have hmax : max defaultBufSize minReadBufferSize = defaultBufSize := by decide
  obtain ⟨hr, hd, _⟩ := classify_then_drain src defaultBufSize cap fuel hp hcap (by rw [hmax]; exact hfull) hfuel
  rw [hmax] at hr
  unfold dispatchM dispatch newReader
  generalize hcs : classifyStreamM (newReaderSize src defaultBufSize) = r at hr hd
  obtain ⟨v, s1⟩ := r
  simp only at hr hd ⊢
  subst hr
  simp only
  generalize hdr : drain cap fuel s1 [] = dr at hd
  obtain ⟨a, e, s2⟩ := dr
  simp only at hd ⊢
  rw [hd]

/-- a reader error within the classified range: the dispatcher answers "not a
    saltpack message" and builds no decoder (after fix 565786f: the error is not
    swallowed by a second peek) -/
theorem dispatchM_error (kr : Keyring) (res : Signcrypt.Resolver) (src : Source) (cap fuel : Nat)
    (hp : Progress src) (x : Err) (hx : (total src).2 = .err x) (hshort : (total src).1.length < defaultBufSize) :
    dispatchM P kr res cap fuel src = refuse .notASaltpackMessage := by
  have hi := inv_new src defaultBufSize hp
  have hv : view (newReaderSize src defaultBufSize) = ((total src).1, .src (.err x)) := by
    rw [view_new, hx]
  have := classify_reports_error (newReaderSize src defaultBufSize) hi (total src).1 x hv
    (by show _ < max defaultBufSize minReadBufferSize; have : max defaultBufSize minReadBufferSize = defaultBufSize := by decide
        rw [this]; exact hshort)
  unfold dispatchM newReader
  generalize hcs : classifyStreamM (newReaderSize src defaultBufSize) = r at this
  obtain ⟨v, s1⟩ := r
  simp only at this ⊢
  subst this
  rfl

end Saltpack.Proofs.DispatchP
