/-
  The dispatcher `ClassifyEncryptedStreamAndMakeDecoder` (Model/Dispatch.lean):
  * on the bytes of a cleanly ending source its outcome is the outcome of the
    byte-level receiver of the mode the classifier reports — `Decrypt.openBytes` /
    `Signcrypt.openBytes` of Model/Front.lean on the same bytes (binary), resp. on
    the payload `Armor.open62` yields (armored); signatures and non-saltpack
    input are refused before any key is touched;
  * over the bufio machine (any initial reader state) it is the pure dispatcher
    on the bytes AND THE FINAL CONDITION the reader delivers.
  Behind Props/C16Dispatch.
-/
import Saltpack.Model.Dispatch
import Saltpack.Proofs.Bufio
import Saltpack.Proofs.BufioShort
import Saltpack.Proofs.ClassifyLemmas
import Saltpack.Proofs.CodecBytes

namespace Saltpack.Proofs.DispatchP
open Saltpack Saltpack.Classify Saltpack.Dispatch Saltpack.Stream Saltpack.Bufio BufioP

variable (P : Prims)

theorem mt_distinct : mtEncryption ≠ mtSigncryption ∧ mtAttached ≠ mtEncryption ∧ mtAttached ≠ mtSigncryption ∧
    mtDetached ≠ mtEncryption ∧ mtDetached ≠ mtSigncryption := by decide

theorem build_enc (kr : Keyring) (res : Signcrypt.Resolver) (arm : Bool) (b : Bytes) (v : Version) (all : Bytes) (e : End) :
    build P kr res (.ok (arm, b, mtEncryption, v)) all e =
      ⟨arm, mtEncryption, v, if arm then dearmor62DecryptStream P kr all e else decryptStream P kr all e⟩ := by
  simp [build]

theorem build_sc (kr : Keyring) (res : Signcrypt.Resolver) (arm : Bool) (b : Bytes) (v : Version) (all : Bytes) (e : End) :
    build P kr res (.ok (arm, b, mtSigncryption, v)) all e =
      ⟨arm, mtSigncryption, v,
        if arm then dearmor62SigncryptOpenStream P kr res all e else signcryptOpenStream P kr res all e⟩ := by
  have h : mtSigncryption ≠ mtEncryption := fun h => mt_distinct.1 h.symm
  simp [build, h]

theorem build_other (kr : Keyring) (res : Signcrypt.Resolver) (arm : Bool) (b : Bytes) (t : Int) (v : Version) (all : Bytes)
    (e : End) (h1 : t ≠ mtEncryption) (h2 : t ≠ mtSigncryption) :
    build P kr res (.ok (arm, b, t, v)) all e = refuse .wrongMessageType := by
  simp [build, h1, h2]

/-! ### the decoders over a cleanly ending reader are the byte-level receivers of `Front` -/

theorem withEnd_eof {β : Type} (ps : PStream β) : withEnd .eof ps = ps := by
  unfold withEnd; rfl

/-- with a reader error at the end only the tail changes, and only a clean one -/
theorem withEnd_err {β : Type} (ps : PStream β) :
    (withEnd .err ps).items = ps.items ∧
    (withEnd .err ps).tail = (match ps.tail with | .eof => .err .decodeError | t => t) := by
  unfold withEnd
  cases h : ps.tail <;> simp [h]

/-- `NewDecryptStream(CheckKnownMajorVersion, r, keyring)` over a reader that
    delivers `msg` and a clean EOF IS `Decrypt.openBytes` -/
theorem decryptStream_eof (kr : Keyring) (msg : Bytes) :
    decryptStream P kr msg .eof = outEnc (Decrypt.openBytes P knownMajor kr msg) := by
  unfold decryptStream
  cases h : Front.readEnc msg with
  | error w => unfold Decrypt.openBytes; rw [h]; rfl
  | ok p =>
    obtain ⟨hr, ps⟩ := p
    rw [dec_openBytes_of_read h]
    simp only [withEnd_eof]
    rfl

theorem signcryptOpenStream_eof (kr : Keyring) (res : Signcrypt.Resolver) (msg : Bytes) :
    signcryptOpenStream P kr res msg .eof = outSc (Signcrypt.openBytes P kr res msg) := by
  unfold signcryptOpenStream
  cases h : Front.readSigncrypt msg with
  | error w => unfold Signcrypt.openBytes; rw [h]; rfl
  | ok p =>
    obtain ⟨hr, ps⟩ := p
    rw [sc_openBytes_of_read h]
    simp only [withEnd_eof]
    rfl

/-- armor-open, then the byte-level receiver on the payload -/
def armoredEnc (kr : Keyring) (text : Bytes) : Out :=
  match Armor.open62 (some mtEncryption) text with
  | .error e => .armorFail e
  | .ok o => outEnc (Decrypt.openBytes P knownMajor kr o.payload)

def armoredSc (kr : Keyring) (res : Signcrypt.Resolver) (text : Bytes) : Out :=
  match Armor.open62 (some mtEncryption) text with
  | .error e => .armorFail e
  | .ok o => outSc (Signcrypt.openBytes P kr res o.payload)

theorem dearmor62DecryptStream_eof (kr : Keyring) (text : Bytes) :
    dearmor62DecryptStream P kr text .eof = armoredEnc P kr text := by
  unfold dearmor62DecryptStream armoredEnc
  cases Armor.open62 (some mtEncryption) text with
  | error e => rfl
  | ok o => exact decryptStream_eof P kr o.payload

theorem dearmor62SigncryptOpenStream_eof (kr : Keyring) (res : Signcrypt.Resolver) (text : Bytes) :
    dearmor62SigncryptOpenStream P kr res text .eof = armoredSc P kr res text := by
  unfold dearmor62SigncryptOpenStream armoredSc
  cases Armor.open62 (some mtEncryption) text with
  | error e => rfl
  | ok o => exact signcryptOpenStream_eof P kr res o.payload

/-- **the dispatcher's outcome is that of the byte-level receiver of the mode the
    classifier reports, on the same bytes** -/
theorem dispatch_direct (kr : Keyring) (res : Signcrypt.Resolver) (all : Bytes) (arm : Bool) (b : Bytes) (t : Int) (v : Version)
    (h : classifyStream defaultBufSize all = .ok (arm, b, t, v)) :
    (t = mtEncryption → arm = false →
      dispatch P kr res all = ⟨false, t, v, outEnc (Decrypt.openBytes P knownMajor kr all)⟩) ∧
    (t = mtEncryption → arm = true → dispatch P kr res all = ⟨true, t, v, armoredEnc P kr all⟩) ∧
    (t = mtSigncryption → arm = false →
      dispatch P kr res all = ⟨false, t, v, outSc (Signcrypt.openBytes P kr res all)⟩) ∧
    (t = mtSigncryption → arm = true → dispatch P kr res all = ⟨true, t, v, armoredSc P kr res all⟩) ∧
    (t = mtAttached ∨ t = mtDetached → dispatch P kr res all = refuse .wrongMessageType) := by
  unfold dispatch dispatchEnd
  rw [h]
  refine ⟨?_, ?_, ?_, ?_, ?_⟩
  · rintro rfl rfl; rw [build_enc, ← decryptStream_eof]; rfl
  · rintro rfl rfl; rw [build_enc, ← dearmor62DecryptStream_eof]; rfl
  · rintro rfl rfl; rw [build_sc, ← signcryptOpenStream_eof]; rfl
  · rintro rfl rfl; rw [build_sc, ← dearmor62SigncryptOpenStream_eof]; rfl
  · rintro (rfl | rfl)
    · exact build_other P kr res arm b _ v all _ mt_distinct.2.1 mt_distinct.2.2.1
    · exact build_other P kr res arm b _ v all _ mt_distinct.2.2.2.1 mt_distinct.2.2.2.2

/-- a refusal releases nothing, names nobody and calls no key -/
theorem refuse_out (e : Err) : (refuse e).out = .fail e ∧ (refuse e).msgType = Gen.c_sp_MessageTypeUnknown := ⟨rfl, rfl⟩

/-- **non-saltpack input and too-short input are refused**, whatever the reader ends with -/
theorem dispatch_refuses (kr : Keyring) (res : Signcrypt.Resolver) (size : Nat) (all : Bytes) (e : End) :
    (classifyStream size all = .notSaltpack → dispatchEnd P kr res size all e = refuse .notASaltpackMessage) ∧
    (classifyStream size all = .eof → dispatchEnd P kr res size all e = refuse .notASaltpackMessage) ∧
    (classifyStream size all = .short → dispatchEnd P kr res size all e = refuse .shortSliceOrBuffer) := by
  unfold dispatchEnd
  refine ⟨?_, ?_, ?_⟩ <;> intro h <;> rw [h] <;> rfl

/-- **a genuine binary encryption / signcryption message** (header start as in
    `C16_binary_correct`; 4096 ≥ 23) is handed to its byte-level receiver -/
theorem dispatch_genuine_binary (kr : Keyring) (res : Signcrypt.Resolver)
    (btag atag tail : Bytes) (hb : IsBinTag btag) (ha : IsArrTag atag)
    (ma mi t : Nat) (hma : ma < 128) (hmi : mi < 128) (ht : isMode (t : Int) = true)
    (hlen : 23 ≤ (btag ++ atag ++ Msgpack.encode (.str Gen.c_sp_FormatName) ++ Msgpack.encode (.arr [.int ma, .int mi]) ++
      Msgpack.encode (.int t) ++ tail).length) :
    let msg := btag ++ atag ++ Msgpack.encode (.str Gen.c_sp_FormatName) ++ Msgpack.encode (.arr [.int ma, .int mi]) ++
      Msgpack.encode (.int t) ++ tail
    ((t : Int) = mtEncryption →
      dispatch P kr res msg = ⟨false, mtEncryption, ⟨ma, mi⟩, outEnc (Decrypt.openBytes P knownMajor kr msg)⟩) ∧
    ((t : Int) = mtSigncryption →
      dispatch P kr res msg = ⟨false, mtSigncryption, ⟨ma, mi⟩, outSc (Signcrypt.openBytes P kr res msg)⟩) ∧
    ((t : Int) = mtAttached ∨ (t : Int) = mtDetached → dispatch P kr res msg = refuse .wrongMessageType) := by
  intro msg
  have hc := stream_binary_correct btag atag tail hb ha ma mi t hma hmi ht defaultBufSize (by decide) hlen
  obtain ⟨h1, _, h3, _, h5⟩ := dispatch_direct P kr res msg false [] (t : Int) ⟨ma, mi⟩ hc
  refine ⟨?_, ?_, h5⟩
  · intro he; have := h1 he rfl; rw [he] at this; exact this
  · intro he; have := h3 he rfl; rw [he] at this; exact this

/-! ### the dispatcher over the bufio machine -/

/-- **the decoder is built over the same reader and reads it to its end**: for
    every state of the bufio machine (`Inv`: no `(0, nil)` reads ahead) that can
    still deliver a full buffer, or whose stream ends in a sticky EOF, the machine
    dispatcher is the pure dispatcher on what the reader will deliver — its bytes
    from byte 0 AND its final condition — for every read size of the decoder -/
theorem dispatchM_state (kr : Keyring) (res : Signcrypt.Resolver) (cap fuel : Nat) (s : BState) (hi : Inv s)
    (hsz : 0 < s.size) (hcap : 0 < cap) (hfuel : (view s).1.length + 1 ≤ fuel)
    (hcase : s.size ≤ (view s).1.length ∨ ((view s).2 = .src .eof ∧ StickyInv s ∧ (view s).1.length < s.size)) :
    dispatchM P kr res cap fuel s = dispatchEnd P kr res s.size (view s).1 (End.of (view s).2) := by
  have key : Inv (classifyStreamM s).2 ∧ view (classifyStreamM s).2 = view s ∧
      (classifyStreamM s).1 = .v (classifyStream s.size (view s).1) := by
    rcases hcase with hfull | ⟨heof, hst, hshort⟩
    · exact classify_full s hi hsz hfull
    · obtain ⟨a, _, c, d⟩ := classify_short_eof s hi hst (view s).1 (by rw [← heof]) hshort
      exact ⟨a, c, d⟩
  obtain ⟨hi1, hv1, hr⟩ := key
  obtain ⟨hd1, hd2⟩ := drain_view cap hcap fuel (classifyStreamM s).2 [] hi1 (by rw [hv1]; exact hfuel)
  rw [hv1] at hd1 hd2
  unfold dispatchM dispatchEnd
  generalize hcs : classifyStreamM s = r at hr hd1 hd2
  obtain ⟨v, s1⟩ := r
  simp only at hr hd1 hd2 ⊢
  subst hr
  simp only
  generalize hdr : drain cap fuel s1 [] = dr at hd1 hd2
  obtain ⟨a, e, s2⟩ := dr
  simp only [List.nil_append] at hd1 hd2 ⊢
  subst hd1 hd2
  rfl

/-- a reader error within the classified range: the dispatcher answers "not a
    saltpack message" and builds no decoder (after fix 565786f: the error is not
    swallowed by a second peek) -/
theorem dispatchM_state_error (kr : Keyring) (res : Signcrypt.Resolver) (cap fuel : Nat) (s : BState) (hi : Inv s)
    (all : Bytes) (x : Err) (hv : view s = (all, .src (.err x))) (hshort : all.length < s.size) :
    dispatchM P kr res cap fuel s = refuse .notASaltpackMessage := by
  have := classify_reports_error s hi all x hv hshort
  unfold dispatchM
  generalize hcs : classifyStreamM s = r at this
  obtain ⟨v, s1⟩ := r
  simp only at this ⊢
  subst this
  rfl

/-- **`bufio.NewReader(source)`**: the dispatcher over a scripted source — every
    fragmentation, data-with-EOF, data-with-error — is the pure dispatcher on the
    source's bytes and final condition, whenever the source holds at least one
    buffer (4096 bytes; ANY final condition, a read error included) or ends in a
    sticky EOF (any length) -/
theorem dispatchSrc_eq (kr : Keyring) (res : Signcrypt.Resolver) (src : Source) (cap fuel : Nat)
    (hp : Progress src) (hcap : 0 < cap) (hfuel : (total src).1.length + 1 ≤ fuel)
    (hcase : defaultBufSize ≤ (total src).1.length ∨ ((total src).2 = .eof ∧ EofSticky src)) :
    dispatchSrc P kr res cap fuel src =
      dispatchEnd P kr res defaultBufSize (total src).1 (End.of (.src (total src).2)) := by
  have hi := inv_new src defaultBufSize hp
  have hv : view (newReader src) = ((total src).1, .src (total src).2) := view_new src defaultBufSize
  have hs : (newReader src).size = defaultBufSize := rfl
  have := dispatchM_state P kr res cap fuel (newReader src) hi (by rw [hs]; decide) hcap (by rw [hv]; exact hfuel)
    (by
      rw [hv, hs]
      rcases hcase with h | ⟨h1, h2⟩
      · exact Or.inl h
      · by_cases hl : defaultBufSize ≤ (total src).1.length
        · exact Or.inl hl
        · exact Or.inr ⟨by rw [h1], sticky_new src defaultBufSize h2, by simp only; omega⟩)
  rw [hv, hs] at this
  exact this

/-- the lift of `classify_then_drain_eof` to the dispatcher: every EOF-ended,
    EOF-sticky script of ANY length -/
theorem dispatchSrc_eof (kr : Keyring) (res : Signcrypt.Resolver) (src : Source) (cap fuel : Nat)
    (hp : Progress src) (hst : EofSticky src) (heof : (total src).2 = .eof) (hcap : 0 < cap)
    (hfuel : (total src).1.length + 1 ≤ fuel) :
    dispatchSrc P kr res cap fuel src = dispatch P kr res (total src).1 := by
  rw [dispatchSrc_eq P kr res src cap fuel hp hcap hfuel (Or.inr ⟨heof, hst⟩), heof]
  rfl

/-- a source that ends in an error before a full buffer: refused -/
theorem dispatchSrc_error (kr : Keyring) (res : Signcrypt.Resolver) (src : Source) (cap fuel : Nat)
    (hp : Progress src) (x : Err) (hx : (total src).2 = .err x) (hshort : (total src).1.length < defaultBufSize) :
    dispatchSrc P kr res cap fuel src = refuse .notASaltpackMessage := by
  have hi := inv_new src defaultBufSize hp
  have hv : view (newReader src) = ((total src).1, .src (.err x)) := by
    show view (newReaderSize src defaultBufSize) = _
    rw [view_new, hx]
  exact dispatchM_state_error P kr res cap fuel (newReader src) hi (total src).1 x hv hshort

end Saltpack.Proofs.DispatchP
