/-
  Link between the byte-level shuffle of the sender models
  (`Encrypt.shuffleDraws`, which reads the process randomness source four bytes
  at a time) and the word-level model `Rand.u32n` / `Rand.drawsFrom` that the
  uniformity theorems of Props/C19 are about; and the composed statement that
  the recipient order of the emitted header is `Rand.shuffle` of those draws.

  Core Lean only.
-/
import Saltpack.Model.Encrypt
import Saltpack.Model.Signcrypt
import Saltpack.Proofs.Rand
import Saltpack.Proofs.Digits

namespace Saltpack.Proofs
open Saltpack Saltpack.Rand

/-- `c` successive `csprngUint32` reads: full reads of 4 bytes, each taken as a
    big-endian 32-bit word -/
def readWords : Nat → Source → Option (List Nat × Source)
  | 0, src => some ([], src)
  | c + 1, src =>
    match readFull 4 src with
    | none => none
    | some (b, src') =>
      match readWords c src' with
      | none => none
      | some (ws, rest) => some (natOfBytes b :: ws, rest)

theorem readFull_zero' (src : Source) : readFull 0 src = some ([], src) := by
  cases src <;> rfl

theorem readFull_length (n : Nat) (src : Source) (b : Bytes) (rest : Source)
    (h : readFull n src = some (b, rest)) : b.length = n := by
  induction src generalizing n b with
  | nil =>
    cases n with
    | zero => rw [readFull_zero'] at h; cases h; rfl
    | succ n => simp [readFull] at h
  | cons r src ih =>
    cases n with
    | zero => rw [readFull_zero'] at h; cases h; rfl
    | succ n =>
      rw [readFull] at h
      try simp only at h
      split at h
      · rename_i hg
        cases h
        exact hg
      · rename_i hg
        split at h
        · cases h
        · split at h
          · cases h
          · split at h
            · cases h
            · rename_i more rest' hrec
              cases h
              have hl := ih _ _ hrec
              have hle : (r.data.take (n + 1)).length ≤ n + 1 := by
                rw [List.length_take]; omega
              rw [List.length_append, hl]
              omega

theorem word_lt (src : Source) (b : Bytes) (rest : Source) (h : readFull 4 src = some (b, rest)) :
    natOfBytes b < 2 ^ 32 := by
  have h1 := natOfBytes_lt b
  rw [readFull_length 4 src b rest h] at h1
  exact h1

theorem readWords_append (c1 c2 : Nat) (src mid rest : Source) (ws1 ws2 : List Nat)
    (h1 : readWords c1 src = some (ws1, mid)) (h2 : readWords c2 mid = some (ws2, rest)) :
    readWords (c1 + c2) src = some (ws1 ++ ws2, rest) := by
  induction c1 generalizing src ws1 with
  | zero =>
    rw [readWords] at h1
    cases h1
    simpa using h2
  | succ c1 ih =>
    rw [readWords] at h1
    split at h1
    · cases h1
    rename_i b src' hr
    split at h1
    · cases h1
    rename_i ws rest' hw
    cases h1
    have := ih _ _ hw
    rw [show c1 + 1 + c2 = (c1 + c2) + 1 by omega, readWords, hr]
    simp only [this, List.cons_append]

theorem u32n_append (n : Nat) (ws t x : List Nat) (r : Nat) (h : u32n n ws = some (r, t)) :
    u32n n (ws ++ x) = some (r, t ++ x) := by
  induction ws with
  | nil => simp [u32n] at h
  | cons w ws ih =>
    rw [u32n] at h
    rw [List.cons_append, u32n]
    cases hs : u32nStep n w with
    | none =>
      rw [hs] at h
      simp only at h ⊢
      exact ih h
    | some r' =>
      rw [hs] at h
      simp only at h ⊢
      cases h
      rfl

/-- one `csprngUint32n` of the byte-level model: it reads `c ≥ 1` words, and its
    result is `Rand.u32n` of exactly those words (all consumed) -/
theorem draw_words (n : Nat) (src : Source) (fuel : Nat) (r : Nat) (rest : Source)
    (h : Encrypt.shuffleDraws.draw n src fuel = .ok (r, rest)) :
    ∃ c ws, 0 < c ∧ readWords c src = some (ws, rest) ∧ (∀ w ∈ ws, w < 2 ^ 32) ∧
      u32n n ws = some (r, []) := by
  induction fuel generalizing src with
  | zero =>
    rw [Encrypt.shuffleDraws.draw] at h
    cases h
  | succ fuel ih =>
    rw [Encrypt.shuffleDraws.draw] at h
    split at h
    · cases h
    rename_i b src' hr
    have hb := word_lt src b src' hr
    split at h
    · rename_i r' hs
      cases h
      refine ⟨1, [natOfBytes b], Nat.one_pos, ?_, ?_, ?_⟩
      · rw [readWords, hr]
        simp only [readWords]
      · intro w hw
        rw [List.mem_singleton.mp hw]
        exact hb
      · rw [u32n, hs]
    · rename_i hs
      obtain ⟨c, ws, _, hw, hlt, hu⟩ := ih _ h
      refine ⟨c + 1, natOfBytes b :: ws, Nat.succ_pos _, ?_, ?_, ?_⟩
      · rw [readWords, hr]
        simp only [hw]
      · intro w hw'
        rcases List.mem_cons.mp hw' with rfl | hw'
        · exact hb
        · exact hlt w hw'
      · rw [u32n, hs]
        exact hu

/-- **the byte-level shuffle draws are the word-level draws**: a successful
    `shuffleDraws k` reads some number `c` of 32-bit words from the source, and
    its draw vector is `Rand.drawsFrom k` of exactly those words -/
theorem shuffleDraws_words (k : Nat) (src : Source) (fuel : Nat) (js : List Nat) (rest : Source)
    (h : Encrypt.shuffleDraws k src fuel = .ok (js, rest)) :
    ∃ c ws, readWords c src = some (ws, rest) ∧ (∀ w ∈ ws, w < 2 ^ 32) ∧
      drawsFrom k ws = some (js, []) := by
  induction k generalizing src js with
  | zero =>
    rw [Encrypt.shuffleDraws] at h
    cases h
    exact ⟨0, [], rfl, fun _ hw => absurd hw List.not_mem_nil, rfl⟩
  | succ k ih =>
    rw [Encrypt.shuffleDraws] at h
    split at h
    · cases h
    rename_i j src' hd
    split at h
    · cases h
    rename_i js' rest' hrec
    cases h
    obtain ⟨c1, ws1, _, hw1, hlt1, hu1⟩ := draw_words (k + 2) src fuel j src' hd
    obtain ⟨c2, ws2, hw2, hlt2, hu2⟩ := ih _ _ hrec
    refine ⟨c1 + c2, ws1 ++ ws2, readWords_append c1 c2 src src' rest ws1 ws2 hw1 hw2, ?_, ?_⟩
    · intro w hw
      rcases List.mem_append.mp hw with hw | hw
      · exact hlt1 w hw
      · exact hlt2 w hw
    · rw [drawsFrom, u32n_append (k + 2) ws1 [] ws2 j hu1]
      simp only [List.nil_append, hu2]

/-- the draws of the byte-level shuffle are legal Fisher–Yates draws -/
theorem shuffleDraws_valid (k : Nat) (src : Source) (fuel : Nat) (js : List Nat) (rest : Source)
    (h : Encrypt.shuffleDraws k src fuel = .ok (js, rest)) : ValidDraws k js := by
  induction k generalizing src js with
  | zero =>
    rw [Encrypt.shuffleDraws] at h
    cases h
    rfl
  | succ k ih =>
    rw [Encrypt.shuffleDraws] at h
    split at h
    · cases h
    rename_i j src' hd
    split at h
    · cases h
    rename_i js' rest' hrec
    cases h
    obtain ⟨c1, ws1, _, hw1, hlt1, hu1⟩ := draw_words (k + 2) src fuel j src' hd
    have hj := (RandDraw.u32n_spec (k + 2) (by omega) ws1 hlt1 j [] hu1).1
    exact ⟨by omega, ih _ _ hrec⟩

/-! ## the header order is the shuffle -/

/-- the key-id column of the header entries `receiverEntries` builds -/
theorem enc_receiverEntries_kids (P : Prims) (v : Version) (eph pk : Bytes) (rs : List Encrypt.Recipient)
    (i : Nat) (es : List RecvKeys) (h : Encrypt.receiverEntries P v eph pk rs i = .ok es) :
    es.map (·.kid) = rs.map (fun r => if r.hidden then none else some r.pub) := by
  induction rs generalizing i es with
  | nil =>
    rw [Encrypt.receiverEntries] at h
    cases h
    rfl
  | cons r rs ih =>
    rw [Encrypt.receiverEntries] at h
    split at h
    · rename_i n es' hn hes
      cases h
      simp only [List.map_cons, ih _ _ hes]
    · cases h
    · cases h

theorem sc_receiverEntries_kids (P : Prims) (eph pk : Bytes) (rs : List Signcrypt.Recipient) (i : Nat) :
    (Signcrypt.receiverEntries P eph pk rs i).length = rs.length := by
  induction rs generalizing i with
  | nil => rfl
  | cons r rs ih => simp [Signcrypt.receiverEntries, ih]

/-- **`Seal`: the recipient order of the emitted header is the Fisher–Yates
    shuffle of the caller's list under legal draws that are `Rand.drawsFrom` of
    the 32-bit words read first from the randomness source** -/
theorem sealRand_header_order (P : Prims) (bs : Nat) (v : Version) (sender : Option Bytes)
    (rs : List Encrypt.Recipient) (eph : Encrypt.EphSource) (src : Source) (pt m : Bytes) (rest : Source)
    (h : Encrypt.sealRand P bs v sender rs eph src pt = .ok (m, rest)) :
    ∃ js src1 c ws ephSec pk hd hb blks body,
      readWords c src = some (ws, src1) ∧ (∀ w ∈ ws, w < 2 ^ 32) ∧
      drawsFrom (rs.length - 1) ws = some (js, []) ∧
      ValidDraws (rs.length - 1) js ∧
      Encrypt.sealPackets P bs v sender (shuffle js rs) ephSec pk pt = .ok (hd, hb, blks) ∧
      Encrypt.encodeBlocks v blks = .ok body ∧
      m = headerPacket hb ++ body ∧ hb = Msgpack.encode hd.toVal ∧
      Encrypt.receiverEntries P v ephSec pk (shuffle js rs) 0 = .ok hd.receivers ∧
      hd.receivers.map (·.kid) = (shuffle js rs).map (fun r => if r.hidden then none else some r.pub) := by
  unfold Encrypt.sealRand at h
  split at h
  · cases h
  split at h
  · cases h
  split at h
  · cases h
  rename_i js src1 hsd
  obtain ⟨c, ws, hw, hlt, hdf⟩ := shuffleDraws_words _ _ _ _ _ hsd
  have hval := shuffleDraws_valid _ _ _ _ _ hsd
  -- whatever the ephemeral source: a successful run went through `sealWith`
  have key : ∀ (ephSec pk : Bytes) (src3 : Source),
      (match Encrypt.sealWith P bs v sender (shuffle js rs) ephSec pk pt with
        | .error e => (.error e : Except Err (Bytes × Source))
        | .ok m => .ok (m, src3)) = .ok (m, rest) →
      ∃ hd hb blks body,
        Encrypt.sealPackets P bs v sender (shuffle js rs) ephSec pk pt = .ok (hd, hb, blks) ∧
        Encrypt.encodeBlocks v blks = .ok body ∧
        m = headerPacket hb ++ body ∧ hb = Msgpack.encode hd.toVal ∧
        Encrypt.receiverEntries P v ephSec pk (shuffle js rs) 0 = .ok hd.receivers ∧
        hd.receivers.map (·.kid) = (shuffle js rs).map (fun r => if r.hidden then none else some r.pub) := by
    intro ephSec pk src3 hk
    split at hk
    · cases hk
    rename_i m' hm
    cases hk
    unfold Encrypt.sealWith at hm
    split at hm
    · cases hm
    rename_i hd hb blks hp
    split at hm
    · cases hm
    rename_i body hbody
    cases hm
    have hp' := hp
    unfold Encrypt.sealPackets at hp'
    split at hp'
    · cases hp'
    split at hp'
    · cases hp'
    split at hp'
    · cases hp'
    rename_i hd' hhd
    simp only at hp'
    split at hp'
    · cases hp'
    split at hp'
    · cases hp'
    cases hp'
    unfold Encrypt.header at hhd
    simp only at hhd
    split at hhd
    · cases hhd
    rename_i es hes
    cases hhd
    exact ⟨_, _, blks, body, hp, hbody, rfl, rfl, hes, enc_receiverEntries_kids P v ephSec pk _ 0 es hes⟩
  cases eph with
  | given s =>
    simp only at h
    split at h
    · cases h
    rename_i pk src3 hpk
    obtain ⟨hd, hb, blks, body, h1⟩ := key s pk src3 h
    exact ⟨js, src1, c, ws, s, pk, hd, hb, blks, body, hw, hlt, hdf, hval, h1⟩
  | fails =>
    simp only at h
    cases h
  | fromRand =>
    simp only at h
    cases hr : readFull 32 src1 with
    | none => rw [hr] at h; cases h
    | some p =>
      obtain ⟨ephSec, src2⟩ := p
      rw [hr] at h
      simp only at h
      split at h
      · cases h
      rename_i pk src3 hpk
      obtain ⟨hd, hb, blks, body, h1⟩ := key ephSec pk src3 h
      exact ⟨js, src1, c, ws, ephSec, pk, hd, hb, blks, body, hw, hlt, hdf, hval, h1⟩

/-- the same for `SigncryptSeal` (box keys first, then symmetric keys, shuffled
    together) -/
theorem sc_sealRand_header_order (P : Prims) (bs : Nat) (sender : Option Bytes)
    (boxes syms : List Signcrypt.Recipient) (eph : Encrypt.EphSource) (src : Source) (pt m : Bytes) (rest : Source)
    (h : Signcrypt.sealRand P bs sender boxes syms eph src pt = .ok (m, rest)) :
    ∃ js src1 c ws ephSec pk hd hb blks,
      readWords c src = some (ws, src1) ∧ (∀ w ∈ ws, w < 2 ^ 32) ∧
      drawsFrom ((boxes ++ syms).length - 1) ws = some (js, []) ∧
      ValidDraws ((boxes ++ syms).length - 1) js ∧
      Signcrypt.sealPackets P bs sender (shuffle js (boxes ++ syms)) ephSec pk pt = .ok (hd, hb, blks) ∧
      m = headerPacket hb ++ Signcrypt.encodeBlocks blks ∧ hb = Msgpack.encode hd.toVal ∧
      hd.receivers = Signcrypt.receiverEntries P ephSec pk (shuffle js (boxes ++ syms)) 0 := by
  unfold Signcrypt.sealRand at h
  split at h
  · cases h
  simp only at h
  split at h
  · cases h
  rename_i js src1 hsd
  obtain ⟨c, ws, hw, hlt, hdf⟩ := shuffleDraws_words _ _ _ _ _ hsd
  have hval := shuffleDraws_valid _ _ _ _ _ hsd
  have key : ∀ (ephSec pk : Bytes) (src3 : Source),
      (match Signcrypt.sealWith P bs sender (shuffle js (boxes ++ syms)) ephSec pk pt with
        | .error e => (.error e : Except Err (Bytes × Source))
        | .ok m => .ok (m, src3)) = .ok (m, rest) →
      ∃ hd hb blks,
        Signcrypt.sealPackets P bs sender (shuffle js (boxes ++ syms)) ephSec pk pt = .ok (hd, hb, blks) ∧
        m = headerPacket hb ++ Signcrypt.encodeBlocks blks ∧ hb = Msgpack.encode hd.toVal ∧
        hd.receivers = Signcrypt.receiverEntries P ephSec pk (shuffle js (boxes ++ syms)) 0 := by
    intro ephSec pk src3 hk
    split at hk
    · cases hk
    rename_i m' hm
    cases hk
    unfold Signcrypt.sealWith at hm
    split at hm
    · cases hm
    rename_i hd hb blks hp
    cases hm
    have hp' := hp
    unfold Signcrypt.sealPackets at hp'
    split at hp'
    · cases hp'
    simp only at hp'
    split at hp'
    · cases hp'
    cases hp'
    exact ⟨_, _, blks, hp, rfl, rfl, rfl⟩
  cases eph with
  | given s =>
    simp only at h
    split at h
    · cases h
    rename_i pk src3 hpk
    obtain ⟨hd, hb, blks, h1⟩ := key s pk src3 h
    exact ⟨js, src1, c, ws, s, pk, hd, hb, blks, hw, hlt, hdf, hval, h1⟩
  | fails =>
    simp only at h
    cases h
  | fromRand =>
    simp only at h
    cases hr : readFull 32 src1 with
    | none => rw [hr] at h; cases h
    | some p =>
      obtain ⟨ephSec, src2⟩ := p
      rw [hr] at h
      simp only at h
      split at h
      · cases h
      rename_i pk src3 hpk
      obtain ⟨hd, hb, blks, h1⟩ := key ephSec pk src3 h
      exact ⟨js, src1, c, ws, ephSec, pk, hd, hb, blks, hw, hlt, hdf, hval, h1⟩

end Saltpack.Proofs
