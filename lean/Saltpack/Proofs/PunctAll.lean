/-
  punctuatedReader (Model/Stream.lean `pRead`) as a REFINEMENT of "the logical
  text, cut at periods": whatever the sizes of the caller's buffers and however
  the underlying reader fragments its deliveries, the reader hands out exactly
  the text up to the next period, then `punctErr`, then continues after the
  period; at the end of the text it reports the source's condition.

  Core Lean only.
-/
import Saltpack.Model.Stream

namespace Saltpack.Proofs
open Saltpack Saltpack.Stream

/-! ## the abstraction -/

/-- all data a script still delivers up to its first condition, and that
    condition (`.eof` when the script just runs out) -/
def srcText : Source → Bytes × RErr
  | [] => ([], .eof)
  | (d, none) :: rest => (d ++ (srcText rest).1, (srcText rest).2)
  | (d, some e) :: _ => (d, e)

/-- number of `Read` calls the script can absorb: one per byte and one per entry -/
def srcCost : Source → Nat
  | [] => 0
  | (d, _) :: rest => d.length + 1 + srcCost rest

/-- what the reader has buffered, logically: the rest of the current segment,
    the period that ends it (if one was found), the unscanned remainder -/
def _root_.Saltpack.Stream.PState.buf (s : PState) : Bytes :=
  s.thisSegment ++ (if s.errThisSegment = some punctErr then [Armor.period] else []) ++ s.nextSegment

/-- what is still to come from below: nothing but the remembered condition
    (D6: an error that came with data is kept in `errNextRead`), else the script -/
def _root_.Saltpack.Stream.PState.tail (s : PState) : Bytes × RErr :=
  match s.errNextRead with
  | some e => ([], e)
  | none => srcText s.src

/-- the LOGICAL remaining input of a reader state: text and terminal condition -/
def _root_.Saltpack.Stream.PState.text (s : PState) : Bytes × RErr := (s.buf ++ s.tail.1, s.tail.2)

/-- bound on the number of further calls that report no condition -/
def _root_.Saltpack.Stream.PState.cost (s : PState) : Nat := s.thisSegment.length + s.nextSegment.length + srcCost s.src

/-- invariant of reachable states -/
structure _root_.Saltpack.Stream.PState.WF (s : PState) : Prop where
  /-- the segment being handed out was scanned: no period in it -/
  noPeriod : Armor.period ∉ s.thisSegment
  /-- the only deferred condition of a segment is "punctuated" -/
  errThis : s.errThisSegment = none ∨ s.errThisSegment = some punctErr
  /-- … and it is pending only while the segment is -/
  errThisEmpty : s.thisSegment = [] → s.errThisSegment = none

theorem pWF_init (src : Source) : ({ src := src } : PState).WF :=
  ⟨by simp, Or.inl rfl, fun _ => rfl⟩

theorem ptext_init (src : Source) : ({ src := src } : PState).text = srcText src := by
  simp [PState.text, PState.buf, PState.tail]

theorem pcost_init (src : Source) : ({ src := src } : PState).cost = srcCost src := by
  simp [PState.cost]

theorem srcCost_eq (src : Source) : srcCost src = (src.map (fun p => p.1.length)).sum + src.length := by
  induction src with
  | nil => rfl
  | cons hd rest ih => obtain ⟨d, e⟩ := hd; simp [srcCost, ih]; omega

theorem cost_lt_fuelOf (s : PState) : s.cost < fuelOf s := by
  have h : ∀ src : Source, srcCost src ≤ (src.map (fun p => p.1.length + 2)).sum := by
    intro src
    induction src with
    | nil => simp [srcCost]
    | cons hd rest ih => obtain ⟨d, e⟩ := hd; simp [srcCost]; omega
  have := h s.src
  unfold PState.cost fuelOf
  omega

/-! ## the source -/

theorem srcRead_spec (cap : Nat) (hcap : 0 < cap) (src : Source) (d : Bytes) (e : Option RErr) (src' : Source)
    (h : srcRead cap src = (d, e, src')) :
    d.length ≤ cap ∧ srcCost src' + d.length ≤ srcCost src ∧
    (e = none → srcText src = (d ++ (srcText src').1, (srcText src').2) ∧
      (d = [] → src = ([], none) :: src')) ∧
    (∀ x, e = some x → srcText src = (d, x) ∧ src' = src.tail) := by
  cases src with
  | nil =>
    simp only [srcRead, Prod.mk.injEq] at h
    obtain ⟨rfl, rfl, rfl⟩ := h
    simp [srcText]
  | cons hd rest =>
    obtain ⟨d0, e0⟩ := hd
    by_cases hc : d0.length ≤ cap
    · simp only [srcRead, if_pos hc, Prod.mk.injEq] at h
      obtain ⟨rfl, rfl, rfl⟩ := h
      refine ⟨hc, by simp [srcCost]; omega, ?_, ?_⟩
      · rintro rfl; simp [srcText]
      · rintro x rfl; simp [srcText]
    · simp only [srcRead, if_neg hc, Prod.mk.injEq] at h
      obtain ⟨rfl, rfl, rfl⟩ := h
      have hl : (d0.take cap).length = cap := by rw [List.length_take]; omega
      refine ⟨by omega, by simp [srcCost]; omega, ?_, ?_⟩
      · intro _
        refine ⟨?_, ?_⟩
        · cases e0 <;> simp [srcText, ← List.append_assoc]
        · intro h0; rw [h0] at hl; simp at hl; omega
      · intro x hx; simp at hx

/-! ## scanning for the period -/

theorem findIdx_some (c : UInt8) : ∀ (l : Bytes) (i : Nat), findIdx c l = some i →
    l = l.take i ++ c :: l.drop (i + 1) ∧ c ∉ l.take i ∧ i < l.length := by
  intro l
  induction l with
  | nil => intro i h; simp [findIdx] at h
  | cons x xs ih =>
    intro i h
    unfold findIdx at h
    by_cases hx : (x == c) = true
    · rw [if_pos hx] at h
      have hx' : x = c := by simpa using hx
      cases h
      simp [hx']
    · rw [if_neg hx] at h
      have hx' : ¬ c = x := fun h => hx (by simp [h])
      cases hf : findIdx c xs with
      | none => rw [hf] at h; simp at h
      | some j =>
        rw [hf] at h
        simp only [Option.map_some, Option.some.injEq] at h
        subst h
        obtain ⟨h1, h2, h3⟩ := ih j hf
        refine ⟨?_, ?_, ?_⟩
        · simp only [List.take_succ_cons, List.drop_succ_cons, List.cons_append]
          rw [← h1]
        · simp only [List.take_succ_cons, List.mem_cons, not_or]
          exact ⟨hx', h2⟩
        · simp; omega

theorem findIdx_none (c : UInt8) : ∀ (l : Bytes), findIdx c l = none → c ∉ l := by
  intro l
  induction l with
  | nil => intro _; simp
  | cons x xs ih =>
    intro h
    unfold findIdx at h
    by_cases hx : (x == c) = true
    · rw [if_pos hx] at h; simp at h
    · rw [if_neg hx] at h
      have hx' : ¬ c = x := fun h => hx (by simp [h])
      cases hf : findIdx c xs with
      | none => simp only [List.mem_cons, not_or]; exact ⟨hx', ih hf⟩
      | some j => rw [hf] at h; simp at h

/-! ## `pRead` by cases -/

/-- the common tail of `pRead`: scan `src` for the period and hand out -/
def pProc (cap : Nat) (src : Bytes) (used : Bool) (s1 : PState) : Bytes × Option RErr × PState :=
  let (seg, found, s2) : Bytes × Bool × PState :=
    match findIdx Armor.period src with
    | some i => (src.take i, true, { s1 with nextSegment := src.drop (i + 1) })
    | none => (src, false, s1)
  let (out, s3) : Bytes × PState :=
    if used then (seg.take cap, { s2 with thisSegment := seg.drop cap }) else (seg, s2)
  if found then
    if !s3.thisSegment.isEmpty then (out, none, { s3 with errThisSegment := some punctErr })
    else (out, some punctErr, s3)
  else (out, none, s3)

theorem pRead_this (cap : Nat) (s : PState) (h : s.thisSegment ≠ []) :
    pRead cap s =
      if (s.thisSegment.drop cap).isEmpty then
        (s.thisSegment.take cap, s.errThisSegment, { s with thisSegment := [], errThisSegment := none })
      else (s.thisSegment.take cap, none, { s with thisSegment := s.thisSegment.drop cap }) := by
  have h' : (!s.thisSegment.isEmpty) = true := by simp [h]
  unfold pRead
  rw [if_pos h']

theorem pRead_next (cap : Nat) (s : PState) (h1 : s.thisSegment = []) (h2 : s.nextSegment ≠ []) :
    pRead cap s = pProc cap s.nextSegment true { s with nextSegment := [] } := by
  have h1' : ¬ (!s.thisSegment.isEmpty) = true := by simp [h1]
  have h2' : (!s.nextSegment.isEmpty) = true := by simp [h2]
  unfold pRead
  rw [if_neg h1', if_pos h2']
  rfl

theorem pRead_sticky (cap : Nat) (s : PState) (e : RErr) (h1 : s.thisSegment = []) (h2 : s.nextSegment = [])
    (h3 : s.errNextRead = some e) : pRead cap s = ([], some e, s) := by
  have h1' : ¬ (!s.thisSegment.isEmpty) = true := by simp [h1]
  have h2' : ¬ (!s.nextSegment.isEmpty) = true := by simp [h2]
  unfold pRead
  rw [if_neg h1', if_neg h2', h3]

theorem pRead_src (cap : Nat) (s : PState) (h1 : s.thisSegment = []) (h2 : s.nextSegment = [])
    (h3 : s.errNextRead = none) :
    pRead cap s =
      match (srcRead cap s.src).2.1 with
      | some e' =>
        if (srcRead cap s.src).1.isEmpty then ([], some e', { s with src := (srcRead cap s.src).2.2 })
        else pProc cap (srcRead cap s.src).1 false { s with src := (srcRead cap s.src).2.2, errNextRead := some e' }
      | none => pProc cap (srcRead cap s.src).1 false { s with src := (srcRead cap s.src).2.2 } := by
  have h1' : ¬ (!s.thisSegment.isEmpty) = true := by simp [h1]
  have h2' : ¬ (!s.nextSegment.isEmpty) = true := by simp [h2]
  unfold pRead
  rw [if_neg h1', if_neg h2', h3]
  rcases hr : srcRead cap s.src with ⟨d, e, src'⟩
  cases e with
  | none => rfl
  | some e' =>
    by_cases hd : d.isEmpty = true
    · simp only [hd, if_true]
    · simp only [hd]
      rfl


theorem pProc_none_used (cap : Nat) (src : Bytes) (s1 : PState) (hf : findIdx Armor.period src = none) :
    pProc cap src true s1 = (src.take cap, none, { s1 with thisSegment := src.drop cap }) := by
  simp [pProc, hf]

theorem pProc_none_fresh (cap : Nat) (src : Bytes) (s1 : PState) (hf : findIdx Armor.period src = none) :
    pProc cap src false s1 = (src, none, s1) := by
  simp [pProc, hf]

theorem pProc_some_used (cap : Nat) (src : Bytes) (s1 : PState) (i : Nat) (hf : findIdx Armor.period src = some i) :
    pProc cap src true s1 =
      if ((src.take i).drop cap) = [] then
        ((src.take i).take cap, some punctErr, { s1 with nextSegment := src.drop (i + 1), thisSegment := (src.take i).drop cap })
      else
        ((src.take i).take cap, none, { s1 with nextSegment := src.drop (i + 1), thisSegment := (src.take i).drop cap, errThisSegment := some punctErr }) := by
  simp [pProc, hf]
  by_cases h : min i src.length ≤ cap
  · rw [if_pos h, if_neg (by omega)]
  · rw [if_neg h, if_pos (by omega)]

theorem pProc_some_fresh (cap : Nat) (src : Bytes) (s1 : PState) (i : Nat) (hf : findIdx Armor.period src = some i) :
    pProc cap src false s1 =
      if s1.thisSegment = [] then
        (src.take i, some punctErr, { s1 with nextSegment := src.drop (i + 1) })
      else
        (src.take i, none, { s1 with nextSegment := src.drop (i + 1), errThisSegment := some punctErr }) := by
  simp [pProc, hf]


theorem pProc_spec (cap : Nat) (hcap : 0 < cap) (src : Bytes) (used : Bool) (s1 : PState)
    (h1 : s1.thisSegment = []) (h2 : s1.errThisSegment = none) (h3 : s1.nextSegment = [])
    (hu : used = false → src.length ≤ cap)
    (d : Bytes) (e : Option RErr) (s3 : PState) (h : pProc cap src used s1 = (d, e, s3)) :
    s3.WF ∧ s3.src = s1.src ∧ s3.errNextRead = s1.errNextRead ∧ d.length ≤ cap ∧ Armor.period ∉ d ∧
    ((e = none ∧ src = d ++ s3.buf ∧
        (src ≠ [] → s3.thisSegment.length + s3.nextSegment.length < src.length) ∧ (d = [] → src = [])) ∨
     (e = some punctErr ∧ src = d ++ Armor.period :: s3.buf ∧
        s3.thisSegment.length + s3.nextSegment.length < src.length)) := by
  cases hf : findIdx Armor.period src with
  | none =>
    have hnp := findIdx_none _ _ hf
    cases used with
    | true =>
      rw [pProc_none_used cap src s1 hf] at h
      simp only [Prod.mk.injEq] at h
      obtain ⟨rfl, rfl, rfl⟩ := h
      refine ⟨⟨fun hm => hnp (List.mem_of_mem_drop hm), Or.inl h2, fun _ => h2⟩, rfl, rfl,
        by rw [List.length_take]; omega, fun hm => hnp (List.mem_of_mem_take hm), Or.inl ⟨rfl, ?_, ?_, ?_⟩⟩
      · simp [PState.buf, h2, h3]
      · intro hne
        have : 0 < src.length := List.length_pos_iff.mpr hne
        simp only [h3, List.length_drop, List.length_nil]
        omega
      · intro h0
        rcases List.take_eq_nil_iff.mp h0 with h | h
        · omega
        · exact h
    | false =>
      rw [pProc_none_fresh cap src s1 hf] at h
      simp only [Prod.mk.injEq] at h
      obtain ⟨rfl, rfl, rfl⟩ := h
      refine ⟨⟨by simp [h1], Or.inl h2, fun _ => h2⟩, rfl, rfl, hu rfl, hnp, Or.inl ⟨rfl, ?_, ?_, fun h => h⟩⟩
      · simp [PState.buf, h1, h2, h3]
      · intro hne
        have := List.length_pos_iff.mpr hne
        simp only [h1, h3, List.length_nil]
        omega
  | some i =>
    obtain ⟨hsplit, hnp, hi⟩ := findIdx_some _ _ _ hf
    cases used with
    | true =>
      rw [pProc_some_used cap src s1 i hf] at h
      by_cases hd : (src.take i).drop cap = []
      · rw [if_pos hd] at h
        simp only [Prod.mk.injEq] at h
        obtain ⟨rfl, rfl, rfl⟩ := h
        have htk : (src.take i).take cap = src.take i := by
          have := List.take_append_drop cap (src.take i)
          rw [hd, List.append_nil] at this
          exact this
        refine ⟨⟨by simp [hd], Or.inl h2, fun _ => h2⟩, rfl, rfl,
          by rw [List.length_take]; omega, fun hm => hnp (List.mem_of_mem_take hm), Or.inr ⟨rfl, ?_, ?_⟩⟩
        · rw [htk]
          simp only [PState.buf, hd, h2]
          simpa using hsplit
        · simp only [hd, List.length_nil, List.length_drop]
          omega
      · rw [if_neg hd] at h
        simp only [Prod.mk.injEq] at h
        obtain ⟨rfl, rfl, rfl⟩ := h
        refine ⟨⟨fun hm => hnp (List.mem_of_mem_drop hm), Or.inr rfl, fun h0 => absurd h0 hd⟩, rfl, rfl,
          by rw [List.length_take]; omega, fun hm => hnp (List.mem_of_mem_take hm), Or.inl ⟨rfl, ?_, ?_, ?_⟩⟩
        · simp only [PState.buf, if_true]
          rw [← List.append_assoc, ← List.append_assoc, List.take_append_drop]
          simpa using hsplit
        · intro _
          simp only [List.length_drop, List.length_take]
          have := List.length_pos_iff.mpr hd
          simp only [List.length_drop, List.length_take] at this
          omega
        · intro h0
          exfalso
          rcases List.take_eq_nil_iff.mp h0 with h | h
          · omega
          · exact hd (by rw [h]; simp)
    | false =>
      rw [pProc_some_fresh cap src s1 i hf, if_pos h1] at h
      simp only [Prod.mk.injEq] at h
      obtain ⟨rfl, rfl, rfl⟩ := h
      refine ⟨⟨by simp [h1], Or.inl h2, fun _ => h2⟩, rfl, rfl,
        by rw [List.length_take]; have := hu rfl; omega, hnp, Or.inr ⟨rfl, ?_, ?_⟩⟩
      · simp only [PState.buf, h1, h2]
        simpa using hsplit
      · simp only [h1, List.length_nil, List.length_drop]
        omega


/-! ## one call refines the logical text -/

theorem pbuf_length (s : PState) : s.thisSegment.length + s.nextSegment.length ≤ s.buf.length := by
  unfold PState.buf
  simp only [List.length_append]
  omega

theorem ptail_congr (s s' : PState) (h1 : s'.src = s.src) (h2 : s'.errNextRead = s.errNextRead) :
    s'.tail = s.tail := by
  unfold PState.tail
  rw [h1, h2]

theorem pbuf_of_idle (s : PState) (hwf : s.WF) (h1 : s.thisSegment = []) : s.buf = s.nextSegment := by
  simp [PState.buf, h1, hwf.errThisEmpty h1]

/-- what one call does, in terms of the logical text `s.text = (t, c)`:
    * no condition: `d` is cut off the front of `t` (and contains no period);
      progress is made (`cost` decreases; `d = []` only when the underlying
      reader itself delivered nothing and no condition);
    * `punctErr`: `d` and the period are cut off the front of `t`;
    * terminal: nothing was left (`t = []`), `d = []`, the condition is `c`; the
      state is unchanged when the condition had been remembered (`errNextRead`,
      D6), otherwise one script entry was consumed. -/
def StepOK (cap : Nat) (s : PState) (d : Bytes) (e : Option RErr) (s1 : PState) : Prop :=
  s1.WF ∧ d.length ≤ cap ∧ Armor.period ∉ d ∧
  ((e = none ∧ s.text.1 = d ++ s1.text.1 ∧ s1.text.2 = s.text.2 ∧ s1.cost < s.cost ∧
      (d = [] → s.buf = [] ∧ s.errNextRead = none ∧ ∃ rest, s.src = ([], none) :: rest)) ∨
   (e = some punctErr ∧ s.text.1 = d ++ Armor.period :: s1.text.1 ∧ s1.text.2 = s.text.2 ∧ s1.cost < s.cost) ∨
   (e = some s.text.2 ∧ d = [] ∧ s.text.1 = [] ∧
      s1 = (if s.errNextRead.isSome then s else { s with src := s.src.tail })))

theorem pRead_step_this (cap : Nat) (hcap : 0 < cap) (s : PState) (hwf : s.WF) (hne : s.thisSegment ≠ [])
    (d : Bytes) (e : Option RErr) (s1 : PState) (h : pRead cap s = (d, e, s1)) : StepOK cap s d e s1 := by
  rw [pRead_this cap s hne] at h
  have hpos : 0 < s.thisSegment.length := List.length_pos_iff.mpr hne
  by_cases hd : (s.thisSegment.drop cap).isEmpty = true
  · rw [if_pos hd] at h
    simp only [Prod.mk.injEq] at h
    obtain ⟨rfl, rfl, rfl⟩ := h
    have hd' : s.thisSegment.drop cap = [] := by simpa using hd
    have htk : s.thisSegment.take cap = s.thisSegment := by
      have := List.take_append_drop cap s.thisSegment
      rw [hd', List.append_nil] at this
      exact this
    rw [htk]
    refine ⟨⟨by simp, Or.inl rfl, fun _ => rfl⟩, by rw [← htk, List.length_take]; omega, hwf.noPeriod, ?_⟩
    rcases hwf.errThis with he | he
    · refine Or.inl ⟨he, ?_, rfl, ?_, fun h0 => absurd h0 hne⟩
      · simp [PState.text, PState.buf, PState.tail, he]
      · simp only [PState.cost, List.length_nil]; omega
    · refine Or.inr (Or.inl ⟨he, ?_, rfl, ?_⟩)
      · simp [PState.text, PState.buf, PState.tail, he]
      · simp only [PState.cost, List.length_nil]; omega
  · rw [if_neg hd] at h
    simp only [Prod.mk.injEq] at h
    obtain ⟨rfl, rfl, rfl⟩ := h
    have hd' : s.thisSegment.drop cap ≠ [] := by simpa using hd
    refine ⟨⟨fun hm => hwf.noPeriod (List.mem_of_mem_drop hm), hwf.errThis, fun h0 => absurd h0 hd'⟩,
      by rw [List.length_take]; omega, fun hm => hwf.noPeriod (List.mem_of_mem_take hm),
      Or.inl ⟨rfl, ?_, rfl, ?_, ?_⟩⟩
    · simp only [PState.text, PState.buf, PState.tail]
      rw [← List.append_assoc, ← List.append_assoc, ← List.append_assoc, List.take_append_drop]
    · simp only [PState.cost, List.length_drop]; omega
    · intro h0
      exfalso
      rcases List.take_eq_nil_iff.mp h0 with h | h
      · omega
      · exact hne h

theorem pRead_step_next (cap : Nat) (hcap : 0 < cap) (s : PState) (hwf : s.WF) (h1 : s.thisSegment = [])
    (h2 : s.nextSegment ≠ [])
    (d : Bytes) (e : Option RErr) (s1 : PState) (h : pRead cap s = (d, e, s1)) : StepOK cap s d e s1 := by
  rw [pRead_next cap s h1 h2] at h
  obtain ⟨w, p1, p2, p3, p4, p5⟩ := pProc_spec cap hcap s.nextSegment true { s with nextSegment := [] }
    h1 (hwf.errThisEmpty h1) rfl (fun h => by simp at h) d e s1 h
  have htl : s1.tail = s.tail := ptail_congr s s1 p1 p2
  have hb := pbuf_length s1
  refine ⟨w, p3, p4, ?_⟩
  rcases p5 with ⟨he, hs, hc, hd⟩ | ⟨he, hs, hc⟩
  · refine Or.inl ⟨he, ?_, by simp [PState.text, htl], ?_, fun h0 => absurd (hd h0) h2⟩
    · simp only [PState.text, htl, pbuf_of_idle s hwf h1]
      rw [← List.append_assoc, ← hs]
    · have := hc h2
      simp only [PState.cost, p1, h1, List.length_nil]
      omega
  · refine Or.inr (Or.inl ⟨he, ?_, by simp [PState.text, htl], ?_⟩)
    · simp only [PState.text, htl, pbuf_of_idle s hwf h1]
      rw [← List.cons_append, ← List.append_assoc, ← hs]
    · simp only [PState.cost, p1, h1, List.length_nil]
      omega

theorem pRead_step_sticky (cap : Nat) (s : PState) (hwf : s.WF) (h1 : s.thisSegment = [])
    (h2 : s.nextSegment = []) (x : RErr) (h3 : s.errNextRead = some x)
    (d : Bytes) (e : Option RErr) (s1 : PState) (h : pRead cap s = (d, e, s1)) : StepOK cap s d e s1 := by
  rw [pRead_sticky cap s x h1 h2 h3] at h
  simp only [Prod.mk.injEq] at h
  obtain ⟨rfl, rfl, rfl⟩ := h
  refine ⟨hwf, by simp, by simp, Or.inr (Or.inr ⟨?_, rfl, ?_, ?_⟩)⟩
  · simp [PState.text, PState.tail, h3]
  · simp [PState.text, PState.tail, h3, pbuf_of_idle s hwf h1, h2]
  · simp [h3]

theorem pRead_step_src (cap : Nat) (hcap : 0 < cap) (s : PState) (hwf : s.WF) (h1 : s.thisSegment = [])
    (h2 : s.nextSegment = []) (h3 : s.errNextRead = none)
    (d : Bytes) (e : Option RErr) (s1 : PState) (h : pRead cap s = (d, e, s1)) : StepOK cap s d e s1 := by
  rw [pRead_src cap s h1 h2 h3] at h
  rcases hr : srcRead cap s.src with ⟨d0, e0, src'⟩
  obtain ⟨r1, r2, r3, r4⟩ := srcRead_spec cap hcap s.src d0 e0 src' hr
  rw [hr] at h
  have hbuf : s.buf = [] := by rw [pbuf_of_idle s hwf h1, h2]
  have htail : s.tail = srcText s.src := by simp [PState.tail, h3]
  have he1 := hwf.errThisEmpty h1
  cases e0 with
  | some x =>
    obtain ⟨t1, t2⟩ := r4 x rfl
    simp only at h
    by_cases hd0 : d0.isEmpty = true
    · rw [if_pos hd0] at h
      simp only [Prod.mk.injEq] at h
      obtain ⟨rfl, rfl, rfl⟩ := h
      have hd0' : d0 = [] := by simpa using hd0
      refine ⟨⟨by simp [h1], hwf.errThis, hwf.errThisEmpty⟩, by simp, by simp, Or.inr (Or.inr ⟨?_, rfl, ?_, ?_⟩)⟩
      · simp [PState.text, htail, t1]
      · simp [PState.text, htail, t1, hbuf, hd0']
      · simp [h3, t2]
    · rw [if_neg hd0] at h
      have hd0' : d0 ≠ [] := by simpa using hd0
      obtain ⟨w, p1, p2, p3, p4, p5⟩ := pProc_spec cap hcap d0 false { s with src := src', errNextRead := some x }
        h1 he1 h2 (fun _ => r1) d e s1 h
      have hb := pbuf_length s1
      have htl : s1.tail = ([], x) := by simp [PState.tail, p2]
      refine ⟨w, p3, p4, ?_⟩
      rcases p5 with ⟨he, hs, hc, hd⟩ | ⟨he, hs, hc⟩
      · refine Or.inl ⟨he, ?_, by simp [PState.text, htl, htail, t1], ?_, fun h0 => absurd (hd h0) hd0'⟩
        · simp only [PState.text, htl, htail, t1, hbuf, List.nil_append, List.append_nil]
          exact hs
        · have := hc hd0'
          simp only [PState.cost, p1, h1, h2, List.length_nil]
          omega
      · refine Or.inr (Or.inl ⟨he, ?_, by simp [PState.text, htl, htail, t1], ?_⟩)
        · simp only [PState.text, htl, htail, t1, hbuf, List.nil_append, List.append_nil]
          exact hs
        · simp only [PState.cost, p1, h1, h2, List.length_nil]
          omega
  | none =>
    obtain ⟨t1, t2⟩ := r3 rfl
    simp only at h
    obtain ⟨w, p1, p2, p3, p4, p5⟩ := pProc_spec cap hcap d0 false { s with src := src' }
      h1 he1 h2 (fun _ => r1) d e s1 h
    have hb := pbuf_length s1
    have htl : s1.tail = srcText src' := by simp [PState.tail, p2, p1, h3]
    refine ⟨w, p3, p4, ?_⟩
    rcases p5 with ⟨he, hs, hc, hd⟩ | ⟨he, hs, hc⟩
    · refine Or.inl ⟨he, ?_, by simp [PState.text, htl, htail, t1], ?_, ?_⟩
      · simp only [PState.text, htl, htail, t1, hbuf, List.nil_append]
        rw [← List.append_assoc, ← hs]
      · have hlen : d0.length = d.length + s1.buf.length := by rw [hs, List.length_append]
        simp only [PState.cost, p1, h1, h2, List.length_nil]
        by_cases hd0 : d0 = []
        · have hsrc := t2 hd0
          rw [hsrc]
          rw [hd0] at hlen
          simp only [srcCost, List.length_nil] at hlen ⊢
          omega
        · have := hc hd0
          omega
      · intro h0
        have hd0 := hd h0
        exact ⟨hbuf, h3, src', t2 hd0⟩
    · refine Or.inr (Or.inl ⟨he, ?_, by simp [PState.text, htl, htail, t1], ?_⟩)
      · simp only [PState.text, htl, htail, t1, hbuf, List.nil_append]
        rw [← List.cons_append, ← List.append_assoc, ← hs]
      · simp only [PState.cost, p1, h1, h2, List.length_nil]
        omega

/-- **one-step refinement** -/
theorem pRead_step (cap : Nat) (hcap : 0 < cap) (s : PState) (hwf : s.WF)
    (d : Bytes) (e : Option RErr) (s1 : PState) (h : pRead cap s = (d, e, s1)) : StepOK cap s d e s1 := by
  by_cases h1 : s.thisSegment = []
  · by_cases h2 : s.nextSegment = []
    · cases h3 : s.errNextRead with
      | none => exact pRead_step_src cap hcap s hwf h1 h2 h3 d e s1 h
      | some x => exact pRead_step_sticky cap s hwf h1 h2 x h3 d e s1 h
    · exact pRead_step_next cap hcap s hwf h1 h2 d e s1 h
  · exact pRead_step_this cap hcap s hwf h1 d e s1 h


/-- the clauses of `StepOK` by reported condition -/
theorem pRead_step_none (cap : Nat) (hcap : 0 < cap) (s : PState) (hwf : s.WF) (d : Bytes) (s1 : PState)
    (h : pRead cap s = (d, none, s1)) :
    s1.WF ∧ d.length ≤ cap ∧ Armor.period ∉ d ∧ s.text.1 = d ++ s1.text.1 ∧ s1.text.2 = s.text.2 ∧
    s1.cost < s.cost ∧ (d = [] → s.buf = [] ∧ s.errNextRead = none ∧ ∃ rest, s.src = ([], none) :: rest) := by
  obtain ⟨w, l, n, c⟩ := pRead_step cap hcap s hwf d none s1 h
  rcases c with ⟨_, c⟩ | ⟨c, _⟩ | ⟨c, _⟩
  · exact ⟨w, l, n, c⟩
  · simp at c
  · simp at c

/-- a condition other than "punctuated" is terminal: it is reported with no
    data, only when no text is left, and it is the text's condition -/
theorem pRead_step_terminal (cap : Nat) (hcap : 0 < cap) (s : PState) (hwf : s.WF) (d : Bytes) (x : RErr)
    (s1 : PState) (h : pRead cap s = (d, some x, s1)) (hx : x ≠ punctErr) :
    s1.WF ∧ d = [] ∧ s.text = ([], x) ∧
    s1 = (if s.errNextRead.isSome then s else { s with src := s.src.tail }) := by
  obtain ⟨w, l, n, c⟩ := pRead_step cap hcap s hwf d (some x) s1 h
  rcases c with ⟨c, _⟩ | ⟨c, _⟩ | ⟨c1, c2, c3, c4⟩
  · simp at c
  · simp only [Option.some.injEq] at c; exact absurd c hx
  · simp only [Option.some.injEq] at c1
    exact ⟨w, c2, by rw [c1, ← c3], c4⟩

/-- "punctuated" is reported exactly at a period of the text — unless the
    source itself reports that very condition at the end of the text -/
theorem pRead_step_punct (cap : Nat) (hcap : 0 < cap) (s : PState) (hwf : s.WF) (d : Bytes)
    (s1 : PState) (h : pRead cap s = (d, some punctErr, s1)) :
    s1.WF ∧ d.length ≤ cap ∧ Armor.period ∉ d ∧
    ((s.text.1 = d ++ Armor.period :: s1.text.1 ∧ s1.text.2 = s.text.2 ∧ s1.cost < s.cost) ∨
     (d = [] ∧ s.text = ([], punctErr))) := by
  obtain ⟨w, l, n, c⟩ := pRead_step cap hcap s hwf d (some punctErr) s1 h
  rcases c with ⟨c, _⟩ | ⟨_, c⟩ | ⟨c1, c2, c3, c4⟩
  · simp at c
  · exact ⟨w, l, n, Or.inl c⟩
  · simp only [Option.some.injEq] at c1
    exact ⟨w, l, n, Or.inr ⟨c2, by rw [c1, ← c3]⟩⟩

/-- well-formedness is preserved -/
theorem pWF_pRead (cap : Nat) (hcap : 0 < cap) (s : PState) (hwf : s.WF) : (pRead cap s).2.2.WF :=
  (pRead_step cap hcap s hwf _ _ _ rfl).1

/-- a remembered condition (D6) and the end of the script are sticky -/
theorem pRead_terminal_sticky (cap cap' : Nat) (hcap : 0 < cap) (s : PState) (hwf : s.WF) (d : Bytes) (x : RErr)
    (s1 : PState) (h : pRead cap s = (d, some x, s1)) (hx : x ≠ punctErr)
    (hs : s.errNextRead.isSome ∨ s.src = []) : pRead cap' s1 = ([], some x, s1) := by
  obtain ⟨w, _, c3, c4⟩ := pRead_step_terminal cap hcap s hwf d x s1 h hx
  have hbuf : s.buf = [] := by
    have : s.text.1 = [] := by rw [c3]
    simp only [PState.text, List.append_eq_nil_iff] at this
    exact this.1
  have hthis : s.thisSegment = [] := by
    simp only [PState.buf, List.append_eq_nil_iff] at hbuf
    exact hbuf.1.1
  have hnext : s.nextSegment = [] := by
    simp only [PState.buf, List.append_eq_nil_iff] at hbuf
    exact hbuf.2
  cases he : s.errNextRead with
  | some y =>
    rw [he] at c4
    simp only [Option.isSome_some, if_true] at c4
    subst c4
    have : y = x := by
      have := congrArg Prod.snd c3
      simpa [PState.text, PState.tail, he] using this
    subst this
    exact pRead_sticky cap' s1 y hthis hnext he
  | none =>
    have hs' : s.src = [] := by simpa [he] using hs
    have hx' : x = .eof := by
      have := congrArg Prod.snd c3
      simpa [PState.text, PState.tail, he, hs', srcText] using this.symm
    have c4' : s1 = { s with src := s.src.tail } := by rw [c4, he]; simp
    subst hx'
    rw [c4', pRead_src cap' { s with src := s.src.tail } hthis hnext he]
    simp [hs', srcRead]

/-! ## the layer theorem -/

/-- read with buffer sizes `caps` (cycled) until a condition is reported -/
def pReadSeg (caps : List Nat) : (fuel : Nat) → Nat → PState → Bytes → Bytes × Option RErr × PState
  | 0, _, s, acc => (acc, none, s)
  | fuel + 1, k, s, acc =>
    let cap := caps.getD (k % caps.length) 1
    let (d, e, s1) := pRead cap s
    match e with
    | none => pReadSeg caps fuel (k + 1) s1 (acc ++ d)
    | some x => (acc ++ d, some x, s1)

theorem pReadSeg_succ (caps : List Nat) (fuel k : Nat) (s : PState) (acc : Bytes) :
    pReadSeg caps (fuel + 1) k s acc =
      match (pRead (caps.getD (k % caps.length) 1) s).2.1 with
      | none => pReadSeg caps fuel (k + 1) (pRead (caps.getD (k % caps.length) 1) s).2.2
          (acc ++ (pRead (caps.getD (k % caps.length) 1) s).1)
      | some x => (acc ++ (pRead (caps.getD (k % caps.length) 1) s).1, some x,
          (pRead (caps.getD (k % caps.length) 1) s).2.2) := rfl

theorem capsGetD_pos (caps : List Nat) (hpos : ∀ c ∈ caps, 0 < c) (i : Nat) : 0 < caps.getD i 1 := by
  rw [List.getD_eq_getElem?_getD]
  cases h : caps[i]? with
  | none => simp
  | some c => exact hpos c (List.mem_of_getElem? h)

theorem firstSplit_prefix {α : Type} (p : α) : ∀ (d t1 a rest : List α), d ++ t1 = a ++ p :: rest → p ∉ d →
    ∃ a', a = d ++ a' ∧ t1 = a' ++ p :: rest := by
  intro d
  induction d with
  | nil => intro t1 a rest h _; exact ⟨a, rfl, by simpa using h⟩
  | cons x d ih =>
    intro t1 a rest h hp
    simp only [List.mem_cons, not_or] at hp
    cases a with
    | nil =>
      simp only [List.cons_append, List.nil_append, List.cons.injEq] at h
      exact absurd h.1.symm hp.1
    | cons y a =>
      simp only [List.cons_append, List.cons.injEq] at h
      obtain ⟨a', h1, h2⟩ := ih t1 a rest h.2 hp.2
      exact ⟨a', by rw [h.1, h1]; rfl, h2⟩

theorem firstSplit_unique {α : Type} (p : α) (d t1 a rest : List α) (h : d ++ p :: t1 = a ++ p :: rest)
    (hd : p ∉ d) (ha : p ∉ a) : d = a ∧ t1 = rest := by
  obtain ⟨a', h1, h2⟩ := firstSplit_prefix p d (p :: t1) a rest h hd
  cases a' with
  | nil =>
    simp only [List.nil_append, List.cons.injEq, true_and] at h2
    exact ⟨by simpa using h1.symm, h2⟩
  | cons z a' =>
    simp only [List.cons_append, List.cons.injEq] at h2
    exfalso
    apply ha
    rw [h1, ← h2.1]
    simp

theorem pReadSeg_aux (caps : List Nat) (hpos : ∀ c ∈ caps, 0 < c) :
    ∀ (fuel k : Nat) (s : PState) (acc : Bytes), s.WF → s.cost < fuel →
    (∀ a rest, s.text.1 = a ++ Armor.period :: rest → Armor.period ∉ a →
      ∃ s1, pReadSeg caps fuel k s acc = (acc ++ a, some punctErr, s1) ∧ s1.WF ∧
        s1.text = (rest, s.text.2) ∧ s1.cost < s.cost) ∧
    (Armor.period ∉ s.text.1 →
      ∃ s1, pReadSeg caps fuel k s acc = (acc ++ s.text.1, some s.text.2, s1) ∧ s1.WF ∧ s1.buf = []) := by
  intro fuel
  induction fuel with
  | zero => intro k s acc _ h; omega
  | succ fuel ih =>
    intro k s acc hwf hfuel
    rw [pReadSeg_succ]
    have hcap := capsGetD_pos caps hpos (k % caps.length)
    generalize caps.getD (k % caps.length) 1 = cap at hcap
    rcases hp : pRead cap s with ⟨d, e, s'⟩
    obtain ⟨w, l, n, c⟩ := pRead_step cap hcap s hwf d e s' hp
    simp only
    rcases c with ⟨rfl, c1, c2, c3, _⟩ | ⟨rfl, c1, c2, c3⟩ | ⟨rfl, c1, c2, c3⟩
    · -- no condition: continue
      obtain ⟨ih1, ih2⟩ := ih (k + 1) s' (acc ++ d) w (by omega)
      simp only
      constructor
      · intro a rest ht ha
        rw [c1] at ht
        obtain ⟨a', h1, h2⟩ := firstSplit_prefix _ d s'.text.1 a rest ht n
        obtain ⟨s1, e1, e2, e3, e4⟩ := ih1 a' rest h2 (fun hm => ha (by rw [h1]; simp [hm]))
        exact ⟨s1, by rw [e1, h1, List.append_assoc], e2, by rw [e3, c2], by omega⟩
      · intro hnp
        rw [c1] at hnp
        obtain ⟨s1, e1, e2, e3⟩ := ih2 (fun hm => hnp (by simp [hm]))
        exact ⟨s1, by rw [e1, c1, c2, List.append_assoc], e2, e3⟩
    · -- punctuated
      simp only
      constructor
      · intro a rest ht ha
        rw [c1] at ht
        obtain ⟨h1, h2⟩ := firstSplit_unique _ d s'.text.1 a rest ht n ha
        exact ⟨s', by rw [h1], w, by rw [← h2, ← c2], c3⟩
      · intro hnp
        exfalso; apply hnp; rw [c1]; simp
    · -- terminal
      simp only
      constructor
      · intro a rest ht _
        rw [c2] at ht
        simp at ht
      · intro _
        refine ⟨s', by rw [c1, c2], w, ?_⟩
        have hbuf : s.buf = [] := by
          simp only [PState.text, List.append_eq_nil_iff] at c2
          exact c2.1
        rw [c3]
        split
        · exact hbuf
        · simpa [PState.buf] using hbuf


/-- **the layer theorem**: from a well-formed state whose logical text is
    `(t, c)`, reading with ANY positive buffer sizes (cycled from any position
    `k`) and enough fuel (`s.cost < fuel`; `fuelOf s` is enough, see
    `cost_lt_fuelOf`) yields
    * exactly the text before the first period, then `punctErr`, leaving a
      well-formed state whose logical text is what follows that period; or,
    * when no period is left, exactly the whole text and then its condition `c`. -/
theorem pReadSeg_eq (caps : List Nat) (hpos : ∀ c ∈ caps, 0 < c) (s : PState) (hwf : s.WF)
    (fuel : Nat) (hfuel : s.cost < fuel) (k : Nat) (t : Bytes) (c : RErr) (ht : s.text = (t, c)) :
    (∀ a rest, t = a ++ Armor.period :: rest → Armor.period ∉ a →
      ∃ s1, pReadSeg caps fuel k s [] = (a, some punctErr, s1) ∧ s1.WF ∧ s1.text = (rest, c) ∧
        s1.cost < s.cost) ∧
    (Armor.period ∉ t →
      ∃ s1, pReadSeg caps fuel k s [] = (t, some c, s1) ∧ s1.WF ∧ s1.buf = []) := by
  have h := pReadSeg_aux caps hpos fuel k s [] hwf hfuel
  rw [ht] at h
  simpa using h

/-- **fragmentation- and buffer-size-independence**, for states: two
    well-formed states with the same logical text give the same bytes and the
    same condition under any two positive buffer-size sequences; when the
    segment ended at a period the resulting states again have the same logical
    text (so the statement can be iterated segment by segment). -/
theorem pReadSeg_independent_states (caps caps' : List Nat) (hpos : ∀ c ∈ caps, 0 < c)
    (hpos' : ∀ c ∈ caps', 0 < c) (s s' : PState) (hwf : s.WF) (hwf' : s'.WF) (htext : s.text = s'.text)
    (fuel fuel' : Nat) (hfuel : s.cost < fuel) (hfuel' : s'.cost < fuel') (k k' : Nat) :
    (pReadSeg caps fuel k s []).1 = (pReadSeg caps' fuel' k' s' []).1 ∧
    (pReadSeg caps fuel k s []).2.1 = (pReadSeg caps' fuel' k' s' []).2.1 ∧
    (pReadSeg caps fuel k s []).2.2.WF ∧ (pReadSeg caps' fuel' k' s' []).2.2.WF ∧
    (Armor.period ∈ s.text.1 →
      (pReadSeg caps fuel k s []).2.1 = some punctErr ∧
      (pReadSeg caps fuel k s []).2.2.text = (pReadSeg caps' fuel' k' s' []).2.2.text) ∧
    (Armor.period ∉ s.text.1 →
      (pReadSeg caps fuel k s []).1 = s.text.1 ∧ (pReadSeg caps fuel k s []).2.1 = some s.text.2) := by
  obtain ⟨a1, a2⟩ := pReadSeg_eq caps hpos s hwf fuel hfuel k s.text.1 s.text.2 rfl
  obtain ⟨b1, b2⟩ := pReadSeg_eq caps' hpos' s' hwf' fuel' hfuel' k' s.text.1 s.text.2 htext.symm
  by_cases hp : Armor.period ∈ s.text.1
  · obtain ⟨a, rest, hsplit, ha⟩ := List.eq_append_cons_of_mem hp
    obtain ⟨s1, e1, w1, t1, _⟩ := a1 a rest hsplit ha
    obtain ⟨s1', e1', w1', t1', _⟩ := b1 a rest hsplit ha
    rw [e1, e1']
    exact ⟨rfl, rfl, w1, w1', fun _ => ⟨rfl, by rw [t1, t1']⟩, fun h => absurd hp h⟩
  · obtain ⟨s1, e1, w1, _⟩ := a2 hp
    obtain ⟨s1', e1', w1', _⟩ := b2 hp
    rw [e1, e1']
    exact ⟨rfl, rfl, w1, w1', fun h => absurd h hp, fun _ => ⟨rfl, rfl⟩⟩

/-- **fragmentation- and buffer-size-independence**, from the start: two
    scripts that deliver the same text with the same final condition — however
    differently fragmented — read with any two positive buffer-size sequences
    give the same segment and the same condition, and (after a period) states
    with the same logical text. -/
theorem pReadSeg_independent (src src' : Source) (h : srcText src = srcText src')
    (caps caps' : List Nat) (hpos : ∀ c ∈ caps, 0 < c) (hpos' : ∀ c ∈ caps', 0 < c)
    (fuel fuel' : Nat) (hfuel : srcCost src < fuel) (hfuel' : srcCost src' < fuel') :
    (pReadSeg caps fuel 0 { src := src } []).1 = (pReadSeg caps' fuel' 0 { src := src' } []).1 ∧
    (pReadSeg caps fuel 0 { src := src } []).2.1 = (pReadSeg caps' fuel' 0 { src := src' } []).2.1 ∧
    (pReadSeg caps fuel 0 { src := src } []).2.2.WF ∧ (pReadSeg caps' fuel' 0 { src := src' } []).2.2.WF ∧
    (Armor.period ∈ (srcText src).1 →
      (pReadSeg caps fuel 0 { src := src } []).2.2.text = (pReadSeg caps' fuel' 0 { src := src' } []).2.2.text) := by
  have := pReadSeg_independent_states caps caps' hpos hpos' { src := src } { src := src' } (pWF_init src) (pWF_init src')
    (by rw [ptext_init, ptext_init, h]) fuel fuel' (by rw [pcost_init]; exact hfuel) (by rw [pcost_init]; exact hfuel') 0 0
  obtain ⟨h1, h2, h3, h4, h5, _⟩ := this
  exact ⟨h1, h2, h3, h4, fun hp => (h5 (by rw [ptext_init]; exact hp)).2⟩

/-! ## concrete checks -/

/-- "ab.cd" delivered as "a" | "b.c" | "d"+EOF -/
def punctExSrc : Source := [([97], none), ([98, 46, 99], none), ([100], some .eof)]
/-- the same text in one delivery, EOF separately -/
def punctExSrc' : Source := [([97, 98, 46, 99, 100], none), ([], none), ([], some .eof)]

example : srcText punctExSrc = ([97, 98, 46, 99, 100], .eof) ∧ srcText punctExSrc' = srcText punctExSrc := by decide

-- first segment "ab" + punctuated, for one-byte and seven-byte buffers and both fragmentations
example : (pReadSeg [1] 9 0 { src := punctExSrc } []).1 = [97, 98] ∧
    (pReadSeg [1] 9 0 { src := punctExSrc } []).2.1 = some punctErr ∧
    (pReadSeg [7] 9 0 { src := punctExSrc } []).1 = [97, 98] ∧
    (pReadSeg [7] 9 0 { src := punctExSrc } []).2.1 = some punctErr ∧
    (pReadSeg [2, 1, 3] 9 0 { src := punctExSrc' } []).1 = [97, 98] ∧
    (pReadSeg [2, 1, 3] 9 0 { src := punctExSrc' } []).2.1 = some punctErr := by decide

-- second segment "cd" + EOF, continuing from the states reached above
example : (pReadSeg [1] 9 0 (pReadSeg [1] 9 0 { src := punctExSrc } []).2.2 []).1 = [99, 100] ∧
    (pReadSeg [1] 9 0 (pReadSeg [1] 9 0 { src := punctExSrc } []).2.2 []).2.1 = some .eof ∧
    (pReadSeg [7] 9 0 (pReadSeg [7] 9 0 { src := punctExSrc } []).2.2 []).1 = [99, 100] ∧
    (pReadSeg [7] 9 0 (pReadSeg [7] 9 0 { src := punctExSrc } []).2.2 []).2.1 = some .eof ∧
    (pReadSeg [2, 1, 3] 9 0 (pReadSeg [2, 1, 3] 9 0 { src := punctExSrc' } []).2.2 []).1 = [99, 100] ∧
    (pReadSeg [2, 1, 3] 9 0 (pReadSeg [2, 1, 3] 9 0 { src := punctExSrc' } []).2.2 []).2.1 = some .eof := by decide

-- D6: data that comes WITH an error is handed out first, the error by the next
-- call, and it is then sticky (the rest of the script is never read)
example :
    let s0 : PState := { src := [([97, 98], some (.err .overflow)), ([120], none)] }
    let r1 := pRead 7 s0
    let r2 := pRead 7 r1.2.2
    let r3 := pRead 7 r2.2.2
    (r1.1, r1.2.1) = ([97, 98], none) ∧ (r2.1, r2.2.1) = ([], some (.err .overflow)) ∧
    (r3.1, r3.2.1) = ([], some (.err .overflow)) := by decide

-- … whereas an error that comes WITHOUT data is passed through and NOT
-- remembered: a later call reads on (so after the terminal condition the
-- behaviour depends on how the source attached the error to the data)
example :
    let s0 : PState := { src := [([], some (.err .overflow)), ([120], none)] }
    let r1 := pRead 7 s0
    let r2 := pRead 7 r1.2.2
    (r1.1, r1.2.1) = ([], some (.err .overflow)) ∧ (r2.1, r2.2.1) = ([120], none) := by decide

-- a source that itself reports "punctuated" is indistinguishable from a period
example : ((pRead 7 { src := [([], some punctErr)] }).1, (pRead 7 { src := [([], some punctErr)] }).2.1) =
    ([], some punctErr) := by decide

end Saltpack.Proofs
