/-
  Model/Codec.lean on the packets a spec-following sender writes (with the
  reserved extra trailing elements), and the length guarantee of decoded
  authenticators.
-/
import Saltpack.Proofs.Codec

namespace Saltpack.Proofs.CodecP
open Saltpack Saltpack.Msgpack Saltpack.Codec Saltpack.Proofs.MsgpackRT

/-! ### (c) whatever the input: a decoded authenticator has 32 bytes -/

theorem pad32_length (b : Bytes) : (pad32 b).length = 32 := by
  unfold pad32 zeros
  rw [List.length_take, List.length_append, List.length_replicate]
  omega

theorem decByteArray32_len (fuel rem : Nat) (b a r : Bytes) (h : decByteArray32 fuel rem b = .ok (a, r)) :
    a.length = 32 := by
  cases b with
  | nil => simp [decByteArray32, bind_run, peek1] at h
  | cons x t =>
    rw [decByteArray32, bind_ok (peek1_cons _ _)] at h
    cases hc : ctype x.toNat <;> simp only [hc] at h
    all_goals first
      | (rw [map_run] at h
         split at h
         · injection h with h; injection h with h1 h2; rw [← h1]; exact pad32_length _
         · cases h)
      | (rw [bind_run] at h
         split at h
         · rw [map_run] at h
           split at h
           · injection h with h; injection h with h1 h2; rw [← h1]; exact pad32_length _
           · cases h
         · cases h)

theorem sliceElems_all {α : Type} (P : α → Prop) (elem : Dec α) (zero : α) (hz : P zero)
    (he : ∀ b a r, elem b = .ok (a, r) → P a) :
    ∀ (n : Nat) (acc : List α) (b : Bytes) (l : List α) (r : Bytes), (∀ a ∈ acc, P a) →
      sliceElems elem zero n acc b = .ok (l, r) → ∀ a ∈ l, P a := by
  intro n
  induction n with
  | zero =>
    intro acc b l r hacc h
    rw [sliceElems] at h
    injection h with h; injection h with h1 h2
    intro a ha; rw [← h1] at ha; exact hacc a (List.mem_reverse.1 ha)
  | succ n ih =>
    intro acc b l r hacc h
    rw [sliceElems, bind_run] at h
    split at h
    · rename_i c b' hn
      cases c
      · simp only [Bool.false_eq_true, if_false] at h
        rw [bind_run] at h
        split at h
        · rename_i a r' hel
          exact ih (a :: acc) r' l r (by
            intro y hy; rcases List.mem_cons.1 hy with e | e
            · rw [e]; exact he _ _ _ hel
            · exact hacc y e) h
        · cases h
      · simp only [if_true] at h
        exact ih (zero :: acc) b' l r (by
          intro y hy; rcases List.mem_cons.1 hy with e | e
          · rw [e]; exact hz
          · exact hacc y e) h
    · cases h

/-- every authenticator `decAuthenticators` returns — from ANY bytes — has 32 bytes -/
theorem decAuthenticators_len (fuel rem : Nat) (b r : Bytes) (l : List Bytes)
    (h : decAuthenticators fuel rem b = .ok (l, r)) : ∀ a ∈ l, a.length = 32 := by
  cases b with
  | nil => simp [decAuthenticators, kSliceOf, bind_run, peek1] at h
  | cons x t =>
    rw [decAuthenticators, kSliceOf, bind_ok (peek1_cons _ _)] at h
    cases hc : ctype x.toNat <;> simp only [hc] at h
    case bytes => cases h
    all_goals
      (rw [bind_run] at h
       split at h
       · exact sliceElems_all (fun a => a.length = 32) _ _ (by simp [zeros]) (fun b a r => decByteArray32_len fuel rem b a r)
           _ [] _ l r (by simp) h
       · cases h)


/-! ### (a) structs in array form -/

theorem structArr_zero {σ : Type} (fuel rem : Nat) (fs : List (Field σ)) (st : σ) (b : Bytes) :
    structArr fuel rem fs 0 st b = .ok (st, b) := by
  cases fs <;> rfl

theorem structArr_cons {σ : Type} (fuel rem : Nat) (f : Field σ) (fs : List (Field σ)) (n : Nat) (st st' : σ)
    (b b' : Bytes) (h : fieldVal f st b = .ok (st', b')) :
    structArr fuel rem (f :: fs) (n + 1) st b = structArr fuel rem fs n st' b' := by
  rw [structArr, bind_ok h]

theorem structArr_extras {σ : Type} (fuel rem : Nat) (ex : List Val) (hall : ∀ v ∈ ex, ValWF v) (st : σ) (r : Bytes)
    (hf : 2 * (encode.encodeList ex).length + 1 ≤ fuel) (hd : depth.depthList ex ≤ rem) :
    structArr fuel rem ([] : List (Field σ)) ex.length st (encode.encodeList ex ++ r) = .ok (st, r) := by
  cases ex with
  | nil => rw [encodeList_nil]; exact structArr_zero fuel rem [] st _
  | cons v vs =>
    have h := swallowN_encodeList (v :: vs) hall r fuel rem hf hd
    rw [List.length_cons] at h
    rw [List.length_cons, structArr, bind_ok h]
    rfl

theorem kStruct_arr {σ : Type} (fuel rem : Nat) (fields : List (Field σ)) (st : σ) (n : Nat) (hn : n < 2 ^ 32)
    (r : Bytes) : kStruct fuel rem fields st (encArrayHdr n ++ r) = structArr fuel rem fields n st r := by
  obtain ⟨x, t, e, _, ct, hs⟩ := arrHdr_obj n hn r
  rw [e, kStruct, bind_ok (peek1_cons _ _)]
  simp only [ct]
  rw [bind_ok hs]

theorem sliceLen_arr (n : Nat) (hn : n < 2 ^ 32) (r : Bytes) : sliceLen (encArrayHdr n ++ r) = .ok (n, r) := by
  obtain ⟨x, t, e, _, ct, hs⟩ := arrHdr_obj n hn r
  rw [e, sliceLen, bind_ok (peek1_cons _ _)]
  simp only [ct]
  exact hs

theorem tryNil_arr (n : Nat) (hn : n < 2 ^ 32) (r : Bytes) :
    tryNil (encArrayHdr n ++ r) = .ok (false, encArrayHdr n ++ r) := by
  obtain ⟨x, t, e, ne, _, _⟩ := arrHdr_obj n hn r
  rw [e]; exact tryNil_other x t ne

theorem fieldVal_nil {σ : Type} (f : Field σ) (st : σ) (r : Bytes) : fieldVal f st (0xc0 :: r) = .ok (f.zero st, r) := by
  rw [fieldVal, bind_ok (tryNil_c0 r)]; rfl

theorem fieldVal_dec {σ : Type} (f : Field σ) (st : σ) (x : UInt8) (t : Bytes) (ne : x ≠ 0xc0) :
    fieldVal f st (x :: t) = f.dec st (x :: t) := by
  rw [fieldVal, bind_ok (tryNil_other x t ne)]
  simp only [Bool.false_eq_true, if_false]

/-- an integer field -/
theorem fieldVal_int {σ : Type} (name : Bytes) (c : Bool) (zero : σ → σ) (upd : σ → Int → σ) (st : σ) (i : Int)
    (hlo : -(2 ^ 63 : Int) ≤ i) (hhi : i < (2 ^ 63 : Int)) (r : Bytes) :
    fieldVal ⟨name, c, zero, fun v => do let i ← decodeInt64; pure (upd v i)⟩ st (encInt i ++ r) = .ok (upd st i, r) := by
  obtain ⟨x, t, e, o⟩ := intObj_encInt i hlo hhi r
  rw [e, fieldVal_dec _ _ _ _ o.ne]
  show (decodeInt64 >>= fun i => pure (upd st i)) (x :: t) = _
  rw [bind_ok o.dec]; rfl

/-- a byte-string field written as bin -/
theorem fieldVal_bin {σ : Type} (name : Bytes) (c : Bool) (zero : σ → σ) (upd : σ → Bytes → σ) (st : σ) (b : Bytes)
    (hb : b.length < 2 ^ 32) (r : Bytes) :
    fieldVal ⟨name, c, zero, fun v => do let x ← decBytesField; pure (upd v x)⟩ st (encBin b ++ r) = .ok (upd st b, r) := by
  obtain ⟨x, t, e, o⟩ := bytesObj_encBin b hb r
  rw [e, fieldVal_dec _ _ _ _ o.ne]
  show (decBytesField >>= fun y => pure (upd st y)) (x :: t) = _
  rw [bind_ok (by rw [decBytesField_of_bytes _ _ o.ct]; exact o.dec)]; rfl

/-- the format name: a string field written as str -/
theorem fieldVal_str {σ : Type} (name : Bytes) (c : Bool) (zero : σ → σ) (upd : σ → Bytes → σ) (st : σ) (b : Bytes)
    (hb : b.length < 2 ^ 32) (r : Bytes) :
    fieldVal ⟨name, c, zero, fun v => do let x ← decodeBytes; pure (upd v x)⟩ st (encStr b ++ r) = .ok (upd st b, r) := by
  obtain ⟨x, t, e, o⟩ := bytesObj_encStr b hb r
  rw [e, fieldVal_dec _ _ _ _ o.ne]
  show (decodeBytes >>= fun y => pure (upd st y)) (x :: t) = _
  rw [bind_ok o.dec]; rfl

theorem fieldVal_bool {σ : Type} (name : Bytes) (c : Bool) (zero : σ → σ) (upd : σ → Bool → σ) (st : σ) (f : Bool)
    (r : Bytes) :
    fieldVal ⟨name, c, zero, fun v => do let x ← decodeBool; pure (upd v x)⟩ st (encBool f ++ r) = .ok (upd st f, r) := by
  obtain ⟨x, e, ne, _, _, hd⟩ := boolObj f r
  rw [e, fieldVal_dec _ _ _ _ ne]
  show (decodeBool >>= fun y => pure (upd st y)) (x :: r) = _
  rw [bind_ok hd]; rfl

/-- bounds the extras must meet: encodable, within the depth budget `rem`, fuel enough -/
structure ExtrasOK (ex : List Val) (fuel rem : Nat) : Prop where
  wf : ∀ v ∈ ex, ValWF v
  fuel : 2 * (encode.encodeList ex).length + 1 ≤ fuel
  depth : depth.depthList ex ≤ rem

/-- the version pair `[major, minor, extras…]` -/
theorem decVersion_encode (fuel rem : Nat) (ma mi : Int) (hma : -(2 ^ 63 : Int) ≤ ma ∧ ma < (2 ^ 63 : Int))
    (hmi : -(2 ^ 63 : Int) ≤ mi ∧ mi < (2 ^ 63 : Int)) (ex : List Val) (hex : ExtrasOK ex fuel rem)
    (hlen : ex.length + 2 < 2 ^ 32) (v0 : Version) (r : Bytes) :
    decVersion fuel rem v0 (encode (.arr ([.int ma, .int mi] ++ ex)) ++ r) = .ok (⟨ma, mi⟩, r) := by
  have hl : ([Val.int ma, Val.int mi] ++ ex).length = ex.length + 1 + 1 := by simp
  rw [encode, List.append_assoc, decVersion, kStruct_arr _ _ _ _ _ (by rw [hl]; omega), hl]
  show structArr fuel rem versionFields _ _ (encode.encodeList (Val.int ma :: Val.int mi :: ex) ++ r) = _
  rw [encodeList_cons, encodeList_cons, encode, encode, List.append_assoc, List.append_assoc, versionFields,
    structArr_cons _ _ _ _ _ _ _ _ _ (fieldVal_int _ _ _ (fun (v : Version) (i : Int) => ({ v with major := i } : Version)) v0 ma hma.1 hma.2 _),
    structArr_cons _ _ _ _ _ _ _ _ _ (fieldVal_int _ _ _ (fun (v : Version) (i : Int) => ({ v with minor := i } : Version)) _ mi hmi.1 hmi.2 _),
    structArr_extras fuel rem ex hex.wf _ r hex.fuel hex.depth]


theorem topStruct_arr {σ : Type} (fields : Nat → Nat → List (Field σ)) (zero : σ) (n : Nat) (hn : n < 2 ^ 32) (r : Bytes) :
    topStruct fields zero (encArrayHdr n ++ r) =
      structArr (fuelFor (encArrayHdr n ++ r)) 99 (fields (fuelFor (encArrayHdr n ++ r)) 99) n zero r := by
  show (tryNil >>= fun c => if c = true then pure zero else kStruct _ 99 _ zero) (encArrayHdr n ++ r) = _
  rw [bind_ok (tryNil_arr n hn r)]
  simp only [Bool.false_eq_true, if_false]
  exact kStruct_arr _ _ _ _ n hn r

/-- extras behind a top-level packet: encodable and at most 99 deep (go-codec's limit) -/
structure TopExtras (ex : List Val) : Prop where
  wf : ∀ v ∈ ex, ValWF v
  depth : depth.depthList ex ≤ 99

/-- the signcryption packet `[ctext, final, extras…]` read by `mps.Read(&signcryptionBlock)` -/
theorem decSigncryptBlock_encode (ct : Bytes) (hct : ct.length < 2 ^ 32) (f : Bool) (ex : List Val) (hex : TopExtras ex)
    (hlen : ex.length + 2 < 2 ^ 32) (r : Bytes) :
    decSigncryptBlock (encode (.arr ([.bin ct, .bool f] ++ ex)) ++ r) = .ok (⟨ct, f⟩, r) := by
  have hl : ([Val.bin ct, Val.bool f] ++ ex).length = ex.length + 1 + 1 := by simp
  rw [encode, List.append_assoc, decSigncryptBlock, topStruct_arr _ _ _ (by rw [hl]; omega), hl]
  generalize hfu : fuelFor _ = fuel
  have hfuel : 2 * (encode.encodeList ex).length + 1 ≤ fuel := by
    rw [← hfu, fuelFor]
    simp only [List.length_append, List.cons_append, List.nil_append, encodeList_cons]
    omega
  show structArr fuel 99 (signcryptBlockFields fuel 99) _ _ (encode.encodeList (Val.bin ct :: Val.bool f :: ex) ++ r) = _
  rw [encodeList_cons, encodeList_cons, encode, encode, List.append_assoc, List.append_assoc, signcryptBlockFields,
    structArr_cons _ _ _ _ _ _ _ _ _ (fieldVal_bin _ _ _ (fun (b : SigncryptBlock) (c : Bytes) => ({ b with ct := c } : SigncryptBlock)) zeroSigncryptBlock ct hct _),
    structArr_cons _ _ _ _ _ _ _ _ _ (fieldVal_bool _ _ _ (fun (b : SigncryptBlock) (c : Bool) => ({ b with final := c } : SigncryptBlock)) _ f _),
    structArr_extras fuel 99 ex hex.wf _ r hfuel hex.depth]

/-- the V1 attached-signature packet `[signature, chunk, extras…]` -/
theorem decSigBlockV1_encode (sg ch : Bytes) (hsg : sg.length < 2 ^ 32) (hch : ch.length < 2 ^ 32) (ex : List Val)
    (hex : TopExtras ex) (hlen : ex.length + 2 < 2 ^ 32) (r : Bytes) :
    decSigBlockV1 (encode (.arr ([.bin sg, .bin ch] ++ ex)) ++ r) = .ok (⟨sg, ch, false⟩, r) := by
  have hl : ([Val.bin sg, Val.bin ch] ++ ex).length = ex.length + 1 + 1 := by simp
  rw [encode, List.append_assoc, decSigBlockV1, topStruct_arr _ _ _ (by rw [hl]; omega), hl]
  generalize hfu : fuelFor _ = fuel
  have hfuel : 2 * (encode.encodeList ex).length + 1 ≤ fuel := by
    rw [← hfu, fuelFor]
    simp only [List.length_append, List.cons_append, List.nil_append, encodeList_cons]
    omega
  show structArr fuel 99 (sigBlockV1Fields fuel 99) _ _ (encode.encodeList (Val.bin sg :: Val.bin ch :: ex) ++ r) = _
  rw [encodeList_cons, encodeList_cons, encode, encode, List.append_assoc, List.append_assoc, sigBlockV1Fields,
    structArr_cons _ _ _ _ _ _ _ _ _ (fieldVal_bin _ _ _ (fun (b : SigBlock) (c : Bytes) => ({ b with sig := c } : SigBlock)) zeroSigBlock sg hsg _),
    structArr_cons _ _ _ _ _ _ _ _ _ (fieldVal_bin _ _ _ (fun (b : SigBlock) (c : Bytes) => ({ b with chunk := c } : SigBlock)) _ ch hch _),
    structArr_extras fuel 99 ex hex.wf _ r hfuel hex.depth]
  rfl

end Saltpack.Proofs.CodecP
