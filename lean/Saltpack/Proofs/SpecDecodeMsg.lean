/-
  The strict reference decoder, layer W continued: every packet type and whole
  messages of the four modes — `parse` and `render` are inverse to each other.
-/
import Saltpack.Proofs.SpecDecodeWire

namespace Saltpack.Proofs.SDW
open Saltpack Saltpack.Msgpack Saltpack.SpecDecode Saltpack.Proofs
open Saltpack.Spec hiding encode

theorem sFormatName_len : sFormatName.length = 8 := by decide +kernel

theorem wf_bins (l : List Bytes) (h : ∀ b ∈ l, b.length < 2 ^ 32) : ∀ v ∈ l.map Val.bin, ValWF v := by
  intro v hv
  obtain ⟨b, hb, rfl⟩ := List.mem_map.1 hv
  exact ValWF.bin b (h b hb)

theorem wf_common (major mode : Int) (hm : major = 1 ∨ major = 2) (hmode : 0 ≤ mode ∧ mode < 4) :
    ∀ v ∈ commonVals major mode, ValWF v := by
  intro v hv
  simp only [commonVals, List.mem_cons, List.not_mem_nil, or_false] at hv
  rcases hv with rfl | rfl | rfl
  · exact ValWF.str _ (by rw [sFormatName_len]; omega)
  · refine ValWF.arr _ (by simp) ?_
    intro x hx
    simp only [List.mem_cons, List.not_mem_nil, or_false] at hx
    rcases hx with rfl | rfl
    · rcases hm with rfl | rfl <;> exact ValWF.int _ (by omega) (by omega)
    · exact ValWF.int _ (by omega) (by omega)
  · exact ValWF.int _ (by omega) (by omega)

/-! ### encryption -/

structure EncRecvWF (r : EncRecv) : Prop where
  box : r.box.length = 48
  kid : ∀ k, r.kid = some k → k.length = 32

structure EncPktWF (major : Int) (p : EncPkt) : Prop where
  final : major = 1 → p.final = false
  auths : ∀ a ∈ p.auths, a.length = 32
  nauths : p.auths.length < 2 ^ 32
  ct : p.ct.length < 2 ^ 32

/-- the wire fields an encryption message can carry: the lengths the
    specification fixes, and the MessagePack limits (2^32) -/
structure EncMsgWF (m : EncMsg) : Prop where
  major : m.major = 1 ∨ m.major = 2
  eph : m.eph.length = 32
  ssb : m.ssb.length = 48
  recvs : ∀ r ∈ m.recvs, EncRecvWF r
  nrecvs : m.recvs.length < 2 ^ 32
  hdr : m.headerBytes.length < 2 ^ 32
  pkts : ∀ p ∈ m.pkts, EncPktWF m.major p

theorem EncRecv.ofVal_sound {v : Val} {r : EncRecv} (h : EncRecv.ofVal v = .ok r) :
    r.toVal = v ∧ EncRecvWF r := by
  unfold EncRecv.ofVal at h
  split at h
  · rename_i kidV boxV
    split at h
    · cases h
    · rename_i bx hbx
      obtain ⟨rfl, hbl⟩ := asBinLen_ok.1 hbx
      split at h
      · injection h with h
        subst h
        exact ⟨rfl, ⟨hbl, by simp⟩⟩
      · split at h
        · cases h
        · rename_i k hk
          obtain ⟨rfl, hkl⟩ := asBinLen_ok.1 hk
          injection h with h
          subst h
          refine ⟨rfl, ⟨hbl, ?_⟩⟩
          intro k' hk'
          injection hk' with hk'
          subst hk'
          exact hkl
  · cases h

theorem EncRecv.ofVal_complete (r : EncRecv) (hr : EncRecvWF r) : EncRecv.ofVal r.toVal = .ok r := by
  obtain ⟨kid, box⟩ := r
  cases kid with
  | none =>
    simp only [EncRecv.toVal, EncRecv.ofVal]
    rw [asBinLen_ok.2 ⟨rfl, hr.box⟩]
  | some k =>
    simp only [EncRecv.toVal, EncRecv.ofVal]
    rw [asBinLen_ok.2 ⟨rfl, hr.box⟩, asBinLen_ok.2 ⟨rfl, hr.kid k rfl⟩]

theorem EncPkt.mk'_ok {fl : Bool} {a c : Val} {p : EncPkt} (h : EncPkt.mk' fl a c = .ok p) :
    a = .arr (p.auths.map Val.bin) ∧ c = .bin p.ct ∧ p.final = fl ∧ ∀ x ∈ p.auths, x.length = 32 := by
  unfold EncPkt.mk' at h
  split at h
  · rename_i auths
    split at h
    · cases h
    · rename_i as has
      split at h
      · cases h
      · rename_i ct hct
        injection h with h
        subst h
        obtain ⟨h1, h2⟩ := mapR_bins_sound _ _ _ _ has
        exact ⟨by rw [h1], by rw [asBin_ok.1 hct], rfl, h2⟩
  · cases h

theorem EncPkt.mk'_complete (p : EncPkt) (h : ∀ x ∈ p.auths, x.length = 32) :
    EncPkt.mk' p.final (.arr (p.auths.map Val.bin)) (.bin p.ct) = .ok p := by
  unfold EncPkt.mk'
  simp only
  rw [mapR_bins_complete _ _ _ h]
  simp [asBin]

theorem EncPkt.ofVal_sound {major : Int} {v : Val} {p : EncPkt} (h : EncPkt.ofVal major v = .ok p) :
    p.toVal major = v ∧ (major = 1 → p.final = false) ∧ ∀ x ∈ p.auths, x.length = 32 := by
  unfold EncPkt.ofVal at h
  split at h
  · split at h
    · rename_i hm
      obtain ⟨rfl, rfl, hf, ha⟩ := EncPkt.mk'_ok h
      exact ⟨by simp [EncPkt.toVal, hm], fun _ => hf, ha⟩
    · cases h
  · split at h
    · cases h
    · rename_i hm
      split at h
      · cases h
      · rename_i fl hfl
        obtain ⟨rfl, rfl, hf, ha⟩ := EncPkt.mk'_ok h
        rw [asBool_ok] at hfl
        subst hfl
        exact ⟨by simp [EncPkt.toVal, hm, hf], fun h1 => absurd h1 hm, ha⟩
  · cases h

theorem EncPkt.ofVal_complete (major : Int) (p : EncPkt) (hp : EncPktWF major p) :
    EncPkt.ofVal major (p.toVal major) = .ok p := by
  unfold EncPkt.toVal
  split
  · rename_i hm
    unfold EncPkt.ofVal
    simp only [hm, if_true]
    have := EncPkt.mk'_complete p hp.auths
    rw [hp.final hm] at this
    exact this
  · rename_i hm
    unfold EncPkt.ofVal
    simp only [hm, if_false, asBool]
    exact EncPkt.mk'_complete p hp.auths

theorem EncMsg.ofVals_sound {fields packets : List Val} {m : EncMsg}
    (h : EncMsg.ofVals fields packets = .ok m) :
    m.fields = fields ∧ m.packets = packets ∧ (m.major = 1 ∨ m.major = 2) ∧
      m.eph.length = 32 ∧ m.ssb.length = 48 ∧ (∀ r ∈ m.recvs, EncRecvWF r) ∧
      (∀ p ∈ m.pkts, (m.major = 1 → p.final = false) ∧ ∀ x ∈ p.auths, x.length = 32) := by
  unfold EncMsg.ofVals at h
  split at h
  · cases h
  · rename_i major ephV ssbV rcv hc
    obtain ⟨rfl, hm⟩ := ofCommon_sound hc
    split at h
    · cases h
    · rename_i eph heph
      obtain ⟨rfl, hel⟩ := asBinLen_ok.1 heph
      split at h
      · cases h
      · rename_i ssb hssb
        obtain ⟨rfl, hsl⟩ := asBinLen_ok.1 hssb
        split at h
        · cases h
        · rename_i recvs hrecvs
          split at h
          · cases h
          · rename_i pkts hpkts
            injection h with h
            subst h
            have h1 := mapR_sound EncRecv.ofVal EncRecv.toVal (fun a b h => (EncRecv.ofVal_sound h).1) _ _ hrecvs
            have h2 := mapR_forall EncRecv.ofVal EncRecvWF (fun a b h => (EncRecv.ofVal_sound h).2) _ _ hrecvs
            have h3 := mapR_sound (EncPkt.ofVal major) (EncPkt.toVal major)
              (fun a b h => (EncPkt.ofVal_sound h).1) _ _ hpkts
            have h4 := mapR_forall (EncPkt.ofVal major)
              (fun p => (major = 1 → p.final = false) ∧ ∀ x ∈ p.auths, x.length = 32)
              (fun a b h => (EncPkt.ofVal_sound h).2) _ _ hpkts
            refine ⟨?_, h3, hm, hel, hsl, h2, h4⟩
            simp only [EncMsg.fields, h1]
  · cases h

theorem EncMsg.ofVals_complete (m : EncMsg) (hm : EncMsgWF m) :
    EncMsg.ofVals m.fields m.packets = .ok m := by
  unfold EncMsg.ofVals EncMsg.fields
  rw [ofCommon_complete _ _ _ hm.major]
  simp only
  rw [asBinLen_ok.2 ⟨rfl, hm.eph⟩, asBinLen_ok.2 ⟨rfl, hm.ssb⟩]
  simp only
  rw [mapR_complete EncRecv.ofVal EncRecv.toVal _ (fun r hr => EncRecv.ofVal_complete r (hm.recvs r hr))]
  simp only [EncMsg.packets]
  rw [mapR_complete (EncPkt.ofVal m.major) (EncPkt.toVal m.major) _
    (fun p hp => EncPkt.ofVal_complete m.major p (hm.pkts p hp))]

/-- **soundness / canonicity, encryption**: a byte string that the strict
    decoder accepts as the wire fields `m` IS the reference encoding of `m` -/
theorem EncMsg.parse_sound {b : Bytes} {m : EncMsg} (h : EncMsg.parse b = .ok m) : m.render = b := by
  unfold EncMsg.parse at h
  split at h
  · cases h
  · rename_i f p hs
    obtain ⟨h1, h2, _⟩ := EncMsg.ofVals_sound h
    rw [EncMsg.render, h1, h2]
    exact splitMsg_sound hs

theorem EncRecv.toVal_wf (r : EncRecv) (hr : EncRecvWF r) : ValWF r.toVal := by
  refine ValWF.arr _ (by simp) ?_
  intro v hv
  simp only [List.mem_cons, List.not_mem_nil, or_false] at hv
  rcases hv with rfl | rfl
  · cases hk : r.kid with
    | none => exact ValWF.nil
    | some k => exact ValWF.bin k (by rw [hr.kid k hk]; omega)
  · exact ValWF.bin _ (by rw [hr.box]; omega)

theorem EncPkt.toVal_wf (major : Int) (p : EncPkt) (hp : EncPktWF major p) : ValWF (p.toVal major) := by
  have ha : ValWF (.arr (p.auths.map Val.bin)) :=
    ValWF.arr _ (by simpa using hp.nauths) (wf_bins _ (fun b hb => by rw [hp.auths b hb]; omega))
  unfold EncPkt.toVal
  split
  · refine ValWF.arr _ (by simp) ?_
    intro v hv
    simp only [List.mem_cons, List.not_mem_nil, or_false] at hv
    rcases hv with rfl | rfl
    · exact ha
    · exact ValWF.bin _ hp.ct
  · refine ValWF.arr _ (by simp) ?_
    intro v hv
    simp only [List.mem_cons, List.not_mem_nil, or_false] at hv
    rcases hv with rfl | rfl | rfl
    · exact ValWF.bool _
    · exact ha
    · exact ValWF.bin _ hp.ct

theorem EncMsg.fields_wf (m : EncMsg) (hm : EncMsgWF m) : ValWF (.arr m.fields) := by
  refine ValWF.arr _ (by simp [EncMsg.fields, commonVals]) ?_
  intro v hv
  simp only [EncMsg.fields, List.mem_append, List.mem_cons, List.not_mem_nil, or_false] at hv
  rcases hv with hv | rfl | rfl | rfl
  · exact wf_common _ _ hm.major (by decide) v hv
  · exact ValWF.bin _ (by rw [hm.eph]; omega)
  · exact ValWF.bin _ (by rw [hm.ssb]; omega)
  · refine ValWF.arr _ (by simpa using hm.nrecvs) ?_
    intro x hx
    obtain ⟨r, hr, rfl⟩ := List.mem_map.1 hx
    exact EncRecv.toVal_wf r (hm.recvs r hr)

/-- **completeness, encryption**: the reference encoding of any well-formed
    wire fields is accepted and decodes to exactly these fields -/
theorem EncMsg.parse_complete (m : EncMsg) (hm : EncMsgWF m) : EncMsg.parse m.render = .ok m := by
  unfold EncMsg.parse EncMsg.render
  rw [splitMsg_complete _ _ (EncMsg.fields_wf m hm) hm.hdr (by
    intro v hv
    obtain ⟨p, hp, rfl⟩ := List.mem_map.1 hv
    exact EncPkt.toVal_wf _ p (hm.pkts p hp))]
  exact EncMsg.ofVals_complete m hm

/-- what `parse` guarantees about the fields (the part of `EncMsgWF` that is
    decided by the decoder itself) -/
theorem EncMsg.parse_fields {b : Bytes} {m : EncMsg} (h : EncMsg.parse b = .ok m) :
    (m.major = 1 ∨ m.major = 2) ∧ m.eph.length = 32 ∧ m.ssb.length = 48 ∧
      (∀ r ∈ m.recvs, EncRecvWF r) ∧
      (∀ p ∈ m.pkts, (m.major = 1 → p.final = false) ∧ ∀ x ∈ p.auths, x.length = 32) := by
  unfold EncMsg.parse at h
  split at h
  · cases h
  · exact (EncMsg.ofVals_sound h).2.2

/-! ### attached and detached signatures -/

structure AttPktWF (major : Int) (p : AttPkt) : Prop where
  final : major = 1 → p.final = false
  sig : p.sig.length = 64
  chunk : p.chunk.length < 2 ^ 32

structure AttMsgWF (m : AttMsg) : Prop where
  major : m.major = 1 ∨ m.major = 2
  signer : m.signer.length = 32
  nonce : m.nonce.length < 2 ^ 32
  pkts : ∀ p ∈ m.pkts, AttPktWF m.major p

structure DetMsgWF (m : DetMsg) : Prop where
  major : m.major = 1 ∨ m.major = 2
  signer : m.signer.length = 32
  nonce : m.nonce.length < 2 ^ 32
  sig : m.sig.length = 64

theorem AttPkt.mk'_ok {fl : Bool} {s c : Val} {p : AttPkt} (h : AttPkt.mk' fl s c = .ok p) :
    s = .bin p.sig ∧ c = .bin p.chunk ∧ p.final = fl ∧ p.sig.length = 64 := by
  unfold AttPkt.mk' at h
  split at h
  · cases h
  · rename_i sg hsg
    obtain ⟨rfl, hl⟩ := asBinLen_ok.1 hsg
    split at h
    · cases h
    · rename_i ch hch
      rw [asBin_ok] at hch
      subst hch
      injection h with h
      subst h
      exact ⟨rfl, rfl, rfl, hl⟩

theorem AttPkt.mk'_complete (p : AttPkt) (h : p.sig.length = 64) :
    AttPkt.mk' p.final (.bin p.sig) (.bin p.chunk) = .ok p := by
  unfold AttPkt.mk'
  rw [asBinLen_ok.2 ⟨rfl, h⟩]
  simp [asBin]

theorem AttPkt.ofVal_sound {major : Int} {v : Val} {p : AttPkt} (h : AttPkt.ofVal major v = .ok p) :
    p.toVal major = v ∧ (major = 1 → p.final = false) ∧ p.sig.length = 64 := by
  unfold AttPkt.ofVal at h
  split at h
  · split at h
    · rename_i hm
      obtain ⟨rfl, rfl, hf, ha⟩ := AttPkt.mk'_ok h
      exact ⟨by simp [AttPkt.toVal, hm], fun _ => hf, ha⟩
    · cases h
  · split at h
    · cases h
    · rename_i hm
      split at h
      · cases h
      · rename_i fl hfl
        obtain ⟨rfl, rfl, hf, ha⟩ := AttPkt.mk'_ok h
        rw [asBool_ok] at hfl
        subst hfl
        exact ⟨by simp [AttPkt.toVal, hm, hf], fun h1 => absurd h1 hm, ha⟩
  · cases h

theorem AttPkt.ofVal_complete (major : Int) (p : AttPkt) (hp : AttPktWF major p) :
    AttPkt.ofVal major (p.toVal major) = .ok p := by
  unfold AttPkt.toVal
  split
  · rename_i hm
    unfold AttPkt.ofVal
    simp only [hm, if_true]
    have := AttPkt.mk'_complete p hp.sig
    rw [hp.final hm] at this
    exact this
  · rename_i hm
    unfold AttPkt.ofVal
    simp only [hm, if_false, asBool]
    exact AttPkt.mk'_complete p hp.sig

theorem ofSigFields_sound {mode : Int} {fields : List Val} {major : Int} {pk n : Bytes}
    (h : ofSigFields mode fields = .ok (major, pk, n)) :
    fields = sigFields major mode pk n ∧ (major = 1 ∨ major = 2) ∧ pk.length = 32 := by
  unfold ofSigFields at h
  split at h
  · cases h
  · rename_i major' pkV nV hc
    obtain ⟨rfl, hm⟩ := ofCommon_sound hc
    split at h
    · cases h
    · rename_i pk' hpk
      obtain ⟨rfl, hl⟩ := asBinLen_ok.1 hpk
      split at h
      · cases h
      · rename_i n' hn
        rw [asBin_ok] at hn
        subst hn
        injection h with h
        injection h with h1 h2
        injection h2 with h2 h3
        subst h1 h2 h3
        exact ⟨rfl, hm, hl⟩
  · cases h

theorem ofSigFields_complete (mode major : Int) (pk n : Bytes) (hm : major = 1 ∨ major = 2)
    (hpk : pk.length = 32) : ofSigFields mode (sigFields major mode pk n) = .ok (major, pk, n) := by
  unfold ofSigFields sigFields
  rw [ofCommon_complete _ _ _ hm]
  simp only
  rw [asBinLen_ok.2 ⟨rfl, hpk⟩]
  simp [asBin]

theorem AttMsg.ofVals_sound {fields packets : List Val} {m : AttMsg}
    (h : AttMsg.ofVals fields packets = .ok m) :
    m.fields = fields ∧ m.packets = packets ∧ (m.major = 1 ∨ m.major = 2) ∧ m.signer.length = 32 ∧
      (∀ p ∈ m.pkts, (m.major = 1 → p.final = false) ∧ p.sig.length = 64) := by
  unfold AttMsg.ofVals at h
  split at h
  · cases h
  · rename_i major pk n hs
    obtain ⟨rfl, hm, hl⟩ := ofSigFields_sound hs
    split at h
    · cases h
    · rename_i pkts hpkts
      injection h with h
      subst h
      have h3 := mapR_sound (AttPkt.ofVal major) (AttPkt.toVal major)
        (fun a b h => (AttPkt.ofVal_sound h).1) _ _ hpkts
      have h4 := mapR_forall (AttPkt.ofVal major)
        (fun p => (major = 1 → p.final = false) ∧ p.sig.length = 64)
        (fun a b h => (AttPkt.ofVal_sound h).2) _ _ hpkts
      exact ⟨rfl, h3, hm, hl, h4⟩

theorem AttMsg.ofVals_complete (m : AttMsg) (hm : AttMsgWF m) :
    AttMsg.ofVals m.fields m.packets = .ok m := by
  unfold AttMsg.ofVals AttMsg.fields
  rw [ofSigFields_complete _ _ _ _ hm.major hm.signer]
  simp only [AttMsg.packets]
  rw [mapR_complete (AttPkt.ofVal m.major) (AttPkt.toVal m.major) _
    (fun p hp => AttPkt.ofVal_complete m.major p (hm.pkts p hp))]

/-- **soundness / canonicity, attached signatures** -/
theorem AttMsg.parse_sound {b : Bytes} {m : AttMsg} (h : AttMsg.parse b = .ok m) : m.render = b := by
  unfold AttMsg.parse at h
  split at h
  · cases h
  · rename_i f p hs
    obtain ⟨h1, h2, _⟩ := AttMsg.ofVals_sound h
    rw [AttMsg.render, h1, h2]
    exact splitMsg_sound hs

theorem AttMsg.parse_fields {b : Bytes} {m : AttMsg} (h : AttMsg.parse b = .ok m) :
    (m.major = 1 ∨ m.major = 2) ∧ m.signer.length = 32 ∧
      (∀ p ∈ m.pkts, (m.major = 1 → p.final = false) ∧ p.sig.length = 64) := by
  unfold AttMsg.parse at h
  split at h
  · cases h
  · exact (AttMsg.ofVals_sound h).2.2

theorem sigFields_wf (major mode : Int) (pk n : Bytes) (hm : major = 1 ∨ major = 2)
    (hmode : 0 ≤ mode ∧ mode < 4) (hpk : pk.length = 32) (hn : n.length < 2 ^ 32) :
    ValWF (.arr (sigFields major mode pk n)) := by
  refine ValWF.arr _ (by simp [sigFields, commonVals]) ?_
  intro v hv
  simp only [sigFields, List.mem_append, List.mem_cons, List.not_mem_nil, or_false] at hv
  rcases hv with hv | rfl | rfl
  · exact wf_common _ _ hm hmode v hv
  · exact ValWF.bin _ (by rw [hpk]; omega)
  · exact ValWF.bin _ hn

theorem sigFields_len (major mode : Int) (pk n : Bytes) (hm : major = 1 ∨ major = 2)
    (hmode : 0 ≤ mode ∧ mode < 4) (hpk : pk.length = 32) (hn : n.length < 2 ^ 31) :
    (encode (.arr (sigFields major mode pk n))).length < 2 ^ 32 := by
  have h8 := sFormatName_len
  have e1 : (encInt major).length = 1 := by rcases hm with rfl | rfl <;> rfl
  have e2 : (encInt mode).length = 1 := by
    obtain ⟨a, b⟩ := hmode
    have : mode = 0 ∨ mode = 1 ∨ mode = 2 ∨ mode = 3 := by omega
    rcases this with rfl | rfl | rfl | rfl <;> rfl
  have e3 : (encBinHdr n.length).length ≤ 5 := by
    unfold encBinHdr
    split
    · simp
    · split <;> simp [MsgpackRT.beN_length]
  simp only [sigFields, commonVals, encode, encode.encodeList, List.cons_append, List.nil_append,
    List.length_cons, List.length_nil, List.length_append, encStr, encBin, h8, hpk, e1, e2]
  have : (encArrayHdr (1 + 1 + 1 + 1 + 1)).length = 1 := rfl
  have h2 : (encArrayHdr (1 + 1)).length = 1 := rfl
  have h3 : (encStrHdr 8).length = 1 := rfl
  have h4 : (encBinHdr 32).length = 2 := rfl
  have h5 : (encInt 0).length = 1 := rfl
  simp only [List.length_nil, Nat.zero_add, Nat.add_zero] at *
  omega

theorem AttPkt.toVal_wf (major : Int) (p : AttPkt) (hp : AttPktWF major p) : ValWF (p.toVal major) := by
  unfold AttPkt.toVal
  split
  · refine ValWF.arr _ (by simp) ?_
    intro v hv
    simp only [List.mem_cons, List.not_mem_nil, or_false] at hv
    rcases hv with rfl | rfl
    · exact ValWF.bin _ (by rw [hp.sig]; omega)
    · exact ValWF.bin _ hp.chunk
  · refine ValWF.arr _ (by simp) ?_
    intro v hv
    simp only [List.mem_cons, List.not_mem_nil, or_false] at hv
    rcases hv with rfl | rfl | rfl
    · exact ValWF.bool _
    · exact ValWF.bin _ (by rw [hp.sig]; omega)
    · exact ValWF.bin _ hp.chunk

/-- **completeness, attached signatures** (`hn`: the header must fit a bin32) -/
theorem AttMsg.parse_complete (m : AttMsg) (hm : AttMsgWF m) (hn : m.nonce.length < 2 ^ 31) :
    AttMsg.parse m.render = .ok m := by
  unfold AttMsg.parse AttMsg.render AttMsg.fields
  rw [splitMsg_complete _ _ (sigFields_wf _ _ _ _ hm.major (by decide) hm.signer hm.nonce)
    (sigFields_len _ _ _ _ hm.major (by decide) hm.signer hn) (by
    intro v hv
    obtain ⟨p, hp, rfl⟩ := List.mem_map.1 hv
    exact AttPkt.toVal_wf _ p (hm.pkts p hp))]
  exact AttMsg.ofVals_complete m hm

theorem DetMsg.ofVals_sound {fields packets : List Val} {m : DetMsg}
    (h : DetMsg.ofVals fields packets = .ok m) :
    m.fields = fields ∧ [Val.bin m.sig] = packets ∧ (m.major = 1 ∨ m.major = 2) ∧ m.signer.length = 32 ∧
      m.sig.length = 64 := by
  unfold DetMsg.ofVals at h
  split at h
  · cases h
  · rename_i major pk n hs
    obtain ⟨rfl, hm, hl⟩ := ofSigFields_sound hs
    split at h
    · rename_i sigV
      split at h
      · cases h
      · rename_i sg hsg
        obtain ⟨rfl, hsl⟩ := asBinLen_ok.1 hsg
        injection h with h
        subst h
        exact ⟨rfl, rfl, hm, hl, hsl⟩
    · cases h

/-- **soundness / canonicity, detached signatures** -/
theorem DetMsg.parse_sound {b : Bytes} {m : DetMsg} (h : DetMsg.parse b = .ok m) : m.render = b := by
  unfold DetMsg.parse at h
  split at h
  · cases h
  · rename_i f p hs
    obtain ⟨h1, h2, _⟩ := DetMsg.ofVals_sound h
    rw [DetMsg.render, h1, h2]
    exact splitMsg_sound hs

theorem DetMsg.parse_fields {b : Bytes} {m : DetMsg} (h : DetMsg.parse b = .ok m) :
    (m.major = 1 ∨ m.major = 2) ∧ m.signer.length = 32 ∧ m.sig.length = 64 := by
  unfold DetMsg.parse at h
  split at h
  · cases h
  · exact (DetMsg.ofVals_sound h).2.2

/-- **completeness, detached signatures** -/
theorem DetMsg.parse_complete (m : DetMsg) (hm : DetMsgWF m) (hn : m.nonce.length < 2 ^ 31) :
    DetMsg.parse m.render = .ok m := by
  unfold DetMsg.parse DetMsg.render DetMsg.fields
  rw [splitMsg_complete _ _ (sigFields_wf _ _ _ _ hm.major (by decide) hm.signer hm.nonce)
    (sigFields_len _ _ _ _ hm.major (by decide) hm.signer hn) (by
    intro v hv
    simp only [List.mem_cons, List.not_mem_nil, or_false] at hv
    subst hv
    exact ValWF.bin _ (by rw [hm.sig]; omega))]
  unfold DetMsg.ofVals
  simp only
  rw [ofSigFields_complete _ _ _ _ hm.major hm.signer]
  simp only
  rw [asBinLen_ok.2 ⟨rfl, hm.sig⟩]

/-! ### signcryption -/

structure ScMsgWF (m : ScMsg) : Prop where
  eph : m.eph.length = 32
  ssb : m.ssb.length = 48
  recvs : ∀ r ∈ m.recvs, r.box.length = 48 ∧ r.ident.length < 2 ^ 32
  nrecvs : m.recvs.length < 2 ^ 32
  hdr : m.headerBytes.length < 2 ^ 32
  pkts : ∀ p ∈ m.pkts, p.ct.length < 2 ^ 32

theorem ScRecv.ofVal_sound {v : Val} {r : ScRecv} (h : ScRecv.ofVal v = .ok r) :
    r.toVal = v ∧ r.box.length = 48 := by
  unfold ScRecv.ofVal at h
  split at h
  · split at h
    · cases h
    · rename_i i hi
      rw [asBin_ok] at hi
      subst hi
      split at h
      · cases h
      · rename_i bx hbx
        obtain ⟨rfl, hl⟩ := asBinLen_ok.1 hbx
        injection h with h
        subst h
        exact ⟨rfl, hl⟩
  · cases h

theorem ScRecv.ofVal_complete (r : ScRecv) (hr : r.box.length = 48) : ScRecv.ofVal r.toVal = .ok r := by
  simp only [ScRecv.toVal, ScRecv.ofVal, asBin]
  rw [asBinLen_ok.2 ⟨rfl, hr⟩]

theorem ScPkt.ofVal_sound {v : Val} {p : ScPkt} (h : ScPkt.ofVal v = .ok p) : p.toVal = v := by
  unfold ScPkt.ofVal at h
  split at h
  · split at h
    · cases h
    · rename_i ct hct
      rw [asBin_ok] at hct
      subst hct
      split at h
      · cases h
      · rename_i f hf
        rw [asBool_ok] at hf
        subst hf
        injection h with h
        subst h
        rfl
  · cases h

theorem ScPkt.ofVal_complete (p : ScPkt) : ScPkt.ofVal p.toVal = .ok p := by
  simp [ScPkt.toVal, ScPkt.ofVal, asBin, asBool]

theorem ScMsg.ofVals_sound {fields packets : List Val} {m : ScMsg}
    (h : ScMsg.ofVals fields packets = .ok m) :
    m.fields = fields ∧ m.packets = packets ∧ m.eph.length = 32 ∧ m.ssb.length = 48 ∧
      (∀ r ∈ m.recvs, r.box.length = 48) := by
  unfold ScMsg.ofVals at h
  split at h
  · cases h
  · rename_i major ephV ssbV rcv hc
    obtain ⟨rfl, _⟩ := ofCommon_sound hc
    split at h
    · cases h
    · rename_i hm2
      simp only [ne_eq, Decidable.not_not] at hm2
      subst hm2
      split at h
      · cases h
      · rename_i eph heph
        obtain ⟨rfl, hel⟩ := asBinLen_ok.1 heph
        split at h
        · cases h
        · rename_i ssb hssb
          obtain ⟨rfl, hsl⟩ := asBinLen_ok.1 hssb
          split at h
          · cases h
          · rename_i recvs hrecvs
            split at h
            · cases h
            · rename_i pkts hpkts
              injection h with h
              subst h
              have h1 := mapR_sound ScRecv.ofVal ScRecv.toVal (fun a b h => (ScRecv.ofVal_sound h).1) _ _ hrecvs
              have h2 := mapR_forall ScRecv.ofVal (fun r => r.box.length = 48)
                (fun a b h => (ScRecv.ofVal_sound h).2) _ _ hrecvs
              have h3 := mapR_sound ScPkt.ofVal ScPkt.toVal (fun a b h => ScPkt.ofVal_sound h) _ _ hpkts
              refine ⟨?_, h3, hel, hsl, h2⟩
              simp only [ScMsg.fields, h1]
  · cases h

/-- **soundness / canonicity, signcryption** -/
theorem ScMsg.parse_sound {b : Bytes} {m : ScMsg} (h : ScMsg.parse b = .ok m) : m.render = b := by
  unfold ScMsg.parse at h
  split at h
  · cases h
  · rename_i f p hs
    obtain ⟨h1, h2, _⟩ := ScMsg.ofVals_sound h
    rw [ScMsg.render, h1, h2]
    exact splitMsg_sound hs

theorem ScMsg.parse_fields {b : Bytes} {m : ScMsg} (h : ScMsg.parse b = .ok m) :
    m.eph.length = 32 ∧ m.ssb.length = 48 ∧ (∀ r ∈ m.recvs, r.box.length = 48) := by
  unfold ScMsg.parse at h
  split at h
  · cases h
  · exact (ScMsg.ofVals_sound h).2.2

theorem ScMsg.fields_wf (m : ScMsg) (hm : ScMsgWF m) : ValWF (.arr m.fields) := by
  refine ValWF.arr _ (by simp [ScMsg.fields, commonVals]) ?_
  intro v hv
  simp only [ScMsg.fields, List.mem_append, List.mem_cons, List.not_mem_nil, or_false] at hv
  rcases hv with hv | rfl | rfl | rfl
  · exact wf_common _ _ (Or.inr rfl) (by decide) v hv
  · exact ValWF.bin _ (by rw [hm.eph]; omega)
  · exact ValWF.bin _ (by rw [hm.ssb]; omega)
  · refine ValWF.arr _ (by simpa using hm.nrecvs) ?_
    intro x hx
    obtain ⟨r, hr, rfl⟩ := List.mem_map.1 hx
    refine ValWF.arr _ (by simp) ?_
    intro y hy
    simp only [List.mem_cons, List.not_mem_nil, or_false] at hy
    rcases hy with rfl | rfl
    · exact ValWF.bin _ (hm.recvs r hr).2
    · exact ValWF.bin _ (by rw [(hm.recvs r hr).1]; omega)

/-- **completeness, signcryption** -/
theorem ScMsg.parse_complete (m : ScMsg) (hm : ScMsgWF m) : ScMsg.parse m.render = .ok m := by
  unfold ScMsg.parse ScMsg.render
  rw [splitMsg_complete _ _ (ScMsg.fields_wf m hm) hm.hdr (by
    intro v hv
    obtain ⟨p, hp, rfl⟩ := List.mem_map.1 hv
    refine ValWF.arr _ (by simp) ?_
    intro y hy
    simp only [List.mem_cons, List.not_mem_nil, or_false] at hy
    rcases hy with rfl | rfl
    · exact ValWF.bin _ (hm.pkts p hp)
    · exact ValWF.bool _)]
  unfold ScMsg.ofVals ScMsg.fields
  simp only
  rw [ofCommon_complete _ _ _ (Or.inr rfl)]
  simp only [ne_eq, not_true_eq_false, if_false]
  rw [asBinLen_ok.2 ⟨rfl, hm.eph⟩, asBinLen_ok.2 ⟨rfl, hm.ssb⟩]
  simp only
  rw [mapR_complete ScRecv.ofVal ScRecv.toVal _ (fun r hr => ScRecv.ofVal_complete r (hm.recvs r hr).1)]
  simp only [ScMsg.packets]
  rw [mapR_complete ScPkt.ofVal ScPkt.toVal _ (fun p _ => ScPkt.ofVal_complete p)]

end Saltpack.Proofs.SDW
