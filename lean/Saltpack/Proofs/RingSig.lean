/-
  Signcryption and signatures, general forms (behind Props/C03, C05, C07, C09):

    * signcryption: the opener's keyring holds ANY list of box secret keys and
      MAY be accompanied by a symmetric-key resolver; the header carries any
      minor version; the header bytes are arbitrary (used only through their
      hash);
    * attached / detached signatures: any minor version, arbitrary header bytes;
    * `SigncryptSeal`'s model is total on legal input (`sc_sealPackets_ok`).
-/
import Saltpack.Proofs.RoundTripSig
import Saltpack.Proofs.PlanLemmas
import Saltpack.Proofs.RingEnc

namespace Saltpack.Proofs
open Saltpack Saltpack.Encrypt

/-! ## signcryption -/

/-- the derived key a ring key `s` computes against the ephemeral public key -/
abbrev scDk (P : Prims) (eph s : Bytes) : Bytes := Signcrypt.derivedKeyFromBoxKeys P (P.boxPub eph) s

/-- **No identifier collision, for a ring**: up to (and including) position `i`
    — where a genuine box-key recipient of the ring sits — a ring key's derived
    identifier equals the identifier written in a header entry only if that
    entry was made for this very key.  (`tryBoxSecretKeys` walks the entries in
    header order and, per entry, the ring keys in ring order; it stops at the
    first identifier match and fails hard if the box then does not open.  An
    explicit, satisfiable hypothesis: identifiers are 32 bytes of HMAC output.) -/
def ScRingNoCollision (P : Prims) (eph : Bytes) (rs : List Signcrypt.Recipient) (h : EncHeader)
    (sks : List Bytes) (i : Nat) : Prop :=
  ∀ s ∈ sks, ∀ j, j ≤ i → j < rs.length →
    Signcrypt.keyIdentifier P (scDk P eph s) j = Decrypt.kidOf (h.receivers.getD j default) →
    rs.getD j default = .box (P.boxPub s)

/-- the single-key ring: the hypothesis of `sc_roundtrip_box` is what is needed -/
theorem ScRingNoCollision.single {P : Prims} {eph : Bytes} {rs : List Signcrypt.Recipient} {h : EncHeader}
    {i : Nat} {sk : Bytes} (hsk : rs.getD i default = .box (P.boxPub sk))
    (hnc : ∀ j, j < i → Signcrypt.keyIdentifier P (scDk P eph sk) j ≠ Decrypt.kidOf (h.receivers.getD j default)) :
    ScRingNoCollision P eph rs h [sk] i := by
  intro s hs j hji _ hid
  have hs' : s = sk := by simpa using hs
  subst hs'
  by_cases hlt : j < i
  · exact absurd hid (hnc j hlt)
  · have : j = i := by omega
    subst this
    exact hsk

/-- no key of the ring produces the identifier of any header entry -/
def ScRingForeign (P : Prims) (eph : Bytes) (h : EncHeader) (sks : List Bytes) : Prop :=
  ∀ s ∈ sks, ∀ j, j < h.receivers.length →
    Signcrypt.keyIdentifier P (scDk P eph s) j ≠ Decrypt.kidOf (h.receivers.getD j default)

theorem ScRingForeign.nil {P : Prims} {eph : Bytes} {h : EncHeader} : ScRingForeign P eph h [] := by
  intro s hs; cases hs

/-- what the receiver needs to know about the signcryption header it was
    handed: the fields `Signcrypt.header` computes, under any minor version -/
structure ScHdrOK (P : Prims) (sender : Option Bytes) (eph pk : Bytes) (rs : List Signcrypt.Recipient)
    (h : EncHeader) : Prop where
  fmt : h.formatName = Gen.c_sp_FormatName
  major : h.version.major = 2
  typ : h.typ = mtSigncryption
  ephPub : h.ephemeral = P.boxPub eph
  ssb : h.senderSecretbox = P.sbSeal pk Nonce.senderKeySecretBox
      (match sender with | none => zeros 32 | some s => P.sigPub s)
  recv : h.receivers = Signcrypt.receiverEntries P eph pk rs 0

theorem scHdrOK_withMinor (P : Prims) (sender : Option Bytes) (eph pk : Bytes) (rs : List Signcrypt.Recipient)
    (minor : Int) : ScHdrOK P sender eph pk rs (withMinor (Signcrypt.header P sender eph pk rs) minor) :=
  ⟨rfl, rfl, rfl, rfl, rfl, rfl⟩

theorem scHdrOK_header (P : Prims) (sender : Option Bytes) (eph pk : Bytes) (rs : List Signcrypt.Recipient) :
    ScHdrOK P sender eph pk rs (Signcrypt.header P sender eph pk rs) :=
  ⟨rfl, rfl, rfl, rfl, rfl, rfl⟩

theorem sc_withMinor_zero (P : Prims) (sender : Option Bytes) (eph pk : Bytes) (rs : List Signcrypt.Recipient) :
    withMinor (Signcrypt.header P sender eph pk rs) 0 = Signcrypt.header P sender eph pk rs := rfl

namespace RTSig

theorem sc_validate_ok {P : Prims} {sender : Option Bytes} {eph pk : Bytes} {rs : List Signcrypt.Recipient}
    {h : EncHeader} (hh : ScHdrOK P sender eph pk rs h) : Signcrypt.validate h = .ok () := by
  simp [Signcrypt.validate, hh.fmt, hh.typ, hh.major]

/-- header processing after the payload key has been recovered (any ring, any
    resolver, any minor version) -/
theorem sc_processHeader_found_gen (P : Prims) (hP : P.Lawful) (sks : List Bytes) (res : Signcrypt.Resolver)
    (hhash : Bytes) (sender : Option Bytes) (eph pk : Bytes) (rs : List Signcrypt.Recipient)
    (hsender : ∀ s, sender = some s → ¬ ((P.sigPub s).all (· == 0)))
    (h : EncHeader) (hh : ScHdrOK P sender eph pk rs h)
    (hfind : scFindKey P (faithfulKeyring P sks) res h (P.boxPub eph) = .ok (some pk)) :
    ∃ log, Signcrypt.processHeader P (faithfulKeyring P sks) res hhash h =
      (log, .ok ⟨pk, hhash, sender.map P.sigPub⟩) := by
  refine ⟨(faithfulKeyring P sks).getAllBoxSecretKeys.map
    (fun sk => KeyCall.box sk (P.boxPub eph) Nonce.derivedSharedKey (zeros 32)), ?_⟩
  rw [sc_processHeader_eq P _ res hhash _ (sc_validate_ok hh) (P.boxPub eph) (by rw [hh.ephPub]; rfl), hfind]
  unfold scHeaderTail
  simp only [hh.ssb, hP.sb_open_seal]
  cases sender with
  | none => simp only [zeros_all_zero, if_true, Option.map_none]
  | some s =>
    have := hsender s rfl
    simp only [this, faithfulKeyring, Option.map_some, Bool.false_eq_true, if_false]

theorem sc_processHeader_none_gen (P : Prims) (sks : List Bytes) (res : Signcrypt.Resolver)
    (hhash : Bytes) (sender : Option Bytes) (eph pk : Bytes) (rs : List Signcrypt.Recipient)
    (h : EncHeader) (hh : ScHdrOK P sender eph pk rs h)
    (hfind : scFindKey P (faithfulKeyring P sks) res h (P.boxPub eph) = .ok none) :
    ∃ log, Signcrypt.processHeader P (faithfulKeyring P sks) res hhash h = (log, .error .noDecryptionKey) := by
  refine ⟨(faithfulKeyring P sks).getAllBoxSecretKeys.map
    (fun sk => KeyCall.box sk (P.boxPub eph) Nonce.derivedSharedKey (zeros 32)), ?_⟩
  rw [sc_processHeader_eq P _ res hhash _ (sc_validate_ok hh) (P.boxPub eph) (by rw [hh.ephPub]; rfl), hfind]
  rfl

/-! ### the search over entries × ring keys -/

/-- one entry against the ring: if every identifier match is genuine (opens to
    the 32-byte `pk`), the answer is `pk` when some key matches, nothing otherwise -/
theorem tryBoxOne_genuine (P : Prims) (pk : Bytes) (hpk : pk.length = 32) (r : RecvKeys) (idx : Nat) :
    ∀ (dks : List Bytes),
      (∀ dk ∈ dks, Signcrypt.keyIdentifier P dk idx = Decrypt.kidOf r →
        P.sbOpen dk (Nonce.payloadKeyBoxV2 idx) r.box = some pk) →
      ((∃ dk ∈ dks, Signcrypt.keyIdentifier P dk idx = Decrypt.kidOf r) →
        Signcrypt.tryBoxOne P dks r idx = some (.ok pk)) ∧
      ((∀ dk ∈ dks, Signcrypt.keyIdentifier P dk idx ≠ Decrypt.kidOf r) →
        Signcrypt.tryBoxOne P dks r idx = none) := by
  intro dks
  induction dks with
  | nil =>
    intro _
    exact ⟨fun ⟨dk, hdk, _⟩ => (by cases hdk), fun _ => rfl⟩
  | cons dk rest ih =>
    intro hgen
    obtain ⟨ih1, ih2⟩ := ih (fun d hd => hgen d (List.mem_cons_of_mem _ hd))
    by_cases hid : Signcrypt.keyIdentifier P dk idx = Decrypt.kidOf r
    · have ho := hgen dk List.mem_cons_self hid
      have h1 : Signcrypt.tryBoxOne P (dk :: rest) r idx = some (.ok pk) := by
        simp [Signcrypt.tryBoxOne, hid, ho, hpk]
      exact ⟨fun _ => h1, fun hno => absurd hid (hno dk List.mem_cons_self)⟩
    · have hb : (Signcrypt.keyIdentifier P dk idx == Decrypt.kidOf r) = false := by simpa using hid
      have hstep : Signcrypt.tryBoxOne P (dk :: rest) r idx = Signcrypt.tryBoxOne P rest r idx := by
        simp [Signcrypt.tryBoxOne, hb]
      refine ⟨?_, ?_⟩
      · rintro ⟨d, hd, hdm⟩
        rw [hstep]
        rcases List.mem_cons.1 hd with rfl | hd
        · exact absurd hdm hid
        · exact ih1 ⟨d, hd, hdm⟩
      · intro hno
        rw [hstep]
        exact ih2 (fun d hd => hno d (List.mem_cons_of_mem _ hd))

/-- the entries in order: up to a position `i` that carries a match, every match
    is genuine — the search answers `pk` -/
theorem tryBox_genuine (P : Prims) (dks : List Bytes) (pk : Bytes) (hpk : pk.length = 32) :
    ∀ (l : List RecvKeys) (n i : Nat),
      (∀ j r, j ≤ i → l[j]? = some r → ∀ dk ∈ dks, Signcrypt.keyIdentifier P dk (n + j) = Decrypt.kidOf r →
        P.sbOpen dk (Nonce.payloadKeyBoxV2 (n + j)) r.box = some pk) →
      (∃ r, l[i]? = some r ∧ ∃ dk ∈ dks, Signcrypt.keyIdentifier P dk (n + i) = Decrypt.kidOf r) →
      Signcrypt.tryBox P dks (l.zipIdx n) = .ok (some pk) := by
  intro l
  induction l with
  | nil => intro n i _ ⟨r, hr, _⟩; simp at hr
  | cons a t ih =>
    intro n i hgen ⟨r, hr, hmatch⟩
    rw [List.zipIdx_cons]
    have hgen0 := hgen 0 a (Nat.zero_le _) rfl
    rw [Nat.add_zero] at hgen0
    obtain ⟨g1, g2⟩ := tryBoxOne_genuine P pk hpk a n dks hgen0
    by_cases hm0 : ∃ dk ∈ dks, Signcrypt.keyIdentifier P dk n = Decrypt.kidOf a
    · simp only [Signcrypt.tryBox, g1 hm0]
    · have hno : ∀ dk ∈ dks, Signcrypt.keyIdentifier P dk n ≠ Decrypt.kidOf a :=
        fun dk hdk heq => hm0 ⟨dk, hdk, heq⟩
      simp only [Signcrypt.tryBox, g2 hno]
      cases i with
      | zero =>
        simp only [List.getElem?_cons_zero, Option.some.injEq] at hr
        subst hr
        rw [Nat.add_zero] at hmatch
        exact absurd hmatch hm0
      | succ i =>
        apply ih (n + 1) i
        · intro j r' hj hr' dk hdk hid
          have := hgen (j + 1) r' (by omega) (by simpa using hr') dk hdk
            (by rw [show n + (j + 1) = n + 1 + j by omega]; exact hid)
          rw [show n + (j + 1) = n + 1 + j by omega] at this
          exact this
        · refine ⟨r, by simpa using hr, ?_⟩
          rw [show n + 1 + i = n + (i + 1) by omega]
          exact hmatch

theorem tryBoxOne_none (P : Prims) (r : RecvKeys) (idx : Nat) :
    ∀ (dks : List Bytes), (∀ dk ∈ dks, Signcrypt.keyIdentifier P dk idx ≠ Decrypt.kidOf r) →
      Signcrypt.tryBoxOne P dks r idx = none := by
  intro dks
  induction dks with
  | nil => intro _; rfl
  | cons dk rest ih =>
    intro hno
    have hb : (Signcrypt.keyIdentifier P dk idx == Decrypt.kidOf r) = false := by
      simpa using hno dk List.mem_cons_self
    simp only [Signcrypt.tryBoxOne, hb, Bool.false_eq_true, if_false]
    exact ih (fun d hd => hno d (List.mem_cons_of_mem _ hd))

/-- no ring key matches any entry: the search finds nothing -/
theorem tryBox_foreign (P : Prims) (dks : List Bytes) :
    ∀ (l : List RecvKeys) (n : Nat),
      (∀ j r, l[j]? = some r → ∀ dk ∈ dks, Signcrypt.keyIdentifier P dk (n + j) ≠ Decrypt.kidOf r) →
      Signcrypt.tryBox P dks (l.zipIdx n) = .ok none := by
  intro l
  induction l with
  | nil => intro n _; rfl
  | cons a t ih =>
    intro n hno
    rw [List.zipIdx_cons]
    have h0 : Signcrypt.tryBoxOne P dks a n = none := by
      apply tryBoxOne_none
      have := hno 0 a rfl
      rw [Nat.add_zero] at this
      exact this
    simp only [Signcrypt.tryBox, h0]
    apply ih (n + 1)
    intro j r hr dk hdk
    have := hno (j + 1) r (by simpa using hr) dk hdk
    rw [show n + (j + 1) = n + 1 + j by omega] at this
    exact this

/-- the search of a ring that holds the box key of recipient `i` -/
theorem scFindKey_ring_box (P : Prims) (hP : P.Lawful) (sender : Option Bytes) (rs : List Signcrypt.Recipient)
    (eph pk : Bytes) (hpk : pk.length = 32) (h : EncHeader) (hh : ScHdrOK P sender eph pk rs h)
    (sks : List Bytes) (res : Signcrypt.Resolver)
    (i : Nat) (hi : i < rs.length) (sk : Bytes) (hmem : sk ∈ sks) (hsk : rs.getD i default = .box (P.boxPub sk))
    (hnc : ScRingNoCollision P eph rs h sks i) :
    scFindKey P (faithfulKeyring P sks) res h (P.boxPub eph) = .ok (some pk) := by
  have hrsi : rs[i]? = some (.box (P.boxPub sk)) := by
    rw [← hsk, List.getD_eq_getElem?_getD, List.getElem?_eq_getElem hi]; rfl
  have htb : Signcrypt.tryBox P (sks.map (fun s => scDk P eph s))
      ((Signcrypt.receiverEntries P eph pk rs 0).zipIdx 0) = .ok (some pk) := by
    apply tryBox_genuine P _ pk hpk _ 0 i
    · intro j r hj hr dk hdk hid
      rw [List.mem_map] at hdk
      obtain ⟨s, hs, rfl⟩ := hdk
      have hjl : j < rs.length := by
        by_cases hjl : j < rs.length
        · exact hjl
        · rw [List.getElem?_eq_none (by rw [receiverEntries_length]; omega)] at hr; cases hr
      rw [Nat.zero_add] at hid ⊢
      have hown := hnc s hs j hj hjl (by
        rw [hh.recv, List.getD_eq_getElem?_getD, hr]; exact hid)
      have hrj : rs[j]? = some (.box (P.boxPub s)) := by
        rw [← hown, List.getD_eq_getElem?_getD, List.getElem?_eq_getElem hjl]; rfl
      rw [receiverEntries_getElem?, hrj] at hr
      simp only [Option.map_some, Option.some.injEq, Nat.zero_add] at hr
      subst hr
      simp only [Signcrypt.receiverEntry, scDk, derivedKey_comm P hP s eph, hP.sb_open_seal]
    · refine ⟨_, by rw [receiverEntries_getElem?, hrsi]; rfl, scDk P eph sk, List.mem_map.2 ⟨sk, hmem, rfl⟩, ?_⟩
      simp only [Signcrypt.receiverEntry, scDk, derivedKey_comm P hP sk eph, Nat.zero_add, Decrypt.kidOf,
        Option.getD_some]
  unfold scFindKey
  simp only [hh.recv, fk_all]
  rw [htb]

/-- the box-key search of a ring whose keys are all foreign finds nothing -/
theorem tryBox_ring_foreign (P : Prims) (eph : Bytes) (h : EncHeader) (sks : List Bytes)
    (hfor : ScRingForeign P eph h sks) :
    Signcrypt.tryBox P ((faithfulKeyring P sks).getAllBoxSecretKeys.map
      (fun sk => Signcrypt.derivedKeyFromBoxKeys P (P.boxPub eph) sk)) h.receivers.zipIdx = .ok none := by
  apply tryBox_foreign
  intro j r hr dk hdk
  rw [fk_all, List.mem_map] at hdk
  obtain ⟨s, hs, rfl⟩ := hdk
  have hjl : j < h.receivers.length := (List.getElem?_eq_some_iff.1 hr).1
  have := hfor s hs j hjl
  rw [List.getD_eq_getElem?_getD, hr] at this
  rw [Nat.zero_add]
  exact this

end RTSig
open RTSig

/-- **What a spec-following signcryption sender puts on the wire**, relationally
    (cf. `EncSent`): the header `Signcrypt.header` computes, relabelled
    `[2, minor]`; ANY header bytes `hb`; payload packets computed from the hash
    of those bytes. -/
structure ScSent (P : Prims) (minor : Int) (sender : Option Bytes) (rs : List Signcrypt.Recipient)
    (eph pk : Bytes) (plan : List (Bytes × Bool)) (h : EncHeader) (hb : Bytes) (blks : List SigncryptBlock) : Prop where
  recv : Signcrypt.checkReceivers rs [] = .ok ()
  hdr : h = withMinor (Signcrypt.header P sender eph pk rs) minor
  blocks : Signcrypt.blockStructs P sender pk (P.hash hb) plan 0 = .ok blks

theorem scSent_of_sealPacketsPlan (P : Prims) (sender : Option Bytes) (rs : List Signcrypt.Recipient)
    (eph pk : Bytes) (plan : List (Bytes × Bool)) (h : EncHeader) (hb : Bytes) (blks : List SigncryptBlock)
    (hseal : Signcrypt.sealPacketsPlan P sender rs eph pk plan = .ok (h, hb, blks)) :
    ScSent P 0 sender rs eph pk plan h hb blks := by
  obtain ⟨hh, _, hblk⟩ := PlanL.sc_sealPacketsPlan_inv P sender rs eph pk plan h hb blks hseal
  refine ⟨?_, hh, hblk⟩
  unfold Signcrypt.sealPacketsPlan at hseal
  split at hseal
  · cases hseal
  · rename_i hcr; exact hcr

/-- header + blocks once the payload-key search succeeds, general form -/
theorem sc_open_found_gen (P : Prims) (hP : P.Lawful) (minor : Int)
    (sender : Option Bytes) (rs : List Signcrypt.Recipient) (eph payloadKey : Bytes)
    (plan : List (Bytes × Bool)) (hfin : PlanL.FinalLast plan) (he2 : PlanL.EmptySole plan)
    (hsender : ∀ s, sender = some s → ¬ ((P.sigPub s).all (· == 0)))
    (hblocks : plan.length < 2 ^ 64 - 1)
    (h : EncHeader) (hb : Bytes) (blks : List SigncryptBlock)
    (hsent : ScSent P minor sender rs eph payloadKey plan h hb blks)
    (sks : List Bytes) (res : Signcrypt.Resolver)
    (hfind : scFindKey P (faithfulKeyring P sks) res h (P.boxPub eph) = .ok (some payloadKey)) :
    Signcrypt.openAll P (faithfulKeyring P sks) res (.ok hb h) ⟨blks.map some, .eof⟩ =
      .ok (sender.map P.sigPub, (plan.map (·.1)).flatten) := by
  obtain ⟨_, rfl, hblk⟩ := hsent
  obtain ⟨log, hph⟩ := sc_processHeader_found_gen P hP sks res (P.hash hb) sender eph payloadKey rs hsender _
    (scHdrOK_withMinor P sender eph payloadKey rs minor) hfind
  have hrun := PlanL.sc_run_ok_plan P hP sender payloadKey (P.hash hb) plan hfin he2 hblocks blks hblk
  unfold Signcrypt.openAll Signcrypt.openStream
  simp only [hph, hrun]

/-- **Signcryption, box-key recipient, general form**: the ring holds the box
    key of recipient `i` among any other keys; any resolver may accompany it;
    any minor version, header bytes and valid chunk plan. -/
theorem sc_roundtrip_box_ring (P : Prims) (hP : P.Lawful) (minor : Int)
    (sender : Option Bytes) (rs : List Signcrypt.Recipient) (eph payloadKey : Bytes)
    (plan : List (Bytes × Bool)) (hfin : PlanL.FinalLast plan) (he2 : PlanL.EmptySole plan)
    (hpk : payloadKey.length = 32)
    (hsender : ∀ s, sender = some s → ¬ ((P.sigPub s).all (· == 0)))
    (hblocks : plan.length < 2 ^ 64 - 1)
    (sks : List Bytes) (res : Signcrypt.Resolver)
    (i : Nat) (hi : i < rs.length) (sk : Bytes) (hmem : sk ∈ sks) (hsk : rs.getD i default = .box (P.boxPub sk))
    (h : EncHeader) (hb : Bytes) (blks : List SigncryptBlock)
    (hsent : ScSent P minor sender rs eph payloadKey plan h hb blks)
    (hnc : ScRingNoCollision P eph rs h sks i) :
    Signcrypt.openAll P (faithfulKeyring P sks) res (.ok hb h) ⟨blks.map some, .eof⟩ =
      .ok (sender.map P.sigPub, (plan.map (·.1)).flatten) := by
  apply sc_open_found_gen P hP minor sender rs eph payloadKey plan hfin he2 hsender hblocks h hb blks hsent
  have hh : ScHdrOK P sender eph payloadKey rs h := by
    rw [hsent.hdr]; exact scHdrOK_withMinor P sender eph payloadKey rs minor
  exact scFindKey_ring_box P hP sender rs eph payloadKey hpk h hh sks res i hi sk hmem hsk hnc

/-- **Signcryption, symmetric-key recipients, general form**: the ring may hold
    any (foreign) box keys; the resolver resolves a non-empty subset of the
    identifiers, each to the true key of its entry. -/
theorem sc_roundtrip_sym_ring (P : Prims) (hP : P.Lawful) (minor : Int)
    (sender : Option Bytes) (rs : List Signcrypt.Recipient) (eph payloadKey : Bytes)
    (plan : List (Bytes × Bool)) (hfin : PlanL.FinalLast plan) (he2 : PlanL.EmptySole plan)
    (hpk : payloadKey.length = 32)
    (hsender : ∀ s, sender = some s → ¬ ((P.sigPub s).all (· == 0)))
    (hblocks : plan.length < 2 ^ 64 - 1)
    (h : EncHeader) (hb : Bytes) (blks : List SigncryptBlock)
    (hsent : ScSent P minor sender rs eph payloadKey plan h hb blks)
    (sks : List Bytes) (hfor : ScRingForeign P eph h sks)
    (f : List Bytes → Except Err (List (Option Bytes))) (keys : List (Option Bytes))
    (hf : f (h.receivers.map Decrypt.kidOf) = .ok keys) (hlen : keys.length = rs.length)
    (htrue : ∀ (j : Nat) (k : Bytes), keys[j]? = some (some k) → ∃ ident, rs[j]? = some (Signcrypt.Recipient.sym k ident))
    (hsome : ∃ (j : Nat) (k : Bytes), keys[j]? = some (some k)) :
    Signcrypt.openAll P (faithfulKeyring P sks) (some f) (.ok hb h) ⟨blks.map some, .eof⟩ =
      .ok (sender.map P.sigPub, (plan.map (·.1)).flatten) := by
  apply sc_open_found_gen P hP minor sender rs eph payloadKey plan hfin he2 hsender hblocks h hb blks hsent
  have hh : ScHdrOK P sender eph payloadKey rs h := by
    rw [hsent.hdr]; exact scHdrOK_withMinor P sender eph payloadKey rs minor
  have hlen' : keys.length = (Signcrypt.receiverEntries P eph payloadKey rs 0).length := by
    rw [receiverEntries_length, hlen]
  have hgo : Signcrypt.trySym.go P (P.boxPub eph)
      (keys.zip ((Signcrypt.receiverEntries P eph payloadKey rs 0).zipIdx 0)) = .ok (some payloadKey) := by
    apply trySym_go_found P (P.boxPub eph) payloadKey hpk keys _ 0 hlen' hsome
    intro j k r hk hr
    obtain ⟨ident, hid⟩ := htrue j k hk
    rw [receiverEntries_getElem?, hid] at hr
    simp only [Option.map_some, Option.some.injEq] at hr
    subst hr
    simp only [Signcrypt.receiverEntry, hP.sb_open_seal]
  unfold scFindKey
  rw [tryBox_ring_foreign P eph h sks hfor]
  unfold Signcrypt.trySym
  rw [hh.recv] at hf ⊢
  simp only [hf, List.length_map, hlen']
  simpa using hgo

/-- **No recipient key at all**: a ring of foreign box keys (none produces a
    header identifier), and no resolver or one that resolves nothing: the
    answer is `noDecryptionKey`, and nothing is released. -/
theorem sc_no_key_ring (P : Prims) (minor : Int)
    (sender : Option Bytes) (rs : List Signcrypt.Recipient) (eph payloadKey : Bytes)
    (plan : List (Bytes × Bool))
    (h : EncHeader) (hb : Bytes) (blks : List SigncryptBlock)
    (hsent : ScSent P minor sender rs eph payloadKey plan h hb blks)
    (sks : List Bytes) (hfor : ScRingForeign P eph h sks)
    (res : Signcrypt.Resolver)
    (hres : ∀ f, res = some f → ∃ keys, f (h.receivers.map Decrypt.kidOf) = .ok keys ∧
      keys.length = rs.length ∧ ∀ k ∈ keys, k = none) :
    Signcrypt.openAll P (faithfulKeyring P sks) res (.ok hb h) ⟨blks.map some, .eof⟩ =
      .error .noDecryptionKey ∧
    (Signcrypt.openStream P (faithfulKeyring P sks) res (.ok hb h) ⟨blks.map some, .eof⟩).released = [] := by
  have hh : ScHdrOK P sender eph payloadKey rs h := by
    rw [hsent.hdr]; exact scHdrOK_withMinor P sender eph payloadKey rs minor
  have hfind : scFindKey P (faithfulKeyring P sks) res h (P.boxPub eph) = .ok none := by
    unfold scFindKey
    rw [tryBox_ring_foreign P eph h sks hfor]
    cases res with
    | none => rfl
    | some f =>
      obtain ⟨keys, hf, hlen, hnone⟩ := hres f rfl
      unfold Signcrypt.trySym
      rw [hh.recv] at hf ⊢
      simp only [hf, List.length_map, receiverEntries_length, hlen]
      simp only [bne_self_eq_false, Bool.false_eq_true, if_false]
      exact trySym_go_none P (P.boxPub eph) keys _ hnone
  obtain ⟨log, hph⟩ := sc_processHeader_none_gen P sks res (P.hash hb) sender eph payloadKey rs h hh hfind
  constructor
  · unfold Signcrypt.openAll Signcrypt.openStream
    simp only [hph]
  · unfold Signcrypt.openStream
    simp only [hph]

/-! ### `SigncryptSeal` is total on legal input -/

theorem sc_blockStructs_ok (P : Prims) (sender : Option Bytes) (pk hh : Bytes) :
    ∀ (plan : List (Bytes × Bool)) (k : Nat), k + plan.length ≤ 2 ^ 64 - 1 →
      ∃ blks, Signcrypt.blockStructs P sender pk hh plan k = .ok blks ∧ blks.length = plan.length := by
  intro plan
  induction plan with
  | nil => intro k _; exact ⟨[], rfl, rfl⟩
  | cons p plan ih =>
    intro k hk
    obtain ⟨c, f⟩ := p
    obtain ⟨blks, hb, hl⟩ := ih (k + 1) (by simp at hk; omega)
    have hk' : blockNumberOK k = true := by
      simp only [blockNumberOK, decide_eq_true_eq]
      simp at hk; omega
    have hone : ∃ b, Signcrypt.blockStruct P sender pk hh k c f = .ok b := by
      simp [Signcrypt.blockStruct, hk']
    obtain ⟨b, hb1⟩ := hone
    exact ⟨b :: blks, by simp [Signcrypt.blockStructs, hb1, hb], by simp [hl]⟩

/-- `checkSigncryptReceivers` passes for a non-empty list of at most 2^32-1
    recipients with pairwise distinct identifiers -/
theorem sc_checkReceivers_ok (rs : List Signcrypt.Recipient)
    (hrs : rs ≠ []) (hn : rs.length ≤ 4294967295) (hd : (rs.map Signcrypt.Recipient.ident).Nodup) :
    Signcrypt.checkReceivers rs [] = .ok () := by
  have h1 : rs.isEmpty = false := by
    cases rs with
    | nil => exact absurd rfl hrs
    | cons _ _ => rfl
  have h2 : Gen.c_sp_maxReceiverCount.toNat = 4294967295 := by decide
  have h3 : ¬ (rs.length > 4294967295) := by omega
  simp only [Signcrypt.checkReceivers, List.append_nil, h1, h2, h3, hd, if_true, if_false,
    Bool.false_eq_true]

/-- `SigncryptSeal`'s model returns `.ok` for every input that passes
    `checkSigncryptReceivers` and whose chunk count is below the packet-number bound -/
theorem sc_sealPackets_ok (P : Prims) (bs : Nat) (sender : Option Bytes) (rs : List Signcrypt.Recipient)
    (eph payloadKey pt : Bytes)
    (hcr : Signcrypt.checkReceivers rs [] = .ok ())
    (hblocks : (chunkPlan v2 bs pt).length < 2 ^ 64 - 1) :
    ∃ h hb blks, Signcrypt.sealPackets P bs sender rs eph payloadKey pt = .ok (h, hb, blks) ∧
      h = Signcrypt.header P sender eph payloadKey rs ∧ hb = Msgpack.encode h.toVal ∧
      blks.length = (chunkPlan v2 bs pt).length ∧ h.receivers.length = rs.length := by
  obtain ⟨blks, hb, hl⟩ := sc_blockStructs_ok P sender payloadKey
    (P.hash (Msgpack.encode (Signcrypt.header P sender eph payloadKey rs).toVal)) (chunkPlan v2 bs pt) 0 (by omega)
  refine ⟨_, _, blks, ?_, rfl, rfl, hl, receiverEntries_length P eph payloadKey rs 0⟩
  simp only [Signcrypt.sealPackets, hcr, hb]

/-! ## attached and detached signatures: any minor version, any header bytes -/

/-- **What a spec-following attached-signature sender puts on the wire**,
    relationally: the header of `Sign.header` with version `[major, minor]`, ANY
    header bytes `hb`, packets signed over the hash of those bytes -/
structure SigSent (P : Prims) (v : Version) (minor : Int) (signer nonce : Bytes) (plan : List (Bytes × Bool))
    (h : SigHeader) (hb : Bytes) (blks : List SigBlock) : Prop where
  hdr : h = Sign.header ⟨v.major, minor⟩ (P.sigPub signer) mtAttached nonce
  blocks : Sign.blockStructs P v signer (P.hash hb) plan 0 = .ok blks

theorem sigSent_of_attachedPacketsPlan (P : Prims) (v : Version) (minor : Int) (signer nonce : Bytes)
    (plan : List (Bytes × Bool)) (h : SigHeader) (hb : Bytes) (blks : List SigBlock)
    (hs : Sign.attachedPacketsPlan P v minor signer nonce plan = .ok (h, hb, blks)) :
    SigSent P v minor signer nonce plan h hb blks := by
  obtain ⟨hh, _, hblk⟩ := PlanL.attachedPacketsPlan_inv P v minor signer nonce plan h hb blks hs
  exact ⟨hh, hblk⟩

theorem sign_roundtrip_gen (P : Prims) (hP : P.Lawful)
    (v : Version) (hv : v = v1 ∨ v = v2) (minor : Int) (signer nonce : Bytes)
    (plan : List (Bytes × Bool)) (hfin : PlanL.FinalLast plan)
    (he1 : v = v1 → ∀ p ∈ plan, (p.1 = [] ↔ p.2 = true)) (he2 : v = v2 → PlanL.EmptySole plan)
    (kr : Keyring) (hk : kr.lookupSigningPublicKey (P.sigPub signer) = some (P.sigPub signer))
    (h : SigHeader) (hb : Bytes) (blks : List SigBlock)
    (hs : SigSent P v minor signer nonce plan h hb blks) :
    Sign.verifyAll P knownMajor kr (.ok hb h) ⟨blks.map some, .eof⟩ =
      .ok (P.sigPub signer, (plan.map (·.1)).flatten) := by
  obtain ⟨hh, hblk⟩ := hs
  have hval := PlanL.sign_validate_ok_minor v hv minor (P.sigPub signer) nonce
  have hmaj : (v.major != 1 && v.major != 2) = false := by rcases hv with rfl | rfl <;> decide
  have hrun := PlanL.sign_run_plan P hP v hv minor signer (P.hash hb) plan hfin he1 he2 blks hblk
  subst hh
  unfold Sign.verifyAll Sign.verifyStream
  simp only [hval]
  simp only [Sign.header, hk, hmaj, hrun]
  rfl

/-- **Detached signature, any minor version, any header bytes**: the signature
    over `hash(hash(header bytes) ‖ message)` verifies, whatever bytes carried
    the header and whatever its minor version -/
theorem detached_roundtrip_gen (P : Prims) (hP : P.Lawful)
    (v : Version) (hv : v = v1 ∨ v = v2) (minor : Int) (signer nonce msg hb : Bytes)
    (kr : Keyring) (hk : kr.lookupSigningPublicKey (P.sigPub signer) = some (P.sigPub signer)) :
    Sign.verifyDetached P knownMajor kr
        (.ok hb (Sign.header ⟨v.major, minor⟩ (P.sigPub signer) mtDetached nonce))
        (.sig (P.sign signer (detachedSignatureInput P (P.hash hb) msg))) msg = .ok (P.sigPub signer) := by
  have hkm : knownMajor ⟨v.major, minor⟩ = true := by rcases hv with rfl | rfl <;> rfl
  have hval : Sign.validate knownMajor (Sign.header ⟨v.major, minor⟩ (P.sigPub signer) mtDetached nonce) mtDetached
      = .ok () := by
    simp [Sign.validate, Sign.header, hkm]
  unfold Sign.verifyDetached
  simp only [hval]
  simp only [Sign.header, hk, hP.verify_sign, if_true]

end Saltpack.Proofs
