/-
  Encryption round trip at packet level (behind Props/C01): what the sender
  model produces is opened by the receiver model, for every recipient position,
  to exactly the plaintext, with the true sender / anonymous flag, the
  recipient's key and its hidden flag; a keyring without any recipient key gets
  `noDecryptionKey`.
-/
import Saltpack.Model.Encrypt
import Saltpack.Model.Decrypt
import Saltpack.Proofs.ChunkPlan
import Saltpack.Proofs.Receiver

namespace Saltpack.Proofs
open Saltpack Saltpack.Encrypt

/-- the canonical keyring of someone who holds exactly the box secret keys
    `sks` (in that order) and answers every lookup faithfully, the way
    `basic.Keyring` does -/
def faithfulKeyring (P : Prims) (sks : List Bytes) : Keyring where
  lookupBoxSecretKey kids :=
    match (kids.zipIdx.filterMap (fun (k, i) => (sks.find? (fun s => P.boxPub s == k)).map (fun s => (i, s)))).head? with
    | some (i, s) => ((i : Int), some s)
    | none => (-1, none)
  lookupBoxPublicKey k := some k
  getAllBoxSecretKeys := sks
  importBoxEphemeralKey k := some k
  lookupSigningPublicKey k := some k

/-- authenticated encryption, as far as the round trip needs it: the opener's
    key does not open the payload-key boxes of the *hidden* recipients that
    precede it in the header (satisfiable: true of the toy primitives; for NaCl
    it is the standing assumption on `box`).  Stated on the sender's data. -/
def NoSpuriousOpen (P : Prims) (v : Version) (eph payloadKey : Bytes) (rs : List Recipient) (i : Nat) (sk : Bytes) : Prop :=
  ∀ j, j < i → (rs.getD j default).hidden = true → ∀ n, Nonce.payloadKeyBox v j = .ok n →
    P.unbox sk (P.boxPub eph) n (P.box eph (rs.getD j default).pub n payloadKey) = none

/-- **C01 round trip, packet level.** -/
theorem enc_roundtrip (P : Prims) (hP : P.Lawful) (bs : Nat) (hbs : 0 < bs)
    (v : Version) (hv : v = v1 ∨ v = v2)
    (sender : Option Bytes) (rs : List Recipient) (eph payloadKey pt : Bytes)
    (hpk : payloadKey.length = 32)
    (hnamed : ∀ s, sender = some s → P.boxPub s ≠ P.boxPub eph)
    (hblocks : (chunkPlan v bs pt).length < 2 ^ 64 - 1)
    (i : Nat) (hi : i < rs.length) (sk : Bytes) (hsk : (rs.getD i default).pub = P.boxPub sk)
    (hns : NoSpuriousOpen P v eph payloadKey rs i sk)
    (h : EncHeader) (hb : Bytes) (blks : List EncBlock)
    (hseal : sealPackets P bs v sender rs eph payloadKey pt = .ok (h, hb, blks)) :
    Decrypt.openAll P knownMajor (faithfulKeyring P [sk]) (.ok hb h) ⟨blks.map some, .eof⟩ =
      .ok ({ senderKey := P.boxPub (sender.getD eph), senderIsAnon := sender.isNone,
             receiverKey := sk, receiverIsAnon := (rs.getD i default).hidden,
             namedReceivers := (rs.filter (fun r => !r.hidden)).map (·.pub),
             numAnonReceivers := if (rs.getD i default).hidden then (rs.filter (·.hidden)).length else 0 }, pt) := by
  sorry

/-- a keyring that holds none of the recipient keys, and whose keys open none of
    the boxes, gets `noDecryptionKey` and no plaintext -/
theorem enc_no_key (P : Prims) (hP : P.Lawful) (bs : Nat)
    (v : Version) (hv : v = v1 ∨ v = v2)
    (sender : Option Bytes) (rs : List Recipient) (eph payloadKey pt : Bytes)
    (sks : List Bytes)
    (hnone : ∀ s ∈ sks, ∀ r ∈ rs, r.pub ≠ P.boxPub s)
    (hopen : ∀ s ∈ sks, ∀ j, j < rs.length → ∀ n, Nonce.payloadKeyBox v j = .ok n →
        P.unbox s (P.boxPub eph) n (P.box eph (rs.getD j default).pub n payloadKey) = none)
    (h : EncHeader) (hb : Bytes) (blks : List EncBlock)
    (hseal : sealPackets P bs v sender rs eph payloadKey pt = .ok (h, hb, blks)) :
    Decrypt.openAll P knownMajor (faithfulKeyring P sks) (.ok hb h) ⟨blks.map some, .eof⟩ =
      .error .noDecryptionKey ∧
    (Decrypt.openStream P knownMajor (faithfulKeyring P sks) (.ok hb h) ⟨blks.map some, .eof⟩).released = [] := by
  sorry

/-- sealing succeeds for every legal input (so the round trip is not vacuous) -/
theorem sealPackets_ok (P : Prims) (bs : Nat) (v : Version) (hv : v = v1 ∨ v = v2)
    (sender : Option Bytes) (rs : List Recipient) (eph payloadKey pt : Bytes)
    (hrs : rs ≠ []) (hn : rs.length ≤ 4294967295) (hd : (rs.map (·.pub)).Nodup)
    (hblocks : (chunkPlan v bs pt).length < 2 ^ 64 - 1) :
    ∃ h hb blks, sealPackets P bs v sender rs eph payloadKey pt = .ok (h, hb, blks) ∧
      blks.length = (chunkPlan v bs pt).length ∧ h.receivers.length = rs.length := by
  sorry

end Saltpack.Proofs
