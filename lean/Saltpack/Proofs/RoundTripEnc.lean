/-
  Encryption round trip at packet level (behind Props/C01): what the sender
  model produces is opened by the receiver model, for every recipient position,
  to exactly the plaintext, with the true sender / anonymous flag, the
  recipient's key and its hidden flag; a keyring without any recipient key gets
  `noDecryptionKey`.
-/
import Saltpack.Model.Encrypt
import Saltpack.Model.Decrypt
import Saltpack.Proofs.ChunkPlan
import Saltpack.Proofs.Receiver
import Saltpack.Proofs.EncLemmas

namespace Saltpack.Proofs
open Saltpack Saltpack.Encrypt

/-- the canonical keyring of someone who holds exactly the box secret keys
    `sks` (in that order) and answers every lookup faithfully, the way
    `basic.Keyring` does -/
def faithfulKeyring (P : Prims) (sks : List Bytes) : Keyring where
  lookupBoxSecretKey kids :=
    match (kids.zipIdx.filterMap (fun (k, i) => (sks.find? (fun s => P.boxPub s == k)).map (fun s => (i, s)))).head? with
    | some (i, s) => ((i : Int), some s)
    | none => (-1, none)
  lookupBoxPublicKey k := some k
  getAllBoxSecretKeys := sks
  importBoxEphemeralKey k := some k
  lookupSigningPublicKey k := some k

/-- authenticated encryption, as far as the round trip needs it: the opener's
    key does not open the payload-key boxes of the *hidden* recipients that
    precede it in the header.  Not a consequence of `Prims.Lawful`; satisfiable:
    for the toy primitives it holds exactly when the opener's key differs from
    those recipients' keys within the first 16 bytes (and fails otherwise — both
    shown by `example`s in Props/C01.lean); for NaCl it is the standing
    assumption on `box`.  Stated on the sender's data.  The form for a keyring
    with several keys is `RingNoSpuriousOpen` (Proofs/RingEnc.lean). -/
def NoSpuriousOpen (P : Prims) (v : Version) (eph payloadKey : Bytes) (rs : List Recipient) (i : Nat) (sk : Bytes) : Prop :=
  ∀ j, j < i → (rs.getD j default).hidden = true → ∀ n, Nonce.payloadKeyBox v j = .ok n →
    P.unbox sk (P.boxPub eph) n (P.box eph (rs.getD j default).pub n payloadKey) = none

/-! ### the faithful keyring -/

@[simp] theorem fk_import (P : Prims) (sks : List Bytes) (k : Bytes) :
    (faithfulKeyring P sks).importBoxEphemeralKey k = some k := rfl
@[simp] theorem fk_lookupPub (P : Prims) (sks : List Bytes) (k : Bytes) :
    (faithfulKeyring P sks).lookupBoxPublicKey k = some k := rfl
@[simp] theorem fk_all (P : Prims) (sks : List Bytes) :
    (faithfulKeyring P sks).getAllBoxSecretKeys = sks := rfl

/-- the candidate list the faithful lookup takes the head of -/
def lookupList (P : Prims) (sks kids : List Bytes) (o : Nat) : List (Int × Bytes) :=
  (kids.zipIdx o).filterMap (fun x =>
    (sks.find? (fun s => P.boxPub s == x.1)).map (fun s => ((x.2 : Int), s)))

theorem fk_lookup (P : Prims) (sks kids : List Bytes) :
    (faithfulKeyring P sks).lookupBoxSecretKey kids =
      match (lookupList P sks kids 0).head? with
      | some (i, s) => (i, some s)
      | none => (-1, none) := rfl

/-- none of the key ids belongs to a key of the ring: the lookup finds nothing -/
theorem lookup_none (P : Prims) (sks : List Bytes) (kids : List Bytes)
    (h : ∀ s ∈ sks, ∀ k ∈ kids, k ≠ P.boxPub s) :
    (faithfulKeyring P sks).lookupBoxSecretKey kids = (-1, none) := by
  have hnil : lookupList P sks kids 0 = [] := by
    unfold lookupList
    rw [List.filterMap_eq_nil_iff]
    rintro ⟨k, i⟩ hq
    have hk : k ∈ kids := List.mem_of_getElem? (List.mem_zipIdx_iff_getElem?.1 hq)
    have : sks.find? (fun s => P.boxPub s == k) = none := by
      rw [List.find?_eq_none]
      intro s hs hbeq
      exact h s hs k hk (beq_iff_eq.1 hbeq).symm
    simp [this]
  rw [fk_lookup, hnil]
  rfl

theorem lookup_single_aux (P : Prims) (sk : Bytes) :
    ∀ (kids : List Bytes) (o : Nat), P.boxPub sk ∈ kids →
      ∃ idx, kids[idx]? = some (P.boxPub sk) ∧
        (lookupList P [sk] kids o).head? = some (((o + idx : Nat) : Int), sk) := by
  intro kids
  induction kids with
  | nil => intro o h; simp at h
  | cons k kids ih =>
    intro o hmem
    by_cases hk : P.boxPub sk = k
    · refine ⟨0, by simp [hk], ?_⟩
      simp [lookupList, List.zipIdx_cons, List.find?_cons, hk]
    · have hmem' : P.boxPub sk ∈ kids := by
        rcases List.mem_cons.1 hmem with h | h
        · exact absurd h hk
        · exact h
      obtain ⟨idx, h1, h2⟩ := ih (o + 1) hmem'
      refine ⟨idx + 1, by simpa using h1, ?_⟩
      have hf : (([sk] : List Bytes).find? (fun s => P.boxPub s == k)) = none := by
        simp [hk]
      have : lookupList P [sk] (k :: kids) o = lookupList P [sk] kids (o + 1) := by
        unfold lookupList
        rw [List.zipIdx_cons, List.filterMap_cons]
        simp only [hf, Option.map_none]
      rw [this, h2, show o + 1 + idx = o + (idx + 1) by omega]

/-- the single key's id is among the key ids: the lookup answers a position
    that carries it, and the key -/
theorem lookup_single (P : Prims) (sk : Bytes) (kids : List Bytes) (h : P.boxPub sk ∈ kids) :
    ∃ idx : Nat, kids[idx]? = some (P.boxPub sk) ∧
      (faithfulKeyring P [sk]).lookupBoxSecretKey kids = ((idx : Int), some sk) := by
  obtain ⟨idx, h1, h2⟩ := lookup_single_aux P sk kids 0 h
  refine ⟨idx, h1, ?_⟩
  rw [fk_lookup, h2, Nat.zero_add]

/-! ### what sealing tells us -/

theorem checkReceivers_inv {rs : List Recipient} (h : checkReceivers rs = .ok ()) :
    rs ≠ [] ∧ (rs.map (·.pub)).Nodup := by
  unfold checkReceivers at h
  split at h
  · cases h
  · rename_i hne
    split at h
    · cases h
    · split at h
      · rename_i hd
        exact ⟨by intro h0; subst h0; simp at hne, hd⟩
      · cases h

theorem sealPackets_inv (P : Prims) (bs : Nat) (v : Version) (sender : Option Bytes) (rs : List Recipient)
    (eph pk pt : Bytes) (h : EncHeader) (hb : Bytes) (blks : List EncBlock)
    (hseal : sealPackets P bs v sender rs eph pk pt = .ok (h, hb, blks)) :
    checkReceivers rs = .ok () ∧ header P v sender eph pk rs = .ok h ∧
      ∃ mks, macKeysSender P v (sender.getD eph) eph (P.hash hb) rs 0 = .ok mks ∧
        blockStructs P v pk (P.hash hb) mks (chunkPlan v bs pt) 0 = .ok blks := by
  unfold sealPackets at hseal
  split at hseal
  · cases hseal
  · split at hseal
    · cases hseal
    · rename_i hcr
      split at hseal
      · cases hseal
      · rename_i h' hh
        simp only [] at hseal
        split at hseal
        · cases hseal
        · rename_i mks hm
          split at hseal
          · cases hseal
          · rename_i blks' hbl
            cases hseal
            exact ⟨hcr, hh, mks, hm, hbl⟩

theorem header_spec (P : Prims) {v : Version} (hv : v = v1 ∨ v = v2) (sender : Option Bytes)
    (eph pk : Bytes) (rs : List Recipient) (h : EncHeader)
    (hhdr : header P v sender eph pk rs = .ok h) :
    h.formatName = Gen.c_sp_FormatName ∧ h.version = v ∧ h.typ = mtEncryption ∧
    h.ephemeral = P.boxPub eph ∧
    h.senderSecretbox = P.sbSeal pk Nonce.senderKeySecretBox (P.boxPub (sender.getD eph)) ∧
    h.receivers.length = rs.length ∧
    (∀ j (hj : j < rs.length), ∃ n, Nonce.payloadKeyBox v j = .ok n ∧
      h.receivers[j]? = some ⟨kidSpec rs[j], P.box eph rs[j].pub n pk⟩) ∧
    h.receivers.map (·.kid) = rs.map kidSpec := by
  obtain ⟨es, he, hl, hp⟩ := receiverEntries_spec P hv eph pk rs 0
  unfold header at hhdr
  simp only [he] at hhdr
  cases hhdr
  refine ⟨rfl, rfl, rfl, rfl, rfl, hl, ?_, ?_⟩
  · intro j hj
    obtain ⟨n, hn, hj'⟩ := hp j hj
    exact ⟨n, by simpa using hn, hj'⟩
  · apply List.ext_getElem?
    intro j
    by_cases hj : j < rs.length
    · obtain ⟨n, _, hj'⟩ := hp j hj
      simp only [List.getElem?_map]
      rw [hj', List.getElem?_eq_getElem hj]
      rfl
    · simp only [List.getElem?_map]
      rw [List.getElem?_eq_none (by omega), List.getElem?_eq_none (by omega)]
      rfl

theorem unbox_box (P : Prims) (hP : P.Lawful) (sk eph n m : Bytes) :
    P.unbox sk (P.boxPub eph) n (P.box eph (P.boxPub sk) n m) = some m := by
  simp only [Prims.unbox, Prims.box, hP.dh_comm eph sk, hP.sb_open_seal]

theorem validate_ok (v : Version) (hv : v = v1 ∨ v = v2) (h : EncHeader)
    (h1 : h.formatName = Gen.c_sp_FormatName) (h2 : h.version = v) (h3 : h.typ = mtEncryption) :
    Decrypt.validate knownMajor h = .ok () := by
  simp [Decrypt.validate, h1, h2, h3, knownMajor_of hv]

/-! ### finding the recipient's entry -/

theorem kidSpec_visible {r : Recipient} {k : Bytes} (h : kidSpec r = some k) :
    r.hidden = false ∧ r.pub = k := by
  unfold kidSpec at h
  cases hh : r.hidden with
  | true => simp [hh] at h
  | false => simpa [hh] using h

/-- visible recipient: the lookup over the named key ids finds position `i` -/
theorem tryVisible_hit (P : Prims) (hP : P.Lawful) {v : Version} (hv : v = v1 ∨ v = v2)
    (sender : Option Bytes) (rs : List Recipient) (eph pk : Bytes) (hpk : pk.length = 32)
    (hpub : ∀ r ∈ rs, r.hidden = false → r.pub ≠ [])
    (hnd : (rs.map (·.pub)).Nodup)
    (i : Nat) (hi : i < rs.length) (sk : Bytes) (hsk : rs[i].pub = P.boxPub sk)
    (h : EncHeader) (hhdr : header P v sender eph pk rs = .ok h)
    (hhid : rs[i].hidden = false) :
    ∃ log, Decrypt.tryVisible P (faithfulKeyring P [sk]) h (P.boxPub eph) =
      (log, .ok (some (sk, pk, i))) := by
  obtain ⟨_, h2, _, _, _, h6, h7, _⟩ := header_spec P hv sender eph pk rs h hhdr
  obtain ⟨n, hn, hei⟩ := h7 i hi
  have hvis_i : i ∈ Decrypt.visibleIndices h.receivers :=
    mem_visibleIndices.2 ⟨_, rs[i].pub, hei, by simp [kidSpec, hhid], hpub rs[i] (List.getElem_mem hi) hhid⟩
  have hkid_i : Decrypt.kidOf (h.receivers.getD i default) = rs[i].pub := by
    simp [List.getD_eq_getElem?_getD, hei, Decrypt.kidOf, kidSpec, hhid]
  have hmem : P.boxPub sk ∈ (Decrypt.visibleIndices h.receivers).map
      (fun i => Decrypt.kidOf (h.receivers.getD i default)) := by
    rw [← hsk]
    exact List.mem_map.2 ⟨i, hvis_i, hkid_i⟩
  obtain ⟨idx, hidx, hlook⟩ := lookup_single P sk _ hmem
  rw [List.getElem?_map, Option.map_eq_some_iff] at hidx
  obtain ⟨orig, horig, hg⟩ := hidx
  obtain ⟨e', k', he', hk', hne'⟩ := mem_visibleIndices.1 (List.mem_of_getElem? horig)
  have horig_lt : orig < rs.length := by
    rw [← h6]
    exact (List.getElem?_eq_some_iff.1 he').1
  obtain ⟨n', _, heo⟩ := h7 orig horig_lt
  rw [he'] at heo
  cases heo
  obtain ⟨_, hko⟩ := kidSpec_visible hk'
  have hpe : rs[orig].pub = rs[i].pub := by
    simp only [List.getD_eq_getElem?_getD, he', Option.getD_some, Decrypt.kidOf, hk'] at hg
    rw [hko, hg, hsk]
  have hoi : orig = i := by
    apply (List.getElem?_inj (by simpa using horig_lt) hnd).1
    simp [horig_lt, hi, hpe]
  subst hoi
  have hneg : ¬ ((idx : Int) < 0) := by omega
  have htn : (idx : Int).toNat = idx := by omega
  have hbox : (h.receivers.getD orig default).box = P.box eph (P.boxPub sk) n pk := by
    simp [List.getD_eq_getElem?_getD, hei, hsk]
  have hlen : (pk.length != 32) = false := by simp [hpk]
  refine ⟨[KeyCall.unbox sk (P.boxPub eph) n (P.box eph (P.boxPub sk) n pk)], ?_⟩
  simp only [Decrypt.tryVisible, hlook, hneg, htn, horig, h2, hn, hbox, unbox_box P hP, hlen,
    if_false, Bool.false_eq_true]

/-- hidden recipient: the lookup finds nothing, the walk over the hidden entries
    with the single key stops at position `i` -/
theorem tryHidden_hit (P : Prims) (hP : P.Lawful) {v : Version} (hv : v = v1 ∨ v = v2)
    (sender : Option Bytes) (rs : List Recipient) (eph pk : Bytes) (hpk : pk.length = 32)
    (hpub : ∀ r ∈ rs, r.hidden = false → r.pub ≠ [])
    (hnd : (rs.map (·.pub)).Nodup)
    (i : Nat) (hi : i < rs.length) (sk : Bytes) (hsk : rs[i].pub = P.boxPub sk)
    (hns : NoSpuriousOpen P v eph pk rs i sk)
    (h : EncHeader) (hhdr : header P v sender eph pk rs = .ok h)
    (hhid : rs[i].hidden = true) :
    Decrypt.tryVisible P (faithfulKeyring P [sk]) h (P.boxPub eph) = ([], .ok none) ∧
    ∃ log, Decrypt.tryHidden P h (P.boxPub eph) [sk] = (log, .ok (some (sk, pk, i))) := by
  obtain ⟨_, h2, _, _, _, h6, h7, h8⟩ := header_spec P hv sender eph pk rs h hhdr
  constructor
  · have hlook : (faithfulKeyring P [sk]).lookupBoxSecretKey
        ((Decrypt.visibleIndices h.receivers).map (fun i => Decrypt.kidOf (h.receivers.getD i default))) =
        (-1, none) := by
      apply lookup_none
      intro s hs k hk
      have hs' : s = sk := by simpa using hs
      subst hs'
      rw [named_eq, h8] at hk
      simp only [List.mem_map, List.mem_filter] at hk
      obtain ⟨o, ⟨⟨r, hr, rfl⟩, hvis⟩, rfl⟩ := hk
      intro heq
      cases hh : r.hidden with
      | true => simp [kidSpec, hh, visK] at hvis
      | false =>
        have hrp : r.pub = rs[i].pub := by
          rw [hsk, ← heq]
          simp [kidSpec, hh]
        obtain ⟨j, hj, hrj⟩ := List.getElem_of_mem hr
        have hji : j = i := by
          apply (List.getElem?_inj (by simpa using hj) hnd).1
          simp [hj, hi, hrj, hrp]
        subst hji
        rw [hrj] at hhid
        rw [hhid] at hh
        cases hh
    simp only [Decrypt.tryVisible, hlook]
  · have hil : i < h.receivers.zipIdx.length := by simp [h6, hi]
    obtain ⟨log, hlog⟩ := tryHiddenOne_hit P v sk (P.boxPub eph) pk hpk h.receivers.zipIdx i hil
      (by
        intro j hj hjh
        have hjl : j < rs.length := by omega
        obtain ⟨n, hn, hej⟩ := h7 j hjl
        have hejl : j < h.receivers.length := by omega
        have hget : h.receivers[j] = ⟨kidSpec rs[j], P.box eph rs[j].pub n pk⟩ := by
          have := List.getElem?_eq_getElem hejl
          rw [hej] at this
          exact (Option.some.inj this).symm
        simp only [List.getElem_zipIdx, Nat.zero_add, hget] at hjh ⊢
        have hjhid : rs[j].hidden = true := by
          cases hh : rs[j].hidden with
          | true => rfl
          | false =>
            have := hpub rs[j] (List.getElem_mem hjl) hh
            simp [Decrypt.isHidden, Decrypt.kidOf, kidSpec, hh, this] at hjh
        refine ⟨n, hn, ?_⟩
        have := hns j hj (by simpa [List.getD_eq_getElem?_getD, hjl] using hjhid) n hn
        simpa [List.getD_eq_getElem?_getD, hjl] using this)
      (by
        obtain ⟨n, hn, hei⟩ := h7 i hi
        have heil : i < h.receivers.length := by omega
        have hget : h.receivers[i] = ⟨kidSpec rs[i], P.box eph rs[i].pub n pk⟩ := by
          have := List.getElem?_eq_getElem heil
          rw [hei] at this
          exact (Option.some.inj this).symm
        simp only [List.getElem_zipIdx, hget]
        simp [Decrypt.isHidden, Decrypt.kidOf, kidSpec, hhid])
      (by
        obtain ⟨n, hn, hei⟩ := h7 i hi
        have heil : i < h.receivers.length := by omega
        have hget : h.receivers[i] = ⟨kidSpec rs[i], P.box eph rs[i].pub n pk⟩ := by
          have := List.getElem?_eq_getElem heil
          rw [hei] at this
          exact (Option.some.inj this).symm
        simp only [List.getElem_zipIdx, Nat.zero_add, hget]
        exact ⟨n, hn, by rw [hsk]; exact unbox_box P hP sk eph n pk⟩)
    simp only [List.getElem_zipIdx, Nat.zero_add] at hlog
    refine ⟨KeyCall.precompute sk (P.boxPub eph) :: log, ?_⟩
    simp only [Decrypt.tryHidden, h2, hlog]

/-! ### the whole header -/

theorem processHeader_roundtrip (P : Prims) (hP : P.Lawful) {v : Version} (hv : v = v1 ∨ v = v2)
    (sender : Option Bytes) (rs : List Recipient) (eph pk : Bytes) (hpk : pk.length = 32)
    (hnamed : ∀ s, sender = some s → P.boxPub s ≠ P.boxPub eph)
    (hpub : ∀ r ∈ rs, r.hidden = false → r.pub ≠ [])
    (hnd : (rs.map (·.pub)).Nodup)
    (i : Nat) (hi : i < rs.length) (sk : Bytes) (hsk : rs[i].pub = P.boxPub sk)
    (hns : NoSpuriousOpen P v eph pk rs i sk)
    (h : EncHeader) (hhdr : header P v sender eph pk rs = .ok h) (hh mk : Bytes)
    (hmk : macKeySender P v i (sender.getD eph) eph rs[i].pub hh = .ok mk) :
    ∃ log, Decrypt.processHeader P knownMajor (faithfulKeyring P [sk]) hh h =
      (log, .ok { version := v, payloadKey := pk, headerHash := hh, macKey := mk, position := i,
                  mki := { senderKey := P.boxPub (sender.getD eph), senderIsAnon := sender.isNone,
                           receiverKey := sk, receiverIsAnon := rs[i].hidden,
                           namedReceivers := (rs.filter (fun r => !r.hidden)).map (·.pub),
                           numAnonReceivers :=
                             if rs[i].hidden then (rs.filter (·.hidden)).length else 0 } }) := by
  obtain ⟨h1, h2, h3, h4, h5, _, _, h8⟩ := header_spec P hv sender eph pk rs h hhdr
  have hval := validate_ok v hv h h1 h2 h3
  have hnamedR : (Decrypt.visibleIndices h.receivers).map
      (fun i => Decrypt.kidOf (h.receivers.getD i default)) =
      (rs.filter (fun r => !r.hidden)).map (·.pub) := by
    rw [named_eq, h8, named_of_spec rs hpub]
  have hcount : (h.receivers.filter Decrypt.isHidden).length = (rs.filter (·.hidden)).length := by
    rw [hiddenCount_eq, h8, hiddenCount_of_spec rs hpub]
  have hsb : P.sbOpen pk Nonce.senderKeySecretBox h.senderSecretbox = some (P.boxPub (sender.getD eph)) := by
    rw [h5, hP.sb_open_seal]
  have hslen : ((P.boxPub (sender.getD eph)).length != 32) = false := by simp [hP.pub_len]
  rw [hsk] at hmk
  obtain ⟨log3, hmac⟩ := macKey_agree P hP hv i (sender.getD eph) eph sk hh mk hmk
  -- the sender's public key as the receiver resolves it
  have hsender : ∀ (anon : Bool), anon = (P.boxPub eph == P.boxPub (sender.getD eph)) →
      anon = sender.isNone ∧
      (if anon = true then some (P.boxPub eph) else some (P.boxPub (sender.getD eph))) =
        some (P.boxPub (sender.getD eph)) := by
    intro anon ha
    cases sender with
    | none => simp at ha; subst ha; simp
    | some s =>
      have := hnamed s rfl
      have hf : (P.boxPub eph == P.boxPub s) = false := by
        simp; exact fun h => this h.symm
      simp [hf] at ha; subst ha; simp
  obtain ⟨hanon, hsp⟩ := hsender _ rfl
  cases hhid : rs[i].hidden with
  | false =>
    obtain ⟨log1, htv⟩ := tryVisible_hit P hP hv sender rs eph pk hpk hpub hnd i hi sk hsk h hhdr hhid
    refine ⟨log1 ++ [] ++ log3, ?_⟩
    simp only [Decrypt.processHeader, hval, fk_import, fk_lookupPub, h4, htv, hsb, hslen, hsp, ← hanon,
      h2, hmac, hnamedR, Bool.false_eq_true, if_false]
  | true =>
    obtain ⟨htv, log2, hth⟩ := tryHidden_hit P hP hv sender rs eph pk hpk hpub hnd i hi sk hsk hns h hhdr hhid
    refine ⟨[] ++ log2 ++ log3, ?_⟩
    simp only [Decrypt.processHeader, hval, fk_import, fk_lookupPub, fk_all, h4, htv, hth, hsb, hslen, hsp,
      ← hanon, h2, hmac, hnamedR, hcount, Bool.false_eq_true, if_false, if_true]

/-! ### the payload packets -/

/-- the packets the sender built are a complete chain for a receiver whose state
    matches, and release the plaintext -/
theorem run_roundtrip (P : Prims) (hP : P.Lawful) (bs : Nat) (hbs : 0 < bs)
    {v : Version} (hv : v = v1 ∨ v = v2) (pt : Bytes)
    (hblocks : (chunkPlan v bs pt).length < 2 ^ 64 - 1)
    (st : Decrypt.State) (hver : st.version = v) (mks : List Bytes)
    (hmk : mks[st.position]? = some st.macKey) (blks : List EncBlock)
    (hbl : blockStructs P v st.payloadKey st.headerHash mks (chunkPlan v bs pt) 0 = .ok blks) :
    Decrypt.run P st (blks.map some) .eof 1 = ⟨pt, none⟩ := by
  obtain ⟨hblen, hbp⟩ := blockStructs_spec P v st.payloadKey st.headerHash mks (chunkPlan v bs pt) 0 blks hbl
  obtain ⟨hpne, hpp⟩ := plan_pointwise hv bs hbs pt
  have hbne : blks ≠ [] := by
    intro h0
    rw [h0] at hblen
    exact hpne (List.length_eq_zero_iff.1 hblen.symm)
  -- block `j`, pointwise
  have hblock : ∀ j (hj : j < blks.length) (hjp : j < (chunkPlan v bs pt).length),
      Dec.accept P st blks[j] (j + 1) = some (chunkPlan v bs pt)[j].1 ∧
      Decrypt.blockFinal v blks[j] = (chunkPlan v bs pt)[j].2 := by
    intro j hj hjp
    obtain ⟨b, hbj, hbs'⟩ := hbp j hjp
    rw [Nat.zero_add] at hbs'
    obtain ⟨h1, hck, _⟩ := hpp j hjp
    have hb' : blks[j] = b := by
      have := List.getElem?_eq_getElem hj
      rw [hbj] at this
      exact (Option.some.inj this).symm
    rw [hb']
    exact block_accept P hP st mks hver hmk j _ _ b hbs' h1 hck
  have hchain : Chain (Dec.accept P st) (Decrypt.blockFinal v) 1 blks
      (((chunkPlan v bs pt).map (·.1)).flatten) := by
    apply chain_of_pointwise _ _ blks ((chunkPlan v bs pt).map (·.1)) 1 (by simp [hblen]) hbne
    · intro j hj hj'
      have hjp : j < (chunkPlan v bs pt).length := by omega
      rw [Nat.add_comm 1 j, (hblock j hj hjp).1]
      simp
    · intro j hj
      have hjp : j < (chunkPlan v bs pt).length := by omega
      rw [(hblock j (by omega) hjp).2]
      have := (hpp j hjp).2.2
      cases hf : (chunkPlan v bs pt)[j].2 with
      | false => rfl
      | true => have := this.1 hf; omega
  have hlast : ∃ b, blks.getLast? = some b ∧ Decrypt.blockFinal v b = true := by
    have hpos : 0 < blks.length := List.length_pos_iff.mpr hbne
    have hl : blks.length - 1 < blks.length := by omega
    refine ⟨blks[blks.length - 1], ?_, ?_⟩
    · rw [List.getLast?_eq_getElem?, List.getElem?_eq_getElem hl]
    · have hjp : blks.length - 1 < (chunkPlan v bs pt).length := by omega
      rw [(hblock _ hl hjp).2]
      exact (hpp _ hjp).2.2.2 (by omega)
  rw [Dec.run_eq, hver]
  rw [Dec.accept_eq] at hchain
  rw [grun_of_chain (Dec.step P st) (Decrypt.blockFinal v) 1 blks _ hchain hlast, chunkPlan_flatten]

/-- **C01 round trip, packet level.**

    `hpub` (added when the statement was proved): a *visible* recipient's key id
    is not the empty string.  The receiver treats an empty key id like a nil one
    (`visibleIndices` / `isHidden` test `isEmpty`), so a visible recipient with
    an empty public key would be reported among the anonymous receivers, not the
    named ones.  Real box public keys are 32 bytes long. -/
theorem enc_roundtrip (P : Prims) (hP : P.Lawful) (bs : Nat) (hbs : 0 < bs)
    (v : Version) (hv : v = v1 ∨ v = v2)
    (sender : Option Bytes) (rs : List Recipient) (eph payloadKey pt : Bytes)
    (hpk : payloadKey.length = 32)
    (hnamed : ∀ s, sender = some s → P.boxPub s ≠ P.boxPub eph)
    (hpub : ∀ r ∈ rs, r.hidden = false → r.pub ≠ [])
    (hblocks : (chunkPlan v bs pt).length < 2 ^ 64 - 1)
    (i : Nat) (hi : i < rs.length) (sk : Bytes) (hsk : (rs.getD i default).pub = P.boxPub sk)
    (hns : NoSpuriousOpen P v eph payloadKey rs i sk)
    (h : EncHeader) (hb : Bytes) (blks : List EncBlock)
    (hseal : sealPackets P bs v sender rs eph payloadKey pt = .ok (h, hb, blks)) :
    Decrypt.openAll P knownMajor (faithfulKeyring P [sk]) (.ok hb h) ⟨blks.map some, .eof⟩ =
      .ok ({ senderKey := P.boxPub (sender.getD eph), senderIsAnon := sender.isNone,
             receiverKey := sk, receiverIsAnon := (rs.getD i default).hidden,
             namedReceivers := (rs.filter (fun r => !r.hidden)).map (·.pub),
             numAnonReceivers := if (rs.getD i default).hidden then (rs.filter (·.hidden)).length else 0 }, pt) := by
  obtain ⟨hcr, hhdr, mks, hm, hbl⟩ := sealPackets_inv P bs v sender rs eph payloadKey pt h hb blks hseal
  obtain ⟨_, hnd⟩ := checkReceivers_inv hcr
  have hgetD : rs.getD i default = rs[i] := by simp [List.getD_eq_getElem?_getD, hi]
  rw [hgetD] at hsk ⊢
  obtain ⟨mks', hm', _, hmp⟩ := macKeysSender_spec P hv (sender.getD eph) eph (P.hash hb) rs 0
  rw [hm] at hm'
  cases hm'
  obtain ⟨mk, hmk, hmki⟩ := hmp i hi
  rw [Nat.zero_add] at hmk
  obtain ⟨log, hph⟩ := processHeader_roundtrip P hP hv sender rs eph payloadKey hpk hnamed hpub hnd i hi sk hsk
    hns h hhdr (P.hash hb) mk hmk
  have hrun := run_roundtrip P hP bs hbs hv pt hblocks
    { version := v, payloadKey := payloadKey, headerHash := P.hash hb, macKey := mk, position := i,
      mki := { senderKey := P.boxPub (sender.getD eph), senderIsAnon := sender.isNone,
               receiverKey := sk, receiverIsAnon := rs[i].hidden,
               namedReceivers := (rs.filter (fun r => !r.hidden)).map (·.pub),
               numAnonReceivers := if rs[i].hidden then (rs.filter (·.hidden)).length else 0 } }
    rfl mks hmki blks hbl
  simp only [Decrypt.openAll, Decrypt.openStream, hph, hrun]

/-- a keyring that holds none of the recipient keys, and whose keys open none of
    the boxes, gets `noDecryptionKey` and no plaintext -/
theorem enc_no_key (P : Prims) (hP : P.Lawful) (bs : Nat)
    (v : Version) (hv : v = v1 ∨ v = v2)
    (sender : Option Bytes) (rs : List Recipient) (eph payloadKey pt : Bytes)
    (sks : List Bytes)
    (hnone : ∀ s ∈ sks, ∀ r ∈ rs, r.pub ≠ P.boxPub s)
    (hopen : ∀ s ∈ sks, ∀ j, j < rs.length → ∀ n, Nonce.payloadKeyBox v j = .ok n →
        P.unbox s (P.boxPub eph) n (P.box eph (rs.getD j default).pub n payloadKey) = none)
    (h : EncHeader) (hb : Bytes) (blks : List EncBlock)
    (hseal : sealPackets P bs v sender rs eph payloadKey pt = .ok (h, hb, blks)) :
    Decrypt.openAll P knownMajor (faithfulKeyring P sks) (.ok hb h) ⟨blks.map some, .eof⟩ =
      .error .noDecryptionKey ∧
    (Decrypt.openStream P knownMajor (faithfulKeyring P sks) (.ok hb h) ⟨blks.map some, .eof⟩).released = [] := by
  have _ := hP
  obtain ⟨_, hhdr, _, _, _⟩ := sealPackets_inv P bs v sender rs eph payloadKey pt h hb blks hseal
  obtain ⟨h1, h2, h3, h4, _, h6, h7, h8⟩ := header_spec P hv sender eph payloadKey rs h hhdr
  have hval := validate_ok v hv h h1 h2 h3
  have hlook : (faithfulKeyring P sks).lookupBoxSecretKey
      ((Decrypt.visibleIndices h.receivers).map (fun i => Decrypt.kidOf (h.receivers.getD i default))) =
      (-1, none) := by
    apply lookup_none
    intro s hs k hk
    rw [named_eq, h8] at hk
    simp only [List.mem_map, List.mem_filter] at hk
    obtain ⟨o, ⟨⟨r, hr, rfl⟩, hvis⟩, rfl⟩ := hk
    unfold kidSpec at hvis ⊢
    cases hh : r.hidden with
    | true => simp [hh, visK] at hvis
    | false => simpa [hh] using hnone s hs r hr
  have htv : Decrypt.tryVisible P (faithfulKeyring P sks) h h.ephemeral = ([], .ok none) := by
    simp only [Decrypt.tryVisible, hlook]
  obtain ⟨log, hlog⟩ : ∃ log, Decrypt.tryHidden P h h.ephemeral sks = (log, .ok none) := by
    apply tryHidden_miss
    intro s hs q hq _
    obtain ⟨e, j⟩ := q
    rw [List.mem_zipIdx_iff_getElem?] at hq
    simp only at hq ⊢
    have hj : j < rs.length := by
      rw [← h6]
      exact (List.getElem?_eq_some_iff.1 hq).1
    obtain ⟨n, hn, he⟩ := h7 j hj
    rw [hq] at he
    cases he
    refine ⟨n, by rw [h2]; exact hn, ?_⟩
    rw [h4]
    have := hopen s hs j hj n hn
    simpa [List.getD_eq_getElem?_getD, hj] using this
  have hph : Decrypt.processHeader P knownMajor (faithfulKeyring P sks) (P.hash hb) h =
      ([] ++ log, .error .noDecryptionKey) := by
    simp only [Decrypt.processHeader, hval, fk_import, htv, fk_all, hlog]
  constructor
  · simp only [Decrypt.openAll, Decrypt.openStream, hph]
  · simp only [Decrypt.openStream, hph]

/-- sealing succeeds for every legal input (so the round trip is not vacuous) -/
theorem sealPackets_ok (P : Prims) (bs : Nat) (v : Version) (hv : v = v1 ∨ v = v2)
    (sender : Option Bytes) (rs : List Recipient) (eph payloadKey pt : Bytes)
    (hrs : rs ≠ []) (hn : rs.length ≤ 4294967295) (hd : (rs.map (·.pub)).Nodup)
    (hblocks : (chunkPlan v bs pt).length < 2 ^ 64 - 1) :
    ∃ h hb blks, sealPackets P bs v sender rs eph payloadKey pt = .ok (h, hb, blks) ∧
      blks.length = (chunkPlan v bs pt).length ∧ h.receivers.length = rs.length := by
  have hkv := knownVersion_of hv
  have hcr : checkReceivers rs = .ok () := by
    have h1 : rs.isEmpty = false := by
      cases rs with
      | nil => exact absurd rfl hrs
      | cons _ _ => rfl
    have h2 : Gen.c_sp_maxReceiverCount.toNat = 4294967295 := by decide
    have h3 : ¬ (rs.length > 4294967295) := by omega
    simp only [checkReceivers, h1, h2, h3, hd, if_true, if_false, Bool.false_eq_true]
  obtain ⟨h, hh, hlen⟩ : ∃ h, header P v sender eph payloadKey rs = .ok h ∧
      h.receivers.length = rs.length := by
    obtain ⟨es, he, hl, _⟩ := receiverEntries_spec P hv eph payloadKey rs 0
    refine ⟨{ formatName := Gen.c_sp_FormatName, version := v, typ := mtEncryption,
              ephemeral := P.boxPub eph,
              senderSecretbox := P.sbSeal payloadKey Nonce.senderKeySecretBox (P.boxPub (sender.getD eph)),
              receivers := es }, ?_, hl⟩
    simp only [header, he]
  obtain ⟨mks, hm, _, _⟩ := macKeysSender_spec P hv (sender.getD eph) eph
    (P.hash (Msgpack.encode h.toVal)) rs 0
  obtain ⟨blks, hb, hbl⟩ := blockStructs_ok P hv payloadKey
    (P.hash (Msgpack.encode h.toVal)) mks (chunkPlan v bs pt) 0 (by omega)
  refine ⟨h, Msgpack.encode h.toVal, blks, ?_, hbl, hlen⟩
  simp only [sealPackets, hkv, hh, hcr, hm, hb, Bool.not_true, Bool.false_eq_true, if_false]

end Saltpack.Proofs
