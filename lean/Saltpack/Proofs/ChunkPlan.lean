/-
  The chunk plan (`Encrypt.chunkPlan`): what the plaintext bufferers of
  encrypt.go / sign_stream.go / signcrypt_seal.go emit, and the write-split
  independence of the buffering state machine (Stream/Chunker).
-/
import Saltpack.Model.Encrypt
import Saltpack.Proofs.Digits

namespace Saltpack.Proofs
open Saltpack Saltpack.Encrypt

/-- the chunks, concatenated, are the plaintext -/
theorem chunkPlan_flatten (v : Version) (bs : Nat) (pt : Bytes) :
    ((chunkPlan v bs pt).map (·.1)).flatten = pt := by
  sorry

/-- never empty; exactly the last entry is final -/
theorem chunkPlan_final (v : Version) (bs : Nat) (pt : Bytes) :
    ∃ pre c, chunkPlan v bs pt = pre ++ [(c, true)] ∧ ∀ p ∈ pre, p.2 = false := by
  sorry

/-- every chunk is at most one block long -/
theorem chunkPlan_size (v : Version) (bs : Nat) (hb : 0 < bs) (pt : Bytes) :
    ∀ p ∈ chunkPlan v bs pt, p.1.length ≤ bs := by
  sorry

/-- V2: a chunk is empty only if the whole plaintext is (sole, final chunk);
    V1: exactly the final chunk is empty -/
theorem chunkPlan_empty_v2 (bs : Nat) (hb : 0 < bs) (pt : Bytes) :
    (∀ p ∈ chunkPlan v2 bs pt, p.1 = [] → pt = []) ∧ (pt = [] → chunkPlan v2 bs pt = [([], true)]) := by
  sorry

theorem chunkPlan_empty_v1 (bs : Nat) (hb : 0 < bs) (pt : Bytes) :
    ∀ p ∈ chunkPlan v1 bs pt, (p.1 = [] ↔ p.2 = true) := by
  sorry

/-- every non-final chunk is a full block -/
theorem chunkPlan_full (v : Version) (bs : Nat) (hb : 0 < bs) (pt : Bytes) :
    ∀ pre c rest, chunkPlan v bs pt = pre ++ (c, false) :: rest → (v = v1 ∨ v = v2) →
      (rest.length ≥ 2 ∨ v = v2) → c.length = bs := by
  sorry

end Saltpack.Proofs
