/-
  The chunk plan (`Encrypt.chunkPlan`): what the plaintext bufferers of
  encrypt.go / sign_stream.go / signcrypt_seal.go emit, and the write-split
  independence of the buffering state machine (Stream/Chunker).
-/
import Saltpack.Model.Encrypt
import Saltpack.Proofs.Digits

namespace Saltpack.Proofs
open Saltpack Saltpack.Encrypt

/-! ### helper lemmas -/

/-- every piece of `chunks n l` that has a successor is exactly `n` long -/
theorem chunks_nonlast_length {α : Type} (n : Nat) (hn : 0 < n) :
    ∀ (k : Nat) (l : List α), l.length ≤ k → ∀ (pre : List (List α)) (c : List α) (rest : List (List α)),
      chunks n l = pre ++ c :: rest → rest ≠ [] → c.length = n := by
  intro k
  induction k with
  | zero =>
    intro l h pre c rest hc _
    have : l = [] := List.length_eq_zero_iff.mp (by omega)
    subst this
    rw [chunks_nil] at hc
    simp at hc
  | succ k ih =>
    intro l h pre c rest hc hr
    by_cases hl : l = []
    · subst hl
      rw [chunks_nil] at hc
      simp at hc
    · by_cases hs : l.length ≤ n
      · rw [chunks_short n l hl hs] at hc
        have hlen := congrArg List.length hc
        have : 0 < rest.length := List.length_pos_iff.mpr hr
        simp at hlen
        omega
      · rw [chunks_long n hn l (by omega)] at hc
        have hlen : (l.drop n).length = l.length - n := List.length_drop
        cases pre with
        | nil =>
          simp only [List.nil_append, List.cons.injEq] at hc
          rw [← hc.1, List.length_take]
          omega
        | cons p pre' =>
          simp only [List.cons_append, List.cons.injEq] at hc
          exact ih (l.drop n) (by omega) pre' c rest hc.2 hr

/-- a non-empty list is its `dropLast` followed by its `getLast!` -/
theorem dropLast_append_getLast! {α : Type} [Inhabited α] (l : List α) (h : l ≠ []) :
    l.dropLast ++ [l.getLast!] = l := by
  rcases List.eq_nil_or_concat l with h0 | ⟨l', b, rfl⟩
  · exact absurd h0 h
  · simp

/-- the shape of the plan for `v1` -/
theorem chunkPlan_v1 (bs : Nat) (pt : Bytes) :
    chunkPlan v1 bs pt = (chunks bs pt).map (·, false) ++ [([], true)] := by
  simp [chunkPlan]

/-- the shape of the plan for every other version: the chunks with the last one
    flagged, or a sole empty final chunk -/
theorem chunkPlan_not_v1 (v : Version) (hv : v ≠ v1) (bs : Nat) (pt : Bytes) :
    (chunks bs pt = [] ∧ chunkPlan v bs pt = [([], true)]) ∨
    (∃ init last, chunks bs pt = init ++ [last] ∧
      chunkPlan v bs pt = init.map (·, false) ++ [(last, true)]) := by
  unfold chunkPlan
  simp only [if_neg hv]
  rcases List.eq_nil_or_concat (chunks bs pt) with h0 | ⟨init, last, h1⟩
  · left
    simp [h0]
  · right
    refine ⟨init, last, by simpa using h1, ?_⟩
    rw [h1]
    simp

theorem v2_ne_v1 : v2 ≠ v1 := by decide

/-- a non-final entry of `A ++ [(x, true)]` lies in `A` -/
theorem split_before_last {α : Type} (A pre rest : List (α × Bool)) (x c : α)
    (h : A ++ [(x, true)] = pre ++ (c, false) :: rest) :
    ∃ rest', rest = rest' ++ [(x, true)] ∧ A = pre ++ (c, false) :: rest' := by
  rcases List.eq_nil_or_concat rest with h0 | ⟨rest', y, h1⟩
  · subst h0
    have h2 := List.append_inj_right' h (by simp)
    simp at h2
  · rw [List.concat_eq_append] at h1
    subst h1
    have h' : A ++ [(x, true)] = (pre ++ (c, false) :: rest') ++ [y] := by
      rw [h]; simp
    have h2 := List.append_inj' h' (by simp)
    simp only [List.cons.injEq, and_true] at h2
    exact ⟨rest', by rw [h2.2], h2.1⟩

/-! ### the plan -/

/-- the chunks, concatenated, are the plaintext -/
theorem chunkPlan_flatten (v : Version) (bs : Nat) (pt : Bytes) :
    ((chunkPlan v bs pt).map (·.1)).flatten = pt := by
  by_cases hv : v = v1
  · subst hv
    rw [chunkPlan_v1]
    simp [List.map_append, List.map_map, Function.comp_def, chunks_flatten]
  · rcases chunkPlan_not_v1 v hv bs pt with ⟨h0, h1⟩ | ⟨init, last, h0, h1⟩
    · have := chunks_flatten bs pt
      rw [h0] at this
      rw [h1, ← this]
      rfl
    · have := chunks_flatten bs pt
      rw [h0] at this
      rw [h1, ← this]
      simp [List.map_append, List.map_map, Function.comp_def]

/-- never empty; exactly the last entry is final -/
theorem chunkPlan_final (v : Version) (bs : Nat) (pt : Bytes) :
    ∃ pre c, chunkPlan v bs pt = pre ++ [(c, true)] ∧ ∀ p ∈ pre, p.2 = false := by
  by_cases hv : v = v1
  · subst hv
    refine ⟨(chunks bs pt).map (·, false), [], chunkPlan_v1 bs pt, ?_⟩
    intro p hp
    rw [List.mem_map] at hp
    obtain ⟨a, _, rfl⟩ := hp
    rfl
  · rcases chunkPlan_not_v1 v hv bs pt with ⟨_, h1⟩ | ⟨init, last, _, h1⟩
    · exact ⟨[], [], by rw [h1]; rfl, by simp⟩
    · refine ⟨init.map (·, false), last, h1, ?_⟩
      intro p hp
      rw [List.mem_map] at hp
      obtain ⟨a, _, rfl⟩ := hp
      rfl

/-- every chunk is at most one block long -/
theorem chunkPlan_size (v : Version) (bs : Nat) (hb : 0 < bs) (pt : Bytes) :
    ∀ p ∈ chunkPlan v bs pt, p.1.length ≤ bs := by
  have hc := chunks_mem_length bs hb pt.length pt (Nat.le_refl _)
  intro p hp
  by_cases hv : v = v1
  · subst hv
    rw [chunkPlan_v1, List.mem_append] at hp
    rcases hp with hp | hp
    · rw [List.mem_map] at hp
      obtain ⟨a, ha, rfl⟩ := hp
      exact (hc a ha).2
    · simp only [List.mem_singleton] at hp
      subst hp
      simp
  · rcases chunkPlan_not_v1 v hv bs pt with ⟨_, h1⟩ | ⟨init, last, h0, h1⟩
    · rw [h1] at hp
      simp only [List.mem_singleton] at hp
      subst hp
      simp
    · rw [h1, List.mem_append] at hp
      rcases hp with hp | hp
      · rw [List.mem_map] at hp
        obtain ⟨a, ha, rfl⟩ := hp
        exact (hc a (by rw [h0]; simp [ha])).2
      · simp only [List.mem_singleton] at hp
        subst hp
        exact (hc last (by rw [h0]; simp)).2

/-- V2: a chunk is empty only if the whole plaintext is (sole, final chunk);
    V1: exactly the final chunk is empty -/
theorem chunkPlan_empty_v2 (bs : Nat) (hb : 0 < bs) (pt : Bytes) :
    (∀ p ∈ chunkPlan v2 bs pt, p.1 = [] → pt = []) ∧ (pt = [] → chunkPlan v2 bs pt = [([], true)]) := by
  have hc := chunks_mem_length bs hb pt.length pt (Nat.le_refl _)
  constructor
  · intro p hp he
    rcases chunkPlan_not_v1 v2 v2_ne_v1 bs pt with ⟨h0, _⟩ | ⟨init, last, h0, h1⟩
    · have := chunks_flatten bs pt
      rw [h0] at this
      exact this.symm
    · exfalso
      rw [h1, List.mem_append] at hp
      rcases hp with hp | hp
      · rw [List.mem_map] at hp
        obtain ⟨a, ha, rfl⟩ := hp
        have := (hc a (by rw [h0]; simp [ha])).1
        simp only at he
        rw [he] at this
        simp at this
      · simp only [List.mem_singleton] at hp
        subst hp
        have := (hc last (by rw [h0]; simp)).1
        simp only at he
        rw [he] at this
        simp at this
  · intro he
    subst he
    rcases chunkPlan_not_v1 v2 v2_ne_v1 bs [] with ⟨_, h1⟩ | ⟨init, last, h0, _⟩
    · exact h1
    · rw [chunks_nil] at h0
      simp at h0

theorem chunkPlan_empty_v1 (bs : Nat) (hb : 0 < bs) (pt : Bytes) :
    ∀ p ∈ chunkPlan v1 bs pt, (p.1 = [] ↔ p.2 = true) := by
  have hc := chunks_mem_length bs hb pt.length pt (Nat.le_refl _)
  intro p hp
  rw [chunkPlan_v1, List.mem_append] at hp
  rcases hp with hp | hp
  · rw [List.mem_map] at hp
    obtain ⟨a, ha, rfl⟩ := hp
    have := (hc a ha).1
    constructor
    · intro he
      simp only at he
      rw [he] at this
      simp at this
    · intro he
      simp at he
  · simp only [List.mem_singleton] at hp
    subst hp
    simp

/-- every non-final chunk is a full block -/
theorem chunkPlan_full (v : Version) (bs : Nat) (hb : 0 < bs) (pt : Bytes) :
    ∀ pre c rest, chunkPlan v bs pt = pre ++ (c, false) :: rest → (v = v1 ∨ v = v2) →
      (rest.length ≥ 2 ∨ v = v2) → c.length = bs := by
  intro pre c rest h hv hr
  have hnl := chunks_nonlast_length bs hb pt.length pt (Nat.le_refl _)
  by_cases hv1 : v = v1
  · subst hv1
    have hr2 : rest.length ≥ 2 := by
      rcases hr with hr | hr
      · exact hr
      · exact absurd hr.symm v2_ne_v1
    rw [chunkPlan_v1] at h
    obtain ⟨rest', h1, h2⟩ := split_before_last _ _ _ _ _ h
    have hr' : rest' ≠ [] := by
      intro h0
      subst h0
      subst h1
      simp at hr2
    rw [List.map_eq_append_iff] at h2
    obtain ⟨l1, l2, hcs, _, h3⟩ := h2
    rw [List.map_eq_cons_iff] at h3
    obtain ⟨a, l3, hl2, ha, hl3⟩ := h3
    simp only [Prod.mk.injEq, and_true] at ha
    subst ha
    subst hl2
    apply hnl l1 a l3 hcs
    intro h0
    subst h0
    simp at hl3
    exact hr' hl3
  · rcases chunkPlan_not_v1 v hv1 bs pt with ⟨_, h1⟩ | ⟨init, last, h0, h1⟩
    · rw [h1] at h
      have := split_before_last [] pre rest [] c (by simpa using h)
      obtain ⟨rest', _, h2⟩ := this
      simp at h2
    · rw [h1] at h
      obtain ⟨rest', _, h2⟩ := split_before_last _ _ _ _ _ h
      rw [List.map_eq_append_iff] at h2
      obtain ⟨l1, l2, hcs, _, h3⟩ := h2
      rw [List.map_eq_cons_iff] at h3
      obtain ⟨a, l3, hl2, ha, _⟩ := h3
      simp only [Prod.mk.injEq, and_true] at ha
      subst ha
      subst hl2
      subst hcs
      apply hnl l1 a (l3 ++ [last]) (by rw [h0]; simp)
      simp

end Saltpack.Proofs
