/-
  Mode / version separation on the *bytes* of headers (property C17, the
  "transplanting headers" clause).

  A. `headerTag hb`: the (mode, version) pair that the header bytes `hb`
     announce, read from the raw MessagePack object exactly as both typed views
     (`viewEncHeader`, `viewSigHeader`) read it.  Whatever a receiver decodes
     from `hb` carries that tag; whatever an honest sender encodes carries the
     tag of its header structure.
  B. Transplant theorems: a receiver that released anything or accepted did so
     for header bytes that differ from the header bytes of *every* message that
     announces another mode or a version the validator refuses; so the header hash that
     its MAC keys / signature inputs are bound to differs from that message's
     header hash, or the two explicit byte strings are a hash collision.
  C. The signature inputs of the three signing modes never coincide.
  D. Sender labels for detached signatures and signcryption.

  Core Lean only.
-/
import Saltpack.Proofs.NoPanic
import Saltpack.Proofs.Receiver
import Saltpack.Proofs.RoundTripSig
import Saltpack.Proofs.MsgpackRT
import Saltpack.Model.Wire

namespace Saltpack.Proofs
open Saltpack

/-! ## A. the tag every typed view reads -/

/-- the (mode, version) a header object announces: elements 2 and 1 of the
    header array, read exactly as `viewEncHeader` and `viewSigHeader` both read
    them -/
def headerTagVal : Msgpack.Val → Option (Int × Version)
  | .arr (_ :: ver :: ty :: _) =>
    match viewInt ty, viewVersion ver with
    | some t, some v => some (t, v)
    | _, _ => none
  | _ => none

/-- the (mode, version) that header *bytes* announce; independent of the view a
    receiver decodes them with -/
def headerTag (hb : Bytes) : Option (Int × Version) :=
  match Msgpack.parse1 hb with
  | .ok (v, _) => headerTagVal v
  | .error _ => none

theorem viewEncHeader_tag (v : Msgpack.Val) (h : EncHeader) (hv : viewEncHeader v = some h) :
    headerTagVal v = some (h.typ, h.version) := by
  unfold viewEncHeader at hv
  split at hv
  · split at hv
    · rename_i hver hty _ _
      split at hv
      · simp only [Option.some.injEq] at hv
        subst hv
        simp only [headerTagVal, hty, hver]
      · cases hv
    · cases hv
  · cases hv

theorem viewSigHeader_tag (v : Msgpack.Val) (h : SigHeader) (hv : viewSigHeader v = some h) :
    headerTagVal v = some (h.typ, h.version) := by
  unfold viewSigHeader at hv
  split at hv
  · split at hv
    · rename_i hver hty _ _
      simp only [Option.some.injEq] at hv
      subst hv
      simp only [headerTagVal, hty, hver]
    · cases hv
  · cases hv

/-- `decodeFromBytes` through any typed view: what comes back is the bytes that
    went in, and the view accepted the object they parse to -/
theorem decodeHeader_ok {η : Type} (view : Msgpack.Val → Option η) (hb hb' : Bytes) (h : η)
    (hrd : Wire.decodeHeader view hb = .ok (.ok hb' h)) :
    hb' = hb ∧ ∃ v rest, Msgpack.parse1 hb = .ok (v, rest) ∧ view v = some h := by
  unfold Wire.decodeHeader at hrd
  split at hrd
  · injection hrd with hrd
    cases hrd
  · rename_i v rest hp
    split at hrd
    · rename_i h0 hview
      injection hrd with hrd
      injection hrd with h1 h2
      subst h1 h2
      exact ⟨rfl, v, rest, hp, hview⟩
    · split at hrd
      · cases hrd
      · injection hrd with hrd
        cases hrd

/-- what an encryption / signcryption receiver decodes carries the tag of the
    bytes it read -/
theorem decodeHeader_enc_tag (hb hb' : Bytes) (h : EncHeader)
    (hrd : Wire.decodeHeader viewEncHeader hb = .ok (.ok hb' h)) :
    hb' = hb ∧ headerTag hb = some (h.typ, h.version) := by
  obtain ⟨e, v, rest, hp, hv⟩ := decodeHeader_ok viewEncHeader hb hb' h hrd
  refine ⟨e, ?_⟩
  unfold headerTag
  rw [hp]
  exact viewEncHeader_tag v h hv

/-- what a signature receiver (attached or detached) decodes carries the tag of
    the bytes it read -/
theorem decodeHeader_sig_tag (hb hb' : Bytes) (h : SigHeader)
    (hrd : Wire.decodeHeader viewSigHeader hb = .ok (.ok hb' h)) :
    hb' = hb ∧ headerTag hb = some (h.typ, h.version) := by
  obtain ⟨e, v, rest, hp, hv⟩ := decodeHeader_ok viewSigHeader hb hb' h hrd
  refine ⟨e, ?_⟩
  unfold headerTag
  rw [hp]
  exact viewSigHeader_tag v h hv

/-- the header read that `Wire.split` (hence `splitEnc`, `splitSigncrypt`,
    `splitSig`) hands to a receiver is a `decodeHeader` result on the very bytes
    it reports -/
theorem split_header_decoded {η β : Type} (viewH : Msgpack.Val → Option η) (viewB : η → Msgpack.Val → Option β)
    (msg hb : Bytes) (h : η) (ps : PStream β)
    (hs : Wire.split viewH viewB msg = .ok (.ok hb h, ps)) :
    Wire.decodeHeader viewH hb = .ok (.ok hb h) := by
  unfold Wire.split at hs
  split at hs
  · cases hs
  · injection hs with hs
    cases hs
  · rename_i hb0 rest hro
    split at hs
    · cases hs
    · rename_i hb1 h1 hd
      simp only [] at hs
      split at hs
      · cases hs
      · injection hs with hs
        injection hs with ha hb2
        injection ha with ha1 ha2
        subst ha1 ha2
        obtain ⟨e, -⟩ := decodeHeader_ok viewH hb0 _ _ hd
        subst e
        exact hd
    · rename_i hr hnot hd
      injection hs with hs
      injection hs with ha hb2
      subst ha
      exact (hnot hb h rfl).elim

/-- likewise for a detached signature -/
theorem splitDetached_header_decoded (sigMsg hb : Bytes) (h : SigHeader) (sr : Sign.SigRead)
    (hs : Wire.splitDetached sigMsg = .ok (.ok hb h, sr)) :
    Wire.decodeHeader viewSigHeader hb = .ok (.ok hb h) := by
  unfold Wire.splitDetached at hs
  split at hs
  · cases hs
  · injection hs with hs
    cases hs
  · rename_i hb0 rest hro
    split at hs
    · cases hs
    · rename_i hr hd
      have : hr = .ok hb h := by
        split at hs
        · cases hs
        · injection hs with hs
          injection hs with ha _
        · injection hs with hs
          injection hs with ha _
      subst this
      obtain ⟨e, -⟩ := decodeHeader_ok viewSigHeader hb0 hb h hd
      subst e
      exact hd

/-! ### the honest side: encoded headers carry the tag of their structure -/

theorem headerTagVal_enc (h : EncHeader) : headerTagVal h.toVal = some (h.typ, h.version) :=
  viewEncHeader_tag _ h (viewEncHeader_toVal h)

theorem headerTagVal_sig (h : SigHeader) : headerTagVal h.toVal = some (h.typ, h.version) :=
  viewSigHeader_tag _ h (viewSigHeader_toVal h)

theorem headerTag_of_parse (hb : Bytes) (v : Msgpack.Val) (rest : Bytes)
    (hp : Msgpack.parse1 hb = .ok (v, rest)) : headerTag hb = headerTagVal v := by
  unfold headerTag
  rw [hp]

theorem headerTag_encode_enc (h : EncHeader) (hwf : ValWF h.toVal) :
    headerTag (Msgpack.encode h.toVal) = some (h.typ, h.version) := by
  have hp := parse1_encode h.toVal hwf []
  rw [List.append_nil] at hp
  rw [headerTag_of_parse _ _ _ hp]
  exact headerTagVal_enc h

theorem headerTag_encode_sig (h : SigHeader) (hwf : ValWF h.toVal) :
    headerTag (Msgpack.encode h.toVal) = some (h.typ, h.version) := by
  have hp := parse1_encode h.toVal hwf []
  rw [List.append_nil] at hp
  rw [headerTag_of_parse _ _ _ hp]
  exact headerTagVal_sig h

/-- well-formedness of a signature header's value under the obvious bounds
    (the `EncHeader` counterpart is `encHeader_wf`) -/
theorem sigHeader_valWF (h : SigHeader)
    (h1 : h.formatName.length < 2 ^ 32) (h2 : h.senderPublic.length < 2 ^ 32)
    (h3 : h.nonce.length < 2 ^ 32)
    (h6 : -(2 ^ 63 : Int) ≤ h.version.major ∧ h.version.major < 2 ^ 64)
    (h7 : -(2 ^ 63 : Int) ≤ h.version.minor ∧ h.version.minor < 2 ^ 64)
    (h8 : -(2 ^ 63 : Int) ≤ h.typ ∧ h.typ < 2 ^ 64) : ValWF h.toVal := by
  unfold SigHeader.toVal
  apply ValWF.arr _ (by simp)
  intro v hv
  simp only [List.mem_cons, List.not_mem_nil, or_false] at hv
  rcases hv with rfl | rfl | rfl | rfl | rfl
  · exact ValWF.str _ h1
  · unfold Version.toVal
    apply ValWF.arr _ (by simp)
    intro v hv
    simp only [List.mem_cons, List.not_mem_nil, or_false] at hv
    rcases hv with rfl | rfl
    · exact ValWF.int _ h6.1 h6.2
    · exact ValWF.int _ h7.1 h7.2
  · exact ValWF.int _ h8.1 h8.2
  · exact ValWF.bin _ h2
  · exact ValWF.bin _ h3

/-! ## B. transplanting headers

  `hb`, `m`, `ver` describe the header bytes of *any* message whatsoever that
  announces mode `m` and version `ver` (`headerTag hb = some (m, ver)`) — for
  instance an honest message of another mode or version, see section E.
  `hb'`, `h'` are what a receiver read and decoded.  No forgery predicate, no
  assumption on the primitives. -/

/-- two different byte strings have different hashes, or they are an explicit
    collision of `P.hash` -/
theorem ne_hash_or_collision (P : Prims) (a b : Bytes) (hne : a ≠ b) :
    a ≠ b ∧ (P.hash a ≠ P.hash b ∨ (a ≠ b ∧ P.hash a = P.hash b)) := by
  refine ⟨hne, ?_⟩
  by_cases hh : P.hash a = P.hash b
  · exact Or.inr ⟨hne, hh⟩
  · exact Or.inl hh

/-- header bytes that decode (as an encryption-family header) to a mode or
    version other than the one `hb` announces are not `hb` -/
theorem transplant_changes_bytes_enc (hb : Bytes) (m : Int) (ver : Version)
    (hhon : headerTag hb = some (m, ver))
    (hb' : Bytes) (h' : EncHeader)
    (hrd : Wire.decodeHeader viewEncHeader hb' = .ok (.ok hb' h'))
    (hne : (h'.typ, h'.version) ≠ (m, ver)) : hb' ≠ hb := by
  intro e
  subst e
  have ht := (decodeHeader_enc_tag _ _ _ hrd).2
  rw [hhon] at ht
  exact hne (Option.some.inj ht).symm

/-- the same for the signature-family view -/
theorem transplant_changes_bytes_sig (hb : Bytes) (m : Int) (ver : Version)
    (hhon : headerTag hb = some (m, ver))
    (hb' : Bytes) (h' : SigHeader)
    (hrd : Wire.decodeHeader viewSigHeader hb' = .ok (.ok hb' h'))
    (hne : (h'.typ, h'.version) ≠ (m, ver)) : hb' ≠ hb := by
  intro e
  subst e
  have ht := (decodeHeader_sig_tag _ _ _ hrd).2
  rw [hhon] at ht
  exact hne (Option.some.inj ht).symm

/-! ### which hash each receiver binds -/

/-- the decryption state carries exactly the header hash it was started with -/
theorem dec_processHeader_headerHash (P : Prims) (valid : Validator) (kr : Keyring) (hh : Bytes) (h : EncHeader)
    (log : List KeyCall) (st : Decrypt.State)
    (hok : Decrypt.processHeader P valid kr hh h = (log, .ok st)) :
    st.headerHash = hh := by
  unfold Decrypt.processHeader at hok
  simp only [] at hok
  repeat' split at hok
  all_goals (try cases hok)
  all_goals (try rfl)

/-- the signcryption state carries exactly the header hash it was started with -/
theorem sc_processHeader_headerHash (P : Prims) (kr : Keyring) (res : Signcrypt.Resolver) (hh : Bytes)
    (h : EncHeader) (log : List KeyCall) (st : Signcrypt.State)
    (hok : Signcrypt.processHeader P kr res hh h = (log, .ok st)) :
    st.headerHash = hh := by
  unfold Signcrypt.processHeader at hok
  simp only [] at hok
  repeat' split at hok
  all_goals (try cases hok)
  all_goals (try rfl)

/-- a decrypting receiver that released anything or accepted ran its packet
    loop from a state whose header hash is the hash of the header bytes it
    read and whose version is the decoded one; every payload MAC it checked
    (`Decrypt.processBlock` → `payloadHash … s.headerHash …`) and the MAC key
    itself (`macKeyReceiver … headerHash`) start from that hash -/
theorem dec_open_binds_hash (P : Prims) (valid : Validator) (kr : Keyring) (hb : Bytes) (h : EncHeader)
    (ps : PStream EncBlock)
    (hacc : (Decrypt.openStream P valid kr (.ok hb h) ps).released ≠ [] ∨
            (Decrypt.openStream P valid kr (.ok hb h) ps).err = none) :
    ∃ log st, Decrypt.processHeader P valid kr (P.hash hb) h = (log, .ok st) ∧
      st.headerHash = P.hash hb ∧ st.version = h.version ∧
      (Decrypt.openStream P valid kr (.ok hb h) ps).released = (Decrypt.run P st ps.items ps.tail 1).bytes ∧
      (Decrypt.openStream P valid kr (.ok hb h) ps).err = (Decrypt.run P st ps.items ps.tail 1).err := by
  obtain ⟨r, hr⟩ : ∃ r, Decrypt.processHeader P valid kr (P.hash hb) h = r := ⟨_, rfl⟩
  obtain ⟨log, res⟩ := r
  cases res with
  | error e =>
    unfold Decrypt.openStream at hacc
    simp only [hr] at hacc
    simp at hacc
  | ok st =>
    refine ⟨log, st, hr, dec_processHeader_headerHash P valid kr _ h log st hr,
      dec_processHeader_version P valid kr _ h log st hr, ?_, ?_⟩
    · unfold Decrypt.openStream
      simp only [hr]
    · unfold Decrypt.openStream
      simp only [hr]

/-- the same for signcryption: nonces and signature inputs of every packet are
    computed from `st.headerHash = P.hash hb` -/
theorem sc_open_binds_hash (P : Prims) (kr : Keyring) (res : Signcrypt.Resolver) (hb : Bytes) (h : EncHeader)
    (ps : PStream SigncryptBlock)
    (hacc : (Signcrypt.openStream P kr res (.ok hb h) ps).released ≠ [] ∨
            (Signcrypt.openStream P kr res (.ok hb h) ps).err = none) :
    ∃ log st, Signcrypt.processHeader P kr res (P.hash hb) h = (log, .ok st) ∧
      st.headerHash = P.hash hb ∧
      (Signcrypt.openStream P kr res (.ok hb h) ps).released = (Signcrypt.run P st ps.items ps.tail 1).bytes ∧
      (Signcrypt.openStream P kr res (.ok hb h) ps).err = (Signcrypt.run P st ps.items ps.tail 1).err := by
  obtain ⟨r, hr⟩ : ∃ r, Signcrypt.processHeader P kr res (P.hash hb) h = r := ⟨_, rfl⟩
  obtain ⟨log, rs⟩ := r
  cases rs with
  | error e =>
    unfold Signcrypt.openStream at hacc
    simp only [hr] at hacc
    simp at hacc
  | ok st =>
    refine ⟨log, st, hr, sc_processHeader_headerHash P kr res _ h log st hr, ?_, ?_⟩
    · unfold Signcrypt.openStream
      simp only [hr]
    · unfold Signcrypt.openStream
      simp only [hr]

/-- an attached-signature verifier that released anything or accepted ran its
    packet loop from the state `⟨h.version, P.hash hb, pk⟩`: every signature it
    checked is over an input that starts from the hash of the header bytes it
    read, at the decoded version -/
theorem ver_binds_hash (P : Prims) (valid : Validator) (kr : Keyring) (hb : Bytes) (h : SigHeader)
    (ps : PStream SigBlock)
    (hacc : (Sign.verifyStream P valid kr (.ok hb h) ps).released ≠ [] ∨
            (Sign.verifyStream P valid kr (.ok hb h) ps).err = none) :
    ∃ pk, kr.lookupSigningPublicKey h.senderPublic = some pk ∧
      (Sign.verifyStream P valid kr (.ok hb h) ps).signer = some pk ∧
      (Sign.verifyStream P valid kr (.ok hb h) ps).released =
        (Sign.run P ⟨h.version, P.hash hb, pk⟩ ps.items ps.tail 1).bytes ∧
      (Sign.verifyStream P valid kr (.ok hb h) ps).err =
        (Sign.run P ⟨h.version, P.hash hb, pk⟩ ps.items ps.tail 1).err := by
  unfold Sign.verifyStream at hacc ⊢
  simp only [] at hacc ⊢
  split
  · rename_i e heq
    simp only [heq] at hacc
    simp at hacc
  · rename_i heq
    simp only [heq] at hacc
    split
    · rename_i hk
      simp only [hk] at hacc
      simp at hacc
    · rename_i pk hk
      simp only [hk] at hacc
      split
      · rename_i hc
        simp only [hc, if_true] at hacc
        simp at hacc
      · exact ⟨pk, hk, rfl, rfl, rfl⟩

/-! ### one transplant theorem per receiver -/

/-- **Decrypt.** A decrypting receiver that released anything or accepted did so
    for header bytes `hb'` different from the header bytes `hb` of every message
    that announces another mode or a version the validator refuses; the
    header hash all its MAC keys and MAC inputs start from (`dec_open_binds_hash`)
    is therefore not that message's header hash — or `hb'`, `hb` are an explicit
    collision of `P.hash`. -/
theorem decrypt_no_transplant (P : Prims) (valid : Validator) (kr : Keyring)
    (hb : Bytes) (m : Int) (ver : Version) (hhon : headerTag hb = some (m, ver))
    (hb' : Bytes) (h' : EncHeader)
    (hrd : Wire.decodeHeader viewEncHeader hb' = .ok (.ok hb' h'))
    (ps : PStream EncBlock)
    (hacc : (Decrypt.openStream P valid kr (.ok hb' h') ps).released ≠ [] ∨
            (Decrypt.openStream P valid kr (.ok hb' h') ps).err = none)
    (hother : m ≠ mtEncryption ∨ valid ver = false) :
    hb' ≠ hb ∧ (P.hash hb' ≠ P.hash hb ∨ (hb' ≠ hb ∧ P.hash hb' = P.hash hb)) := by
  obtain ⟨_, hv, ht⟩ := enc_gate_released P valid kr hb' h' ps hacc
  apply ne_hash_or_collision
  apply transplant_changes_bytes_enc hb m ver hhon hb' h' hrd
  intro e
  injection e with e1 e2
  rcases hother with ho | ho
  · exact ho (e1.symm.trans ht)
  · rw [← e2, hv] at ho
    cases ho

/-- **Signcryption open.** -/
theorem signcrypt_no_transplant (P : Prims) (kr : Keyring) (res : Signcrypt.Resolver)
    (hb : Bytes) (m : Int) (ver : Version) (hhon : headerTag hb = some (m, ver))
    (hb' : Bytes) (h' : EncHeader)
    (hrd : Wire.decodeHeader viewEncHeader hb' = .ok (.ok hb' h'))
    (ps : PStream SigncryptBlock)
    (hacc : (Signcrypt.openStream P kr res (.ok hb' h') ps).released ≠ [] ∨
            (Signcrypt.openStream P kr res (.ok hb' h') ps).err = none)
    (hother : m ≠ mtSigncryption ∨ ver.major ≠ 2) :
    hb' ≠ hb ∧ (P.hash hb' ≠ P.hash hb ∨ (hb' ≠ hb ∧ P.hash hb' = P.hash hb)) := by
  obtain ⟨_, hv, ht⟩ := sc_gate_released P kr res hb' h' ps hacc
  apply ne_hash_or_collision
  apply transplant_changes_bytes_enc hb m ver hhon hb' h' hrd
  intro e
  injection e with e1 e2
  rcases hother with ho | ho
  · exact ho (e1.symm.trans ht)
  · rw [← e2] at ho
    exact ho hv

/-- **Verify (attached).** -/
theorem verify_no_transplant (P : Prims) (valid : Validator) (kr : Keyring)
    (hb : Bytes) (m : Int) (ver : Version) (hhon : headerTag hb = some (m, ver))
    (hb' : Bytes) (h' : SigHeader)
    (hrd : Wire.decodeHeader viewSigHeader hb' = .ok (.ok hb' h'))
    (ps : PStream SigBlock)
    (hacc : (Sign.verifyStream P valid kr (.ok hb' h') ps).released ≠ [] ∨
            (Sign.verifyStream P valid kr (.ok hb' h') ps).err = none)
    (hother : m ≠ mtAttached ∨ valid ver = false) :
    hb' ≠ hb ∧ (P.hash hb' ≠ P.hash hb ∨ (hb' ≠ hb ∧ P.hash hb' = P.hash hb)) := by
  obtain ⟨_, hv, ht⟩ : h'.formatName = Gen.c_sp_FormatName ∧ valid h'.version = true ∧ h'.typ = mtAttached := by
    rcases hacc with hr | he
    · exact ver_gate_released P valid kr hb' h' ps hr
    · exact ver_gate P valid kr hb' h' ps he
  apply ne_hash_or_collision
  apply transplant_changes_bytes_sig hb m ver hhon hb' h' hrd
  intro e
  injection e with e1 e2
  rcases hother with ho | ho
  · exact ho (e1.symm.trans ht)
  · rw [← e2, hv] at ho
    cases ho

/-- **Verify (detached).**  The accepted signature is over
    `"saltpack detached signature\0" ++ hash (hash hb' ++ msg)` (`detached_sound`). -/
theorem detached_no_transplant (P : Prims) (valid : Validator) (kr : Keyring)
    (hb : Bytes) (m : Int) (ver : Version) (hhon : headerTag hb = some (m, ver))
    (hb' : Bytes) (h' : SigHeader)
    (hrd : Wire.decodeHeader viewSigHeader hb' = .ok (.ok hb' h'))
    (sr : Sign.SigRead) (msg k : Bytes)
    (hacc : Sign.verifyDetached P valid kr (.ok hb' h') sr msg = .ok k)
    (hother : m ≠ mtDetached ∨ valid ver = false) :
    hb' ≠ hb ∧ (P.hash hb' ≠ P.hash hb ∨ (hb' ≠ hb ∧ P.hash hb' = P.hash hb)) := by
  obtain ⟨hb2, h2, sg, hhr, _, _, hv, ht, _⟩ := detached_sound P valid kr _ sr msg k hacc
  injection hhr with e1 e2
  subst e1 e2
  apply ne_hash_or_collision
  apply transplant_changes_bytes_sig hb m ver hhon hb' h' hrd
  intro e
  injection e with e1 e2
  rcases hother with ho | ho
  · exact ho (e1.symm.trans ht)
  · rw [← e2, hv] at ho
    cases ho

/-! ## C. the signature inputs of the three signing modes never coincide -/

theorem append_ne_of_not_prefix (a b x y : Bytes) (h1 : ¬ a <+: b) (h2 : ¬ b <+: a) :
    a ++ x ≠ b ++ y := by
  intro h
  rcases List.append_eq_append_iff.mp h with ⟨t, hb, _⟩ | ⟨t, ha, _⟩
  · exact h1 ⟨t, hb.symm⟩
  · exact h2 ⟨t, ha.symm⟩

theorem sig_inputs_differ (x y : Bytes) :
    Gen.c_sp_signatureAttachedString ++ x ≠ Gen.c_sp_signatureDetachedString ++ y ∧
    Gen.c_sp_signatureAttachedString ++ x ≠ Gen.c_sp_signatureEncryptedString ++ y ∧
    Gen.c_sp_signatureDetachedString ++ x ≠ Gen.c_sp_signatureEncryptedString ++ y := by
  obtain ⟨hl, hne, h1, h2, h3, h4⟩ := domains_separate
  refine ⟨?_, append_ne_of_not_prefix _ _ x y h1 h3, append_ne_of_not_prefix _ _ x y h2 h4⟩
  intro h
  exact hne (List.append_inj h hl).1

/-- in the model's own terms: the byte strings the three signing modes sign or
    verify (`attachedSignatureInput`, `detachedSignatureInput`,
    `signcryptionSignatureInput`) are pairwise different, whatever header hash,
    chunk, sequence number, nonce or version goes into them -/
theorem model_sig_inputs_differ (P : Prims) (v : Version) (hh hh' hh'' chunk msg nonce chunk' : Bytes)
    (seqno : Nat) (f f' : Bool) (a : Bytes)
    (ha : attachedSignatureInput P v hh chunk seqno f = .ok a) :
    a ≠ detachedSignatureInput P hh' msg ∧
    a ≠ signcryptionSignatureInput P hh'' nonce f' chunk' ∧
    detachedSignatureInput P hh' msg ≠ signcryptionSignatureInput P hh'' nonce f' chunk' := by
  have hd : ∃ y, detachedSignatureInput P hh' msg = Gen.c_sp_signatureDetachedString ++ y :=
    ⟨_, rfl⟩
  have he : ∃ y, signcryptionSignatureInput P hh'' nonce f' chunk' = Gen.c_sp_signatureEncryptedString ++ y := by
    refine ⟨hh'' ++ nonce ++ finalByte f' ++ P.hash chunk', ?_⟩
    simp only [signcryptionSignatureInput, List.append_assoc]
  have haa : ∃ x, a = Gen.c_sp_signatureAttachedString ++ x := by
    unfold attachedSignatureInput at ha
    split at ha
    · exact ⟨_, (Except.ok.inj ha).symm⟩
    · split at ha
      · exact ⟨_, (Except.ok.inj ha).symm⟩
      · cases ha
  obtain ⟨x, rfl⟩ := haa
  obtain ⟨y, hy⟩ := hd
  obtain ⟨z, hz⟩ := he
  rw [hy, hz]
  exact ⟨(sig_inputs_differ x y).1, (sig_inputs_differ x z).2.1, (sig_inputs_differ y z).2.2⟩

/-! ## D. sender labels for detached signatures and signcryption -/

/-- whatever `SignDetached` emits is the header packet of the header
    `Sign.header v (sigPub signer) mtDetached nonce` — saltpack format name, the
    requested known version, detached mode — followed by one signature over the
    detached-mode input built from the hash of exactly those header bytes -/
theorem detached_labels (P : Prims) (v : Version) (signer nonce msg out : Bytes)
    (hs : Sign.detachedWith P v signer nonce msg = .ok out) :
    ∃ h : SigHeader, h = Sign.header v (P.sigPub signer) mtDetached nonce ∧
      out = headerPacket (Msgpack.encode h.toVal) ++
            Msgpack.encBin (P.sign signer (detachedSignatureInput P (P.hash (Msgpack.encode h.toVal)) msg)) ∧
      h.formatName = Gen.c_sp_FormatName ∧ h.version = v ∧ (v = v1 ∨ v = v2) ∧ h.typ = mtDetached := by
  unfold Sign.detachedWith at hs
  split at hs
  · cases hs
  · rename_i hk
    have hk' : knownVersion v = true := by
      cases hkv : knownVersion v with
      | true => rfl
      | false => simp [hkv] at hk
    simp only [Except.ok.injEq] at hs
    exact ⟨_, rfl, hs.symm, rfl, rfl, (knownVersion_iff v).1 hk', rfl⟩

/-- a signcryption sender that succeeds labels the message "saltpack", version
    2.0, signcryption mode, and its header bytes are the encoding of that header -/
theorem signcrypt_labels (P : Prims) (bs : Nat) (sender : Option Bytes) (rs : List Signcrypt.Recipient)
    (eph pk pt : Bytes) (h : EncHeader) (hb : Bytes) (blks : List SigncryptBlock)
    (hs : Signcrypt.sealPackets P bs sender rs eph pk pt = .ok (h, hb, blks)) :
    h.formatName = Gen.c_sp_FormatName ∧ h.version = v2 ∧ h.typ = mtSigncryption ∧
    hb = Msgpack.encode h.toVal := by
  unfold Signcrypt.sealPackets at hs
  simp only [] at hs
  repeat' split at hs
  all_goals (try cases hs)
  exact ⟨rfl, rfl, rfl, rfl⟩

/-! ## E. honest header bytes carry the tag of their mode and version

  These discharge the hypothesis `headerTag hb = some (m, ver)` of section B for
  the messages the model's senders produce (`ValWF`: the lengths and integers in
  the header fit MessagePack's 32-bit lengths / 64-bit integers; `encHeader_wf`
  and `sigHeader_valWF` give it from length bounds). -/

theorem seal_header_tag (P : Prims) (bs : Nat) (v : Version) (sender : Option Bytes) (rs : List Encrypt.Recipient)
    (eph pk pt : Bytes) (h : EncHeader) (hb : Bytes) (blks : List EncBlock)
    (hs : Encrypt.sealPackets P bs v sender rs eph pk pt = .ok (h, hb, blks))
    (hwf : ValWF h.toVal) :
    headerTag hb = some (mtEncryption, v) := by
  obtain ⟨_, hv, _, ht⟩ := seal_labels P bs v sender rs eph pk pt h hb blks hs
  have hhb : hb = Msgpack.encode h.toVal := by
    unfold Encrypt.sealPackets at hs
    simp only [] at hs
    repeat' split at hs
    all_goals (try cases hs)
    rfl
  rw [hhb, headerTag_encode_enc h hwf, hv, ht]

theorem signcrypt_header_tag (P : Prims) (bs : Nat) (sender : Option Bytes) (rs : List Signcrypt.Recipient)
    (eph pk pt : Bytes) (h : EncHeader) (hb : Bytes) (blks : List SigncryptBlock)
    (hs : Signcrypt.sealPackets P bs sender rs eph pk pt = .ok (h, hb, blks))
    (hwf : ValWF h.toVal) :
    headerTag hb = some (mtSigncryption, v2) := by
  obtain ⟨_, hv, ht, hhb⟩ := signcrypt_labels P bs sender rs eph pk pt h hb blks hs
  rw [hhb, headerTag_encode_enc h hwf, hv, ht]

theorem sign_header_tag (P : Prims) (bs : Nat) (v : Version) (signer nonce msg : Bytes)
    (h : SigHeader) (hb : Bytes) (blks : List SigBlock)
    (hs : Sign.attachedPackets P bs v signer nonce msg = .ok (h, hb, blks))
    (hwf : ValWF h.toVal) :
    headerTag hb = some (mtAttached, v) := by
  obtain ⟨_, hv, _, ht⟩ := sign_labels P bs v signer nonce msg h hb blks hs
  have hhb : hb = Msgpack.encode h.toVal := by
    unfold Sign.attachedPackets at hs
    simp only [] at hs
    repeat' split at hs
    all_goals (try cases hs)
    rfl
  rw [hhb, headerTag_encode_sig h hwf, hv, ht]

/-- the header of a detached signature is well-formed outright when the nonce
    and the public key have sane lengths, so no `ValWF` hypothesis is needed
    beyond those -/
theorem detached_header_tag (P : Prims) (v : Version) (signer nonce msg out : Bytes)
    (hs : Sign.detachedWith P v signer nonce msg = .ok out)
    (hpk : (P.sigPub signer).length < 2 ^ 32) (hn : nonce.length < 2 ^ 32) :
    ∃ hb rest, out = headerPacket hb ++ rest ∧ headerTag hb = some (mtDetached, v) := by
  obtain ⟨h, hh, hout, _, hv, hk, ht⟩ := detached_labels P v signer nonce msg out hs
  refine ⟨Msgpack.encode h.toVal, _, hout, ?_⟩
  have hwf : ValWF h.toVal := by
    subst hh
    apply sigHeader_valWF
    · simp only [Sign.header]; decide
    · exact hpk
    · exact hn
    · rcases hk with rfl | rfl <;> (simp only [Sign.header]; decide)
    · rcases hk with rfl | rfl <;> (simp only [Sign.header]; decide)
    · simp only [Sign.header]; decide
  rw [headerTag_encode_sig h hwf, hv, ht]

/-! ### assembled: honest messages against the receivers of the other modes -/

/-- the header of an honestly sealed *encryption* message cannot serve a
    signcryption receiver, an attached-signature verifier or a detached-signature
    verifier: whatever header bytes those accepted are different bytes -/
theorem sealed_header_serves_no_other_mode (P : Prims) (bs : Nat) (v : Version) (sender : Option Bytes)
    (rs : List Encrypt.Recipient) (eph pk pt : Bytes) (h : EncHeader) (hb : Bytes) (blks : List EncBlock)
    (hs : Encrypt.sealPackets P bs v sender rs eph pk pt = .ok (h, hb, blks))
    (hwf : ValWF h.toVal) (valid : Validator) (kr : Keyring) :
    (∀ res hb' h' ps, Wire.decodeHeader viewEncHeader hb' = .ok (.ok hb' h') →
        ((Signcrypt.openStream P kr res (.ok hb' h') ps).released ≠ [] ∨
         (Signcrypt.openStream P kr res (.ok hb' h') ps).err = none) → hb' ≠ hb) ∧
    (∀ hb' h' ps, Wire.decodeHeader viewSigHeader hb' = .ok (.ok hb' h') →
        ((Sign.verifyStream P valid kr (.ok hb' h') ps).released ≠ [] ∨
         (Sign.verifyStream P valid kr (.ok hb' h') ps).err = none) → hb' ≠ hb) ∧
    (∀ hb' h' sr msg k, Wire.decodeHeader viewSigHeader hb' = .ok (.ok hb' h') →
        Sign.verifyDetached P valid kr (.ok hb' h') sr msg = .ok k → hb' ≠ hb) := by
  have htag := seal_header_tag P bs v sender rs eph pk pt h hb blks hs hwf
  obtain ⟨_, _, hd3, _, _, _⟩ := modes_distinct
  obtain ⟨hd1, hd2, _⟩ := modes_distinct
  refine ⟨?_, ?_, ?_⟩
  · intro res hb' h' ps hrd hacc
    exact (signcrypt_no_transplant P kr res hb _ _ htag hb' h' hrd ps hacc (Or.inl hd3)).1
  · intro hb' h' ps hrd hacc
    exact (verify_no_transplant P valid kr hb _ _ htag hb' h' hrd ps hacc (Or.inl hd1)).1
  · intro hb' h' sr msg k hrd hacc
    exact (detached_no_transplant P valid kr hb _ _ htag hb' h' hrd sr msg k hacc (Or.inl hd2)).1

/-- version: a receiver that processed a message as version `w` read header
    bytes that announce `w`; the header bytes of a message that announces
    another version are different bytes (so a 2.0 message cannot be opened as
    1.0 or vice versa by keeping its header) -/
theorem decrypt_version_bound (P : Prims) (valid : Validator) (kr : Keyring)
    (hb : Bytes) (m : Int) (ver : Version) (hhon : headerTag hb = some (m, ver))
    (hb' : Bytes) (h' : EncHeader)
    (hrd : Wire.decodeHeader viewEncHeader hb' = .ok (.ok hb' h'))
    (log : List KeyCall) (st : Decrypt.State)
    (hok : Decrypt.processHeader P valid kr (P.hash hb') h' = (log, .ok st))
    (hver : st.version ≠ ver) : hb' ≠ hb := by
  apply transplant_changes_bytes_enc hb m ver hhon hb' h' hrd
  intro e
  injection e with _ e2
  exact hver ((dec_processHeader_version P valid kr _ h' log st hok).trans e2)

/-! ### non-vacuity: the tag of concrete header bytes, computed by the parser -/

example : headerTag (Msgpack.encode (Sign.header v2 [7] mtAttached [9]).toVal) = some (mtAttached, v2) := by
  decide

example : headerTag (Msgpack.encode (Sign.header v1 [7] mtDetached [9]).toVal) = some (mtDetached, v1) := by
  decide

/-- bytes that are not a header array announce nothing -/
example : headerTag [0xc0] = none ∧ headerTag [] = none := by decide

end Saltpack.Proofs
