/-
  Gating (C17) at the byte level — behind Props/C17Bytes.lean.

  A. receivers on refused / absent headers: nothing released, an error, no key touched;
  B. what a front end makes of header bytes (`FrontEncHeader`, `FrontSigHeader`:
     go-codec's typed decode of the bytes — map-shaped and leniently decoded
     headers included — OR, only where that is unmodelled, `Wire`'s typed view of
     the generic parse);
  C. go-codec's typed decode of CANONICAL header bytes of any family
     (`[format name, [major, minor], mode, …]`) returns that mode and version,
     whatever else the header carries and whichever header struct it is decoded
     into (`decEncHeader_tag`, `decSigHeader_tag`) — by an invariant of `structArr`;
  D. transplants: a receiver that released anything or accepted, on ANY byte
     string, read header bytes different from every canonical header announcing
     another mode / a refused version; and the other way round: behind canonical
     header bytes of another mode / a refused version NOTHING is accepted, whatever
     packets follow — exact refusal, nothing released, no key object touched.

  Core Lean only.
-/
import Saltpack.Proofs.CodecBytes
import Saltpack.Proofs.CodecTypes
import Saltpack.Proofs.ModeSeparation
import Saltpack.Proofs.RoundTripSig

namespace Saltpack.Proofs
open Saltpack Saltpack.Msgpack Saltpack.Codec Saltpack.Proofs.CodecP Saltpack.Proofs.MsgpackRT

/-! ## A. refused and absent headers -/

theorem dec_validate_error (valid : Validator) (h : EncHeader) :
    (h.formatName ≠ Gen.c_sp_FormatName → Decrypt.validate valid h = .error .notASaltpackMessage) ∧
    (h.formatName = Gen.c_sp_FormatName → h.typ ≠ mtEncryption → Decrypt.validate valid h = .error .wrongMessageType) ∧
    (h.formatName = Gen.c_sp_FormatName → h.typ = mtEncryption → valid h.version = false →
      Decrypt.validate valid h = .error .badVersion) := by
  refine ⟨fun h1 => ?_, fun h1 h2 => ?_, fun h1 h2 h3 => ?_⟩ <;> simp [Decrypt.validate, *]

theorem dec_openStream_refused (P : Prims) (valid : Validator) (kr : Keyring) (hb : Bytes) (h : EncHeader)
    (ps : PStream EncBlock) (e : Err) (hv : Decrypt.validate valid h = .error e) :
    Decrypt.openStream P valid kr (.ok hb h) ps = ⟨none, [], some e, []⟩ := by
  simp [Decrypt.openStream, Decrypt.processHeader, hv]

theorem dec_openStream_no_header (P : Prims) (valid : Validator) (kr : Keyring) (hr : HeaderRead EncHeader)
    (ps : PStream EncBlock) (hno : ∀ hb h, hr ≠ .ok hb h) :
    (Decrypt.openStream P valid kr hr ps).released = [] ∧ (Decrypt.openStream P valid kr hr ps).err ≠ none ∧
    (Decrypt.openStream P valid kr hr ps).calls = [] := by
  cases hr with
  | unreadable => simp [Decrypt.openStream]
  | undecodable _ => simp [Decrypt.openStream]
  | ok hb h => exact (hno hb h rfl).elim

theorem sc_validate_error (h : EncHeader) :
    (h.formatName ≠ Gen.c_sp_FormatName → Signcrypt.validate h = .error .notASaltpackMessage) ∧
    (h.formatName = Gen.c_sp_FormatName → h.typ ≠ mtSigncryption → Signcrypt.validate h = .error .wrongMessageType) ∧
    (h.formatName = Gen.c_sp_FormatName → h.typ = mtSigncryption → h.version.major ≠ 2 →
      Signcrypt.validate h = .error .badVersion) := by
  refine ⟨fun h1 => ?_, fun h1 h2 => ?_, fun h1 h2 h3 => ?_⟩ <;> simp [Signcrypt.validate, *]

theorem sc_openStream_refused (P : Prims) (kr : Keyring) (res : Signcrypt.Resolver) (hb : Bytes) (h : EncHeader)
    (ps : PStream SigncryptBlock) (e : Err) (hv : Signcrypt.validate h = .error e) :
    Signcrypt.openStream P kr res (.ok hb h) ps = ⟨none, [], some e, []⟩ := by
  simp [Signcrypt.openStream, Signcrypt.processHeader, hv]

theorem sc_openStream_no_header (P : Prims) (kr : Keyring) (res : Signcrypt.Resolver) (hr : HeaderRead EncHeader)
    (ps : PStream SigncryptBlock) (hno : ∀ hb h, hr ≠ .ok hb h) :
    (Signcrypt.openStream P kr res hr ps).released = [] ∧ (Signcrypt.openStream P kr res hr ps).err ≠ none ∧
    (Signcrypt.openStream P kr res hr ps).calls = [] := by
  cases hr with
  | unreadable => simp [Signcrypt.openStream]
  | undecodable _ => simp [Signcrypt.openStream]
  | ok hb h => exact (hno hb h rfl).elim

theorem sig_validate_error (valid : Validator) (h : SigHeader) (typ : Int) :
    (h.formatName ≠ Gen.c_sp_FormatName → Sign.validate valid h typ = .error .notASaltpackMessage) ∧
    (h.formatName = Gen.c_sp_FormatName → valid h.version = false → Sign.validate valid h typ = .error .badVersion) ∧
    (h.formatName = Gen.c_sp_FormatName → valid h.version = true → h.typ ≠ typ →
      Sign.validate valid h typ = .error .wrongMessageType) := by
  refine ⟨fun h1 => ?_, fun h1 h2 => ?_, fun h1 h2 h3 => ?_⟩ <;> simp [Sign.validate, *]

theorem ver_verifyStream_refused (P : Prims) (valid : Validator) (kr : Keyring) (hb : Bytes) (h : SigHeader)
    (ps : PStream SigBlock) (e : Err) (hv : Sign.validate valid h mtAttached = .error e) :
    Sign.verifyStream P valid kr (.ok hb h) ps = ⟨none, [], some e⟩ := by
  simp [Sign.verifyStream, hv]

theorem ver_verifyStream_no_header (P : Prims) (valid : Validator) (kr : Keyring) (hr : HeaderRead SigHeader)
    (ps : PStream SigBlock) (hno : ∀ hb h, hr ≠ .ok hb h) :
    (Sign.verifyStream P valid kr hr ps).released = [] ∧ (Sign.verifyStream P valid kr hr ps).err ≠ none := by
  cases hr with
  | unreadable => simp [Sign.verifyStream]
  | undecodable _ => simp [Sign.verifyStream]
  | ok hb h => exact (hno hb h rfl).elim

theorem det_verifyDetached_refused (P : Prims) (valid : Validator) (kr : Keyring) (hb : Bytes) (h : SigHeader)
    (sr : Sign.SigRead) (msg : Bytes) (e : Err) (hv : Sign.validate valid h mtDetached = .error e) :
    Sign.verifyDetached P valid kr (.ok hb h) sr msg = .error e := by
  simp [Sign.verifyDetached, hv]

theorem det_verifyDetached_no_header (P : Prims) (valid : Validator) (kr : Keyring) (hr : HeaderRead SigHeader)
    (sr : Sign.SigRead) (msg : Bytes) (hno : ∀ hb h, hr ≠ .ok hb h) :
    ∃ e, Sign.verifyDetached P valid kr hr sr msg = .error e := by
  cases hr with
  | unreadable => exact ⟨_, rfl⟩
  | undecodable _ => exact ⟨_, rfl⟩
  | ok hb h => exact (hno hb h rfl).elim

/-! ## B. what a front end makes of header bytes -/

/-- `h` is what a front end makes of the header bytes `hb` decoded into the
    encryption-family header struct: go-codec's typed decode (`Codec`: array form,
    map form keyed by codec names, nil, lenient field encodings), or — the fallback —
    the typed view of the generic parse (`Wire`) -/
def FrontEncHeader (hb : Bytes) (h : EncHeader) : Prop :=
  (∃ r, Codec.decEncHeader hb = .ok (h, r)) ∨ Wire.decodeHeader viewEncHeader hb = .ok (.ok hb h)

def FrontSigHeader (hb : Bytes) (h : SigHeader) : Prop :=
  (∃ r, Codec.decSigHeader hb = .ok (h, r)) ∨ Wire.decodeHeader viewSigHeader hb = .ok (.ok hb h)

theorem codec_readHeader_decoded {η : Type} (dec : Dec η) (msg hb rest : Bytes) (h : η)
    (hs : Codec.readHeader dec msg = .ok (.ok hb h, rest)) : ∃ r, dec hb = .ok (h, r) := by
  unfold Codec.readHeader at hs
  split at hs
  · cases hs
  · cases hs
  · rename_i hb0 rest0 _
    split at hs
    · cases hs
    · cases hs
    · rename_i h0 r0 hd
      cases hs
      exact ⟨r0, hd⟩

theorem codec_split_header_decoded {η β : Type} (decH : Dec η) (decB : η → Option (Dec β)) (msg hb : Bytes) (h : η)
    (ps : PStream β) (hs : Codec.split decH decB msg = .ok (.ok hb h, ps)) : ∃ r, decH hb = .ok (h, r) := by
  unfold Codec.split at hs
  split at hs
  · cases hs
  · rename_i hb0 h0 rest hrd
    have hd := codec_readHeader_decoded decH msg hb0 rest h0 hrd
    split at hs
    · cases hs; exact hd
    · split at hs
      · cases hs
      · cases hs; exact hd
  · rename_i hr rest hnot hrd
    cases hs
    exact (hnot hb h rfl).elim

theorem codec_splitDetached_header_decoded (msg hb : Bytes) (h : SigHeader) (d : Codec.DetSig)
    (hs : Codec.splitDetached msg = .ok (.ok hb h, d)) : ∃ r, Codec.decSigHeader hb = .ok (h, r) := by
  unfold Codec.splitDetached at hs
  split at hs
  · cases hs
  · rename_i hb0 h0 rest hrd
    have hd := codec_readHeader_decoded _ msg hb0 rest h0 hrd
    split at hs <;> first | (cases hs; exact hd) | cases hs
  · rename_i hr rest hnot hrd
    cases hs
    exact (hnot hb h rfl).elim

theorem readEnc_header (msg hb : Bytes) (h : EncHeader) (ps : PStream EncBlock)
    (hrd : Front.readEnc msg = .ok (.ok hb h, ps)) : FrontEncHeader hb h := by
  rcases orWire_ok hrd with hc | ⟨_, _, hw⟩
  · obtain ⟨ps0, hc0, _, _⟩ := settle_ok hc
    exact Or.inl (codec_split_header_decoded _ _ msg hb h ps0 hc0)
  · exact Or.inr (split_header_decoded _ _ msg hb h ps hw)

theorem readSigncrypt_header (msg hb : Bytes) (h : EncHeader) (ps : PStream SigncryptBlock)
    (hrd : Front.readSigncrypt msg = .ok (.ok hb h, ps)) : FrontEncHeader hb h := by
  rcases orWire_ok hrd with hc | ⟨_, _, hw⟩
  · obtain ⟨ps0, hc0, _, _⟩ := settle_ok hc
    exact Or.inl (codec_split_header_decoded _ _ msg hb h ps0 hc0)
  · exact Or.inr (split_header_decoded _ _ msg hb h ps hw)

theorem readSig_header (msg hb : Bytes) (h : SigHeader) (ps : PStream SigBlock)
    (hrd : Front.readSig msg = .ok (.ok hb h, ps)) : FrontSigHeader hb h := by
  rcases orWire_ok hrd with hc | ⟨_, _, hw⟩
  · obtain ⟨ps0, hc0, _, _⟩ := settle_ok hc
    exact Or.inl (codec_split_header_decoded _ _ msg hb h ps0 hc0)
  · exact Or.inr (split_header_decoded _ _ msg hb h ps hw)

theorem readDetached_header (sigMsg hb : Bytes) (h : SigHeader) (sr : Sign.SigRead)
    (hrd : Front.readDetached sigMsg = .ok (.ok hb h, sr)) : FrontSigHeader hb h := by
  rcases orWire_ok hrd with hc | ⟨_, _, hw⟩
  · obtain ⟨d, hsd, _⟩ := codecDetached_ok hc
    exact Or.inl (codec_splitDetached_header_decoded sigMsg hb h d hsd)
  · exact Or.inr (splitDetached_header_decoded sigMsg hb h sr hw)

/-! ## C. go-codec's typed decode of canonical header bytes keeps mode and version -/

theorem bind_ok_inv {α β : Type} {x : Dec α} {f : α → Dec β} {b r : Bytes} {y : β}
    (h : (x >>= f) b = .ok (y, r)) : ∃ a r0, x b = .ok (a, r0) ∧ f a r0 = .ok (y, r) := by
  rw [bind_run] at h
  cases hx : x b with
  | error e => rw [hx] at h; cases h
  | ok p => obtain ⟨a, r0⟩ := p; rw [hx] at h; exact ⟨a, r0, rfl, h⟩

theorem bind_pure_inv {α β : Type} {x : Dec α} {g : α → β} {b r : Bytes} {y : β}
    (h : (x >>= fun a => pure (g a)) b = .ok (y, r)) : ∃ a, y = g a := by
  obtain ⟨a, r0, _, h2⟩ := bind_ok_inv h
  cases h2
  exact ⟨a, rfl⟩

theorem fieldVal_inv {σ : Type} (I : σ → Prop) (f : Field σ) (hz : ∀ s, I s → I (f.zero s))
    (hd : ∀ s b s' r, I s → f.dec s b = .ok (s', r) → I s') (st : σ) (b : Bytes) (st' : σ) (r : Bytes)
    (hI : I st) (h : fieldVal f st b = .ok (st', r)) : I st' := by
  have h' : (tryNil >>= fun c => if c = true then pure (f.zero st) else f.dec st) b = .ok (st', r) := h
  obtain ⟨c, r0, _, h2⟩ := bind_ok_inv h'
  cases c
  · simp only [Bool.false_eq_true, if_false] at h2
    exact hd st r0 st' r hI h2
  · simp only [if_true] at h2
    cases h2
    exact hz st hI

/-- an invariant that every remaining field keeps is kept by the array form of `kStruct` -/
theorem structArr_inv {σ : Type} (I : σ → Prop) (fuel rem : Nat) : ∀ (fs : List (Field σ)) (n : Nat) (st : σ) (b : Bytes)
    (st' : σ) (r : Bytes), (∀ f ∈ fs, ∀ s, I s → I (f.zero s)) →
    (∀ f ∈ fs, ∀ s b s' r, I s → f.dec s b = .ok (s', r) → I s') → I st →
    structArr fuel rem fs n st b = .ok (st', r) → I st'
  | fs, 0, st, b, st', r, _, _, hI, h => by
    rw [structArr_zero] at h; cases h; exact hI
  | [], n + 1, st, b, st', r, _, _, hI, h => by
    have h' : (swallowN fuel rem (n + 1) >>= fun _ => pure st) b = .ok (st', r) := h
    obtain ⟨_, r0, _, h2⟩ := bind_ok_inv h'
    cases h2; exact hI
  | f :: fs, n + 1, st, b, st', r, hz, hd, hI, h => by
    have h' : (fieldVal f st >>= fun s => structArr fuel rem fs n s) b = .ok (st', r) := h
    obtain ⟨s1, r0, h1, h2⟩ := bind_ok_inv h'
    have hI1 := fieldVal_inv I f (hz f (by simp)) (hd f (by simp)) st b s1 r0 hI h1
    exact structArr_inv I fuel rem fs n s1 r0 st' r (fun g hg => hz g (by simp [hg])) (fun g hg => hd g (by simp [hg])) hI1 h2

/-- 64-bit signed range (what go-codec's `DecodeInt64` returns unchanged) -/
def InInt64 (i : Int) : Prop := -(2 ^ 63 : Int) ≤ i ∧ i < (2 ^ 63 : Int)

theorem decVersion_toVal (fuel rem : Nat) (hf : 1 ≤ fuel) (ver : Version) (hma : InInt64 ver.major) (hmi : InInt64 ver.minor)
    (v0 : Version) (r : Bytes) : decVersion fuel rem v0 (encode ver.toVal ++ r) = .ok (ver, r) := by
  have hex : ExtrasOK [] fuel rem := ⟨by simp, by rw [encodeList_nil]; simpa using hf, by rw [depthList_nil]; omega⟩
  exact decVersion_encode fuel rem ver.major ver.minor hma hmi [] hex (by decide) v0 r

/-- the `vers` field on a canonical version pair -/
theorem fieldVal_vers {σ : Type} (fuel rem : Nat) (hf : 1 ≤ fuel) (name : Bytes) (c : Bool) (zero : σ → σ)
    (get : σ → Version) (upd : σ → Version → σ) (st : σ) (ver : Version) (hma : InInt64 ver.major) (hmi : InInt64 ver.minor)
    (r : Bytes) :
    fieldVal ⟨name, c, zero, fun h => do let v ← decVersion fuel rem (get h); pure (upd h v)⟩ st (encode ver.toVal ++ r)
      = .ok (upd st ver, r) := by
  have hd := decVersion_toVal fuel rem hf ver hma hmi (get st) r
  have he : encode ver.toVal ++ r = encArrayHdr 2 ++ (encode.encodeList [.int ver.major, .int ver.minor] ++ r) := by
    rw [Version.toVal, encode, List.append_assoc]; rfl
  obtain ⟨x, t, e, ne, _, _⟩ := arrHdr_obj 2 (by decide) (encode.encodeList [.int ver.major, .int ver.minor] ++ r)
  rw [he, e] at hd
  rw [he, e, fieldVal_dec _ _ _ _ ne]
  show (decVersion fuel rem (get st) >>= fun v => pure (upd st v)) (x :: t) = _
  rw [bind_ok hd]; rfl

/-- header bytes as a spec-following sender of ANY of the four modes writes
    them: the canonical encoding of an array `[format name, [major, minor], mode, …]`
    (whatever follows) announcing mode `m` and version `ver` -/
def CanonHeaderBytes (hb : Bytes) (m : Int) (ver : Version) : Prop :=
  ∃ (fmt : Bytes) (rest : List Val),
    hb = encode (.arr (.str fmt :: ver.toVal :: .int m :: rest)) ∧
    ValWF (.arr (.str fmt :: ver.toVal :: .int m :: rest)) ∧ InInt64 m ∧ InInt64 ver.major ∧ InInt64 ver.minor

theorem canonHeaderBytes_tag {hb : Bytes} {m : Int} {ver : Version} (h : CanonHeaderBytes hb m ver) :
    headerTag hb = some (m, ver) := by
  obtain ⟨fmt, rest, rfl, hwf, _, _, _⟩ := h
  have hp := parse1_encode _ hwf []
  rw [List.append_nil] at hp
  rw [headerTag_of_parse _ _ _ hp]
  simp [headerTagVal, viewInt, viewVersion, Version.toVal]

/-- the common part of both header structs: after format name, version and mode
    were decoded from canonical bytes, the remaining fields keep them -/
theorem structArr_head3 {σ : Type} (I : σ → Prop) (fuel : Nat)
    (f1 f2 f3 : Field σ) (fs : List (Field σ)) (zero : σ) (fmt : Bytes) (ver : Version) (m : Int) (rest : List Val)
    (s1 s2 s3 : σ)
    (h1 : ∀ r, fieldVal f1 zero (encStr fmt ++ r) = .ok (s1, r))
    (h2 : ∀ r, fieldVal f2 s1 (encode ver.toVal ++ r) = .ok (s2, r))
    (h3 : ∀ r, fieldVal f3 s2 (encInt m ++ r) = .ok (s3, r))
    (hI : I s3) (hz : ∀ f ∈ fs, ∀ s, I s → I (f.zero s))
    (hd : ∀ f ∈ fs, ∀ s b s' r, I s → f.dec s b = .ok (s', r) → I s')
    (st' : σ) (r : Bytes)
    (h : structArr fuel 99 (f1 :: f2 :: f3 :: fs) (rest.length + 1 + 1 + 1) zero
          (encode.encodeList (.str fmt :: ver.toVal :: .int m :: rest)) = .ok (st', r)) : I st' := by
  rw [encodeList_cons, encodeList_cons, encodeList_cons] at h
  rw [show encode (.str fmt) = encStr fmt by rw [encode], show encode (.int m) = encInt m by rw [encode]] at h
  rw [structArr_cons _ _ _ _ _ _ _ _ _ (h1 _), structArr_cons _ _ _ _ _ _ _ _ _ (h2 _),
    structArr_cons _ _ _ _ _ _ _ _ _ (h3 _)] at h
  exact structArr_inv I fuel 99 fs _ s3 _ st' r hz hd hI h

theorem decEncHeader_tag (hb : Bytes) (m : Int) (ver : Version) (hc : CanonHeaderBytes hb m ver)
    (h' : EncHeader) (r : Bytes) (h : decEncHeader hb = .ok (h', r)) : h'.typ = m ∧ h'.version = ver := by
  obtain ⟨fmt, rest, rfl, hwf, hm, hma, hmi⟩ := hc
  cases hwf with
  | arr _ hlen hall =>
  have hfmt : fmt.length < 2 ^ 32 := by
    have := hall (.str fmt) (by simp); cases this; assumption
  have hl : (Val.str fmt :: ver.toVal :: Val.int m :: rest).length = rest.length + 1 + 1 + 1 := by simp
  rw [decEncHeader, encode, topStruct_arr _ _ _ hlen, hl] at h
  generalize hfu : fuelFor _ = fuel at h
  have hf : 1 ≤ fuel := by rw [← hfu, fuelFor]; omega
  exact structArr_head3 (fun s : EncHeader => s.typ = m ∧ s.version = ver) fuel _ _ _ _ zeroEncHeader fmt ver m rest
    _ _ _
    (fun r => fieldVal_str _ _ _ (fun (s : EncHeader) (x : Bytes) => ({ s with formatName := x } : EncHeader)) _ fmt hfmt r)
    (fun r => fieldVal_vers fuel 99 hf _ _ _ (fun s : EncHeader => s.version)
      (fun (s : EncHeader) (v : Version) => ({ s with version := v } : EncHeader)) _ ver hma hmi r)
    (fun r => fieldVal_int _ _ _ (fun (s : EncHeader) (i : Int) => ({ s with typ := i } : EncHeader)) _ m hm.1 hm.2 r)
    ⟨rfl, rfl⟩
    (by
      intro f hfm s hs
      simp only [List.mem_cons, List.not_mem_nil, or_false] at hfm
      rcases hfm with rfl | rfl | rfl <;> exact hs)
    (by
      intro f hfm s b s' r hs hdec
      simp only [List.mem_cons, List.not_mem_nil, or_false] at hfm
      rcases hfm with rfl | rfl | rfl <;> (obtain ⟨a, rfl⟩ := bind_pure_inv hdec; exact hs))
    h' r h

theorem decSigHeader_tag (hb : Bytes) (m : Int) (ver : Version) (hc : CanonHeaderBytes hb m ver)
    (h' : SigHeader) (r : Bytes) (h : decSigHeader hb = .ok (h', r)) : h'.typ = m ∧ h'.version = ver := by
  obtain ⟨fmt, rest, rfl, hwf, hm, hma, hmi⟩ := hc
  cases hwf with
  | arr _ hlen hall =>
  have hfmt : fmt.length < 2 ^ 32 := by
    have := hall (.str fmt) (by simp); cases this; assumption
  have hl : (Val.str fmt :: ver.toVal :: Val.int m :: rest).length = rest.length + 1 + 1 + 1 := by simp
  rw [decSigHeader, encode, topStruct_arr _ _ _ hlen, hl] at h
  generalize hfu : fuelFor _ = fuel at h
  have hf : 1 ≤ fuel := by rw [← hfu, fuelFor]; omega
  exact structArr_head3 (fun s : SigHeader => s.typ = m ∧ s.version = ver) fuel _ _ _ _ zeroSigHeader fmt ver m rest
    _ _ _
    (fun r => fieldVal_str _ _ _ (fun (s : SigHeader) (x : Bytes) => ({ s with formatName := x } : SigHeader)) _ fmt hfmt r)
    (fun r => fieldVal_vers fuel 99 hf _ _ _ (fun s : SigHeader => s.version)
      (fun (s : SigHeader) (v : Version) => ({ s with version := v } : SigHeader)) _ ver hma hmi r)
    (fun r => fieldVal_int _ _ _ (fun (s : SigHeader) (i : Int) => ({ s with typ := i } : SigHeader)) _ m hm.1 hm.2 r)
    ⟨rfl, rfl⟩
    (by
      intro f hfm s hs
      simp only [List.mem_cons, List.not_mem_nil, or_false] at hfm
      rcases hfm with rfl | rfl <;> exact hs)
    (by
      intro f hfm s b s' r hs hdec
      simp only [List.mem_cons, List.not_mem_nil, or_false] at hfm
      rcases hfm with rfl | rfl <;> (obtain ⟨a, rfl⟩ := bind_pure_inv hdec; exact hs))
    h' r h

/-- whichever reader a front end used, an encryption-family header decoded from
    canonical header bytes carries the mode and version those bytes announce -/
theorem frontEncHeader_tag (hb : Bytes) (m : Int) (ver : Version) (hc : CanonHeaderBytes hb m ver)
    (h' : EncHeader) (hf : FrontEncHeader hb h') : (h'.typ, h'.version) = (m, ver) := by
  rcases hf with ⟨r, hd⟩ | hw
  · obtain ⟨a, b⟩ := decEncHeader_tag hb m ver hc h' r hd
    rw [a, b]
  · have ht := (decodeHeader_enc_tag _ _ _ hw).2
    rw [canonHeaderBytes_tag hc] at ht
    exact (Option.some.inj ht).symm

theorem frontSigHeader_tag (hb : Bytes) (m : Int) (ver : Version) (hc : CanonHeaderBytes hb m ver)
    (h' : SigHeader) (hf : FrontSigHeader hb h') : (h'.typ, h'.version) = (m, ver) := by
  rcases hf with ⟨r, hd⟩ | hw
  · obtain ⟨a, b⟩ := decSigHeader_tag hb m ver hc h' r hd
    rw [a, b]
  · have ht := (decodeHeader_sig_tag _ _ _ hw).2
    rw [canonHeaderBytes_tag hc] at ht
    exact (Option.some.inj ht).symm

/-! ### honest senders write canonical header bytes -/

theorem canon_of_encHeader (h : EncHeader) (hwf : ValWF h.toVal) (ht : InInt64 h.typ) (hma : InInt64 h.version.major)
    (hmi : InInt64 h.version.minor) : CanonHeaderBytes (encode h.toVal) h.typ h.version :=
  ⟨h.formatName, _, rfl, hwf, ht, hma, hmi⟩

theorem canon_of_sigHeader (h : SigHeader) (hwf : ValWF h.toVal) (ht : InInt64 h.typ) (hma : InInt64 h.version.major)
    (hmi : InInt64 h.version.minor) : CanonHeaderBytes (encode h.toVal) h.typ h.version :=
  ⟨h.formatName, _, rfl, hwf, ht, hma, hmi⟩

theorem int64_modes : InInt64 mtEncryption ∧ InInt64 mtAttached ∧ InInt64 mtDetached ∧ InInt64 mtSigncryption := by
  simp only [InInt64, mtEncryption, mtAttached, mtDetached, mtSigncryption,
    Gen.c_sp_MessageTypeEncryption, Gen.c_sp_MessageTypeAttachedSignature,
    Gen.c_sp_MessageTypeDetachedSignature, Gen.c_sp_MessageTypeSigncryption]
  decide

theorem int64_known {v : Version} (hv : v = v1 ∨ v = v2) : InInt64 v.major ∧ InInt64 v.minor := by
  rcases hv with rfl | rfl <;> (simp only [InInt64, v1, v2]; decide)

/-! ## D. transplants at the byte level -/

theorem decrypt_no_transplant_bytes (P : Prims) (valid : Validator) (kr : Keyring)
    (hb : Bytes) (m : Int) (ver : Version) (hhon : CanonHeaderBytes hb m ver)
    (msg' hb' : Bytes) (h' : EncHeader) (ps : PStream EncBlock)
    (hread : Front.readEnc msg' = .ok (.ok hb' h', ps)) (r : Decrypt.Result)
    (hopen : Decrypt.openBytes P valid kr msg' = .ok r) (hacc : r.released ≠ [] ∨ r.err = none)
    (hother : m ≠ mtEncryption ∨ valid ver = false) :
    hb' ≠ hb := by
  rw [dec_openBytes_of_read hread] at hopen
  cases hopen
  obtain ⟨_, hv, ht⟩ := enc_gate_released P valid kr hb' h' ps hacc
  intro e
  subst e
  have htag := frontEncHeader_tag hb' m ver hhon h' (readEnc_header msg' hb' h' ps hread)
  injection htag with e1 e2
  rcases hother with ho | ho
  · exact ho (e1.symm.trans ht)
  · rw [← e2, hv] at ho; cases ho

theorem signcrypt_no_transplant_bytes (P : Prims) (kr : Keyring) (res : Signcrypt.Resolver)
    (hb : Bytes) (m : Int) (ver : Version) (hhon : CanonHeaderBytes hb m ver)
    (msg' hb' : Bytes) (h' : EncHeader) (ps : PStream SigncryptBlock)
    (hread : Front.readSigncrypt msg' = .ok (.ok hb' h', ps)) (r : Signcrypt.Result)
    (hopen : Signcrypt.openBytes P kr res msg' = .ok r) (hacc : r.released ≠ [] ∨ r.err = none)
    (hother : m ≠ mtSigncryption ∨ ver.major ≠ 2) :
    hb' ≠ hb := by
  rw [sc_openBytes_of_read hread] at hopen
  cases hopen
  obtain ⟨_, hv, ht⟩ := sc_gate_released P kr res hb' h' ps hacc
  intro e
  subst e
  have htag := frontEncHeader_tag hb' m ver hhon h' (readSigncrypt_header msg' hb' h' ps hread)
  injection htag with e1 e2
  rcases hother with ho | ho
  · exact ho (e1.symm.trans ht)
  · rw [← e2] at ho; exact ho hv

theorem ver_gate_any (P : Prims) (valid : Validator) (kr : Keyring) (hb : Bytes) (h : SigHeader)
    (ps : PStream SigBlock)
    (hacc : (Sign.verifyStream P valid kr (.ok hb h) ps).released ≠ [] ∨
            (Sign.verifyStream P valid kr (.ok hb h) ps).err = none) :
    h.formatName = Gen.c_sp_FormatName ∧ valid h.version = true ∧ h.typ = mtAttached := by
  rcases hacc with hr | he
  · exact ver_gate_released P valid kr hb h ps hr
  · exact ver_gate P valid kr hb h ps he

theorem verify_no_transplant_bytes (P : Prims) (valid : Validator) (kr : Keyring)
    (hb : Bytes) (m : Int) (ver : Version) (hhon : CanonHeaderBytes hb m ver)
    (msg' hb' : Bytes) (h' : SigHeader) (ps : PStream SigBlock)
    (hread : Front.readSig msg' = .ok (.ok hb' h', ps)) (r : Sign.Result)
    (hopen : Sign.verifyBytes P valid kr msg' = .ok r) (hacc : r.released ≠ [] ∨ r.err = none)
    (hother : m ≠ mtAttached ∨ valid ver = false) :
    hb' ≠ hb := by
  rw [sig_verifyBytes_of_read hread] at hopen
  cases hopen
  obtain ⟨_, hv, ht⟩ := ver_gate_any P valid kr hb' h' ps hacc
  intro e
  subst e
  have htag := frontSigHeader_tag hb' m ver hhon h' (readSig_header msg' hb' h' ps hread)
  injection htag with e1 e2
  rcases hother with ho | ho
  · exact ho (e1.symm.trans ht)
  · rw [← e2, hv] at ho; cases ho

theorem detached_no_transplant_bytes (P : Prims) (valid : Validator) (kr : Keyring)
    (hb : Bytes) (m : Int) (ver : Version) (hhon : CanonHeaderBytes hb m ver)
    (sigMsg' hb' : Bytes) (h' : SigHeader) (sr : Sign.SigRead)
    (hread : Front.readDetached sigMsg' = .ok (.ok hb' h', sr)) (msg k : Bytes)
    (hopen : Sign.verifyDetachedBytes P valid kr sigMsg' msg = .ok (.ok k))
    (hother : m ≠ mtDetached ∨ valid ver = false) :
    hb' ≠ hb := by
  rw [sig_verifyDetachedBytes_of_read hread] at hopen
  have hacc : Sign.verifyDetached P valid kr (.ok hb' h') sr msg = .ok k := by
    injection hopen
  obtain ⟨hb2, h2, sg, hhr, _, _, hv, ht, _⟩ := detached_sound P valid kr _ sr msg k hacc
  injection hhr with e1 e2
  subst e1 e2
  intro e
  subst e
  have htag := frontSigHeader_tag hb' m ver hhon h' (readDetached_header sigMsg' hb' h' sr hread)
  injection htag with e1 e2
  rcases hother with ho | ho
  · exact ho (e1.symm.trans ht)
  · rw [← e2, hv] at ho; cases ho

/-! ### behind a foreign header nothing is accepted -/

theorem decrypt_foreign_header_refused (P : Prims) (valid : Validator) (kr : Keyring)
    (hb : Bytes) (m : Int) (ver : Version) (hhon : CanonHeaderBytes hb m ver)
    (msg' : Bytes) (h' : EncHeader) (ps : PStream EncBlock)
    (hread : Front.readEnc msg' = .ok (.ok hb h', ps)) (hother : m ≠ mtEncryption ∨ valid ver = false) :
    ∃ e, Decrypt.openBytes P valid kr msg' = .ok ⟨none, [], some e, []⟩ ∧
      (e = .notASaltpackMessage ∨ e = .wrongMessageType ∨ e = .badVersion) := by
  have htag := frontEncHeader_tag hb m ver hhon h' (readEnc_header msg' hb h' ps hread)
  injection htag with e1 e2
  obtain ⟨a, b, c⟩ := dec_validate_error valid h'
  rw [dec_openBytes_of_read hread]
  by_cases hf : h'.formatName = Gen.c_sp_FormatName
  · by_cases ht : h'.typ = mtEncryption
    · rcases hother with ho | ho
      · exact (ho (e1.symm.trans ht)).elim
      · exact ⟨_, by rw [dec_openStream_refused P valid kr hb h' ps _ (c hf ht (e2 ▸ ho))], Or.inr (Or.inr rfl)⟩
    · exact ⟨_, by rw [dec_openStream_refused P valid kr hb h' ps _ (b hf ht)], Or.inr (Or.inl rfl)⟩
  · exact ⟨_, by rw [dec_openStream_refused P valid kr hb h' ps _ (a hf)], Or.inl rfl⟩

theorem signcrypt_foreign_header_refused (P : Prims) (kr : Keyring) (res : Signcrypt.Resolver)
    (hb : Bytes) (m : Int) (ver : Version) (hhon : CanonHeaderBytes hb m ver)
    (msg' : Bytes) (h' : EncHeader) (ps : PStream SigncryptBlock)
    (hread : Front.readSigncrypt msg' = .ok (.ok hb h', ps)) (hother : m ≠ mtSigncryption ∨ ver.major ≠ 2) :
    ∃ e, Signcrypt.openBytes P kr res msg' = .ok ⟨none, [], some e, []⟩ ∧
      (e = .notASaltpackMessage ∨ e = .wrongMessageType ∨ e = .badVersion) := by
  have htag := frontEncHeader_tag hb m ver hhon h' (readSigncrypt_header msg' hb h' ps hread)
  injection htag with e1 e2
  obtain ⟨a, b, c⟩ := sc_validate_error h'
  rw [sc_openBytes_of_read hread]
  by_cases hf : h'.formatName = Gen.c_sp_FormatName
  · by_cases ht : h'.typ = mtSigncryption
    · rcases hother with ho | ho
      · exact (ho (e1.symm.trans ht)).elim
      · exact ⟨_, by rw [sc_openStream_refused P kr res hb h' ps _ (c hf ht (e2 ▸ ho))], Or.inr (Or.inr rfl)⟩
    · exact ⟨_, by rw [sc_openStream_refused P kr res hb h' ps _ (b hf ht)], Or.inr (Or.inl rfl)⟩
  · exact ⟨_, by rw [sc_openStream_refused P kr res hb h' ps _ (a hf)], Or.inl rfl⟩

theorem verify_foreign_header_refused (P : Prims) (valid : Validator) (kr : Keyring)
    (hb : Bytes) (m : Int) (ver : Version) (hhon : CanonHeaderBytes hb m ver)
    (msg' : Bytes) (h' : SigHeader) (ps : PStream SigBlock)
    (hread : Front.readSig msg' = .ok (.ok hb h', ps)) (hother : m ≠ mtAttached ∨ valid ver = false) :
    ∃ e, Sign.verifyBytes P valid kr msg' = .ok ⟨none, [], some e⟩ ∧
      (e = .notASaltpackMessage ∨ e = .wrongMessageType ∨ e = .badVersion) := by
  have htag := frontSigHeader_tag hb m ver hhon h' (readSig_header msg' hb h' ps hread)
  injection htag with e1 e2
  obtain ⟨a, b, c⟩ := sig_validate_error valid h' mtAttached
  rw [sig_verifyBytes_of_read hread]
  by_cases hf : h'.formatName = Gen.c_sp_FormatName
  · cases hv : valid h'.version with
    | false => exact ⟨_, by rw [ver_verifyStream_refused P valid kr hb h' ps _ (b hf hv)], Or.inr (Or.inr rfl)⟩
    | true =>
      by_cases ht : h'.typ = mtAttached
      · rcases hother with ho | ho
        · exact (ho (e1.symm.trans ht)).elim
        · rw [← e2, hv] at ho; cases ho
      · exact ⟨_, by rw [ver_verifyStream_refused P valid kr hb h' ps _ (c hf hv ht)], Or.inr (Or.inl rfl)⟩
  · exact ⟨_, by rw [ver_verifyStream_refused P valid kr hb h' ps _ (a hf)], Or.inl rfl⟩

theorem detached_foreign_header_refused (P : Prims) (valid : Validator) (kr : Keyring)
    (hb : Bytes) (m : Int) (ver : Version) (hhon : CanonHeaderBytes hb m ver)
    (sigMsg' : Bytes) (h' : SigHeader) (sr : Sign.SigRead)
    (hread : Front.readDetached sigMsg' = .ok (.ok hb h', sr)) (msg : Bytes)
    (hother : m ≠ mtDetached ∨ valid ver = false) :
    ∃ e, Sign.verifyDetachedBytes P valid kr sigMsg' msg = .ok (.error e) ∧
      (e = .notASaltpackMessage ∨ e = .wrongMessageType ∨ e = .badVersion) := by
  have htag := frontSigHeader_tag hb m ver hhon h' (readDetached_header sigMsg' hb h' sr hread)
  injection htag with e1 e2
  obtain ⟨a, b, c⟩ := sig_validate_error valid h' mtDetached
  rw [sig_verifyDetachedBytes_of_read hread]
  by_cases hf : h'.formatName = Gen.c_sp_FormatName
  · cases hv : valid h'.version with
    | false => exact ⟨_, by rw [det_verifyDetached_refused P valid kr hb h' sr msg _ (b hf hv)], Or.inr (Or.inr rfl)⟩
    | true =>
      by_cases ht : h'.typ = mtDetached
      · rcases hother with ho | ho
        · exact (ho (e1.symm.trans ht)).elim
        · rw [← e2, hv] at ho; cases ho
      · exact ⟨_, by rw [det_verifyDetached_refused P valid kr hb h' sr msg _ (c hf hv ht)], Or.inr (Or.inl rfl)⟩
  · exact ⟨_, by rw [det_verifyDetached_refused P valid kr hb h' sr msg _ (a hf)], Or.inl rfl⟩

/-! ### the gates themselves, for every byte string -/

theorem decrypt_gate_bytes (P : Prims) (valid : Validator) (kr : Keyring) (msg : Bytes) (r : Decrypt.Result)
    (hopen : Decrypt.openBytes P valid kr msg = .ok r) (hacc : r.released ≠ [] ∨ r.err = none) :
    ∃ hb h ps, Front.readEnc msg = .ok (.ok hb h, ps) ∧ FrontEncHeader hb h ∧
      h.formatName = Gen.c_sp_FormatName ∧ valid h.version = true ∧ h.typ = mtEncryption := by
  obtain ⟨hr, ps, hrd, rfl⟩ := dec_openBytes_ok hopen
  cases hr with
  | ok hb h => exact ⟨hb, h, ps, hrd, readEnc_header msg hb h ps hrd, enc_gate_released P valid kr hb h ps hacc⟩
  | unreadable => simp [Decrypt.openStream] at hacc
  | undecodable _ => simp [Decrypt.openStream] at hacc

theorem signcrypt_gate_bytes (P : Prims) (kr : Keyring) (res : Signcrypt.Resolver) (msg : Bytes) (r : Signcrypt.Result)
    (hopen : Signcrypt.openBytes P kr res msg = .ok r) (hacc : r.released ≠ [] ∨ r.err = none) :
    ∃ hb h ps, Front.readSigncrypt msg = .ok (.ok hb h, ps) ∧ FrontEncHeader hb h ∧
      h.formatName = Gen.c_sp_FormatName ∧ h.version.major = 2 ∧ h.typ = mtSigncryption := by
  obtain ⟨hr, ps, hrd, rfl⟩ := sc_openBytes_ok hopen
  cases hr with
  | ok hb h => exact ⟨hb, h, ps, hrd, readSigncrypt_header msg hb h ps hrd, sc_gate_released P kr res hb h ps hacc⟩
  | unreadable => simp [Signcrypt.openStream] at hacc
  | undecodable _ => simp [Signcrypt.openStream] at hacc

theorem verify_gate_bytes (P : Prims) (valid : Validator) (kr : Keyring) (msg : Bytes) (r : Sign.Result)
    (hopen : Sign.verifyBytes P valid kr msg = .ok r) (hacc : r.released ≠ [] ∨ r.err = none) :
    ∃ hb h ps, Front.readSig msg = .ok (.ok hb h, ps) ∧ FrontSigHeader hb h ∧
      h.formatName = Gen.c_sp_FormatName ∧ valid h.version = true ∧ h.typ = mtAttached := by
  obtain ⟨hr, ps, hrd, rfl⟩ := sig_verifyBytes_ok hopen
  cases hr with
  | ok hb h => exact ⟨hb, h, ps, hrd, readSig_header msg hb h ps hrd, ver_gate_any P valid kr hb h ps hacc⟩
  | unreadable => simp [Sign.verifyStream] at hacc
  | undecodable _ => simp [Sign.verifyStream] at hacc

theorem detached_gate_bytes (P : Prims) (valid : Validator) (kr : Keyring) (sigMsg msg k : Bytes)
    (hopen : Sign.verifyDetachedBytes P valid kr sigMsg msg = .ok (.ok k)) :
    ∃ hb h sr, Front.readDetached sigMsg = .ok (.ok hb h, sr) ∧ FrontSigHeader hb h ∧
      h.formatName = Gen.c_sp_FormatName ∧ valid h.version = true ∧ h.typ = mtDetached := by
  obtain ⟨hr, sr, hrd, he⟩ := sig_verifyDetachedBytes_ok hopen
  obtain ⟨hb, h, sg, h1, _, h2, h3, h4, _⟩ := detached_sound P valid kr hr sr msg k he.symm
  subst h1
  exact ⟨hb, h, sr, hrd, readDetached_header sigMsg hb h sr hrd, h2, h3, h4⟩

/-! ### honest senders of all four modes write canonical header bytes -/

theorem seal_header_canonical (P : Prims) (bs : Nat) (v : Version) (sender : Option Bytes) (rs : List Encrypt.Recipient)
    (eph pk pt : Bytes) (h : EncHeader) (hb : Bytes) (blks : List EncBlock)
    (hs : Encrypt.sealPackets P bs v sender rs eph pk pt = .ok (h, hb, blks)) (hwf : ValWF h.toVal) :
    CanonHeaderBytes hb mtEncryption v := by
  obtain ⟨_, hv, hk, ht⟩ := seal_labels P bs v sender rs eph pk pt h hb blks hs
  have hhb : hb = Msgpack.encode h.toVal := by
    unfold Encrypt.sealPackets at hs
    simp only [] at hs
    repeat' split at hs
    all_goals (try cases hs)
    rfl
  have hc := canon_of_encHeader h hwf (ht ▸ int64_modes.1) (hv ▸ (int64_known hk).1) (hv ▸ (int64_known hk).2)
  rw [hhb]; rw [hv, ht] at hc; exact hc

theorem signcrypt_header_canonical (P : Prims) (bs : Nat) (sender : Option Bytes) (rs : List Signcrypt.Recipient)
    (eph pk pt : Bytes) (h : EncHeader) (hb : Bytes) (blks : List SigncryptBlock)
    (hs : Signcrypt.sealPackets P bs sender rs eph pk pt = .ok (h, hb, blks)) (hwf : ValWF h.toVal) :
    CanonHeaderBytes hb mtSigncryption v2 := by
  obtain ⟨_, hv, ht, hhb⟩ := signcrypt_labels P bs sender rs eph pk pt h hb blks hs
  have hc := canon_of_encHeader h hwf (ht ▸ int64_modes.2.2.2) (hv ▸ (int64_known (Or.inr rfl)).1)
    (hv ▸ (int64_known (Or.inr rfl)).2)
  rw [hhb]; rw [hv, ht] at hc; exact hc

theorem sign_header_canonical (P : Prims) (bs : Nat) (v : Version) (signer nonce msg : Bytes)
    (h : SigHeader) (hb : Bytes) (blks : List SigBlock)
    (hs : Sign.attachedPackets P bs v signer nonce msg = .ok (h, hb, blks)) (hwf : ValWF h.toVal) :
    CanonHeaderBytes hb mtAttached v := by
  obtain ⟨_, hv, hk, ht⟩ := sign_labels P bs v signer nonce msg h hb blks hs
  have hhb : hb = Msgpack.encode h.toVal := by
    unfold Sign.attachedPackets at hs
    simp only [] at hs
    repeat' split at hs
    all_goals (try cases hs)
    rfl
  have hc := canon_of_sigHeader h hwf (ht ▸ int64_modes.2.1) (hv ▸ (int64_known hk).1) (hv ▸ (int64_known hk).2)
  rw [hhb]; rw [hv, ht] at hc; exact hc

theorem detached_header_canonical (P : Prims) (v : Version) (signer nonce msg out : Bytes)
    (hs : Sign.detachedWith P v signer nonce msg = .ok out)
    (hpk : (P.sigPub signer).length < 2 ^ 32) (hn : nonce.length < 2 ^ 32) :
    ∃ hb rest, out = headerPacket hb ++ rest ∧ CanonHeaderBytes hb mtDetached v := by
  obtain ⟨h, hh, hout, _, hv, hk, ht⟩ := detached_labels P v signer nonce msg out hs
  refine ⟨Msgpack.encode h.toVal, _, hout, ?_⟩
  have hwf : ValWF h.toVal := by
    subst hh
    apply sigHeader_valWF
    · simp only [Sign.header]; decide
    · exact hpk
    · exact hn
    · rcases hk with rfl | rfl <;> (simp only [Sign.header]; decide)
    · rcases hk with rfl | rfl <;> (simp only [Sign.header]; decide)
    · simp only [Sign.header]; decide
  have hc := canon_of_sigHeader h hwf (ht ▸ int64_modes.2.2.1) (hv ▸ (int64_known hk).1) (hv ▸ (int64_known hk).2)
  rw [hv, ht] at hc; exact hc

end Saltpack.Proofs
