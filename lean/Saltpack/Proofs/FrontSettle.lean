/-
  Saltpack.Proofs.FrontSettle — `Front.settle` against the receivers (notes/ext-r5.md).

  `Front.settle` replaces the tail `Codec.blocks` reports (the condition of the TYPED read at
  the place the typed reads stop) by `.eof` in one situation.  Here: the REFERENCE composition
  (`Settle.runEnc2 / runSc2 / runSig2`, `Settle.refOpenEnc / refOpenSc / refVerify`): the
  receiver run on the decoded items with TWO tails — the typed read's condition where the
  receiver still expects a packet (the `[]` case of `run`), the generic read's condition
  (`Settle.genericTail`, what `assertEndOfStream`'s `Read(&x)` finds there) once it has accepted
  a final packet — and the proof that the receivers' results on the settled stream ARE the
  results of the reference composition, for every byte string `Codec` answers on.
  Core Lean only.
-/
import Saltpack.Proofs.CodecBytes

namespace Saltpack.Proofs
open Saltpack

/-- no final packet at the end of the decoded ones: `settle` hands `Codec`'s answer over unchanged
    (the receiver's next read is a typed one, whose outcome IS `Codec`'s tail) -/
theorem settle_of_not_lastFinal {η β : Type} (decH : Codec.Dec η) (decB : η → Option (Codec.Dec β)) (fin : η → β → Bool)
    (msg : Bytes) (hb : Bytes) (h : η) (ps : PStream β) (hl : Front.lastFinal (fin h) ps.items = false) :
    Front.settle decH decB fin msg (.ok (.ok hb h, ps)) = .ok (.ok hb h, ps) := by
  unfold Front.settle
  simp [hl]

namespace Settle

/-! ## the generic read at the place where the typed reads stop -/

/-- what a GENERIC read (`assertEndOfStream`: `Read(&x)`, `x interface{}`) finds at the position
    where `Codec.blocks dec fuel b` stops (same walk as `Codec.blocks`): the input ended there
    (typed read: `eof`) — `eof`; an object the typed decoder refuses: the generic decoder's own
    answer — `eof` if it runs into the end of the input, a decode error if it fails, and if it
    decodes an object that object is the item `none` of `Codec.blocks` (trailing garbage; nothing
    is read behind it: `eof`).  Only used in statements. -/
def genericTail {β : Type} (dec : Codec.Dec β) : Nat → Bytes → Tail
  | 0, _ => .eof
  | fuel + 1, b =>
    match dec b with
    | .ok (_, rest) => genericTail dec fuel rest
    | .error (.err _) =>
      (match Codec.generic b with
       | .error .eof => .eof
       | .error (.err _) => .err .decodeError
       | _ => .eof)
    | .error _ => .eof

/-- the same for a whole message: header packet first, as `Codec.split` reads it -/
def genericTailOf {η β : Type} (decH : Codec.Dec η) (decB : η → Option (Codec.Dec β)) (msg : Bytes) : Tail :=
  match Codec.readHeader decH msg with
  | .ok (.ok _ h, rest) =>
    (match decB h with
     | some d => genericTail d (rest.length + 1) rest
     | none => .eof)
  | _ => .eof

/-- bridge between `settle`'s test and the generic tail: where `truncatedStop` holds the typed
    tail is a decode error and the generic one a clean end; elsewhere the two tails coincide -/
theorem genericTail_blocks {β : Type} (d : Codec.Dec β) : ∀ (fuel : Nat) (b : Bytes) (ps : PStream β),
    Codec.blocks d fuel b = .ok ps →
    (Front.truncatedStop d fuel b = true → ps.tail = .err .decodeError ∧ genericTail d fuel b = .eof) ∧
    (Front.truncatedStop d fuel b = false → genericTail d fuel b = ps.tail) := by
  intro fuel
  induction fuel with
  | zero => intro b ps h; simp [Codec.blocks] at h
  | succ n ih =>
    intro b ps h
    simp only [Codec.blocks] at h
    simp only [Front.truncatedStop, genericTail]
    cases hd : d b with
    | ok xr =>
      obtain ⟨x, rest⟩ := xr
      simp only [hd] at h ⊢
      cases hb : Codec.blocks d n rest with
      | error w => simp [hb] at h
      | ok ps' =>
        simp only [hb] at h
        have := ih rest ps' hb
        cases h
        exact this
    | error e =>
      cases e with
      | eof => simp only [hd] at h ⊢; cases h; simp
      | unmodelled w => simp [hd] at h
      | err w =>
        simp only [hd] at h ⊢
        cases hg : Codec.generic b with
        | ok y => simp only [hg] at h ⊢; cases h; simp
        | error e' =>
          cases e' with
          | eof => simp only [hg] at h ⊢; cases h; simp
          | unmodelled w' => simp [hg] at h
          | err w' => simp only [hg] at h ⊢; cases h; simp

/-- the place where the typed reads stop: the input left when `dec` fails for the first time -/
def stopAt {β : Type} (dec : Codec.Dec β) : Nat → Bytes → Bytes
  | 0, b => b
  | fuel + 1, b =>
    match dec b with
    | .ok (_, rest) => stopAt dec fuel rest
    | .error _ => b

/-- `genericTail` and `Codec.blocks`' tail described AT the stop position `s = stopAt …`, without
    the walk: the typed read fails at `s`; if it says the input ended, both tails are `eof`;
    otherwise `Codec.generic s` decides — an object: it is the last item (`none`, never a final
    packet) and nothing is read behind it; end of input: typed tail decode error, generic tail
    clean end (the one case where they differ); a failure: both a decode error. -/
theorem tails_at_stop {β : Type} (d : Codec.Dec β) : ∀ (fuel : Nat) (b : Bytes) (ps : PStream β),
    Codec.blocks d fuel b = .ok ps →
    (d (stopAt d fuel b) = .error .eof ∧ ps.tail = .eof ∧ genericTail d fuel b = .eof) ∨
    (∃ w, d (stopAt d fuel b) = .error (.err w) ∧
      ((∃ y pre, Codec.generic (stopAt d fuel b) = .ok y ∧ ps.items = pre ++ [none] ∧ ps.tail = .eof) ∨
       (Codec.generic (stopAt d fuel b) = .error .eof ∧ ps.tail = .err .decodeError ∧ genericTail d fuel b = .eof) ∨
       (∃ w', Codec.generic (stopAt d fuel b) = .error (.err w') ∧ ps.tail = .err .decodeError ∧
          genericTail d fuel b = .err .decodeError))) := by
  intro fuel
  induction fuel with
  | zero => intro b ps h; simp [Codec.blocks] at h
  | succ n ih =>
    intro b ps h
    simp only [Codec.blocks] at h
    simp only [stopAt, genericTail]
    cases hd : d b with
    | ok xr =>
      obtain ⟨x, rest⟩ := xr
      simp only [hd] at h ⊢
      cases hb : Codec.blocks d n rest with
      | error w => simp [hb] at h
      | ok ps' =>
        simp only [hb] at h
        cases h
        rcases ih rest ps' hb with h1 | ⟨w, hw, h2 | h2 | h2⟩
        · exact .inl h1
        · obtain ⟨y, pre, hy, hi, ht⟩ := h2
          exact .inr ⟨w, hw, .inl ⟨y, some x :: pre, hy, by simp [hi], ht⟩⟩
        · exact .inr ⟨w, hw, .inr (.inl h2)⟩
        · exact .inr ⟨w, hw, .inr (.inr h2)⟩
    | error e =>
      cases e with
      | eof => simp only [hd] at h ⊢; cases h; simp
      | unmodelled w => simp [hd] at h
      | err w =>
        simp only [hd] at h ⊢
        cases hg : Codec.generic b with
        | ok y => simp only [hg] at h ⊢; cases h; exact .inr ⟨w, rfl, .inl ⟨y, [], rfl, rfl, rfl⟩⟩
        | error e' =>
          cases e' with
          | eof => simp only [hg] at h ⊢; cases h; simp
          | unmodelled w' => simp [hg] at h
          | err w' => simp only [hg] at h ⊢; cases h; simp

/-! ## `lastFinal` -/

theorem lastFinal_nil {β : Type} (fin : β → Bool) : Front.lastFinal fin [] = false := rfl

theorem lastFinal_single {β : Type} (fin : β → Bool) (x : Option β) :
    Front.lastFinal fin [x] = (match x with | some b => fin b | none => false) := by
  cases x <;> simp [Front.lastFinal]

theorem lastFinal_cons_cons {β : Type} (fin : β → Bool) (x y : Option β) (rest : List (Option β)) :
    Front.lastFinal fin (x :: y :: rest) = Front.lastFinal fin (y :: rest) := by
  simp [Front.lastFinal, List.getLast?_cons_cons]

/-- a final packet that is not the last decoded item: the end-of-stream check answers from the
    items, whatever the tail -/
theorem endOfStream_cons {β : Type} (x : Option β) (rest : List (Option β)) (t : Tail) :
    Decrypt.endOfStream (x :: rest) t = some .trailingGarbage := rfl

/-- what `settle` does to `Codec.split`'s answer: the items stay, the tail becomes the generic
    one exactly when the last decoded packet is final -/
theorem settle_spec {η β : Type} (decH : Codec.Dec η) (decB : η → Option (Codec.Dec β)) (fin : η → β → Bool)
    (msg : Bytes) (hr : HeaderRead η) (ps : PStream β) (h : Codec.split decH decB msg = .ok (hr, ps)) :
    ∃ t, Front.settle decH decB fin msg (.ok (hr, ps)) = .ok (hr, ⟨ps.items, t⟩) ∧
      ∀ hb hd, hr = .ok hb hd →
        (Front.lastFinal (fin hd) ps.items = true → t = genericTailOf decH decB msg) ∧
        (Front.lastFinal (fin hd) ps.items = false → t = ps.tail) := by
  cases hr with
  | unreadable => exact ⟨ps.tail, rfl, fun _ _ e => by cases e⟩
  | undecodable x => exact ⟨ps.tail, rfl, fun _ _ e => by cases e⟩
  | ok hb hd =>
    cases hl : Front.lastFinal (fin hd) ps.items with
    | false =>
      refine ⟨ps.tail, settle_of_not_lastFinal decH decB fin msg hb hd ps hl, ?_⟩
      intro hb' hd' e
      cases e
      simp [hl]
    | true =>
      -- what `split` read
      unfold Codec.split at h
      cases hrh : Codec.readHeader decH msg with
      | error w => simp [hrh] at h
      | ok p =>
        obtain ⟨hr', rest⟩ := p
        cases hr' with
        | unreadable => simp [hrh] at h
        | undecodable x => simp [hrh] at h
        | ok hb' hd' =>
          simp only [hrh] at h
          cases hdb : decB hd' with
          | none =>
            simp only [hdb] at h
            cases h
            simp [Front.lastFinal] at hl
          | some d =>
            simp only [hdb] at h
            cases hbl : Codec.blocks d (rest.length + 1) rest with
            | error w => simp [hbl] at h
            | ok ps' =>
              simp only [hbl] at h
              cases h
              have hg : genericTailOf decH decB msg = genericTail d (rest.length + 1) rest := by
                simp [genericTailOf, hrh, hdb]
              have hbr := genericTail_blocks d _ _ _ hbl
              cases hts : Front.truncatedStop d (rest.length + 1) rest with
              | true =>
                obtain ⟨ht, hgt⟩ := hbr.1 hts
                refine ⟨.eof, ?_, ?_⟩
                · simp [Front.settle, ht, hl, hrh, hdb, hts]
                · intro hb'' hd'' e
                  cases e
                  simp [hl, hg, hgt]
              | false =>
                have hgt := hbr.2 hts
                refine ⟨ps.tail, ?_, ?_⟩
                · simp [Front.settle, hl, hrh, hdb, hts]
                · intro hb'' hd'' e
                  cases e
                  simp [hl, hg, hgt]

/-! ## signcryption -/

/-- REFERENCE run of the signcryption receiver: `Signcrypt.run`, reading the `typed` tail where
    it expects a further packet and the `generic` one in `assertEndOfStream` (after a final packet) -/
def runSc2 (P : Prims) (s : Signcrypt.State) : List (Option SigncryptBlock) → (typed generic : Tail) → (seqno : Nat) → Released
  | [], typed, _, _ =>
    match typed with
    | .eof => ⟨[], some .unexpectedEOF⟩
    | .err e => ⟨[], some e⟩
  | none :: _, _, _, _ => ⟨[], some .decodeError⟩
  | some b :: rest, typed, generic, seqno =>
    match Signcrypt.processBlock P s b seqno with
    | .error e => ⟨[], some e⟩
    | .ok chunk =>
      match checkChunkState v2 chunk.length (seqno - 1) b.final with
      | .error e => ⟨[], some e⟩
      | .ok () =>
        if b.final then ⟨chunk, Decrypt.endOfStream rest generic⟩
        else
          let r := runSc2 P s rest typed generic (seqno + 1)
          ⟨chunk ++ r.bytes, r.err⟩

/-- reference composition for `NewSigncryptOpenStream` + read to the end -/
def refOpenSc (P : Prims) (kr : Keyring) (res : Signcrypt.Resolver) (hr : HeaderRead EncHeader)
    (items : List (Option SigncryptBlock)) (typed generic : Tail) : Signcrypt.Result :=
  match hr with
  | .unreadable => ⟨none, [], some .failedToReadHeaderBytes, []⟩
  | .undecodable _ => ⟨none, [], some .decodeError, []⟩
  | .ok hb h =>
    match Signcrypt.processHeader P kr res (P.hash hb) h with
    | (log, .error e) => ⟨none, [], some e, log⟩
    | (log, .ok st) =>
      let r := runSc2 P st items typed generic 1
      ⟨st.sender, r.bytes, r.err, log⟩

/-- one tail in both places: the receiver's own run -/
theorem runSc2_same (P : Prims) (s : Signcrypt.State) (items : List (Option SigncryptBlock)) (t : Tail) (n : Nat) :
    runSc2 P s items t t n = Signcrypt.run P s items t n := by
  induction items generalizing n with
  | nil => cases t <;> rfl
  | cons x rest ih =>
    cases x with
    | none => rfl
    | some b =>
      simp only [runSc2, Signcrypt.run]
      cases Signcrypt.processBlock P s b n with
      | error e => rfl
      | ok chunk =>
        simp only []
        cases checkChunkState v2 chunk.length (n - 1) b.final with
        | error e => rfl
        | ok u => simp only [ih]

/-- case 2 — the last decoded packet is final: the typed tail is never consulted -/
theorem runSc2_lastFinal (P : Prims) (s : Signcrypt.State) (items : List (Option SigncryptBlock)) (typed generic : Tail)
    (n : Nat) (hl : Front.lastFinal (fun b : SigncryptBlock => b.final) items = true) :
    runSc2 P s items typed generic n = Signcrypt.run P s items generic n := by
  induction items generalizing n with
  | nil => simp [Front.lastFinal] at hl
  | cons x rest ih =>
    cases x with
    | none => rfl
    | some b =>
      simp only [runSc2, Signcrypt.run]
      cases Signcrypt.processBlock P s b n with
      | error e => rfl
      | ok chunk =>
        simp only []
        cases checkChunkState v2 chunk.length (n - 1) b.final with
        | error e => rfl
        | ok u =>
          simp only []
          by_cases hf : b.final = true
          · simp only [hf, if_true]
          · have : Front.lastFinal (fun b : SigncryptBlock => b.final) rest = true := by
              cases rest with
              | nil => rw [lastFinal_single] at hl; exact absurd hl hf
              | cons y r => rwa [lastFinal_cons_cons] at hl
            simp only [hf, if_false, ih _ this]

/-- cases 1 and 3 — the last decoded item is not a final packet: the generic tail is never
    consulted (a final packet further left is followed by an item: trailing garbage, whatever the tail) -/
theorem runSc2_not_lastFinal (P : Prims) (s : Signcrypt.State) (items : List (Option SigncryptBlock)) (typed generic : Tail)
    (n : Nat) (hl : Front.lastFinal (fun b : SigncryptBlock => b.final) items = false) :
    runSc2 P s items typed generic n = Signcrypt.run P s items typed n := by
  induction items generalizing n with
  | nil => cases typed <;> rfl
  | cons x rest ih =>
    cases x with
    | none => rfl
    | some b =>
      simp only [runSc2, Signcrypt.run]
      cases Signcrypt.processBlock P s b n with
      | error e => rfl
      | ok chunk =>
        simp only []
        cases checkChunkState v2 chunk.length (n - 1) b.final with
        | error e => rfl
        | ok u =>
          simp only []
          by_cases hf : b.final = true
          · simp only [hf, if_true]
            cases rest with
            | nil => rw [lastFinal_single] at hl; simp [hf] at hl
            | cons y r => rfl
          · have : Front.lastFinal (fun b : SigncryptBlock => b.final) rest = false := by
              cases rest with
              | nil => rfl
              | cons y r => rwa [lastFinal_cons_cons] at hl
            simp [hf, ih _ this]

/-- **`settle` is transparent for the signcryption receiver** -/
theorem settle_transparent_sc (P : Prims) (kr : Keyring) (res : Signcrypt.Resolver) (msg : Bytes)
    (hr : HeaderRead EncHeader) (ps : PStream SigncryptBlock) (h : Codec.splitSigncrypt msg = .ok (hr, ps)) :
    Signcrypt.openBytes P kr res msg =
      .ok (refOpenSc P kr res hr ps.items ps.tail
            (genericTailOf Codec.decEncHeader (fun _ => some Codec.decSigncryptBlock) msg)) := by
  obtain ⟨t, hs, ht⟩ := settle_spec Codec.decEncHeader (fun _ => some Codec.decSigncryptBlock)
    (fun _ (b : SigncryptBlock) => b.final) msg hr ps h
  unfold Signcrypt.openBytes Front.readSigncrypt
  rw [h, hs]
  simp only [Front.orWire]
  congr 1
  cases hr with
  | unreadable => rfl
  | undecodable x => rfl
  | ok hb hd =>
    simp only [Signcrypt.openStream, refOpenSc]
    obtain ⟨h1, h2⟩ := ht hb hd rfl
    have key : ∀ st, Signcrypt.run P st ps.items t 1 = runSc2 P st ps.items ps.tail
        (genericTailOf Codec.decEncHeader (fun _ => some Codec.decSigncryptBlock) msg) 1 := by
      intro st
      cases hl : Front.lastFinal (fun b : SigncryptBlock => b.final) ps.items with
      | true => rw [h1 hl, runSc2_lastFinal P _ _ _ _ _ hl]
      | false => rw [h2 hl, runSc2_not_lastFinal P _ _ _ _ _ hl]
    rcases Signcrypt.processHeader P kr res (P.hash hb) hd with ⟨log, e | st⟩
    · rfl
    · simp only [key]

/-! ## attached signatures -/

/-- REFERENCE run of the verifying receiver: `Sign.run` with the `typed` tail where a further
    packet is expected and the `generic` one in `assertEndOfStream` -/
def runSig2 (P : Prims) (s : Sign.State) : List (Option SigBlock) → (typed generic : Tail) → (seqno : Nat) → Released
  | [], typed, _, _ =>
    match typed with
    | .eof => ⟨[], some .unexpectedEOF⟩
    | .err e => ⟨[], some e⟩
  | none :: _, _, _, _ => ⟨[], some .decodeError⟩
  | some b :: rest, typed, generic, seqno =>
    let isFinal := Sign.blockFinal s.version b
    match Sign.processBlock P s b isFinal seqno with
    | .error e => ⟨[], some e⟩
    | .ok () =>
      match checkChunkState s.version b.chunk.length (seqno - 1) isFinal with
      | .error e => ⟨[], some e⟩
      | .ok () =>
        if isFinal then ⟨b.chunk, Decrypt.endOfStream rest generic⟩
        else
          let r := runSig2 P s rest typed generic (seqno + 1)
          ⟨b.chunk ++ r.bytes, r.err⟩

/-- reference composition for `NewVerifyStream` + read to the end -/
def refVerify (P : Prims) (valid : Validator) (kr : Keyring) (hr : HeaderRead SigHeader)
    (items : List (Option SigBlock)) (typed generic : Tail) : Sign.Result :=
  match hr with
  | .unreadable => ⟨none, [], some .failedToReadHeaderBytes⟩
  | .undecodable _ => ⟨none, [], some .decodeError⟩
  | .ok hb h =>
    match Sign.validate valid h mtAttached with
    | .error e => ⟨none, [], some e⟩
    | .ok () =>
      match kr.lookupSigningPublicKey h.senderPublic with
      | none => ⟨none, [], some .noSenderKey⟩
      | some pk =>
        if h.version.major != 1 && h.version.major != 2 then
          ⟨some pk, [], some (.panic "readSignatureBlock")⟩
        else
          let r := runSig2 P ⟨h.version, P.hash hb, pk⟩ items typed generic 1
          ⟨some pk, r.bytes, r.err⟩

theorem runSig2_same (P : Prims) (s : Sign.State) (items : List (Option SigBlock)) (t : Tail) (n : Nat) :
    runSig2 P s items t t n = Sign.run P s items t n := by
  induction items generalizing n with
  | nil => cases t <;> rfl
  | cons x rest ih =>
    cases x with
    | none => rfl
    | some b =>
      simp only [runSig2, Sign.run]
      cases Sign.processBlock P s b (Sign.blockFinal s.version b) n with
      | error e => rfl
      | ok u =>
        simp only []
        cases checkChunkState s.version b.chunk.length (n - 1) (Sign.blockFinal s.version b) with
        | error e => rfl
        | ok u => simp only [ih]

/-- case 2 — the last decoded packet is final: the typed tail is never consulted -/
theorem runSig2_lastFinal (P : Prims) (s : Sign.State) (items : List (Option SigBlock)) (typed generic : Tail)
    (n : Nat) (hl : Front.lastFinal (Sign.blockFinal s.version) items = true) :
    runSig2 P s items typed generic n = Sign.run P s items generic n := by
  induction items generalizing n with
  | nil => simp [Front.lastFinal] at hl
  | cons x rest ih =>
    cases x with
    | none => rfl
    | some b =>
      simp only [runSig2, Sign.run]
      cases Sign.processBlock P s b (Sign.blockFinal s.version b) n with
      | error e => rfl
      | ok u =>
        simp only []
        cases checkChunkState s.version b.chunk.length (n - 1) (Sign.blockFinal s.version b) with
        | error e => rfl
        | ok u =>
          simp only []
          by_cases hf : Sign.blockFinal s.version b = true
          · simp only [hf, if_true]
          · have : Front.lastFinal (Sign.blockFinal s.version) rest = true := by
              cases rest with
              | nil => rw [lastFinal_single] at hl; exact absurd hl hf
              | cons y r => rwa [lastFinal_cons_cons] at hl
            simp [hf, ih _ this]

/-- cases 1 and 3 — the last decoded item is not a final packet: the generic tail is never consulted -/
theorem runSig2_not_lastFinal (P : Prims) (s : Sign.State) (items : List (Option SigBlock)) (typed generic : Tail)
    (n : Nat) (hl : Front.lastFinal (Sign.blockFinal s.version) items = false) :
    runSig2 P s items typed generic n = Sign.run P s items typed n := by
  induction items generalizing n with
  | nil => cases typed <;> rfl
  | cons x rest ih =>
    cases x with
    | none => rfl
    | some b =>
      simp only [runSig2, Sign.run]
      cases Sign.processBlock P s b (Sign.blockFinal s.version b) n with
      | error e => rfl
      | ok u =>
        simp only []
        cases checkChunkState s.version b.chunk.length (n - 1) (Sign.blockFinal s.version b) with
        | error e => rfl
        | ok u =>
          simp only []
          by_cases hf : Sign.blockFinal s.version b = true
          · simp only [hf, if_true]
            cases rest with
            | nil => rw [lastFinal_single] at hl; simp [hf] at hl
            | cons y r => rfl
          · have : Front.lastFinal (Sign.blockFinal s.version) rest = false := by
              cases rest with
              | nil => rfl
              | cons y r => rwa [lastFinal_cons_cons] at hl
            simp [hf, ih _ this]

/-- **`settle` is transparent for the verifying receiver (attached signatures)** -/
theorem settle_transparent_sig (P : Prims) (valid : Validator) (kr : Keyring) (msg : Bytes)
    (hr : HeaderRead SigHeader) (ps : PStream SigBlock) (h : Codec.splitSig msg = .ok (hr, ps)) :
    Sign.verifyBytes P valid kr msg =
      .ok (refVerify P valid kr hr ps.items ps.tail
            (genericTailOf Codec.decSigHeader
              (fun h => if Codec.majorOK h.version.major then some (Codec.decSigBlock h.version.major) else none) msg)) := by
  obtain ⟨t, hs, ht⟩ := settle_spec Codec.decSigHeader
    (fun h => if Codec.majorOK h.version.major then some (Codec.decSigBlock h.version.major) else none)
    (fun h (b : SigBlock) => Sign.blockFinal h.version b) msg hr ps h
  unfold Sign.verifyBytes Front.readSig
  rw [h, hs]
  simp only [Front.orWire]
  congr 1
  cases hr with
  | unreadable => rfl
  | undecodable x => rfl
  | ok hb hd =>
    simp only [Sign.verifyStream, refVerify]
    obtain ⟨h1, h2⟩ := ht hb hd rfl
    have key : ∀ pk, Sign.run P ⟨hd.version, P.hash hb, pk⟩ ps.items t 1 =
        runSig2 P ⟨hd.version, P.hash hb, pk⟩ ps.items ps.tail
        (genericTailOf Codec.decSigHeader
          (fun h => if Codec.majorOK h.version.major then some (Codec.decSigBlock h.version.major) else none) msg) 1 := by
      intro pk
      cases hl : Front.lastFinal (Sign.blockFinal hd.version) ps.items with
      | true => rw [h1 hl]; exact (runSig2_lastFinal P ⟨hd.version, P.hash hb, pk⟩ _ _ _ _ hl).symm
      | false => rw [h2 hl]; exact (runSig2_not_lastFinal P ⟨hd.version, P.hash hb, pk⟩ _ _ _ _ hl).symm
    cases Sign.validate valid hd mtAttached with
    | error e => rfl
    | ok u =>
      simp only []
      cases kr.lookupSigningPublicKey hd.senderPublic with
      | none => rfl
      | some pk => simp only [key]

/-! ## encryption -/

/-- REFERENCE run of the decrypting receiver: `Decrypt.run` with the `typed` tail where a further
    packet is expected and the `generic` one in `assertEndOfStream` -/
def runEnc2 (P : Prims) (s : Decrypt.State) : List (Option EncBlock) → (typed generic : Tail) → (seqno : Nat) → Released
  | [], typed, _, _ =>
    match typed with
    | .eof => ⟨[], some .unexpectedEOF⟩
    | .err e => ⟨[], some e⟩
  | none :: _, _, _, _ => ⟨[], some .decodeError⟩
  | some b :: rest, typed, generic, seqno =>
    let isFinal := Decrypt.blockFinal s.version b
    match Decrypt.processBlock P s b isFinal seqno with
    | .error e => ⟨[], some e⟩
    | .ok chunk =>
      match checkChunkState s.version chunk.length (seqno - 1) isFinal with
      | .error e => ⟨[], some e⟩
      | .ok () =>
        if isFinal then ⟨chunk, Decrypt.endOfStream rest generic⟩
        else
          let r := runEnc2 P s rest typed generic (seqno + 1)
          ⟨chunk ++ r.bytes, r.err⟩

/-- reference composition for `NewDecryptStream` + read to the end -/
def refOpenEnc (P : Prims) (valid : Validator) (kr : Keyring) (hr : HeaderRead EncHeader)
    (items : List (Option EncBlock)) (typed generic : Tail) : Decrypt.Result :=
  match hr with
  | .unreadable => ⟨none, [], some .failedToReadHeaderBytes, []⟩
  | .undecodable _ => ⟨none, [], some .decodeError, []⟩
  | .ok hb h =>
    match Decrypt.processHeader P valid kr (P.hash hb) h with
    | (log, .error e) => ⟨none, [], some e, log⟩
    | (log, .ok st) =>
      let r := runEnc2 P st items typed generic 1
      ⟨some st.mki, r.bytes, r.err, log⟩

theorem runEnc2_same (P : Prims) (s : Decrypt.State) (items : List (Option EncBlock)) (t : Tail) (n : Nat) :
    runEnc2 P s items t t n = Decrypt.run P s items t n := by
  induction items generalizing n with
  | nil => cases t <;> rfl
  | cons x rest ih =>
    cases x with
    | none => rfl
    | some b =>
      simp only [runEnc2, Decrypt.run]
      cases Decrypt.processBlock P s b (Decrypt.blockFinal s.version b) n with
      | error e => rfl
      | ok chunk =>
        simp only []
        cases checkChunkState s.version chunk.length (n - 1) (Decrypt.blockFinal s.version b) with
        | error e => rfl
        | ok u => simp only [ih]

/-- case 2 — the last decoded packet is final: the typed tail is never consulted -/
theorem runEnc2_lastFinal (P : Prims) (s : Decrypt.State) (items : List (Option EncBlock)) (typed generic : Tail)
    (n : Nat) (hl : Front.lastFinal (Decrypt.blockFinal s.version) items = true) :
    runEnc2 P s items typed generic n = Decrypt.run P s items generic n := by
  induction items generalizing n with
  | nil => simp [Front.lastFinal] at hl
  | cons x rest ih =>
    cases x with
    | none => rfl
    | some b =>
      simp only [runEnc2, Decrypt.run]
      cases Decrypt.processBlock P s b (Decrypt.blockFinal s.version b) n with
      | error e => rfl
      | ok chunk =>
        simp only []
        cases checkChunkState s.version chunk.length (n - 1) (Decrypt.blockFinal s.version b) with
        | error e => rfl
        | ok u =>
          simp only []
          by_cases hf : Decrypt.blockFinal s.version b = true
          · simp only [hf, if_true]
          · have : Front.lastFinal (Decrypt.blockFinal s.version) rest = true := by
              cases rest with
              | nil => rw [lastFinal_single] at hl; exact absurd hl hf
              | cons y r => rwa [lastFinal_cons_cons] at hl
            simp [hf, ih _ this]

/-- cases 1 and 3 — the last decoded item is not a final packet: the generic tail is never consulted -/
theorem runEnc2_not_lastFinal (P : Prims) (s : Decrypt.State) (items : List (Option EncBlock)) (typed generic : Tail)
    (n : Nat) (hl : Front.lastFinal (Decrypt.blockFinal s.version) items = false) :
    runEnc2 P s items typed generic n = Decrypt.run P s items typed n := by
  induction items generalizing n with
  | nil => cases typed <;> rfl
  | cons x rest ih =>
    cases x with
    | none => rfl
    | some b =>
      simp only [runEnc2, Decrypt.run]
      cases Decrypt.processBlock P s b (Decrypt.blockFinal s.version b) n with
      | error e => rfl
      | ok chunk =>
        simp only []
        cases checkChunkState s.version chunk.length (n - 1) (Decrypt.blockFinal s.version b) with
        | error e => rfl
        | ok u =>
          simp only []
          by_cases hf : Decrypt.blockFinal s.version b = true
          · simp only [hf, if_true]
            cases rest with
            | nil => rw [lastFinal_single] at hl; simp [hf] at hl
            | cons y r => rfl
          · have : Front.lastFinal (Decrypt.blockFinal s.version) rest = false := by
              cases rest with
              | nil => rfl
              | cons y r => rwa [lastFinal_cons_cons] at hl
            simp [hf, ih _ this]

/-- **`settle` is transparent for the decrypting receiver** -/
theorem settle_transparent_enc (P : Prims) (valid : Validator) (kr : Keyring) (msg : Bytes)
    (hr : HeaderRead EncHeader) (ps : PStream EncBlock) (h : Codec.splitEnc msg = .ok (hr, ps)) :
    Decrypt.openBytes P valid kr msg =
      .ok (refOpenEnc P valid kr hr ps.items ps.tail
            (genericTailOf Codec.decEncHeader
              (fun h => if Codec.majorOK h.version.major then some (Codec.decEncBlock h.version.major) else none) msg)) := by
  obtain ⟨t, hs, ht⟩ := settle_spec Codec.decEncHeader
    (fun h => if Codec.majorOK h.version.major then some (Codec.decEncBlock h.version.major) else none)
    (fun h (b : EncBlock) => Decrypt.blockFinal h.version b) msg hr ps h
  unfold Decrypt.openBytes Front.readEnc
  rw [h, hs]
  simp only [Front.orWire]
  congr 1
  cases hr with
  | unreadable => rfl
  | undecodable x => rfl
  | ok hb hd =>
    simp only [Decrypt.openStream, refOpenEnc]
    obtain ⟨h1, h2⟩ := ht hb hd rfl
    have key : ∀ st : Decrypt.State, st.version = hd.version → Decrypt.run P st ps.items t 1 =
        runEnc2 P st ps.items ps.tail
        (genericTailOf Codec.decEncHeader
          (fun h => if Codec.majorOK h.version.major then some (Codec.decEncBlock h.version.major) else none) msg) 1 := by
      intro st hv
      rw [← hv] at h1 h2
      cases hl : Front.lastFinal (Decrypt.blockFinal st.version) ps.items with
      | true => rw [h1 hl]; exact (runEnc2_lastFinal P st _ _ _ _ hl).symm
      | false => rw [h2 hl]; exact (runEnc2_not_lastFinal P st _ _ _ _ hl).symm
    rcases hph : Decrypt.processHeader P valid kr (P.hash hb) hd with ⟨log, e | st⟩
    · rfl
    · simp only [key st (dec_processHeader_version P valid kr _ hd log st hph)]

end Settle

end Saltpack.Proofs
