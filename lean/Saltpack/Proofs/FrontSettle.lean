/-
  Saltpack.Proofs.FrontSettle — `Front.settle` against the receivers (see notes/ext-r4.md for
  what is proved and what is not).  Core Lean only.
-/
import Saltpack.Proofs.CodecBytes

namespace Saltpack.Proofs
open Saltpack

/-- no final packet at the end of the decoded ones: `settle` hands `Codec`'s answer over unchanged
    (the receiver's next read is a typed one, whose outcome IS `Codec`'s tail) -/
theorem settle_of_not_lastFinal {η β : Type} (decH : Codec.Dec η) (decB : η → Option (Codec.Dec β)) (fin : η → β → Bool)
    (msg : Bytes) (hb : Bytes) (h : η) (ps : PStream β) (hl : Front.lastFinal (fin h) ps.items = false) :
    Front.settle decH decB fin msg (.ok (.ok hb h, ps)) = .ok (.ok hb h, ps) := by
  unfold Front.settle
  simp [hl]

end Saltpack.Proofs
