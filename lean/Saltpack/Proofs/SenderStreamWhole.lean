/-
  Whole-run statements about the sender streams (audit finding 9/10):

    * the call during which an underlying write fails returns the WRITER'S
      error (`.ioError`) — not merely "something ≠ nil", which in the model also
      covers the `.panic` marker;
    * `Close` returns nil ⇒ the constructor succeeded and EVERY earlier `Write`
      returned nil (so "success means written" needs `Close = nil` only);
    * a `Write` never fails with one of the stream's own panics;
    * the error of a failed `Write` of a stream with the `err` field is recorded
      and returned by every later `Write` — in EVERY state, no ghost invariant;
    * the detached-signature stream, run level.

  Behind Props/C14Sender.lean, Props/C14More.lean.
-/
import Saltpack.Proofs.SenderStreamArmor
import Saltpack.Proofs.ArmoredSenderMore

namespace Saltpack.Proofs.SenderP
open Saltpack Saltpack.Sender

/-! ## the faulting call returns the writer's error -/

section io
variable {ω : Type} (wr : ω → Bytes → Bool × ω) (flt : ω → Nat)

theorem emit_flt_io (hw : FltWriter wr flt) (cfg : Cfg) (f : Bool) (st : PSt ω)
    (h : flt (emitBlock wr cfg f st).2.codec.w ≠ flt st.codec.w) : (emitBlock wr cfg f st).1 = some .ioError := by
  generalize hres : emitBlock wr cfg f st = r at h ⊢
  unfold emitBlock at hres
  by_cases hr : readPanics cfg.v1shape f cfg.bs (st.buf.take cfg.bs).length (st.buf.drop cfg.bs).length = true
  · simp only [hr, if_true] at hres
    subst hres
    exact absurd rfl h
  · simp only [hr, Bool.false_eq_true, if_false] at hres
    cases hpk : cfg.pkt st.n (st.buf.take cfg.bs) f with
    | error e =>
      simp only [hpk] at hres
      subst hres
      exact absurd rfl h
    | ok b =>
      simp only [hpk] at hres
      by_cases ha : assertPanics cfg.v1shape cfg.assertExtra f (st.buf.take cfg.bs).length st.n = true
      · simp only [ha, if_true] at hres
        subst hres
        exact absurd rfl h
      · simp only [ha, Bool.false_eq_true, if_false] at hres
        have hfl := encode_flt wr flt hw cfg.pieces st.codec b
        cases he : Codec.encode wr cfg.pieces st.codec b with
        | mk ok c' =>
          rw [he] at hfl
          simp only [he] at hres
          cases ok with
          | true =>
            simp only at hres
            subst hres
            exact absurd (hfl.1 rfl) h
          | false =>
            simp only at hres
            subst hres
            rfl

theorem writeLoop_flt_io (hw : FltWriter wr flt) (cfg : Cfg) (len : Nat) : ∀ (fuel : Nat) (st : PSt ω),
    flt (writeLoop wr cfg len fuel st).2.2.codec.w ≠ flt st.codec.w →
      (writeLoop wr cfg len fuel st).2.1 = some .ioError := by
  intro fuel
  induction fuel with
  | zero => intro st h; exact absurd rfl h
  | succ fuel ih =>
    intro st
    unfold writeLoop
    by_cases hgt : st.buf.length > cfg.bs
    · rw [if_pos hgt]
      have h1 := (emit_flt wr flt hw cfg false st).1
      have h2 := emit_flt_io wr flt hw cfg false st
      cases he : emitBlock wr cfg false st with
      | mk r st' =>
        rw [he] at h1 h2
        simp only at h1 h2
        cases r with
        | none =>
          simp only
          intro h
          exact ih st' (by rw [h1 rfl]; exact h)
        | some e =>
          simp only
          intro h
          have : flt st'.codec.w ≠ flt st.codec.w := by
            by_cases hh : cfg.hasErr = true
            · simpa [hh] using h
            · simpa [hh] using h
          rw [h2 this]
    · rw [if_neg hgt]
      intro h; exact absurd rfl h

/-- the `Write` during which an underlying write fails returns the writer's error -/
theorem write_flt_io (hw : FltWriter wr flt) (cfg : Cfg) (st : PSt ω) (p : Bytes)
    (h : flt (st.write wr cfg p).2.2.codec.w ≠ flt st.codec.w) : (st.write wr cfg p).2.1 = some .ioError := by
  unfold PSt.write at h ⊢
  cases he : (if cfg.hasErr then st.err else none) with
  | some e => rw [he] at h; exact absurd rfl h
  | none =>
    rw [he] at h
    exact writeLoop_flt_io wr flt hw cfg p.length _ { st with buf := st.buf ++ p } h

/-- the `Close` during which an underlying write fails returns the writer's error -/
theorem close_flt_io (hw : FltWriter wr flt) (cfg : Cfg) (st : PSt ω)
    (h : flt (st.close wr cfg).2.codec.w ≠ flt st.codec.w) : (st.close wr cfg).1 = some .ioError := by
  unfold PSt.close at h ⊢
  by_cases hv : cfg.v1shape = true
  · simp only [hv, if_true] at h ⊢
    by_cases hgt : st.buf.length > 0
    · simp only [hgt, if_true] at h ⊢
      have h1 := (emit_flt wr flt hw cfg false st).1
      have h2 := emit_flt_io wr flt hw cfg false st
      cases he : emitBlock wr cfg false st with
      | mk r st1 =>
        rw [he] at h1 h2 h
        simp only at h1 h2 h ⊢
        cases r with
        | some e => simp only at h ⊢; rw [h2 h]
        | none =>
          simp only at h ⊢
          by_cases hg2 : st1.buf.length > 0
          · rw [if_pos hg2] at h
            exact absurd (h1 rfl) h
          · rw [if_neg hg2] at h ⊢
            exact emit_flt_io wr flt hw cfg true st1 (by rw [h1 rfl]; exact h)
    · simp only [hgt, if_false] at h ⊢
      exact emit_flt_io wr flt hw cfg true st h
  · simp only [hv, Bool.false_eq_true, if_false] at h ⊢
    exact emit_flt_io wr flt hw cfg true st h

theorem writes_flt_io (hw : FltWriter wr flt) (cfg : Cfg) : ∀ (ps : List Bytes) (st : PSt ω),
    flt (PSt.writes wr cfg st ps).2.codec.w ≠ flt st.codec.w →
      ∃ x ∈ (PSt.writes wr cfg st ps).1, x.2 = some .ioError := by
  intro ps
  induction ps with
  | nil => intro st h; exact absurd rfl h
  | cons p ps ih =>
    intro st h
    unfold PSt.writes at h ⊢
    simp only at h ⊢
    by_cases h1 : flt (st.write wr cfg p).2.2.codec.w = flt st.codec.w
    · obtain ⟨x, hx, hxe⟩ := ih _ (by rw [h1]; exact h)
      exact ⟨x, List.mem_cons_of_mem _ hx, hxe⟩
    · exact ⟨_, List.mem_cons_self, write_flt_io wr flt hw cfg st p h1⟩

/-- **whole run, any fault-counting writer**: if the count of failed underlying
    writes changed between the start and the end of the run, then the
    constructor failed, or a `Write` returned the writer's error, or `Close`
    returned the writer's error — the call in which it happened -/
theorem run_fault_io (hw : FltWriter wr flt) (cfg : Cfg) (w0 : ω) (hbytes : Bytes) (ws : List Bytes)
    (h : flt ((PSt.writes wr cfg (PSt.init wr cfg.pieces w0 hbytes).2 ws).2.close wr cfg).2.codec.w ≠ flt w0) :
    (PSt.init wr cfg.pieces w0 hbytes).1 = false ∨
    (∃ x ∈ (PSt.writes wr cfg (PSt.init wr cfg.pieces w0 hbytes).2 ws).1, x.2 = some .ioError) ∨
    ((PSt.writes wr cfg (PSt.init wr cfg.pieces w0 hbytes).2 ws).2.close wr cfg).1 = some .ioError := by
  cases hi : (PSt.init wr cfg.pieces w0 hbytes).1 with
  | false => exact Or.inl rfl
  | true =>
    right
    have h0 := (faultSeen_init wr flt hw cfg.pieces w0 hbytes).2 hi
    by_cases h1 : flt (PSt.writes wr cfg (PSt.init wr cfg.pieces w0 hbytes).2 ws).2.codec.w =
        flt (PSt.init wr cfg.pieces w0 hbytes).2.codec.w
    · right
      exact close_flt_io wr flt hw cfg _ (by rw [h1, h0]; exact h)
    · left
      exact writes_flt_io wr flt hw cfg ws _ h1

end io

/-! ## the error of a failed `Write` is recorded and sticky — every state -/

section sticky
variable {ω : Type} (wr : ω → Bytes → Bool × ω)

theorem writeLoop_err_recorded (cfg : Cfg) (hh : cfg.hasErr = true) (len : Nat) : ∀ (fuel : Nat) (st : PSt ω) (e : Err),
    (writeLoop wr cfg len fuel st).2.1 = some e →
      (writeLoop wr cfg len fuel st).1 = 0 ∧ (writeLoop wr cfg len fuel st).2.2.err = some e := by
  intro fuel
  induction fuel with
  | zero => intro st e h; cases h
  | succ fuel ih =>
    intro st e
    unfold writeLoop
    by_cases hgt : st.buf.length > cfg.bs
    · rw [if_pos hgt]
      cases he : emitBlock wr cfg false st with
      | mk r st' =>
        cases r with
        | none => exact ih st' e
        | some e' =>
          simp only [hh, if_true]
          intro h
          injection h with h
          subst h
          exact ⟨trivial, rfl⟩
    · rw [if_neg hgt]
      intro h; cases h

/-- **a failed `Write` of a stream with the `err` field (`encryptStream`,
    `signcryptSealStream`) returns `n = 0` and records its error — in EVERY
    state `st`** (no invariant needed: `Write` stores whatever `encryptBlock`
    returned, and a refused `Write` returns the stored error) -/
theorem write_err_recorded (cfg : Cfg) (hh : cfg.hasErr = true) (st : PSt ω) (p : Bytes) (e : Err)
    (h : (st.write wr cfg p).2.1 = some e) : (st.write wr cfg p).1 = 0 ∧ (st.write wr cfg p).2.2.err = some e := by
  unfold PSt.write at h ⊢
  simp only [hh, if_true] at h ⊢
  cases hs : st.err with
  | some e' =>
    rw [hs] at h
    simp only at h ⊢
    injection h with h
    subst h
    exact ⟨trivial, hs⟩
  | none =>
    rw [hs] at h
    exact writeLoop_err_recorded wr cfg hh p.length _ _ e h

/-- once `err` is set every later `Write` returns it and does nothing -/
theorem writes_sticky (cfg : Cfg) (hh : cfg.hasErr = true) (e : Err) : ∀ (ps : List Bytes) (st : PSt ω),
    st.err = some e → PSt.writes wr cfg st ps = (ps.map (fun _ => (0, some e)), st) := by
  intro ps
  induction ps with
  | nil => intro st _; rfl
  | cons p ps ih =>
    intro st he
    have h1 : st.write wr cfg p = (0, some e, st) := by
      unfold PSt.write
      simp [hh, he]
    unfold PSt.writes
    simp only [h1, List.map_cons]
    rw [ih st he]

/-- **sticky, run level, every state**: if a `Write` of a stream with the `err`
    field returns an error `e`, every later `Write` — any number, any
    arguments — returns `(0, e)` and changes nothing -/
theorem write_error_sticky_run (cfg : Cfg) (hh : cfg.hasErr = true) (st : PSt ω) (p : Bytes) (e : Err)
    (h : (st.write wr cfg p).2.1 = some e) (ps : List Bytes) :
    PSt.writes wr cfg (st.write wr cfg p).2.2 ps = (ps.map (fun _ => (0, some e)), (st.write wr cfg p).2.2) :=
  writes_sticky wr cfg hh e ps _ (write_err_recorded wr cfg hh st p e h).2

/-- a `Write` never fails with one of the stream's own panics: in EVERY state
    whose stored error (if the stream has one) is none, an error returned by
    `Write` is the writer's or one the packet function returned -/
theorem writeLoop_error_kinds (cfg : Cfg) (hb : 0 < cfg.bs) (len : Nat) : ∀ (fuel : Nat) (st : PSt ω) (e : Err),
    (writeLoop wr cfg len fuel st).2.1 = some e → e = .ioError ∨ ∃ i c f, cfg.pkt i c f = .error e := by
  intro fuel
  induction fuel with
  | zero => intro st e h; cases h
  | succ fuel ih =>
    intro st e
    unfold writeLoop
    by_cases hgt : st.buf.length > cfg.bs
    · rw [if_pos hgt]
      have hclen : (st.buf.take cfg.bs).length = cfg.bs := by rw [List.length_take]; omega
      have hnp := readPanics_full cfg.v1shape cfg.assertExtra cfg.bs (st.buf.drop cfg.bs).length st.n hb
      generalize hres : emitBlock wr cfg false st = r
      unfold emitBlock at hres
      by_cases hr : readPanics cfg.v1shape false cfg.bs (st.buf.take cfg.bs).length (st.buf.drop cfg.bs).length = true
      · rw [hclen, hnp.1] at hr; cases hr
      · simp only [hr, Bool.false_eq_true, if_false] at hres
        cases hpk : cfg.pkt st.n (st.buf.take cfg.bs) false with
        | error e' =>
          simp only [hpk] at hres
          subst hres
          simp only
          intro h
          have : e' = e := by
            by_cases hh : cfg.hasErr = true
            · simpa [hh] using h
            · simpa [hh] using h
          subst this
          exact Or.inr ⟨_, _, _, hpk⟩
        | ok b =>
          simp only [hpk] at hres
          by_cases ha : assertPanics cfg.v1shape cfg.assertExtra false (st.buf.take cfg.bs).length st.n = true
          · rw [hclen, hnp.2] at ha; cases ha
          · simp only [ha, Bool.false_eq_true, if_false] at hres
            cases he : Codec.encode wr cfg.pieces st.codec b with
            | mk ok c' =>
              simp only [he] at hres
              cases ok with
              | true =>
                simp only at hres
                subst hres
                exact ih _ e
              | false =>
                simp only at hres
                subst hres
                simp only
                intro h
                left
                by_cases hh : cfg.hasErr = true
                · simpa [hh] using h.symm
                · simpa [hh] using h.symm
    · rw [if_neg hgt]
      intro h; cases h

theorem write_error_kinds (cfg : Cfg) (hb : 0 < cfg.bs) (st : PSt ω) (p : Bytes) (e : Err)
    (hs : cfg.hasErr = true → st.err = none) (h : (st.write wr cfg p).2.1 = some e) :
    e = .ioError ∨ ∃ i c f, cfg.pkt i c f = .error e := by
  unfold PSt.write at h
  have h0 : (if cfg.hasErr then st.err else none) = none := by
    by_cases hh : cfg.hasErr = true
    · simp [hh, hs hh]
    · simp [hh]
  rw [h0] at h
  exact writeLoop_error_kinds wr cfg hb p.length _ _ e h

end sticky

/-! ## `Close` returns nil ⇒ every earlier call returned nil -/

section closeok
variable {ω : Type} (wr : ω → Bytes → Bool × ω) (obs : ω → Bytes)

theorem dead_writes (hw : ObsWriter wr obs) (cfg : Cfg) (hp : ∀ b, (cfg.pieces b).flatten = b) :
    ∀ (ps : List Bytes) (st : PSt ω), Dead cfg st → Dead cfg (PSt.writes wr cfg st ps).2 := by
  intro ps
  induction ps with
  | nil => intro st h; exact h
  | cons p ps ih =>
    intro st h
    unfold PSt.writes
    exact ih _ (dead_write wr obs hw cfg hp st p h).2

/-- from a healthy settled state: every `Write` returned nil, or the stream is dead at the end -/
theorem alive_writes_cases (hw : ObsWriter wr obs) (cfg : Cfg) (hp : ∀ b, (cfg.pieces b).flatten = b)
    (hb : 0 < cfg.bs) (hif : IndexFail cfg.pkt) (v : Version) (hdr : Bytes) (ps : List Bytes) :
    ∀ (T : Bytes) (E : List Bytes) (st : PSt ω), AliveE obs cfg hdr T E st → (st.buf = [] → E = []) →
      (∀ x ∈ (PSt.writes wr cfg st ps).1, x.2 = none) ∨ Dead cfg (PSt.writes wr cfg st ps).2 := by
  induction ps with
  | nil => intro T E st _ _; left; intro x hx; simp [PSt.writes] at hx
  | cons p ps ih =>
    intro T E st ha hne
    rcases alive_write wr obs hw cfg hp hb hif v hdr T E st p ha hne with ⟨_, h2, E', ha', _, hne'⟩ | ⟨_, e, _, hd, _⟩
    · rcases ih (T ++ p) E' _ ha' hne' with h | h
      · left
        intro x hx
        simp only [PSt.writes, List.mem_cons] at hx
        rcases hx with rfl | hx
        · exact h2
        · exact h x hx
      · right
        simpa [PSt.writes] using h
    · right
      have := dead_writes wr obs hw cfg hp ps _ hd
      simpa [PSt.writes] using this

/-- **`Close` returns nil ⇒ the constructor succeeded and every `Write`
    returned nil** (whatever the caller did with the results) -/
theorem close_ok_all_ok (hw : ObsWriter wr obs) (cfg : Cfg) (hp : ∀ b, (cfg.pieces b).flatten = b)
    (hb : 0 < cfg.bs) (hif : IndexFail cfg.pkt) (w0 : ω) (hbytes : Bytes) (ws : List Bytes)
    (hc : ((PSt.writes wr cfg (PSt.init wr cfg.pieces w0 hbytes).2 ws).2.close wr cfg).1 = none) :
    (PSt.init wr cfg.pieces w0 hbytes).1 = true ∧
    ∀ x ∈ (PSt.writes wr cfg (PSt.init wr cfg.pieces w0 hbytes).2 ws).1, x.2 = none := by
  rcases init_inv wr obs hw cfg hp v1 w0 hbytes with ⟨hi, ha, _⟩ | ⟨_, hd, _⟩
  · refine ⟨hi, ?_⟩
    rcases alive_writes_cases wr obs hw cfg hp hb hif v1 _ ws [] [] _ ha (fun _ => rfl) with h | hd
    · exact h
    · exact absurd hc (dead_close wr obs hw cfg hp _ hd).1
  · exact absurd hc (dead_close wr obs hw cfg hp _ (dead_writes wr obs hw cfg hp ws _ hd)).1

/-- **`Close` returns nil ⇒ written** — no hypothesis on the other calls -/
theorem run_close_ok (hw : ObsWriter wr obs) (cfg : Cfg) (hp : ∀ b, (cfg.pieces b).flatten = b)
    (hb : 0 < cfg.bs) (hif : IndexFail cfg.pkt) (v : Version) (hv : cfg.v1shape = (v == v1))
    (w0 : ω) (hbytes : Bytes) (ws : List Bytes)
    (hc : ((PSt.writes wr cfg (PSt.init wr cfg.pieces w0 hbytes).2 ws).2.close wr cfg).1 = none) :
    (PSt.init wr cfg.pieces w0 hbytes).1 = true ∧
    ∃ B, planBytes cfg.pkt (Encrypt.chunkPlan v cfg.bs ws.flatten) 0 = .ok B ∧
      obs ((PSt.writes wr cfg (PSt.init wr cfg.pieces w0 hbytes).2 ws).2.close wr cfg).2.codec.w =
        obs w0 ++ headerPacket hbytes ++ B ∧
      (PSt.writes wr cfg (PSt.init wr cfg.pieces w0 hbytes).2 ws).1 = ws.map (fun p => (p.length, none)) := by
  obtain ⟨hi, hws⟩ := close_ok_all_ok wr obs hw cfg hp hb hif w0 hbytes ws hc
  exact ⟨hi, run_success wr obs hw cfg hp hb hif v hv w0 hbytes ws hi hws hc⟩

end closeok

/-! ## the detached-signature stream, run level -/

section det
variable {ω : Type} (wr : ω → Bytes → Bool × ω) (flt : ω → Nat)

/-- the constructor of the detached stream that returns a stream has seen no failing write -/
theorem det_init_flt (hw : FltWriter wr flt) (pieces : Bytes → List Bytes) (w0 : ω) (hbytes : Bytes) :
    ((DSt.init wr pieces w0 hbytes).1 = true → flt (DSt.init wr pieces w0 hbytes).2.codec.w = flt w0) ∧
    ((DSt.init wr pieces w0 hbytes).1 = false → (DSt.init wr pieces w0 hbytes).2.codec.failed = true) := by
  have hfl := encode_flt wr flt hw pieces ({ w := w0 } : Codec ω) (headerPacket hbytes)
  unfold DSt.init
  cases he : Codec.encode wr pieces ({ w := w0 } : Codec ω) (headerPacket hbytes) with
  | mk ok c =>
    rw [he] at hfl
    cases ok with
    | true => exact ⟨fun _ => hfl.1 rfl, fun h => (by cases h)⟩
    | false =>
      have hf := encode_false_failed wr pieces ({ w := w0 } : Codec ω) (headerPacket hbytes) (by rw [he])
      rw [he] at hf
      exact ⟨fun h => (by cases h), fun _ => hf⟩

theorem det_close_kinds (pieces : Bytes → List Bytes) (sp : Bytes → Bytes) (st : DSt ω) :
    (st.close wr pieces sp).1 = none ∨ (st.close wr pieces sp).1 = some .ioError := by
  unfold DSt.close
  cases he : Codec.encode wr pieces st.codec (sp st.msg) with
  | mk ok c => cases ok <;> simp

/-- **whole run of the detached stream**: if ANY underlying write failed —
    constructor or `Close` (`Write` only hashes) — the constructor failed or
    `Close` returned the writer's error; and `Close` = nil ⇒ the constructor
    succeeded -/
theorem det_run_fault (hw : FltWriter wr flt) (pieces : Bytes → List Bytes) (sp : Bytes → Bytes) (w0 : ω)
    (hbytes : Bytes) (ws : List Bytes) :
    (flt ((DSt.writes (DSt.init wr pieces w0 hbytes).2 ws).2.close wr pieces sp).2.codec.w ≠ flt w0 →
      (DSt.init wr pieces w0 hbytes).1 = false ∨
      ((DSt.writes (DSt.init wr pieces w0 hbytes).2 ws).2.close wr pieces sp).1 = some .ioError) ∧
    (((DSt.writes (DSt.init wr pieces w0 hbytes).2 ws).2.close wr pieces sp).1 = none →
      (DSt.init wr pieces w0 hbytes).1 = true) := by
  obtain ⟨i1, i2⟩ := det_init_flt wr flt hw pieces w0 hbytes
  have hcl := det_close_flt wr flt hw pieces sp (DSt.writes (DSt.init wr pieces w0 hbytes).2 ws).2
  have hcodec : (DSt.writes (DSt.init wr pieces w0 hbytes).2 ws).2.codec = (DSt.init wr pieces w0 hbytes).2.codec := by
    rw [(det_writes ws _).1]
  constructor
  · intro h
    cases hi : (DSt.init wr pieces w0 hbytes).1 with
    | false => exact Or.inl rfl
    | true =>
      right
      rcases det_close_kinds wr pieces sp (DSt.writes (DSt.init wr pieces w0 hbytes).2 ws).2 with hn | he
      · exfalso
        apply h
        rw [hcl.1 hn, hcodec, i1 hi]
      · exact he
  · intro hn
    cases hi : (DSt.init wr pieces w0 hbytes).1 with
    | true => rfl
    | false =>
      have := (hcl.2.1 (by rw [hcodec]; exact i2 hi)).1
      rw [hn] at this; cases this

end det

/-! ## the armored compositions: `Close` = nil alone -/

/-- armored packet stream: `closeForwarder.Close` returns nil ⇒ the packet
    stream's constructor succeeded and every `Write` returned nil -/
theorem armored_close_ok_all_ok (cfg : Cfg) (hp : ∀ b, (cfg.pieces b).flatten = b) (hb : 0 < cfg.bs)
    (hif : IndexFail cfg.pkt) (a0 : FArm) (headerBytes : Bytes) (ws : List Bytes)
    (hc : (armoredClose cfg (PSt.writes FArm.write cfg (PSt.init FArm.write cfg.pieces a0 headerBytes).2 ws).2).1 = none) :
    (PSt.init FArm.write cfg.pieces a0 headerBytes).1 = true ∧
    ∀ x ∈ (PSt.writes FArm.write cfg (PSt.init FArm.write cfg.pieces a0 headerBytes).2 ws).1, x.2 = none := by
  have hπ := hist_proj a0
  have hnil : a0 = farmRun a0 [] := rfl
  have e1 := proj_init FArm.write (histWrite a0) (farmRun a0) hπ cfg.pieces [] headerBytes
  rw [← hnil] at e1
  have e2 := proj_writes FArm.write (histWrite a0) (farmRun a0) hπ cfg ws (PSt.init (histWrite a0) cfg.pieces [] headerBytes).2
  have e3 := proj_close FArm.write (histWrite a0) (farmRun a0) hπ cfg
    (PSt.writes (histWrite a0) cfg (PSt.init (histWrite a0) cfg.pieces [] headerBytes).2 ws).2
  rw [e1] at hc ⊢
  simp only at hc ⊢
  rw [e2] at hc ⊢
  simp only at hc ⊢
  unfold armoredClose at hc
  rw [e3] at hc
  cases hcl : ((PSt.writes (histWrite a0) cfg (PSt.init (histWrite a0) cfg.pieces [] headerBytes).2 ws).2.close
      (histWrite a0) cfg).1 with
  | some e => rw [hcl] at hc; simp at hc
  | none => exact close_ok_all_ok (histWrite a0) (okBytes a0) (hist_obs a0) cfg hp hb hif [] headerBytes ws hcl

/-- armored detached stream: `Close` = nil ⇒ the constructor succeeded -/
theorem armored_det_close_ok (pieces : Bytes → List Bytes) (sp : Bytes → Bytes) (a0 : FArm) (headerBytes : Bytes)
    (ws : List Bytes)
    (hc : (armoredCloseD pieces sp (DSt.writes (DSt.init FArm.write pieces a0 headerBytes).2 ws).2).1 = none) :
    (DSt.init FArm.write pieces a0 headerBytes).1 = true := by
  apply (det_run_fault FArm.write (fun a => a.w.faults) farm_flt pieces sp a0 headerBytes ws).2
  unfold armoredCloseD at hc
  cases hcl : ((DSt.writes (DSt.init FArm.write pieces a0 headerBytes).2 ws).2.close FArm.write pieces sp).1 with
  | none => rfl
  | some e =>
    cases hh : (DSt.writes (DSt.init FArm.write pieces a0 headerBytes).2 ws).2.close FArm.write pieces sp with
    | mk r st' =>
      rw [hh] at hc hcl
      simp only at hcl
      subst hcl
      simp at hc

/-- **whole armored run**: if an underlying write failed after the armor
    constructor, the packet stream's constructor failed, or a `Write` returned
    the writer's error, or `closeForwarder.Close` returned the writer's error -/
theorem armored_run_fault_io (cfg : Cfg) (a0 : FArm) (headerBytes : Bytes) (ws : List Bytes)
    (h : (armoredClose cfg (PSt.writes FArm.write cfg (PSt.init FArm.write cfg.pieces a0 headerBytes).2 ws).2).2.codec.w.w.faults
      ≠ a0.w.faults) :
    (PSt.init FArm.write cfg.pieces a0 headerBytes).1 = false ∨
    (∃ x ∈ (PSt.writes FArm.write cfg (PSt.init FArm.write cfg.pieces a0 headerBytes).2 ws).1, x.2 = some .ioError) ∨
    (armoredClose cfg (PSt.writes FArm.write cfg (PSt.init FArm.write cfg.pieces a0 headerBytes).2 ws).2).1 = some .ioError := by
  have hrun := run_fault_io FArm.write (fun a => a.w.faults) farm_flt cfg a0 headerBytes ws
  unfold armoredClose at h ⊢
  cases hc : (PSt.writes FArm.write cfg (PSt.init FArm.write cfg.pieces a0 headerBytes).2 ws).2.close FArm.write cfg with
  | mk r st' =>
    rw [hc] at h hrun
    cases r with
    | some e =>
      simp only at h hrun ⊢
      rcases hrun h with h1 | h1 | h1
      · exact Or.inl h1
      · exact Or.inr (Or.inl h1)
      · exact Or.inr (Or.inr h1)
    | none =>
      simp only at h hrun ⊢
      have hf := farm_close_faults st'.codec.w
      cases hac : st'.codec.w.close with
      | mk ok a =>
        rw [hac] at h hf
        cases ok with
        | false => exact Or.inr (Or.inr rfl)
        | true =>
          simp only at h hf
          have hsame : a.w.faults = st'.codec.w.w.faults := by simpa using hf
          rcases hrun (by rw [← hsame]; exact h) with h1 | h1 | h1
          · exact Or.inl h1
          · exact Or.inr (Or.inl h1)
          · cases h1

end Saltpack.Proofs.SenderP
