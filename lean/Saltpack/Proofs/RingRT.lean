/-
  The general round trips of RingEnc / RingSig, instantiated for the sender
  models (`Encrypt.sealPackets`, `Signcrypt.sealPackets`, …) and for the emitted
  bytes (`Encrypt.sealWith`, `Signcrypt.sealWith`), and the single-key theorems of
  RoundTripEnc / RoundTripSig re-derived as corollaries.  Behind Props/C01, C03, C09.
-/
import Saltpack.Proofs.RingEnc
import Saltpack.Proofs.RingSig
import Saltpack.Proofs.AnyChunking
import Saltpack.Proofs.WireRT

namespace Saltpack.Proofs
open Saltpack Saltpack.Encrypt

/-! ## encryption -/

theorem encSent_of_sealPackets (P : Prims) (bs : Nat) {v : Version} (hv : v = v1 ∨ v = v2)
    (sender : Option Bytes) (rs : List Recipient) (eph pk pt : Bytes)
    (h : EncHeader) (hb : Bytes) (blks : List EncBlock)
    (hseal : sealPackets P bs v sender rs eph pk pt = .ok (h, hb, blks)) :
    EncSent P v 0 sender rs eph pk (chunkPlan v bs pt) h hb blks :=
  encSent_of_sealPacketsPlan P hv sender rs eph pk _ h hb blks hseal

/-- C01, any ring (cf. `enc_roundtrip`) -/
theorem enc_roundtrip_seal_ring (P : Prims) (hP : P.Lawful) (bs : Nat) (hbs : 0 < bs)
    (v : Version) (hv : v = v1 ∨ v = v2)
    (sender : Option Bytes) (rs : List Recipient) (eph payloadKey pt : Bytes)
    (hpk : payloadKey.length = 32)
    (hnamed : ∀ s, sender = some s → P.boxPub s ≠ P.boxPub eph)
    (hpub : ∀ r ∈ rs, r.hidden = false → r.pub ≠ [])
    (sks : List Bytes) (i : Nat) (hi : i < rs.length) (sk : Bytes) (hmem : sk ∈ sks)
    (hsk : (rs.getD i default).pub = P.boxPub sk)
    (hns : RingNoSpuriousOpen P v eph payloadKey rs sks)
    (h : EncHeader) (hb : Bytes) (blks : List EncBlock)
    (hseal : sealPackets P bs v sender rs eph payloadKey pt = .ok (h, hb, blks)) :
    ∃ i' sk', i' < rs.length ∧ sk' ∈ sks ∧ (rs.getD i' default).pub = P.boxPub sk' ∧
      Decrypt.openAll P knownMajor (faithfulKeyring P sks) (.ok hb h) ⟨blks.map some, .eof⟩ =
        .ok (mkiOf P sender rs eph i' sk', pt) := by
  have hplan := chunkPlan_valid v hv bs hbs pt
  have := enc_roundtrip_ring P hP v hv 0 sender rs eph payloadKey (chunkPlan v bs pt) hplan.final hplan.empty_v1
    hplan.empty_v2 hpk hnamed hpub sks i hi sk hmem hsk hns h hb blks
    (encSent_of_sealPackets P bs hv sender rs eph payloadKey pt h hb blks hseal)
  rwa [chunkPlan_flatten] at this

theorem enc_roundtrip_seal_ring_unique (P : Prims) (hP : P.Lawful) (bs : Nat) (hbs : 0 < bs)
    (v : Version) (hv : v = v1 ∨ v = v2)
    (sender : Option Bytes) (rs : List Recipient) (eph payloadKey pt : Bytes)
    (hpk : payloadKey.length = 32)
    (hnamed : ∀ s, sender = some s → P.boxPub s ≠ P.boxPub eph)
    (hpub : ∀ r ∈ rs, r.hidden = false → r.pub ≠ [])
    (sks : List Bytes) (i : Nat) (hi : i < rs.length) (sk : Bytes) (hmem : sk ∈ sks)
    (hsk : (rs.getD i default).pub = P.boxPub sk)
    (honly : ∀ s ∈ sks, ∀ j, j < rs.length → (rs.getD j default).pub = P.boxPub s → j = i ∧ s = sk)
    (hns : RingNoSpuriousOpen P v eph payloadKey rs sks)
    (h : EncHeader) (hb : Bytes) (blks : List EncBlock)
    (hseal : sealPackets P bs v sender rs eph payloadKey pt = .ok (h, hb, blks)) :
    Decrypt.openAll P knownMajor (faithfulKeyring P sks) (.ok hb h) ⟨blks.map some, .eof⟩ =
      .ok (mkiOf P sender rs eph i sk, pt) := by
  obtain ⟨i', sk', hi', hsk', hpe, hopen⟩ := enc_roundtrip_seal_ring P hP bs hbs v hv sender rs eph payloadKey pt
    hpk hnamed hpub sks i hi sk hmem hsk hns h hb blks hseal
  obtain ⟨rfl, rfl⟩ := honly sk' hsk' i' hi' hpe
  exact hopen

/-- the single-key theorem `enc_roundtrip` is the instance `sks = [sk]` -/
theorem enc_roundtrip_of_ring (P : Prims) (hP : P.Lawful) (bs : Nat) (hbs : 0 < bs)
    (v : Version) (hv : v = v1 ∨ v = v2)
    (sender : Option Bytes) (rs : List Recipient) (eph payloadKey pt : Bytes)
    (hpk : payloadKey.length = 32)
    (hnamed : ∀ s, sender = some s → P.boxPub s ≠ P.boxPub eph)
    (hpub : ∀ r ∈ rs, r.hidden = false → r.pub ≠ [])
    (i : Nat) (hi : i < rs.length) (sk : Bytes) (hsk : (rs.getD i default).pub = P.boxPub sk)
    (hns : NoSpuriousOpen P v eph payloadKey rs i sk)
    (h : EncHeader) (hb : Bytes) (blks : List EncBlock)
    (hseal : sealPackets P bs v sender rs eph payloadKey pt = .ok (h, hb, blks)) :
    Decrypt.openAll P knownMajor (faithfulKeyring P [sk]) (.ok hb h) ⟨blks.map some, .eof⟩ =
      .ok ({ senderKey := P.boxPub (sender.getD eph), senderIsAnon := sender.isNone,
             receiverKey := sk, receiverIsAnon := (rs.getD i default).hidden,
             namedReceivers := (rs.filter (fun r => !r.hidden)).map (·.pub),
             numAnonReceivers := if (rs.getD i default).hidden then (rs.filter (·.hidden)).length else 0 }, pt) := by
  obtain ⟨hcr, _⟩ := sealPackets_inv P bs v sender rs eph payloadKey pt h hb blks hseal
  obtain ⟨_, hnd⟩ := checkReceivers_inv hcr
  exact enc_roundtrip_seal_ring_unique P hP bs hbs v hv sender rs eph payloadKey pt hpk hnamed hpub [sk] i hi sk
    (by simp) hsk (honly_single P rs hnd i hi sk hsk) (RingNoSpuriousOpen.single hsk hns) h hb blks hseal

/-- C01 at byte level, any ring -/
theorem enc_roundtrip_bytes_ring (P : Prims) (hP : P.Lawful) (bs : Nat) (hbs : 0 < bs) (hbs32 : bs + 16 < 2 ^ 32)
    (v : Version) (hv : v = v1 ∨ v = v2)
    (sender : Option Bytes) (rs : List Recipient) (eph payloadKey pt : Bytes)
    (hpk : payloadKey.length = 32)
    (hnamed : ∀ s, sender = some s → P.boxPub s ≠ P.boxPub eph)
    (hpub : ∀ r ∈ rs, r.hidden = false → r.pub ≠ [])
    (sks : List Bytes) (i : Nat) (hi : i < rs.length) (sk : Bytes) (hmem : sk ∈ sks)
    (hsk : (rs.getD i default).pub = P.boxPub sk)
    (hns : RingNoSpuriousOpen P v eph payloadKey rs sks)
    (L : Nat) (hL : ∀ r ∈ rs, r.pub.length ≤ L) (hsmall : 145 + rs.length * (L + 63) < 2 ^ 32)
    (msg : Bytes) (hmsg : sealWith P bs v sender rs eph payloadKey pt = .ok msg) :
    ∃ hr ps, Wire.splitEnc msg = .ok (hr, ps) ∧
      ∃ i' sk', i' < rs.length ∧ sk' ∈ sks ∧ (rs.getD i' default).pub = P.boxPub sk' ∧
        Decrypt.openAll P knownMajor (faithfulKeyring P sks) hr ps = .ok (mkiOf P sender rs eph i' sk', pt) := by
  obtain ⟨h, hb, blks, body, hs, he, rfl⟩ := seal_bytes_are_packets_enc P bs v sender rs eph payloadKey pt msg hmsg
  have hS := WireSizes.of_lawful hP
  obtain ⟨_, hhdr, _, _, _⟩ := sealPackets_inv P bs v sender rs eph payloadKey pt h hb blks hs
  have hhbe := WireRT.sealPackets_hb P bs v sender rs eph payloadKey pt h hb blks hs
  have hhb : hb.length < 2 ^ 32 := by
    rw [hhbe]
    exact WireRT.enc_header_small P hS hv sender eph payloadKey hpk rs h hhdr L hL hsmall
  have hver : h.version = v := (header_spec P hv sender eph payloadKey rs h hhdr).2.1
  have hL' : ∀ r ∈ rs, r.pub.length < 2 ^ 32 := by
    intro r hr
    have := hL r hr
    have : 0 < rs.length := List.length_pos_iff.mpr (List.ne_nil_of_mem hr)
    have : 1 * (L + 63) ≤ rs.length * (L + 63) := Nat.mul_le_mul_right _ this
    omega
  refine ⟨_, _, wire_enc P hS bs hbs hbs32 v sender rs eph payloadKey pt (by omega) hL' h hb blks body hs he hhb, ?_⟩
  rw [← hver, WireRT.openAll_asRead]
  exact enc_roundtrip_seal_ring P hP bs hbs v hv sender rs eph payloadKey pt hpk hnamed hpub sks i hi sk hmem hsk
    hns h hb blks hs

theorem enc_roundtrip_bytes_ring_unique (P : Prims) (hP : P.Lawful) (bs : Nat) (hbs : 0 < bs)
    (hbs32 : bs + 16 < 2 ^ 32) (v : Version) (hv : v = v1 ∨ v = v2)
    (sender : Option Bytes) (rs : List Recipient) (eph payloadKey pt : Bytes)
    (hpk : payloadKey.length = 32)
    (hnamed : ∀ s, sender = some s → P.boxPub s ≠ P.boxPub eph)
    (hpub : ∀ r ∈ rs, r.hidden = false → r.pub ≠ [])
    (sks : List Bytes) (i : Nat) (hi : i < rs.length) (sk : Bytes) (hmem : sk ∈ sks)
    (hsk : (rs.getD i default).pub = P.boxPub sk)
    (honly : ∀ s ∈ sks, ∀ j, j < rs.length → (rs.getD j default).pub = P.boxPub s → j = i ∧ s = sk)
    (hns : RingNoSpuriousOpen P v eph payloadKey rs sks)
    (L : Nat) (hL : ∀ r ∈ rs, r.pub.length ≤ L) (hsmall : 145 + rs.length * (L + 63) < 2 ^ 32)
    (msg : Bytes) (hmsg : sealWith P bs v sender rs eph payloadKey pt = .ok msg) :
    ∃ hr ps, Wire.splitEnc msg = .ok (hr, ps) ∧
      Decrypt.openAll P knownMajor (faithfulKeyring P sks) hr ps = .ok (mkiOf P sender rs eph i sk, pt) := by
  obtain ⟨hr, ps, hsplit, i', sk', hi', hsk', hpe, hopen⟩ := enc_roundtrip_bytes_ring P hP bs hbs hbs32 v hv sender
    rs eph payloadKey pt hpk hnamed hpub sks i hi sk hmem hsk hns L hL hsmall msg hmsg
  obtain ⟨rfl, rfl⟩ := honly sk' hsk' i' hi' hpe
  exact ⟨hr, ps, hsplit, hopen⟩

/-! ## signcryption -/

theorem scSent_of_sealPackets (P : Prims) (bs : Nat) (sender : Option Bytes) (rs : List Signcrypt.Recipient)
    (eph pk pt : Bytes) (h : EncHeader) (hb : Bytes) (blks : List SigncryptBlock)
    (hseal : Signcrypt.sealPackets P bs sender rs eph pk pt = .ok (h, hb, blks)) :
    ScSent P 0 sender rs eph pk (chunkPlan v2 bs pt) h hb blks :=
  scSent_of_sealPacketsPlan P sender rs eph pk _ h hb blks hseal

theorem sc_roundtrip_box_seal_ring (P : Prims) (hP : P.Lawful) (bs : Nat) (hbs : 0 < bs)
    (sender : Option Bytes) (rs : List Signcrypt.Recipient) (eph payloadKey pt : Bytes)
    (hpk : payloadKey.length = 32)
    (hsender : ∀ s, sender = some s → ¬ ((P.sigPub s).all (· == 0)))
    (hblocks : (chunkPlan v2 bs pt).length < 2 ^ 64 - 1)
    (sks : List Bytes) (res : Signcrypt.Resolver)
    (i : Nat) (hi : i < rs.length) (sk : Bytes) (hmem : sk ∈ sks) (hsk : rs.getD i default = .box (P.boxPub sk))
    (h : EncHeader) (hb : Bytes) (blks : List SigncryptBlock)
    (hseal : Signcrypt.sealPackets P bs sender rs eph payloadKey pt = .ok (h, hb, blks))
    (hnc : ScRingNoCollision P eph rs h sks i) :
    Signcrypt.openAll P (faithfulKeyring P sks) res (.ok hb h) ⟨blks.map some, .eof⟩ =
      .ok (sender.map P.sigPub, pt) := by
  have hplan := chunkPlan_valid v2 (Or.inr rfl) bs hbs pt
  have := sc_roundtrip_box_ring P hP 0 sender rs eph payloadKey (chunkPlan v2 bs pt) hplan.final
    (hplan.empty_v2 rfl) hpk hsender hblocks sks res i hi sk hmem hsk h hb blks
    (scSent_of_sealPackets P bs sender rs eph payloadKey pt h hb blks hseal) hnc
  rwa [chunkPlan_flatten] at this

theorem sc_roundtrip_sym_seal_ring (P : Prims) (hP : P.Lawful) (bs : Nat) (hbs : 0 < bs)
    (sender : Option Bytes) (rs : List Signcrypt.Recipient) (eph payloadKey pt : Bytes)
    (hpk : payloadKey.length = 32)
    (hsender : ∀ s, sender = some s → ¬ ((P.sigPub s).all (· == 0)))
    (hblocks : (chunkPlan v2 bs pt).length < 2 ^ 64 - 1)
    (h : EncHeader) (hb : Bytes) (blks : List SigncryptBlock)
    (hseal : Signcrypt.sealPackets P bs sender rs eph payloadKey pt = .ok (h, hb, blks))
    (sks : List Bytes) (hfor : ScRingForeign P eph h sks)
    (f : List Bytes → Except Err (List (Option Bytes))) (keys : List (Option Bytes))
    (hf : f (h.receivers.map Decrypt.kidOf) = .ok keys) (hlen : keys.length = rs.length)
    (htrue : ∀ (j : Nat) (k : Bytes), keys[j]? = some (some k) → ∃ ident, rs[j]? = some (Signcrypt.Recipient.sym k ident))
    (hsome : ∃ (j : Nat) (k : Bytes), keys[j]? = some (some k)) :
    Signcrypt.openAll P (faithfulKeyring P sks) (some f) (.ok hb h) ⟨blks.map some, .eof⟩ =
      .ok (sender.map P.sigPub, pt) := by
  have hplan := chunkPlan_valid v2 (Or.inr rfl) bs hbs pt
  have := sc_roundtrip_sym_ring P hP 0 sender rs eph payloadKey (chunkPlan v2 bs pt) hplan.final
    (hplan.empty_v2 rfl) hpk hsender hblocks h hb blks
    (scSent_of_sealPackets P bs sender rs eph payloadKey pt h hb blks hseal) sks hfor f keys hf hlen htrue hsome
  rwa [chunkPlan_flatten] at this

theorem sc_no_key_seal_ring (P : Prims) (bs : Nat)
    (sender : Option Bytes) (rs : List Signcrypt.Recipient) (eph payloadKey pt : Bytes)
    (h : EncHeader) (hb : Bytes) (blks : List SigncryptBlock)
    (hseal : Signcrypt.sealPackets P bs sender rs eph payloadKey pt = .ok (h, hb, blks))
    (sks : List Bytes) (hfor : ScRingForeign P eph h sks)
    (res : Signcrypt.Resolver)
    (hres : ∀ f, res = some f → ∃ keys, f (h.receivers.map Decrypt.kidOf) = .ok keys ∧
      keys.length = rs.length ∧ ∀ k ∈ keys, k = none) :
    Signcrypt.openAll P (faithfulKeyring P sks) res (.ok hb h) ⟨blks.map some, .eof⟩ =
      .error .noDecryptionKey ∧
    (Signcrypt.openStream P (faithfulKeyring P sks) res (.ok hb h) ⟨blks.map some, .eof⟩).released = [] :=
  sc_no_key_ring P 0 sender rs eph payloadKey _ h hb blks
    (scSent_of_sealPackets P bs sender rs eph payloadKey pt h hb blks hseal) sks hfor res hres

/-- C03 at byte level, box-key recipient, any ring, any resolver -/
theorem sc_roundtrip_box_bytes_ring (P : Prims) (hP : P.Lawful) (bs : Nat) (hbs : 0 < bs) (hbs32 : bs + 80 < 2 ^ 32)
    (sender : Option Bytes) (rs : List Signcrypt.Recipient) (eph payloadKey pt : Bytes)
    (hpk : payloadKey.length = 32)
    (hsender : ∀ s, sender = some s → ¬ ((P.sigPub s).all (· == 0)))
    (hblocks : (chunkPlan v2 bs pt).length < 2 ^ 64 - 1)
    (sks : List Bytes) (res : Signcrypt.Resolver)
    (i : Nat) (hi : i < rs.length) (sk : Bytes) (hmem : sk ∈ sks) (hsk : rs.getD i default = .box (P.boxPub sk))
    (hnc : ScRingNoCollision P eph rs (Signcrypt.header P sender eph payloadKey rs) sks i)
    (L : Nat) (hL32 : 32 ≤ L)
    (hid : ∀ key ident, Signcrypt.Recipient.sym key ident ∈ rs → ident.length ≤ L)
    (hsmall : 145 + rs.length * (L + 63) < 2 ^ 32)
    (msg : Bytes) (hmsg : Signcrypt.sealWith P bs sender rs eph payloadKey pt = .ok msg) :
    ∃ hr ps, Wire.splitSigncrypt msg = .ok (hr, ps) ∧
      Signcrypt.openAll P (faithfulKeyring P sks) res hr ps = .ok (sender.map P.sigPub, pt) := by
  obtain ⟨hb, blks, hs, hsplit⟩ := WireRT.sc_bytes_split P hP bs hbs hbs32 sender rs eph payloadKey pt hpk L hL32 hid
    hsmall msg hmsg
  exact ⟨_, _, hsplit, sc_roundtrip_box_seal_ring P hP bs hbs sender rs eph payloadKey pt hpk hsender hblocks
    sks res i hi sk hmem hsk _ hb blks hs hnc⟩

/-- C03 at byte level, symmetric-key recipients, ring of foreign box keys -/
theorem sc_roundtrip_sym_bytes_ring (P : Prims) (hP : P.Lawful) (bs : Nat) (hbs : 0 < bs) (hbs32 : bs + 80 < 2 ^ 32)
    (sender : Option Bytes) (rs : List Signcrypt.Recipient) (eph payloadKey pt : Bytes)
    (hpk : payloadKey.length = 32)
    (hsender : ∀ s, sender = some s → ¬ ((P.sigPub s).all (· == 0)))
    (hblocks : (chunkPlan v2 bs pt).length < 2 ^ 64 - 1)
    (sks : List Bytes) (hfor : ScRingForeign P eph (Signcrypt.header P sender eph payloadKey rs) sks)
    (f : List Bytes → Except Err (List (Option Bytes))) (keys : List (Option Bytes))
    (hf : f ((Signcrypt.header P sender eph payloadKey rs).receivers.map Decrypt.kidOf) = .ok keys)
    (hlen : keys.length = rs.length)
    (htrue : ∀ (j : Nat) (k : Bytes), keys[j]? = some (some k) → ∃ ident, rs[j]? = some (Signcrypt.Recipient.sym k ident))
    (hsome : ∃ (j : Nat) (k : Bytes), keys[j]? = some (some k))
    (L : Nat) (hL32 : 32 ≤ L)
    (hid : ∀ key ident, Signcrypt.Recipient.sym key ident ∈ rs → ident.length ≤ L)
    (hsmall : 145 + rs.length * (L + 63) < 2 ^ 32)
    (msg : Bytes) (hmsg : Signcrypt.sealWith P bs sender rs eph payloadKey pt = .ok msg) :
    ∃ hr ps, Wire.splitSigncrypt msg = .ok (hr, ps) ∧
      Signcrypt.openAll P (faithfulKeyring P sks) (some f) hr ps = .ok (sender.map P.sigPub, pt) := by
  obtain ⟨hb, blks, hs, hsplit⟩ := WireRT.sc_bytes_split P hP bs hbs hbs32 sender rs eph payloadKey pt hpk L hL32 hid
    hsmall msg hmsg
  exact ⟨_, _, hsplit, sc_roundtrip_sym_seal_ring P hP bs hbs sender rs eph payloadKey pt hpk hsender hblocks
    _ hb blks hs sks hfor f keys hf hlen htrue hsome⟩

/-- the single-key theorem `sc_roundtrip_box` is the instance `sks = [sk]`, no resolver -/
theorem sc_roundtrip_box_of_ring (P : Prims) (hP : P.Lawful) (bs : Nat) (hbs : 0 < bs)
    (sender : Option Bytes) (rs : List Signcrypt.Recipient) (eph payloadKey pt : Bytes)
    (hpk : payloadKey.length = 32)
    (hsender : ∀ s, sender = some s → ¬ ((P.sigPub s).all (· == 0)))
    (hblocks : (chunkPlan v2 bs pt).length < 2 ^ 64 - 1)
    (i : Nat) (hi : i < rs.length) (sk : Bytes) (hsk : rs.getD i default = .box (P.boxPub sk))
    (h : EncHeader) (hb : Bytes) (blks : List SigncryptBlock)
    (hseal : Signcrypt.sealPackets P bs sender rs eph payloadKey pt = .ok (h, hb, blks))
    (hnc : ∀ j, j < i → Signcrypt.keyIdentifier P (Signcrypt.derivedKeyFromBoxKeys P (P.boxPub eph) sk) j ≠
        Decrypt.kidOf (h.receivers.getD j default)) :
    Signcrypt.openAll P (faithfulKeyring P [sk]) none (.ok hb h) ⟨blks.map some, .eof⟩ =
      .ok (sender.map P.sigPub, pt) :=
  sc_roundtrip_box_seal_ring P hP bs hbs sender rs eph payloadKey pt hpk hsender hblocks [sk] none i hi sk
    (by simp) hsk h hb blks hseal (ScRingNoCollision.single hsk hnc)

end Saltpack.Proofs
