/-
  `armorEncoderStream` (armor.go) as a per-call state machine over an
  underlying writer that never fails, and its write-split independence:
  whatever way the payload is split over `Write` calls, `Close` leaves exactly
  `Armor.sealText` in the output.  (Faults of the underlying writer are the
  business of property C14, not of this file.)
-/
import Saltpack.Proofs.StreamLemmas
import Saltpack.Model.ArmorWriter
import Saltpack.Proofs.BasexWF

namespace Saltpack.Proofs
open Saltpack Saltpack.Stream

/-! ## the spacer is a bufferer with block size `bytesPerWord` -/

/-- the separator written after the `n`-th word -/
def sepOf (par : Armor.Params) (n : Nat) : UInt8 :=
  if n % par.wordsPerLine = 0 then Armor.newline else Armor.space

/-- what `spaceAndOutputBuffer` writes for the words `W` when `k` words have
    been written before: every word followed by its separator -/
def emit (par : Armor.Params) : Nat → List Bytes → Bytes
  | _, [] => []
  | k, w :: ws => w ++ [sepOf par (k + 1)] ++ emit par (k + 1) ws

theorem emit_append (par : Armor.Params) : ∀ (W : List Bytes) (k : Nat) (w : Bytes),
    emit par k (W ++ [w]) = emit par k W ++ w ++ [sepOf par (k + W.length + 1)] := by
  intro W
  induction W with
  | nil => intro k w; simp [emit]
  | cons x W ih =>
    intro k w
    have hk : k + 1 + W.length + 1 = k + (W.length + 1) + 1 := by omega
    simp only [List.cons_append, emit, ih, List.length_cons, List.append_assoc, hk]

theorem spaceWords_cons2 (par : Armor.Params) (k : Nat) (x y : Bytes) (rest : List Bytes) :
    Armor.spaceWords par k (x :: y :: rest) =
      x ++ [sepOf par (k + 1)] ++ Armor.spaceWords par (k + 1) (y :: rest) := rfl

/-- the whole-text spacing of `W ++ [b]`: the words of `W` with their
    separators, then the last word bare -/
theorem spaceWords_snoc (par : Armor.Params) : ∀ (W : List Bytes) (k : Nat) (b : Bytes),
    Armor.spaceWords par k (W ++ [b]) = emit par k W ++ b := by
  intro W
  induction W with
  | nil => intro k b; simp [Armor.spaceWords, emit]
  | cons x W ih =>
    intro k b
    obtain ⟨y, rest, hy⟩ : ∃ y rest, W ++ [b] = y :: rest := by
      cases W with
      | nil => exact ⟨b, [], rfl⟩
      | cons y W' => exact ⟨y, W' ++ [b], rfl⟩
    rw [List.cons_append, hy, spaceWords_cons2, ← hy, ih]
    simp only [emit, List.append_assoc]

/-- `spaceAndOutputBuffer` is `Chunker.drain` with block size `bytesPerWord`
    on the buffer; the word count is the number of emitted blocks and the
    output grows by `emit` of the emitted blocks -/
theorem spaceOut_sim : ∀ (fuel : Nat) (s : ArmState) (c : Chunker),
    c.bs = s.par.bytesPerWord → c.buf = s.buf →
    (s.spaceOut fuel).par = s.par ∧ (s.spaceOut fuel).enc = s.enc ∧ (s.spaceOut fuel).ftr = s.ftr ∧
    (s.spaceOut fuel).buf = (Chunker.drain fuel c).buf ∧
    ∀ base : Bytes, s.nWords = c.emitted.length → s.out = base ++ emit s.par 0 c.emitted →
      (s.spaceOut fuel).nWords = (Chunker.drain fuel c).emitted.length ∧
      (s.spaceOut fuel).out = base ++ emit s.par 0 (Chunker.drain fuel c).emitted := by
  intro fuel
  induction fuel with
  | zero =>
    intro s c _ hb
    exact ⟨rfl, rfl, rfl, hb.symm, fun base hn ho => ⟨hn, ho⟩⟩
  | succ fuel ih =>
    intro s c hbs hb
    unfold ArmState.spaceOut Chunker.drain
    by_cases hgt : s.buf.length > s.par.bytesPerWord
    · have hgt' : c.buf.length > c.bs := by rw [hbs, hb]; exact hgt
      rw [if_pos hgt, if_pos hgt']
      simp only []
      obtain ⟨i1, i2, i3, i4, i5⟩ := ih
        { s with buf := s.buf.drop s.par.bytesPerWord, nWords := s.nWords + 1,
                 out := s.out ++ s.buf.take s.par.bytesPerWord ++
                   [if (s.nWords + 1) % s.par.wordsPerLine = 0 then Armor.newline else Armor.space] }
        { c with buf := c.buf.drop c.bs, emitted := c.emitted ++ [c.buf.take c.bs] } hbs
        (by simp only []; rw [hb, hbs])
      refine ⟨i1, i2, i3, i4, ?_⟩
      intro base hn ho
      apply i5 base
      · simp [hn]
      · simp only []
        rw [emit_append, ho, hb, hbs, hn]
        simp [sepOf]
    · have hgt' : ¬ c.buf.length > c.bs := by rw [hbs, hb]; exact hgt
      rw [if_neg hgt, if_neg hgt']
      exact ⟨rfl, rfl, rfl, hb.symm, fun base hn ho => ⟨hn, ho⟩⟩

/-- **bounded buffering**: after every `Write` at most one word of encoded
    characters is held back, whatever was written -/
theorem armorWriter_bounded (s : ArmState) (hw : 0 < s.par.bytesPerWord) (b : Bytes) :
    (s.write b).buf.length ≤ s.par.bytesPerWord := by
  unfold ArmState.write
  simp only []
  have hp : (s.feed (s.enc.write b).2.2).par = s.par := rfl
  generalize s.feed (s.enc.write b).2.2 = s1 at hp
  rw [← hp] at hw ⊢
  obtain ⟨_, _, _, h4, _⟩ := spaceOut_sim (s1.buf.length + 1) s1
    { bs := s1.par.bytesPerWord, buf := s1.buf } rfl rfl
  rw [h4]
  exact (drain_spec s1.par.bytesPerWord hw _ { bs := s1.par.bytesPerWord, buf := s1.buf } rfl (by simp)).1

/-! ## the invariant -/

/-- invariant of the armor writer: the spacer is a bufferer (block size
    `bytesPerWord`) of everything the encoder has produced so far -/
structure ArmInv (par : Armor.Params) (base ftr : Bytes) (s : ArmState) : Prop where
  hpar : s.par = par
  hftr : s.ftr = ftr
  ex : ∃ c : Chunker, ChInv par.bytesPerWord s.enc.written.flatten c ∧ c.buf = s.buf ∧
      s.nWords = c.emitted.length ∧ s.out = base ++ emit par 0 c.emitted

theorem armInv_init (par : Armor.Params) (hdr ftr : Bytes) :
    ArmInv par (hdr ++ [Armor.period, Armor.space]) ftr (ArmState.init par hdr ftr) :=
  ⟨rfl, rfl, { bs := par.bytesPerWord }, ⟨rfl, rfl, by simp, by simp, fun _ => rfl⟩, rfl, rfl,
    by simp [ArmState.init, emit]⟩

/-- an encoder call that only appends `D` to what the encoder has produced,
    followed by `spaceAndOutputBuffer`, keeps the invariant -/
theorem armInv_step (par : Armor.Params) (hw : 0 < par.bytesPerWord) (base ftr : Bytes) (s : ArmState)
    (h : ArmInv par base ftr s) (e' : EncState) (D : Bytes)
    (hD : e'.written.flatten = s.enc.written.flatten ++ D) :
    ArmInv par base ftr (ArmState.spaceOut ((s.feed e').buf.length + 1) (s.feed e')) ∧
    (ArmState.spaceOut ((s.feed e').buf.length + 1) (s.feed e')).enc = e' := by
  obtain ⟨hpar, hftr, c, hc, hcb, hn, ho⟩ := h
  have hbuf : (s.feed e').buf = s.buf ++ D := by
    show s.buf ++ e'.written.flatten.drop s.enc.written.flatten.length = _
    rw [hD, List.drop_left' rfl]
  have hpar1 : (s.feed e').par = par := hpar
  obtain ⟨i1, i2, i3, i4, i5⟩ := spaceOut_sim ((s.feed e').buf.length + 1) (s.feed e')
    { c with buf := c.buf ++ D } (by rw [hpar1]; exact hc.hbs) (by rw [hbuf, hcb])
  have hfuel : (s.feed e').buf.length + 1 = c.buf.length + D.length + 1 := by
    rw [hbuf, List.length_append, hcb]
  have hcw : Chunker.drain ((s.feed e').buf.length + 1) { c with buf := c.buf ++ D } = c.write D := by
    rw [hfuel]; rfl
  rw [hcw, hpar1] at i5
  rw [hcw] at i4
  obtain ⟨j1, j2⟩ := i5 base hn ho
  have hinv := chInv_write par.bytesPerWord hw _ c hc D
  rw [← hD] at hinv
  refine ⟨⟨i1.trans hpar1, i3.trans hftr, c.write D, ?_, i4.symm, j1, j2⟩, i2⟩
  rw [i2]
  exact hinv

/-! ## the encoder only appends -/

theorem encInv_grow (enc : Basex.Enc) (he : enc.WF) (T p : Bytes) (e e' : EncState)
    (h : EncInv enc T e) (h' : EncInv enc (T ++ p) e') :
    ∃ D, e'.written.flatten = e.written.flatten ++ D := by
  obtain ⟨_, _, _, hbd, A, ⟨a, ha⟩, hA2, hA3⟩ := h
  obtain ⟨_, _, _, hbd', A', ⟨a', ha'⟩, hA2', hA3'⟩ := h'
  have heq : A ++ (e.buf ++ p) = A' ++ e'.buf := by
    rw [← hA2', hA2, List.append_assoc]
  have hlen : A.length + (e.buf.length + p.length) = A'.length + e'.buf.length := by
    have := congrArg List.length heq
    simpa [List.length_append] using this
  have hle : A.length ≤ A'.length := by
    by_cases hlt : a ≤ a'
    · rw [ha, ha']; exact Nat.mul_le_mul_left _ hlt
    · exfalso
      have h1 : enc.blockLen * (a' + 1) ≤ enc.blockLen * a := Nat.mul_le_mul_left _ (by omega)
      rw [Nat.mul_succ] at h1
      omega
  have htake : A'.take A.length = A := by
    have h1 := congrArg (List.take A.length) heq
    rw [List.take_left' rfl, List.take_append_of_le_length hle] at h1
    exact h1.symm
  have hAA : A' = A ++ A'.drop A.length := by
    conv => lhs; rw [← List.take_append_drop A.length A', htake]
  refine ⟨Basex.encode enc (A'.drop A.length), ?_⟩
  rw [hA3', hA3, ← encode_append_of_dvd enc he A _ ⟨a, ha⟩, ← hAA]

theorem encInv_close (enc : Basex.Enc) (he : enc.WF) (T : Bytes) (e : EncState) (h : EncInv enc T e) :
    e.close.2.written.flatten = Basex.encode enc T ∧
    ∃ D, e.close.2.written.flatten = e.written.flatten ++ D := by
  obtain ⟨henc, hs, hf, hbd, A, hA1, hA2, hA3⟩ := h
  unfold EncState.close
  by_cases hb : e.buf = []
  · rw [if_neg (by simp [hb])]
    refine ⟨?_, [], by simp⟩
    show e.written.flatten = _
    rw [hA3, hA2, hb, List.append_nil]
  · rw [if_pos (by simp [hf, hb]), under_nofail _ _ hs]
    refine ⟨?_, Basex.encode e.enc e.buf, by simp⟩
    simp only [List.flatten_append, List.flatten_cons, List.flatten_nil, List.append_nil]
    rw [hA3, hA2, henc, encode_append_of_dvd enc he A _ hA1]

/-! ## write-split independence -/

theorem armInv_write (par : Armor.Params) (he : par.enc.WF) (hw : 0 < par.bytesPerWord) (base ftr T : Bytes)
    (s : ArmState) (h : ArmInv par base ftr s) (hE : EncInv par.enc T s.enc) (b : Bytes) :
    ArmInv par base ftr (s.write b) ∧ EncInv par.enc (T ++ b) (s.write b).enc := by
  have hE' := (encInv_write par.enc he T s.enc hE b).2
  obtain ⟨D, hD⟩ := encInv_grow par.enc he T b s.enc _ hE hE'
  obtain ⟨h1, h2⟩ := armInv_step par hw base ftr s h _ D hD
  refine ⟨h1, ?_⟩
  show EncInv par.enc (T ++ b) (ArmState.spaceOut _ (s.feed (s.enc.write b).2.2)).enc
  rw [h2]
  exact hE'

theorem armInv_fold (par : Armor.Params) (he : par.enc.WF) (hw : 0 < par.bytesPerWord) (base ftr : Bytes)
    (ws : List Bytes) : ∀ (T : Bytes) (s : ArmState), ArmInv par base ftr s → EncInv par.enc T s.enc →
    ArmInv par base ftr (ws.foldl ArmState.write s) ∧
    EncInv par.enc (T ++ ws.flatten) (ws.foldl ArmState.write s).enc := by
  induction ws with
  | nil => intro T s h hE; simpa using ⟨h, hE⟩
  | cons w ws ih =>
    intro T s h hE
    rw [List.foldl_cons, List.flatten_cons, ← List.append_assoc]
    obtain ⟨h1, h2⟩ := armInv_write par he hw base ftr T s h hE w
    exact ih _ _ h1 h2

/-- `Close` on a state that satisfies the invariants -/
theorem armInv_close (par : Armor.Params) (he : par.enc.WF) (hw : 0 < par.bytesPerWord) (hdr ftr T : Bytes)
    (s : ArmState) (h : ArmInv par (hdr ++ [Armor.period, Armor.space]) ftr s) (hE : EncInv par.enc T s.enc) :
    s.close.out = Armor.sealText par hdr ftr T := by
  obtain ⟨hcl, D, hD⟩ := encInv_close par.enc he T s.enc hE
  obtain ⟨⟨hpar, hftr, c, hc, hcb, hn, ho⟩, h2⟩ := armInv_step par hw _ ftr s h _ D hD
  unfold ArmState.close
  simp only []
  generalize ArmState.spaceOut ((s.feed s.enc.close.2).buf.length + 1) (s.feed s.enc.close.2) = s2
    at hpar hftr hc hcb hn ho h2
  rw [h2, hcl] at hc
  have hch := chInv_chunks par.bytesPerWord hw _ c hc
  unfold Armor.sealText
  simp only []
  rw [hch, hpar, hftr, ho, hn, ← hcb]
  by_cases h0 : c.buf = []
  · have hem := hc.ne h0
    have hne : ¬ (0 = par.bytesPerWord) := by omega
    simp [h0, hem, emit, Armor.spaceWords, hne]
  · have hne : (c.emitted ++ [c.buf]).isEmpty = false := by simp
    rw [if_neg h0, spaceWords_snoc, hne]
    simp

/-- **Write-split independence** of `armorEncoderStream`: whatever way the
    payload is split over `Write` calls (empty writes included), after `Close`
    the output is exactly the whole-text form `Armor.sealText` of the
    concatenation.  (`wordsPerLine = 0` needs no hypothesis: `n % 0 = n` on both
    sides; the Go code would panic there.) -/
theorem armorWriter_any_split (par : Armor.Params) (he : par.enc.WF) (hw : 0 < par.bytesPerWord)
    (hdr ftr : Bytes) (ws : List Bytes) :
    ((ws.foldl ArmState.write (ArmState.init par hdr ftr)).close).out =
      Armor.sealText par hdr ftr ws.flatten := by
  obtain ⟨h1, h2⟩ := armInv_fold par he hw _ ftr ws [] (ArmState.init par hdr ftr)
    (armInv_init par hdr ftr)
    ⟨rfl, rfl, rfl, he.block_pos, [], by simp, rfl, by simp [ArmState.init, encode_nil]⟩
  rw [List.nil_append] at h2
  exact armInv_close par he hw hdr ftr _ _ h1 h2

/-- the shipped parameters (`Armor62Params`: 15 characters per word, 200 words
    per line, base62) -/
theorem armorWriter62_any_split (typ : Int) (brand : Bytes) (ws : List Bytes) :
    ((ws.foldl ArmState.write
        (ArmState.init Armor.params62 (Armor.header typ brand) (Armor.footer typ brand))).close).out =
      Armor.seal62 typ brand ws.flatten :=
  armorWriter_any_split Armor.params62 (Basex.Enc.wf_of_check _ (by decide)) (by decide) _ _ ws

/-- bounded buffering along any run from `init`: the parameters never change,
    so at most `bytesPerWord` characters are held back after every `Write` -/
theorem armorWriter_run_bounded (par : Armor.Params) (hw : 0 < par.bytesPerWord) (hdr ftr : Bytes)
    (ws : List Bytes) (b : Bytes) :
    ((ws.foldl ArmState.write (ArmState.init par hdr ftr)).write b).buf.length ≤ par.bytesPerWord := by
  have hp : ∀ (ws : List Bytes) (s : ArmState), (ws.foldl ArmState.write s).par = s.par := by
    intro ws
    induction ws with
    | nil => intro s; rfl
    | cons w ws ih =>
      intro s
      rw [List.foldl_cons, ih]
      exact (spaceOut_sim _ (s.feed (s.enc.write w).2.2) { bs := s.par.bytesPerWord, buf := (s.feed (s.enc.write w).2.2).buf } rfl rfl).1
  have := armorWriter_bounded (ws.foldl ArmState.write (ArmState.init par hdr ftr)) (by rw [hp]; exact hw) b
  rw [hp] at this
  exact this

/-! ## examples (kernel-evaluated): the machine against `sealText` -/

/-- a toy parameter set: words of 2 characters, lines of 2 words -/
def toyArm : Armor.Params := ⟨2, 2, Gen.base62Std⟩

example : ((([] : List Bytes).foldl ArmState.write (ArmState.init toyArm [72] [70])).close).out
    = Armor.sealText toyArm [72] [70] [] := by decide
example : (([[1], [], [2, 3]].foldl ArmState.write (ArmState.init toyArm [72] [70])).close).out
    = Armor.sealText toyArm [72] [70] [1, 2, 3] := by decide
example : (([[1, 2, 3]].foldl ArmState.write (ArmState.init toyArm [72] [70])).close).out
    = [72, 46, 32, 48, 48, 32, 72, 66, 10, 76, 46, 32, 70, 46, 10] := by decide   -- "H. 00 HB\nL. F.\n"
/-- a full last word gets the pad -/
example : (([[], [255]].foldl ArmState.write (ArmState.init toyArm [72] [70])).close).out
    = Armor.sealText toyArm [72] [70] [255] := by decide
/-- `wordsPerLine = 0` (Go would panic): both sides use spaces only -/
example : (([[1, 2], [3]].foldl ArmState.write (ArmState.init ⟨2, 0, Gen.base62Std⟩ [72] [70])).close).out
    = Armor.sealText ⟨2, 0, Gen.base62Std⟩ [72] [70] [1, 2, 3] := by decide

end Saltpack.Proofs
