/-
  Every message a spec-following sender can produce is accepted (behind
  Props/C09): the receivers are agnostic to chunk sizes — they accept *any*
  chunk plan the specification allows, not only the 1 MiB one the Go sender
  chooses —, to the minor version, and to extra trailing list elements in
  headers, recipient pairs and payload packets.
-/
import Saltpack.Proofs.RoundTripEnc
import Saltpack.Proofs.RoundTripSig
import Saltpack.Proofs.MsgpackRT
import Saltpack.Proofs.PlanLemmas

namespace Saltpack.Proofs
open Saltpack Saltpack.Encrypt Saltpack.Msgpack

/-- a chunking the specifications allow: non-empty list of chunks, exactly the
    last one final; V1: the final chunk — and only it — is empty; V2: an empty
    chunk only as the sole chunk of an empty message -/
structure ValidPlan (v : Version) (plan : List (Bytes × Bool)) : Prop where
  final : ∃ pre c, plan = pre ++ [(c, true)] ∧ ∀ p ∈ pre, p.2 = false
  empty_v1 : v = v1 → ∀ p ∈ plan, (p.1 = [] ↔ p.2 = true)
  empty_v2 : v = v2 → ∀ p ∈ plan, p.1 = [] → plan = [([], true)]

/-- the Go sender's own plan is one of them -/
theorem chunkPlan_valid (v : Version) (hv : v = v1 ∨ v = v2) (bs : Nat) (hb : 0 < bs) (pt : Bytes) :
    ValidPlan v (chunkPlan v bs pt) := by
  have _ := hv
  refine ⟨chunkPlan_final v bs pt, ?_, ?_⟩
  · rintro rfl
    exact chunkPlan_empty_v1 bs hb pt
  · rintro rfl p hp he
    exact (chunkPlan_empty_v2 bs hb pt).2 ((chunkPlan_empty_v2 bs hb pt).1 p hp he)

/-- the sender model with its own plan is the special case -/
theorem sealPackets_eq_plan (P : Prims) (bs : Nat) (v : Version) (sender : Option Bytes) (rs : List Recipient)
    (eph pk pt : Bytes) :
    sealPackets P bs v sender rs eph pk pt = sealPacketsPlan P v sender rs eph pk (chunkPlan v bs pt) := by
  rfl

/-- **encryption, any chunking** (cf. `enc_roundtrip`) -/
theorem enc_roundtrip_plan (P : Prims) (hP : P.Lawful)
    (v : Version) (hv : v = v1 ∨ v = v2)
    (sender : Option Bytes) (rs : List Recipient) (eph payloadKey : Bytes)
    (plan : List (Bytes × Bool)) (hplan : ValidPlan v plan)
    (hpk : payloadKey.length = 32)
    (hnamed : ∀ s, sender = some s → P.boxPub s ≠ P.boxPub eph)
    (hpub : ∀ r ∈ rs, r.hidden = false → r.pub ≠ [])
    (hblocks : plan.length < 2 ^ 64 - 1)
    (i : Nat) (hi : i < rs.length) (sk : Bytes) (hsk : (rs.getD i default).pub = P.boxPub sk)
    (hns : NoSpuriousOpen P v eph payloadKey rs i sk)
    (h : EncHeader) (hb : Bytes) (blks : List EncBlock)
    (hseal : sealPacketsPlan P v sender rs eph payloadKey plan = .ok (h, hb, blks)) :
    ∃ mki, Decrypt.openAll P knownMajor (faithfulKeyring P [sk]) (.ok hb h) ⟨blks.map some, .eof⟩ =
        .ok (mki, (plan.map (·.1)).flatten) ∧
      mki.senderKey = P.boxPub (sender.getD eph) ∧ mki.senderIsAnon = sender.isNone ∧ mki.receiverKey = sk := by
  obtain ⟨hcr, hhdr, mks, hm, hbl⟩ := PlanL.sealPacketsPlan_inv P v sender rs eph payloadKey plan h hb blks hseal
  obtain ⟨_, hnd⟩ := checkReceivers_inv hcr
  have _ := hblocks
  have hgetD : rs.getD i default = rs[i] := by simp [List.getD_eq_getElem?_getD, hi]
  rw [hgetD] at hsk
  obtain ⟨mks', hm', _, hmp⟩ := macKeysSender_spec P hv (sender.getD eph) eph (P.hash hb) rs 0
  rw [hm] at hm'
  cases hm'
  obtain ⟨mk, hmk, hmki⟩ := hmp i hi
  rw [Nat.zero_add] at hmk
  obtain ⟨log, hph⟩ := processHeader_roundtrip P hP hv sender rs eph payloadKey hpk hnamed hpub hnd i hi sk hsk
    hns h hhdr (P.hash hb) mk hmk
  have hrun := PlanL.run_roundtrip_plan P hP hv plan hplan.final hplan.empty_v1 hplan.empty_v2
    { version := v, payloadKey := payloadKey, headerHash := P.hash hb, macKey := mk, position := i,
      mki := { senderKey := P.boxPub (sender.getD eph), senderIsAnon := sender.isNone,
               receiverKey := sk, receiverIsAnon := rs[i].hidden,
               namedReceivers := (rs.filter (fun r => !r.hidden)).map (·.pub),
               numAnonReceivers := if rs[i].hidden then (rs.filter (·.hidden)).length else 0 } }
    rfl mks hmki blks hbl
  refine ⟨{ senderKey := P.boxPub (sender.getD eph), senderIsAnon := sender.isNone,
             receiverKey := sk, receiverIsAnon := rs[i].hidden,
             namedReceivers := (rs.filter (fun r => !r.hidden)).map (·.pub),
             numAnonReceivers := if rs[i].hidden then (rs.filter (·.hidden)).length else 0 }, ?_, rfl, rfl, rfl⟩
  simp only [Decrypt.openAll, Decrypt.openStream, hph, hrun]

/-- **attached signatures, any chunking, any minor version** -/
theorem sign_roundtrip_plan (P : Prims) (hP : P.Lawful)
    (v : Version) (hv : v = v1 ∨ v = v2) (minor : Int) (signer nonce : Bytes)
    (plan : List (Bytes × Bool)) (hplan : ValidPlan v plan)
    (kr : Keyring) (hk : kr.lookupSigningPublicKey (P.sigPub signer) = some (P.sigPub signer))
    (h : SigHeader) (hb : Bytes) (blks : List SigBlock)
    (hs : Sign.attachedPacketsPlan P v minor signer nonce plan = .ok (h, hb, blks)) :
    Sign.verifyAll P knownMajor kr (.ok hb h) ⟨blks.map some, .eof⟩ =
      .ok (P.sigPub signer, (plan.map (·.1)).flatten) := by
  obtain ⟨hh, _, hblk⟩ := PlanL.attachedPacketsPlan_inv P v minor signer nonce plan h hb blks hs
  have hval := PlanL.sign_validate_ok_minor v hv minor (P.sigPub signer) nonce
  have hmaj : (v.major != 1 && v.major != 2) = false := by rcases hv with rfl | rfl <;> decide
  have hrun := PlanL.sign_run_plan P hP v hv minor signer (P.hash hb) plan hplan.final hplan.empty_v1
    hplan.empty_v2 blks hblk
  subst hh
  unfold Sign.verifyAll Sign.verifyStream
  simp only [hval]
  simp only [Sign.header, hk, hmaj, hrun]
  rfl

/-- **signcryption, any chunking** (box recipient) -/
theorem sc_roundtrip_plan (P : Prims) (hP : P.Lawful)
    (sender : Option Bytes) (rs : List Signcrypt.Recipient) (eph payloadKey : Bytes)
    (plan : List (Bytes × Bool)) (hplan : ValidPlan v2 plan)
    (hpk : payloadKey.length = 32)
    (hsender : ∀ s, sender = some s → ¬ ((P.sigPub s).all (· == 0)))
    (hblocks : plan.length < 2 ^ 64 - 1)
    (i : Nat) (hi : i < rs.length) (sk : Bytes) (hsk : rs.getD i default = .box (P.boxPub sk))
    (h : EncHeader) (hb : Bytes) (blks : List SigncryptBlock)
    (hseal : Signcrypt.sealPacketsPlan P sender rs eph payloadKey plan = .ok (h, hb, blks))
    (hnc : ∀ j, j < i → Signcrypt.keyIdentifier P (Signcrypt.derivedKeyFromBoxKeys P (P.boxPub eph) sk) j ≠
        Decrypt.kidOf (h.receivers.getD j default)) :
    Signcrypt.openAll P (faithfulKeyring P [sk]) none (.ok hb h) ⟨blks.map some, .eof⟩ =
      .ok (sender.map P.sigPub, (plan.map (·.1)).flatten) := by
  apply PlanL.sc_open_found_plan P hP sender rs eph payloadKey plan hplan.final (hplan.empty_v2 rfl) hsender
    hblocks h hb blks hseal
  obtain ⟨hh, _, _⟩ := PlanL.sc_sealPacketsPlan_inv P sender rs eph payloadKey plan h hb blks hseal
  subst hh
  have hrsi : rs[i]? = some (.box (P.boxPub sk)) := by
    rw [← hsk, List.getD_eq_getElem?_getD, List.getElem?_eq_getElem hi]; rfl
  have htb : Signcrypt.tryBox P [Signcrypt.derivedKeyFromBoxKeys P (P.boxPub eph) sk]
      ((Signcrypt.receiverEntries P eph payloadKey rs 0).zipIdx 0) = .ok (some payloadKey) := by
    apply RTSig.tryBox_found P _ payloadKey _ 0 i
    · intro j r hj hr
      have := hnc j hj
      rw [RTSig.sc_header_receivers, List.getD_eq_getElem?_getD, hr] at this
      simp only [Option.getD_some] at this
      simp [Signcrypt.tryBoxOne, this]
    · refine ⟨_, by rw [RTSig.receiverEntries_getElem?, hrsi]; rfl, ?_⟩
      simp only [Signcrypt.receiverEntry, RTSig.derivedKey_comm P hP sk eph, Nat.zero_add]
      simp [Signcrypt.tryBoxOne, Decrypt.kidOf, hP.sb_open_seal, hpk]
  unfold RTSig.scFindKey
  simp only [RTSig.sc_header_receivers, faithfulKeyring, List.map_cons, List.map_nil]
  rw [htb]

/-! ### forward compatibility: unknown minor versions, extra trailing elements -/

/-- the shipped validator looks at the major version only -/
theorem knownMajor_ignores_minor (ma mi mi' : Int) : knownMajor ⟨ma, mi⟩ = knownMajor ⟨ma, mi'⟩ := by
  rfl

theorem viewVersion_extras (ma mi : Int) (ex : List Val) :
    viewVersion (.arr ([.int ma, .int mi] ++ ex)) = some ⟨ma, mi⟩ := by
  rfl

/-- extra trailing elements in the header are ignored -/
theorem viewEncHeader_extras (h : EncHeader) (ex : List Val) :
    (match h.toVal with
     | .arr fields => viewEncHeader (.arr (fields ++ ex))
     | _ => none) = some h := by
  obtain ⟨fn, ⟨ma, mi⟩, ty, eph, ssb, rs⟩ := h
  simp [viewEncHeader, EncHeader.toVal, Version.toVal, viewBytes, viewVersion, viewInt, viewList_recvKeys]

theorem viewSigHeader_extras (h : SigHeader) (ex : List Val) :
    (match h.toVal with
     | .arr fields => viewSigHeader (.arr (fields ++ ex))
     | _ => none) = some h := by
  obtain ⟨fn, ⟨ma, mi⟩, ty, pk, n⟩ := h
  simp [viewSigHeader, SigHeader.toVal, Version.toVal, viewBytes, viewVersion, viewInt]

/-- …in every recipient pair… -/
theorem viewRecvKeys_extras (r : RecvKeys) (ex : List Val) :
    viewRecvKeys (.arr ([optBin r.kid, .bin r.box] ++ ex)) = some r := by
  obtain ⟨kid, box⟩ := r
  cases kid <;> rfl

/-- …and in every payload packet -/
theorem viewEncBlock_v2_extras (auths : List Bytes) (ct : Bytes) (f : Bool) (ex : List Val)
    (ha : auths ≠ []) (hl : ∀ a ∈ auths, a.length = 32) :
    viewEncBlock 2 (.arr ([.bool f, .arr (auths.map .bin), .bin ct] ++ ex)) = some ⟨auths, ct, f⟩ := by
  have _ := ha
  simp [viewEncBlock, viewBool, viewBytes, viewList_auth auths hl]

theorem viewEncBlock_v1_extras (auths : List Bytes) (ct : Bytes) (ex : List Val)
    (ha : auths ≠ []) (hl : ∀ a ∈ auths, a.length = 32) :
    viewEncBlock 1 (.arr ([.arr (auths.map .bin), .bin ct] ++ ex)) = some ⟨auths, ct, false⟩ := by
  have _ := ha
  simp [viewEncBlock, viewBytes, viewList_auth auths hl]

theorem viewSigncryptBlock_extras (ct : Bytes) (f : Bool) (ex : List Val) :
    viewSigncryptBlock (.arr ([.bin ct, .bool f] ++ ex)) = some ⟨ct, f⟩ := by
  rfl

theorem viewSigBlock_v2_extras (sig chunk : Bytes) (f : Bool) (ex : List Val) :
    viewSigBlock 2 (.arr ([.bool f, .bin sig, .bin chunk] ++ ex)) = some ⟨sig, chunk, f⟩ := by
  simp [viewSigBlock, viewBool, viewBytes]

theorem viewSigBlock_v1_extras (sig chunk : Bytes) (ex : List Val) :
    viewSigBlock 1 (.arr ([.bin sig, .bin chunk] ++ ex)) = some ⟨sig, chunk, false⟩ := by
  simp [viewSigBlock, viewBytes]

end Saltpack.Proofs
