/-
  Every message a spec-following sender can produce is accepted (behind
  Props/C09): the receivers are agnostic to chunk sizes — they accept *any*
  chunk plan the specification allows, not only the 1 MiB one the Go sender
  chooses —, to the minor version, and to extra trailing list elements in
  headers, recipient pairs and payload packets.
-/
import Saltpack.Proofs.RoundTripEnc
import Saltpack.Proofs.RoundTripSig
import Saltpack.Proofs.MsgpackRT

namespace Saltpack.Proofs
open Saltpack Saltpack.Encrypt Saltpack.Msgpack

/-- a chunking the specifications allow: non-empty list of chunks, exactly the
    last one final; V1: the final chunk — and only it — is empty; V2: an empty
    chunk only as the sole chunk of an empty message -/
structure ValidPlan (v : Version) (plan : List (Bytes × Bool)) : Prop where
  final : ∃ pre c, plan = pre ++ [(c, true)] ∧ ∀ p ∈ pre, p.2 = false
  empty_v1 : v = v1 → ∀ p ∈ plan, (p.1 = [] ↔ p.2 = true)
  empty_v2 : v = v2 → ∀ p ∈ plan, p.1 = [] → plan = [([], true)]

/-- the Go sender's own plan is one of them -/
theorem chunkPlan_valid (v : Version) (hv : v = v1 ∨ v = v2) (bs : Nat) (hb : 0 < bs) (pt : Bytes) :
    ValidPlan v (chunkPlan v bs pt) := by
  sorry

/-- the sender model with its own plan is the special case -/
theorem sealPackets_eq_plan (P : Prims) (bs : Nat) (v : Version) (sender : Option Bytes) (rs : List Recipient)
    (eph pk pt : Bytes) :
    sealPackets P bs v sender rs eph pk pt = sealPacketsPlan P v sender rs eph pk (chunkPlan v bs pt) := by
  sorry

/-- **encryption, any chunking** (cf. `enc_roundtrip`) -/
theorem enc_roundtrip_plan (P : Prims) (hP : P.Lawful)
    (v : Version) (hv : v = v1 ∨ v = v2)
    (sender : Option Bytes) (rs : List Recipient) (eph payloadKey : Bytes)
    (plan : List (Bytes × Bool)) (hplan : ValidPlan v plan)
    (hpk : payloadKey.length = 32)
    (hnamed : ∀ s, sender = some s → P.boxPub s ≠ P.boxPub eph)
    (hpub : ∀ r ∈ rs, r.hidden = false → r.pub ≠ [])
    (hblocks : plan.length < 2 ^ 64 - 1)
    (i : Nat) (hi : i < rs.length) (sk : Bytes) (hsk : (rs.getD i default).pub = P.boxPub sk)
    (hns : NoSpuriousOpen P v eph payloadKey rs i sk)
    (h : EncHeader) (hb : Bytes) (blks : List EncBlock)
    (hseal : sealPacketsPlan P v sender rs eph payloadKey plan = .ok (h, hb, blks)) :
    ∃ mki, Decrypt.openAll P knownMajor (faithfulKeyring P [sk]) (.ok hb h) ⟨blks.map some, .eof⟩ =
        .ok (mki, (plan.map (·.1)).flatten) ∧
      mki.senderKey = P.boxPub (sender.getD eph) ∧ mki.senderIsAnon = sender.isNone ∧ mki.receiverKey = sk := by
  sorry

/-- **attached signatures, any chunking, any minor version** -/
theorem sign_roundtrip_plan (P : Prims) (hP : P.Lawful)
    (v : Version) (hv : v = v1 ∨ v = v2) (minor : Int) (signer nonce : Bytes)
    (plan : List (Bytes × Bool)) (hplan : ValidPlan v plan)
    (kr : Keyring) (hk : kr.lookupSigningPublicKey (P.sigPub signer) = some (P.sigPub signer))
    (h : SigHeader) (hb : Bytes) (blks : List SigBlock)
    (hs : Sign.attachedPacketsPlan P v minor signer nonce plan = .ok (h, hb, blks)) :
    Sign.verifyAll P knownMajor kr (.ok hb h) ⟨blks.map some, .eof⟩ =
      .ok (P.sigPub signer, (plan.map (·.1)).flatten) := by
  sorry

/-- **signcryption, any chunking** (box recipient) -/
theorem sc_roundtrip_plan (P : Prims) (hP : P.Lawful)
    (sender : Option Bytes) (rs : List Signcrypt.Recipient) (eph payloadKey : Bytes)
    (plan : List (Bytes × Bool)) (hplan : ValidPlan v2 plan)
    (hpk : payloadKey.length = 32)
    (hsender : ∀ s, sender = some s → ¬ ((P.sigPub s).all (· == 0)))
    (hblocks : plan.length < 2 ^ 64 - 1)
    (i : Nat) (hi : i < rs.length) (sk : Bytes) (hsk : rs.getD i default = .box (P.boxPub sk))
    (h : EncHeader) (hb : Bytes) (blks : List SigncryptBlock)
    (hseal : Signcrypt.sealPacketsPlan P sender rs eph payloadKey plan = .ok (h, hb, blks))
    (hnc : ∀ j, j < i → Signcrypt.keyIdentifier P (Signcrypt.derivedKeyFromBoxKeys P (P.boxPub eph) sk) j ≠
        Decrypt.kidOf (h.receivers.getD j default)) :
    Signcrypt.openAll P (faithfulKeyring P [sk]) none (.ok hb h) ⟨blks.map some, .eof⟩ =
      .ok (sender.map P.sigPub, (plan.map (·.1)).flatten) := by
  sorry

/-! ### forward compatibility: unknown minor versions, extra trailing elements -/

/-- the shipped validator looks at the major version only -/
theorem knownMajor_ignores_minor (ma mi mi' : Int) : knownMajor ⟨ma, mi⟩ = knownMajor ⟨ma, mi'⟩ := by
  sorry

theorem viewVersion_extras (ma mi : Int) (ex : List Val) :
    viewVersion (.arr ([.int ma, .int mi] ++ ex)) = some ⟨ma, mi⟩ := by
  sorry

/-- extra trailing elements in the header are ignored -/
theorem viewEncHeader_extras (h : EncHeader) (ex : List Val) :
    (match h.toVal with
     | .arr fields => viewEncHeader (.arr (fields ++ ex))
     | _ => none) = some h := by
  sorry

theorem viewSigHeader_extras (h : SigHeader) (ex : List Val) :
    (match h.toVal with
     | .arr fields => viewSigHeader (.arr (fields ++ ex))
     | _ => none) = some h := by
  sorry

/-- …in every recipient pair… -/
theorem viewRecvKeys_extras (r : RecvKeys) (ex : List Val) :
    viewRecvKeys (.arr ([optBin r.kid, .bin r.box] ++ ex)) = some r := by
  sorry

/-- …and in every payload packet -/
theorem viewEncBlock_v2_extras (auths : List Bytes) (ct : Bytes) (f : Bool) (ex : List Val)
    (ha : auths ≠ []) (hl : ∀ a ∈ auths, a.length = 32) :
    viewEncBlock 2 (.arr ([.bool f, .arr (auths.map .bin), .bin ct] ++ ex)) = some ⟨auths, ct, f⟩ := by
  sorry

theorem viewEncBlock_v1_extras (auths : List Bytes) (ct : Bytes) (ex : List Val)
    (ha : auths ≠ []) (hl : ∀ a ∈ auths, a.length = 32) :
    viewEncBlock 1 (.arr ([.arr (auths.map .bin), .bin ct] ++ ex)) = some ⟨auths, ct, false⟩ := by
  sorry

theorem viewSigncryptBlock_extras (ct : Bytes) (f : Bool) (ex : List Val) :
    viewSigncryptBlock (.arr ([.bin ct, .bool f] ++ ex)) = some ⟨ct, f⟩ := by
  sorry

theorem viewSigBlock_v2_extras (sig chunk : Bytes) (f : Bool) (ex : List Val) :
    viewSigBlock 2 (.arr ([.bool f, .bin sig, .bin chunk] ++ ex)) = some ⟨sig, chunk, f⟩ := by
  sorry

theorem viewSigBlock_v1_extras (sig chunk : Bytes) (ex : List Val) :
    viewSigBlock 1 (.arr ([.bin sig, .bin chunk] ++ ex)) = some ⟨sig, chunk, false⟩ := by
  sorry

end Saltpack.Proofs
