/-
  The BRIDGE between the two readers of the model: on canonical messages
  (header packet ‖ canonical packets — what every model sender emits) the
  spec-shaped reader `Wire.split*` and go-codec's typed decoding `Codec.split*`
  give the SAME header read and the SAME packet stream.  Structural forms
  (`bridge_*`: any header / packets within MessagePack's size limits) and the
  instances for genuine sender output (`bridge_seal_*`).

  Core Lean only.
-/
import Saltpack.Proofs.CodecBytesCanon

namespace Saltpack.Proofs.CodecP
open Saltpack Saltpack.Msgpack Saltpack.Codec Saltpack.Proofs.MsgpackRT Saltpack.Proofs.WireRT

/-! ### the stream level -/

theorem topStruct_nil {σ : Type} (fields : Nat → Nat → List (Field σ)) (zero : σ) :
    topStruct fields zero [] = .error .eof := rfl

theorem topSelfer_nil {σ : Type} (decs : Nat → List (σ → Dec σ)) (zero : σ) :
    topSelfer decs zero [] = .error .eof := rfl

theorem flatMap_encode_len (vals : List Val) : vals.length ≤ (vals.flatMap encode).length := by
  induction vals with
  | nil => simp
  | cons v vs ih =>
    rw [List.flatMap_cons, List.length_append, List.length_cons]
    have := encode_pos v
    omega

/-- typed reads over concatenated canonical packets -/
theorem codec_blocks_encoded {β : Type} (d : Dec β) (hnil : d [] = .error .eof) :
    ∀ (l : List (Val × β)), (∀ p ∈ l, ∀ rest, d (encode p.1 ++ rest) = .ok (p.2, rest)) →
    ∀ fuel, l.length < fuel →
      Codec.blocks d fuel ((l.map (·.1)).flatMap encode) = .ok ⟨l.map (fun p => some p.2), .eof⟩
  | [], _, fuel, hf => by
    obtain ⟨f, rfl⟩ : ∃ f, fuel = f + 1 := ⟨fuel - 1, by simp at hf; omega⟩
    simp [Codec.blocks, hnil]
  | p :: l, hp, fuel, hf => by
    obtain ⟨f, rfl⟩ : ∃ f, fuel = f + 1 := ⟨fuel - 1, by omega⟩
    have h1 := hp p (by simp) ((l.map (·.1)).flatMap encode)
    have ih := codec_blocks_encoded d hnil l (fun q hq => hp q (by simp [hq])) f (by simp at hf; omega)
    rw [List.map_cons, List.flatMap_cons, Codec.blocks]
    simp only [h1, ih, List.map_cons]

theorem codec_split_encoded {η β : Type} (decH : Dec η) (decB : η → Option (Dec β)) (hb : Bytes)
    (hl : hb.length < 2 ^ 32) (h : η) (r0 : Bytes) (hd : decH hb = .ok (h, r0))
    (d : Dec β) (hdB : decB h = some d) (hnil : d [] = .error .eof)
    (l : List (Val × β)) (hp : ∀ p ∈ l, ∀ rest, d (encode p.1 ++ rest) = .ok (p.2, rest)) :
    Codec.split decH decB (headerPacket hb ++ (l.map (·.1)).flatMap encode) =
      .ok (.ok hb h, ⟨l.map (fun p => some p.2), .eof⟩) := by
  have hfuel : l.length < ((l.map (·.1)).flatMap encode).length + 1 := by
    have := flatMap_encode_len (l.map (·.1))
    rw [List.length_map] at this
    omega
  rw [Codec.split, readHeader_headerPacket decH hb hl h r0 hd]
  simp only [hdB, codec_blocks_encoded d hnil l hp _ hfuel]

/-! ### signcryption -/

/-- size limits of an encryption-family header (MessagePack's 32-bit lengths, 64-bit signed integers) -/
structure EncHeaderSized (h : EncHeader) : Prop where
  fmt : h.formatName.length < 2 ^ 32
  major : -(2 ^ 63 : Int) ≤ h.version.major ∧ h.version.major < (2 ^ 63 : Int)
  minor : -(2 ^ 63 : Int) ≤ h.version.minor ∧ h.version.minor < (2 ^ 63 : Int)
  typ : -(2 ^ 63 : Int) ≤ h.typ ∧ h.typ < (2 ^ 63 : Int)
  eph : h.ephemeral.length < 2 ^ 32
  ssb : h.senderSecretbox.length < 2 ^ 32
  rlen : h.receivers.length < 2 ^ 32
  rs : ∀ rk ∈ h.receivers, (∀ k, rk.kid = some k → k.length < 2 ^ 32) ∧ rk.box.length < 2 ^ 32
  bytes : (encode h.toVal).length < 2 ^ 32

theorem topExtras_nil : TopExtras [] := ⟨by simp, by rw [depthList_nil]; omega⟩
theorem selfExtras_nil : SelfExtras [] := ⟨by simp, by rw [depthList_nil]; omega⟩

theorem EncHeaderSized.wf {h : EncHeader} (s : EncHeaderSized h) : ValWF h.toVal :=
  encHeader_wf h s.fmt s.eph s.ssb s.rlen (fun r hr => ⟨(s.rs r hr).2, (s.rs r hr).1⟩)
    ⟨s.major.1, by have := s.major.2; omega⟩ ⟨s.minor.1, by have := s.minor.2; omega⟩
    ⟨s.typ.1, by have := s.typ.2; omega⟩

theorem EncHeaderSized.dec {h : EncHeader} (s : EncHeaderSized h) : decEncHeader (encode h.toVal) = .ok (h, []) := by
  have := decEncHeader_encode h s.fmt s.major s.minor s.typ s.eph s.ssb s.rlen s.rs [] topExtras_nil (by decide) []
  rw [List.append_nil, List.append_nil] at this
  exact this

/-- **Bridge, signcryption**: header packet ‖ canonical signcryption packets —
    both readers give the header and exactly these packets, clean end. -/
theorem bridge_signcrypt (h : EncHeader) (s : EncHeaderSized h) (blks : List SigncryptBlock)
    (hct : ∀ b ∈ blks, b.ct.length < 2 ^ 32) :
    Wire.splitSigncrypt (headerPacket (encode h.toVal) ++ Signcrypt.encodeBlocks blks) =
      .ok (.ok (encode h.toVal) h, ⟨blks.map some, .eof⟩) ∧
    Codec.splitSigncrypt (headerPacket (encode h.toVal) ++ Signcrypt.encodeBlocks blks) =
      .ok (.ok (encode h.toVal) h, ⟨blks.map some, .eof⟩) := by
  rw [sc_body]
  constructor
  · unfold Wire.splitSigncrypt
    refine split_encoded viewEncHeader (fun _ => viewSigncryptBlock) h.toVal s.wf h (viewEncHeader_toVal h) s.bytes _ ?_
      blks (sc_views blks)
    intro x hx
    rw [List.mem_map] at hx
    obtain ⟨b, hb', rfl⟩ := hx
    apply ValWF.arr _ (by simp)
    intro y hy
    simp only [List.mem_cons, List.not_mem_nil, or_false] at hy
    rcases hy with rfl | rfl
    · exact ValWF.bin _ (hct b hb')
    · exact ValWF.bool _
  · have := codec_split_encoded decEncHeader (fun _ => some decSigncryptBlock) (encode h.toVal) s.bytes h [] s.dec
      decSigncryptBlock rfl (topStruct_nil _ _) (blks.map (fun b => (signcryptBlockVal b.ct b.final, b))) (by
        intro p hp rest
        rw [List.mem_map] at hp
        obtain ⟨b, hb', rfl⟩ := hp
        exact decSigncryptBlock_encode b.ct (hct b hb') b.final [] topExtras_nil (by decide) rest)
    simp only [List.map_map, Function.comp_def] at this
    exact this

/-! ### attached signatures -/

structure SigHeaderSized (h : SigHeader) : Prop where
  fmt : h.formatName.length < 2 ^ 32
  major : -(2 ^ 63 : Int) ≤ h.version.major ∧ h.version.major < (2 ^ 63 : Int)
  minor : -(2 ^ 63 : Int) ≤ h.version.minor ∧ h.version.minor < (2 ^ 63 : Int)
  typ : -(2 ^ 63 : Int) ≤ h.typ ∧ h.typ < (2 ^ 63 : Int)
  pk : h.senderPublic.length < 2 ^ 32
  nonce : h.nonce.length < 2 ^ 32
  bytes : (encode h.toVal).length < 2 ^ 32

theorem SigHeaderSized.wf {h : SigHeader} (s : SigHeaderSized h) : ValWF h.toVal :=
  sigHeader_wf h s.fmt s.pk s.nonce ⟨s.major.1, by have := s.major.2; omega⟩ ⟨s.minor.1, by have := s.minor.2; omega⟩
    ⟨s.typ.1, by have := s.typ.2; omega⟩

theorem SigHeaderSized.dec {h : SigHeader} (s : SigHeaderSized h) : decSigHeader (encode h.toVal) = .ok (h, []) := by
  have := decSigHeader_encode h s.fmt s.major s.minor s.typ s.pk s.nonce [] topExtras_nil (by decide) []
  rw [List.append_nil, List.append_nil] at this
  exact this

/-- one canonical signature packet under the typed reader of its version -/
theorem decSigBlock_val (v : Version) (hv : v = v1 ∨ v = v2) (b : SigBlock) (hs : b.sig.length < 2 ^ 32)
    (hc : b.chunk.length < 2 ^ 32) (val : Val) (hval : sigBlockVal v b.sig b.chunk b.final = .ok val) (rest : Bytes) :
    decSigBlock v.major (encode val ++ rest) = .ok (sigAsRead v b, rest) := by
  rcases hv with rfl | rfl
  · have : val = .arr ([.bin b.sig, .bin b.chunk] ++ []) := by
      simp [sigBlockVal] at hval; exact hval.symm
    subst this
    have hd := decSigBlockV1_encode b.sig b.chunk hs hc [] topExtras_nil (by decide) rest
    simpa [decSigBlock, v1, sigAsRead] using hd
  · have : val = .arr ([.bool b.final, .bin b.sig, .bin b.chunk] ++ []) := by
      simp [sigBlockVal, v1, v2] at hval; exact hval.symm
    subst this
    have hd := decSigBlockV2_encode b.final b.sig b.chunk hs hc [] selfExtras_nil (by decide) rest
    simpa [decSigBlock, v2, sigAsRead] using hd

theorem sig_body_pairs (v : Version) (hv : v = v1 ∨ v = v2) :
    ∀ (blks : List SigBlock) (body : Bytes), (∀ b ∈ blks, b.sig.length < 2 ^ 32 ∧ b.chunk.length < 2 ^ 32) →
      Sign.encodeBlocks v blks = .ok body →
      ∃ l : List (Val × SigBlock), body = (l.map (·.1)).flatMap encode ∧ l.map (·.2) = blks.map (sigAsRead v) ∧
        ∀ p ∈ l, ∀ rest, decSigBlock v.major (encode p.1 ++ rest) = .ok (p.2, rest)
  | [], body, _, h => by
    simp only [Sign.encodeBlocks, Except.ok.injEq] at h
    subst h
    exact ⟨[], rfl, rfl, by simp⟩
  | b :: bl, body, hp, h => by
    simp only [Sign.encodeBlocks] at h
    split at h
    · rename_i val rest hval hrest
      simp only [Except.ok.injEq] at h
      subst h
      obtain ⟨l, h1, h2, h3⟩ := sig_body_pairs v hv bl rest (fun x hx => hp x (by simp [hx])) hrest
      refine ⟨(val, sigAsRead v b) :: l, by rw [List.map_cons, List.flatMap_cons, h1], by rw [List.map_cons, List.map_cons, h2], ?_⟩
      intro p hpm rest'
      rcases List.mem_cons.1 hpm with rfl | hpm
      · exact decSigBlock_val v hv b (hp b (by simp)).1 (hp b (by simp)).2 val hval rest'
      · exact h3 p hpm rest'
    · cases h
    · cases h

theorem decSigBlock_nil (m : Int) : decSigBlock m [] = .error .eof := by
  unfold decSigBlock; split <;> rfl

/-- **Bridge, attached signatures (V1 and V2)** -/
theorem bridge_sig (h : SigHeader) (s : SigHeaderSized h) (hv : h.version = v1 ∨ h.version = v2)
    (blks : List SigBlock) (hsz : ∀ b ∈ blks, b.sig.length < 2 ^ 32 ∧ b.chunk.length < 2 ^ 32)
    (body : Bytes) (he : Sign.encodeBlocks h.version blks = .ok body) :
    Wire.splitSig (headerPacket (encode h.toVal) ++ body) =
      .ok (.ok (encode h.toVal) h, ⟨(blks.map (sigAsRead h.version)).map some, .eof⟩) ∧
    Codec.splitSig (headerPacket (encode h.toVal) ++ body) =
      .ok (.ok (encode h.toVal) h, ⟨(blks.map (sigAsRead h.version)).map some, .eof⟩) := by
  constructor
  · obtain ⟨vals, hbody, hvals, hviews⟩ := sig_body h.version hv blks body hsz he
    subst hbody
    unfold Wire.splitSig
    exact split_encoded viewSigHeader (fun h => viewSigBlock h.version.major) h.toVal s.wf h (viewSigHeader_toVal h)
      s.bytes vals hvals _ hviews
  · obtain ⟨l, hbody, hl2, hl3⟩ := sig_body_pairs h.version hv blks body hsz he
    subst hbody
    have hmaj : majorOK h.version.major = true := by rcases hv with e | e <;> (rw [e]; decide)
    have := codec_split_encoded decSigHeader
      (fun h => if majorOK h.version.major then some (decSigBlock h.version.major) else none) (encode h.toVal) s.bytes h []
      s.dec (decSigBlock h.version.major) (by simp [hmaj]) (decSigBlock_nil _) l hl3
    rw [← hl2, List.map_map]
    exact this

/-! ### encryption (V1 and V2) -/

theorem decEncBlock_val (v : Version) (hv : v = v1 ∨ v = v2) (b : EncBlock) (hal : b.auths.length < 2 ^ 32)
    (h32 : ∀ a ∈ b.auths, a.length = 32) (hc : b.ct.length < 2 ^ 32) (val : Val)
    (hval : encBlockVal v b.auths b.ct b.final = .ok val) (rest : Bytes) :
    decEncBlock v.major (encode val ++ rest) = .ok (encAsRead v b, rest) := by
  rcases hv with rfl | rfl
  · have : val = .arr ([authsVal b.auths, .bin b.ct] ++ []) := by
      have e : encBlockVal v1 b.auths b.ct b.final = .ok (.arr [authsVal b.auths, .bin b.ct]) := rfl
      rw [e] at hval; injection hval with hval; exact hval.symm
    subst this
    have hd := decEncBlockV1_encode b.auths hal h32 b.ct hc [] topExtras_nil (by decide) rest
    simpa [decEncBlock, v1, encAsRead] using hd
  · have : val = .arr ([.bool b.final, authsVal b.auths, .bin b.ct] ++ []) := by
      have e : encBlockVal v2 b.auths b.ct b.final = .ok (.arr [.bool b.final, authsVal b.auths, .bin b.ct]) := rfl
      rw [e] at hval; injection hval with hval; exact hval.symm
    subst this
    have hd := decEncBlockV2_encode b.final b.auths hal h32 b.ct hc [] selfExtras_nil (by decide) rest
    simpa [decEncBlock, v2, encAsRead] using hd

theorem enc_body_pairs (v : Version) (hv : v = v1 ∨ v = v2) :
    ∀ (blks : List EncBlock) (body : Bytes),
      (∀ b ∈ blks, b.auths.length < 2 ^ 32 ∧ (∀ a ∈ b.auths, a.length = 32) ∧ b.ct.length < 2 ^ 32) →
      Encrypt.encodeBlocks v blks = .ok body →
      ∃ l : List (Val × EncBlock), body = (l.map (·.1)).flatMap encode ∧ l.map (·.2) = blks.map (encAsRead v) ∧
        ∀ p ∈ l, ∀ rest, decEncBlock v.major (encode p.1 ++ rest) = .ok (p.2, rest)
  | [], body, _, h => by
    simp only [Encrypt.encodeBlocks, Except.ok.injEq] at h
    subst h
    exact ⟨[], rfl, rfl, by simp⟩
  | b :: bl, body, hp, h => by
    simp only [Encrypt.encodeBlocks] at h
    split at h
    · rename_i val rest hval hrest
      simp only [Except.ok.injEq] at h
      subst h
      obtain ⟨l, h1, h2, h3⟩ := enc_body_pairs v hv bl rest (fun x hx => hp x (by simp [hx])) hrest
      refine ⟨(val, encAsRead v b) :: l, by rw [List.map_cons, List.flatMap_cons, h1], by rw [List.map_cons, List.map_cons, h2], ?_⟩
      intro p hpm rest'
      rcases List.mem_cons.1 hpm with rfl | hpm
      · obtain ⟨a1, a2, a3⟩ := hp b (by simp)
        exact decEncBlock_val v hv b a1 a2 a3 val hval rest'
      · exact h3 p hpm rest'
    · cases h
    · cases h

theorem decEncBlock_nil (m : Int) : decEncBlock m [] = .error .eof := by
  unfold decEncBlock; split <;> rfl

/-- **Bridge, encryption (V1 and V2)**: every packet carries a non-empty list of
    32-byte authenticators (what `makeEncryptionBlock` writes for ≥ 1 recipient) -/
theorem bridge_enc (h : EncHeader) (s : EncHeaderSized h) (hv : h.version = v1 ∨ h.version = v2)
    (blks : List EncBlock)
    (hsz : ∀ b ∈ blks, b.auths ≠ [] ∧ b.auths.length < 2 ^ 32 ∧ (∀ a ∈ b.auths, a.length = 32) ∧ b.ct.length < 2 ^ 32)
    (body : Bytes) (he : Encrypt.encodeBlocks h.version blks = .ok body) :
    Wire.splitEnc (headerPacket (encode h.toVal) ++ body) =
      .ok (.ok (encode h.toVal) h, ⟨(blks.map (encAsRead h.version)).map some, .eof⟩) ∧
    Codec.splitEnc (headerPacket (encode h.toVal) ++ body) =
      .ok (.ok (encode h.toVal) h, ⟨(blks.map (encAsRead h.version)).map some, .eof⟩) := by
  constructor
  · obtain ⟨vals, hbody, hvals, hviews⟩ := enc_body h.version hv blks body hsz he
    subst hbody
    unfold Wire.splitEnc
    exact split_encoded viewEncHeader (fun h => viewEncBlock h.version.major) h.toVal s.wf h (viewEncHeader_toVal h)
      s.bytes vals hvals _ hviews
  · obtain ⟨l, hbody, hl2, hl3⟩ := enc_body_pairs h.version hv blks body
      (fun b hb => ⟨(hsz b hb).2.1, (hsz b hb).2.2.1, (hsz b hb).2.2.2⟩) he
    subst hbody
    have hmaj : majorOK h.version.major = true := by rcases hv with e | e <;> (rw [e]; decide)
    have := codec_split_encoded decEncHeader
      (fun h => if majorOK h.version.major then some (decEncBlock h.version.major) else none) (encode h.toVal) s.bytes h []
      s.dec (decEncBlock h.version.major) (by simp [hmaj]) (decEncBlock_nil _) l hl3
    rw [← hl2, List.map_map]
    exact this

/-! ### detached signatures -/

theorem bridge_detached (h : SigHeader) (s : SigHeaderSized h) (sg : Bytes) (hsg : sg.length < 2 ^ 32) :
    Wire.splitDetached (headerPacket (encode h.toVal) ++ encBin sg) = .ok (.ok (encode h.toVal) h, .sig sg) ∧
    Codec.splitDetached (headerPacket (encode h.toVal) ++ encBin sg) = .ok (.ok (encode h.toVal) h, .sig sg) := by
  constructor
  · have hsig : Wire.readBytesObj (encBin sg) = .ok (.ok sg, []) := by
      have := readBytesObj_bin sg [] hsg
      rwa [List.append_nil] at this
    unfold Wire.splitDetached headerPacket
    rw [readBytesObj_bin _ _ s.bytes]
    simp only []
    rw [decodeHeader_encode viewSigHeader _ s.wf _ (viewSigHeader_toVal _)]
    simp only [hsig]
  · have hd := decBytesTop_headerPacket sg hsg []
    rw [headerPacket, List.append_nil] at hd
    rw [Codec.splitDetached, readHeader_headerPacket decSigHeader _ s.bytes h [] s.dec]
    simp only [hd]

/-! ### genuine sender output -/

/-- **Signcryption**: on what `Signcrypt.sealWith` emits (hypotheses of `wire_signcrypt`) both readers agree -/
theorem bridge_seal_signcrypt (P : Prims) (hS : WireSizes P) (bs : Nat) (hbs : 0 < bs) (hbs32 : bs + 80 < 2 ^ 32)
    (sender : Option Bytes) (rs : List Signcrypt.Recipient) (eph pk pt : Bytes)
    (hpk : pk.length + 16 < 2 ^ 32)
    (hid : ∀ key ident, Signcrypt.Recipient.sym key ident ∈ rs → ident.length < 2 ^ 32)
    (h : EncHeader) (hb : Bytes) (blks : List SigncryptBlock)
    (hs : Signcrypt.sealPackets P bs sender rs eph pk pt = .ok (h, hb, blks))
    (hhb : hb.length < 2 ^ 32) :
    Wire.splitSigncrypt (headerPacket hb ++ Signcrypt.encodeBlocks blks) = .ok (.ok hb h, ⟨blks.map some, .eof⟩) ∧
    Codec.splitSigncrypt (headerPacket hb ++ Signcrypt.encodeBlocks blks) = .ok (.ok hb h, ⟨blks.map some, .eof⟩) := by
  obtain ⟨hh, hhbe, hbl⟩ := RTSig.sc_sealPackets_inv P bs sender rs eph pk pt h hb blks hs
  have hcount : rs.length < 2 ^ 32 := by
    unfold Signcrypt.sealPackets at hs
    split at hs
    · cases hs
    · rename_i hcr
      exact sc_checkReceivers_count hcr
  obtain ⟨s1, s2, s3, s4, s5, s6, s7⟩ := sc_header_sizes P hS sender eph pk rs (2 ^ 32 - 1) (by decide)
    (fun key ident hm => by have := hid key ident hm; omega)
  rw [← hh] at s1 s2 s3 s4 s5 s6 s7
  subst hhbe
  have hsized : EncHeaderSized h :=
    ⟨by omega, by rw [s2]; decide, by rw [s2]; decide, by rw [s3]; decide, by omega, by omega, by omega,
     fun r hr => ⟨fun k hk => by have := (s7 r hr).2 k hk; omega, by have := (s7 r hr).1; omega⟩, hhb⟩
  have hsz := sc_blockStructs_sizes P hS sender pk (P.hash (encode h.toVal)) _ 0 blks hbl
  exact bridge_signcrypt h hsized blks (fun b hb' => by
    obtain ⟨p, hp, a3⟩ := hsz b hb'
    have := chunkPlan_size v2 bs hbs pt p hp
    omega)

/-- **Attached signatures**: on what `Sign.attachedWith` emits (hypotheses of `wire_sig`) both readers agree -/
theorem bridge_seal_sig (P : Prims) (hS : WireSizes P) (bs : Nat) (hbs : 0 < bs) (hbs32 : bs < 2 ^ 32)
    (v : Version) (signer nonce msg : Bytes) (hn : nonce.length + 92 < 2 ^ 32)
    (h : SigHeader) (hb : Bytes) (blks : List SigBlock) (body : Bytes)
    (hs : Sign.attachedPackets P bs v signer nonce msg = .ok (h, hb, blks))
    (he : Sign.encodeBlocks v blks = .ok body) :
    Wire.splitSig (headerPacket hb ++ body) = .ok (.ok hb h, ⟨(blks.map (sigAsRead v)).map some, .eof⟩) ∧
    Codec.splitSig (headerPacket hb ++ body) = .ok (.ok hb h, ⟨(blks.map (sigAsRead v)).map some, .eof⟩) := by
  have hv := attachedPackets_version P bs v signer nonce msg _ hs
  obtain ⟨hh, hhbe, hbl⟩ := RTSig.attachedPackets_inv P bs v signer nonce msg h hb blks hs
  obtain ⟨_, hlen⟩ := sig_header_facts P hS v hv signer nonce mtAttached (Or.inl rfl) hn
  have hsz := sig_blockStructs_sizes P hS v signer (P.hash hb) _ 0 blks hbl
  subst hhbe hh
  have hsized : SigHeaderSized (Sign.header v (P.sigPub signer) mtAttached nonce) :=
    ⟨by show (8 : Nat) < _; decide,
     by show -(2 ^ 63 : Int) ≤ v.major ∧ v.major < 2 ^ 63; rcases hv with rfl | rfl <;> decide,
     by show -(2 ^ 63 : Int) ≤ v.minor ∧ v.minor < 2 ^ 63; rcases hv with rfl | rfl <;> decide,
     by show -(2 ^ 63 : Int) ≤ mtAttached ∧ mtAttached < 2 ^ 63; decide,
     by show (P.sigPub signer).length < _; rw [hS.sigPub_len]; decide,
     by show nonce.length < _; omega, hlen⟩
  exact bridge_sig _ hsized hv blks (by
    intro b hb'
    obtain ⟨a1, p, hp, a2⟩ := hsz b hb'
    have := chunkPlan_size v bs hbs msg p hp
    rw [a2]
    exact ⟨by omega, by omega⟩) body he

/-- **Detached signatures**: on what `Sign.detachedWith` emits both readers agree -/
theorem bridge_seal_detached (P : Prims) (hS : WireSizes P) (v : Version) (signer nonce msg out : Bytes)
    (hn : nonce.length + 92 < 2 ^ 32) (hout : Sign.detachedWith P v signer nonce msg = .ok out) :
    ∃ hb h sg, Wire.splitDetached out = .ok (.ok hb h, .sig sg) ∧ Codec.splitDetached out = .ok (.ok hb h, .sig sg) := by
  obtain ⟨hv, rfl⟩ := seal_bytes_are_packets_detached P v signer nonce msg out hout
  obtain ⟨_, hlen⟩ := sig_header_facts P hS v hv signer nonce mtDetached (Or.inr rfl) hn
  have hsized : SigHeaderSized (Sign.header v (P.sigPub signer) mtDetached nonce) :=
    ⟨by show (8 : Nat) < _; decide,
     by show -(2 ^ 63 : Int) ≤ v.major ∧ v.major < 2 ^ 63; rcases hv with rfl | rfl <;> decide,
     by show -(2 ^ 63 : Int) ≤ v.minor ∧ v.minor < 2 ^ 63; rcases hv with rfl | rfl <;> decide,
     by show -(2 ^ 63 : Int) ≤ mtDetached ∧ mtDetached < 2 ^ 63; decide,
     by show (P.sigPub signer).length < _; rw [hS.sigPub_len]; decide,
     by show nonce.length < _; omega, hlen⟩
  have := bridge_detached _ hsized (P.sign signer (detachedSignatureInput P
    (P.hash (encode (Sign.header v (P.sigPub signer) mtDetached nonce).toVal)) msg)) (by rw [hS.sig_len]; decide)
  exact ⟨_, _, _, this.1, this.2⟩

/-- **Encryption**: on what `Encrypt.sealWith` emits (hypotheses of `wire_enc`) both readers agree -/
theorem bridge_seal_enc (P : Prims) (hS : WireSizes P) (bs : Nat) (hbs : 0 < bs) (hbs32 : bs + 16 < 2 ^ 32)
    (v : Version) (sender : Option Bytes) (rs : List Encrypt.Recipient) (eph pk pt : Bytes)
    (hpk : pk.length + 16 < 2 ^ 32) (hpub : ∀ r ∈ rs, r.pub.length < 2 ^ 32)
    (h : EncHeader) (hb : Bytes) (blks : List EncBlock) (body : Bytes)
    (hs : Encrypt.sealPackets P bs v sender rs eph pk pt = .ok (h, hb, blks))
    (he : Encrypt.encodeBlocks v blks = .ok body)
    (hhb : hb.length < 2 ^ 32) :
    Wire.splitEnc (headerPacket hb ++ body) = .ok (.ok hb h, ⟨(blks.map (encAsRead v)).map some, .eof⟩) ∧
    Codec.splitEnc (headerPacket hb ++ body) = .ok (.ok hb h, ⟨(blks.map (encAsRead v)).map some, .eof⟩) := by
  have hv := sealPackets_version P bs v sender rs eph pk pt _ hs
  have hhbe := sealPackets_hb P bs v sender rs eph pk pt h hb blks hs
  obtain ⟨hcr, hhdr, mks, hm, hbl⟩ := sealPackets_inv P bs v sender rs eph pk pt h hb blks hs
  obtain ⟨hne, _⟩ := checkReceivers_inv hcr
  have hcount := checkReceivers_count hcr
  obtain ⟨mks', hm', hmlen, _⟩ := macKeysSender_spec P hv (sender.getD eph) eph (P.hash hb) rs 0
  rw [hm] at hm'
  cases hm'
  obtain ⟨s1, s2, s3, s4, s5, s6, s7⟩ := enc_header_sizes P hS hv sender eph pk rs h hhdr (2 ^ 32 - 1)
    (fun r hr => by have := hpub r hr; omega)
  subst hhbe
  have hsized : EncHeaderSized h :=
    ⟨by omega, by rw [s2]; rcases hv with rfl | rfl <;> decide, by rw [s2]; rcases hv with rfl | rfl <;> decide,
     by rw [s3]; decide, by omega, by omega, by omega,
     fun r hr => ⟨fun k hk => by have := (s7 r hr).2 k hk; omega, by have := (s7 r hr).1; omega⟩, hhb⟩
  have hsz := enc_blockStructs_sizes P hS v pk (P.hash (encode h.toVal)) mks _ 0 blks hbl
  have hrspos : 0 < rs.length := List.length_pos_iff.mpr hne
  have := bridge_enc h hsized (s2 ▸ hv) blks (by
    intro b hb'
    obtain ⟨a1, a2, p, hp, a3⟩ := hsz b hb'
    have := chunkPlan_size v bs hbs pt p hp
    refine ⟨?_, by omega, a2, by omega⟩
    intro h0
    rw [h0] at a1
    simp at a1
    omega) body (s2 ▸ he)
  rw [s2] at this
  exact this

end Saltpack.Proofs.CodecP
