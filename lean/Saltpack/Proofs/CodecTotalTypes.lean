/-
  Saltpack.Proofs.CodecTotalTypes — `Sp` (see CodecTotal.lean) for `kStruct`, the slices, the
  saltpack types and the top-level packet decoders.  Core Lean only.
-/
import Saltpack.Proofs.CodecTotalGen

namespace Saltpack.Proofs.CodecP
open Saltpack Saltpack.Msgpack Saltpack.Codec

/-- every field decoder of the list is fine on inputs of at most `N` bytes -/
def FieldsOK {σ : Type} (N : Nat) (fields : List (Field σ)) : Prop :=
  ∀ f ∈ fields, ∀ (N' : Nat) (st : σ), N' ≤ N → Sp 0 N' (f.dec st)

theorem fieldVal_sp {σ : Type} {N : Nat} (f : Field σ) (st : σ) (h : ∀ (N' : Nat) (st : σ), N' ≤ N → Sp 0 N' (f.dec st)) :
    Sp 0 N (fieldVal f st) := by
  unfold fieldVal; sp

theorem structArr_sp {σ : Type} (fuel rem : Nat) : ∀ (fields : List (Field σ)) (n : Nat) (st : σ) (N : Nat),
    2 * N + 2 ≤ fuel → FieldsOK N fields → Sp 0 N (structArr fuel rem fields n st)
  | _, 0, st, N, _, _ => by unfold structArr; sp
  | [], n + 1, st, N, hf, _ => by unfold structArr; sp
  | f :: fs, n + 1, st, N, hf, hF => by
    unfold structArr
    refine Sp.bind0 (fieldVal_sp f st (hF f (List.mem_cons_self ..))) (fun st' => ?_)
    exact structArr_sp fuel rem fs n st' N hf (fun g hg => hF g (List.mem_cons_of_mem _ hg))

theorem mem_insertByName {σ : Type} (f g : Field σ) : ∀ l : List (Field σ), g ∈ insertByName f l → g = f ∨ g ∈ l
  | [], h => by simp [insertByName] at h; exact Or.inl h
  | x :: l, h => by
    unfold insertByName at h
    split at h
    · simpa using h
    · rcases List.mem_cons.1 h with h | h
      · exact Or.inr (h ▸ List.mem_cons_self ..)
      · rcases mem_insertByName f g l h with h | h
        · exact Or.inl h
        · exact Or.inr (List.mem_cons_of_mem _ h)

theorem mem_sortFields {σ : Type} (g : Field σ) : ∀ l : List (Field σ), g ∈ sortFields l → g ∈ l
  | [], h => by simp [sortFields] at h
  | x :: l, h => by
    have h' : g ∈ insertByName x (sortFields l) := by simpa [sortFields] using h
    rcases mem_insertByName x g _ h' with h | h
    · exact h ▸ List.mem_cons_self ..
    · exact List.mem_cons_of_mem _ (mem_sortFields g l h)

theorem lookupField_mem {σ : Type} (fields : List (Field σ)) (key : Bytes) (f : Field σ)
    (h : lookupField fields key = .found f) : f ∈ fields := by
  unfold lookupField at h
  split at h
  · cases h
  · dsimp only at h
    split at h
    · cases h
    · split at h
      · split at h
        · cases h
        · split at h
          · rename_i f' hk
            cases h
            exact mem_sortFields _ _ (List.mem_of_getElem? hk)
          · cases h
      · cases h

theorem structMap_sp {σ : Type} (fuel rem : Nat) (fields : List (Field σ)) : ∀ (n : Nat) (seen : List Bytes) (st : σ) (N : Nat),
    2 * N + 2 ≤ fuel → FieldsOK N fields → Sp 0 N (structMap fuel rem fields n seen st)
  | 0, seen, st, N, _, _ => by unfold structMap; sp
  | n + 1, seen, st, N, hf, hF => by
    unfold structMap
    refine Sp.bindS decodeBytes_sp (fun N' hN' k => ?_) (by omega)
    have hF' : FieldsOK N' fields := fun g hg N'' st' h => hF g hg N'' st' (by omega)
    split
    · sp
    · rename_i f hl
      have hmem := lookupField_mem fields k f hl
      refine Sp.ite (Sp.fail_doc .containerTwice) ?_
      refine Sp.bind0 (fieldVal_sp f st (hF' f hmem)) (fun st' => ?_)
      exact structMap_sp fuel rem fields n _ st' N' (by omega) hF'
    · refine Sp.bind0 ((swallow_sp fuel N' rem (by omega)).mono (by omega)) (fun _ => ?_)
      exact structMap_sp fuel rem fields n _ st N' (by omega) hF'

theorem kStruct_sp {σ : Type} (fuel rem : Nat) (fields : List (Field σ)) (st : σ) (N : Nat)
    (hf : 2 * N + 2 ≤ fuel) (hF : FieldsOK N fields) : Sp 1 N (kStruct fuel rem fields st) := by
  unfold kStruct
  refine Sp.bind0 peek1_sp (fun bd => ?_)
  split
  · refine Sp.bindS readMapStart_sp (fun N' hN' n => ?_) (by omega)
    exact structMap_sp fuel rem fields n [] st N' (by omega) (fun g hg N'' st' h => hF g hg N'' st' (by omega))
  · refine Sp.bindS readArrayStart_sp (fun N' hN' n => ?_) (by omega)
    exact structArr_sp fuel rem fields n st N' (by omega) (fun g hg N'' st' h => hF g hg N'' st' (by omega))
  · sp

theorem sliceElems_sp {α : Type} (elem : Dec α) (zero : α) : ∀ (n : Nat) (acc : List α) (N : Nat),
    (∀ N', N' ≤ N → Sp 0 N' elem) → Sp 0 N (sliceElems elem zero n acc)
  | 0, acc, N, _ => by unfold sliceElems; sp
  | n + 1, acc, N, he => by
    unfold sliceElems
    refine Sp.tryNil_ite (fun N' hN' => ?_) ?_ (by omega)
    · exact sliceElems_sp elem zero n _ N' (fun N'' h => he N'' (by omega))
    · refine Sp.bind0 (he N (Nat.le_refl _)) (fun x => ?_)
      exact sliceElems_sp elem zero n _ N he

theorem kSliceOf_sp {α : Type} (elem : Dec α) (zero : α) (N : Nat) (he : ∀ N', N' ≤ N → Sp 0 N' elem) :
    Sp 1 N (kSliceOf elem zero) := by
  unfold kSliceOf
  refine Sp.bind0 peek1_sp (fun bd => ?_)
  split
  · sp
  · refine Sp.bindS sliceLen_sp (fun N' hN' n => ?_) (by omega)
    exact sliceElems_sp elem zero n [] N' (fun N'' h => he N'' (by omega))

theorem arr32loop_sp (fuel rem : Nat) : ∀ (n j : Nat) (acc : Bytes) (N : Nat), 2 * N + 2 ≤ fuel →
    Sp 0 N (arr32loop fuel rem n j acc)
  | 0, j, acc, N, _ => by unfold arr32loop; sp
  | n + 1, j, acc, N, hf => by
    have ih := fun j acc N (h : 2 * N + 2 ≤ fuel) => arr32loop_sp fuel rem n j acc N h
    unfold arr32loop; sp

theorem decByteArray32_sp (fuel rem N : Nat) (hf : 2 * N + 2 ≤ fuel) : Sp 1 N (decByteArray32 fuel rem) := by
  unfold decByteArray32
  refine Sp.bind0 peek1_sp (fun bd => ?_)
  split
  · exact Sp.map _ decodeBytes_sp
  · refine Sp.bindS sliceLen_sp (fun N' hN' n => ?_) (by omega)
    exact Sp.map _ (arr32loop_sp fuel rem n 0 [] N' (by omega))

theorem decAuthenticators_sp (fuel rem N : Nat) (hf : 2 * N + 2 ≤ fuel) : Sp 1 N (decAuthenticators fuel rem) :=
  kSliceOf_sp _ _ N (fun N' h => (decByteArray32_sp fuel rem N' (by omega)).mono (by omega))

/-! ### the saltpack types -/

theorem versionFields_ok (N : Nat) : FieldsOK N versionFields := by
  intro f hf N' st _
  simp only [versionFields, List.mem_cons, List.not_mem_nil, or_false] at hf
  rcases hf with rfl | rfl <;> (dsimp only; sp)

theorem decVersion_sp (fuel rem N : Nat) (v : Version) (hf : 2 * N + 2 ≤ fuel) : Sp 1 N (decVersion fuel rem v) :=
  kStruct_sp fuel rem _ v N hf (versionFields_ok N)

theorem recvFields_ok (N : Nat) : FieldsOK N recvFields := by
  intro f hf N' st _
  simp only [recvFields, List.mem_cons, List.not_mem_nil, or_false] at hf
  rcases hf with rfl | rfl <;> (dsimp only; sp)

theorem decReceiver_sp (fuel rem N : Nat) (hf : 2 * N + 2 ≤ fuel) : Sp 1 N (decReceiver fuel rem) :=
  kStruct_sp fuel rem _ _ N hf (recvFields_ok N)

theorem encHeaderFields_ok (fuel rem N : Nat) (hf : 2 * N + 2 ≤ fuel) : FieldsOK N (encHeaderFields fuel rem) := by
  intro f hm N' st hN'
  simp only [encHeaderFields, List.mem_cons, List.not_mem_nil, or_false] at hm
  rcases hm with rfl | rfl | rfl | rfl | rfl | rfl
  · dsimp only; sp
  · dsimp only
    exact Sp.bind0 ((decVersion_sp fuel rem N' _ (by omega)).mono (by omega)) (fun _ => Sp.pure _)
  · dsimp only; sp
  · dsimp only; sp
  · dsimp only; sp
  · dsimp only
    refine Sp.bind0 ((kSliceOf_sp _ _ N' (fun N'' h => ?_)).mono (by omega)) (fun _ => Sp.pure _)
    exact (decReceiver_sp fuel rem N'' (by omega)).mono (by omega)

theorem sigHeaderFields_ok (fuel rem N : Nat) (hf : 2 * N + 2 ≤ fuel) : FieldsOK N (sigHeaderFields fuel rem) := by
  intro f hm N' st hN'
  simp only [sigHeaderFields, List.mem_cons, List.not_mem_nil, or_false] at hm
  rcases hm with rfl | rfl | rfl | rfl | rfl
  · dsimp only; sp
  · dsimp only
    exact Sp.bind0 ((decVersion_sp fuel rem N' _ (by omega)).mono (by omega)) (fun _ => Sp.pure _)
  · dsimp only; sp
  · dsimp only; sp
  · dsimp only; sp

theorem encBlockV1Fields_ok (fuel rem N : Nat) (hf : 2 * N + 2 ≤ fuel) : FieldsOK N (encBlockV1Fields fuel rem) := by
  intro f hm N' st hN'
  simp only [encBlockV1Fields, List.mem_cons, List.not_mem_nil, or_false] at hm
  rcases hm with rfl | rfl
  · dsimp only
    exact Sp.bind0 ((decAuthenticators_sp fuel rem N' (by omega)).mono (by omega)) (fun _ => Sp.pure _)
  · dsimp only; sp

theorem signcryptBlockFields_ok (fuel rem N : Nat) : FieldsOK N (signcryptBlockFields fuel rem) := by
  intro f hm N' st hN'
  simp only [signcryptBlockFields, List.mem_cons, List.not_mem_nil, or_false] at hm
  rcases hm with rfl | rfl <;> (dsimp only; sp)

theorem sigBlockV1Fields_ok (fuel rem N : Nat) : FieldsOK N (sigBlockV1Fields fuel rem) := by
  intro f hm N' st hN'
  simp only [sigBlockV1Fields, List.mem_cons, List.not_mem_nil, or_false] at hm
  rcases hm with rfl | rfl <;> (dsimp only; sp)

/-! ### top level: the fuel `fuelFor b` is taken from the input itself -/

theorem topStruct_sp {σ : Type} (fields : Nat → Nat → List (Field σ)) (zero : σ)
    (hF : ∀ fuel rem N, 2 * N + 2 ≤ fuel → FieldsOK N (fields fuel rem)) (N : Nat) : Sp 1 N (topStruct fields zero) := by
  intro b _
  have h : Sp 1 b.length (do if (← Codec.tryNil) then pure zero else kStruct (fuelFor b) 99 (fields (fuelFor b) 99) zero : Dec σ) := by
    refine Sp.tryNil_ite (fun N' _ => Sp.pure _) ?_ (by omega)
    exact kStruct_sp _ _ _ _ _ (by unfold fuelFor; omega) (hF _ _ _ (by unfold fuelFor; omega))
  exact h b (Nat.le_refl _)

theorem selfLoop_sp {σ : Type} (fuel : Nat) : ∀ (decs : List (σ → Dec σ)) (n : Nat) (st : σ) (N : Nat),
    2 * N + 2 ≤ fuel → (∀ d ∈ decs, ∀ (N' : Nat) (st : σ), N' ≤ N → Sp 0 N' (d st)) → Sp 0 N (selfLoop fuel decs n st)
  | _, 0, st, N, _, _ => by unfold selfLoop; sp
  | [], n + 1, st, N, hf, _ => by unfold selfLoop; sp
  | d :: ds, n + 1, st, N, hf, hD => by
    unfold selfLoop
    refine Sp.tryNil_ite (fun N' hN' => ?_) ?_ (by omega)
    · exact selfLoop_sp fuel ds n st N' (by omega)
        (fun g hg N'' st' h => hD g (List.mem_cons_of_mem _ hg) N'' st' (by omega))
    · refine Sp.bind0 (hD d (List.mem_cons_self ..) N st (Nat.le_refl _)) (fun st' => ?_)
      exact selfLoop_sp fuel ds n st' N hf (fun g hg => hD g (List.mem_cons_of_mem _ hg))

theorem topSelfer_sp {σ : Type} (decs : Nat → List (σ → Dec σ)) (zero : σ)
    (hD : ∀ fuel N, 2 * N + 2 ≤ fuel → ∀ d ∈ decs fuel, ∀ (N' : Nat) (st : σ), N' ≤ N → Sp 0 N' (d st)) (N : Nat) :
    Sp 1 N (topSelfer decs zero) := by
  intro b _
  unfold topSelfer
  refine (?_ : Sp 1 b.length _) b (Nat.le_refl _)
  refine Sp.tryNil_ite (fun N' _ => Sp.pure _) ?_ (by omega)
  refine Sp.bindS sliceLen_sp (fun N' hN' n => ?_) (by omega)
  exact selfLoop_sp _ _ _ _ _ (by unfold fuelFor; omega)
    (fun d hd N'' st h => hD (fuelFor b) b.length (by unfold fuelFor; omega) d hd N'' st (by omega))

theorem decEncHeader_sp (N : Nat) : Sp 1 N decEncHeader := topStruct_sp _ _ encHeaderFields_ok N
theorem decSigHeader_sp (N : Nat) : Sp 1 N decSigHeader := topStruct_sp _ _ sigHeaderFields_ok N
theorem decEncBlockV1_sp (N : Nat) : Sp 1 N decEncBlockV1 := topStruct_sp _ _ encBlockV1Fields_ok N
theorem decSigncryptBlock_sp (N : Nat) : Sp 1 N decSigncryptBlock :=
  topStruct_sp _ _ (fun fuel rem N _ => signcryptBlockFields_ok fuel rem N) N
theorem decSigBlockV1_sp (N : Nat) : Sp 1 N decSigBlockV1 :=
  topStruct_sp _ _ (fun fuel rem N _ => sigBlockV1Fields_ok fuel rem N) N

theorem decEncBlockV2_sp (N : Nat) : Sp 1 N decEncBlockV2 := by
  refine topSelfer_sp _ _ (fun fuel N hf d hd N' st hN' => ?_) N
  simp only [List.mem_cons, List.not_mem_nil, or_false] at hd
  rcases hd with rfl | rfl | rfl
  · dsimp only; sp
  · dsimp only
    exact Sp.bind0 ((decAuthenticators_sp fuel 97 N' (by omega)).mono (by omega)) (fun _ => Sp.pure _)
  · dsimp only; sp

theorem decSigBlockV2_sp (N : Nat) : Sp 1 N decSigBlockV2 := by
  refine topSelfer_sp _ _ (fun fuel N hf d hd N' st hN' => ?_) N
  simp only [List.mem_cons, List.not_mem_nil, or_false] at hd
  rcases hd with rfl | rfl | rfl <;> (dsimp only; sp)

theorem decEncBlock_sp (major : Int) (N : Nat) : Sp 1 N (decEncBlock major) := by
  unfold decEncBlock; exact Sp.ite (decEncBlockV1_sp N) (decEncBlockV2_sp N)

theorem decSigBlock_sp (major : Int) (N : Nat) : Sp 1 N (decSigBlock major) := by
  unfold decSigBlock; exact Sp.ite (decSigBlockV1_sp N) (decSigBlockV2_sp N)

theorem decBytesTop_sp (N : Nat) : Sp 1 N decBytesTop := by unfold decBytesTop; sp

theorem generic_sp (N : Nat) : Sp 1 N generic := by
  intro b _
  unfold generic
  refine (?_ : Sp 1 b.length _) b (Nat.le_refl _)
  refine Sp.tryNil_ite (fun N' _ => Sp.pure _) ?_ (by omega)
  exact Sp.bindS (gen_sp _ _ _ (by unfold fuelFor; omega)) (fun _ _ _ => Sp.pure _) (by omega)

end Saltpack.Proofs.CodecP
