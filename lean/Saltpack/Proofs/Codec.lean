/-
  Lemmas about Model/Codec.lean (go-codec's typed decoding): the primitive
  decoders on the canonical encodings of Model/Msgpack.lean, and `swallow` on
  every well-formed value within the depth limit.
-/
import Saltpack.Model.Codec
import Saltpack.Proofs.MsgpackRT

namespace Saltpack.Proofs.CodecP
open Saltpack Saltpack.Msgpack Saltpack.Codec Saltpack.Proofs.MsgpackRT

/-! ### running a decoder -/

theorem bind_run {α β : Type} (x : Dec α) (f : α → Dec β) (b : Bytes) :
    (x >>= f) b = match x b with
      | .ok (a, r) => f a r
      | .error e => .error e := by
  show (StateT.bind x f) b = _
  unfold StateT.bind
  cases h : x b with
  | error e => simp [bind, Except.bind]
  | ok p => obtain ⟨a, r⟩ := p; simp [bind, Except.bind]

theorem bind_ok {α β : Type} {x : Dec α} {f : α → Dec β} {b r : Bytes} {a : α} (h : x b = .ok (a, r)) :
    (x >>= f) b = f a r := by rw [bind_run, h]

theorem bind_err {α β : Type} {x : Dec α} {f : α → Dec β} {b : Bytes} {e : DErr} (h : x b = .error e) :
    (x >>= f) b = .error e := by rw [bind_run, h]

theorem pure_run {α : Type} (a : α) (b : Bytes) : (pure a : Dec α) b = .ok (a, b) := rfl

theorem map_run {α β : Type} (g : α → β) (x : Dec α) (b : Bytes) :
    (g <$> x) b = match x b with
      | .ok (a, r) => .ok (g a, r)
      | .error e => .error e := by
  show (StateT.map g x) b = _
  unfold StateT.map
  cases h : x b with
  | error e => simp [bind, Except.bind]
  | ok p => obtain ⟨a, r⟩ := p; simp [bind, Except.bind, pure, Except.pure]

theorem map_ok {α β : Type} {g : α → β} {x : Dec α} {b r : Bytes} {a : α} (h : x b = .ok (a, r)) :
    (g <$> x) b = .ok (g a, r) := by rw [map_run, h]

/-! ### primitives -/

theorem readn1_cons (x : UInt8) (r : Bytes) : readn1 (x :: r) = .ok (x, r) := rfl
theorem peek1_cons (x : UInt8) (r : Bytes) : peek1 (x :: r) = .ok (x, x :: r) := rfl

theorem tryNil_c0 (r : Bytes) : tryNil (0xc0 :: r) = .ok (true, r) := by simp [tryNil]
theorem tryNil_other (x : UInt8) (r : Bytes) (h : x ≠ 0xc0) : tryNil (x :: r) = .ok (false, x :: r) := by
  simp [tryNil, h]

theorem readx_append (s r : Bytes) : readx s.length (s ++ r) = .ok (s, r) := by
  unfold readx; rw [takeN_append]; rfl

theorem readBE_beN (w n : Nat) (r : Bytes) (h : n < 256 ^ w) : readBE w (beN w n ++ r) = .ok (n, r) := by
  unfold readBE; rw [readLen_beN w n r h]; rfl

theorem ofNat_ne_c0 (n : Nat) (h : n < 256) (h2 : n ≠ 0xc0) : UInt8.ofNat n ≠ 0xc0 := by
  intro e
  have := congrArg UInt8.toNat e
  rw [toNat_ofNat_lt n h] at this
  exact h2 this

/-! ### container types of the encoders' first bytes -/

theorem ctype_fixarr (c : Nat) (h1 : 0x90 ≤ c) (h2 : c ≤ 0x9f) : ctype c = .array := by
  unfold ctype
  split
  · omega
  · split
    · omega
    · split
      · rfl
      · omega

theorem ctype_dc : ctype 0xdc = .array := by decide
theorem ctype_dd : ctype 0xdd = .array := by decide
theorem ctype_c4 : ctype 0xc4 = .bytes := by decide
theorem ctype_c5 : ctype 0xc5 = .bytes := by decide
theorem ctype_c6 : ctype 0xc6 = .bytes := by decide
theorem ctype_d9 : ctype 0xd9 = .bytes := by decide
theorem ctype_da : ctype 0xda = .bytes := by decide
theorem ctype_db : ctype 0xdb = .bytes := by decide

theorem ctype_fixstr (c : Nat) (h1 : 0xa0 ≤ c) (h2 : c ≤ 0xbf) : ctype c = .bytes := by
  unfold ctype
  split
  · omega
  · split
    · rfl
    · omega

/-- the scalar descriptors: not a container -/
theorem ctype_unset (c : Nat) (h : c < 0x80 ∨ c = 0xc2 ∨ c = 0xc3 ∨ (0xcc ≤ c ∧ c ≤ 0xd3) ∨ 0xe0 ≤ c) (h256 : c < 256) :
    ctype c = .unset := by
  unfold ctype
  split
  · omega
  · split
    · omega
    · split
      · omega
      · split
        · omega
        · rfl


/-! ### integers -/

theorem readInt_ok {f : Nat → Int} {w : Nat} {b r : Bytes} {n : Nat} (h : readBE w b = .ok (n, r)) :
    readInt f w b = .ok (f n, r) := by
  rw [readInt, bind_ok h]; rfl

theorem readKey_ok {f : Nat → GKey} {w : Nat} {b r : Bytes} {n : Nat} (h : readBE w b = .ok (n, r)) :
    readKey f w b = .ok (some (f n), r) := by
  rw [readKey, bind_ok h]; rfl

theorem decodeInt64_cons (x : UInt8) (rest : Bytes) :
    decodeInt64 (x :: rest) =
      (if x.toNat = 0xcc then readInt Int.ofNat 1
      else if x.toNat = 0xcd then readInt Int.ofNat 2
      else if x.toNat = 0xce then readInt Int.ofNat 4
      else if x.toNat = 0xcf then readInt (signedOf 64) 8
      else if x.toNat = 0xd0 then readInt (signedOf 8) 1
      else if x.toNat = 0xd1 then readInt (signedOf 16) 2
      else if x.toNat = 0xd2 then readInt (signedOf 32) 4
      else if x.toNat = 0xd3 then readInt (signedOf 64) 8
      else if x.toNat < 0x80 then pure (Int.ofNat x.toNat)
      else if 0xe0 ≤ x.toNat then pure (Int.ofNat x.toNat - 256)
      else bad "cannot decode signed integer") rest := by
  rw [decodeInt64, bind_ok (readn1_cons _ _)]

/-- what the model makes of one integer object `x :: t` (rest `r`): it is not
    nil, not a container, `swallow`'s scalar branch consumes it, and
    `DecodeInt64` reads `i` -/
structure IntObj (x : UInt8) (t r : Bytes) (i : Int) : Prop where
  ne : x ≠ 0xc0
  ct : ctype x.toNat = .unset
  naked : ∃ k, nakedScalar x.toNat t = .ok (some k, r)
  dec : decodeInt64 (x :: t) = .ok (i, r)

theorem intObj_cc (rest r : Bytes) (n : Nat) (h : readBE 1 rest = .ok (n, r)) :
    IntObj 0xcc rest r (Int.ofNat n) := by
  refine ⟨by decide, by decide, ⟨GKey.uint n, ?_⟩, ?_⟩
  · rw [nakedScalar]
    simp (config := {decide := true}) only [show (0xcc : UInt8).toNat = 0xcc from rfl, if_false, if_true]
    exact readKey_ok h
  · rw [decodeInt64_cons]
    simp (config := {decide := true}) only [show (0xcc : UInt8).toNat = 0xcc from rfl, if_false, if_true]
    exact readInt_ok h

theorem intObj_cd (rest r : Bytes) (n : Nat) (h : readBE 2 rest = .ok (n, r)) :
    IntObj 0xcd rest r (Int.ofNat n) := by
  refine ⟨by decide, by decide, ⟨GKey.uint n, ?_⟩, ?_⟩
  · rw [nakedScalar]
    simp (config := {decide := true}) only [show (0xcd : UInt8).toNat = 0xcd from rfl, if_false, if_true]
    exact readKey_ok h
  · rw [decodeInt64_cons]
    simp (config := {decide := true}) only [show (0xcd : UInt8).toNat = 0xcd from rfl, if_false, if_true]
    exact readInt_ok h

theorem intObj_ce (rest r : Bytes) (n : Nat) (h : readBE 4 rest = .ok (n, r)) :
    IntObj 0xce rest r (Int.ofNat n) := by
  refine ⟨by decide, by decide, ⟨GKey.uint n, ?_⟩, ?_⟩
  · rw [nakedScalar]
    simp (config := {decide := true}) only [show (0xce : UInt8).toNat = 0xce from rfl, if_false, if_true]
    exact readKey_ok h
  · rw [decodeInt64_cons]
    simp (config := {decide := true}) only [show (0xce : UInt8).toNat = 0xce from rfl, if_false, if_true]
    exact readInt_ok h

theorem intObj_cf (rest r : Bytes) (n : Nat) (h : readBE 8 rest = .ok (n, r)) :
    IntObj 0xcf rest r ((signedOf 64) n) := by
  refine ⟨by decide, by decide, ⟨GKey.uint n, ?_⟩, ?_⟩
  · rw [nakedScalar]
    simp (config := {decide := true}) only [show (0xcf : UInt8).toNat = 0xcf from rfl, if_false, if_true]
    exact readKey_ok h
  · rw [decodeInt64_cons]
    simp (config := {decide := true}) only [show (0xcf : UInt8).toNat = 0xcf from rfl, if_false, if_true]
    exact readInt_ok h

theorem intObj_d0 (rest r : Bytes) (n : Nat) (h : readBE 1 rest = .ok (n, r)) :
    IntObj 0xd0 rest r ((signedOf 8) n) := by
  refine ⟨by decide, by decide, ⟨GKey.int (signedOf 8 n), ?_⟩, ?_⟩
  · rw [nakedScalar]
    simp (config := {decide := true}) only [show (0xd0 : UInt8).toNat = 0xd0 from rfl, if_false, if_true]
    exact readKey_ok h
  · rw [decodeInt64_cons]
    simp (config := {decide := true}) only [show (0xd0 : UInt8).toNat = 0xd0 from rfl, if_false, if_true]
    exact readInt_ok h

theorem intObj_d1 (rest r : Bytes) (n : Nat) (h : readBE 2 rest = .ok (n, r)) :
    IntObj 0xd1 rest r ((signedOf 16) n) := by
  refine ⟨by decide, by decide, ⟨GKey.int (signedOf 16 n), ?_⟩, ?_⟩
  · rw [nakedScalar]
    simp (config := {decide := true}) only [show (0xd1 : UInt8).toNat = 0xd1 from rfl, if_false, if_true]
    exact readKey_ok h
  · rw [decodeInt64_cons]
    simp (config := {decide := true}) only [show (0xd1 : UInt8).toNat = 0xd1 from rfl, if_false, if_true]
    exact readInt_ok h

theorem intObj_d2 (rest r : Bytes) (n : Nat) (h : readBE 4 rest = .ok (n, r)) :
    IntObj 0xd2 rest r ((signedOf 32) n) := by
  refine ⟨by decide, by decide, ⟨GKey.int (signedOf 32 n), ?_⟩, ?_⟩
  · rw [nakedScalar]
    simp (config := {decide := true}) only [show (0xd2 : UInt8).toNat = 0xd2 from rfl, if_false, if_true]
    exact readKey_ok h
  · rw [decodeInt64_cons]
    simp (config := {decide := true}) only [show (0xd2 : UInt8).toNat = 0xd2 from rfl, if_false, if_true]
    exact readInt_ok h

theorem intObj_d3 (rest r : Bytes) (n : Nat) (h : readBE 8 rest = .ok (n, r)) :
    IntObj 0xd3 rest r ((signedOf 64) n) := by
  refine ⟨by decide, by decide, ⟨GKey.int (signedOf 64 n), ?_⟩, ?_⟩
  · rw [nakedScalar]
    simp (config := {decide := true}) only [show (0xd3 : UInt8).toNat = 0xd3 from rfl, if_false, if_true]
    exact readKey_ok h
  · rw [decodeInt64_cons]
    simp (config := {decide := true}) only [show (0xd3 : UInt8).toNat = 0xd3 from rfl, if_false, if_true]
    exact readInt_ok h

theorem intObj_posfix (x : UInt8) (rest : Bytes) (h : x.toNat < 0x80) :
    IntObj x rest rest (Int.ofNat x.toNat) := by
  refine ⟨?_, ctype_unset _ (Or.inl h) (by omega), ⟨GKey.int (Int.ofNat x.toNat), ?_⟩, ?_⟩
  · intro e; rw [e] at h; revert h; decide
  · rw [nakedScalar]
    rw [if_neg (by omega), if_neg (by omega), if_neg (by omega), if_neg (by omega), if_neg (by omega),
      if_neg (by omega), if_neg (by omega), if_neg (by omega), if_neg (by omega), if_neg (by omega),
      if_neg (by omega), if_neg (by omega), if_neg (by omega), if_pos h]
    rfl
  · rw [decodeInt64_cons]
    rw [if_neg (by omega), if_neg (by omega), if_neg (by omega), if_neg (by omega), if_neg (by omega),
      if_neg (by omega), if_neg (by omega), if_neg (by omega), if_pos h]
    rfl

theorem intObj_negfix (x : UInt8) (rest : Bytes) (h : 0xe0 ≤ x.toNat) :
    IntObj x rest rest (Int.ofNat x.toNat - 256) := by
  have h256 : x.toNat < 256 := x.toNat_lt
  refine ⟨?_, ctype_unset _ (Or.inr (Or.inr (Or.inr (Or.inr h)))) h256, ⟨GKey.int (Int.ofNat x.toNat - 256), ?_⟩, ?_⟩
  · intro e; rw [e] at h; revert h; decide
  · rw [nakedScalar]
    rw [if_neg (by omega), if_neg (by omega), if_neg (by omega), if_neg (by omega), if_neg (by omega),
      if_neg (by omega), if_neg (by omega), if_neg (by omega), if_neg (by omega), if_neg (by omega),
      if_neg (by omega), if_neg (by omega), if_neg (by omega), if_neg (by omega), if_pos h]
    rfl
  · rw [decodeInt64_cons]
    rw [if_neg (by omega), if_neg (by omega), if_neg (by omega), if_neg (by omega), if_neg (by omega),
      if_neg (by omega), if_neg (by omega), if_neg (by omega), if_neg (by omega), if_pos h]
    rfl

theorem signedOf_64_small (n : Nat) (h : n < 2 ^ 63) : signedOf 64 n = (n : Int) := by
  unfold signedOf
  rw [if_pos (by omega)]

/-- `encUInt n` is an integer object read as `n` (for `n ≥ 2^63` go-codec's
    `int64(uint64)` wraps: `signedOf 64 n`) -/
theorem intObj_encUInt (n : Nat) (h : n < 2 ^ 64) (r : Bytes) :
    ∃ x t, encUInt n ++ r = x :: t ∧ IntObj x t r (if n < 2 ^ 63 then (n : Int) else signedOf 64 n) := by
  unfold encUInt
  split
  · rename_i h1
    have ht : (UInt8.ofNat n).toNat = n := toNat_ofNat_lt _ (by omega)
    refine ⟨UInt8.ofNat n, r, rfl, ?_⟩
    have := intObj_posfix (UInt8.ofNat n) r (by omega)
    rw [ht] at this
    rw [if_pos (by omega)]
    exact this
  · split
    · rename_i h1 h2
      refine ⟨0xcc, beN 1 n ++ r, by rw [beN_one _ h2]; rfl, ?_⟩
      rw [if_pos (by omega)]
      exact intObj_cc _ _ _ (readBE_beN 1 n r (by omega))
    · split
      · refine ⟨0xcd, beN 2 n ++ r, rfl, ?_⟩
        rw [if_pos (by omega)]
        exact intObj_cd _ _ _ (readBE_beN 2 n r (by omega))
      · split
        · refine ⟨0xce, beN 4 n ++ r, rfl, ?_⟩
          rw [if_pos (by omega)]
          exact intObj_ce _ _ _ (readBE_beN 4 n r (by omega))
        · refine ⟨0xcf, beN 8 n ++ r, rfl, ?_⟩
          have := intObj_cf _ _ _ (readBE_beN 8 n r (by omega))
          split
          · rename_i h5; rw [signedOf_64_small n h5] at this; exact this
          · exact this

/-- `encInt i` for an `i` in go's `int64` range is read back as `i` -/
theorem intObj_encInt (i : Int) (hlo : -(2 ^ 63 : Int) ≤ i) (hhi : i < (2 ^ 63 : Int)) (r : Bytes) :
    ∃ x t, encInt i ++ r = x :: t ∧ IntObj x t r i := by
  unfold encInt
  split
  · rename_i h0
    obtain ⟨x, t, e, hobj⟩ := intObj_encUInt i.toNat (by omega) r
    refine ⟨x, t, e, ?_⟩
    rw [if_pos (by omega), Int.toNat_of_nonneg h0] at hobj
    exact hobj
  · rename_i h0
    generalize hm : (-i).toNat = m
    have hi : i = -(m : Int) := by omega
    split
    · have ht : (UInt8.ofNat (256 - m)).toNat = 256 - m := toNat_ofNat_lt _ (by omega)
      refine ⟨UInt8.ofNat (256 - m), r, rfl, ?_⟩
      have := intObj_negfix (UInt8.ofNat (256 - m)) r (by omega)
      rw [ht] at this
      have e : (Int.ofNat (256 - m) - 256) = i := by
        show (((256 - m : Nat) : Int) - 256) = i
        omega
      rw [e] at this
      exact this
    · split
      · refine ⟨0xd0, beN 1 (256 - m) ++ r, by rw [beN_one _ (by omega)]; rfl, ?_⟩
        have := intObj_d0 _ _ _ (readBE_beN 1 (256 - m) r (by omega))
        rw [signedOf_8 m (by omega) (by omega), ← hi] at this
        exact this
      · split
        · refine ⟨0xd1, beN 2 (65536 - m) ++ r, rfl, ?_⟩
          have := intObj_d1 _ _ _ (readBE_beN 2 (65536 - m) r (by omega))
          rw [signedOf_16 m (by omega) (by omega), ← hi] at this
          exact this
        · split
          · refine ⟨0xd2, beN 4 (4294967296 - m) ++ r, rfl, ?_⟩
            have := intObj_d2 _ _ _ (readBE_beN 4 (4294967296 - m) r (by omega))
            rw [signedOf_32 m (by omega) (by omega), ← hi] at this
            exact this
          · refine ⟨0xd3, beN 8 (18446744073709551616 - m) ++ r, rfl, ?_⟩
            have := intObj_d3 _ _ _ (readBE_beN 8 (18446744073709551616 - m) r (by omega))
            rw [signedOf_64 m (by omega) (by omega), ← hi] at this
            exact this


theorem intObj_encInt_any (i : Int) (hlo : -(2 ^ 63 : Int) ≤ i) (hhi : i < (2 ^ 64 : Int)) (r : Bytes) :
    ∃ x t j, encInt i ++ r = x :: t ∧ IntObj x t r j := by
  by_cases h : i < (2 ^ 63 : Int)
  · obtain ⟨x, t, e, o⟩ := intObj_encInt i hlo h r
    exact ⟨x, t, i, e, o⟩
  · have h0 : 0 ≤ i := by omega
    obtain ⟨x, t, e, o⟩ := intObj_encUInt i.toNat (by omega) r
    refine ⟨x, t, _, ?_, o⟩
    rw [← e, encInt, if_pos h0]

/-! ### byte strings, booleans, array headers -/

structure BytesObj (x : UInt8) (t r : Bytes) (b : Bytes) : Prop where
  ne : x ≠ 0xc0
  ct : ctype x.toNat = .bytes
  dec : decodeBytes (x :: t) = .ok (b, r)

theorem decodeBytes_of_bytes (x : UInt8) (t : Bytes) (h : ctype x.toNat = .bytes) :
    decodeBytes (x :: t) = (lenBytes x.toNat >>= readx) t := by
  rw [decodeBytes, bind_ok (peek1_cons _ _)]
  simp only [h]
  rw [bind_ok (readn1_cons _ _)]

theorem decBytesField_of_bytes (x : UInt8) (t : Bytes) (h : ctype x.toNat = .bytes) :
    decBytesField (x :: t) = decodeBytes (x :: t) := by
  rw [decBytesField, bind_ok (peek1_cons _ _)]
  simp only [h]

theorem bytesObj_wide (x : UInt8) (w : Nat) (b r : Bytes) (hne : x ≠ 0xc0) (hct : ctype x.toNat = .bytes)
    (hl : lenBytes x.toNat = readBE w) (hb : b.length < 256 ^ w) :
    BytesObj x (beN w b.length ++ (b ++ r)) r b := by
  refine ⟨hne, hct, ?_⟩
  rw [decodeBytes_of_bytes _ _ hct, hl, bind_ok (readBE_beN w b.length _ hb)]
  exact readx_append b r

theorem bytesObj_encBin (b : Bytes) (h : b.length < 2 ^ 32) (r : Bytes) :
    ∃ x t, encBin b ++ r = x :: t ∧ BytesObj x t r b := by
  unfold encBin encBinHdr
  split
  · rename_i h1
    refine ⟨0xc4, beN 1 b.length ++ (b ++ r), by rw [beN_one _ h1]; simp, ?_⟩
    exact bytesObj_wide 0xc4 1 b r (by decide) (by decide) (by simp (config := {decide := true}) [lenBytes]) (by omega)
  · split
    · refine ⟨0xc5, beN 2 b.length ++ (b ++ r), by simp, ?_⟩
      exact bytesObj_wide 0xc5 2 b r (by decide) (by decide) (by simp (config := {decide := true}) [lenBytes]) (by omega)
    · refine ⟨0xc6, beN 4 b.length ++ (b ++ r), by simp, ?_⟩
      exact bytesObj_wide 0xc6 4 b r (by decide) (by decide) (by simp (config := {decide := true}) [lenBytes]) (by omega)

theorem bytesObj_encStr (b : Bytes) (h : b.length < 2 ^ 32) (r : Bytes) :
    ∃ x t, encStr b ++ r = x :: t ∧ BytesObj x t r b := by
  unfold encStr encStrHdr
  split
  · rename_i h1
    have ht : (UInt8.ofNat (0xa0 + b.length)).toNat = 0xa0 + b.length := toNat_ofNat_lt _ (by omega)
    have hct : ctype (UInt8.ofNat (0xa0 + b.length)).toNat = .bytes := by rw [ht]; exact ctype_fixstr _ (by omega) (by omega)
    refine ⟨UInt8.ofNat (0xa0 + b.length), b ++ r, by simp, ofNat_ne_c0 _ (by omega) (by omega), hct, ?_⟩
    rw [decodeBytes_of_bytes _ _ hct, ht, lenBytes, if_neg (by omega), if_neg (by omega), if_neg (by omega),
      bind_ok (pure_run _ _), Nat.add_sub_cancel_left]
    exact readx_append b r
  · split
    · rename_i h1 h2
      refine ⟨0xd9, beN 1 b.length ++ (b ++ r), by rw [beN_one _ h2]; simp, ?_⟩
      exact bytesObj_wide 0xd9 1 b r (by decide) (by decide) (by simp (config := {decide := true}) [lenBytes]) (by omega)
    · split
      · refine ⟨0xda, beN 2 b.length ++ (b ++ r), by simp, ?_⟩
        exact bytesObj_wide 0xda 2 b r (by decide) (by decide) (by simp (config := {decide := true}) [lenBytes]) (by omega)
      · refine ⟨0xdb, beN 4 b.length ++ (b ++ r), by simp, ?_⟩
        exact bytesObj_wide 0xdb 4 b r (by decide) (by decide) (by simp (config := {decide := true}) [lenBytes]) (by omega)

/-- `encBool f` for the decoders -/
theorem boolObj (f : Bool) (r : Bytes) :
    ∃ x, encBool f ++ r = x :: r ∧ x ≠ 0xc0 ∧ ctype x.toNat = .unset ∧
      (∃ k, nakedScalar x.toNat r = .ok (some k, r)) ∧ decodeBool (x :: r) = .ok (f, r) := by
  cases f
  · refine ⟨0xc2, rfl, by decide, by decide, ⟨.bool false, ?_⟩, ?_⟩
    · rw [nakedScalar]; simp (config := {decide := true}) only [show (0xc2 : UInt8).toNat = 0xc2 from rfl, if_false, if_true]; rfl
    · rw [decodeBool, bind_ok (readn1_cons _ _)]
      simp (config := {decide := true}) only [show (0xc2 : UInt8).toNat = 0xc2 from rfl, if_false, if_true, true_or]; rfl
  · refine ⟨0xc3, rfl, by decide, by decide, ⟨.bool true, ?_⟩, ?_⟩
    · rw [nakedScalar]; simp (config := {decide := true}) only [show (0xc3 : UInt8).toNat = 0xc3 from rfl, if_false, if_true]; rfl
    · rw [decodeBool, bind_ok (readn1_cons _ _)]
      simp (config := {decide := true}) only [show (0xc3 : UInt8).toNat = 0xc3 from rfl, if_false, if_true, true_or, false_or, or_false, or_true]; rfl

/-- an array header for the decoders -/
theorem arrHdr_obj (n : Nat) (hn : n < 2 ^ 32) (r : Bytes) :
    ∃ x t, encArrayHdr n ++ r = x :: t ∧ x ≠ 0xc0 ∧ ctype x.toNat = .array ∧ readArrayStart (x :: t) = .ok (n, r) := by
  unfold encArrayHdr
  split
  · rename_i h1
    have ht : (UInt8.ofNat (0x90 + n)).toNat = 0x90 + n := toNat_ofNat_lt _ (by omega)
    refine ⟨UInt8.ofNat (0x90 + n), r, rfl, ofNat_ne_c0 _ (by omega) (by omega), by rw [ht]; exact ctype_fixarr _ (by omega) (by omega), ?_⟩
    rw [readArrayStart, bind_ok (readn1_cons _ _), ht, lenArr, if_neg (by omega), if_neg (by omega), Nat.add_sub_cancel_left]
    rfl
  · split
    · refine ⟨0xdc, beN 2 n ++ r, rfl, by decide, by decide, ?_⟩
      rw [readArrayStart, bind_ok (readn1_cons _ _)]
      simp (config := {decide := true}) only [show (0xdc : UInt8).toNat = 0xdc from rfl, lenArr, if_true]
      exact readBE_beN 2 n r (by omega)
    · refine ⟨0xdd, beN 4 n ++ r, rfl, by decide, by decide, ?_⟩
      rw [readArrayStart, bind_ok (readn1_cons _ _)]
      simp (config := {decide := true}) only [show (0xdd : UInt8).toNat = 0xdd from rfl, lenArr, if_true, if_false]
      exact readBE_beN 4 n r (by omega)


/-! ### `swallow` on every well-formed value within the depth limit -/

/-- nesting depth as `swallow` counts it: a scalar 1, an array one more than
    its deepest element -/
def depth : Val → Nat
  | .arr l => 1 + depthList l
  | .nil => 1
  | .bool _ => 1
  | .int _ => 1
  | .bin _ => 1
  | .str _ => 1
  | .map _ => 1
  | .ext _ _ => 1
  | .float _ => 1
where
  depthList : List Val → Nat
    | [] => 0
    | v :: vs => max (depth v) (depthList vs)

theorem depthList_nil : depth.depthList [] = 0 := by rw [depth.depthList]
theorem depthList_cons (v : Val) (vs : List Val) :
    depth.depthList (v :: vs) = max (depth v) (depth.depthList vs) := by rw [depth.depthList]

theorem swallow_scalar (f rem : Nat) (hrem : rem ≠ 0) (x : UInt8) (t r : Bytes) (ne : x ≠ 0xc0)
    (ct : ctype x.toNat = .unset) (naked : ∃ k, nakedScalar x.toNat t = .ok (some k, r)) :
    swallow (f + 1) rem (x :: t) = .ok ((), r) := by
  obtain ⟨k, hk⟩ := naked
  rw [swallow, if_neg hrem, bind_ok (tryNil_other x t ne)]
  simp only [Bool.false_eq_true, if_false]
  rw [bind_ok (peek1_cons _ _)]
  simp only [ct]
  rw [bind_ok (readn1_cons _ _), bind_ok hk]
  rfl

theorem swallow_bytes (f rem : Nat) (hrem : rem ≠ 0) (x : UInt8) (t r b : Bytes) (o : BytesObj x t r b) :
    swallow (f + 1) rem (x :: t) = .ok ((), r) := by
  rw [swallow, if_neg hrem, bind_ok (tryNil_other x t o.ne)]
  simp only [Bool.false_eq_true, if_false]
  rw [bind_ok (peek1_cons _ _)]
  simp only [o.ct]
  rw [bind_ok o.dec]
  rfl

theorem swallow_nil (f rem : Nat) (hrem : rem ≠ 0) (r : Bytes) : swallow (f + 1) rem (0xc0 :: r) = .ok ((), r) := by
  rw [swallow, if_neg hrem, bind_ok (tryNil_c0 r)]
  rfl

theorem swallow_arr (f rem n : Nat) (hrem : rem ≠ 0) (x : UInt8) (t r : Bytes) (ne : x ≠ 0xc0)
    (ct : ctype x.toNat = .array) (hs : readArrayStart (x :: t) = .ok (n, r)) :
    swallow (f + 1) rem (x :: t) = swallowN f (rem - 1) n r := by
  rw [swallow, if_neg hrem, bind_ok (tryNil_other x t ne)]
  simp only [Bool.false_eq_true, if_false]
  rw [bind_ok (peek1_cons _ _)]
  simp only [ct]
  rw [bind_ok hs]

mutual
theorem swallow_encode : (v : Val) → ValWF v → ∀ (rest : Bytes) (fuel rem : Nat),
    2 * (encode v).length ≤ fuel → depth v ≤ rem → swallow fuel rem (encode v ++ rest) = .ok ((), rest)
  | .nil, _, rest, fuel, rem, hf, hd => by
    have := encode_pos .nil
    obtain ⟨f, rfl⟩ : ∃ f, fuel = f + 1 := ⟨fuel - 1, by omega⟩
    rw [depth] at hd
    rw [encode]; exact swallow_nil f rem (by omega) rest
  | .bool b, _, rest, fuel, rem, hf, hd => by
    have := encode_pos (.bool b)
    obtain ⟨f, rfl⟩ : ∃ f, fuel = f + 1 := ⟨fuel - 1, by omega⟩
    rw [depth] at hd
    rw [encode]
    obtain ⟨x, e, ne, ct, nk, _⟩ := boolObj b rest
    rw [e]; exact swallow_scalar f rem (by omega) x rest rest ne ct nk
  | .int i, hv, rest, fuel, rem, hf, hd => by
    have := encode_pos (.int i)
    obtain ⟨f, rfl⟩ : ∃ f, fuel = f + 1 := ⟨fuel - 1, by omega⟩
    rw [depth] at hd
    rw [encode]
    cases hv with
    | int _ hlo hhi =>
      obtain ⟨x, t, j, e, o⟩ := intObj_encInt_any i hlo hhi rest
      rw [e]; exact swallow_scalar f rem (by omega) x t rest o.ne o.ct o.naked
  | .bin b, hv, rest, fuel, rem, hf, hd => by
    have := encode_pos (.bin b)
    obtain ⟨f, rfl⟩ : ∃ f, fuel = f + 1 := ⟨fuel - 1, by omega⟩
    rw [depth] at hd
    rw [encode]
    cases hv with
    | bin _ h =>
      obtain ⟨x, t, e, o⟩ := bytesObj_encBin b h rest
      rw [e]; exact swallow_bytes f rem (by omega) x t rest b o
  | .str b, hv, rest, fuel, rem, hf, hd => by
    have := encode_pos (.str b)
    obtain ⟨f, rfl⟩ : ∃ f, fuel = f + 1 := ⟨fuel - 1, by omega⟩
    rw [depth] at hd
    rw [encode]
    cases hv with
    | str _ h =>
      obtain ⟨x, t, e, o⟩ := bytesObj_encStr b h rest
      rw [e]; exact swallow_bytes f rem (by omega) x t rest b o
  | .arr l, hv, rest, fuel, rem, hf, hd => by
    have hp := encArrayHdr_pos l.length
    rw [encode, List.length_append] at hf
    obtain ⟨f, rfl⟩ : ∃ f, fuel = f + 1 := ⟨fuel - 1, by omega⟩
    rw [depth] at hd
    rw [encode, List.append_assoc]
    cases hv with
    | arr _ hl hall =>
      obtain ⟨x, t, e, ne, ct, hs⟩ := arrHdr_obj l.length hl (encode.encodeList l ++ rest)
      rw [e, swallow_arr f rem l.length (by omega) x t _ ne ct hs]
      exact swallowN_encodeList l hall rest f (rem - 1) (by omega) (by omega)
  | .map _, hv, _, _, _, _, _ => by cases hv
  | .ext _ _, hv, _, _, _, _, _ => by cases hv
  | .float _, hv, _, _, _, _, _ => by cases hv
theorem swallowN_encodeList : (l : List Val) → (∀ v ∈ l, ValWF v) → ∀ (rest : Bytes) (fuel rem : Nat),
    2 * (encode.encodeList l).length + 1 ≤ fuel → depth.depthList l ≤ rem →
    swallowN fuel rem l.length (encode.encodeList l ++ rest) = .ok ((), rest)
  | [], _, rest, fuel, rem, hf, _ => by
    obtain ⟨f, rfl⟩ : ∃ f, fuel = f + 1 := ⟨fuel - 1, by omega⟩
    rw [encodeList_nil, List.length_nil, swallowN]
    rfl
  | v :: vs, hall, rest, fuel, rem, hf, hd => by
    have hp := encode_pos v
    rw [encodeList_cons, List.length_append] at hf
    rw [depthList_cons] at hd
    obtain ⟨f, rfl⟩ : ∃ f, fuel = f + 1 := ⟨fuel - 1, by omega⟩
    rw [encodeList_cons, List.length_cons, swallowN, List.append_assoc,
      bind_ok (swallow_encode v (hall v (by simp)) _ f rem (by omega) (by omega))]
    exact swallowN_encodeList vs (fun x hx => hall x (by simp [hx])) rest f rem (by omega) (by omega)
end

end Saltpack.Proofs.CodecP
