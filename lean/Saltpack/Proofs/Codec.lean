/-
  Lemmas about Model/Codec.lean (go-codec's typed decoding): the primitive
  decoders on the canonical encodings of Model/Msgpack.lean, and `swallow` on
  every well-formed value within the depth limit.
-/
import Saltpack.Model.Codec
import Saltpack.Proofs.MsgpackRT

namespace Saltpack.Proofs.CodecP
open Saltpack Saltpack.Msgpack Saltpack.Codec Saltpack.Proofs.MsgpackRT

/-! ### running a decoder -/

theorem bind_run {α β : Type} (x : Dec α) (f : α → Dec β) (b : Bytes) :
    (x >>= f) b = match x b with
      | .ok (a, r) => f a r
      | .error e => .error e := by
  show (StateT.bind x f) b = _
  unfold StateT.bind
  cases h : x b with
  | error e => simp [bind, Except.bind]
  | ok p => obtain ⟨a, r⟩ := p; simp [bind, Except.bind]

theorem bind_ok {α β : Type} {x : Dec α} {f : α → Dec β} {b r : Bytes} {a : α} (h : x b = .ok (a, r)) :
    (x >>= f) b = f a r := by rw [bind_run, h]

theorem bind_err {α β : Type} {x : Dec α} {f : α → Dec β} {b : Bytes} {e : DErr} (h : x b = .error e) :
    (x >>= f) b = .error e := by rw [bind_run, h]

theorem pure_run {α : Type} (a : α) (b : Bytes) : (pure a : Dec α) b = .ok (a, b) := rfl

theorem map_run {α β : Type} (g : α → β) (x : Dec α) (b : Bytes) :
    (g <$> x) b = match x b with
      | .ok (a, r) => .ok (g a, r)
      | .error e => .error e := by
  show (StateT.map g x) b = _
  unfold StateT.map
  cases h : x b with
  | error e => simp [bind, Except.bind]
  | ok p => obtain ⟨a, r⟩ := p; simp [bind, Except.bind, pure, Except.pure]

theorem map_ok {α β : Type} {g : α → β} {x : Dec α} {b r : Bytes} {a : α} (h : x b = .ok (a, r)) :
    (g <$> x) b = .ok (g a, r) := by rw [map_run, h]

/-! ### primitives -/

theorem readn1_cons (x : UInt8) (r : Bytes) : readn1 (x :: r) = .ok (x, r) := rfl
theorem peek1_cons (x : UInt8) (r : Bytes) : peek1 (x :: r) = .ok (x, x :: r) := rfl

theorem tryNil_c0 (r : Bytes) : tryNil (0xc0 :: r) = .ok (true, r) := by simp [tryNil]
theorem tryNil_other (x : UInt8) (r : Bytes) (h : x ≠ 0xc0) : tryNil (x :: r) = .ok (false, x :: r) := by
  simp [tryNil, h]

theorem readx_append (s r : Bytes) : readx s.length (s ++ r) = .ok (s, r) := by
  unfold readx; rw [takeN_append]; rfl

theorem readBE_beN (w n : Nat) (r : Bytes) (h : n < 256 ^ w) : readBE w (beN w n ++ r) = .ok (n, r) := by
  unfold readBE; rw [readLen_beN w n r h]; rfl

theorem ofNat_ne_c0 (n : Nat) (h : n < 256) (h2 : n ≠ 0xc0) : UInt8.ofNat n ≠ 0xc0 := by
  intro e
  have := congrArg UInt8.toNat e
  rw [toNat_ofNat_lt n h] at this
  exact h2 this

/-! ### container types of the encoders' first bytes -/

theorem ctype_fixarr (c : Nat) (h1 : 0x90 ≤ c) (h2 : c ≤ 0x9f) : ctype c = .array := by
  unfold ctype
  split
  · omega
  · split
    · omega
    · split
      · rfl
      · omega

theorem ctype_dc : ctype 0xdc = .array := by decide
theorem ctype_dd : ctype 0xdd = .array := by decide
theorem ctype_c4 : ctype 0xc4 = .bytes := by decide
theorem ctype_c5 : ctype 0xc5 = .bytes := by decide
theorem ctype_c6 : ctype 0xc6 = .bytes := by decide
theorem ctype_d9 : ctype 0xd9 = .bytes := by decide
theorem ctype_da : ctype 0xda = .bytes := by decide
theorem ctype_db : ctype 0xdb = .bytes := by decide

theorem ctype_fixstr (c : Nat) (h1 : 0xa0 ≤ c) (h2 : c ≤ 0xbf) : ctype c = .bytes := by
  unfold ctype
  split
  · omega
  · split
    · rfl
    · omega

/-- the scalar descriptors: not a container -/
theorem ctype_unset (c : Nat) (h : c < 0x80 ∨ c = 0xc2 ∨ c = 0xc3 ∨ (0xcc ≤ c ∧ c ≤ 0xd3) ∨ 0xe0 ≤ c) (h256 : c < 256) :
    ctype c = .unset := by
  unfold ctype
  split
  · omega
  · split
    · omega
    · split
      · omega
      · split
        · omega
        · rfl


/-! ### integers -/

theorem readInt_ok {f : Nat → Int} {w : Nat} {b r : Bytes} {n : Nat} (h : readBE w b = .ok (n, r)) :
    readInt f w b = .ok (f n, r) := by
  rw [readInt, bind_ok h]; rfl

theorem readKey_ok {f : Nat → GKey} {w : Nat} {b r : Bytes} {n : Nat} (h : readBE w b = .ok (n, r)) :
    readKey f w b = .ok (some (f n), r) := by
  rw [readKey, bind_ok h]; rfl

theorem decodeInt64_cons (x : UInt8) (rest : Bytes) :
    decodeInt64 (x :: rest) =
      (if x.toNat = 0xcc then readInt Int.ofNat 1
      else if x.toNat = 0xcd then readInt Int.ofNat 2
      else if x.toNat = 0xce then readInt Int.ofNat 4
      else if x.toNat = 0xcf then readInt (signedOf 64) 8
      else if x.toNat = 0xd0 then readInt (signedOf 8) 1
      else if x.toNat = 0xd1 then readInt (signedOf 16) 2
      else if x.toNat = 0xd2 then readInt (signedOf 32) 4
      else if x.toNat = 0xd3 then readInt (signedOf 64) 8
      else if x.toNat < 0x80 then pure (Int.ofNat x.toNat)
      else if 0xe0 ≤ x.toNat then pure (Int.ofNat x.toNat - 256)
      else bad "cannot decode signed integer") rest := by
  rw [decodeInt64, bind_ok (readn1_cons _ _)]

/-- what the model makes of one integer object `x :: t` (rest `r`): it is not
    nil, not a container, `swallow`'s scalar branch consumes it, and
    `DecodeInt64` reads `i` -/
structure IntObj (x : UInt8) (t r : Bytes) (i : Int) : Prop where
  ne : x ≠ 0xc0
  ct : ctype x.toNat = .unset
  naked : ∃ k, nakedScalar x.toNat t = .ok (some k, r)
  dec : decodeInt64 (x :: t) = .ok (i, r)

theorem intObj_cc (rest r : Bytes) (n : Nat) (h : readBE 1 rest = .ok (n, r)) :
    IntObj 0xcc rest r (Int.ofNat n) := by
  refine ⟨by decide, by decide, ⟨GKey.uint n, ?_⟩, ?_⟩
  · rw [nakedScalar]
    simp (config := {decide := true}) only [show (0xcc : UInt8).toNat = 0xcc from rfl, if_false, if_true]
    exact readKey_ok h
  · rw [decodeInt64_cons]
    simp (config := {decide := true}) only [show (0xcc : UInt8).toNat = 0xcc from rfl, if_false, if_true]
    exact readInt_ok h

theorem intObj_cd (rest r : Bytes) (n : Nat) (h : readBE 2 rest = .ok (n, r)) :
    IntObj 0xcd rest r (Int.ofNat n) := by
  refine ⟨by decide, by decide, ⟨GKey.uint n, ?_⟩, ?_⟩
  · rw [nakedScalar]
    simp (config := {decide := true}) only [show (0xcd : UInt8).toNat = 0xcd from rfl, if_false, if_true]
    exact readKey_ok h
  · rw [decodeInt64_cons]
    simp (config := {decide := true}) only [show (0xcd : UInt8).toNat = 0xcd from rfl, if_false, if_true]
    exact readInt_ok h

theorem intObj_ce (rest r : Bytes) (n : Nat) (h : readBE 4 rest = .ok (n, r)) :
    IntObj 0xce rest r (Int.ofNat n) := by
  refine ⟨by decide, by decide, ⟨GKey.uint n, ?_⟩, ?_⟩
  · rw [nakedScalar]
    simp (config := {decide := true}) only [show (0xce : UInt8).toNat = 0xce from rfl, if_false, if_true]
    exact readKey_ok h
  · rw [decodeInt64_cons]
    simp (config := {decide := true}) only [show (0xce : UInt8).toNat = 0xce from rfl, if_false, if_true]
    exact readInt_ok h

theorem intObj_cf (rest r : Bytes) (n : Nat) (h : readBE 8 rest = .ok (n, r)) :
    IntObj 0xcf rest r ((signedOf 64) n) := by
  refine ⟨by decide, by decide, ⟨GKey.uint n, ?_⟩, ?_⟩
  · rw [nakedScalar]
    simp (config := {decide := true}) only [show (0xcf : UInt8).toNat = 0xcf from rfl, if_false, if_true]
    exact readKey_ok h
  · rw [decodeInt64_cons]
    simp (config := {decide := true}) only [show (0xcf : UInt8).toNat = 0xcf from rfl, if_false, if_true]
    exact readInt_ok h

theorem intObj_d0 (rest r : Bytes) (n : Nat) (h : readBE 1 rest = .ok (n, r)) :
    IntObj 0xd0 rest r ((signedOf 8) n) := by
  refine ⟨by decide, by decide, ⟨GKey.int (signedOf 8 n), ?_⟩, ?_⟩
  · rw [nakedScalar]
    simp (config := {decide := true}) only [show (0xd0 : UInt8).toNat = 0xd0 from rfl, if_false, if_true]
    exact readKey_ok h
  · rw [decodeInt64_cons]
    simp (config := {decide := true}) only [show (0xd0 : UInt8).toNat = 0xd0 from rfl, if_false, if_true]
    exact readInt_ok h

theorem intObj_d1 (rest r : Bytes) (n : Nat) (h : readBE 2 rest = .ok (n, r)) :
    IntObj 0xd1 rest r ((signedOf 16) n) := by
  refine ⟨by decide, by decide, ⟨GKey.int (signedOf 16 n), ?_⟩, ?_⟩
  · rw [nakedScalar]
    simp (config := {decide := true}) only [show (0xd1 : UInt8).toNat = 0xd1 from rfl, if_false, if_true]
    exact readKey_ok h
  · rw [decodeInt64_cons]
    simp (config := {decide := true}) only [show (0xd1 : UInt8).toNat = 0xd1 from rfl, if_false, if_true]
    exact readInt_ok h

theorem intObj_d2 (rest r : Bytes) (n : Nat) (h : readBE 4 rest = .ok (n, r)) :
    IntObj 0xd2 rest r ((signedOf 32) n) := by
  refine ⟨by decide, by decide, ⟨GKey.int (signedOf 32 n), ?_⟩, ?_⟩
  · rw [nakedScalar]
    simp (config := {decide := true}) only [show (0xd2 : UInt8).toNat = 0xd2 from rfl, if_false, if_true]
    exact readKey_ok h
  · rw [decodeInt64_cons]
    simp (config := {decide := true}) only [show (0xd2 : UInt8).toNat = 0xd2 from rfl, if_false, if_true]
    exact readInt_ok h

theorem intObj_d3 (rest r : Bytes) (n : Nat) (h : readBE 8 rest = .ok (n, r)) :
    IntObj 0xd3 rest r ((signedOf 64) n) := by
  refine ⟨by decide, by decide, ⟨GKey.int (signedOf 64 n), ?_⟩, ?_⟩
  · rw [nakedScalar]
    simp (config := {decide := true}) only [show (0xd3 : UInt8).toNat = 0xd3 from rfl, if_false, if_true]
    exact readKey_ok h
  · rw [decodeInt64_cons]
    simp (config := {decide := true}) only [show (0xd3 : UInt8).toNat = 0xd3 from rfl, if_false, if_true]
    exact readInt_ok h

theorem intObj_posfix (x : UInt8) (rest : Bytes) (h : x.toNat < 0x80) :
    IntObj x rest rest (Int.ofNat x.toNat) := by
  refine ⟨?_, ctype_unset _ (Or.inl h) (by omega), ⟨GKey.int (Int.ofNat x.toNat), ?_⟩, ?_⟩
  · intro e; rw [e] at h; revert h; decide
  · rw [nakedScalar]
    rw [if_neg (by omega), if_neg (by omega), if_neg (by omega), if_neg (by omega), if_neg (by omega),
      if_neg (by omega), if_neg (by omega), if_neg (by omega), if_neg (by omega), if_neg (by omega),
      if_neg (by omega), if_neg (by omega), if_neg (by omega), if_pos h]
    rfl
  · rw [decodeInt64_cons]
    rw [if_neg (by omega), if_neg (by omega), if_neg (by omega), if_neg (by omega), if_neg (by omega),
      if_neg (by omega), if_neg (by omega), if_neg (by omega), if_pos h]
    rfl

theorem intObj_negfix (x : UInt8) (rest : Bytes) (h : 0xe0 ≤ x.toNat) :
    IntObj x rest rest (Int.ofNat x.toNat - 256) := by
  have h256 : x.toNat < 256 := x.toNat_lt
  refine ⟨?_, ctype_unset _ (Or.inr (Or.inr (Or.inr (Or.inr h)))) h256, ⟨GKey.int (Int.ofNat x.toNat - 256), ?_⟩, ?_⟩
  · intro e; rw [e] at h; revert h; decide
  · rw [nakedScalar]
    rw [if_neg (by omega), if_neg (by omega), if_neg (by omega), if_neg (by omega), if_neg (by omega),
      if_neg (by omega), if_neg (by omega), if_neg (by omega), if_neg (by omega), if_neg (by omega),
      if_neg (by omega), if_neg (by omega), if_neg (by omega), if_neg (by omega), if_pos h]
    rfl
  · rw [decodeInt64_cons]
    rw [if_neg (by omega), if_neg (by omega), if_neg (by omega), if_neg (by omega), if_neg (by omega),
      if_neg (by omega), if_neg (by omega), if_neg (by omega), if_neg (by omega), if_pos h]
    rfl

theorem signedOf_64_small (n : Nat) (h : n < 2 ^ 63) : signedOf 64 n = (n : Int) := by
  unfold signedOf
  rw [if_pos (by omega)]

/-- `encUInt n` is an integer object read as `n` (for `n ≥ 2^63` go-codec's
    `int64(uint64)` wraps: `signedOf 64 n`) -/
theorem intObj_encUInt (n : Nat) (h : n < 2 ^ 64) (r : Bytes) :
    ∃ x t, encUInt n ++ r = x :: t ∧ IntObj x t r (if n < 2 ^ 63 then (n : Int) else signedOf 64 n) := by
  unfold encUInt
  split
  · rename_i h1
    have ht : (UInt8.ofNat n).toNat = n := toNat_ofNat_lt _ (by omega)
    refine ⟨UInt8.ofNat n, r, rfl, ?_⟩
    have := intObj_posfix (UInt8.ofNat n) r (by omega)
    rw [ht] at this
    rw [if_pos (by omega)]
    exact this
  · split
    · rename_i h1 h2
      refine ⟨0xcc, beN 1 n ++ r, by rw [beN_one _ h2]; rfl, ?_⟩
      rw [if_pos (by omega)]
      exact intObj_cc _ _ _ (readBE_beN 1 n r (by omega))
    · split
      · refine ⟨0xcd, beN 2 n ++ r, rfl, ?_⟩
        rw [if_pos (by omega)]
        exact intObj_cd _ _ _ (readBE_beN 2 n r (by omega))
      · split
        · refine ⟨0xce, beN 4 n ++ r, rfl, ?_⟩
          rw [if_pos (by omega)]
          exact intObj_ce _ _ _ (readBE_beN 4 n r (by omega))
        · refine ⟨0xcf, beN 8 n ++ r, rfl, ?_⟩
          have := intObj_cf _ _ _ (readBE_beN 8 n r (by omega))
          split
          · rename_i h5; rw [signedOf_64_small n h5] at this; exact this
          · exact this

/-- `encInt i` for an `i` in go's `int64` range is read back as `i` -/
theorem intObj_encInt (i : Int) (hlo : -(2 ^ 63 : Int) ≤ i) (hhi : i < (2 ^ 63 : Int)) (r : Bytes) :
    ∃ x t, encInt i ++ r = x :: t ∧ IntObj x t r i := by
  unfold encInt
  split
  · rename_i h0
    obtain ⟨x, t, e, hobj⟩ := intObj_encUInt i.toNat (by omega) r
    refine ⟨x, t, e, ?_⟩
    rw [if_pos (by omega), Int.toNat_of_nonneg h0] at hobj
    exact hobj
  · rename_i h0
    generalize hm : (-i).toNat = m
    have hi : i = -(m : Int) := by omega
    split
    · have ht : (UInt8.ofNat (256 - m)).toNat = 256 - m := toNat_ofNat_lt _ (by omega)
      refine ⟨UInt8.ofNat (256 - m), r, rfl, ?_⟩
      have := intObj_negfix (UInt8.ofNat (256 - m)) r (by omega)
      rw [ht] at this
      have e : (Int.ofNat (256 - m) - 256) = i := by
        show (((256 - m : Nat) : Int) - 256) = i
        omega
      rw [e] at this
      exact this
    · split
      · refine ⟨0xd0, beN 1 (256 - m) ++ r, by rw [beN_one _ (by omega)]; rfl, ?_⟩
        have := intObj_d0 _ _ _ (readBE_beN 1 (256 - m) r (by omega))
        rw [signedOf_8 m (by omega) (by omega), ← hi] at this
        exact this
      · split
        · refine ⟨0xd1, beN 2 (65536 - m) ++ r, rfl, ?_⟩
          have := intObj_d1 _ _ _ (readBE_beN 2 (65536 - m) r (by omega))
          rw [signedOf_16 m (by omega) (by omega), ← hi] at this
          exact this
        · split
          · refine ⟨0xd2, beN 4 (4294967296 - m) ++ r, rfl, ?_⟩
            have := intObj_d2 _ _ _ (readBE_beN 4 (4294967296 - m) r (by omega))
            rw [signedOf_32 m (by omega) (by omega), ← hi] at this
            exact this
          · refine ⟨0xd3, beN 8 (18446744073709551616 - m) ++ r, rfl, ?_⟩
            have := intObj_d3 _ _ _ (readBE_beN 8 (18446744073709551616 - m) r (by omega))
            rw [signedOf_64 m (by omega) (by omega), ← hi] at this
            exact this

end Saltpack.Proofs.CodecP
