/-
  Stream logic (Level A) and binding (Level B) of the three packet receivers
  (`Decrypt.run`, `Signcrypt.run`, `Sign.run`).  Proofs behind Props/C02, C04, C06.

  Level A is crypto-free: whatever the per-packet acceptance test is, a run
  releases the chunks of an accepted *prefix* of the packets, in order, numbered
  consecutively, and ends cleanly iff that prefix is the whole stream, its last
  packet is the (only) final one, and the input ends cleanly after it.

  Level B says what an accepted packet proves: which exact byte string was
  MACed / signed, and that this string determines header hash, chunk number,
  final flag and payload uniquely (fixed-width fields).
-/
import Saltpack.Model.Decrypt
import Saltpack.Model.Signcrypt
import Saltpack.Model.Sign
import Saltpack.Proofs.Digits

namespace Saltpack.Proofs
open Saltpack

/-! ## generic chain predicates -/

/-- `Chain acc fin n bs out`: every block of `bs` is accepted at its position
    (`n, n+1, …`) yielding the chunks whose concatenation is `out`, and every
    block except possibly the last is non-final. -/
inductive Chain {β : Type} (acc : β → Nat → Option Bytes) (fin : β → Bool) : Nat → List β → Bytes → Prop where
  | nil (n : Nat) : Chain acc fin n [] []
  | last (n : Nat) (b : β) (c : Bytes) : acc b n = some c → Chain acc fin n [b] c
  | cons (n : Nat) (b : β) (c : Bytes) (bs : List β) (r : Bytes) :
      acc b n = some c → fin b = false → bs ≠ [] → Chain acc fin (n + 1) bs r →
      Chain acc fin n (b :: bs) (c ++ r)

/-- a complete message: a chain whose last block is final -/
def Complete {β : Type} (acc : β → Nat → Option Bytes) (fin : β → Bool) (n : Nat) (bs : List β) (out : Bytes) : Prop :=
  Chain acc fin n bs out ∧ ∃ b, bs.getLast? = some b ∧ fin b = true


/-! ## the generic chunk-reader run

  All three receivers have the same shape: a per-packet step (`processBlock`
  followed by `checkChunkState`) and a final-flag function.  The stream logic is
  proved once for `grun` and transported along `run = grun`. -/
section generic
variable {β : Type}

/-- acceptance test belonging to a step function -/
def gacc (step : β → Nat → Except Err Bytes) (b : β) (n : Nat) : Option Bytes :=
  match step b n with
  | .ok c => some c
  | .error _ => none

/-- the common shape of `Decrypt.run`, `Signcrypt.run`, `Sign.run` -/
def grun (step : β → Nat → Except Err Bytes) (fin : β → Bool) :
    List (Option β) → Tail → Nat → Released
  | [], tail, _ =>
    match tail with
    | .eof => ⟨[], some .unexpectedEOF⟩
    | .err e => ⟨[], some e⟩
  | none :: _, _, _ => ⟨[], some .decodeError⟩
  | some b :: rest, tail, n =>
    match step b n with
    | .error e => ⟨[], some e⟩
    | .ok chunk =>
      if fin b then ⟨chunk, Decrypt.endOfStream rest tail⟩
      else
        let r := grun step fin rest tail (n + 1)
        ⟨chunk ++ r.bytes, r.err⟩

theorem endOfStream_none (rest : List (Option β)) (tail : Tail) :
    Decrypt.endOfStream rest tail = none ↔ rest = [] ∧ tail = .eof := by
  cases rest with
  | nil => cases tail <;> simp [Decrypt.endOfStream]
  | cons a t => simp [Decrypt.endOfStream]

theorem Chain.out_of_nil {acc : β → Nat → Option Bytes} {fin : β → Bool} {n : Nat} {out : Bytes}
    (h : Chain acc fin n [] out) : out = [] := by
  cases h; rfl

theorem grun_nil (step : β → Nat → Except Err Bytes) (fin : β → Bool) (tail : Tail) (n : Nat) :
    (grun step fin [] tail n).bytes = [] ∧ (grun step fin [] tail n).err ≠ none := by
  cases tail <;> simp [grun]

theorem grun_none (step : β → Nat → Except Err Bytes) (fin : β → Bool) (rest : List (Option β))
    (tail : Tail) (n : Nat) :
    grun step fin (none :: rest) tail n = ⟨[], some .decodeError⟩ := by
  simp [grun]

theorem grun_error (step : β → Nat → Except Err Bytes) (fin : β → Bool) (b : β)
    (rest : List (Option β)) (tail : Tail) (n : Nat) (e : Err) (hs : step b n = .error e) :
    grun step fin (some b :: rest) tail n = ⟨[], some e⟩ := by
  simp [grun, hs]

theorem grun_final (step : β → Nat → Except Err Bytes) (fin : β → Bool) (b : β)
    (rest : List (Option β)) (tail : Tail) (n : Nat) (c : Bytes) (hs : step b n = .ok c)
    (hf : fin b = true) :
    grun step fin (some b :: rest) tail n = ⟨c, Decrypt.endOfStream rest tail⟩ := by
  simp [grun, hs, hf]

theorem grun_more (step : β → Nat → Except Err Bytes) (fin : β → Bool) (b : β)
    (rest : List (Option β)) (tail : Tail) (n : Nat) (c : Bytes) (hs : step b n = .ok c)
    (hf : fin b = false) :
    grun step fin (some b :: rest) tail n =
      ⟨c ++ (grun step fin rest tail (n + 1)).bytes, (grun step fin rest tail (n + 1)).err⟩ := by
  simp [grun, hs, hf]

theorem gacc_ok {step : β → Nat → Except Err Bytes} {b : β} {n : Nat} {c : Bytes}
    (hs : step b n = .ok c) : gacc step b n = some c := by
  simp [gacc, hs]

theorem gacc_some {step : β → Nat → Except Err Bytes} {b : β} {n : Nat} {c : Bytes}
    (h : gacc step b n = some c) : step b n = .ok c := by
  unfold gacc at h
  split at h
  · rename_i c' hc; simp at h; rw [hc, h]
  · simp at h

/-- Level A, prefix, generic form -/
theorem grun_prefix (step : β → Nat → Except Err Bytes) (fin : β → Bool)
    (items : List (Option β)) (tail : Tail) (n : Nat) :
    ∃ bs : List β, (bs.map some) <+: items ∧
      Chain (gacc step) fin n bs (grun step fin items tail n).bytes := by
  induction items generalizing n with
  | nil =>
    refine ⟨[], List.nil_prefix, ?_⟩
    rw [(grun_nil step fin tail n).1]
    exact Chain.nil n
  | cons it rest ih =>
    cases it with
    | none =>
      refine ⟨[], List.nil_prefix, ?_⟩
      rw [grun_none]
      exact Chain.nil n
    | some b =>
      cases hs : step b n with
      | error e =>
        refine ⟨[], List.nil_prefix, ?_⟩
        rw [grun_error step fin b rest tail n e hs]
        exact Chain.nil n
      | ok c =>
        cases hf : fin b with
        | true =>
          refine ⟨[b], ?_, ?_⟩
          · exact ⟨rest, rfl⟩
          · rw [grun_final step fin b rest tail n c hs hf]
            exact Chain.last n b c (gacc_ok hs)
        | false =>
          obtain ⟨bs', hp, hc⟩ := ih (n + 1)
          rw [grun_more step fin b rest tail n c hs hf]
          cases hb : bs' with
          | nil =>
            subst hb
            refine ⟨[b], ⟨rest, rfl⟩, ?_⟩
            show Chain (gacc step) fin n [b] (c ++ (grun step fin rest tail (n + 1)).bytes)
            rw [Chain.out_of_nil hc, List.append_nil]
            exact Chain.last n b c (gacc_ok hs)
          | cons b' t =>
            refine ⟨b :: bs', ?_, ?_⟩
            · obtain ⟨u, hu⟩ := hp
              exact ⟨u, by simp [← hu]⟩
            · exact Chain.cons n b c bs' _ (gacc_ok hs) hf (by simp [hb]) hc

/-- a complete chain over a cleanly ending input runs without error and
    releases exactly the chain's output -/
theorem grun_of_chain (step : β → Nat → Except Err Bytes) (fin : β → Bool)
    (n : Nat) (bs : List β) (out : Bytes) (hc : Chain (gacc step) fin n bs out)
    (hl : ∃ b, bs.getLast? = some b ∧ fin b = true) :
    grun step fin (bs.map some) .eof n = ⟨out, none⟩ := by
  induction hc with
  | nil n => obtain ⟨b, hb, _⟩ := hl; simp at hb
  | last n b c ha =>
    obtain ⟨b', hb, hf⟩ := hl
    simp at hb; subst hb
    show grun step fin [some b] .eof n = ⟨c, none⟩
    rw [grun_final step fin b [] .eof n c (gacc_some ha) hf]
    simp [Decrypt.endOfStream]
  | cons n b c bs r ha hf hne _ ih =>
    have hl' : ∃ b, bs.getLast? = some b ∧ fin b = true := by
      obtain ⟨b', hb, hf'⟩ := hl
      refine ⟨b', ?_, hf'⟩
      rwa [List.getLast?_cons_of_ne_nil hne] at hb
    have := ih hl'
    show grun step fin (some b :: bs.map some) .eof n = ⟨c ++ r, none⟩
    rw [grun_more step fin b _ .eof n c (gacc_some ha) hf, this]

/-- Level A, completeness, generic form -/
theorem grun_ok_iff (step : β → Nat → Except Err Bytes) (fin : β → Bool)
    (items : List (Option β)) (tail : Tail) (n : Nat) :
    (grun step fin items tail n).err = none ↔
      ∃ bs : List β, items = bs.map some ∧ tail = .eof ∧
        Complete (gacc step) fin n bs (grun step fin items tail n).bytes := by
  constructor
  · induction items generalizing n with
    | nil => intro h; exact absurd h (grun_nil step fin tail n).2
    | cons it rest ih =>
      cases it with
      | none => intro h; rw [grun_none] at h; simp at h
      | some b =>
        cases hs : step b n with
        | error e => intro h; rw [grun_error step fin b rest tail n e hs] at h; simp at h
        | ok c =>
          cases hf : fin b with
          | true =>
            rw [grun_final step fin b rest tail n c hs hf]
            intro h
            obtain ⟨h1, h2⟩ := (endOfStream_none rest tail).1 h
            subst h1
            exact ⟨[b], rfl, h2, Chain.last n b c (gacc_ok hs), b, rfl, hf⟩
          | false =>
            rw [grun_more step fin b rest tail n c hs hf]
            intro h
            obtain ⟨bs', h1, h2, h3, b', h4, h5⟩ := ih (n + 1) h
            have hne : bs' ≠ [] := by
              intro h0; rw [h0] at h4; simp at h4
            refine ⟨b :: bs', by rw [h1]; rfl, h2, ?_, b', ?_, h5⟩
            · exact Chain.cons n b c bs' _ (gacc_ok hs) hf hne h3
            · rw [List.getLast?_cons_of_ne_nil hne]; exact h4
  · rintro ⟨bs, h1, h2, h3, h4⟩
    subst h1 h2
    rw [grun_of_chain step fin n bs _ h3 h4]

end generic

/-! ## encryption -/
namespace Dec
variable (P : Prims)

/-- the per-packet acceptance test of the decrypting receiver -/
def accept (s : Decrypt.State) (b : EncBlock) (seqno : Nat) : Option Bytes :=
  match Decrypt.processBlock P s b (Decrypt.blockFinal s.version b) seqno with
  | .ok chunk =>
    match checkChunkState s.version chunk.length (seqno - 1) (Decrypt.blockFinal s.version b) with
    | .ok () => some chunk
    | .error _ => none
  | .error _ => none

/-- `processBlock` followed by `checkChunkState`, as one step -/
def step (s : Decrypt.State) (b : EncBlock) (seqno : Nat) : Except Err Bytes :=
  match Decrypt.processBlock P s b (Decrypt.blockFinal s.version b) seqno with
  | .ok chunk =>
    match checkChunkState s.version chunk.length (seqno - 1) (Decrypt.blockFinal s.version b) with
    | .ok () => .ok chunk
    | .error e => .error e
  | .error e => .error e

theorem accept_eq (s : Decrypt.State) : accept P s = gacc (step P s) := by
  funext b n
  unfold accept gacc step
  split
  · split <;> simp_all
  · rfl

theorem run_eq (s : Decrypt.State) (items : List (Option EncBlock)) (tail : Tail) (n : Nat) :
    Decrypt.run P s items tail n = grun (step P s) (Decrypt.blockFinal s.version) items tail n := by
  induction items generalizing n with
  | nil => cases tail <;> rfl
  | cons it rest ih =>
    cases it with
    | none => rfl
    | some b =>
      cases hpb : Decrypt.processBlock P s b (Decrypt.blockFinal s.version b) n with
      | error e =>
        have hs : step P s b n = .error e := by simp [step, hpb]
        rw [grun_error _ _ b rest tail n e hs]
        simp [Decrypt.run, hpb]
      | ok chunk =>
        cases hck : checkChunkState s.version chunk.length (n - 1) (Decrypt.blockFinal s.version b) with
        | error e =>
          have hs : step P s b n = .error e := by simp [step, hpb, hck]
          rw [grun_error _ _ b rest tail n e hs]
          simp [Decrypt.run, hpb, hck]
        | ok u =>
          have hs : step P s b n = .ok chunk := by simp [step, hpb, hck]
          cases hf : (Decrypt.blockFinal s.version b) with
          | true =>
            rw [grun_final _ _ b rest tail n _ hs hf]
            simp only [Decrypt.run, hpb, hck]
            simp [hf]
          | false =>
            rw [grun_more _ _ b rest tail n _ hs hf, ← ih (n + 1)]
            simp only [Decrypt.run, hpb, hck]
            simp [hf]

/-- Level A, prefix: what is released is the in-order concatenation of the
    chunks of an accepted prefix of the packets. -/
theorem run_prefix (s : Decrypt.State) (items : List (Option EncBlock)) (tail : Tail) (n : Nat) :
    ∃ bs : List EncBlock, (bs.map some) <+: items ∧
      Chain (accept P s) (Decrypt.blockFinal s.version) n bs (Decrypt.run P s items tail n).bytes := by
  rw [accept_eq, run_eq]
  exact grun_prefix _ _ items tail n

/-- Level A, completeness: the run ends without error iff the packets are
    exactly a complete message and the input ends cleanly right after it. -/
theorem run_ok_iff (s : Decrypt.State) (items : List (Option EncBlock)) (tail : Tail) (n : Nat) :
    (Decrypt.run P s items tail n).err = none ↔
      ∃ bs : List EncBlock, items = bs.map some ∧ tail = .eof ∧
        Complete (accept P s) (Decrypt.blockFinal s.version) n bs (Decrypt.run P s items tail n).bytes := by
  rw [accept_eq, run_eq]
  exact grun_ok_iff _ _ items tail n

/-- Level B: an accepted packet carries, at the receiver's position, the HMAC
    under the receiver's MAC key of the hash of
    header hash ‖ chunk nonce (packet number) ‖ [final byte] ‖ ciphertext, and its
    chunk is the opening of that ciphertext under the payload key and that nonce. -/
theorem accept_binds (s : Decrypt.State) (b : EncBlock) (seqno : Nat) (c : Bytes)
    (h : accept P s b seqno = some c) :
    ∃ ph, payloadHash P s.version s.headerHash (Nonce.chunkSecretBox (seqno - 1)) b.ct
            (Decrypt.blockFinal s.version b) = .ok ph ∧
      b.auths[s.position]? = some (payloadAuthenticator P s.macKey ph) ∧
      P.sbOpen s.payloadKey (Nonce.chunkSecretBox (seqno - 1)) b.ct = some c ∧
      blockNumberOK (seqno - 1) = true := by
  unfold accept at h
  split at h
  · rename_i chunk hpb
    split at h
    · simp only [Option.some.injEq] at h
      subst h
      unfold Decrypt.processBlock at hpb
      simp only [] at hpb
      split at hpb
      · cases hpb
      · rename_i hbn
        split at hpb
        · cases hpb
        · rename_i ph hph
          split at hpb
          · cases hpb
          · rename_i a ha
            split at hpb
            · cases hpb
            · rename_i hne
              split at hpb
              · cases hpb
              · rename_i pt hpt
                cases hpb
                refine ⟨ph, hph, ?_, hpt, ?_⟩
                · have : a = payloadAuthenticator P s.macKey ph := by
                    simpa using hne
                  rw [ha, this]
                · simpa using hbn
    · cases h
  · cases h

end Dec

theorem finalByte_inj {f f' : Bool} (h : finalByte f = finalByte f') : f = f' := by
  cases f <;> cases f' <;> first | rfl | (exact absurd h (by decide))

theorem finalByte_length (f : Bool) : (finalByte f).length = 1 := rfl

/-- Level B, unique decomposition (V2 MAC input): equal hashed strings with
    64-byte header hashes and 24-byte nonces have equal fields. -/
theorem macInput_inj_v2 (hh hh' n n' ct ct' : Bytes) (f f' : Bool)
    (h1 : hh.length = 64) (h2 : hh'.length = 64) (h3 : n.length = 24) (h4 : n'.length = 24)
    (h : hh ++ n ++ finalByte f ++ ct = hh' ++ n' ++ finalByte f' ++ ct') :
    hh = hh' ∧ n = n' ∧ f = f' ∧ ct = ct' := by
  simp only [List.append_assoc] at h
  obtain ⟨e1, h⟩ := List.append_inj h (by omega)
  obtain ⟨e2, h⟩ := List.append_inj h (by omega)
  obtain ⟨e3, e4⟩ := List.append_inj h (by simp [finalByte])
  exact ⟨e1, e2, finalByte_inj e3, e4⟩

theorem macInput_inj_v1 (hh hh' n n' ct ct' : Bytes)
    (h1 : hh.length = 64) (h2 : hh'.length = 64) (h3 : n.length = 24) (h4 : n'.length = 24)
    (h : hh ++ n ++ ct = hh' ++ n' ++ ct') :
    hh = hh' ∧ n = n' ∧ ct = ct' := by
  simp only [List.append_assoc] at h
  obtain ⟨e1, h⟩ := List.append_inj h (by omega)
  obtain ⟨e2, e3⟩ := List.append_inj h (by omega)
  exact ⟨e1, e2, e3⟩

theorem be64_length (i : Nat) : (be64 i).length = 8 := by
  unfold be64; exact bytesOfNat_length 8 _

theorem be64_inj (i j : Nat) (hi : i < 2 ^ 64) (hj : j < 2 ^ 64) (h : be64 i = be64 j) : i = j := by
  have h' := congrArg natOfBytes h
  unfold be64 at h'
  rw [natOfBytes_bytesOfNat, natOfBytes_bytesOfNat] at h'
  have e : (256 : Nat) ^ 8 = 2 ^ 64 := by decide
  rw [e, Nat.mod_mod, Nat.mod_mod, Nat.mod_eq_of_lt hi, Nat.mod_eq_of_lt hj] at h'
  exact h'

/-- the chunk nonce determines the chunk number (below the overflow guard) -/
theorem chunkSecretBox_inj (i j : Nat) (hi : i < 2 ^ 64) (hj : j < 2 ^ 64)
    (h : Nonce.chunkSecretBox i = Nonce.chunkSecretBox j) : i = j := by
  unfold Nonce.chunkSecretBox at h
  exact be64_inj i j hi hj (List.append_cancel_left h)

set_option maxRecDepth 8192 in
theorem setLowBit_ne_nat : ∀ n : Nat, n < 256 →
    Nonce.setLowBit (UInt8.ofNat n) true ≠ Nonce.setLowBit (UInt8.ofNat n) false := by
  decide

theorem setLowBit_ne (x : UInt8) : Nonce.setLowBit x true ≠ Nonce.setLowBit x false := by
  have := setLowBit_ne_nat x.toNat (UInt8.toNat_lt x)
  rwa [UInt8.ofNat_toNat] at this

theorem setLowBit_inj (x : UInt8) {f f' : Bool} (h : Nonce.setLowBit x f = Nonce.setLowBit x f') :
    f = f' := by
  cases f <;> cases f'
  · rfl
  · exact absurd h.symm (setLowBit_ne x)
  · exact absurd h (setLowBit_ne x)
  · rfl

/-- the signcryption nonce determines final flag and chunk number, for a fixed
    64-byte header hash -/
theorem chunkSigncryption_inj (hh : Bytes) (hl : hh.length = 64) (f f' : Bool) (i j : Nat)
    (hi : i < 2 ^ 64) (hj : j < 2 ^ 64)
    (h : Nonce.chunkSigncryption hh f i = Nonce.chunkSigncryption hh f' j) : f = f' ∧ i = j := by
  have _ := hl
  unfold Nonce.chunkSigncryption Nonce.hashFlagCounter at h
  obtain ⟨e1, e2⟩ := List.append_inj h (by simp)
  have e3 := List.append_cancel_left e1
  simp only [List.cons.injEq, and_true] at e3
  exact ⟨setLowBit_inj _ e3, be64_inj i j hi hj e2⟩

/-! ## signcryption -/
namespace Sc
variable (P : Prims)

def accept (s : Signcrypt.State) (b : SigncryptBlock) (seqno : Nat) : Option Bytes :=
  match Signcrypt.processBlock P s b seqno with
  | .ok chunk =>
    match checkChunkState v2 chunk.length (seqno - 1) b.final with
    | .ok () => some chunk
    | .error _ => none
  | .error _ => none

def step (s : Signcrypt.State) (b : SigncryptBlock) (seqno : Nat) : Except Err Bytes :=
  match Signcrypt.processBlock P s b seqno with
  | .ok chunk =>
    match checkChunkState v2 chunk.length (seqno - 1) b.final with
    | .ok () => .ok chunk
    | .error e => .error e
  | .error e => .error e

theorem accept_eq (s : Signcrypt.State) : accept P s = gacc (step P s) := by
  funext b n
  unfold accept gacc step
  split
  · split <;> simp_all
  · rfl

theorem run_eq (s : Signcrypt.State) (items : List (Option SigncryptBlock)) (tail : Tail) (n : Nat) :
    Signcrypt.run P s items tail n = grun (step P s) (·.final) items tail n := by
  induction items generalizing n with
  | nil => cases tail <;> rfl
  | cons it rest ih =>
    cases it with
    | none => rfl
    | some b =>
      cases hpb : Signcrypt.processBlock P s b n with
      | error e =>
        have hs : step P s b n = .error e := by simp [step, hpb]
        rw [grun_error _ _ b rest tail n e hs]
        simp [Signcrypt.run, hpb]
      | ok chunk =>
        cases hck : checkChunkState v2 chunk.length (n - 1) b.final with
        | error e =>
          have hs : step P s b n = .error e := by simp [step, hpb, hck]
          rw [grun_error _ _ b rest tail n e hs]
          simp [Signcrypt.run, hpb, hck]
        | ok u =>
          have hs : step P s b n = .ok chunk := by simp [step, hpb, hck]
          cases hf : b.final with
          | true =>
            rw [grun_final _ _ b rest tail n _ hs hf]
            simp only [Signcrypt.run, hpb, hck]
            simp [hf]
          | false =>
            rw [grun_more _ _ b rest tail n _ hs hf, ← ih (n + 1)]
            simp only [Signcrypt.run, hpb, hck]
            simp [hf]

theorem run_prefix (s : Signcrypt.State) (items : List (Option SigncryptBlock)) (tail : Tail) (n : Nat) :
    ∃ bs : List SigncryptBlock, (bs.map some) <+: items ∧
      Chain (accept P s) (·.final) n bs (Signcrypt.run P s items tail n).bytes := by
  rw [accept_eq, run_eq]
  exact grun_prefix _ _ items tail n

theorem run_ok_iff (s : Signcrypt.State) (items : List (Option SigncryptBlock)) (tail : Tail) (n : Nat) :
    (Signcrypt.run P s items tail n).err = none ↔
      ∃ bs : List SigncryptBlock, items = bs.map some ∧ tail = .eof ∧
        Complete (accept P s) (·.final) n bs (Signcrypt.run P s items tail n).bytes := by
  rw [accept_eq, run_eq]
  exact grun_ok_iff _ _ items tail n

/-- Level B: an accepted packet of a *named* sender opens under the payload key
    and the (header hash, final flag, packet number) nonce to signature ‖ chunk,
    and the signature verifies, under the sender's key, on
    domain ‖ header hash ‖ nonce ‖ final byte ‖ SHA-512(chunk). -/
theorem accept_binds (s : Signcrypt.State) (spk : Bytes) (hs : s.sender = some spk)
    (b : SigncryptBlock) (seqno : Nat) (c : Bytes) (h : accept P s b seqno = some c) :
    ∃ sig, sig.length = 64 ∧
      P.sbOpen s.payloadKey (Nonce.chunkSigncryption s.headerHash b.final (seqno - 1)) b.ct = some (sig ++ c) ∧
      P.verify spk (signcryptionSignatureInput P s.headerHash
          (Nonce.chunkSigncryption s.headerHash b.final (seqno - 1)) b.final c) sig = true ∧
      blockNumberOK (seqno - 1) = true := by
  unfold accept at h
  split at h
  · rename_i chunk hpb
    split at h
    · simp only [Option.some.injEq] at h
      subst h
      unfold Signcrypt.processBlock at hpb
      simp only [] at hpb
      split at hpb
      · cases hpb
      · rename_i hbn
        split at hpb
        · cases hpb
        · rename_i att hatt
          split at hpb
          · cases hpb
          · rename_i hlen
            rw [hs] at hpb
            simp only [] at hpb
            split at hpb
            · rename_i hv
              cases hpb
              refine ⟨att.take 64, ?_, ?_, hv, ?_⟩
              · rw [List.length_take]; omega
              · rw [List.take_append_drop]; exact hatt
              · simpa using hbn
            · cases hpb
    · cases h
  · cases h

/-- empty chunks are accepted only as the sole, final chunk -/
theorem accept_empty (s : Signcrypt.State) (b : SigncryptBlock) (seqno : Nat)
    (h : accept P s b seqno = some []) : seqno - 1 = 0 ∧ b.final = true := by
  unfold accept at h
  split at h
  · rename_i chunk hpb
    split at h
    · rename_i hck
      simp only [Option.some.injEq] at h
      subst h
      unfold checkChunkState at hck
      simp [v2] at hck
      exact hck
    · cases h
  · cases h

end Sc

/-- unique decomposition of the signcryption signature input -/
theorem signcryptInput_inj (P : Prims) (hP : ∀ m, (P.hash m).length = 64)
    (hh hh' n n' c c' : Bytes) (f f' : Bool)
    (h1 : hh.length = 64) (h2 : hh'.length = 64) (h3 : n.length = 24) (h4 : n'.length = 24)
    (h : signcryptionSignatureInput P hh n f c = signcryptionSignatureInput P hh' n' f' c') :
    hh = hh' ∧ n = n' ∧ f = f' ∧ P.hash c = P.hash c' := by
  have _ := hP
  unfold signcryptionSignatureInput at h
  simp only [List.append_assoc] at h
  have h := List.append_cancel_left h
  obtain ⟨e1, h⟩ := List.append_inj h (by omega)
  obtain ⟨e2, h⟩ := List.append_inj h (by omega)
  obtain ⟨e3, e4⟩ := List.append_inj h (by simp [finalByte])
  exact ⟨e1, e2, finalByte_inj e3, e4⟩

/-! ## attached signatures -/
namespace Ver
variable (P : Prims)

def accept (s : Sign.State) (b : SigBlock) (seqno : Nat) : Option Bytes :=
  match Sign.processBlock P s b (Sign.blockFinal s.version b) seqno with
  | .ok () =>
    match checkChunkState s.version b.chunk.length (seqno - 1) (Sign.blockFinal s.version b) with
    | .ok () => some b.chunk
    | .error _ => none
  | .error _ => none

def step (s : Sign.State) (b : SigBlock) (seqno : Nat) : Except Err Bytes :=
  match Sign.processBlock P s b (Sign.blockFinal s.version b) seqno with
  | .ok () =>
    match checkChunkState s.version b.chunk.length (seqno - 1) (Sign.blockFinal s.version b) with
    | .ok () => .ok b.chunk
    | .error e => .error e
  | .error e => .error e

theorem accept_eq (s : Sign.State) : accept P s = gacc (step P s) := by
  funext b n
  unfold accept gacc step
  split
  · split <;> simp_all
  · rfl

theorem run_eq (s : Sign.State) (items : List (Option SigBlock)) (tail : Tail) (n : Nat) :
    Sign.run P s items tail n = grun (step P s) (Sign.blockFinal s.version) items tail n := by
  induction items generalizing n with
  | nil => cases tail <;> rfl
  | cons it rest ih =>
    cases it with
    | none => rfl
    | some b =>
      cases hpb : Sign.processBlock P s b (Sign.blockFinal s.version b) n with
      | error e =>
        have hs : step P s b n = .error e := by simp [step, hpb]
        rw [grun_error _ _ b rest tail n e hs]
        simp [Sign.run, hpb]
      | ok chunk =>
        cases hck : checkChunkState s.version b.chunk.length (n - 1) (Sign.blockFinal s.version b) with
        | error e =>
          have hs : step P s b n = .error e := by simp [step, hpb, hck]
          rw [grun_error _ _ b rest tail n e hs]
          simp [Sign.run, hpb, hck]
        | ok u =>
          have hs : step P s b n = .ok b.chunk := by simp [step, hpb, hck]
          cases hf : (Sign.blockFinal s.version b) with
          | true =>
            rw [grun_final _ _ b rest tail n _ hs hf]
            simp only [Sign.run, hpb, hck]
            simp [hf]
          | false =>
            rw [grun_more _ _ b rest tail n _ hs hf, ← ih (n + 1)]
            simp only [Sign.run, hpb, hck]
            simp [hf]

theorem run_prefix (s : Sign.State) (items : List (Option SigBlock)) (tail : Tail) (n : Nat) :
    ∃ bs : List SigBlock, (bs.map some) <+: items ∧
      Chain (accept P s) (Sign.blockFinal s.version) n bs (Sign.run P s items tail n).bytes := by
  rw [accept_eq, run_eq]
  exact grun_prefix _ _ items tail n

theorem run_ok_iff (s : Sign.State) (items : List (Option SigBlock)) (tail : Tail) (n : Nat) :
    (Sign.run P s items tail n).err = none ↔
      ∃ bs : List SigBlock, items = bs.map some ∧ tail = .eof ∧
        Complete (accept P s) (Sign.blockFinal s.version) n bs (Sign.run P s items tail n).bytes := by
  rw [accept_eq, run_eq]
  exact grun_ok_iff _ _ items tail n

/-- Level B: an accepted packet's signature verifies, under the looked-up key,
    on domain ‖ SHA-512(header hash ‖ packet number ‖ [final byte] ‖ chunk), and
    the released chunk is the packet's chunk. -/
theorem accept_binds (s : Sign.State) (b : SigBlock) (seqno : Nat) (c : Bytes)
    (h : accept P s b seqno = some c) :
    c = b.chunk ∧
    ∃ inp, attachedSignatureInput P s.version s.headerHash b.chunk (seqno - 1)
              (Sign.blockFinal s.version b) = .ok inp ∧
      P.verify s.publicKey inp b.sig = true := by
  unfold accept at h
  split at h
  · rename_i hpb
    split at h
    · simp only [Option.some.injEq] at h
      refine ⟨h.symm, ?_⟩
      unfold Sign.processBlock at hpb
      split at hpb
      · cases hpb
      · rename_i inp hinp
        split at hpb
        · rename_i hv
          exact ⟨inp, hinp, hv⟩
        · cases hpb
    · cases h
  · cases h

end Ver

/-- unique decomposition of what is hashed for an attached signature (V2) -/
theorem attachedInput_inj_v2 (hh hh' c c' : Bytes) (i j : Nat) (f f' : Bool)
    (h1 : hh.length = 64) (h2 : hh'.length = 64) (hi : i < 2 ^ 64) (hj : j < 2 ^ 64)
    (h : hh ++ be64 i ++ finalByte f ++ c = hh' ++ be64 j ++ finalByte f' ++ c') :
    hh = hh' ∧ i = j ∧ f = f' ∧ c = c' := by
  simp only [List.append_assoc] at h
  obtain ⟨e1, h⟩ := List.append_inj h (by omega)
  obtain ⟨e2, h⟩ := List.append_inj h (by rw [be64_length, be64_length])
  obtain ⟨e3, e4⟩ := List.append_inj h (by simp [finalByte])
  exact ⟨e1, be64_inj i j hi hj e2, finalByte_inj e3, e4⟩

theorem attachedInput_inj_v1 (hh hh' c c' : Bytes) (i j : Nat)
    (h1 : hh.length = 64) (h2 : hh'.length = 64) (hi : i < 2 ^ 64) (hj : j < 2 ^ 64)
    (h : hh ++ be64 i ++ c = hh' ++ be64 j ++ c') :
    hh = hh' ∧ i = j ∧ c = c' := by
  simp only [List.append_assoc] at h
  obtain ⟨e1, h⟩ := List.append_inj h (by omega)
  obtain ⟨e2, e3⟩ := List.append_inj h (by rw [be64_length, be64_length])
  exact ⟨e1, be64_inj i j hi hj e2, e3⟩

/-- the three signature domain strings are pairwise distinct, of equal length,
    hence none is a prefix of another: inputs of different modes never coincide -/
theorem domains_separate :
    Gen.c_sp_signatureAttachedString.length = Gen.c_sp_signatureDetachedString.length ∧
    Gen.c_sp_signatureAttachedString ≠ Gen.c_sp_signatureDetachedString ∧
    ¬ (Gen.c_sp_signatureAttachedString <+: Gen.c_sp_signatureEncryptedString) ∧
    ¬ (Gen.c_sp_signatureDetachedString <+: Gen.c_sp_signatureEncryptedString) ∧
    ¬ (Gen.c_sp_signatureEncryptedString <+: Gen.c_sp_signatureAttachedString) ∧
    ¬ (Gen.c_sp_signatureEncryptedString <+: Gen.c_sp_signatureDetachedString) := by
  decide

end Saltpack.Proofs
