/-
  Stream logic (Level A) and binding (Level B) of the three packet receivers
  (`Decrypt.run`, `Signcrypt.run`, `Sign.run`).  Proofs behind Props/C02, C04, C06.

  Level A is crypto-free: whatever the per-packet acceptance test is, a run
  releases the chunks of an accepted *prefix* of the packets, in order, numbered
  consecutively, and ends cleanly iff that prefix is the whole stream, its last
  packet is the (only) final one, and the input ends cleanly after it.

  Level B says what an accepted packet proves: which exact byte string was
  MACed / signed, and that this string determines header hash, chunk number,
  final flag and payload uniquely (fixed-width fields).
-/
import Saltpack.Model.Decrypt
import Saltpack.Model.Signcrypt
import Saltpack.Model.Sign

namespace Saltpack.Proofs
open Saltpack

/-! ## generic chain predicates -/

/-- `Chain acc fin n bs out`: every block of `bs` is accepted at its position
    (`n, n+1, …`) yielding the chunks whose concatenation is `out`, and every
    block except possibly the last is non-final. -/
inductive Chain {β : Type} (acc : β → Nat → Option Bytes) (fin : β → Bool) : Nat → List β → Bytes → Prop where
  | nil (n : Nat) : Chain acc fin n [] []
  | last (n : Nat) (b : β) (c : Bytes) : acc b n = some c → Chain acc fin n [b] c
  | cons (n : Nat) (b : β) (c : Bytes) (bs : List β) (r : Bytes) :
      acc b n = some c → fin b = false → bs ≠ [] → Chain acc fin (n + 1) bs r →
      Chain acc fin n (b :: bs) (c ++ r)

/-- a complete message: a chain whose last block is final -/
def Complete {β : Type} (acc : β → Nat → Option Bytes) (fin : β → Bool) (n : Nat) (bs : List β) (out : Bytes) : Prop :=
  Chain acc fin n bs out ∧ ∃ b, bs.getLast? = some b ∧ fin b = true

/-! ## encryption -/
namespace Dec
variable (P : Prims)

/-- the per-packet acceptance test of the decrypting receiver -/
def accept (s : Decrypt.State) (b : EncBlock) (seqno : Nat) : Option Bytes :=
  match Decrypt.processBlock P s b (Decrypt.blockFinal s.version b) seqno with
  | .ok chunk =>
    match checkChunkState s.version chunk.length (seqno - 1) (Decrypt.blockFinal s.version b) with
    | .ok () => some chunk
    | .error _ => none
  | .error _ => none

/-- Level A, prefix: what is released is the in-order concatenation of the
    chunks of an accepted prefix of the packets. -/
theorem run_prefix (s : Decrypt.State) (items : List (Option EncBlock)) (tail : Tail) (n : Nat) :
    ∃ bs : List EncBlock, (bs.map some) <+: items ∧
      Chain (accept P s) (Decrypt.blockFinal s.version) n bs (Decrypt.run P s items tail n).bytes := by
  sorry

/-- Level A, completeness: the run ends without error iff the packets are
    exactly a complete message and the input ends cleanly right after it. -/
theorem run_ok_iff (s : Decrypt.State) (items : List (Option EncBlock)) (tail : Tail) (n : Nat) :
    (Decrypt.run P s items tail n).err = none ↔
      ∃ bs : List EncBlock, items = bs.map some ∧ tail = .eof ∧
        Complete (accept P s) (Decrypt.blockFinal s.version) n bs (Decrypt.run P s items tail n).bytes := by
  sorry

/-- Level B: an accepted packet carries, at the receiver's position, the HMAC
    under the receiver's MAC key of the hash of
    header hash ‖ chunk nonce (packet number) ‖ [final byte] ‖ ciphertext, and its
    chunk is the opening of that ciphertext under the payload key and that nonce. -/
theorem accept_binds (s : Decrypt.State) (b : EncBlock) (seqno : Nat) (c : Bytes)
    (h : accept P s b seqno = some c) :
    ∃ ph, payloadHash P s.version s.headerHash (Nonce.chunkSecretBox (seqno - 1)) b.ct
            (Decrypt.blockFinal s.version b) = .ok ph ∧
      b.auths[s.position]? = some (payloadAuthenticator P s.macKey ph) ∧
      P.sbOpen s.payloadKey (Nonce.chunkSecretBox (seqno - 1)) b.ct = some c ∧
      blockNumberOK (seqno - 1) = true := by
  sorry

end Dec

/-- Level B, unique decomposition (V2 MAC input): equal hashed strings with
    64-byte header hashes and 24-byte nonces have equal fields. -/
theorem macInput_inj_v2 (hh hh' n n' ct ct' : Bytes) (f f' : Bool)
    (h1 : hh.length = 64) (h2 : hh'.length = 64) (h3 : n.length = 24) (h4 : n'.length = 24)
    (h : hh ++ n ++ finalByte f ++ ct = hh' ++ n' ++ finalByte f' ++ ct') :
    hh = hh' ∧ n = n' ∧ f = f' ∧ ct = ct' := by
  sorry

theorem macInput_inj_v1 (hh hh' n n' ct ct' : Bytes)
    (h1 : hh.length = 64) (h2 : hh'.length = 64) (h3 : n.length = 24) (h4 : n'.length = 24)
    (h : hh ++ n ++ ct = hh' ++ n' ++ ct') :
    hh = hh' ∧ n = n' ∧ ct = ct' := by
  sorry

/-- the chunk nonce determines the chunk number (below the overflow guard) -/
theorem chunkSecretBox_inj (i j : Nat) (hi : i < 2 ^ 64) (hj : j < 2 ^ 64)
    (h : Nonce.chunkSecretBox i = Nonce.chunkSecretBox j) : i = j := by
  sorry

theorem be64_inj (i j : Nat) (hi : i < 2 ^ 64) (hj : j < 2 ^ 64) (h : be64 i = be64 j) : i = j := by
  sorry

theorem be64_length (i : Nat) : (be64 i).length = 8 := by
  sorry

/-- the signcryption nonce determines final flag and chunk number, for a fixed
    64-byte header hash -/
theorem chunkSigncryption_inj (hh : Bytes) (hl : hh.length = 64) (f f' : Bool) (i j : Nat)
    (hi : i < 2 ^ 64) (hj : j < 2 ^ 64)
    (h : Nonce.chunkSigncryption hh f i = Nonce.chunkSigncryption hh f' j) : f = f' ∧ i = j := by
  sorry

/-! ## signcryption -/
namespace Sc
variable (P : Prims)

def accept (s : Signcrypt.State) (b : SigncryptBlock) (seqno : Nat) : Option Bytes :=
  match Signcrypt.processBlock P s b seqno with
  | .ok chunk =>
    match checkChunkState v2 chunk.length (seqno - 1) b.final with
    | .ok () => some chunk
    | .error _ => none
  | .error _ => none

theorem run_prefix (s : Signcrypt.State) (items : List (Option SigncryptBlock)) (tail : Tail) (n : Nat) :
    ∃ bs : List SigncryptBlock, (bs.map some) <+: items ∧
      Chain (accept P s) (·.final) n bs (Signcrypt.run P s items tail n).bytes := by
  sorry

theorem run_ok_iff (s : Signcrypt.State) (items : List (Option SigncryptBlock)) (tail : Tail) (n : Nat) :
    (Signcrypt.run P s items tail n).err = none ↔
      ∃ bs : List SigncryptBlock, items = bs.map some ∧ tail = .eof ∧
        Complete (accept P s) (·.final) n bs (Signcrypt.run P s items tail n).bytes := by
  sorry

/-- Level B: an accepted packet of a *named* sender opens under the payload key
    and the (header hash, final flag, packet number) nonce to signature ‖ chunk,
    and the signature verifies, under the sender's key, on
    domain ‖ header hash ‖ nonce ‖ final byte ‖ SHA-512(chunk). -/
theorem accept_binds (s : Signcrypt.State) (spk : Bytes) (hs : s.sender = some spk)
    (b : SigncryptBlock) (seqno : Nat) (c : Bytes) (h : accept P s b seqno = some c) :
    ∃ sig, sig.length = 64 ∧
      P.sbOpen s.payloadKey (Nonce.chunkSigncryption s.headerHash b.final (seqno - 1)) b.ct = some (sig ++ c) ∧
      P.verify spk (signcryptionSignatureInput P s.headerHash
          (Nonce.chunkSigncryption s.headerHash b.final (seqno - 1)) b.final c) sig = true ∧
      blockNumberOK (seqno - 1) = true := by
  sorry

/-- empty chunks are accepted only as the sole, final chunk -/
theorem accept_empty (s : Signcrypt.State) (b : SigncryptBlock) (seqno : Nat)
    (h : accept P s b seqno = some []) : seqno - 1 = 0 ∧ b.final = true := by
  sorry

end Sc

/-- unique decomposition of the signcryption signature input -/
theorem signcryptInput_inj (P : Prims) (hP : ∀ m, (P.hash m).length = 64)
    (hh hh' n n' c c' : Bytes) (f f' : Bool)
    (h1 : hh.length = 64) (h2 : hh'.length = 64) (h3 : n.length = 24) (h4 : n'.length = 24)
    (h : signcryptionSignatureInput P hh n f c = signcryptionSignatureInput P hh' n' f' c') :
    hh = hh' ∧ n = n' ∧ f = f' ∧ P.hash c = P.hash c' := by
  sorry

/-! ## attached signatures -/
namespace Ver
variable (P : Prims)

def accept (s : Sign.State) (b : SigBlock) (seqno : Nat) : Option Bytes :=
  match Sign.processBlock P s b (Sign.blockFinal s.version b) seqno with
  | .ok () =>
    match checkChunkState s.version b.chunk.length (seqno - 1) (Sign.blockFinal s.version b) with
    | .ok () => some b.chunk
    | .error _ => none
  | .error _ => none

theorem run_prefix (s : Sign.State) (items : List (Option SigBlock)) (tail : Tail) (n : Nat) :
    ∃ bs : List SigBlock, (bs.map some) <+: items ∧
      Chain (accept P s) (Sign.blockFinal s.version) n bs (Sign.run P s items tail n).bytes := by
  sorry

theorem run_ok_iff (s : Sign.State) (items : List (Option SigBlock)) (tail : Tail) (n : Nat) :
    (Sign.run P s items tail n).err = none ↔
      ∃ bs : List SigBlock, items = bs.map some ∧ tail = .eof ∧
        Complete (accept P s) (Sign.blockFinal s.version) n bs (Sign.run P s items tail n).bytes := by
  sorry

/-- Level B: an accepted packet's signature verifies, under the looked-up key,
    on domain ‖ SHA-512(header hash ‖ packet number ‖ [final byte] ‖ chunk), and
    the released chunk is the packet's chunk. -/
theorem accept_binds (s : Sign.State) (b : SigBlock) (seqno : Nat) (c : Bytes)
    (h : accept P s b seqno = some c) :
    c = b.chunk ∧
    ∃ inp, attachedSignatureInput P s.version s.headerHash b.chunk (seqno - 1)
              (Sign.blockFinal s.version b) = .ok inp ∧
      P.verify s.publicKey inp b.sig = true := by
  sorry

end Ver

/-- unique decomposition of what is hashed for an attached signature (V2) -/
theorem attachedInput_inj_v2 (hh hh' c c' : Bytes) (i j : Nat) (f f' : Bool)
    (h1 : hh.length = 64) (h2 : hh'.length = 64) (hi : i < 2 ^ 64) (hj : j < 2 ^ 64)
    (h : hh ++ be64 i ++ finalByte f ++ c = hh' ++ be64 j ++ finalByte f' ++ c') :
    hh = hh' ∧ i = j ∧ f = f' ∧ c = c' := by
  sorry

theorem attachedInput_inj_v1 (hh hh' c c' : Bytes) (i j : Nat)
    (h1 : hh.length = 64) (h2 : hh'.length = 64) (hi : i < 2 ^ 64) (hj : j < 2 ^ 64)
    (h : hh ++ be64 i ++ c = hh' ++ be64 j ++ c') :
    hh = hh' ∧ i = j ∧ c = c' := by
  sorry

/-- the three signature domain strings are pairwise distinct, of equal length,
    hence none is a prefix of another: inputs of different modes never coincide -/
theorem domains_separate :
    Gen.c_sp_signatureAttachedString.length = Gen.c_sp_signatureDetachedString.length ∧
    Gen.c_sp_signatureAttachedString ≠ Gen.c_sp_signatureDetachedString ∧
    ¬ (Gen.c_sp_signatureAttachedString <+: Gen.c_sp_signatureEncryptedString) ∧
    ¬ (Gen.c_sp_signatureDetachedString <+: Gen.c_sp_signatureEncryptedString) ∧
    ¬ (Gen.c_sp_signatureEncryptedString <+: Gen.c_sp_signatureAttachedString) ∧
    ¬ (Gen.c_sp_signatureEncryptedString <+: Gen.c_sp_signatureDetachedString) := by
  sorry

end Saltpack.Proofs
